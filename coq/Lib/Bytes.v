(* Lib/Bytes.v — words as N with explicit masks, bytes as list N. Definitions only. *)
From Coq Require Export List NArith Bool.
From Coq Require Import Lia.
Export ListNotations.
Local Open Scope N_scope.

Definition byte := N.
Definition bytes := list N.

Definition mask8  : N := 255.
Definition mask16 : N := 65535.
Definition mask32 : N := 4294967295.
Definition mask64 : N := 18446744073709551615.
Definition mask128 : N := 340282366920938463463374607431768211455.

Definition w8  (x : N) : N := N.land x mask8.
Definition w16 (x : N) : N := N.land x mask16.
Definition w32 (x : N) : N := N.land x mask32.
Definition w64 (x : N) : N := N.land x mask64.
Definition w128 (x : N) : N := N.land x mask128.

Definition add32 (a b : N) : N := w32 (a + b).
Definition add64 (a b : N) : N := w64 (a + b).
Definition not32 (a : N) : N := N.lxor (w32 a) mask32.
Definition not64 (a : N) : N := N.lxor (w64 a) mask64.

Definition rotl32 (x : N) (n : N) : N :=
  w32 (N.lor (N.shiftl x n) (N.shiftr (w32 x) (32 - n))).
Definition rotr32 (x : N) (n : N) : N :=
  w32 (N.lor (N.shiftr (w32 x) n) (N.shiftl x (32 - n))).
Definition rotl64 (x : N) (n : N) : N :=
  w64 (N.lor (N.shiftl x n) (N.shiftr (w64 x) (64 - n))).
Definition rotr64 (x : N) (n : N) : N :=
  w64 (N.lor (N.shiftr (w64 x) n) (N.shiftl x (64 - n))).
Definition rotl16 (x : N) (n : N) : N :=
  w16 (N.lor (N.shiftl x n) (N.shiftr (w16 x) (16 - n))).

(* big-endian / little-endian conversions *)
Fixpoint be_to_N (l : bytes) : N :=
  match l with [] => 0 | b :: t => N.lor (N.shiftl (w8 b) (8 * N.of_nat (length t))) (be_to_N t) end.
Fixpoint le_to_N (l : bytes) : N :=
  match l with [] => 0 | b :: t => N.lor (w8 b) (N.shiftl (le_to_N t) 8) end.
Fixpoint N_to_le (n : nat) (x : N) : bytes :=
  match n with O => [] | S k => w8 x :: N_to_le k (N.shiftr x 8) end.
Definition N_to_be (n : nat) (x : N) : bytes := rev (N_to_le n x).

Definition be32 (x : N) : bytes := N_to_be 4 x.
Definition be64 (x : N) : bytes := N_to_be 8 x.
Definition le32 (x : N) : bytes := N_to_le 4 x.
Definition le64 (x : N) : bytes := N_to_le 8 x.

Fixpoint xor_bytes (a b : bytes) : bytes :=
  match a, b with
  | x :: a', y :: b' => N.lxor x y :: xor_bytes a' b'
  | _, _ => []
  end.

(* xor as far as [a] goes; [b] padded with zeros *)
Fixpoint xor_bytes_l (a b : bytes) : bytes :=
  match a with
  | [] => []
  | x :: a' => match b with
               | [] => x :: xor_bytes_l a' []
               | y :: b' => N.lxor x y :: xor_bytes_l a' b'
               end
  end.

Definition zeros (n : nat) : bytes := repeat 0 n.

(* split into chunks of n bytes (last one may be short); fuel = length *)
Fixpoint chunks_fuel (fuel n : nat) (l : bytes) : list bytes :=
  match fuel with
  | O => []
  | S f => match l with
           | [] => []
           | _ => firstn n l :: chunks_fuel f n (skipn n l)
           end
  end.
Definition chunks (n : nat) (l : bytes) : list bytes := chunks_fuel (length l) n l.

Definition words_be (n : nat) (l : bytes) : list N := map be_to_N (chunks n l).
Definition words_le (n : nat) (l : bytes) : list N := map le_to_N (chunks n l).

Definition bytes_ok (l : bytes) : bool := forallb (fun b => b <? 256) l.

Definition nth_N (l : list N) (i : nat) : N := nth i l 0.

(* pad with zeros on the right up to length n (no truncation) *)
Definition pad_right (n : nat) (l : bytes) : bytes := l ++ zeros (n - length l).

Fixpoint iter {A} (n : nat) (f : A -> A) (x : A) : A :=
  match n with O => x | S k => iter k f (f x) end.

Fixpoint upto (n : nat) : list nat :=
  match n with O => [] | S k => upto k ++ [k] end.
