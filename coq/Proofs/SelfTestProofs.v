(* Proofs/SelfTestProofs.v — C20: the power-up self-test gates initialisation.

   Part A (finite, complete): every vector of the regenerated tables passes under the
           specifications, is well-formed, and detects the corruption the callback can cause.
           Discharged by vm_compute over the WHOLE generated table ([all_items]).
   Part B (structural, all callbacks): induction over the vector list / loops / groups, generic
           in the KAT outcome function, the pre-check and the callback state machine.
   Part C: instantiation with the generated tables and [kat_spec]. *)
From Coq Require Import NArith List String Bool Arith Lia.
From IMB Require Import Lib.Bytes Mgr.SelfTestVec Gen.GenSelfTest Mgr.SelfTest.
Import ListNotations.
Local Open Scope nat_scope.

(* ------------------------------------------------------------------------------------------ *)
(* Part A — the finite facts about the generated tables                                        *)

Lemma vectors_wf_all : forallb (fun it => vec_wf (it_vec it) && vec_pre (it_vec it)) all_items = true.
Proof. vm_compute. reflexivity. Qed.

Lemma vectors_pass_all : forallb (fun it => kat_spec (it_vec it) false) all_items = true.
Proof. vm_compute. reflexivity. Qed.

Lemma vectors_detect_all : forallb (fun it => negb (kat_spec (it_vec it) true)) all_items = true.
Proof. vm_compute. reflexivity. Qed.

(* every table of the generated file is looped over (the translator checks: exactly once) *)
Lemma all_items_count :
  length all_items = length gen_cipher_vectors + length gen_hash_vectors +
                     length gen_aead_gcm_vectors + length gen_aead_ccm_vectors.
Proof. vm_compute. reflexivity. Qed.

Lemma all_items_nonempty : all_items <> [].
Proof. vm_compute. discriminate. Qed.

(* ------------------------------------------------------------------------------------------ *)
(* Part B — generic control-flow theorems                                                      *)

Section Generic.
  Variable S : Type.
  Variable step : S -> event -> S * bool.
  Variable pre : vec -> bool.
  Variable kat : vec -> bool -> bool.

  (* "the library computes what the specification says" for the items under consideration *)
  Definition good_item (it : item) : Prop :=
    pre (it_vec it) = true /\ kat (it_vec it) false = true /\ kat (it_vec it) true = false.

  Notation run_item := (run_item S step pre kat).
  Notation run_loop := (run_loop S step pre kat).
  Notation run_loops := (run_loops S step pre kat).
  Notation run_group := (run_group S step pre kat).
  Notation run_exec := (run_exec S step pre kat).

  (* -- one item -- *)
  Lemma run_item_good : forall s it,
      good_item it ->
      let '(s', r, ev, c) := run_item s it in
      r = negb c /\ ev = item_events it c /\
      c = negb (snd (step (fst (step s (EvStart (it_type it) (vec_descr (it_vec it))))) EvCorrupt)) /\
      s' = final_state S step s ev.
  Proof.
    intros s it (Hp & Hk0 & Hk1). unfold SelfTest.run_item. rewrite Hp.
    destruct (step (fst (step s (EvStart (it_type it) (vec_descr (it_vec it))))) EvCorrupt) as [s2 a] eqn:E.
    cbn [snd]. destruct a; cbn [negb].
    - rewrite Hk0. cbn. rewrite E. cbn. repeat split; reflexivity.
    - rewrite Hk1. cbn. rewrite E. cbn. repeat split; reflexivity.
  Qed.

  (* -- the callback-side replay functions distribute over ++ -- *)
  Lemma final_state_app : forall e1 e2 s,
      final_state S step s (e1 ++ e2) = final_state S step (final_state S step s e1) e2.
  Proof. induction e1; intros; cbn; auto. Qed.

  Lemma corrupt_answers_app : forall e1 e2 s,
      corrupt_answers S step s (e1 ++ e2) =
      corrupt_answers S step s e1 ++ corrupt_answers S step (final_state S step s e1) e2.
  Proof.
    induction e1 as [|e t IH]; intros e2 s; cbn; auto.
    destruct (step s e) as [s' a] eqn:E. cbn [fst].
    destruct e; rewrite IH; reflexivity.
  Qed.

  Lemma corrupt_answers_item : forall s it c,
      c = negb (snd (step (fst (step s (EvStart (it_type it) (vec_descr (it_vec it))))) EvCorrupt)) ->
      corrupt_answers S step s (item_events it c) = [negb c].
  Proof.
    intros s it c ->. unfold item_events. cbn.
    destruct (step s (EvStart (it_type it) (vec_descr (it_vec it)))) as [s1 a1]. cbn.
    destruct (step s1 EvCorrupt) as [s2 a2]. cbn.
    destruct a2; cbn; destruct (step s2 _); reflexivity.
  Qed.

  (* -- one loop: `if (r == 0) ret = 0` accumulates a conjunction -- *)
  Lemma run_loop_good : forall its s ret,
      Forall good_item its ->
      let '(s', ret', ev, cs) := run_loop s ret its in
      ret' = ret && forallb negb cs /\
      length cs = length its /\
      ev = expected_events its cs /\
      corrupt_answers S step s ev = map negb cs /\
      s' = final_state S step s ev.
  Proof.
    induction its as [|it t IH]; intros s ret HF; cbn.
    - rewrite andb_true_r. repeat split; reflexivity.
    - inversion HF as [|? ? Hit Ht]; subst.
      pose proof (run_item_good s it Hit) as H1.
      destruct (SelfTest.run_item S step pre kat s it) as [[[s1 r] ev1] c] eqn:E1.
      destruct H1 as (Hr & Hev & Hc & Hs1).
      specialize (IH s1 (if r then ret else false) Ht).
      destruct (SelfTest.run_loop S step pre kat s1 (if r then ret else false) t) as [[[s2 ret2] ev2] cs] eqn:E2.
      destruct IH as (Hret & Hlen & Hev2 & Hans & Hs2).
      repeat split.
      + rewrite Hret, Hr. cbn. destruct c, ret; cbn; reflexivity.
      + cbn. rewrite Hlen. reflexivity.
      + cbn. rewrite Hev, Hev2. reflexivity.
      + rewrite corrupt_answers_app. rewrite <- Hs1. rewrite Hans.
        rewrite Hev. rewrite (corrupt_answers_item s it c Hc). reflexivity.
      + rewrite final_state_app, <- Hs1. exact Hs2.
  Qed.

  Lemma expected_events_app : forall a b ca cb,
      length ca = length a ->
      expected_events (a ++ b) (ca ++ cb) = expected_events a ca ++ expected_events b cb.
  Proof.
    induction a as [|x a IH]; intros b ca cb Hl; destruct ca; cbn in *; try discriminate; auto.
    rewrite IH by lia. reflexivity.
  Qed.

  Lemma forallb_negb_app : forall a b, forallb negb (a ++ b) = forallb negb a && forallb negb b.
  Proof. intros. apply forallb_app. Qed.

  (* -- a group function: several loops sharing one `ret` -- *)
  Lemma run_loops_good : forall loops s ret,
      Forall (Forall good_item) loops ->
      let '(s', ret', ev, cs) := run_loops s ret loops in
      ret' = ret && forallb negb cs /\
      length cs = length (concat loops) /\
      ev = expected_events (concat loops) cs /\
      corrupt_answers S step s ev = map negb cs /\
      s' = final_state S step s ev.
  Proof.
    induction loops as [|l t IH]; intros s ret HF; cbn.
    - rewrite andb_true_r. repeat split; reflexivity.
    - inversion HF as [|? ? Hl Ht]; subst.
      pose proof (run_loop_good l s ret Hl) as H1.
      destruct (SelfTest.run_loop S step pre kat s ret l) as [[[s1 ret1] ev1] c1] eqn:E1.
      destruct H1 as (Hr1 & Hlen1 & Hev1 & Hans1 & Hs1).
      specialize (IH s1 ret1 Ht).
      destruct (SelfTest.run_loops S step pre kat s1 ret1 t) as [[[s2 ret2] ev2] c2] eqn:E2.
      destruct IH as (Hr2 & Hlen2 & Hev2 & Hans2 & Hs2).
      repeat split.
      + rewrite Hr2, Hr1, forallb_negb_app, andb_assoc. reflexivity.
      + rewrite !app_length, Hlen1, Hlen2. reflexivity.
      + rewrite expected_events_app by exact Hlen1. rewrite Hev1, Hev2. reflexivity.
      + rewrite corrupt_answers_app, <- Hs1, Hans1, Hans2, map_app. reflexivity.
      + rewrite final_state_app, <- Hs1. exact Hs2.
  Qed.

  (* -- self_test_exec: `if (!group()) ret = 0` -- *)
  Lemma run_exec_good : forall groups s ret,
      Forall (Forall (Forall good_item)) groups ->
      let '(s', ret', ev, cs) := run_exec s ret groups in
      ret' = ret && forallb negb cs /\
      length cs = length (concat (concat groups)) /\
      ev = expected_events (concat (concat groups)) cs /\
      corrupt_answers S step s ev = map negb cs /\
      s' = final_state S step s ev.
  Proof.
    induction groups as [|g t IH]; intros s ret HF; cbn.
    - rewrite andb_true_r. repeat split; reflexivity.
    - inversion HF as [|? ? Hg Ht]; subst.
      pose proof (run_loops_good g s true Hg) as H1. unfold SelfTest.run_group.
      destruct (SelfTest.run_loops S step pre kat s true g) as [[[s1 r1] ev1] c1] eqn:E1.
      destruct H1 as (Hr1 & Hlen1 & Hev1 & Hans1 & Hs1).
      specialize (IH s1 (if negb r1 then false else ret) Ht).
      destruct (SelfTest.run_exec S step pre kat s1 (if negb r1 then false else ret) t) as [[[s2 ret2] ev2] c2] eqn:E2.
      destruct IH as (Hr2 & Hlen2 & Hev2 & Hans2 & Hs2).
      repeat split.
      + rewrite Hr2, Hr1, forallb_negb_app. cbn.
        destruct (forallb negb c1), ret; cbn; reflexivity.
      + rewrite concat_app, !app_length, Hlen1, Hlen2. reflexivity.
      + rewrite concat_app, expected_events_app by exact Hlen1. rewrite Hev1, Hev2. reflexivity.
      + rewrite corrupt_answers_app, <- Hs1, Hans1, Hans2, map_app. reflexivity.
      + rewrite final_state_app, <- Hs1. exact Hs2.
  Qed.

  (* -- feature bits -- *)
  Definition has_bit (f b : N) : bool := negb (N.land f b =? 0)%N.

  Section Bits.
    Variables i j : N.
    Hypothesis Hij : i <> j.
    Let ST := (2 ^ i)%N.
    Let PASS := (2 ^ j)%N.

    Lemma has_bit_testbit : forall f k, has_bit f (2 ^ k) = N.testbit f k.
    Proof.
      intros f k. unfold has_bit.
      destruct (N.testbit f k) eqn:E.
      - apply negb_true_iff, N.eqb_neq. intro H.
        assert (N.testbit (N.land f (2 ^ k)) k = true) by (rewrite N.land_spec, E, N.pow2_bits_true; reflexivity).
        rewrite H in H0. rewrite N.bits_0 in H0. discriminate.
      - apply negb_false_iff, N.eqb_eq. apply N.bits_inj. intro n.
        rewrite N.land_spec, N.bits_0, N.pow2_bits_eqb.
        destruct (N.eqb_spec k n); subst; [rewrite E|]; cbn; auto using andb_false_r.
    Qed.

    Lemma feat_st : forall f (r : bool),
        has_bit (if r then N.lor (N.ldiff (N.lor f ST) PASS) PASS else N.ldiff (N.lor f ST) PASS) ST = true.
    Proof.
      intros f r. unfold ST, PASS. rewrite has_bit_testbit.
      destruct r; repeat rewrite ?N.lor_spec, ?N.ldiff_spec, ?N.pow2_bits_eqb;
        rewrite N.eqb_refl; destruct (N.eqb_spec j i); try congruence; cbn;
        rewrite ?orb_true_r; reflexivity.
    Qed.

    Lemma feat_pass : forall f (r : bool),
        has_bit (if r then N.lor (N.ldiff (N.lor f ST) PASS) PASS else N.ldiff (N.lor f ST) PASS) PASS = r.
    Proof.
      intros f r. unfold ST, PASS. rewrite has_bit_testbit.
      destruct r; repeat rewrite ?N.lor_spec, ?N.ldiff_spec, ?N.pow2_bits_eqb;
        rewrite N.eqb_refl; cbn; rewrite ?orb_true_r, ?andb_false_r; reflexivity.
    Qed.

    Lemma feat_other : forall f (r : bool) k, k <> i -> k <> j ->
        N.testbit (if r then N.lor (N.ldiff (N.lor f ST) PASS) PASS else N.ldiff (N.lor f ST) PASS) k = N.testbit f k.
    Proof.
      intros f r k Hi Hj. unfold ST, PASS.
      destruct r; repeat rewrite ?N.lor_spec, ?N.ldiff_spec, ?N.pow2_bits_eqb;
        destruct (N.eqb_spec i k); destruct (N.eqb_spec j k); try congruence; cbn;
        rewrite ?orb_false_r, ?andb_true_r; reflexivity.
    Qed.
  End Bits.
End Generic.

(* the generated feature masks are two distinct single bits *)
Lemma gen_st_pow2 : gen_FEATURE_SELF_TEST = (2 ^ N.log2 gen_FEATURE_SELF_TEST)%N.
Proof. vm_compute. reflexivity. Qed.
Lemma gen_pass_pow2 : gen_FEATURE_SELF_TEST_PASS = (2 ^ N.log2 gen_FEATURE_SELF_TEST_PASS)%N.
Proof. vm_compute. reflexivity. Qed.
Lemma gen_bits_distinct : N.log2 gen_FEATURE_SELF_TEST <> N.log2 gen_FEATURE_SELF_TEST_PASS.
Proof. vm_compute. discriminate. Qed.
Lemma gen_err_nonzero : gen_ERR_SELFTEST <> 0%N.
Proof. vm_compute. discriminate. Qed.

Definition st_bit : N := N.log2 gen_FEATURE_SELF_TEST.
Definition pass_bit : N := N.log2 gen_FEATURE_SELF_TEST_PASS.

(* ------------------------------------------------------------------------------------------ *)
(* The gate theorem, generic in the tables / outcome function                                  *)

Section Gate.
  Variable S : Type.
  Variable step : S -> event -> S * bool.
  Variable pre : vec -> bool.
  Variable kat : vec -> bool -> bool.
  Variable groups : list (list (list item)).
  Hypothesis Hgood : Forall (Forall (Forall (good_item pre kat))) groups.

  Let items := concat (concat groups).

  Theorem gate_generic : forall (fn : init_fn) (cpu : N) (s0 : S),
      let r := init_gen S step pre kat groups fn cpu s0 in
      let uncorrupted := forallb negb (sr_corrupted r) in
      (* one entry per vector, and it is what the callback answered to the CORRUPT events *)
      length (sr_corrupted r) = length items /\
      corrupt_answers S step s0 (sr_events r) = map negb (sr_corrupted r) /\
      sr_state r = final_state S step s0 (sr_events r) /\
      (* the callback sequence: START(type, descr), CORRUPT, then FAIL for exactly the
         corrupted vectors and PASS for the others, in table order *)
      sr_events r = expected_events items (sr_corrupted r) /\
      (* gating *)
      sr_ret r = uncorrupted /\
      has_bit (sr_features r) gen_FEATURE_SELF_TEST = true /\
      has_bit (sr_features r) gen_FEATURE_SELF_TEST_PASS = uncorrupted /\
      sr_errno r = (if uncorrupted then 0%N else gen_ERR_SELFTEST) /\
      (forall k, k <> st_bit -> k <> pass_bit -> N.testbit (sr_features r) k = N.testbit cpu k).
  Proof.
    intros fn cpu s0. unfold init_gen, self_test.
    pose proof (run_exec_good S step pre kat groups s0 true Hgood) as H.
    destruct (run_exec S step pre kat s0 true groups) as [[[s1 r1] ev] cs] eqn:E.
    destruct H as (Hr & Hlen & Hev & Hans & Hs). cbn in Hr.
    cbn [sr_corrupted sr_events sr_state sr_ret sr_features sr_errno].
    assert (Hret : (if negb r1 then false else true) = forallb negb cs) by (rewrite Hr; destruct (forallb negb cs); reflexivity).
    rewrite Hret.
    generalize gen_st_pow2 gen_pass_pow2 gen_bits_distinct. unfold st_bit, pass_bit.
    generalize (N.log2 gen_FEATURE_SELF_TEST) (N.log2 gen_FEATURE_SELF_TEST_PASS).
    generalize gen_FEATURE_SELF_TEST gen_FEATURE_SELF_TEST_PASS.
    intros a b i j -> -> Hij.
    repeat split; auto.
    - apply feat_st. exact Hij.
    - apply feat_pass.
    - destruct (forallb negb cs); reflexivity.
    - intros k Hk1 Hk2. apply feat_other; assumption.
  Qed.
End Gate.

(* consequences in the words of the property *)
Lemma forallb_negb_false_iff : forall cs, forallb negb cs = true <-> (forall i, nth i cs false = false).
Proof.
  induction cs as [|c t IH]; cbn.
  - split; auto. intros _ i. destruct i; reflexivity.
  - rewrite andb_true_iff, IH. split.
    + intros [Hc Ht] i. destruct i; [destruct c; cbn in *; congruence | apply Ht].
    + intros H. split; [specialize (H 0); cbn in H; subst; reflexivity | intro i; apply (H (Datatypes.S i))].
Qed.

(* the i-th vector's three callbacks sit at positions 3i, 3i+1, 3i+2 of the stream *)
Lemma expected_events_nth : forall its cs i it,
    length cs = length its -> nth_error its i = Some it ->
    nth_error (expected_events its cs) (3 * i) = Some (EvStart (it_type it) (vec_descr (it_vec it))) /\
    nth_error (expected_events its cs) (3 * i + 1) = Some EvCorrupt /\
    nth_error (expected_events its cs) (3 * i + 2) = Some (if nth i cs false then EvFail else EvPass).
Proof.
  induction its as [|x t IH]; intros cs i it Hl Hn.
  - destruct i; discriminate.
  - destruct cs as [|c ct]; [discriminate|]. cbn in Hl.
    destruct i.
    + cbn in Hn. inversion Hn; subst. cbn. repeat split; reflexivity.
    + cbn in Hn. specialize (IH ct i it ltac:(lia) Hn).
      replace (3 * Datatypes.S i) with (Datatypes.S (Datatypes.S (Datatypes.S (3 * i)))) by lia.
      cbn [expected_events item_events app nth_error plus nth]. exact IH.
Qed.

Lemma expected_events_length : forall its cs, length cs = length its -> length (expected_events its cs) = 3 * length its.
Proof.
  induction its; intros cs H; destruct cs; cbn in *; try discriminate; auto.
  rewrite IHits by lia. lia.
Qed.

(* ------------------------------------------------------------------------------------------ *)
(* Part C — instantiation with the generated tables                                            *)

Lemma forallb_concat {A} (p : A -> bool) : forall ll, forallb p (concat ll) = forallb (forallb p) ll.
Proof. induction ll; cbn; auto. rewrite forallb_app, IHll. reflexivity. Qed.

Lemma st_groups_good : Forall (Forall (Forall (good_item vec_pre kat_spec))) st_groups.
Proof.
  assert (H : forallb (forallb (forallb (fun it => vec_pre (it_vec it) && kat_spec (it_vec it) false &&
                                                 negb (kat_spec (it_vec it) true)))) st_groups = true).
  { rewrite <- !forallb_concat. fold all_items.
    pose proof vectors_wf_all as A. pose proof vectors_pass_all as B. pose proof vectors_detect_all as C.
    rewrite forallb_forall in *. intros x Hx. specialize (A x Hx). specialize (B x Hx). specialize (C x Hx).
    apply andb_true_iff in A. destruct A as [_ A]. rewrite A, B, C. reflexivity. }
  apply Forall_forall. intros g Hg. apply Forall_forall. intros l Hl. apply Forall_forall. intros it Hit.
  rewrite forallb_forall in H. specialize (H g Hg).
  rewrite forallb_forall in H. specialize (H l Hl).
  rewrite forallb_forall in H. specialize (H it Hit).
  apply andb_true_iff in H. destruct H as [H H3]. apply andb_true_iff in H. destruct H as [H1 H2].
  unfold good_item. apply negb_true_iff in H3. auto.
Qed.

Theorem selftest_gates_proof : forall (S : Type) (step : S -> event -> S * bool) (fn : init_fn) (cpu : N) (s0 : S),
    let r := init_model S step fn cpu s0 in
    let uncorrupted := forallb negb (sr_corrupted r) in
    length (sr_corrupted r) = length all_items /\
    corrupt_answers S step s0 (sr_events r) = map negb (sr_corrupted r) /\
    sr_state r = final_state S step s0 (sr_events r) /\
    sr_events r = expected_events all_items (sr_corrupted r) /\
    sr_ret r = uncorrupted /\
    has_bit (sr_features r) gen_FEATURE_SELF_TEST = true /\
    has_bit (sr_features r) gen_FEATURE_SELF_TEST_PASS = uncorrupted /\
    sr_errno r = (if uncorrupted then 0%N else gen_ERR_SELFTEST) /\
    (forall k, k <> st_bit -> k <> pass_bit -> N.testbit (sr_features r) k = N.testbit cpu k).
Proof.
  intros S step fn cpu s0. exact (gate_generic S step vec_pre kat_spec st_groups st_groups_good fn cpu s0).
Qed.

(* "reports success only if every one of them passed" / "iff no vector was corrupted" *)
Theorem selftest_success_iff_proof : forall (S : Type) (step : S -> event -> S * bool) fn cpu s0,
    let r := init_model S step fn cpu s0 in
    (has_bit (sr_features r) gen_FEATURE_SELF_TEST_PASS = true /\ sr_errno r = 0%N)
    <-> (forall i, nth i (sr_corrupted r) false = false).
Proof.
  intros S step fn cpu s0 r.
  destruct (selftest_gates_proof S step fn cpu s0) as (_ & _ & _ & _ & _ & _ & Hp & He & _).
  fold r in Hp, He. rewrite Hp, He, <- forallb_negb_false_iff.
  destruct (forallb negb (sr_corrupted r)); split; auto.
  - intros [H _]. discriminate.
  - intros H. discriminate.
Qed.

Theorem selftest_failure_code_proof : forall (S : Type) (step : S -> event -> S * bool) fn cpu s0,
    let r := init_model S step fn cpu s0 in
    (exists i, nth i (sr_corrupted r) false = true) ->
    has_bit (sr_features r) gen_FEATURE_SELF_TEST_PASS = false /\ sr_errno r = gen_ERR_SELFTEST /\
    has_bit (sr_features r) gen_FEATURE_SELF_TEST = true.
Proof.
  intros S step fn cpu s0 r [i Hi].
  destruct (selftest_gates_proof S step fn cpu s0) as (_ & _ & _ & _ & _ & Hs & Hp & He & _).
  fold r in Hs, Hp, He.
  assert (forallb negb (sr_corrupted r) = false) as F.
  { destruct (forallb negb (sr_corrupted r)) eqn:E; auto.
    apply forallb_negb_false_iff with (i := i) in E. congruence. }
  rewrite F in *. auto.
Qed.

(* per-vector form of the callback sequence *)
Theorem selftest_event_positions_proof : forall (S : Type) (step : S -> event -> S * bool) fn cpu s0 i it,
    let r := init_model S step fn cpu s0 in
    nth_error all_items i = Some it ->
    nth_error (sr_events r) (3 * i) = Some (EvStart (it_type it) (vec_descr (it_vec it))) /\
    nth_error (sr_events r) (3 * i + 1) = Some EvCorrupt /\
    nth_error (sr_events r) (3 * i + 2) = Some (if nth i (sr_corrupted r) false then EvFail else EvPass) /\
    length (sr_events r) = 3 * length all_items.
Proof.
  intros S step fn cpu s0 i it r Hn.
  destruct (selftest_gates_proof S step fn cpu s0) as (Hl & _ & _ & Hev & _).
  fold r in Hl, Hev. rewrite Hev.
  destruct (expected_events_nth all_items (sr_corrupted r) i it Hl Hn) as (A & B & C).
  repeat split; auto. apply expected_events_length; exact Hl.
Qed.

(* ------------------------------------------------------------------------------------------ *)
(* arbitrary subsets: the counting callback of the harness corrupts exactly the set it is given *)

Section Subsets.
  Variable X : list nat.
  Variable pre : vec -> bool.
  Variable kat : vec -> bool -> bool.

  Definition inX (i : nat) : bool := existsb (Nat.eqb i) X.

  Lemma set_loop : forall its n ret,
      Forall (fun it => pre (it_vec it) = true) its ->
      let '(n', _, _, cs) := run_loop nat (set_step X) pre kat n ret its in
      n' = n + length its /\ cs = map inX (seq n (length its)).
  Proof.
    induction its as [|it t IH]; intros n ret HF; cbn.
    - split; [lia | reflexivity].
    - inversion HF as [|? ? Hp Ht]; subst. unfold run_item. rewrite Hp. cbn.
      rewrite negb_involutive.
      specialize (IH (Datatypes.S n) (if kat (it_vec it) (existsb (Nat.eqb n) X) then ret else false) Ht).
      destruct (kat (it_vec it) (existsb (Nat.eqb n) X)); cbn in *;
      destruct (run_loop nat (set_step X) pre kat (Datatypes.S n) _ t) as [[[n2 r2] e2] c2];
      destruct IH as [A B]; split; try lia; rewrite B; reflexivity.
  Qed.

  Lemma set_loops : forall loops n ret,
      Forall (Forall (fun it => pre (it_vec it) = true)) loops ->
      let '(n', _, _, cs) := run_loops nat (set_step X) pre kat n ret loops in
      n' = n + length (concat loops) /\ cs = map inX (seq n (length (concat loops))).
  Proof.
    induction loops as [|l t IH]; intros n ret HF; cbn.
    - split; [lia | reflexivity].
    - inversion HF as [|? ? Hl Ht]; subst.
      pose proof (set_loop l n ret Hl) as H1.
      destruct (run_loop nat (set_step X) pre kat n ret l) as [[[n1 r1] e1] c1].
      destruct H1 as [A1 B1]. specialize (IH n1 r1 Ht).
      destruct (run_loops nat (set_step X) pre kat n1 r1 t) as [[[n2 r2] e2] c2].
      destruct IH as [A2 B2]. rewrite app_length. split; [lia|].
      rewrite seq_app, map_app, B1, B2, A1. reflexivity.
  Qed.

  Lemma set_exec : forall groups n ret,
      Forall (Forall (Forall (fun it => pre (it_vec it) = true))) groups ->
      let '(n', _, _, cs) := run_exec nat (set_step X) pre kat n ret groups in
      n' = n + length (concat (concat groups)) /\ cs = map inX (seq n (length (concat (concat groups)))).
  Proof.
    induction groups as [|g t IH]; intros n ret HF; cbn.
    - split; [lia | reflexivity].
    - inversion HF as [|? ? Hg Ht]; subst. unfold run_group.
      pose proof (set_loops g n true Hg) as H1.
      destruct (run_loops nat (set_step X) pre kat n true g) as [[[n1 r1] e1] c1].
      destruct H1 as [A1 B1]. specialize (IH n1 (if negb r1 then false else ret) Ht).
      destruct (run_exec nat (set_step X) pre kat n1 _ t) as [[[n2 r2] e2] c2].
      destruct IH as [A2 B2]. rewrite concat_app, app_length. split; [lia|].
      rewrite seq_app, map_app, B1, B2, A1. reflexivity.
  Qed.
End Subsets.

Lemma st_groups_pre : Forall (Forall (Forall (fun it => vec_pre (it_vec it) = true))) st_groups.
Proof.
  pose proof st_groups_good as H.
  eapply Forall_impl; [|exact H]. intros g Hg.
  eapply Forall_impl; [|exact Hg]. intros l Hl.
  eapply Forall_impl; [|exact Hl]. intros it [Hit _]. exact Hit.
Qed.

Theorem selftest_subsets_proof : forall (X : list nat) fn cpu,
    let r := predict X fn cpu in
    sr_corrupted r = map (inX X) (seq 0 (length all_items)) /\
    (forall i, i < length all_items -> nth i (sr_corrupted r) false = existsb (Nat.eqb i) X).
Proof.
  intros X fn cpu r.
  assert (H : sr_corrupted r = map (inX X) (seq 0 (length all_items))).
  { unfold r, predict, init_model, init_gen, self_test.
    pose proof (set_exec X vec_pre kat_spec st_groups 0 true st_groups_pre) as H.
    destruct (run_exec nat (set_step X) vec_pre kat_spec 0 true st_groups) as [[[n1 r1] e1] c1].
    destruct H as [_ H]. cbn. exact H. }
  split; [exact H|].
  intros i Hi. rewrite H.
  rewrite nth_indep with (d' := inX X 0) by (rewrite map_length, seq_length; exact Hi).
  rewrite map_nth, seq_nth by exact Hi. reflexivity.
Qed.

(* ------------------------------------------------------------------------------------------ *)
(* the documented list                                                                          *)

Local Open Scope string_scope.

Definition pair_eqb (a b : string * string) : bool := String.eqb (fst a) (fst b) && String.eqb (snd a) (snd b).
Definition subset_b (a b : list (string * string)) : bool := forallb (fun x => existsb (pair_eqb x) b) a.

Lemma pair_eqb_eq : forall a b, pair_eqb a b = true <-> a = b.
Proof.
  intros [a1 a2] [b1 b2]. unfold pair_eqb. cbn. rewrite andb_true_iff, !String.eqb_eq.
  split; [intros [-> ->]; reflexivity | intros H; inversion H; auto].
Qed.

Lemma subset_b_incl : forall a b, subset_b a b = true -> incl a b.
Proof.
  intros a b H x Hx. unfold subset_b in H. rewrite forallb_forall in H. specialize (H x Hx).
  apply existsb_exists in H. destruct H as [y [Hy E]]. apply pair_eqb_eq in E. subst. exact Hy.
Qed.

Theorem selftest_announces_documented_list_proof :
  incl announced_families readme_documented /\ incl readme_documented announced_families.
Proof.
  split; apply subset_b_incl; vm_compute; reflexivity.
Qed.

(* every announced (type, description) pair is distinct: a callback can identify a vector by it *)
Fixpoint nodup_b (l : list (string * string)) : bool :=
  match l with [] => true | x :: t => negb (existsb (pair_eqb x) t) && nodup_b t end.

Lemma nodup_b_NoDup : forall l, nodup_b l = true -> NoDup l.
Proof.
  induction l as [|x t IH]; cbn; intros H; constructor.
  - apply andb_true_iff in H. destruct H as [H _]. apply negb_true_iff in H.
    intro Hin. assert (existsb (pair_eqb x) t = true) by (apply existsb_exists; exists x; split; auto; apply pair_eqb_eq; reflexivity).
    congruence.
  - apply IH. apply andb_true_iff in H. tauto.
Qed.

Theorem selftest_announced_distinct_proof : NoDup announced.
Proof. apply nodup_b_NoDup. vm_compute. reflexivity. Qed.
