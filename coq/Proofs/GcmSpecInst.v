(* Proofs/GcmSpecInst.v — C10: the GCM / GMAC streaming theorems stated against the one-shot
   specification Spec/GCM.v (gcm_enc_gen / gcm_dec_gen / gmac_gen, and their AES instances
   gcm_enc / gcm_dec / gmac), for every API form of Struct/GcmStream.v. *)
From Coq Require Import List NArith Bool Lia Arith ZArith ZifyN ZifyNat ZifyBool.
From IMB Require Import Lib.Bytes Spec.GF128 Spec.AES Spec.GCM Struct.GcmStream
     Proofs.StreamLemmas Proofs.GcmStreamProofs Proofs.AesBlockLen.
Import ListNotations.
Local Open Scope N_scope.

Definition gcm_oneshot_gen (E : bytes -> bytes) (dir : gdir) (iv aad msg : bytes) (taglen : nat) : bytes * bytes :=
  match dir with
  | GEnc => gcm_enc_gen E iv aad msg taglen
  | GDec => gcm_dec_gen E iv aad msg taglen
  end.

Lemma gcm_j0_length : forall h iv, length (gcm_j0 h iv) = 16%nat.
Proof.
  intros. unfold gcm_j0. destruct (Nat.eqb_spec (length iv) 12).
  - rewrite app_length. simpl. lia.
  - apply N_to_be_length.
Qed.

Section Generic.
  Variable E : bytes -> bytes.
  Variable lazy : gctx -> bytes -> bool.
  Hypothesis E_len : forall b, length b = 16%nat -> length (E b) = 16%nat.

  Let Hk := H E.

  (* the 12-byte entry points read exactly 12 IV bytes *)
  Lemma j0_twelve : forall iv, length iv = 12%nat -> firstn 12 iv ++ [0; 0; 0; 1] = gcm_j0 Hk iv.
  Proof.
    intros iv Hl. unfold gcm_j0. rewrite Hl. cbn [Nat.eqb]. rewrite firstn_all2 by lia. reflexivity.
  Qed.

  Lemma oneshot_eq : forall dir iv aad msg taglen,
    oneshot E (gcm_j0 Hk iv) aad dir msg taglen = gcm_oneshot_gen E dir iv aad msg taglen.
  Proof. intros. destruct dir; reflexivity. Qed.

  Lemma gcm_init_inv : forall twelve iv aad dir,
    (twelve = true -> length iv = 12%nat) ->
    ginv E (gcm_j0 Hk iv) aad dir (gcm_init E twelve iv aad) [].
  Proof.
    intros twelve iv aad dir Htw. unfold gcm_init.
    replace (if twelve then firstn 12 iv ++ [0; 0; 0; 1] else gcm_j0 (H E) iv) with (gcm_j0 Hk iv)
      by (destruct twelve; [rewrite (j0_twelve iv (Htw eq_refl))|]; reflexivity).
    apply (init_state_inv E lazy E_len _ (gcm_j0_length _ _)); reflexivity.
  Qed.

  (* direct API: init (either entry point), one update per segment, finalize *)
  Theorem gcm_direct_gen : forall twelve iv aad dir segs taglen,
    (twelve = true -> length iv = 12%nat) ->
    let '(ctx', os, t) := gcm_run_direct E lazy twelve iv aad dir segs taglen in
    concat os = fst (gcm_oneshot_gen E dir iv aad (concat segs) taglen) /\
    map (@length _) os = map (@length _) segs /\
    t = snd (gcm_oneshot_gen E dir iv aad (concat segs) taglen) /\
    ctx_cleared ctx'.
  Proof.
    intros twelve iv aad dir segs taglen Htw. unfold gcm_run_direct.
    pose proof (gcm_updates_finalize_gen E lazy E_len (gcm_j0 Hk iv) (gcm_j0_length _ _) aad dir
                  (gcm_init E twelve iv aad) segs taglen (gcm_init_inv twelve iv aad dir Htw)) as G.
    cbv zeta in G. rewrite oneshot_eq in G.
    destruct (gcm_update_all E lazy (gcm_init E twelve iv aad) dir segs) as [ctx1 os]. cbn [fst snd] in G.
    destruct (gcm_finalize E ctx1 taglen) as [ctx2 t]. cbn [fst snd] in G. exact G.
  Qed.

  Lemma gcm_job_updates_eq : forall segs ctx iv aad dir taglen,
    gcm_job_updates E lazy ctx iv aad segs dir taglen = gcm_update_all E lazy ctx dir segs.
  Proof.
    induction segs as [|s t IH]; intros; [reflexivity|].
    cbn [gcm_job_updates gcm_update_all gcm_sgl].
    destruct (gcm_update E lazy ctx dir s) as [ctx1 o]. rewrite IH.
    destruct (gcm_update_all E lazy ctx1 dir t) as [ctx2 os]. reflexivity.
  Qed.

  (* job API: IMB_SGL_INIT, IMB_SGL_UPDATE per segment, IMB_SGL_COMPLETE *)
  Theorem gcm_job_iuc_gen : forall ctx0 iv aad dir segs taglen,
    let '(ctx', os, t) := gcm_run_job_iuc E lazy ctx0 iv aad dir segs taglen in
    concat os = fst (gcm_oneshot_gen E dir iv aad (concat segs) taglen) /\
    map (@length _) os = map (@length _) segs /\
    t = Some (snd (gcm_oneshot_gen E dir iv aad (concat segs) taglen)) /\
    ctx_cleared ctx'.
  Proof.
    intros ctx0 iv aad dir segs taglen. unfold gcm_run_job_iuc. cbn [gcm_sgl].
    rewrite gcm_job_updates_eq.
    pose proof (gcm_direct_gen false iv aad dir segs taglen ltac:(discriminate)) as G.
    unfold gcm_run_direct in G.
    destruct (gcm_update_all E lazy (gcm_init E false iv aad) dir segs) as [ctx1 os].
    destruct (gcm_finalize E ctx1 taglen) as [ctx2 t].
    destruct G as (G1 & G2 & G3 & G4). rewrite G3. auto.
  Qed.

  (* job API: one IMB_SGL_ALL job *)
  Theorem gcm_job_all_gen : forall ctx0 iv aad dir segs taglen,
    let '(ctx', os, t) := gcm_run_job_all E lazy ctx0 iv aad dir segs taglen in
    concat os = fst (gcm_oneshot_gen E dir iv aad (concat segs) taglen) /\
    map (@length _) os = map (@length _) segs /\
    t = Some (snd (gcm_oneshot_gen E dir iv aad (concat segs) taglen)) /\
    ctx_cleared ctx'.
  Proof.
    intros ctx0 iv aad dir segs taglen. unfold gcm_run_job_all. cbn [gcm_sgl].
    pose proof (gcm_direct_gen false iv aad dir segs taglen ltac:(discriminate)) as G.
    unfold gcm_run_direct in G.
    destruct (gcm_update_all E lazy (gcm_init E false iv aad) dir segs) as [ctx1 os].
    destruct (gcm_finalize E ctx1 taglen) as [ctx2 t].
    destruct G as (G1 & G2 & G3 & G4). rewrite G3. auto.
  Qed.

  (* the context invariant after init and any list of updates *)
  Theorem gcm_stream_inv_gen : forall twelve iv aad dir segs,
    (twelve = true -> length iv = 12%nat) ->
    gcm_stream_inv E (gcm_j0 Hk iv) aad
      (match dir with GEnc => gcm_ctr E (gcm_j0 Hk iv) (concat segs) | GDec => concat segs end)
      (fst (gcm_update_all E lazy (gcm_init E twelve iv aad) dir segs)).
  Proof.
    intros twelve iv aad dir segs Htw.
    destruct (gcm_update_all_inv E lazy E_len (gcm_j0 Hk iv) (gcm_j0_length _ _) aad dir segs _ []
                (gcm_init_inv twelve iv aad dir Htw)) as (I1 & _ & _).
    cbn [app] in I1.
    rewrite <- (ct_of_oneshot E lazy E_len (gcm_j0 Hk iv) (gcm_j0_length _ _) aad).
    apply (ginv_readable E lazy E_len _ (gcm_j0_length _ _)). exact I1.
  Qed.

  (* GMAC: init, one update per segment, finalize *)
  Theorem gmac_gen_partition : forall iv segs taglen,
    snd (gmac_run E iv segs taglen) = gmac_gen E iv (concat segs) taglen.
  Proof.
    intros iv segs taglen. unfold gmac_run.
    assert (Hi : gmac_inv E (gcm_j0 Hk iv) (gmac_init E iv) []).
    { unfold gmac_init, gcm_init, gmac_inv. cbn [g_oiv g_aad_len g_in_len].
      split; [reflexivity|]. split; [reflexivity|]. split; [reflexivity|].
      exists [], []. cbn [g_pbl g_hash]. split; [reflexivity|]. split; [exists 0%nat; reflexivity|].
      split; [simpl; lia|]. split; [reflexivity|].
      rewrite hash_xor_at_nil by lia. reflexivity. }
    pose proof (gmac_update_all_inv E (gcm_j0 Hk iv) segs _ [] Hi) as Hu. cbn [app] in Hu.
    rewrite (gmac_finalize_spec E (gcm_j0 Hk iv) _ (concat segs) taglen Hu).
    reflexivity.
  Qed.

  Theorem gmac_stream_inv_gen : forall iv segs,
    gmac_stream_inv E (gcm_j0 Hk iv) (concat segs) (gmac_update_all E (gmac_init E iv) segs).
  Proof.
    intros iv segs.
    assert (Hi : gmac_inv E (gcm_j0 Hk iv) (gmac_init E iv) []).
    { unfold gmac_init, gcm_init, gmac_inv. cbn [g_oiv g_aad_len g_in_len].
      split; [reflexivity|]. split; [reflexivity|]. split; [reflexivity|].
      exists [], []. cbn [g_pbl g_hash]. split; [reflexivity|]. split; [exists 0%nat; reflexivity|].
      split; [simpl; lia|]. split; [reflexivity|].
      rewrite hash_xor_at_nil by lia. reflexivity. }
    pose proof (gmac_update_all_inv E (gcm_j0 Hk iv) segs _ [] Hi) as (A & B & C & (mw & mr & D)).
    cbn [app] in *. unfold gmac_stream_inv. split; [exact A|]. split; [exact B|]. split; [exact C|].
    exists mw, mr. exact D.
  Qed.
End Generic.

(* ---------- AES instances: raw key of 16, 24 or 32 bytes (any other length: identity cipher,
   exactly as Spec/GCM.v defines gcm_enc for it) ---------- *)

Lemma aesE_len : forall key b, length b = 16%nat -> length (aesE key b) = 16%nat.
Proof. intros. unfold aesE. apply aes_enc_rk_len. assumption. Qed.

Definition gcm_oneshot (dir : gdir) (key iv aad msg : bytes) (taglen : nat) : bytes * bytes :=
  match dir with
  | GEnc => gcm_enc key iv aad msg taglen
  | GDec => gcm_dec key iv aad msg taglen
  end.

Lemma gcm_oneshot_aes : forall dir key iv aad msg taglen,
  gcm_oneshot_gen (aesE key) dir iv aad msg taglen = gcm_oneshot dir key iv aad msg taglen.
Proof. intros. destruct dir; reflexivity. Qed.

Theorem gcm_direct_aes : forall lazy key twelve iv aad dir segs taglen,
  (twelve = true -> length iv = 12%nat) ->
  let '(ctx', os, t) := gcm_run_direct (aesE key) lazy twelve iv aad dir segs taglen in
  concat os = fst (gcm_oneshot dir key iv aad (concat segs) taglen) /\
  map (@length _) os = map (@length _) segs /\
  t = snd (gcm_oneshot dir key iv aad (concat segs) taglen) /\
  ctx_cleared ctx'.
Proof.
  intros. rewrite <- gcm_oneshot_aes. apply gcm_direct_gen; [apply aesE_len|assumption].
Qed.

Theorem gcm_job_iuc_aes : forall lazy key ctx0 iv aad dir segs taglen,
  let '(ctx', os, t) := gcm_run_job_iuc (aesE key) lazy ctx0 iv aad dir segs taglen in
  concat os = fst (gcm_oneshot dir key iv aad (concat segs) taglen) /\
  map (@length _) os = map (@length _) segs /\
  t = Some (snd (gcm_oneshot dir key iv aad (concat segs) taglen)) /\
  ctx_cleared ctx'.
Proof.
  intros. rewrite <- gcm_oneshot_aes. apply gcm_job_iuc_gen. apply aesE_len.
Qed.

Theorem gcm_job_all_aes : forall lazy key ctx0 iv aad dir segs taglen,
  let '(ctx', os, t) := gcm_run_job_all (aesE key) lazy ctx0 iv aad dir segs taglen in
  concat os = fst (gcm_oneshot dir key iv aad (concat segs) taglen) /\
  map (@length _) os = map (@length _) segs /\
  t = Some (snd (gcm_oneshot dir key iv aad (concat segs) taglen)) /\
  ctx_cleared ctx'.
Proof.
  intros. rewrite <- gcm_oneshot_aes. apply gcm_job_all_gen. apply aesE_len.
Qed.

Theorem gmac_aes : forall key iv segs taglen,
  snd (gmac_run (aesE key) iv segs taglen) = gmac key iv (concat segs) taglen.
Proof. intros. apply gmac_gen_partition; first [apply aesE_len | exact never_lazy]. Qed.
