(* Proofs/C03Summary.v — combined statements of the C03 property theorems (conjunctions /
   instantiations of the lemmas proved in AeadProofs / SnowvProofs / CcmFormatProofs /
   GcmFormatProofs / GeomProofs), so that Props/Properties_C03.v only contains `exact`. *)
From Coq Require Import List NArith Bool Arith.
From IMB Require Import Lib.Bytes Struct.MemOps Struct.CcmFormat Struct.GcmFormat
                        Spec.AES Spec.GF128 Spec.GCM Spec.CCM Spec.ChaCha20 Spec.ChaChaPoly
                        Spec.SNOWV Spec.CRC Spec.PON
                        Proofs.AesLenProofs Proofs.AeadProofs Proofs.SnowvProofs
                        Proofs.CcmFormatProofs Proofs.GcmFormatProofs Proofs.GeomProofs.
Import ListNotations.

Lemma gcm_dec_enc_generic_sum :
  forall (E : bytes -> bytes), (forall x, length x = 16 -> length (E x) = 16) ->
  forall iv aad pt taglen,
  gcm_dec_gen E iv aad (fst (gcm_enc_gen E iv aad pt taglen)) taglen =
    (pt, snd (gcm_enc_gen E iv aad pt taglen)) /\
  length (fst (gcm_enc_gen E iv aad pt taglen)) = length pt.
Proof.
  intros E HE iv aad pt taglen. split.
  - exact (gcm_dec_enc_gen E HE iv aad pt taglen).
  - exact (gcm_enc_length E HE iv aad pt taglen).
Qed.

Lemma ccm_dec_enc_generic_sum :
  forall (E : bytes -> bytes), (forall x, length x = 16 -> length (E x) = 16) ->
  forall nonce aad pt taglen, length nonce <= 15 ->
  ccm_dec_gen E nonce aad (fst (ccm_enc_gen E nonce aad pt taglen)) taglen =
    (pt, snd (ccm_enc_gen E nonce aad pt taglen)).
Proof. exact ccm_dec_enc_gen. Qed.

Lemma gcm_lib_format_sum :
  forall (E : bytes -> bytes) h iv j0 aad ct taglen,
  gcm_lib_j0 h iv = gcm_j0 h iv /\
  gcm_lib_tag E h j0 aad ct taglen = gcm_tag E h j0 aad ct taglen.
Proof.
  intros. split; [apply gcm_lib_j0_eq_spec|apply gcm_lib_tag_eq_spec].
Qed.

Lemma aes_block_length_sum :
  forall key x, length x = 16 -> length (aes_enc_rk (aes_key_expand key) x) = 16.
Proof. exact aes_block_length. Qed.
