(* Proofs/GcmFormatProofs.v — C03 structural proofs, part 4: the GCM pre-counter block and tag
   as the library's kernels form them (Struct/GcmFormat.v) equal SP 800-38D as Spec/GCM.v
   defines them: 12-byte IV special case, GHASH form for every other IV length, the
   len(A)||len(C) block, tag truncation.  Generic in the block function. *)
From Coq Require Import List NArith ZArith Bool Lia Arith PeanoNat ZifyNat ZifyN.
From IMB Require Import Lib.Bytes Struct.CcmFormat Struct.GcmFormat Proofs.BytesLemmas
                        Proofs.HashProofs Proofs.CcmFormatProofs
                        Spec.AES Spec.GF128 Spec.GCM.
Import ListNotations.

Ltac Zify.zify_post_hook ::= Z.div_mod_to_equations.

(* ---------- big-endian integer of a byte string ---------- *)

Lemma be_to_N_app a : forall b,
  be_to_N (a ++ b) = N.lor (N.shiftl (be_to_N a) (8 * N.of_nat (length b))) (be_to_N b).
Proof.
  induction a as [|x a IH]; intros b.
  - cbn [app be_to_N]. rewrite N.shiftl_0_l, N.lor_0_l. reflexivity.
  - cbn [app be_to_N]. rewrite IH, N.shiftl_lor, N.shiftl_shiftl, N.lor_assoc.
    f_equal. f_equal. f_equal. rewrite app_length. lia.
Qed.

Lemma be_to_N_zeros n : be_to_N (zeros n) = 0%N.
Proof.
  induction n as [|n IH]; [reflexivity|].
  change (zeros (S n)) with (0%N :: zeros n). cbn [be_to_N]. rewrite IH.
  change (w8 0) with 0%N. rewrite N.shiftl_0_l. reflexivity.
Qed.

Lemma be_to_N_single b : be_to_N [b] = w8 b.
Proof. cbn [be_to_N length]. rewrite N.shiftl_0_r, N.lor_0_r. reflexivity. Qed.

Lemma be_to_N_rev l : be_to_N (rev l) = le_to_N l.
Proof.
  induction l as [|b l IH]; [reflexivity|].
  cbn [rev le_to_N]. rewrite be_to_N_app, IH, be_to_N_single. cbn [length].
  rewrite N.lor_comm. reflexivity.
Qed.

Lemma le_to_N_N_to_le n : forall x, le_to_N (N_to_le n x) = N.land x (N.ones (8 * N.of_nat n)).
Proof.
  induction n as [|n IH]; intros x.
  - cbn [N_to_le le_to_N]. rewrite N.land_0_r. reflexivity.
  - cbn [N_to_le le_to_N]. rewrite IH. apply N.bits_inj. intros i.
    rewrite N.lor_spec, !N.land_spec.
    unfold w8. rewrite mask8_ones, !N.land_spec.
    destruct (N.ltb_spec i 8).
    + rewrite N.shiftl_spec_low by lia. rewrite !N.ones_spec_low by lia.
      rewrite !andb_true_r, orb_false_r. reflexivity.
    + rewrite N.shiftl_spec_high' by lia. rewrite N.land_spec, N.shiftr_spec'.
      rewrite (N.ones_spec_high 8) by lia. rewrite !andb_false_r. cbn [orb].
      replace (i - 8 + 8)%N with i by lia. f_equal.
      destruct (N.ltb_spec i (8 * N.of_nat (S n))).
      * rewrite !N.ones_spec_low by lia. reflexivity.
      * rewrite !N.ones_spec_high by lia. reflexivity.
Qed.

Lemma be_to_N_N_to_be n x : be_to_N (N_to_be n x) = N.land x (N.ones (8 * N.of_nat n)).
Proof. unfold N_to_be. rewrite be_to_N_rev. apply le_to_N_N_to_le. Qed.

Lemma be_to_N_be64 x : be_to_N (be64 x) = w64 x.
Proof. unfold be64. rewrite be_to_N_N_to_be. reflexivity. Qed.

Lemma w64_lt x : (w64 x < 2 ^ 64)%N.
Proof.
  unfold w64. rewrite mask64_ones, N.land_ones. apply N.mod_lt. discriminate.
Qed.

(* ---------- the two 16-byte blocks the library builds in registers ---------- *)

Lemma gcm_lib_bits64_eq len : gcm_lib_bits64 len = w64 (8 * N.of_nat len).
Proof. unfold gcm_lib_bits64. rewrite N.shiftl_mul_pow2. f_equal. change (2 ^ 3)%N with 8%N. lia. Qed.

Lemma iv_len_block_value len :
  be_to_N (pad_right 16 (zeros 8 ++ be64 (8 * N.of_nat len))) = gcm_lib_bits64 len.
Proof.
  rewrite pad_right_full by (rewrite app_length, zeros_length; unfold be64; rewrite N_to_be_length; lia).
  rewrite be_to_N_app, be_to_N_zeros, N.shiftl_0_l, N.lor_0_l, be_to_N_be64.
  symmetry. apply gcm_lib_bits64_eq.
Qed.

Lemma len_block_value alen clen :
  be_to_N (pad_right 16 (gcm_len_block alen clen)) = gcm_lib_len_word alen clen.
Proof.
  unfold gcm_len_block, gcm_lib_len_word.
  rewrite pad_right_full by (rewrite app_length; unfold be64; rewrite !N_to_be_length; lia).
  rewrite be_to_N_app, !be_to_N_be64, <- !gcm_lib_bits64_eq.
  unfold be64. rewrite N_to_be_length. change (8 * N.of_nat 8)%N with 64%N.
  symmetry. apply N.lxor_lor.
  (* the two halves do not overlap *)
  apply N.bits_inj. intros i. rewrite N.land_spec, N.bits_0.
  destruct (N.ltb_spec i 64).
  - rewrite N.shiftl_spec_low by lia. reflexivity.
  - assert (Hb : N.testbit (gcm_lib_bits64 clen) i = false).
    { rewrite gcm_lib_bits64_eq. unfold w64. rewrite mask64_ones, N.land_spec.
      rewrite N.ones_spec_high by lia. apply andb_false_r. }
    rewrite Hb. apply andb_false_r.
Qed.

(* THEOREM gcm_lib_j0_eq_spec: the library's J0 (12-byte fast path, CALC_J0 otherwise) is
   Spec's, for every hash key and every IV (any length) *)
Theorem gcm_lib_j0_eq_spec h iv : gcm_lib_j0 h iv = gcm_j0 h iv.
Proof.
  unfold gcm_lib_j0, gcm_j0. destruct (Nat.eqb (length iv) 12); [reflexivity|].
  unfold ghash_step. rewrite iv_len_block_value. reflexivity.
Qed.

(* THEOREM gcm_lib_tag_eq_spec: GCM_COMPLETE's tag is Spec's, every AAD / text / tag length *)
Theorem gcm_lib_tag_eq_spec E h j0 aad ct taglen :
  gcm_lib_tag E h j0 aad ct taglen = gcm_tag E h j0 aad ct taglen.
Proof.
  unfold gcm_lib_tag, gcm_tag, ghash_step. rewrite len_block_value. reflexivity.
Qed.

(* ---------- J0: 12-byte case vs. general GHASH form ---------- *)

Lemma pad_right_zpad_block l : length l <= 16 -> l <> [] -> pad_right 16 (zpad16 l) = pad_right 16 l.
Proof.
  intros H Hne. unfold zpad16, pad_right, pad16_len.
  rewrite app_length, zeros_length, <- app_assoc, <- zeros_app. f_equal. f_equal.
  destruct l; [congruence|]. cbn [length] in *. lia.
Qed.

(* a step function that ignores zero padding of a short block can be fed the padded data *)
Lemma fold_zpad_gen {A} (f : A -> bytes -> A) :
  (forall y l, length l <= 16 -> l <> [] -> f y (zpad16 l) = f y l) ->
  forall data y, fold_left f (chunks 16 (zpad16 data)) y = fold_left f (chunks 16 data) y.
Proof.
  intros Hf.
  apply (chunk_induction 16 (fun data => forall y,
           fold_left f (chunks 16 (zpad16 data)) y = fold_left f (chunks 16 data) y)); [lia| |].
  - intros y. reflexivity.
  - intros data Hne IH y. rewrite (chunks_cons 16 data) by (lia || assumption).
    cbn [fold_left]. rewrite <- IH. clear IH.
    destruct (Nat.le_gt_cases 16 (length data)) as [Hge|Hlt].
    + assert (Hl : length (firstn 16 data) = 16) by (apply firstn_length_le; exact Hge).
      assert (Ez : zpad16 data = firstn 16 data ++ zpad16 (skipn 16 data)).
      { unfold zpad16. rewrite skipn_length.
        replace (pad16_len (length data - 16)) with (pad16_len (length data))
          by (unfold pad16_len; lia).
        rewrite app_assoc, firstn_skipn. reflexivity. }
      rewrite Ez, chunks_app_block by (lia || assumption). cbn [fold_left]. reflexivity.
    + rewrite skipn_ge_nil, firstn_ge_all by lia.
      unfold zpad16 at 2. cbn [length app]. rewrite chunks_nil. cbn [fold_left].
      rewrite chunks_small.
      * cbn [fold_left]. apply Hf; [lia|assumption].
      * unfold zpad16. destruct data; [congruence|discriminate].
      * destruct (zpad16_length data) as [q Hq]. unfold zpad16 in *.
        rewrite app_length, zeros_length in *. pose proof (pad16_len_lt (length data)).
        unfold pad16_len in *. lia.
Qed.

(* GHASH pads a trailing partial block itself, so zero padding the data first changes nothing *)
Lemma ghash_from_zpad h data y : ghash_from h y (zpad16 data) = ghash_from h y data.
Proof.
  unfold ghash_from, ghash_fold. apply fold_zpad_gen.
  intros y' l Hl Hne. unfold ghash_step. rewrite pad_right_zpad_block by assumption. reflexivity.
Qed.

Lemma ghash_from_app_padded h y a b :
  ghash_from h y (zpad16 a ++ b) = ghash_from h (ghash_from h y a) b.
Proof.
  rewrite <- (ghash_from_zpad h a y). unfold ghash_from, ghash_fold.
  destruct (zpad16_length a) as [q Hq].
  rewrite (chunks_app_blocks 16 q) by (lia || assumption). apply fold_left_app.
Qed.

(* THEOREM gcm_j0_12_vs_general *)
Theorem gcm_j0_12_vs_general_thm h iv :
  (length iv = 12 ->
     gcm_j0 h iv = iv ++ [0; 0; 0; 1]%N /\ length (gcm_j0 h iv) = 16 /\
     firstn 12 (gcm_j0 h iv) = iv /\ be_to_N (skipn 12 (gcm_j0 h iv)) = 1%N) /\
  (length iv <> 12 ->
     gcm_j0 h iv =
     N_to_be 16 (ghash_gen h (zpad16 iv ++ zeros 8 ++ be64 (8 * N.of_nat (length iv))))).
Proof.
  split.
  - intros H. unfold gcm_j0. rewrite H. cbn [Nat.eqb]. repeat split.
    + rewrite app_length, H. reflexivity.
    + apply firstn_app_l. symmetry. exact H.
    + rewrite skipn_app_l by (symmetry; exact H). reflexivity.
  - intros H. unfold gcm_j0. destruct (Nat.eqb_spec (length iv) 12); [contradiction|].
    f_equal. unfold ghash_gen. rewrite ghash_from_app_padded.
    set (X := zeros 8 ++ be64 (8 * N.of_nat (length iv))).
    assert (HX : length X = 16).
    { unfold X. rewrite app_length, zeros_length. unfold be64. rewrite N_to_be_length. reflexivity. }
    generalize (ghash_from h 0 iv). intros y.
    unfold ghash_from, ghash_fold. rewrite chunks_small.
    + cbn [fold_left]. reflexivity.
    + destruct X; [discriminate HX|discriminate].
    + lia.
Qed.

(* the library's whole GCM job = Spec's, generic in the block function *)
Theorem gcm_lib_enc_eq_spec E iv aad pt taglen :
  let h := gcm_hash_subkey E in
  let j0 := gcm_lib_j0 h iv in
  let ct := gcm_ctr E j0 pt in
  (ct, gcm_lib_tag E h j0 aad ct taglen) = gcm_enc_gen E iv aad pt taglen.
Proof.
  intros h j0 ct. unfold gcm_enc_gen. subst ct j0 h.
  rewrite gcm_lib_j0_eq_spec, gcm_lib_tag_eq_spec. reflexivity.
Qed.
