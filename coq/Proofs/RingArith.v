(* Proofs/RingArith.v — arithmetic of ring offsets: slots, ADV_JOBS, ADV_N_JOBS, queue size. *)
From Coq Require Import ZArith List Bool Lia ZifyBool.
From IMB Require Import Gen.GenConsts Mgr.Ring.
Import ListNotations.
Local Open Scope Z_scope.

Section RingArith.
Variable SZ NJ K : Z.
Hypothesis HSZ : 0 < SZ.
Hypothesis HK : 1 <= K.
Hypothesis HNJ : NJ = 2 ^ K.

Lemma NJ_ge2 : 2 <= NJ.
Proof.
  rewrite HNJ. replace K with (1 + (K - 1)) by lia.
  rewrite Z.pow_add_r by lia. assert (0 < 2 ^ (K - 1)) by (apply Z.pow_pos_nonneg; lia). lia.
Qed.
Let HNJ2 := NJ_ge2.

(* slot of the k-th job since the ring was last re-based *)
Definition slot (base k : Z) : Z := SZ * ((base + k) mod NJ).

Lemma slot_range base k : 0 <= slot base k < NJ * SZ.
Proof.
  unfold slot. assert (0 <= (base + k) mod NJ < NJ) by (apply Z.mod_pos_bound; lia). nia.
Qed.

Lemma slot_nonneg base k : 0 <= slot base k.
Proof. apply slot_range. Qed.

Lemma mod_succ a : 0 <= a mod NJ < NJ ->
  (a + 1) mod NJ = if a mod NJ + 1 >=? NJ then 0 else a mod NJ + 1.
Proof.
  intros H. rewrite <- Zplus_mod_idemp_l.
  destruct (a mod NJ + 1 >=? NJ) eqn:E.
  - assert (a mod NJ + 1 = NJ) by lia. rewrite H0. apply Z_mod_same_full.
  - apply Z.mod_small. lia.
Qed.

Lemma adv_slot base k : adv SZ NJ (slot base k) = slot base (k + 1).
Proof.
  unfold adv, LIM, slot.
  assert (H : 0 <= (base + k) mod NJ < NJ) by (apply Z.mod_pos_bound; lia).
  replace (base + (k + 1)) with (base + k + 1) by lia.
  rewrite (mod_succ _ H).
  destruct ((base + k) mod NJ + 1 >=? NJ) eqn:E.
  - assert (SZ * ((base + k) mod NJ) + SZ >= NJ * SZ) by nia.
    replace (SZ * ((base + k) mod NJ) + SZ >=? NJ * SZ) with true by lia. lia.
  - assert (SZ * ((base + k) mod NJ) + SZ < NJ * SZ) by nia.
    replace (SZ * ((base + k) mod NJ) + SZ >=? NJ * SZ) with false by lia. lia.
Qed.

Lemma mod_add_small a j : 0 <= j <= NJ ->
  (a + j) mod NJ = if a mod NJ + j >=? NJ then a mod NJ + j - NJ else a mod NJ + j.
Proof.
  intros Hj. assert (H : 0 <= a mod NJ < NJ) by (apply Z.mod_pos_bound; lia).
  rewrite <- Zplus_mod_idemp_l.
  destruct (a mod NJ + j >=? NJ) eqn:E.
  - transitivity ((a mod NJ + j - NJ + 1 * NJ) mod NJ); [f_equal; lia|].
    rewrite Z_mod_plus_full. apply Z.mod_small. lia.
  - apply Z.mod_small. lia.
Qed.

Lemma adv_n_slot base k j : 0 <= j <= NJ -> adv_n SZ NJ (slot base k) j = slot base (k + j).
Proof.
  intros Hj. unfold adv_n, LIM, slot.
  assert (H : 0 <= (base + k) mod NJ < NJ) by (apply Z.mod_pos_bound; lia).
  replace (base + (k + j)) with (base + k + j) by lia.
  rewrite (mod_add_small _ _ Hj).
  destruct ((base + k) mod NJ + j >=? NJ) eqn:E.
  - assert (SZ * ((base + k) mod NJ) + SZ * j >= NJ * SZ) by nia.
    replace (SZ * ((base + k) mod NJ) + SZ * j >=? NJ * SZ) with true by lia. lia.
  - assert (SZ * ((base + k) mod NJ) + SZ * j < NJ * SZ) by nia.
    replace (SZ * ((base + k) mod NJ) + SZ * j >=? NJ * SZ) with false by lia. lia.
Qed.

Lemma slot_inj base a b : 0 <= b - a < NJ -> slot base a = slot base b -> a = b.
Proof.
  intros Hab Heq. unfold slot in Heq.
  assert (E : (base + a) mod NJ = (base + b) mod NJ) by nia.
  assert (D : ((base + b) - (base + a)) mod NJ = 0).
  { rewrite Zminus_mod, E, Z.sub_diag. apply Z.mod_0_l. lia. }
  replace (base + b - (base + a)) with (b - a) in D by lia.
  rewrite Z.mod_small in D by lia. lia.
Qed.

Lemma slot_neq base a b : 0 < b - a < NJ -> slot base a <> slot base b.
Proof. intros H E. apply slot_inj in E; lia. Qed.

Lemma slot_diff base r s : 0 <= s - r <= NJ ->
  ((base + s) mod NJ - (base + r) mod NJ) mod NJ = (s - r) mod NJ.
Proof.
  intros H. rewrite <- Zminus_mod. f_equal. lia.
Qed.

Lemma land_mask a : Z.land a (NJ - 1) = a mod NJ.
Proof.
  rewrite HNJ. replace (2 ^ K - 1) with (Z.ones K) by (rewrite Z.ones_equiv; lia).
  apply Z.land_ones. lia.
Qed.

Lemma quot_slots base r s :
  Z.quot (slot base s - slot base r) SZ = (base + s) mod NJ - (base + r) mod NJ.
Proof.
  unfold slot. rewrite <- Z.mul_sub_distr_l. rewrite Z.mul_comm. apply Z.quot_mul. lia.
Qed.

Lemma get_queue_sz_slots st0 base r s :
  earliest st0 = slot base r -> next st0 = slot base s -> 0 <= s - r <= NJ ->
  get_queue_sz SZ NJ st0 = (s - r) mod NJ.
Proof.
  intros He Hn H. unfold get_queue_sz. rewrite He, Hn, quot_slots, land_mask. apply slot_diff; lia.
Qed.

Lemma queue_sz_slots st0 base r s :
  earliest st0 = slot base r -> next st0 = slot base s -> 1 <= s - r <= NJ ->
  queue_sz SZ NJ st0 = s - r.
Proof.
  intros He Hn H. unfold queue_sz.
  assert (0 <= earliest st0) by (rewrite He; apply slot_nonneg).
  replace (earliest st0 <? 0) with false by lia.
  rewrite (get_queue_sz_slots _ base r s) by (auto; lia).
  destruct (Z.eq_dec (s - r) NJ) as [E|E].
  - rewrite E, Z_mod_same_full. reflexivity.
  - rewrite Z.mod_small by lia. replace (s - r =? 0) with false by lia. reflexivity.
Qed.

Lemma queue_sz_empty st0 : earliest st0 = -1 -> queue_sz SZ NJ st0 = 0.
Proof. intros H. unfold queue_sz. rewrite H. reflexivity. Qed.

Lemma queue_sz_end_slot base k : queue_sz_end SZ NJ (slot base k) = NJ - (base + k) mod NJ.
Proof.
  unfold queue_sz_end, slot. rewrite Z.mul_comm, Z.div_mul by lia. reflexivity.
Qed.

(* the list of slots of jobs k, k+1, ..., k+n-1 *)
Fixpoint slots (base k : Z) (n : nat) : list Z :=
  match n with O => [] | S m => slot base k :: slots base (k + 1) m end.

Lemma slots_length base k n : length (slots base k n) = n.
Proof. revert k; induction n; simpl; intros; auto. Qed.

Lemma slots_app base k n m : slots base k (n + m) = slots base k n ++ slots base (k + Z.of_nat n) m.
Proof.
  revert k; induction n; intros k.
  - simpl. f_equal. lia.
  - cbn [Nat.add slots app]. f_equal. rewrite IHn. f_equal. f_equal. lia.
Qed.

Lemma consecutive_slots base k n :
  (base + k) mod NJ + Z.of_nat n <= NJ ->
  consecutive SZ n (slot base k) = slots base k n.
Proof.
  revert k; induction n; intros k H; [reflexivity|].
  cbn [consecutive slots]. f_equal.
  assert (Hm : 0 <= (base + k) mod NJ < NJ) by (apply Z.mod_pos_bound; lia).
  destruct n; [reflexivity|].
  assert (Hs : slot base k + SZ = slot base (k + 1)).
  { unfold slot. replace (base + (k + 1)) with (base + k + 1) by lia.
    rewrite (mod_succ _ Hm). replace ((base + k) mod NJ + 1 >=? NJ) with false by lia. lia. }
  rewrite Hs. apply IHn.
  replace (base + (k + 1)) with (base + k + 1) by lia.
  rewrite (mod_succ _ Hm). replace ((base + k) mod NJ + 1 >=? NJ) with false by lia. lia.
Qed.

Lemma slot_zero base k : (base + k) mod NJ = 0 -> slot base k = 0.
Proof. intros H. unfold slot. rewrite H. lia. Qed.

(* two-pass enumeration used by GET_NEXT_BURST and the burst return loop *)
Lemma two_pass_slots base k n :
  0 <= n <= NJ ->
  let e := NJ - (base + k) mod NJ in
  consecutive SZ (Z.to_nat (Z.min n e)) (slot base k) ++ consecutive SZ (Z.to_nat (n - e)) 0
  = slots base k (Z.to_nat n).
Proof.
  intros Hn e.
  assert (Hm : 0 <= (base + k) mod NJ < NJ) by (apply Z.mod_pos_bound; lia).
  destruct (Z_le_gt_dec n e) as [L|G].
  - rewrite Z.min_l by lia. replace (Z.to_nat (n - e)) with O by lia. cbn [consecutive]. rewrite app_nil_r.
    apply consecutive_slots. unfold e in L. lia.
  - rewrite Z.min_r by lia.
    replace (Z.to_nat n) with (Z.to_nat e + Z.to_nat (n - e))%nat by lia.
    rewrite slots_app. f_equal.
    + apply consecutive_slots. unfold e. lia.
    + rewrite Z2Nat.id by (unfold e; lia).
      assert (Hz : (base + (k + e)) mod NJ = 0).
      { unfold e. transitivity (((base + k) - (base + k) mod NJ + 1 * NJ) mod NJ); [f_equal; lia|].
        rewrite Z_mod_plus_full. rewrite Zminus_mod, Z.mod_mod by lia. rewrite Z.sub_diag. apply Z.mod_0_l. lia. }
      rewrite <- (slot_zero base (k + e) Hz). apply consecutive_slots. rewrite Hz. unfold e in *. lia.
Qed.

End RingArith.
