(* Proofs/CmacProofs.v — C02 structural proofs, part 5: the CMAC / XCBC lane managers
   (Struct/CmacLast.v) compute Spec.CMAC.cmac_gen / cmac_bits_gen / xcbc_mac_gen for every
   message length (byte and bit variants), generic in the block cipher, then instantiated
   with AES. *)
From Coq Require Import List NArith ZArith Bool Lia Arith PeanoNat ZifyNat ZifyN.
From IMB Require Import Lib.Bytes Struct.MemOps Struct.CmacLast Proofs.BytesLemmas
                        Spec.AES Spec.CMAC.
Import ListNotations.

Ltac Zify.zify_post_hook ::= Z.div_mod_to_equations.

(* ---------- generic CBC-MAC decomposition ---------- *)

Section Generic.
  Variable E : bytes -> bytes.

  Lemma cbcmac_loop_nil fin x : cbcmac_loop E fin x [] = E (xor_bytes (fin []) x).
  Proof. reflexivity. Qed.

  (* Spec's loop over chunks = kernel over the whole leading blocks, then the final block *)
  Lemma cbcmac_loop_split fin : forall q x body last,
    length body = q * 16 -> 0 < length last <= 16 ->
    cbcmac_loop E fin x (chunks 16 (body ++ last)) =
    E (xor_bytes (fin last) (cbc_mac_run E x body)).
  Proof.
    induction q as [|q IH]; intros x body last Hb Hl.
    - apply length_zero_nil in Hb. subst body. cbn [app]. unfold cbc_mac_run.
      rewrite chunks_nil. cbn [fold_left].
      assert (Hne : last <> []) by (destruct last; cbn [length] in Hl; [lia|discriminate]).
      rewrite (chunks_small 16 last Hne) by lia.
      reflexivity.
    - assert (Hf : length (firstn 16 body) = 16) by (apply firstn_length_le; lia).
      assert (Hr : length (skipn 16 body) = q * 16) by (rewrite skipn_length; lia).
      pose proof (list_split_at body 16) as Eb.
      remember (firstn 16 body) as blk. remember (skipn 16 body) as rest.
      clear Heqblk Heqrest Hb. subst body. rewrite <- app_assoc.
      rewrite chunks_app_block by (lia || assumption).
      unfold cbc_mac_run. rewrite (chunks_app_block 16 blk rest) by (lia || assumption).
      cbn [fold_left]. fold (cbc_mac_run E (cbc_mac_step E x blk) rest).
      rewrite <- (IH (cbc_mac_step E x blk) rest last Hr Hl).
      assert (Hne : rest ++ last <> []).
      { destruct last; cbn [length] in Hl; [lia|]. destruct rest; discriminate. }
      rewrite (chunks_cons 16 (rest ++ last)) by (lia || assumption).
      reflexivity.
  Qed.

  (* ---------- the padded final blocks ---------- *)

  Lemma partial_block_is_pad_10 tail : length tail < 16 ->
    write_at 0 tail (read_at (16 - length tail) 16 padding_0x80_tab16) = pad_10 tail.
  Proof.
    intros H.
    do 16 (destruct tail as [|? tail]; [reflexivity|]).
    cbn [length] in H. lia.
  Qed.

  Lemma xcbc_slow_final_is_pad_10 stale tail k3 : length stale = 32 -> length tail < 16 ->
    xcbc_slow_final stale tail k3 = xor_bytes (pad_10 tail) k3.
  Proof.
    intros Hs Ht. unfold xcbc_slow_final. f_equal.
    do 32 (destruct stale as [|? stale]; [discriminate Hs|]).
    destruct stale; [|discriminate Hs]. clear Hs.
    do 16 (destruct tail as [|? tail]; [reflexivity|]).
    cbn [length] in Ht. lia.
  Qed.

  (* ---------- message decomposition shared by CMAC (bytes, bits) and XCBC ---------- *)

  Lemma msg_decomp msg len : 0 < len -> len <= length msg ->
    let n := cmac_n len in
    let off := (n - 1) * 16 in
    let r' := if Nat.eqb (cmac_r len) 0 then 16 else cmac_r len in
    let m := firstn len msg in
    firstn off msg = firstn off m /\
    read_at off r' msg = skipn off m /\
    m = firstn off m ++ skipn off m /\
    length (firstn off m) = (n - 1) * 16 /\
    length (skipn off m) = r' /\ 0 < r' <= 16 /\ off + r' = len.
  Proof.
    intros Hpos Hlen n off r' m. unfold cmac_n, cmac_r in *.
    assert (Hm : length m = len) by (apply firstn_length_le; exact Hlen).
    assert (Ho : off + r' = len).
    { unfold off, r', n. destruct (Nat.eqb_spec (len mod 16) 0); lia. }
    assert (Hr : 0 < r' <= 16).
    { unfold r'. destruct (Nat.eqb_spec (len mod 16) 0); lia. }
    repeat split; try lia.
    - unfold m. rewrite firstn_firstn. f_equal. lia.
    - unfold read_at, m. rewrite firstn_skipn_comm. f_equal. f_equal. exact Ho.
    - symmetry. apply firstn_skipn.
    - rewrite firstn_length_le; lia.
    - rewrite skipn_length. lia.
  Qed.

  (* ---------- CMAC, byte lengths ---------- *)

  Lemma cmac_len_bytes_of_bytes n : cmac_len_bytes (8 * N.of_nat n) = n.
  Proof.
    unfold cmac_len_bytes. rewrite N.shiftr_div_pow2. change (2 ^ 3)%N with 8%N. lia.
  Qed.

  Lemma cmac_rbits_of_bytes n : cmac_rbits (8 * N.of_nat n) = 0%N.
  Proof.
    unfold cmac_rbits. change 7%N with (N.ones 3). rewrite N.land_ones.
    change (2 ^ 3)%N with 8%N. lia.
  Qed.

  Theorem cmac_lane_bytes_eq_loop k1 k2 msg :
    cmac_lane_bytes E k1 k2 msg =
    cbcmac_loop E (mac_fin k1 k2) (zeros 16) (chunks 16 msg).
  Proof.
    unfold cmac_lane_bytes, cmac_lane.
    rewrite cmac_len_bytes_of_bytes, cmac_rbits_of_bytes. cbn [N.eqb negb].
    destruct (Nat.eqb_spec (cmac_n (length msg)) 0) as [Hn|Hn].
    - (* empty message *)
      assert (length msg = 0) by (unfold cmac_n in Hn; lia).
      apply length_zero_nil in H. subst msg. rewrite chunks_nil, cbcmac_loop_nil.
      unfold cbc_mac_step, cmac_mlast_partial, mac_fin. reflexivity.
    - assert (Hpos : 0 < length msg) by (unfold cmac_n in Hn; lia).
      destruct (msg_decomp msg (length msg) Hpos (le_n _)) as (Hb & Hl & Em & Hlb & Hll & Hr & Ho).
      rewrite firstn_all in *.
      set (off := (cmac_n (length msg) - 1) * 16) in *.
      rewrite Hl.
      remember (firstn off msg) as body. remember (skipn off msg) as last.
      remember (length msg) as len. rewrite Em.
      rewrite (cbcmac_loop_split (mac_fin k1 k2) (cmac_n len - 1) (zeros 16)
                 body last Hlb) by (rewrite Hll; exact Hr).
      unfold cbc_mac_step. f_equal. f_equal.
      unfold mac_fin. rewrite Hll.
      destruct (Nat.eqb_spec (cmac_r len) 0) as [Hz|Hz].
      + cbn [Nat.eqb]. reflexivity.
      + assert (cmac_r len < 16) by (unfold cmac_r; lia).
        destruct (Nat.eqb_spec (cmac_r len) 16); [lia|].
        unfold cmac_mlast_partial. rewrite partial_block_is_pad_10 by (rewrite Hll; assumption).
        reflexivity.
  Qed.

  (* THEOREM cmac_last_block_eq_spec (byte lengths): with the subkeys produced by the subkey
     generation the lane computes RFC 4493 CMAC, for every message including the empty one *)
  Theorem cmac_lane_bytes_eq_cmac_gen msg :
    cmac_lane_bytes E (fst (cmac_subkeys_gen E)) (snd (cmac_subkeys_gen E)) msg = cmac_gen E msg.
  Proof.
    rewrite cmac_lane_bytes_eq_loop. unfold cmac_gen.
    destruct (cmac_subkeys_gen E) as [k1 k2]. reflexivity.
  Qed.

  (* ---------- CMAC, bit lengths ---------- *)

  Lemma nth_firstn_lt {A} (l : list A) d : forall n i, i < n -> nth i (firstn n l) d = nth i l d.
  Proof.
    induction l as [|x l IH]; intros n i H.
    - rewrite firstn_nil. reflexivity.
    - destruct n; [lia|]. destruct i; [reflexivity|]. cbn [firstn nth]. apply IH. lia.
  Qed.

  Lemma nth_skipn_add {A} (l : list A) d : forall k i, nth i (skipn k l) d = nth (k + i) l d.
  Proof.
    induction l as [|x l IH]; intros k i.
    - rewrite skipn_nil. destruct i, k; reflexivity.
    - destruct k; [reflexivity|]. cbn [skipn plus nth]. apply IH.
  Qed.

  Lemma pad_bit_mask rb : (0 < rb < 8)%N ->
    N.lxor (N.shiftr (N.shiftr 255 rb) 1) (N.shiftr 255 rb) = N.shiftr 128 rb.
  Proof.
    intros H.
    assert (rb = 1 \/ rb = 2 \/ rb = 3 \/ rb = 4 \/ rb = 5 \/ rb = 6 \/ rb = 7)%N as C by lia.
    destruct C as [->|[->|[->|[->|[->|[->| ->]]]]]]; reflexivity.
  Qed.

  Lemma cmac_rbits_lt bits : (cmac_rbits bits < 8)%N.
  Proof.
    unfold cmac_rbits. change 7%N with (N.ones 3). rewrite N.land_ones.
    change (2 ^ 3)%N with 8%N. lia.
  Qed.

  (* THEOREM cmac_last_block_eq_spec (bit lengths): for every bit length, every source buffer
     holding at least ceil(bits/8) bytes *)
  Theorem cmac_lane_bits_eq_spec msg bits :
    cmac_len_bytes bits <= length msg ->
    cmac_lane E (fst (cmac_subkeys_gen E)) (snd (cmac_subkeys_gen E)) msg bits =
    cmac_bits_gen E msg bits.
  Proof.
    intros Hlen. unfold cmac_bits_gen.
    change (N.to_nat (N.shiftr (bits + 7) 3)) with (cmac_len_bytes bits).
    change (N.land bits 7) with (cmac_rbits bits).
    set (len := cmac_len_bytes bits) in *. set (rbits := cmac_rbits bits).
    set (m := firstn len msg).
    assert (Hm : length m = len) by (apply firstn_length_le; exact Hlen).
    destruct (N.eqb_spec rbits 0) as [Hz|Hnz].
    - (* whole bytes: the byte-length theorem on the first len bytes *)
      rewrite <- cmac_lane_bytes_eq_cmac_gen. unfold cmac_lane_bytes. rewrite Hm.
      assert (Eb : bits = (8 * N.of_nat len)%N).
      { unfold len, cmac_len_bytes. unfold rbits, cmac_rbits in Hz.
        change 7%N with (N.ones 3) in Hz. rewrite N.land_ones in Hz.
        rewrite N.shiftr_div_pow2. change (2 ^ 3)%N with 8%N in *. lia. }
      rewrite <- Eb. unfold cmac_lane. fold len rbits.
      destruct (Nat.eqb_spec (cmac_n len) 0) as [Hn|Hn]; [reflexivity|].
      assert (Hpos : 0 < len) by (unfold cmac_n in Hn; lia).
      destruct (msg_decomp msg len Hpos Hlen) as (Hb & Hl & _).
      destruct (msg_decomp m len Hpos (eq_ind_r (fun x => len <= x) (le_n _) Hm))
        as (Hb' & Hl' & _).
      fold m in Hb, Hl. rewrite (firstn_ge_all m len) in Hl' by lia.
      rewrite Hb, Hl, Hl'. reflexivity.
    - (* a trailing partial byte *)
      destruct (cmac_subkeys_gen E) as [k1 k2] eqn:Ek. cbn [fst snd].
      pose proof (cmac_rbits_lt bits) as Hrb. fold rbits in Hrb.
      assert (Hpos : 0 < len).
      { unfold len, cmac_len_bytes. unfold rbits, cmac_rbits in Hnz.
        change 7%N with (N.ones 3) in Hnz. rewrite N.land_ones in Hnz.
        rewrite N.shiftr_div_pow2. change (2 ^ 3)%N with 8%N in *. lia. }
      unfold cmac_lane. fold len rbits.
      destruct (Nat.eqb_spec (cmac_n len) 0) as [Hn|Hn]; [unfold cmac_n in Hn; lia|].
      destruct (N.eqb_spec rbits 0) as [|_]; [contradiction|]. cbn [negb].
      destruct (msg_decomp msg len Hpos Hlen) as (Hb & Hl & Em & Hlb & Hll & Hr & Ho).
      fold m in Hb, Hl, Em, Hlb, Hll.
      set (off := (cmac_n len - 1) * 16) in *.
      set (r' := if Nat.eqb (cmac_r len) 0 then 16 else cmac_r len) in *.
      rewrite Hb, Hl.
      set (body := firstn off m) in *. set (lastblk := skipn off m) in *.
      set (nb := N.lor (N.land (nth (len - 1) m 0%N) (N.lxor 255 (N.shiftr 255 rbits)))
                       (N.shiftr 128 rbits)).
      (* the spec's modified message = body ++ modified last block *)
      assert (Em' : firstn (len - 1) m ++ [nb] = body ++ (firstn (r' - 1) lastblk ++ [nb])).
      { rewrite app_assoc. f_equal.
        replace (len - 1) with (off + (r' - 1)) by lia.
        rewrite firstn_skipn_add. reflexivity. }
      rewrite Em'.
      rewrite (cbcmac_loop_split _ (cmac_n len - 1) (zeros 16) body _ Hlb)
        by (rewrite app_length, firstn_length_le by lia; cbn [length]; lia).
      unfold cbc_mac_step. f_equal. f_equal.
      unfold cmac_mlast_3gpp. rewrite Hll. f_equal. f_equal. f_equal. f_equal.
      unfold cmac_3gpp_byte, nb. rewrite pad_bit_mask by lia. f_equal. f_equal.
      unfold lastblk. rewrite nth_skipn_add. f_equal. lia.
  Qed.

  (* ---------- XCBC ---------- *)

  (* THEOREM xcbc_last_block_eq_spec: for every message length (including 0 and 16) and
     whatever the 32-byte final_block scratch held *)
  Theorem xcbc_lane_eq_spec k2 k3 stale msg : length stale = 32 ->
    xcbc_lane E k2 k3 stale msg = xcbc_mac_gen E k2 k3 msg.
  Proof.
    intros Hs. unfold xcbc_lane, xcbc_mac_gen.
    set (len := length msg).
    destruct (Nat.eq_dec len 0) as [Hz|Hnz].
    - (* empty *)
      apply length_zero_nil in Hz. subst msg. cbn [length] in len. subst len.
      cbn [Nat.leb Nat.eqb Nat.modulo Nat.divmod fst snd Nat.sub skipn firstn].
      rewrite chunks_nil, cbcmac_loop_nil.
      rewrite xcbc_slow_final_is_pad_10 by (assumption || (cbn; lia)).
      unfold cbc_mac_step, cbc_mac_run, mac_fin. rewrite chunks_nil. reflexivity.
    - assert (Hpos : 0 < len) by lia.
      destruct (msg_decomp msg len Hpos (le_n _)) as (_ & _ & Em & Hlb & Hll & Hr & Ho).
      unfold len in Em, Hlb, Hll. rewrite firstn_all in Em, Hlb, Hll. fold len in Em, Hlb, Hll.
      set (off := (cmac_n len - 1) * 16) in *.
      assert (Hgoal : forall body last, body = firstn off msg -> last = skipn off msg ->
                cbc_mac_step E (cbc_mac_run E (zeros 16)
                  (firstn (if if Nat.leb len 16 then Nat.eqb len 16 else Nat.eqb (len mod 16) 0
                           then len - 16 else len - len mod 16) msg))
                  (if if Nat.leb len 16 then Nat.eqb len 16 else Nat.eqb (len mod 16) 0
                   then xor_bytes (skipn (len - 16) msg) k2
                   else xcbc_slow_final stale (skipn (len - len mod 16) msg) k3) =
                E (xor_bytes (mac_fin k2 k3 last) (cbc_mac_run E (zeros 16) body))).
      { intros body last -> ->. unfold mac_fin. rewrite Hll. unfold cmac_r, cmac_n in *.
        destruct (Nat.eq_dec (len mod 16) 0) as [Hm|Hm].
        - (* last block complete: fast_copy *)
          assert (Ef : (if Nat.leb len 16 then Nat.eqb len 16 else Nat.eqb (len mod 16) 0) = true).
          { destruct (Nat.leb_spec len 16); apply Nat.eqb_eq; lia. }
          assert (Er : Nat.eqb (len mod 16) 0 = true) by (apply Nat.eqb_eq; exact Hm).
          rewrite Ef. rewrite Er in *. cbn [Nat.eqb].
          replace (len - 16) with off by (unfold off; lia). reflexivity.
        - (* incomplete: slow_copy *)
          assert (Ef : (if Nat.leb len 16 then Nat.eqb len 16 else Nat.eqb (len mod 16) 0) = false).
          { destruct (Nat.leb_spec len 16); apply Nat.eqb_neq; lia. }
          assert (Er : Nat.eqb (len mod 16) 0 = false) by (apply Nat.eqb_neq; exact Hm).
          rewrite Ef. rewrite Er in *.
          destruct (Nat.eqb_spec (len mod 16) 16); [lia|].
          replace (len - len mod 16) with off by (unfold off; lia).
          rewrite xcbc_slow_final_is_pad_10 by (try assumption; rewrite Hll; lia).
          reflexivity. }
      rewrite (Hgoal _ _ eq_refl eq_refl). clear Hgoal.
      remember (firstn off msg) as body. remember (skipn off msg) as last.
      clearbody len. rewrite Em. symmetry.
      apply (cbcmac_loop_split (mac_fin k2 k3) (cmac_n len - 1) (zeros 16) body last Hlb).
      rewrite Hll. exact Hr.
  Qed.
End Generic.

(* ---------- AES instantiation ---------- *)

Theorem cmac_lane_eq_cmac key msg :
  let e := aes_enc_rk (aes_key_expand key) in
  cmac_lane_bytes e (fst (cmac_subkeys key)) (snd (cmac_subkeys key)) msg = cmac key msg.
Proof. intros e. apply cmac_lane_bytes_eq_cmac_gen. Qed.

Theorem cmac_lane_eq_cmac_bits key msg bits :
  cmac_len_bytes bits <= length msg ->
  let e := aes_enc_rk (aes_key_expand key) in
  cmac_lane e (fst (cmac_subkeys key)) (snd (cmac_subkeys key)) msg bits = cmac_bits key msg bits.
Proof. intros H e. apply cmac_lane_bits_eq_spec. exact H. Qed.

Theorem xcbc_lane_eq_xcbc key stale msg : length stale = 32 ->
  xcbc_lane (aes_enc_rk (fst (fst (xcbc_keys key)))) (snd (fst (xcbc_keys key)))
            (snd (xcbc_keys key)) stale msg = xcbc key msg.
Proof.
  intros Hs. unfold xcbc. destruct (xcbc_keys key) as [[k1e k2] k3]. cbn [fst snd].
  apply xcbc_lane_eq_spec. exact Hs.
Qed.
