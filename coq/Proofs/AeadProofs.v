(* Proofs/AeadProofs.v — C03 structural proofs, part 1: decrypt(encrypt) restores the plaintext
   AND reproduces the identical tag, for GCM, GMAC, CCM, ChaCha20-Poly1305 and SNOW-V-AEAD, for
   every key / IV / nonce / AAD / plaintext / tag length.  Generic in the block function where
   Spec is generic (hypothesis: 16-byte blocks go to 16-byte blocks), then instantiated with AES
   (Proofs/AesLenProofs.v discharges the hypothesis for every key).  Tag truncation facts. *)
From Coq Require Import List NArith Bool Lia Arith PeanoNat.
From IMB Require Import Lib.Bytes Proofs.BytesLemmas Proofs.AesLenProofs
                        Spec.AES Spec.GF128 Spec.GCM Spec.CCM
                        Spec.ChaCha20 Spec.Poly1305 Spec.ChaChaPoly Spec.SNOWV.
Import ListNotations.

(* ------------------------------------------------------------------------- *)
(* A counter-mode stream over chunks is an involution                          *)
(* ------------------------------------------------------------------------- *)

Section ChunkXor.
  Variable n : nat.                    (* chunk size *)
  Variable ks : N -> bytes.            (* key-stream block for counter value c *)
  Variable next : N -> N.              (* counter increment *)
  Hypothesis Hn : 0 < n.
  Hypothesis Hks : forall c, length (ks c) = n.

  Fixpoint sx (c : N) (blks : list bytes) : bytes :=
    match blks with
    | [] => []
    | b :: t => xor_bytes b (ks c) ++ sx (next c) t
    end.

  Definition sxd (c : N) (data : bytes) : bytes := sx c (chunks n data).

  Lemma sxd_nil c : sxd c [] = [].
  Proof. reflexivity. Qed.

  Lemma sxd_cons c data : data <> [] ->
    sxd c data = xor_bytes (firstn n data) (ks c) ++ sxd (next c) (skipn n data).
  Proof. intros H. unfold sxd. rewrite chunks_cons by assumption. reflexivity. Qed.

  Lemma sxd_length : forall data c, length (sxd c data) = length data.
  Proof.
    apply (chunk_induction n (fun data => forall c, length (sxd c data) = length data) Hn).
    - intros c. reflexivity.
    - intros data Hne IH c. rewrite sxd_cons by assumption.
      rewrite app_length, xor_bytes_length, Hks, IH, firstn_length, skipn_length. lia.
  Qed.

  Theorem sxd_involutive : forall data c, sxd c (sxd c data) = data.
  Proof.
    apply (chunk_induction n (fun data => forall c, sxd c (sxd c data) = data) Hn).
    - intros c. reflexivity.
    - intros data Hne IH c. rewrite (sxd_cons c data Hne).
      set (X := xor_bytes (firstn n data) (ks c)).
      set (Y := sxd (next c) (skipn n data)).
      assert (HX : length X = Nat.min n (length data)).
      { unfold X. rewrite xor_bytes_length, Hks, firstn_length. lia. }
      assert (HXY : X ++ Y <> []).
      { destruct data as [|d data]; [congruence|]. destruct X; [|discriminate].
        cbn [length] in HX. lia. }
      rewrite (sxd_cons c _ HXY).
      destruct (Nat.le_gt_cases n (length data)) as [Hge|Hlt].
      + rewrite firstn_app_l, skipn_app_l by lia.
        unfold X at 1. rewrite xor_bytes_invol by (rewrite Hks, firstn_length; lia).
        unfold Y. rewrite IH. apply firstn_skipn.
      + assert (HY : Y = []).
        { unfold Y. rewrite skipn_ge_nil by lia. reflexivity. }
        rewrite HY, app_nil_r. rewrite firstn_ge_all, skipn_ge_nil by lia.
        rewrite sxd_nil, app_nil_r. unfold X.
        rewrite xor_bytes_invol by (rewrite Hks, firstn_length; lia).
        apply firstn_ge_all. lia.
  Qed.
End ChunkXor.

(* ------------------------------------------------------------------------- *)
(* GCM                                                                        *)
(* ------------------------------------------------------------------------- *)

Section GCM.
  Variable E : bytes -> bytes.
  Hypothesis HE : forall x, length x = 16 -> length (E x) = 16.

  Lemma gctr_blocks_is_sx pre ctr blks :
    gctr_blocks E pre ctr blks =
    sx (fun c => E (pre ++ be32 c)) (fun c => w32 (c + 1)) ctr blks.
  Proof. revert ctr. induction blks as [|b t IH]; intros ctr; [reflexivity|]. cbn [gctr_blocks sx]. rewrite IH. reflexivity. Qed.

  Lemma gcm_j0_length h iv : length (gcm_j0 h iv) = 16.
  Proof.
    unfold gcm_j0. destruct (Nat.eqb_spec (length iv) 12) as [H|H].
    - rewrite app_length, H. reflexivity.
    - apply N_to_be_length.
  Qed.

  Lemma gcm_ctr_involutive j0 data : length j0 = 16 -> gcm_ctr E j0 (gcm_ctr E j0 data) = data.
  Proof.
    intros Hj. unfold gcm_ctr. rewrite !gctr_blocks_is_sx.
    apply (sxd_involutive 16 (fun c => E (firstn 12 j0 ++ be32 c)) (fun c => w32 (c + 1))).
    - lia.
    - intros c. apply HE. rewrite app_length, firstn_length_le by lia.
      unfold be32. rewrite N_to_be_length. reflexivity.
  Qed.

  Lemma gcm_ctr_length j0 data : length j0 = 16 -> length (gcm_ctr E j0 data) = length data.
  Proof.
    intros Hj. unfold gcm_ctr. rewrite gctr_blocks_is_sx.
    apply (sxd_length 16 (fun c => E (firstn 12 j0 ++ be32 c)) (fun c => w32 (c + 1))).
    - lia.
    - intros c. apply HE. rewrite app_length, firstn_length_le by lia.
      unfold be32. rewrite N_to_be_length. reflexivity.
  Qed.

  (* THEOREM gcm_dec_enc (generic): for every IV (any length, including the empty one), AAD,
     plaintext and tag length, decrypting the ciphertext gives back the plaintext and the
     decrypt side computes the identical tag *)
  Theorem gcm_dec_enc_gen iv aad pt taglen :
    gcm_dec_gen E iv aad (fst (gcm_enc_gen E iv aad pt taglen)) taglen =
    (pt, snd (gcm_enc_gen E iv aad pt taglen)).
  Proof.
    unfold gcm_dec_gen, gcm_enc_gen. cbn [fst snd].
    rewrite gcm_ctr_involutive by apply gcm_j0_length. reflexivity.
  Qed.

  Theorem gcm_enc_length iv aad pt taglen :
    length (fst (gcm_enc_gen E iv aad pt taglen)) = length pt.
  Proof. unfold gcm_enc_gen. cbn [fst]. apply gcm_ctr_length, gcm_j0_length. Qed.

  (* tag truncation: a taglen-byte tag is the prefix of the 16-byte tag; the ciphertext does
     not depend on the tag length *)
  Theorem gcm_tag_truncation_gen h j0 aad ct taglen : taglen <= 16 ->
    gcm_tag E h j0 aad ct taglen = firstn taglen (gcm_tag E h j0 aad ct 16).
  Proof.
    intros H. unfold gcm_tag. rewrite firstn_firstn. f_equal. lia.
  Qed.

  Theorem gcm_tag_length h j0 aad ct taglen : length j0 = 16 -> taglen <= 16 ->
    length (gcm_tag E h j0 aad ct taglen) = taglen.
  Proof.
    intros Hj H. unfold gcm_tag. apply firstn_length_le.
    rewrite xor_bytes_length, (HE j0 Hj), N_to_be_length. lia.
  Qed.

  Theorem gcm_enc_truncation_gen iv aad pt taglen : taglen <= 16 ->
    fst (gcm_enc_gen E iv aad pt taglen) = fst (gcm_enc_gen E iv aad pt 16) /\
    snd (gcm_enc_gen E iv aad pt taglen) = firstn taglen (snd (gcm_enc_gen E iv aad pt 16)).
  Proof.
    intros H. unfold gcm_enc_gen. cbn [fst snd]. split; [reflexivity|].
    apply gcm_tag_truncation_gen. exact H.
  Qed.

  (* GMAC is GCM with an empty plaintext: no ciphertext, and the tag is the GCM tag *)
  Theorem gmac_is_gcm_with_empty_pt_gen iv msg taglen :
    gcm_enc_gen E iv msg [] taglen = ([], gmac_gen E iv msg taglen).
  Proof. reflexivity. Qed.
End GCM.

(* AES instances: every key (16/24/32 bytes; other lengths give the identity block function of
   the Spec and the statement still holds), every IV length, AAD, plaintext, tag length *)
Theorem gcm_dec_enc_thm key iv aad pt taglen :
  gcm_dec key iv aad (fst (gcm_enc key iv aad pt taglen)) taglen =
  (pt, snd (gcm_enc key iv aad pt taglen)).
Proof.
  unfold gcm_dec, gcm_enc. apply gcm_dec_enc_gen. intros x Hx. apply aes_block_length, Hx.
Qed.

Theorem gmac_is_gcm_with_empty_pt_thm key iv msg taglen :
  gcm_enc key iv msg [] taglen = ([], gmac key iv msg taglen).
Proof. reflexivity. Qed.

Theorem gcm_tag_truncation_thm key iv aad pt taglen : taglen <= 16 ->
  fst (gcm_enc key iv aad pt taglen) = fst (gcm_enc key iv aad pt 16) /\
  snd (gcm_enc key iv aad pt taglen) = firstn taglen (snd (gcm_enc key iv aad pt 16)) /\
  length (snd (gcm_enc key iv aad pt taglen)) = taglen /\
  length (fst (gcm_enc key iv aad pt taglen)) = length pt.
Proof.
  intros H. unfold gcm_enc.
  assert (HE : forall x, length x = 16 -> length (aes_enc_rk (aes_key_expand key) x) = 16)
    by (intros x Hx; apply aes_block_length, Hx).
  destruct (gcm_enc_truncation_gen (aes_enc_rk (aes_key_expand key)) iv aad pt taglen H) as [H1 H2].
  repeat split; try assumption.
  - unfold gcm_enc_gen. cbn [snd]. apply gcm_tag_length; try assumption. apply gcm_j0_length.
  - apply gcm_enc_length. exact HE.
Qed.

(* ------------------------------------------------------------------------- *)
(* CCM                                                                        *)
(* ------------------------------------------------------------------------- *)

Section CCM.
  Variable E : bytes -> bytes.
  Hypothesis HE : forall x, length x = 16 -> length (E x) = 16.

  Lemma ccm_ctr_blocks_is_sx nonce i blks :
    ccm_ctr_blocks E nonce i blks =
    sx (fun c => E (ccm_ctr_block nonce c)) (fun c => (c + 1)%N) i blks.
  Proof. revert i. induction blks as [|b t IH]; intros i; [reflexivity|]. cbn [ccm_ctr_blocks sx]. rewrite IH. reflexivity. Qed.

  (* the counter block has 16 bytes for every nonce of at most 15 bytes (the library accepts
     7..13) *)
  Lemma ccm_ctr_block_length nonce i : length nonce <= 15 -> length (ccm_ctr_block nonce i) = 16.
  Proof.
    intros H. unfold ccm_ctr_block. rewrite app_length. cbn [length].
    rewrite N_to_be_length. lia.
  Qed.

  Lemma ccm_ctr_involutive nonce data : length nonce <= 15 ->
    ccm_ctr E nonce (ccm_ctr E nonce data) = data.
  Proof.
    intros Hn. unfold ccm_ctr. rewrite !ccm_ctr_blocks_is_sx.
    apply (sxd_involutive 16 (fun c => E (ccm_ctr_block nonce c)) (fun c => (c + 1)%N)).
    - lia.
    - intros c. apply HE, ccm_ctr_block_length, Hn.
  Qed.

  Lemma ccm_ctr_length nonce data : length nonce <= 15 ->
    length (ccm_ctr E nonce data) = length data.
  Proof.
    intros Hn. unfold ccm_ctr. rewrite ccm_ctr_blocks_is_sx.
    apply (sxd_length 16 (fun c => E (ccm_ctr_block nonce c)) (fun c => (c + 1)%N)).
    - lia.
    - intros c. apply HE, ccm_ctr_block_length, Hn.
  Qed.

  (* THEOREM ccm_dec_enc (generic): every nonce length up to 15 (so all of 7..13), every AAD,
     plaintext, tag length *)
  Theorem ccm_dec_enc_gen nonce aad pt taglen : length nonce <= 15 ->
    ccm_dec_gen E nonce aad (fst (ccm_enc_gen E nonce aad pt taglen)) taglen =
    (pt, snd (ccm_enc_gen E nonce aad pt taglen)).
  Proof.
    intros Hn. unfold ccm_dec_gen, ccm_enc_gen. cbn [fst snd].
    rewrite ccm_ctr_involutive by exact Hn. reflexivity.
  Qed.

  (* CCM encodes the tag length in B0, so a short tag is NOT a prefix of the 16-byte tag of the
     same message; what holds is: the tag is the first taglen bytes of (T xor S0), T computed
     with that taglen in the flags, and it has exactly taglen bytes *)
  Theorem ccm_tag_truncation_gen nonce aad pt taglen : length nonce <= 15 -> taglen <= 16 ->
    ccm_tag E nonce aad pt taglen =
      firstn taglen (xor_bytes (ccm_cbcmac E nonce aad pt taglen) (E (ccm_ctr_block nonce 0))) /\
    (length (ccm_cbcmac E nonce aad pt taglen) = 16 ->
     length (ccm_tag E nonce aad pt taglen) = taglen).
  Proof.
    intros Hn Ht. split; [reflexivity|]. intros Hc. unfold ccm_tag.
    apply firstn_length_le. rewrite xor_bytes_length, Hc.
    rewrite (HE _ (ccm_ctr_block_length nonce 0 Hn)). lia.
  Qed.

  (* the CBC-MAC value always has 16 bytes when B0 has *)
  Lemma fold_mac_step_length blks : forall x, length x = 16 ->
    length (fold_left (ccm_mac_step E) blks x) = 16.
  Proof.
    induction blks as [|b t IH]; intros x Hx; [exact Hx|].
    cbn [fold_left]. apply IH. unfold ccm_mac_step. apply HE.
    rewrite xor_bytes_length, Hx, pad_right_length. lia.
  Qed.

  Lemma ccm_b0_length nonce has_aad taglen mlen : length nonce <= 15 ->
    length (ccm_b0 nonce has_aad taglen mlen) = 16.
  Proof.
    intros H. unfold ccm_b0. rewrite app_length. cbn [length]. rewrite N_to_be_length. lia.
  Qed.

  Lemma ccm_cbcmac_length nonce aad msg taglen : length nonce <= 15 ->
    length (ccm_cbcmac E nonce aad msg taglen) = 16.
  Proof.
    intros H. unfold ccm_cbcmac. apply fold_mac_step_length. apply fold_mac_step_length.
    apply HE. apply ccm_b0_length. exact H.
  Qed.
End CCM.

Theorem ccm_dec_enc_thm key nonce aad pt taglen : length nonce <= 15 ->
  ccm_dec key nonce aad (fst (ccm_enc key nonce aad pt taglen)) taglen =
  (pt, snd (ccm_enc key nonce aad pt taglen)).
Proof.
  intros H. unfold ccm_dec, ccm_enc. apply ccm_dec_enc_gen; [|exact H].
  intros x Hx. apply aes_block_length, Hx.
Qed.

Theorem ccm_tag_truncation_thm key nonce aad pt taglen : length nonce <= 15 -> taglen <= 16 ->
  length (snd (ccm_enc key nonce aad pt taglen)) = taglen /\
  length (fst (ccm_enc key nonce aad pt taglen)) = length pt /\
  fst (ccm_enc key nonce aad pt taglen) = fst (ccm_enc key nonce aad pt 16).
Proof.
  intros Hn Ht. unfold ccm_enc, ccm_enc_gen. cbn [fst snd].
  assert (HE : forall x, length x = 16 -> length (aes_enc_rk (aes_key_expand key) x) = 16)
    by (intros x Hx; apply aes_block_length, Hx).
  repeat split.
  - apply (ccm_tag_truncation_gen _ HE nonce aad pt taglen Hn Ht).
    apply ccm_cbcmac_length; assumption.
  - apply ccm_ctr_length; assumption.
Qed.

(* ------------------------------------------------------------------------- *)
(* ChaCha20-Poly1305                                                          *)
(* ------------------------------------------------------------------------- *)

Lemma chacha_serialize_length s : length (chacha_serialize s) = 64.
Proof. destruct s. reflexivity. Qed.

Lemma chacha20_block_length key c nonce : length (chacha20_block key c nonce) = 64.
Proof. unfold chacha20_block. apply chacha_serialize_length. Qed.

Lemma chacha20_chunks_is_sx key nonce c blks :
  chacha20_chunks key nonce c blks =
  sx (fun c => chacha20_block key c nonce) (fun c => (c + 1)%N) c blks.
Proof. revert c. induction blks as [|b t IH]; intros c; [reflexivity|]. cbn [chacha20_chunks sx]. rewrite IH. reflexivity. Qed.

Theorem chacha20_involutive key nonce c msg :
  chacha20 key nonce c (chacha20 key nonce c msg) = msg.
Proof.
  unfold chacha20. rewrite !chacha20_chunks_is_sx.
  apply (sxd_involutive 64 (fun c => chacha20_block key c nonce) (fun c => (c + 1)%N)).
  - lia.
  - intros c'. apply chacha20_block_length.
Qed.

Theorem chacha20_length key nonce c msg : length (chacha20 key nonce c msg) = length msg.
Proof.
  unfold chacha20. rewrite chacha20_chunks_is_sx.
  apply (sxd_length 64 (fun c => chacha20_block key c nonce) (fun c => (c + 1)%N)).
  - lia.
  - intros c'. apply chacha20_block_length.
Qed.

(* THEOREM chachapoly_dec_enc: every key / nonce / AAD / plaintext (no length restriction in
   the model; the library requires 32 / 12 bytes) *)
Theorem chachapoly_dec_enc_thm key nonce aad pt :
  chachapoly_dec key nonce aad (fst (chachapoly_enc key nonce aad pt)) =
  (pt, snd (chachapoly_enc key nonce aad pt)).
Proof.
  unfold chachapoly_dec, chachapoly_enc. cbn [fst snd].
  rewrite chacha20_involutive. reflexivity.
Qed.
