(* Proofs/OooInstProofs.v — fold lanes satisfy the scheduler's kernel hypotheses; instances. *)
From Coq Require Import ZArith List Bool Lia Arith.
From IMB Require Import Lib.Bytes Mgr.Ooo Mgr.OooInst Proofs.OooProofs Spec.AES Spec.AESModes.
Import ListNotations.
Local Open Scope Z_scope.

Lemma iter_add {X} (f : X -> X) : forall a b x, iter (a + b) f x = iter b f (iter a f x).
Proof. induction a as [|a IH]; intros b x; cbn [Nat.add iter]; [reflexivity|apply IH]. Qed.

Section FoldLaneProofs.
Variables A B O : Type.
Notation flane := (flane A B O).
Notation fstep := (fstep A B O).
Notation fstep1 := (fstep1 A B O).

Lemma fstep_0 (s : flane) : fstep s 0 = s.
Proof. reflexivity. Qed.

Lemma fstep_add (s : flane) a b : 0 <= a -> 0 <= b -> fstep (fstep s a) b = fstep s (a + b).
Proof.
  intros Ha Hb. unfold OooInst.fstep. rewrite Z2Nat.inj_add by lia.
  rewrite iter_add. reflexivity.
Qed.

Lemma iter_fstep1 f : forall k acc todo out,
  (k <= length todo)%nat ->
  iter k fstep1 (mkflane A B O f acc todo out) =
  let '(a', os) := fold_outs A B O f acc (firstn k todo) in
  mkflane A B O f a' (skipn k todo) (out ++ os).
Proof.
  induction k as [|k IH]; intros acc todo out Hk.
  - cbn. rewrite app_nil_r. reflexivity.
  - destruct todo as [|b r]; [cbn in Hk; lia|].
    cbn [iter]. unfold OooInst.fstep1 at 2. cbn [fl_todo fl_f fl_acc fl_out].
    cbn [firstn skipn fold_outs]. destruct (f acc b) as [a' o] eqn:Ef.
    rewrite IH by (cbn in Hk; lia).
    destruct (fold_outs A B O f a' (firstn k r)) as [a'' os]. rewrite <- app_assoc. reflexivity.
Qed.

(* a lane that has processed all its units holds the job's alone result *)
Lemma fstep_full (j : fjob A B O) :
  let s := fstep (finit A B O j) (funits A B O j) in
  (fl_acc s, fl_out s) = falone A B O j /\ fl_todo s = [].
Proof.
  unfold OooInst.fstep, finit, funits, falone. rewrite Nat2Z.id.
  rewrite iter_fstep1 by lia. rewrite firstn_all, skipn_all.
  destruct (fold_outs A B O (fj_f j) (fj_acc j) (fj_in j)) as [a os]. cbn. auto.
Qed.
End FoldLaneProofs.

Lemma cbc_enc_fold E : forall bs iv,
  snd (fold_outs bytes bytes bytes (cbc_enc_f E) iv bs) = cbc_enc_blocks E iv bs.
Proof.
  induction bs as [|b r IH]; intros iv; [reflexivity|].
  cbn [fold_outs cbc_enc_blocks]. unfold cbc_enc_f at 1.
  specialize (IH (E (xor_bytes b iv))).
  destruct (fold_outs bytes bytes bytes (cbc_enc_f E) (E (xor_bytes b iv)) r) as [a os].
  cbn [snd] in *. rewrite IH. reflexivity.
Qed.

Lemma md_fold compress : forall bs st,
  fst (fold_outs (list N) bytes unit (md_f compress) st bs) = fold_left compress bs st.
Proof.
  induction bs as [|b r IH]; intros st; [reflexivity|].
  cbn [fold_outs fold_left]. unfold md_f at 1. specialize (IH (compress st b)).
  destruct (fold_outs (list N) bytes unit (md_f compress) (compress st b) r) as [a os]. exact IH.
Qed.

(* ---- the scheduler instantiated with fold lanes ---- *)
Section FoldSchedule.
Variables A B O : Type.
Variable L : nat.
Hypothesis HL : (1 <= L)%nat.
Notation fjob := (fjob A B O).
Notation flane := (flane A B O).

Definition frun := orun fjob flane (finit A B O) (funits A B O) (fstep A B O) L.
Definition fjobs_ok := jobs_ok fjob (funits A B O).

Theorem fold_schedule_result (o : ooo fjob flane) (ps : list (oop fjob)) :
  Inv1 fjob flane (finit A B O) (funits A B O) (fstep A B O) L o -> fjobs_ok ps ->
  Forall (fun r => match r with
                   | None => True
                   | Some (j, s) => (fl_acc s, fl_out s) = falone A B O j /\ fl_todo s = []
                   end) (snd (frun o ps)).
Proof.
  intros HI Hok.
  pose proof (ooo_job_result_alone_thm fjob flane (finit A B O) (funits A B O) (fstep A B O) L HL
                (fstep_0 A B O) (fstep_add A B O) ps o HI Hok) as H.
  unfold frun. eapply Forall_impl; [|exact H].
  intros [[j s]|] Hr; [|exact I]. subst s. apply fstep_full.
Qed.
End FoldSchedule.
