(* C13 -- proofs about the SAFE_DATA storage model (Mgr/SafeData.v).

   Main invariant [inv]: in every reachable state, a lane without a job holds the reset image (or,
   for k_junk fields, job-independent garbage) in every claimed field, and a lane working for job j
   holds, in its claimed fields, nothing derived from any other job.  It is preserved by every
   submit and flush of a family that satisfies [family_ok], for all lane choices. *)
From Coq Require Import List Bool Arith Lia.
From IMB Require Import Mgr.SafeData.
Import ListNotations.

(* ---------------------------------------------------------------------------------------- *)
(* lists                                                                                     *)
(* ---------------------------------------------------------------------------------------- *)
Lemma forall_set_nth : forall {A} (P : A -> Prop) (l : list A) n x,
    Forall P l -> P x -> Forall P (set_nth l n x).
Proof.
  intros A P l; induction l as [|h t IH]; intros n x Hl Hx.
  - simpl. constructor.
  - inversion Hl; subst. destruct n; simpl; constructor; auto.
Qed.

Lemma forall_map' : forall {A B} (P : B -> Prop) (f : A -> B) (l : list A),
    Forall (fun x => P (f x)) l -> Forall P (map f l).
Proof.
  intros A B P f l H; induction H; simpl; constructor; auto.
Qed.

Lemma forall_nth_error : forall {A} (P : A -> Prop) (l : list A) n x,
    Forall P l -> nth_error l n = Some x -> P x.
Proof.
  intros A P l n x H Hn. apply nth_error_In in Hn. rewrite Forall_forall in H. auto.
Qed.

Lemma nth_error_set_nth_eq : forall {A} (l : list A) n x,
    n < length l -> nth_error (set_nth l n x) n = Some x.
Proof.
  intros A l; induction l as [|h t IH]; intros n x Hn; simpl in *.
  - lia.
  - destruct n; simpl; auto. apply IH. lia.
Qed.

Lemma nth_error_lt : forall {A} (l : list A) n x, nth_error l n = Some x -> n < length l.
Proof.
  intros A l n x H. apply nth_error_Some. rewrite H. discriminate.
Qed.

(* ---------------------------------------------------------------------------------------- *)
(* per lane                                                                                  *)
(* ---------------------------------------------------------------------------------------- *)
Lemma clean_reset : forall fam, clean fam (map (fun _ => Zero) fam).
Proof.
  induction fam; simpl; auto.
Qed.

Lemma clean_nth : forall fam vals i f,
    clean fam vals -> nth_error fam i = Some f -> claim f = true ->
    exists v, nth_error vals i = Some v /\ (v = Zero \/ (k_junk f = true /\ v = Junk)).
Proof.
  induction fam as [|g fam IH]; intros vals i f Hc Hn Hcl.
  - destruct i; discriminate.
  - destruct vals as [|v vals]; simpl in Hc; [contradiction|]. destruct Hc as [H1 H2].
    destruct i; simpl in *.
    + inversion Hn; subst. exists v. split; auto.
    + eapply IH; eauto.
Qed.

Lemma owned_nth : forall fam j vals i f v,
    owned fam j vals -> nth_error fam i = Some f -> claim f = true ->
    nth_error vals i = Some v -> v = Zero \/ v = Junk \/ v = Data j.
Proof.
  induction fam as [|g fam IH]; intros j vals i f v Ho Hn Hcl Hv.
  - destruct i; discriminate.
  - destruct vals as [|w vals]; simpl in Ho; [contradiction|]. destruct Ho as [H1 H2].
    destruct i; simpl in *.
    + inversion Hn; inversion Hv; subst. auto.
    + eapply IH; eauto.
Qed.

Lemma fspec_ok_submit : forall f, fspec_ok f = true -> claim f = true -> c_submit f = true.
Proof.
  intros f H Hc. unfold fspec_ok in H. rewrite Hc in H. simpl in H.
  apply andb_true_iff in H. tauto.
Qed.

Lemma fspec_ok_flush : forall f, fspec_ok f = true -> claim f = true ->
    c_flush_null f = true \/ (t_flush f = false /\ c_flush_ret f = true).
Proof.
  intros f H Hc. unfold fspec_ok in H. rewrite Hc in H. simpl in H.
  apply andb_true_iff in H. destruct H as [_ H]. apply orb_true_iff in H. destruct H as [H|H]; auto.
  apply andb_true_iff in H. destruct H as [H1 H2]. right. split; auto.
  destruct (t_flush f); simpl in H1; [discriminate|reflexivity].
Qed.

(* a free, clean lane that receives a job holds only data of that job *)
Lemma submit_place : forall fam j vals,
    clean fam vals -> owned fam j (upd fam w_submit (Data j) vals).
Proof.
  induction fam as [|f fam IH]; intros j vals Hc; destruct vals as [|v vals]; simpl in *; auto.
  destruct Hc as [H1 H2]. split; auto.
  intros Hcl. destruct (w_submit f); auto.
  destruct (H1 Hcl) as [H|[_ H]]; auto.
Qed.

(* a kernel pass leaves a clean job-less lane clean *)
Lemma junk_clean : forall fam vals, clean fam vals -> clean fam (junk fam vals).
Proof.
  induction fam as [|f fam IH]; intros vals Hc; destruct vals as [|v vals]; simpl in *; auto.
  destruct Hc as [H1 H2]. split; auto.
  intros Hcl. destruct (H1 Hcl) as [H|[Hk H]]; subst.
  - destruct (k_junk f) eqn:Hk; auto.
  - rewrite Hk. auto.
Qed.

(* the SAFE_DATA block of submit restores the reset image in the returned lane *)
Lemma submit_complete : forall fam j vals,
    family_ok fam = true -> owned fam j vals -> clean fam (upd fam c_submit Zero vals).
Proof.
  induction fam as [|f fam IH]; intros j vals Hok Ho; destruct vals as [|v vals]; simpl in *; auto.
  apply andb_true_iff in Hok. destruct Hok as [Hf Hok]. destruct Ho as [H1 H2]. split.
  - intros Hcl. rewrite (fspec_ok_submit f Hf Hcl). auto.
  - eapply IH; eauto.
Qed.

(* flush: a lane without a job is tainted by the good lane, processed by the kernel, then cleared *)
Lemma flush_null : forall fam jg vals,
    family_ok fam = true -> clean fam vals ->
    clean fam (upd fam c_flush_null Zero (junk fam (upd fam t_flush (Data jg) vals))).
Proof.
  induction fam as [|f fam IH]; intros jg vals Hok Hc; destruct vals as [|v vals]; simpl in *; auto.
  apply andb_true_iff in Hok. destruct Hok as [Hf Hok]. destruct Hc as [H1 H2]. split.
  - intros Hcl. destruct (fspec_ok_flush f Hf Hcl) as [Hn|[Ht Hr]].
    + rewrite Hn. auto.
    + rewrite Ht. destruct (c_flush_null f); auto.
      destruct (H1 Hcl) as [H|[Hk H]]; subst.
      * destruct (k_junk f) eqn:Hk; auto.
      * rewrite Hk. auto.
  - apply IH; auto.
Qed.

(* flush: the returned lane *)
Lemma flush_ret : forall fam j vals,
    family_ok fam = true -> owned fam j vals ->
    clean fam (upd fam c_flush_null Zero (upd fam c_flush_ret Zero vals)).
Proof.
  induction fam as [|f fam IH]; intros j vals Hok Ho; destruct vals as [|v vals]; simpl in *; auto.
  apply andb_true_iff in Hok. destruct Hok as [Hf Hok]. destruct Ho as [H1 H2]. split.
  - intros Hcl. destruct (fspec_ok_flush f Hf Hcl) as [Hn|[Ht Hr]].
    + rewrite Hn. auto.
    + rewrite Hr. destruct (c_flush_null f); auto.
  - eapply IH; eauto.
Qed.

(* ---------------------------------------------------------------------------------------- *)
(* the invariant                                                                             *)
(* ---------------------------------------------------------------------------------------- *)
Lemma inv_reset : forall fam n, inv fam (reset_state fam n).
Proof.
  intros fam n. unfold inv, reset_state. apply Forall_forall. intros ln Hin.
  apply repeat_spec in Hin. subst. unfold lane_inv, reset_lane. simpl. apply clean_reset.
Qed.

Lemma is_free_job : forall ln, is_free ln = true -> l_job ln = None.
Proof.
  intros ln. unfold is_free. destruct (l_job ln); auto. discriminate.
Qed.

Lemma is_busy_job : forall ln, is_free ln = false -> exists j, l_job ln = Some j.
Proof.
  intros ln. unfold is_free. destruct (l_job ln); eauto. discriminate.
Qed.

Lemma junk_null_inv : forall fam s, Forall (lane_inv fam) s -> Forall (lane_inv fam) (junk_null fam s).
Proof.
  intros fam s H. unfold junk_null. apply forall_map'. apply Forall_forall. intros ln Hin.
  rewrite Forall_forall in H. specialize (H ln Hin). destruct (is_free ln) eqn:Hf; auto.
  unfold lane_inv in *. rewrite (is_free_job _ Hf) in H. simpl. apply junk_clean; auto.
Qed.

Lemma step_inv : forall fam s o s',
    family_ok fam = true -> inv fam s -> step fam s o = Some s' -> inv fam s'.
Proof.
  intros fam s o s' Hok Hinv Hstep. unfold inv in *. destruct o as [j l oc|g c]; simpl in Hstep.
  - (* submit *)
    destruct (nth_error s l) as [ln|] eqn:Hl; [|discriminate].
    destruct (is_free ln) eqn:Hfree; [|discriminate].
    pose proof (forall_nth_error _ _ _ _ Hinv Hl) as Hln.
    unfold lane_inv in Hln. rewrite (is_free_job _ Hfree) in Hln.
    assert (Hs1 : Forall (lane_inv fam)
                    (set_nth s l (mk_lane (Some j) (upd fam w_submit (Data j) (l_fld ln))))).
    { apply forall_set_nth; auto. unfold lane_inv. simpl. apply submit_place; auto. }
    destruct oc as [c|].
    + apply junk_null_inv in Hs1.
      destruct (nth_error (junk_null fam
                  (set_nth s l (mk_lane (Some j) (upd fam w_submit (Data j) (l_fld ln))))) c)
        as [lc|] eqn:Hc; [|discriminate].
      destruct (is_free lc) eqn:Hfc; [discriminate|].
      inversion Hstep; subst s'. apply forall_set_nth; auto.
      pose proof (forall_nth_error _ _ _ _ Hs1 Hc) as Hlc.
      destruct (is_busy_job _ Hfc) as [j' Hj']. unfold lane_inv in Hlc. rewrite Hj' in Hlc.
      unfold lane_inv. simpl. eapply submit_complete; eauto.
    + inversion Hstep; subst; auto.
  - (* flush *)
    destruct (nth_error s g) as [lg|] eqn:Hg; [|discriminate].
    destruct (nth_error s c) as [lc|] eqn:Hc; [|discriminate].
    destruct (l_job lg) as [jg|] eqn:Hjg; [|discriminate].
    destruct (l_job lc) as [jc|] eqn:Hjc; [|discriminate].
    inversion Hstep; subst s'. unfold clear_null. apply forall_map'.
    apply forall_set_nth.
    + unfold junk_null. apply forall_map'. unfold taint_null. apply forall_map'.
      apply Forall_forall. intros ln Hin.
      rewrite Forall_forall in Hinv. specialize (Hinv ln Hin). unfold lane_inv in Hinv.
      destruct (is_free ln) eqn:Hf.
      * rewrite (is_free_job _ Hf) in Hinv. unfold is_free at 1 2. simpl.
        unfold lane_inv. simpl. apply flush_null; auto.
      * rewrite Hf. rewrite Hf. unfold lane_inv. exact Hinv.
    + unfold is_free at 1. simpl. unfold lane_inv. simpl.
      pose proof (forall_nth_error _ _ _ _ Hinv Hc) as Hlc. unfold lane_inv in Hlc.
      rewrite Hjc in Hlc. eapply flush_ret; eauto.
Qed.

Lemma run_inv : forall fam ops s s',
    family_ok fam = true -> inv fam s -> run fam s ops = Some s' -> inv fam s'.
Proof.
  intros fam ops; induction ops as [|o ops IH]; intros s s' Hok Hinv Hrun; simpl in Hrun.
  - inversion Hrun; subst; auto.
  - destruct (step fam s o) as [s1|] eqn:Hs; [|discriminate].
    exact (IH s1 s' Hok (step_inv fam s o s1 Hok Hinv Hs) Hrun).
Qed.

Lemma reset_image_nth : forall fam i f,
    nth_error fam i = Some f -> nth_error (l_fld (reset_lane fam)) i = Some Zero.
Proof.
  intros fam i f H. unfold reset_lane. simpl.
  apply (map_nth_error (fun _ => Zero)) in H. exact H.
Qed.

Lemma clean_reset_image : forall fam vals i f,
    clean fam vals -> nth_error fam i = Some f -> claim f = true -> k_junk f = false ->
    nth_error vals i = nth_error (l_fld (reset_lane fam)) i.
Proof.
  intros fam vals i f Hc Hf Hcl Hk. rewrite (reset_image_nth fam i f Hf).
  destruct (clean_nth _ _ _ _ Hc Hf Hcl) as [v [Hv [H|[H _]]]].
  - subst. exact Hv.
  - rewrite Hk in H. discriminate.
Qed.

Lemma clean_no_data : forall fam vals i f j,
    clean fam vals -> nth_error fam i = Some f -> claim f = true ->
    nth_error vals i <> Some (Data j).
Proof.
  intros fam vals i f j Hc Hf Hcl Hd.
  destruct (clean_nth _ _ _ _ Hc Hf Hcl) as [v [Hv [H|[_ H]]]]; subst; rewrite Hv in Hd; discriminate.
Qed.

(* ---------------------------------------------------------------------------------------- *)
(* the property theorems                                                                     *)
(* ---------------------------------------------------------------------------------------- *)

(* For ALL histories of submits and flushes: whenever no job is in flight, every sensitive
   (claimed) field of every lane equals its reset image -- fields the kernels turn into
   job-independent garbage excepted, see the next theorem for those. *)
Theorem ooo_clean_when_idle_lemma :
  forall (fam : family) (n : nat) (ops : list op) (s : state),
    family_ok fam = true ->
    run fam (reset_state fam n) ops = Some s ->
    idle s ->
    forall ln i f,
      In ln s -> nth_error fam i = Some f -> claim f = true -> k_junk f = false ->
      nth_error (l_fld ln) i = nth_error (l_fld (reset_lane fam)) i.
Proof.
  intros fam n ops s Hok Hrun Hidle ln i f Hin Hf Hcl Hk.
  pose proof (run_inv fam ops _ _ Hok (inv_reset fam n) Hrun) as Hinv.
  unfold inv in Hinv. rewrite Forall_forall in Hinv. specialize (Hinv ln Hin).
  unfold lane_inv in Hinv. rewrite (Hidle ln Hin) in Hinv.
  eapply clean_reset_image; eauto.
Qed.

(* ... and no sensitive field at all, k_junk or not, holds anything derived from a job. *)
Theorem ooo_idle_holds_no_job_data_lemma :
  forall (fam : family) (n : nat) (ops : list op) (s : state),
    family_ok fam = true ->
    run fam (reset_state fam n) ops = Some s ->
    idle s ->
    forall ln i f j,
      In ln s -> nth_error fam i = Some f -> claim f = true ->
      nth_error (l_fld ln) i <> Some (Data j).
Proof.
  intros fam n ops s Hok Hrun Hidle ln i f j Hin Hf Hcl.
  pose proof (run_inv fam ops _ _ Hok (inv_reset fam n) Hrun) as Hinv.
  unfold inv in Hinv. rewrite Forall_forall in Hinv. specialize (Hinv ln Hin).
  unfold lane_inv in Hinv. rewrite (Hidle ln Hin) in Hinv.
  eapply clean_no_data; eauto.
Qed.

(* A lane that has no job holds the reset image in every sensitive field, whatever the other
   lanes are doing ... *)
Theorem ooo_free_lane_clean_lemma :
  forall (fam : family) (n : nat) (ops : list op) (s : state),
    family_ok fam = true ->
    run fam (reset_state fam n) ops = Some s ->
    forall ln i f,
      In ln s -> l_job ln = None -> nth_error fam i = Some f -> claim f = true ->
      (k_junk f = false -> nth_error (l_fld ln) i = nth_error (l_fld (reset_lane fam)) i) /\
      (forall j, nth_error (l_fld ln) i <> Some (Data j)).
Proof.
  intros fam n ops s Hok Hrun ln i f Hin Hfree Hf Hcl.
  pose proof (run_inv fam ops _ _ Hok (inv_reset fam n) Hrun) as Hinv.
  unfold inv in Hinv. rewrite Forall_forall in Hinv. specialize (Hinv ln Hin).
  unfold lane_inv in Hinv. rewrite Hfree in Hinv. split.
  - intros Hk. eapply clean_reset_image; eauto.
  - intros j. eapply clean_no_data; eauto.
Qed.

Inductive completes : op -> nat -> Prop :=
| completes_submit : forall j l c, completes (Submit j l (Some c)) c
| completes_flush : forall g c, completes (Flush g c) c.

(* ... in particular the lane a job has just left, even while other lanes are busy. *)
Theorem ooo_lane_clean_after_completion_lemma :
  forall (fam : family) (n : nat) (ops : list op) (s s' : state) (o : op) (c : nat),
    family_ok fam = true ->
    run fam (reset_state fam n) ops = Some s ->
    step fam s o = Some s' ->
    completes o c ->
    exists lc,
      nth_error s' c = Some lc /\ l_job lc = None /\
      forall i f, nth_error fam i = Some f -> claim f = true ->
                  nth_error (l_fld lc) i = nth_error (l_fld (reset_lane fam)) i.
Proof.
  intros fam n ops s s' o c Hok Hrun Hstep Hcomp.
  pose proof (run_inv fam ops _ _ Hok (inv_reset fam n) Hrun) as Hinv.
  inversion Hcomp; subst; simpl in Hstep.
  - (* submit: the returned lane is cleared by the SAFE_DATA block, nothing runs afterwards *)
    destruct (nth_error s l) as [ln|] eqn:Hl; [|discriminate].
    destruct (is_free ln) eqn:Hfree; [|discriminate].
    pose proof (forall_nth_error _ _ _ _ Hinv Hl) as Hln.
    unfold lane_inv in Hln. rewrite (is_free_job _ Hfree) in Hln.
    assert (Hs1 : Forall (lane_inv fam)
                    (junk_null fam (set_nth s l (mk_lane (Some j) (upd fam w_submit (Data j) (l_fld ln)))))).
    { apply junk_null_inv. apply forall_set_nth; auto. unfold lane_inv. simpl.
      apply submit_place; auto. }
    destruct (nth_error (junk_null fam
                (set_nth s l (mk_lane (Some j) (upd fam w_submit (Data j) (l_fld ln))))) c)
      as [lc|] eqn:Hc; [|discriminate].
    destruct (is_free lc) eqn:Hfc; [discriminate|]. inversion Hstep; subst s'.
    eexists. split; [apply nth_error_set_nth_eq; eapply nth_error_lt; eauto|].
    split; [reflexivity|]. intros i f Hf Hcl.
    rewrite (reset_image_nth fam i f Hf). simpl.
    pose proof (forall_nth_error _ _ _ _ Hs1 Hc) as Hlc.
    destruct (is_busy_job _ Hfc) as [j' Hj']. unfold lane_inv in Hlc. rewrite Hj' in Hlc.
    clear - Hok Hlc Hf Hcl. revert i Hf. generalize (l_fld lc) Hlc. clear Hlc.
    induction fam as [|g fam IH]; intros vals Ho i Hf.
    + destruct i; discriminate.
    + destruct vals as [|v vals]; simpl in Ho; [contradiction|]. destruct Ho as [H1 H2].
      simpl in Hok. apply andb_true_iff in Hok. destruct Hok as [Hg Hok].
      destruct i; simpl in *.
      * inversion Hf; subst. rewrite (fspec_ok_submit f Hg Hcl). reflexivity.
      * apply IH; auto.
  - (* flush: the returned lane is cleared twice over *)
    destruct (nth_error s g) as [lg|] eqn:Hg; [|discriminate].
    destruct (nth_error s c) as [lc|] eqn:Hc; [|discriminate].
    destruct (l_job lg) as [jg|]; [|discriminate].
    destruct (l_job lc) as [jc|] eqn:Hjc; [|discriminate].
    inversion Hstep; subst s'. unfold clear_null.
    eexists. split.
    + apply map_nth_error. apply nth_error_set_nth_eq. unfold junk_null, taint_null.
      rewrite !map_length. eapply nth_error_lt; eauto.
    + unfold is_free. simpl. split; [reflexivity|]. intros i f Hf Hcl.
      rewrite (map_nth_error (fun _ => Zero) _ _ Hf).
      pose proof (forall_nth_error _ _ _ _ Hinv Hc) as Hlc. unfold lane_inv in Hlc.
      rewrite Hjc in Hlc.
      clear - Hok Hlc Hf Hcl. revert i Hf. generalize (l_fld lc) Hlc. clear Hlc.
      induction fam as [|g' fam IH]; intros vals Ho i Hf.
      * destruct i; discriminate.
      * destruct vals as [|v vals]; simpl in Ho; [contradiction|]. destruct Ho as [H1 H2].
        simpl in Hok. apply andb_true_iff in Hok. destruct Hok as [Hg' Hok].
        destruct i; simpl in *.
        -- inversion Hf; subst.
           destruct (fspec_ok_flush f Hg' Hcl) as [Hn|[Ht Hr]].
           ++ rewrite Hn. reflexivity.
           ++ rewrite Hr. destruct (c_flush_null f); reflexivity.
        -- apply IH; auto.
Qed.

(* Nothing derived from a job that is no longer in flight survives in a sensitive field: data of
   job j can only be found in the lane that currently works for j. *)
Theorem ooo_no_residue_of_departed_job_lemma :
  forall (fam : family) (n : nat) (ops : list op) (s : state),
    family_ok fam = true ->
    run fam (reset_state fam n) ops = Some s ->
    forall ln i f j,
      In ln s -> nth_error fam i = Some f -> claim f = true ->
      nth_error (l_fld ln) i = Some (Data j) -> l_job ln = Some j.
Proof.
  intros fam n ops s Hok Hrun ln i f j Hin Hf Hcl Hv.
  pose proof (run_inv fam ops _ _ Hok (inv_reset fam n) Hrun) as Hinv.
  unfold inv in Hinv. rewrite Forall_forall in Hinv. specialize (Hinv ln Hin).
  unfold lane_inv in Hinv. destruct (l_job ln) as [j'|].
  - destruct (owned_nth _ _ _ _ _ _ Hinv Hf Hcl Hv) as [H|[H|H]]; try discriminate.
    inversion H; subst; reflexivity.
  - exfalso. eapply clean_no_data; eauto.
Qed.
