(* Proofs/IsaProofs.v — the instruction-set extensions used by the code each variant installs (Gen/GenIsa.v, regenerated
   from the rebuilt shared object by translators/t3_isa.py) are within the variant's IMB_CPUFLAGS_* mask, hence supported
   by every CPU on which the selector installs that variant. *)
From Coq Require Import ZArith Bool List.
From IMB Require Import Gen.GenConsts Mgr.Select Gen.GenIsa Proofs.SelectProofs.
Import ListNotations.
Local Open Scope Z_scope.

Lemma has_trans f r u : has f r = true -> has r u = true -> has f u = true.
Proof.
  unfold has; rewrite !Z.eqb_eq; intros H1 H2.
  transitivity (Z.land f (Z.land r u)); [now rewrite H2|].
  rewrite Z.land_assoc, H1. exact H2.
Qed.

Lemma has_clear d m u : has (Z.land d (Z.lnot m)) u = true -> has d u = true.
Proof.
  unfold has; rewrite !Z.eqb_eq; intros H.
  apply Z.bits_inj'; intros n Hn.
  assert (Hb := f_equal (fun z => Z.testbit z n) H); cbv beta in Hb.
  rewrite !Z.land_spec in Hb. rewrite Z.lnot_spec in Hb by assumption.
  rewrite Z.land_spec.
  destruct (Z.testbit d n), (Z.testbit u n), (Z.testbit m n); simpl in *; congruence.
Qed.

Lemma has_adjust flags d u : has (adjust flags d) u = true -> has d u = true.
Proof.
  unfold adjust.
  destruct (Z.land flags IMB_FLAG_SHANI_OFF =? 0); destruct (Z.land flags IMB_FLAG_GFNI_OFF =? 0); intros H;
    repeat (apply has_clear in H); exact H.
Qed.

(* complete finite domain: the nine variants *)
Lemma isa_within_required : forall v, has (required v) (isa_uses v) = true.
Proof. intros []; vm_compute; reflexivity. Qed.

Lemma isa_supported_when_selected :
  forall (t3 t4 : bool) (detect : Z) (init : mgr -> mgr) (base : Z),
  (init = init_sse_internal detect /\ base = IMB_CPUFLAGS_SSE) \/
  (init = init_avx2_internal t3 t4 detect /\ base = IMB_CPUFLAGS_AVX2) \/
  (init = init_avx512_internal detect /\ base = IMB_CPUFLAGS_AVX512) ->
  forall s, consistent detect s ->
  (has (m_features s) base = false /\ init s = fail_missing s) \/
  (exists v, m_variant (init s) = Some v /\ m_errno (init s) = 0 /\
             has (m_features (init s)) (isa_uses v) = true /\ has detect (isa_uses v) = true).
Proof.
  intros t3 t4 detect init base Hi s Hc.
  destruct (init_internal_supported t3 t4 detect init base Hi s Hc) as [H|[v [Hv [He [Hf Hr]]]]]; [left; exact H|].
  right; exists v. repeat split; try assumption.
  - rewrite Hf. eapply has_trans; [exact Hr|apply isa_within_required].
  - eapply has_adjust. eapply has_trans; [exact Hr|apply isa_within_required].
Qed.
