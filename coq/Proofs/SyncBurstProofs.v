(* Proofs/SyncBurstProofs.v — synchronous bursts return every job, completed, with its alone
   result, and leave the manager empty; n-buffer group splitting = 1-buffer function per buffer. *)
From Coq Require Import ZArith List Bool Lia Arith Permutation.
From IMB Require Import Mgr.Ooo Proofs.OooProofs Mgr.SyncBurst.
Import ListNotations.
Local Open Scope Z_scope.

Section SyncBurstProofs.
Variable J St : Type.
Variable init : J -> St.
Variable units : J -> Z.
Variable step : St -> Z -> St.
Variable L : nat.
Hypothesis HL : (1 <= L)%nat.
Hypothesis step0 : forall s, step s 0 = s.
Hypothesis step_add : forall s a b, 0 <= a -> 0 <= b -> step (step s a) b = step s (a + b).

Notation ooo := (ooo J St).
Notation submit := (submit J St init units step L).
Notation flush := (flush J St step L).
Notation run_min := (run_min J St step L).
Notation orun := (orun J St init units step L).
Notation Inv1 := (Inv1 J St init units step L).
Notation inflight := (inflight J St L).
Notation submit_all := (submit_all J St init units step L).
Notation flush_all := (flush_all J St step L).
Notation sync_burst := (sync_burst J St init units step L).
Notation job_ok := (job_ok J units).
Notation lane_jobs := (lane_jobs J).

Definition alone (r : J * St) : Prop := snd r = step (init (fst r)) (units (fst r)).

(* ---- the multiset of jobs sitting in the lanes ---- *)

Lemma lane_ext (jb jb' : nat -> option J) l :
  (forall i, In i l -> jb' i = jb i) -> flat_map (lane_jobs jb') l = flat_map (lane_jobs jb) l.
Proof.
  induction l as [|x t IH]; intros H; [reflexivity|]. cbn [flat_map].
  rewrite IH by (intros; apply H; right; assumption).
  unfold SyncBurst.lane_jobs. rewrite (H x) by (left; reflexivity). reflexivity.
Qed.

Lemma seq_split3 a n k : (a <= k < a + n)%nat ->
  seq a n = seq a (k - a) ++ k :: seq (S k) (a + n - S k).
Proof.
  intros H. replace n with ((k - a) + S (a + n - S k))%nat at 1 by lia.
  rewrite seq_app. f_equal. replace (a + (k - a))%nat with k by lia. reflexivity.
Qed.

(* two lane maps that differ only at lane k < L: one holds j there, the other nothing *)
Lemma lanes_differ_at (jb jb' : nat -> option J) k j :
  (k < L)%nat -> jb' k = Some j -> jb k = None -> (forall i, i <> k -> jb' i = jb i) ->
  Permutation (flat_map (lane_jobs jb') (seq 0 L)) (j :: flat_map (lane_jobs jb) (seq 0 L)).
Proof.
  intros Hk Hs Hn Ho. rewrite (seq_split3 0 L k) by lia.
  rewrite !flat_map_app. cbn [flat_map]. unfold SyncBurst.lane_jobs at 2 5. rewrite Hs, Hn. cbn [app].
  rewrite (lane_ext jb jb' (seq 0 (k - 0))).
  2:{ intros i Hi. apply in_seq in Hi. apply Ho. lia. }
  rewrite (lane_ext jb jb' (seq (S k) _)).
  2:{ intros i Hi. apply in_seq in Hi. apply Ho. lia. }
  symmetry. apply Permutation_middle.
Qed.

Lemma inflight_length (o : ooo) : (length (inflight o) <= L)%nat.
Proof.
  unfold SyncBurst.inflight.
  assert (H : forall l0, (length (flat_map (lane_jobs (job o)) l0) <= length l0)%nat).
  { induction l0 as [|x t IH]; [cbn; lia|]. cbn [flat_map]. rewrite app_length.
    unfold SyncBurst.lane_jobs at 1. destruct (job o x); cbn [length]; lia. }
  specialize (H (seq 0 L)). rewrite seq_length in H. exact H.
Qed.

Lemma inflight_nil_iff (o : ooo) : inflight o = [] <-> (forall l, (l < L)%nat -> job o l = None).
Proof.
  unfold SyncBurst.inflight. split.
  - intros H l Hl. destruct (job o l) as [j|] eqn:E; [|reflexivity]. exfalso.
    assert (Hin : In j (flat_map (lane_jobs (job o)) (seq 0 L))).
    { apply in_flat_map. exists l. split; [apply in_seq; lia|]. unfold SyncBurst.lane_jobs. rewrite E. left. reflexivity. }
    rewrite H in Hin. exact Hin.
  - intros H. assert (G : forall l0, (forall i, In i l0 -> (i < L)%nat) -> flat_map (lane_jobs (job o)) l0 = []).
    { induction l0 as [|x t IH]; intros Hin; [reflexivity|]. cbn [flat_map].
      unfold SyncBurst.lane_jobs at 1. rewrite H by (apply Hin; left; reflexivity). cbn [app].
      apply IH. intros; apply Hin; right; assumption. }
    apply G. intros i Hi. apply in_seq in Hi. lia.
Qed.

(* ---- effect of the scheduler operations on that multiset (definitional, no invariant) ---- *)

Lemma run_min_inflight (o : ooo) :
  let '(o', r) := run_min o in
  match r with
  | Some (j', _) => Permutation (j' :: inflight o') (inflight o)
  | None => inflight o' = inflight o
  end.
Proof.
  unfold Ooo.run_min, complete, process. cbn [job lens ls unused].
  set (idx := argmin (lens o) L).
  assert (Hidx : (idx < L)%nat) by (apply (argmin_lt L HL); exact HL).
  destruct (job o idx) as [j|] eqn:E.
  - unfold SyncBurst.inflight. cbn [job]. symmetry.
    apply (lanes_differ_at (upd (job o) idx None) (job o) idx j Hidx E).
    + apply upd_same.
    + intros i Hi. symmetry. apply upd_other. exact Hi.
  - reflexivity.
Qed.

Lemma submit_inflight (o : ooo) j :
  Inv1 o ->
  let '(o', r) := submit o j in
  match r with
  | Some (j', _) => Permutation (j' :: inflight o') (j :: inflight o)
  | None => Permutation (inflight o') (j :: inflight o)
  end.
Proof.
  intros ((Hnd & Hun & Hocc) & Hne). unfold Ooo.submit.
  destruct (unused o) as [|l rest] eqn:Eu; [contradiction|].
  assert (Hl : (l < L)%nat /\ job o l = None) by (apply Hun; left; reflexivity).
  destruct Hl as (Hl & Hjl).
  set (o1 := mko rest (upd (lens o) l (units j)) (upd (job o) l (Some j)) (upd (ls o) l (init j))).
  assert (H1 : Permutation (inflight o1) (j :: inflight o)).
  { unfold SyncBurst.inflight, o1. cbn [job].
    apply (lanes_differ_at (job o) (upd (job o) l (Some j)) l j Hl); [apply upd_same|exact Hjl|].
    intros i Hi. apply upd_other. exact Hi. }
  destruct rest as [|l2 rest'].
  - pose proof (run_min_inflight o1) as H. fold o1. destruct (run_min o1) as [o' r].
    destruct r as [[j' s']|].
    + etransitivity; [exact H|exact H1].
    + rewrite H. exact H1.
  - exact H1.
Qed.

Lemma flush_inflight (o : ooo) :
  let '(o', r) := flush o in
  match r with
  | Some (j', _) => Permutation (j' :: inflight o') (inflight o)
  | None => inflight o' = inflight o
  end.
Proof.
  unfold Ooo.flush. destruct (donor J (job o) L) as [d|]; [|reflexivity].
  pose proof (run_min_inflight (pad J St o d)) as H.
  destruct (run_min (pad J St o d)) as [o' r]. exact H.
Qed.

(* ---- first loop ---- *)

Lemma submit_all_spec js : forall o,
  Inv1 o -> Forall job_ok js ->
  let '(o', rs) := submit_all o js in
  Inv1 o' /\ Permutation (map fst rs ++ inflight o') (js ++ inflight o) /\ Forall alone rs.
Proof.
  induction js as [|j t IH]; intros o HI Hok; cbn [SyncBurst.submit_all].
  - split; [exact HI|]. split; [reflexivity|constructor].
  - inversion Hok as [|? ? Hj Ht]; subst.
    pose proof (submit_spec J St init units step L HL step0 step_add o j HI Hj) as H1.
    pose proof (submit_inflight o j HI) as H2.
    destruct (submit o j) as [o1 r]. destruct H1 as (HI1 & Hr).
    specialize (IH o1 HI1 Ht). destruct (submit_all o1 t) as [o2 rs]. destruct IH as (HI2 & HP & HF).
    split; [exact HI2|]. destruct r as [[j' s']|].
    + split.
      * cbn [map fst app].
        transitivity (j' :: t ++ inflight o1); [constructor; exact HP|].
        transitivity (t ++ j' :: inflight o1); [apply Permutation_middle|].
        transitivity (t ++ j :: inflight o); [apply Permutation_app_head; exact H2|].
        symmetry. apply Permutation_middle.
      * constructor; [exact Hr|exact HF].
    + split; [|exact HF].
      transitivity (t ++ inflight o1); [exact HP|].
      transitivity (t ++ j :: inflight o); [apply Permutation_app_head; exact H2|].
      symmetry. apply Permutation_middle.
Qed.

(* ---- second loop: fuel >= number of busy lanes always reaches the NULL ---- *)

Lemma flush_all_spec fuel : forall o,
  Inv1 o -> (length (inflight o) <= fuel)%nat ->
  let '(o', rs) := flush_all fuel o in
  Inv1 o' /\ Permutation (map fst rs) (inflight o) /\ inflight o' = [] /\ Forall alone rs.
Proof.
  induction fuel as [|k IH]; intros o HI Hlen; cbn [SyncBurst.flush_all].
  - assert (E : inflight o = []) by (destruct (inflight o); [reflexivity|cbn in Hlen; lia]).
    split; [exact HI|]. rewrite E. split; [reflexivity|]. split; [reflexivity|constructor].
  - pose proof (flush_spec J St init units step L HL step_add o HI) as H1.
    pose proof (flush_inflight o) as H2.
    destruct (flush o) as [o1 r]. destruct H1 as (HI1 & Hr). destruct r as [[j' s']|].
    + destruct Hr as (Hs & _).
      assert (Hlen1 : (length (inflight o1) <= k)%nat).
      { apply Permutation_length in H2. cbn [length] in H2. lia. }
      specialize (IH o1 HI1 Hlen1). destruct (flush_all k o1) as [o2 rs].
      destruct IH as (HI2 & HP & HE & HF).
      split; [exact HI2|]. split; [|split; [exact HE|constructor; [exact Hs|exact HF]]].
      cbn [map fst]. transitivity (j' :: inflight o1); [constructor; exact HP|exact H2].
    + assert (E : inflight o = []) by (apply inflight_nil_iff; exact Hr).
      split; [exact HI1|]. rewrite H2 in *. rewrite E. split; [reflexivity|]. split; [reflexivity|constructor].
Qed.

(* ---- the whole burst ---- *)

Theorem sync_burst_all_completed_thm o js :
  Inv1 o -> (forall l, (l < L)%nat -> job o l = None) -> Forall job_ok js ->
  let '(o', rs) := sync_burst o js in
  length rs = length js /\ Permutation (map fst rs) js /\
  (forall l, (l < L)%nat -> job o' l = None) /\ Inv1 o' /\ Forall alone rs.
Proof.
  intros HI Hempty Hok. unfold SyncBurst.sync_burst.
  assert (E0 : inflight o = []) by (apply inflight_nil_iff; exact Hempty).
  pose proof (submit_all_spec js o HI Hok) as H1.
  destruct (submit_all o js) as [o1 r1]. destruct H1 as (HI1 & HP1 & HF1).
  rewrite E0, app_nil_r in HP1.
  destruct (Nat.eqb (length r1) (length js)) eqn:Eq.
  - apply Nat.eqb_eq in Eq.
    assert (E1 : inflight o1 = []).
    { pose proof (Permutation_length HP1) as Hl. rewrite app_length, map_length in Hl.
      destruct (inflight o1); [reflexivity|cbn in Hl; lia]. }
    rewrite E1, app_nil_r in HP1.
    split; [exact Eq|]. split; [exact HP1|]. split; [apply inflight_nil_iff; exact E1|]. split; assumption.
  - pose proof (flush_all_spec L o1 HI1 (inflight_length o1)) as H2.
    destruct (flush_all L o1) as [o2 r2]. destruct H2 as (HI2 & HP2 & HE2 & HF2).
    assert (HP : Permutation (map fst (r1 ++ r2)) js).
    { rewrite map_app. transitivity (map fst r1 ++ inflight o1); [apply Permutation_app_head; exact HP2|exact HP1]. }
    split; [|split; [exact HP|split; [apply inflight_nil_iff; exact HE2|split; [exact HI2|]]]].
    + rewrite <- (map_length fst). apply Permutation_length. exact HP.
    + apply Forall_app. split; assumption.
Qed.

(* ---- the burst is the job-API operation sequence submit^n ; flush^L ---- *)

Lemma orun_app a : forall o b,
  orun o (a ++ b) =
  let '(o1, r1) := orun o a in let '(o2, r2) := orun o1 b in (o2, r1 ++ r2).
Proof.
  induction a as [|p t IH]; intros o b; cbn [app Ooo.orun].
  - destruct (orun o b); reflexivity.
  - destruct (ostep J St init units step L o p) as [o1 r]. rewrite IH.
    destruct (orun o1 t) as [o2 rs]. destruct (orun o2 b) as [o3 rs']. reflexivity.
Qed.

Lemma somes_app {A} (a b : list (option A)) : somes (a ++ b) = somes a ++ somes b.
Proof. induction a as [|[x|] t IH]; cbn; [reflexivity|f_equal; exact IH|exact IH]. Qed.

Lemma submit_all_orun js : forall o,
  submit_all o js = (fst (orun o (map (@OSubmit J) js)), somes (snd (orun o (map (@OSubmit J) js)))).
Proof.
  induction js as [|j t IH]; intros o; cbn [SyncBurst.submit_all map Ooo.orun ostep]; [reflexivity|].
  destruct (submit o j) as [o1 r]. rewrite IH.
  destruct (orun o1 (map (@OSubmit J) t)) as [o2 rs]. cbn [fst snd]. destruct r; reflexivity.
Qed.

Lemma flush_idle_orun n : forall o, flush o = (o, None) ->
  orun o (repeat (@OFlush J) n) = (o, repeat None n).
Proof.
  induction n as [|k IH]; intros o H; cbn [repeat Ooo.orun ostep]; [reflexivity|].
  rewrite H. rewrite (IH o H). reflexivity.
Qed.

Lemma somes_repeat_none {A} n : somes (repeat (@None A) n) = [].
Proof. induction n; cbn; auto. Qed.

Lemma flush_none_same o o1 : flush o = (o1, None) -> Inv1 o -> o1 = o.
Proof.
  intros H HI. unfold Ooo.flush in H. destruct (donor J (job o) L) as [d|] eqn:Ed.
  - exfalso. destruct (donor_some J L HL _ _ _ Ed) as (Hd & Hjd).
    destruct HI as ((Hnd & Hun & Hocc) & Hne).
    assert (HR : Ready J St init units step L (pad J St o d)).
    { unfold Ready, pad. cbn [unused lens job ls]. split; [exact Hnd|]. split; [exact Hun|]. split; [|split].
      - intros l j Hl Hj. rewrite Hj. apply Hocc; assumption.
      - intros l Hl Hn. rewrite Hn. reflexivity.
      - exists d. split; assumption. }
    pose proof (run_min_spec J St init units step L HL step_add _ HR) as G.
    rewrite H in G. destruct G as (idx & j & _ & _ & G & _). discriminate.
  - injection H as <-. reflexivity.
Qed.

Lemma flush_all_orun fuel : forall o, Inv1 o ->
  flush_all fuel o =
  (fst (orun o (repeat (@OFlush J) fuel)), somes (snd (orun o (repeat (@OFlush J) fuel)))).
Proof.
  induction fuel as [|k IH]; intros o HI; cbn [SyncBurst.flush_all repeat Ooo.orun ostep]; [reflexivity|].
  pose proof (flush_spec J St init units step L HL step_add o HI) as H1.
  destruct (flush o) as [o1 r] eqn:Ef. destruct H1 as (HI1 & _). destruct r as [x|].
  - rewrite (IH o1 HI1). destruct (orun o1 (repeat (@OFlush J) k)) as [o2 rs]. reflexivity.
  - assert (o1 = o) by (eapply flush_none_same; eassumption). subst o1.
    rewrite (flush_idle_orun k o Ef). cbn [fst snd somes]. rewrite somes_repeat_none. reflexivity.
Qed.

Lemma jobs_ok_sync js n : Forall job_ok js -> jobs_ok J units (sync_ops J js n).
Proof.
  unfold sync_ops. induction js as [|j t IH]; intros H; cbn [map app jobs_ok].
  - induction n; cbn [repeat jobs_ok]; auto.
  - inversion H; subst. split; [assumption|apply IH; assumption].
Qed.

Theorem sync_burst_is_job_api_sequence o js :
  Inv1 o -> (forall l, (l < L)%nat -> job o l = None) -> Forall job_ok js ->
  sync_burst o js =
  (fst (orun o (sync_ops J js L)), somes (snd (orun o (sync_ops J js L)))).
Proof.
  intros HI Hempty Hok.
  pose proof (sync_burst_all_completed_thm o js HI Hempty Hok) as Hall.
  unfold SyncBurst.sync_burst in *. unfold sync_ops. rewrite orun_app.
  pose proof (submit_all_spec js o HI Hok) as H1.
  rewrite (submit_all_orun js o) in *.
  destruct (orun o (map (@OSubmit J) js)) as [o1 rs1]. cbn [fst snd] in *.
  destruct H1 as (HI1 & _ & _).
  destruct (Nat.eqb (length (somes rs1)) (length js)).
  - destruct Hall as (_ & _ & He & _ & _).
    assert (Ef : flush o1 = (o1, None)).
    { unfold Ooo.flush. destruct (donor J (job o1) L) as [d|] eqn:Ed; [|reflexivity].
      destruct (donor_some J L HL _ _ _ Ed) as (Hd & Hjd). rewrite (He d Hd) in Hjd. contradiction. }
    rewrite (flush_idle_orun L o1 Ef). cbn [fst snd]. rewrite somes_app, somes_repeat_none, app_nil_r. reflexivity.
  - rewrite (flush_all_orun L o1 HI1).
    destruct (orun o1 (repeat (@OFlush J) L)) as [o2 rs2]. cbn [fst snd]. rewrite somes_app. reflexivity.
Qed.

Lemma Forall_somes {A} (P : A -> Prop) l :
  Forall (fun r => match r with None => True | Some x => P x end) l -> Forall P (somes l).
Proof.
  induction l as [|[x|] t IH]; intros H; cbn [somes]; inversion H; subst; auto.
Qed.

(* every job a synchronous burst hands back carries the state it reaches through the job API
   when processed alone: corollary of ooo_job_result_alone_thm through the sequence above *)
Theorem sync_burst_result_eq_job_api_thm o js :
  Inv1 o -> (forall l, (l < L)%nat -> job o l = None) -> Forall job_ok js ->
  Forall (fun r => snd r = step (init (fst r)) (units (fst r))) (snd (sync_burst o js)).
Proof.
  intros HI Hempty Hok. rewrite (sync_burst_is_job_api_sequence o js HI Hempty Hok). cbn [snd].
  apply Forall_somes.
  pose proof (ooo_job_result_alone_thm J St init units step L HL step0 step_add
                (sync_ops J js L) o HI (jobs_ok_sync js L Hok)) as H.
  eapply Forall_impl; [|exact H]. intros [[j s]|] Hr; [exact Hr|exact I].
Qed.

End SyncBurstProofs.

(* ---------------------------------------------------------------------------------------- *)
Section NBufferProofs.
Variable B St : Type.
Variable init : B -> St.
Variable units : B -> Z.
Variable step : St -> Z -> St.
Hypothesis step_add : forall s a b, 0 <= a -> 0 <= b -> step (step s a) b = step s (a + b).

Notation one_buffer := (one_buffer B St init units step).
Notation lanes_kernel := (lanes_kernel B St init units step).
Notation padded_group := (padded_group B St init units step).

Definition lens_ok (bs : list B) : Prop := Forall (fun b => 0 <= units b) bs.

Lemma fold_min_le t : forall x, fold_left Z.min t x <= x /\ (forall y, In y t -> fold_left Z.min t x <= y).
Proof.
  induction t as [|a t IH]; intros x; cbn [fold_left]; [split; [lia|intros y []]|].
  destruct (IH (Z.min x a)) as (H1 & H2). split; [lia|].
  intros y [<-|Hy]; [lia|apply H2; exact Hy].
Qed.

Lemma fold_min_ge t : forall x lo, lo <= x -> (forall y, In y t -> lo <= y) -> lo <= fold_left Z.min t x.
Proof.
  induction t as [|a t IH]; intros x lo Hx Ht; cbn [fold_left]; [exact Hx|].
  apply IH; [|intros; apply Ht; right; assumption].
  specialize (Ht a (or_introl eq_refl)). lia.
Qed.

Lemma list_min_le l y : In y l -> list_min l <= y.
Proof.
  destruct l as [|x t]; [intros []|]. cbn [list_min]. destruct (fold_min_le t x) as (H1 & H2).
  intros [<-|Hy]; [exact H1|apply H2; exact Hy].
Qed.

Lemma list_min_ge0 l : (forall y, In y l -> 0 <= y) -> 0 <= list_min l.
Proof.
  destruct l as [|x t]; intros H; cbn [list_min]; [lia|].
  apply fold_min_ge; [apply H; left; reflexivity|intros; apply H; right; assumption].
Qed.

(* a lane kernel run on buffers of unequal lengths gives every lane its 1-buffer result *)
Lemma lanes_kernel_eq bs : lens_ok bs -> lanes_kernel bs = map one_buffer bs.
Proof.
  intros Hok. unfold SyncBurst.lanes_kernel. set (m := list_min (map units bs)).
  assert (Hm0 : 0 <= m).
  { apply list_min_ge0. intros y Hy. apply in_map_iff in Hy. destruct Hy as (b & <- & Hb).
    unfold lens_ok in Hok. rewrite Forall_forall in Hok. apply Hok. exact Hb. }
  apply map_ext_in. intros b Hb. unfold SyncBurst.one_buffer.
  assert (Hmb : m <= units b) by (apply list_min_le; apply in_map; exact Hb).
  rewrite step_add by lia. f_equal. lia.
Qed.

Lemma last_in (l : list B) d : l <> [] -> In (last l d) l.
Proof.
  induction l as [|x t IH]; intros H; [contradiction|]. destruct t as [|y t'].
  - left. reflexivity.
  - right. apply IH. discriminate.
Qed.

Lemma padded_group_eq g bs : lens_ok bs -> padded_group g bs = map one_buffer bs.
Proof.
  intros Hok. unfold SyncBurst.padded_group. destruct bs as [|b0 t]; [reflexivity|].
  set (bs := b0 :: t) in *.
  rewrite lanes_kernel_eq.
  - rewrite map_app, firstn_app, map_length, Nat.sub_diag. cbn [firstn]. rewrite app_nil_r.
    rewrite <- (map_length one_buffer bs). apply firstn_all.
  - unfold lens_ok in *. apply Forall_app. split; [exact Hok|].
    apply Forall_forall. intros x Hx. apply repeat_spec in Hx. subst x.
    rewrite Forall_forall in Hok. apply Hok. apply last_in. discriminate.
Qed.

Lemma chunks_aux_concat g : (1 <= g)%nat -> forall fuel bs, (length bs <= fuel)%nat ->
  concat (chunks_aux B fuel g bs) = bs.
Proof.
  intros Hg. induction fuel as [|k IH]; intros bs Hlen; cbn [chunks_aux].
  - destruct bs; [reflexivity|cbn in Hlen; lia].
  - destruct bs as [|b t]; [reflexivity|]. cbn [concat]. rewrite IH.
    + apply firstn_skipn.
    + rewrite skipn_length. cbn [length] in *. lia.
Qed.

Lemma Forall_firstn {A} (P : A -> Prop) n l : Forall P l -> Forall P (firstn n l).
Proof. intros H. apply Forall_forall. intros x Hx. rewrite Forall_forall in H. apply H. rewrite <- (firstn_skipn n l). apply in_or_app. left. exact Hx. Qed.
Lemma Forall_skipn {A} (P : A -> Prop) n l : Forall P l -> Forall P (skipn n l).
Proof. intros H. apply Forall_forall. intros x Hx. rewrite Forall_forall in H. apply H. rewrite <- (firstn_skipn n l). apply in_or_app. right. exact Hx. Qed.

Lemma chunks_aux_ok g fuel : forall bs, lens_ok bs -> Forall lens_ok (chunks_aux B fuel g bs).
Proof.
  induction fuel as [|k IH]; intros bs Hok; cbn [chunks_aux]; [constructor|].
  destruct bs as [|b t]; [constructor|]. constructor.
  - apply Forall_firstn. exact Hok.
  - apply IH. apply Forall_skipn. exact Hok.
Qed.

Lemma flat_map_groups (f : list B -> list St) gs :
  Forall (fun g => f g = map one_buffer g) gs -> flat_map f gs = map one_buffer (concat gs).
Proof.
  induction 1 as [|g t Hg _ IH]; cbn [flat_map concat]; [reflexivity|].
  rewrite map_app, Hg, IH. reflexivity.
Qed.

(* skeleton 1: groups of the lane count g, last group padded — any number of buffers (below,
   equal to, above g), any (non-negative) per-buffer lengths *)
Theorem nbuffer_padded_eq_1buffer g bs :
  (1 <= g)%nat -> lens_ok bs -> nbuffer_padded B St init units step g bs = map one_buffer bs.
Proof.
  intros Hg Hok. unfold nbuffer_padded, chunks.
  rewrite (flat_map_groups (padded_group g)).
  - rewrite chunks_aux_concat by (auto; lia). reflexivity.
  - eapply Forall_impl; [|apply chunks_aux_ok; exact Hok]. intros c Hc. apply padded_group_eq. exact Hc.
Qed.

Lemma take_groups_spec g : (1 <= g)%nat -> forall fuel bs,
  let '(gs, rest) := take_groups B fuel g bs in
  concat gs ++ rest = bs /\ (lens_ok bs -> Forall lens_ok gs /\ lens_ok rest).
Proof.
  intros Hg. induction fuel as [|k IH]; intros bs; cbn [take_groups].
  - split; [reflexivity|]. intros H. split; [constructor|exact H].
  - destruct (Nat.leb g (length bs)).
    + specialize (IH (skipn g bs)). destruct (take_groups B k g (skipn g bs)) as [gs rest].
      destruct IH as (H1 & H2). split.
      * cbn [concat]. rewrite <- app_assoc, H1. apply firstn_skipn.
      * intros Hok. destruct (H2 (Forall_skipn _ g bs Hok)) as (Ha & Hb).
        split; [constructor; [apply Forall_firstn; exact Hok|exact Ha]|exact Hb].
    + split; [reflexivity|]. intros H. split; [constructor|exact H].
Qed.

Lemma greedy_groups_spec sizes : Forall (fun g => (1 <= g)%nat) sizes -> forall bs,
  concat (greedy_groups B sizes bs) = bs /\ (lens_ok bs -> Forall lens_ok (greedy_groups B sizes bs)).
Proof.
  induction 1 as [|g t Hg _ IH]; intros bs; cbn [greedy_groups].
  - split.
    + induction bs as [|b r IHb]; cbn; [reflexivity|f_equal; exact IHb].
    + intros Hok. induction Hok as [|b r Hb _ IHr]; cbn [map]; constructor; [|exact IHr].
      constructor; [exact Hb|constructor].
  - pose proof (take_groups_spec g Hg (length bs) bs) as H.
    destruct (take_groups B (length bs) g bs) as [gs rest]. destruct H as (H1 & H2).
    destruct (IH rest) as (H3 & H4). split.
    + rewrite concat_app, H3. exact H1.
    + intros Hok. destruct (H2 Hok) as (Ha & Hb). apply Forall_app. split; [exact Ha|apply H4; exact Hb].
Qed.

(* skeleton 2: full groups of each size of a descending list, the rest one by one *)
Theorem nbuffer_greedy_eq_1buffer sizes bs :
  Forall (fun g => (1 <= g)%nat) sizes -> lens_ok bs ->
  nbuffer_greedy B St init units step sizes bs = map one_buffer bs.
Proof.
  intros Hs Hok. unfold nbuffer_greedy. destruct (greedy_groups_spec sizes Hs bs) as (H1 & H2).
  rewrite (flat_map_groups lanes_kernel).
  - rewrite H1. reflexivity.
  - eapply Forall_impl; [|apply H2; exact Hok]. intros c Hc. apply lanes_kernel_eq. exact Hc.
Qed.

(* with the internal re-ordering by length: every buffer is paired with its 1-buffer result, and
   the set of (buffer, result) pairs is that of the caller's order *)
Theorem nbuffer_sorted_eq_1buffer sizes bs sorted :
  Forall (fun g => (1 <= g)%nat) sizes -> lens_ok bs -> Permutation sorted bs ->
  Permutation (nbuffer_sorted B St init units step sizes sorted) (map (fun b => (b, one_buffer b)) bs).
Proof.
  intros Hs Hok HP. unfold nbuffer_sorted.
  assert (Hok' : lens_ok sorted).
  { unfold lens_ok in *. apply Forall_forall. intros x Hx. rewrite Forall_forall in Hok. apply Hok.
    eapply Permutation_in; eassumption. }
  rewrite (nbuffer_greedy_eq_1buffer sizes sorted Hs Hok').
  assert (E : forall l, combine l (map one_buffer l) = map (fun b => (b, one_buffer b)) l).
  { induction l as [|x t IH]; cbn; [reflexivity|f_equal; exact IH]. }
  rewrite E. apply Permutation_map. exact HP.
Qed.

End NBufferProofs.
