(* Proofs/GlobalsProofs.v — property C17: the writable globals of the library are exactly the
   modelled ones; managers do not influence one another except through the two observations that
   go through those globals (imb_get_errno's fall-back to the mirror, the session id). *)
From Coq Require Import String.
From Coq Require Import ZArith List Bool Lia.
From IMB Require Import Gen.GenConsts Gen.GenGlobals Gen.GenStrerror Mgr.Ring Mgr.Errno Mgr.Globals
                        Proofs.ErrnoProofs.
Import ListNotations.
Local Open Scope Z_scope.

(* ------------------------------------------------------------------------------------------ *)
(* 1. the writable globals of the rebuilt library (finite, complete over Gen/GenGlobals.v)       *)

Lemma writable_globals_are_modelled_thm :
  forallb sym_ok writable_syms = true
  /\ forallb gap_ok writable_gaps = true
  /\ (has_sym "imb_errno" && has_sym "cpuid_1_0" && has_sym "cpuid_7_0" && has_sym "cpuid_7_1"
      && (has_sym "counter.0" || has_sym "imb_set_session.counter"))%string = true
  /\ forallb (fun s => mem_str (fst s) [".data"; ".bss"; ".tdata"; ".tbss"]%string) writable_sections = true.
Proof. repeat split; vm_compute; reflexivity. Qed.

(* ------------------------------------------------------------------------------------------ *)
(* 2. non-interference                                                                         *)

Section WorldProofs.
Variable SZ NJ MAXB : Z.
Variable cell_of : nat -> Z.
Variable cpu : list Z.
Variable feat_of : list Z -> Z.
Variable sess : Z -> Z.
Variable ring0 : st.

Notation wstep := (wstep SZ NJ MAXB cell_of cpu feat_of sess ring0).
Notation wrun := (wrun SZ NJ MAXB cell_of cpu feat_of sess ring0).
Notation emem_of := (emem_of cell_of).
Notation get_errno := (get_errno cell_of).

Lemma upd_mgr_same i m f : upd_mgr i m f i = m.
Proof. unfold upd_mgr. rewrite Nat.eqb_refl. reflexivity. Qed.
Lemma upd_mgr_other i j m f : j <> i -> upd_mgr i m f j = f j.
Proof. intros H. unfold upd_mgr. destruct (Nat.eqb j i) eqn:E; [apply Nat.eqb_eq in E; contradiction|reflexivity]. Qed.

(* a call on manager j leaves every other manager's state alone *)
Lemma wstep_other w j o i : i <> j -> mgrs (fst (wstep w j o)) i = mgrs w i.
Proof.
  intros H. unfold Globals.wstep. destruct o.
  - destruct (step SZ NJ MAXB (m_ring (mgrs w j)) o) as [s' r]. cbn. apply upd_mgr_other. exact H.
  - cbn. apply upd_mgr_other. exact H.
  - cbn. apply upd_mgr_other. exact H.
  - cbn. apply upd_mgr_other. exact H.
  - reflexivity.
Qed.

(* the field written by a sequence of imb_set_errno calls does not depend on the mirror *)
Lemma run_ecalls_field calls : forall m1 m2, e_field m1 = e_field m2 ->
  e_field (run_ecalls calls m1) = e_field (run_ecalls calls m2).
Proof.
  unfold run_ecalls. induction calls as [|c t IH]; intros m1 m2 H; cbn [fold_left]; [exact H|].
  apply IH. unfold imb_set_errno. cbn [e_field]. destruct (fst c); [reflexivity|exact H].
Qed.

(* a call on manager i: its new state and its output (up to the two shared observations) are a
   function of manager i's state alone *)
Lemma wstep_same w1 w2 i o : mgrs w1 i = mgrs w2 i ->
  mgrs (fst (wstep w1 i o)) i = mgrs (fst (wstep w2 i o)) i /\ erase (snd (wstep w1 i o)) = erase (snd (wstep w2 i o)).
Proof.
  intros H. unfold Globals.wstep. destruct o.
  - rewrite H. destruct (step SZ NJ MAXB (m_ring (mgrs w2 i)) o) as [s' r]. cbn.
    rewrite !upd_mgr_same. split; reflexivity.
  - cbn. rewrite !upd_mgr_same.
    assert (E : e_field (run_ecalls calls (emem_of w1 i)) = e_field (run_ecalls calls (emem_of w2 i))).
    { apply run_ecalls_field. unfold Globals.emem_of. cbn. rewrite H. reflexivity. }
    rewrite E, H. split; reflexivity.
  - cbn. rewrite !upd_mgr_same, H. split; reflexivity.
  - cbn. rewrite !upd_mgr_same. split; reflexivity.
  - cbn. split; [exact H|reflexivity].
Qed.

Lemma wrun_cons w i o t :
  wrun w ((i, o) :: t) = (fst (wrun (fst (wstep w i o)) t), (i, snd (wstep w i o)) :: snd (wrun (fst (wstep w i o)) t)).
Proof.
  cbn [Globals.wrun]. destruct (wstep w i o) as [w1 r]. cbn [fst snd].
  destruct (wrun w1 t) as [w2 rs]. reflexivity.
Qed.

Definition outs_of (i : nat) (l : list (nat * wout)) : list wout := map (fun x => erase (snd x)) (only i l).

(* THE statement: for every interleaving l of calls on any number of managers, and every manager
   i: what i observes (return values, outputs, statuses, its error FIELD after every call — all
   inside [wout]) and the state it ends in are those of running i's own calls alone — from any
   two worlds that agree on manager i (in particular: whatever the globals hold) *)
Lemma only_cons i {A} (j : nat) (x : A) t :
  only i ((j, x) :: t) = if Nat.eqb j i then (j, x) :: only i t else only i t.
Proof. reflexivity. Qed.

Theorem mgr_noninterference_thm l : forall w w' i,
  mgrs w i = mgrs w' i ->
  mgrs (fst (wrun w l)) i = mgrs (fst (wrun w' (only i l))) i
  /\ outs_of i (snd (wrun w l)) = outs_of i (snd (wrun w' (only i l))).
Proof.
  induction l as [|[j o] t IH]; intros w w' i H.
  - cbn. split; [exact H|reflexivity].
  - rewrite wrun_cons. cbn [fst snd]. rewrite (only_cons i j o t). unfold outs_of. rewrite only_cons.
    destruct (Nat.eqb j i) eqn:E.
    + apply Nat.eqb_eq in E. subst j. rewrite wrun_cons. cbn [fst snd]. rewrite only_cons, Nat.eqb_refl.
      destruct (wstep_same w w' i o H) as [Hs Ho].
      destruct (IH (fst (wstep w i o)) (fst (wstep w' i o)) i Hs) as [IH1 IH2].
      split; [exact IH1|]. cbn [map snd]. f_equal; [exact Ho|exact IH2].
    + apply Nat.eqb_neq in E.
      assert (Hs : mgrs (fst (wstep w j o)) i = mgrs w' i) by (rewrite wstep_other by auto; exact H).
      destruct (IH (fst (wstep w j o)) w' i Hs) as [IH1 IH2].
      split; [exact IH1|exact IH2].
Qed.

(* two interleavings of the same per-manager call lists are indistinguishable to each manager *)
Corollary interleaving_irrelevant l1 l2 w i :
  only i l1 = only i l2 ->
  mgrs (fst (wrun w l1)) i = mgrs (fst (wrun w l2)) i /\ outs_of i (snd (wrun w l1)) = outs_of i (snd (wrun w l2)).
Proof.
  intros H.
  destruct (mgr_noninterference_thm l1 w w i eq_refl) as [A1 B1].
  destruct (mgr_noninterference_thm l2 w w i eq_refl) as [A2 B2].
  rewrite H in *. split; congruence.
Qed.

(* ---- imb_get_errno: exactly how far another manager can influence it ---- *)

Lemma get_errno_eq w1 w2 i : mgrs w1 i = mgrs w2 i ->
  (get_errno w1 i = get_errno w2 i <->
   errno (m_ring (mgrs w1 i)) <> 0 \/ g_errno (glob w1) (cell_of i) = g_errno (glob w2) (cell_of i)).
Proof.
  intros H. unfold Globals.get_errno, Globals.emem_of. rewrite !get_errno_fallback. cbn [e_field e_glob].
  rewrite H. destruct (errno (m_ring (mgrs w2 i)) =? 0) eqn:E.
  - apply Z.eqb_eq in E. split; [intros G; right; exact G|intros [G|G]; [contradiction|exact G]].
  - apply Z.eqb_neq in E. split; [intros _; left; exact E|reflexivity].
Qed.

(* the characterisation: after any interleaving, imb_get_errno(i) differs from what i's solo run
   gives if and only if i's own field is 0 AND the mirror cell i reads holds a different value
   than in the solo run *)
Theorem get_errno_characterisation_thm l w i :
  let w1 := fst (wrun w l) in
  let w2 := fst (wrun w (only i l)) in
  get_errno w1 i = get_errno w2 i <->
  errno (m_ring (mgrs w1 i)) <> 0 \/ g_errno (glob w1) (cell_of i) = g_errno (glob w2) (cell_of i).
Proof. cbn zeta. apply get_errno_eq. apply (mgr_noninterference_thm l w w i eq_refl). Qed.

(* which calls write which mirror cell *)
Lemma upd_cell_same c v f : upd_cell c v f c = v.
Proof. unfold upd_cell. rewrite Z.eqb_refl. reflexivity. Qed.
Lemma upd_cell_other c v f x : x <> c -> upd_cell c v f x = f x.
Proof. intros H. unfold upd_cell. destruct (x =? c) eqn:E; [apply Z.eqb_eq in E; contradiction|reflexivity]. Qed.

Lemma wstep_cell_other w j o c : c <> cell_of j -> g_errno (glob (fst (wstep w j o))) c = g_errno (glob w) c.
Proof.
  intros H. unfold Globals.wstep. destruct o.
  - destruct (step SZ NJ MAXB (m_ring (mgrs w j)) o) as [s' r]. cbn. apply upd_cell_other. exact H.
  - cbn. apply upd_cell_other. exact H.
  - cbn. apply upd_cell_other. exact H.
  - cbn. apply upd_cell_other. exact H.
  - reflexivity.
Qed.

Lemma run_ecalls_glob calls : forall m, calls <> [] -> e_glob (run_ecalls calls m) = snd (last calls (false, 0)).
Proof.
  unfold run_ecalls. induction calls as [|c t IH]; intros m H; [contradiction|].
  cbn [fold_left]. destruct t as [|c2 t2].
  - cbn [fold_left last snd]. apply set_errno_glob.
  - rewrite IH by discriminate. reflexivity.
Qed.

(* a mirror-writing call leaves in its cell a value that depends on manager i alone *)
Lemma wstep_own_cell w1 w2 i o : mgrs w1 i = mgrs w2 i -> writes_mirror o = true ->
  g_errno (glob (fst (wstep w1 i o))) (cell_of i) = g_errno (glob (fst (wstep w2 i o))) (cell_of i).
Proof.
  intros H Hw. unfold Globals.wstep. destruct o; try discriminate.
  - rewrite H. destruct (step SZ NJ MAXB (m_ring (mgrs w2 i)) o) as [s' r]. cbn. rewrite !upd_cell_same. reflexivity.
  - cbn [fst glob g_errno put_emem]. rewrite !upd_cell_same. destruct calls as [|c t]; [discriminate|]. rewrite !run_ecalls_glob by discriminate. reflexivity.
  - cbn [fst glob g_errno put_emem]. rewrite !upd_cell_same. rewrite !run_ecalls_glob by discriminate. reflexivity.
  - cbn [fst glob g_errno put_emem]. rewrite !upd_cell_same. rewrite !run_ecalls_glob by discriminate. reflexivity.
Qed.

Lemma wrun_app w l1 l2 : fst (wrun w (l1 ++ l2)) = fst (wrun (fst (wrun w l1)) l2).
Proof.
  revert w. induction l1 as [|[j o] t IH]; intros w; [reflexivity|].
  cbn [app]. rewrite !wrun_cons. cbn [fst]. apply IH.
Qed.

Lemma only_app i {A} (l1 l2 : list (nat * A)) : only i (l1 ++ l2) = only i l1 ++ only i l2.
Proof. unfold only. apply filter_app. Qed.

(* read immediately after one's own call (the errno idiom): no influence, whatever the others did
   before *)
Theorem get_errno_after_own_call_thm l w i o :
  writes_mirror o = true ->
  get_errno (fst (wrun w (l ++ [(i, o)]))) i = get_errno (fst (wrun w (only i (l ++ [(i, o)])))) i.
Proof.
  intros Hw. rewrite only_app, !wrun_app. rewrite (only_cons i i o []), Nat.eqb_refl. change (only i []) with (@nil (nat * wop)).
  destruct (mgr_noninterference_thm l w w i eq_refl) as [Hm _].
  set (wa := fst (wrun w l)) in *. set (wb := fst (wrun w (only i l))) in *.
  rewrite !wrun_cons. cbn [Globals.wrun fst].
  destruct (wstep_same wa wb i o Hm) as [Hs _].
  apply get_errno_eq; [exact Hs|]. right. apply wstep_own_cell; assumption.
Qed.

(* if no other manager in the history shares i's mirror cell (a thread-local mirror and one
   manager per thread), imb_get_errno is as independent as everything else *)
Lemma wrun_cell_private l : forall w1 w2 i,
  mgrs w1 i = mgrs w2 i -> g_errno (glob w1) (cell_of i) = g_errno (glob w2) (cell_of i) ->
  (forall j o, In (j, o) l -> j <> i -> cell_of j <> cell_of i) ->
  g_errno (glob (fst (wrun w1 l))) (cell_of i) = g_errno (glob (fst (wrun w2 (only i l)))) (cell_of i).
Proof.
  induction l as [|[j o] t IH]; intros w1 w2 i Hm Hg Hp; [exact Hg|].
  rewrite wrun_cons. cbn [fst]. rewrite only_cons.
  destruct (Nat.eqb j i) eqn:E.
  - apply Nat.eqb_eq in E. subst j. rewrite wrun_cons. cbn [fst].
    destruct (wstep_same w1 w2 i o Hm) as [Hs _].
    apply IH; [exact Hs| |intros j' o' Hin Hne; apply (Hp j' o'); [right; exact Hin|exact Hne]].
    destruct (writes_mirror o) eqn:Ew; [apply wstep_own_cell; assumption|].
    destruct o as [| [|c cs] | | |]; try discriminate; cbn; try exact Hg.
    (* WDirect [] : no imb_set_errno call at all *)
    rewrite !upd_cell_same. unfold Globals.emem_of. cbn. exact Hg.
  - apply Nat.eqb_neq in E.
    apply IH; [rewrite wstep_other by auto; exact Hm| |intros j' o' Hin Hne; apply (Hp j' o'); [right; exact Hin|exact Hne]].
    rewrite wstep_cell_other; [exact Hg|]. intros C. apply (Hp j o (or_introl eq_refl) E). symmetry. exact C.
Qed.

Theorem get_errno_private_cell_thm l w i :
  (forall j o, In (j, o) l -> j <> i -> cell_of j <> cell_of i) ->
  get_errno (fst (wrun w l)) i = get_errno (fst (wrun w (only i l))) i.
Proof.
  intros Hp. apply get_errno_eq; [apply (mgr_noninterference_thm l w w i eq_refl)|].
  right. apply wrun_cell_private; auto.
Qed.

(* ---- the session counter ---- *)
(* the counter after a history: it counts the imb_set_session calls of ALL managers and nothing
   else; no call reads it except imb_set_session, whose id is [sess] of it.  Together with
   mgr_noninterference (whose [erase] removes nothing from an imb_set_session output but the id)
   this is "the counter only affects the session id". *)
Fixpoint ctr_after (c : Z) (l : list (nat * wop)) : Z :=
  match l with
  | [] => c
  | (_, WSetSession) :: t => ctr_after ((c + 1) mod M64) t
  | _ :: t => ctr_after c t
  end.

Theorem session_counter_thm l : forall w,
  g_counter (glob (fst (wrun w l))) = ctr_after (g_counter (glob w)) l.
Proof.
  induction l as [|[j o] t IH]; intros w; [reflexivity|].
  rewrite wrun_cons. cbn [fst]. rewrite IH. unfold Globals.wstep. destruct o; cbn [ctr_after].
  - destruct (step SZ NJ MAXB (m_ring (mgrs w j)) o) as [s' r]; reflexivity.
  - reflexivity.
  - reflexivity.
  - reflexivity.
  - reflexivity.
Qed.

(* ids handed out are [sess] of the counter at the time of the call *)
Lemma session_id_is_sess_of_counter w i :
  snd (wstep w i WSetSession) = OSession (sess (g_counter (glob w))) 0.
Proof. cbn. reflexivity. Qed.

(* ---- init / CPUID cache ---- *)
(* feature detection does not depend on what the cache held, and leaves the same cache whoever
   runs it and however often *)
Theorem cpuid_cache_idempotent_thm w1 w2 i j :
  g_cpuid (glob (fst (wstep w1 i WInit))) = cpu
  /\ g_cpuid (glob (fst (wstep (fst (wstep w1 i WInit)) j WInit))) = g_cpuid (glob (fst (wstep w1 i WInit)))
  /\ m_feat (mgrs (fst (wstep w1 i WInit)) i) = m_feat (mgrs (fst (wstep w2 i WInit)) i)
  /\ snd (wstep w1 i WInit) = snd (wstep w2 i WInit).
Proof. cbn. rewrite !upd_mgr_same. repeat split. Qed.

End WorldProofs.

(* word granularity, real concurrency: every word a thread reads after having stored it itself
   is the CPU's answer, whatever other threads are storing at the same time *)
Section CpuidProofs.
Variable cpuw : nat -> Z.

Lemma crun_benign evs : forall mem seen,
  (forall t k, In (t, k) seen -> mem k = cpuw k) ->
  reads_follow_own_writes seen evs = true ->
  Forall (fun r : nat * nat * Z => snd r = cpuw (snd (fst r))) (crun cpuw mem evs).
Proof.
  induction evs as [|e r IH]; intros mem seen Hs Hw; [constructor|].
  destruct e as [t k|t k]; cbn [crun reads_follow_own_writes] in *.
  - apply (IH _ ((t, k) :: seen)); [|exact Hw].
    intros t' k' [E|Hin].
    + inversion E; subst. rewrite Nat.eqb_refl. reflexivity.
    + destruct (Nat.eqb k' k) eqn:Ek; [apply Nat.eqb_eq in Ek; subst; reflexivity|]. eapply Hs; exact Hin.
  - apply andb_true_iff in Hw. destruct Hw as [Hex Hw]. constructor.
    + cbn. apply existsb_exists in Hex. destruct Hex as ([t' k'] & Hin & Hb).
      apply andb_true_iff in Hb. destruct Hb as [H1 H2]. cbn in H1, H2.
      apply Nat.eqb_eq in H1, H2. subst. eapply Hs; exact Hin.
    + eapply IH; [exact Hs|exact Hw].
Qed.

Theorem cpuid_race_benign_thm evs mem0 :
  reads_follow_own_writes [] evs = true ->
  Forall (fun r : nat * nat * Z => snd r = cpuw (snd (fst r))) (crun cpuw mem0 evs).
Proof. intros H. apply (crun_benign evs mem0 []); [intros t k []|exact H]. Qed.
End CpuidProofs.
