(* Proofs/CcmFormatProofs.v — C03 structural proofs, part 3: the blocks the CCM CBC-MAC lane
   manager builds (Struct/CcmFormat.v) are exactly B0 / the encoded AAD / the padded message of
   RFC 3610 as Spec/CCM.v defines them, for every accepted nonce length (7..13), tag length
   (4,6,..,16), AAD (0..46 bytes) and message length (< 2^16), whatever the lane's init_blocks
   area held before; hence the lane's CBC-MAC value is Spec.CCM.ccm_cbcmac. *)
From Coq Require Import List NArith ZArith Bool Lia Arith PeanoNat ZifyNat ZifyN.
From IMB Require Import Lib.Bytes Struct.MemOps Struct.CcmFormat Proofs.BytesLemmas
                        Proofs.HashProofs Spec.AES Spec.CCM.
Import ListNotations.

Ltac Zify.zify_post_hook ::= Z.div_mod_to_equations.

Definition ccm_nonce_lens : list nat := [7; 8; 9; 10; 11; 12; 13].
Definition ccm_tag_lens : list nat := [4; 6; 8; 10; 12; 14; 16].

(* ---------- flags ---------- *)

(* complete finite domain: 7 nonce lengths x 7 tag lengths x Adata *)
Definition ccm_flags_check (n t : nat) (a : bool) : bool :=
  let q := (15 - n)%nat in
  let lib := ccm_lib_flags (N.of_nat n) (N.of_nat t) a in
  N.eqb lib ((if a then 64 else 0) + 8 * (N.of_nat ((t - 2) / 2)) + (N.of_nat q - 1))%N
  && N.eqb lib ((if a then 64 else 0) + 8 * N.div2 (N.of_nat t - 2) + (N.of_nat q - 1))%N
  && N.ltb lib 128.

Lemma ccm_flags_table :
  forallb (fun n => forallb (fun t => ccm_flags_check n t true && ccm_flags_check n t false)
                            ccm_tag_lens) ccm_nonce_lens = true.
Proof. vm_compute. reflexivity. Qed.

Theorem ccm_flags_format_thm n t a : In n ccm_nonce_lens -> In t ccm_tag_lens ->
  let q := (15 - n)%nat in
  ccm_lib_flags (N.of_nat n) (N.of_nat t) a =
    ((if a then 64 else 0) + 8 * (N.of_nat ((t - 2) / 2)) + (N.of_nat q - 1))%N /\
  ccm_lib_flags (N.of_nat n) (N.of_nat t) a =
    ((if a then 64 else 0) + 8 * N.div2 (N.of_nat t - 2) + (N.of_nat q - 1))%N /\
  (ccm_lib_flags (N.of_nat n) (N.of_nat t) a < 128)%N.
Proof.
  intros Hn Ht q.
  pose proof ccm_flags_table as T. rewrite forallb_forall in T. specialize (T n Hn).
  rewrite forallb_forall in T. specialize (T t Ht).
  apply andb_prop in T. destruct T as [T1 T2].
  assert (C : ccm_flags_check n t a = true) by (destruct a; assumption).
  unfold ccm_flags_check in C. apply andb_prop in C. destruct C as [C C3].
  apply andb_prop in C. destruct C as [C1 C2].
  apply N.eqb_eq in C1. apply N.eqb_eq in C2. apply N.ltb_lt in C3.
  repeat split; assumption.
Qed.

(* ---------- block 0 ---------- *)

Lemma nonce_len_cases (iv : bytes) : 7 <= length iv <= 13 -> In (length iv) ccm_nonce_lens.
Proof. intros H. unfold ccm_nonce_lens. cbn [In]. lia. Qed.

(* the per-length insert sequences put the nonce at bytes 1..n and leave the rest zero *)
Lemma ccm_lib_b0_shape iv taglen a mlen : 7 <= length iv <= 13 ->
  ccm_lib_b0 iv taglen a mlen =
  [ccm_lib_flags (N.of_nat (length iv)) (N.of_nat taglen) a] ++ iv
    ++ zeros (13 - length iv) ++ N_to_be 2 (w16 mlen).
Proof.
  intros H. unfold ccm_lib_b0.
  set (f := ccm_lib_flags (N.of_nat (length iv)) (N.of_nat taglen) a). clearbody f.
  set (m := w16 mlen). clearbody m.
  do 7 (destruct iv as [|? iv]; [cbn [length] in H; lia|]).
  do 7 (destruct iv as [|? iv]; [reflexivity|]).
  cbn [length] in H. lia.
Qed.

Lemma w16_small x : (x < 2 ^ 16)%N -> w16 x = x.
Proof.
  intros H. unfold w16. change mask16 with (N.ones 16). rewrite N.land_ones.
  apply N.mod_small. exact H.
Qed.

(* THEOREM ccm_b0_format: the stored block 0 is RFC 3610's B0 = flags || N || l(m), with
   flags = 64*Adata + 8*((t-2)/2) + (q-1), q = 15 - n, and the 16-bit length store is the
   q-byte big-endian length field (its upper q-2 bytes are zero) *)
Theorem ccm_b0_format_thm iv taglen a mlen :
  7 <= length iv <= 13 -> In taglen ccm_tag_lens -> (mlen < 2 ^ 16)%N ->
  let q := (15 - length iv)%nat in
  ccm_lib_b0 iv taglen a mlen = ccm_b0 iv a taglen mlen /\
  length (ccm_lib_b0 iv taglen a mlen) = 16 /\
  hd 0%N (ccm_lib_b0 iv taglen a mlen) =
    ((if a then 64 else 0) + 8 * (N.of_nat ((taglen - 2) / 2)) + (N.of_nat q - 1))%N /\
  (* the message length fits in q bytes *)
  (mlen < 2 ^ (8 * N.of_nat q))%N /\
  N_to_be q mlen = zeros (q - 2) ++ N_to_be 2 mlen.
Proof.
  intros Hn Ht Hm q.
  destruct (ccm_flags_format_thm (length iv) taglen a (nonce_len_cases iv Hn) Ht) as (F1 & F2 & _).
  assert (Hq : 2 <= q) by (unfold q; lia).
  assert (Hfit : (mlen < 2 ^ (8 * N.of_nat q))%N).
  { eapply N.lt_le_trans; [exact Hm|]. apply N.pow_le_mono_r; lia. }
  assert (Hwide : N_to_be q mlen = zeros (q - 2) ++ N_to_be 2 mlen).
  { apply N_to_be_wide_gen; [exact Hq|]. exact Hm. }
  rewrite (ccm_lib_b0_shape iv taglen a mlen Hn).
  repeat split.
  - unfold ccm_b0. fold q. rewrite Hwide, w16_small by exact Hm.
    rewrite F2. cbn [app]. f_equal. f_equal. f_equal. f_equal. unfold q. lia.
  - rewrite !app_length, zeros_length, N_to_be_length. cbn [length]. lia.
  - cbn [app hd]. exact F1.
  - exact Hfit.
  - exact Hwide.
Qed.

(* ---------- AAD encoding and the init_blocks area ---------- *)

Tactic Notation "explode_n" integer(n) ident(l) ident(H) :=
  do n (destruct l as [|? l]; [discriminate H|]); destruct l; [clear H|discriminate H].

Lemma ccm_lib_auth_len_val al : 0 < al ->
  ccm_lib_auth_len al = 16 + length (zpad16 (N_to_be 2 (N.of_nat al) ++ zeros al)).
Proof.
  intros H. unfold ccm_lib_auth_len, zpad16, pad16_len.
  destruct (Nat.eqb_spec al 0); [lia|].
  rewrite !app_length, !zeros_length, N_to_be_length. lia.
Qed.

(* THEOREM (init_blocks layout): for every AAD of 1..46 bytes, every previous content of the
   64-byte area, the first auth_len bytes are B0 followed by the 2-byte big-endian AAD length,
   the AAD and zero padding to a 16-byte boundary — zeroing only the last block suffices *)
Theorem ccm_init_blocks_layout stale iv aad taglen mlen :
  length stale = 64 -> 7 <= length iv <= 13 -> 1 <= length aad <= 46 ->
  firstn (ccm_lib_auth_len (length aad)) (ccm_lib_init_blocks stale iv aad taglen mlen) =
  ccm_lib_b0 iv taglen true mlen ++ zpad16 (N_to_be 2 (N.of_nat (length aad)) ++ aad).
Proof.
  intros Hs Hiv Ha. unfold ccm_lib_init_blocks.
  assert (Hb : length (ccm_lib_b0 iv taglen true mlen) = 16).
  { rewrite ccm_lib_b0_shape by exact Hiv.
    rewrite !app_length, zeros_length, N_to_be_length. cbn [length]. lia. }
  destruct (Nat.eqb_spec (length aad) 0) as [E|_]; [lia|]. cbn [negb].
  remember (ccm_lib_b0 iv taglen true mlen) as b0 eqn:Eb. clear Eb.
  explode_n 16 b0 Hb. explode_n 64 stale Hs.
  destruct aad as [|? aad]; [cbn [length] in Ha; lia|].
  do 46 (destruct aad as [|? aad]; [reflexivity|]).
  cbn [length] in Ha. lia.
Qed.

Lemma ccm_init_blocks_no_aad stale iv taglen mlen : length stale = 64 -> 7 <= length iv <= 13 ->
  firstn (ccm_lib_auth_len 0) (ccm_lib_init_blocks stale iv [] taglen mlen) =
  ccm_lib_b0 iv taglen false mlen.
Proof.
  intros Hs Hiv. unfold ccm_lib_init_blocks. cbn [length Nat.eqb negb].
  assert (Hb : length (ccm_lib_b0 iv taglen false mlen) = 16).
  { rewrite ccm_lib_b0_shape by exact Hiv.
    rewrite !app_length, zeros_length, N_to_be_length. cbn [length]. lia. }
  change (ccm_lib_auth_len 0) with 16.
  unfold write_at. rewrite firstn_O. cbn [app]. apply firstn_app_l. symmetry. exact Hb.
Qed.

(* the 2-byte form of RFC 3610 is the one that applies for every accepted AAD length *)
Lemma ccm_aad_len_enc_2byte al : (0 < al < 65280)%N ->
  ccm_aad_len_enc al = N_to_be 2 al /\ w16 al = al.
Proof.
  intros H. split.
  - unfold ccm_aad_len_enc.
    destruct (N.eqb_spec al 0); [lia|].
    destruct (N.ltb_spec al 65280); [reflexivity|lia].
  - apply w16_small. change (2 ^ 16)%N with 65536%N. lia.
Qed.

(* ---------- the lane's CBC-MAC = Spec's ---------- *)

Lemma pad16_len_lt n : pad16_len n < 16.
Proof. unfold pad16_len. lia. Qed.

Lemma zpad16_length l : exists q, length (zpad16 l) = q * 16.
Proof.
  unfold zpad16, pad16_len. rewrite app_length, zeros_length.
  exists ((length l + 15) / 16). lia.
Qed.


Section Lane.
  Variable E : bytes -> bytes.

  (* zero-padding each block inside the step = zero-padding the data once *)
  Lemma fold_mac_step_zpad : forall data x,
    fold_left (ccm_mac_step E) (chunks 16 data) x = fold_left (fun x b => E (xor_bytes b x)) (chunks 16 (zpad16 data)) x.
  Proof.
    apply (chunk_induction 16 (fun data => forall x,
             fold_left (ccm_mac_step E) (chunks 16 data) x =
             fold_left (fun x b => E (xor_bytes b x)) (chunks 16 (zpad16 data)) x)); [lia| |].
    - intros x. reflexivity.
    - intros data Hne IH x. rewrite (chunks_cons 16 data) by (lia || assumption).
      cbn [fold_left]. rewrite IH. clear IH.
      destruct (Nat.le_gt_cases 16 (length data)) as [Hge|Hlt].
      + (* a full block *)
        assert (Hf : length (firstn 16 data) = 16) by (apply firstn_length_le; exact Hge).
        unfold ccm_mac_step. rewrite pad_right_full by lia.
        assert (Ez : zpad16 data = firstn 16 data ++ zpad16 (skipn 16 data)).
        { unfold zpad16. rewrite skipn_length.
          replace (pad16_len (length data - 16)) with (pad16_len (length data))
            by (unfold pad16_len; lia).
          rewrite app_assoc, firstn_skipn. reflexivity. }
        rewrite Ez, chunks_app_block by (lia || assumption). reflexivity.
      + (* the final short block *)
        rewrite skipn_ge_nil, firstn_ge_all by lia.
        unfold zpad16 at 1. cbn [length app]. rewrite chunks_nil. cbn [fold_left].
        assert (Ez : zpad16 data = pad_right 16 data).
        { unfold zpad16, pad_right, pad16_len. f_equal. f_equal.
          destruct data; [congruence|]. cbn [length] in *. lia. }
        rewrite Ez. rewrite chunks_small.
        * reflexivity.
        * unfold pad_right. destruct data; [congruence|discriminate].
        * rewrite pad_right_length. lia.
  Qed.
End Lane.

(* THEOREM ccm_lane_mac_eq_spec: the IV slot of the lane after all rounds is Spec's CBC-MAC
   value T, for every accepted job geometry and whatever init_blocks held before *)
Theorem ccm_lane_mac_eq_spec E stale iv aad msg taglen :
  length stale = 64 -> 7 <= length iv <= 13 -> In taglen ccm_tag_lens ->
  length aad <= 46 -> (N.of_nat (length msg) < 2 ^ 16)%N ->
  ccm_lane_mac E stale iv aad msg taglen = ccm_cbcmac E iv aad msg taglen.
Proof.
  intros Hs Hiv Ht Ha Hm. unfold ccm_lane_mac, ccm_lane_stream, ccm_cbcmac.
  set (mlen := N.of_nat (length msg)) in *.
  destruct (zpad16_length msg) as [qm Hqm].
  destruct (Nat.eq_dec (length aad) 0) as [Ez|Enz].
  - apply length_zero_nil in Ez. subst aad. cbn [length Nat.eqb negb].
    rewrite ccm_init_blocks_no_aad by assumption.
    destruct (ccm_b0_format_thm iv taglen false mlen Hiv Ht Hm) as (Eb & Hl & _).
    rewrite chunks_app_block by (lia || assumption). cbn [fold_left].
    rewrite xor_bytes_zeros_r by lia. rewrite Eb.
    change (ccm_aad_len_enc (N.of_nat 0) ++ []) with (@nil N). rewrite chunks_nil. cbn [fold_left].
    symmetry. apply fold_mac_step_zpad.
  - assert (Ha' : 1 <= length aad <= 46) by lia.
    rewrite ccm_init_blocks_layout by assumption.
    destruct (ccm_b0_format_thm iv taglen true mlen Hiv Ht Hm) as (Eb & Hl & _).
    destruct (Nat.eqb_spec (length aad) 0) as [|_]; [contradiction|]. cbn [negb].
    destruct (ccm_aad_len_enc_2byte (N.of_nat (length aad))) as [Eenc _]; [lia|].
    rewrite Eenc. rewrite <- app_assoc.
    rewrite chunks_app_block by (lia || assumption). cbn [fold_left].
    rewrite xor_bytes_zeros_r by lia. rewrite Eb.
    destruct (zpad16_length (N_to_be 2 (N.of_nat (length aad)) ++ aad)) as [qa Hqa].
    rewrite (chunks_app_blocks 16 qa) by (lia || assumption).
    rewrite fold_left_app.
    rewrite !fold_mac_step_zpad. reflexivity.
Qed.

(* AES instance and the final tag: first taglen bytes of E(counter block 0) xor T *)
Theorem ccm_lane_tag_eq_spec key stale iv aad msg taglen :
  length stale = 64 -> 7 <= length iv <= 13 -> In taglen ccm_tag_lens ->
  length aad <= 46 -> (N.of_nat (length msg) < 2 ^ 16)%N ->
  let e := aes_enc_rk (aes_key_expand key) in
  firstn taglen (xor_bytes (ccm_lane_mac e stale iv aad msg taglen) (e (ccm_ctr_block iv 0))) =
  snd (ccm_enc key iv aad msg taglen).
Proof.
  intros Hs Hiv Ht Ha Hm e. unfold ccm_enc, ccm_enc_gen, ccm_tag. cbn [snd]. fold e.
  rewrite ccm_lane_mac_eq_spec by assumption. reflexivity.
Qed.
