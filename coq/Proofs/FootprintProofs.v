(* Proofs/FootprintProofs.v -- proofs of the obligations of property C07 (Props/Properties_C07.v)
   about the memory contract of Struct/Footprint.v.  Generic over the algorithm function F. *)
From Coq Require Import NArith List Bool Lia.
From IMB Require Import Lib.Bytes Gen.GenEnums Gen.GenC07Sizes Struct.Footprint.
Import ListNotations.
Local Open Scope N_scope.

(* ------------------------------------------------------------------------- *)
(* bytes and masks *)

Lemma merge_byte_full : forall old new, merge_byte 255 old new = w8 new.
Proof.
  intros. unfold merge_byte, w8, mask8. apply N.bits_inj; intro n.
  rewrite N.lor_spec, N.ldiff_spec, !N.land_spec.
  destruct (N.testbit old n), (N.testbit 255 n), (N.testbit new n); reflexivity.
Qed.

Lemma merge_byte_masked : forall mask old new,
  N.land (merge_byte mask old new) mask = N.land (w8 new) mask.
Proof.
  intros. unfold merge_byte, w8, mask8. apply N.bits_inj; intro n.
  rewrite !N.land_spec, N.lor_spec, N.ldiff_spec, !N.land_spec.
  destruct (N.testbit old n), (N.testbit 255 n), (N.testbit new n), (N.testbit mask n); reflexivity.
Qed.

(* ------------------------------------------------------------------------- *)
(* write_from / write_range / write_ranges on arbitrary ranges *)

Lemma upd_same : forall m a v, upd m a v a = v.
Proof. intros. unfold upd. rewrite N.eqb_refl. reflexivity. Qed.

Lemma upd_other : forall m a v x, x <> a -> upd m a v x = m x.
Proof. intros. unfold upd. destruct (N.eqb_spec x a); [contradiction | reflexivity]. Qed.

Lemma write_from_frame : forall n m r bs i a,
  a < ar_base r + i \/ ar_base r + i + N.of_nat n <= a ->
  write_from m r bs i n a = m a.
Proof.
  induction n as [|n IH]; intros m r bs i a H; [reflexivity|].
  cbn [write_from]. cbv zeta. rewrite IH by lia. apply upd_other. lia.
Qed.

Lemma write_from_in : forall n m r bs i a,
  ar_base r + i <= a -> a < ar_base r + i + N.of_nat n ->
  write_from m r bs i n a =
  merge_byte (byte_mask r (a - ar_base r)) (m a) (nth (N.to_nat (a - ar_base r)) bs 0).
Proof.
  induction n as [|n IH]; intros m r bs i a H1 H2.
  - exfalso. lia.
  - cbn [write_from]. cbv zeta. destruct (N.eq_dec a (ar_base r + i)) as [E|E].
    + rewrite write_from_frame by lia. subst a. rewrite upd_same.
      replace (ar_base r + i - ar_base r) with i by lia. reflexivity.
    + rewrite IH by lia. rewrite upd_other by exact E. reflexivity.
Qed.

Lemma in_arange_dec : forall a r, in_arange a r \/ ~ in_arange a r.
Proof. intros. unfold in_arange. lia. Qed.

Lemma write_range_frame : forall m r bs a, ~ in_arange a r -> write_range m r bs a = m a.
Proof.
  intros m r bs a H. unfold write_range. apply write_from_frame. unfold in_arange in H. lia.
Qed.

Lemma write_range_in : forall m r bs a, in_arange a r ->
  write_range m r bs a =
  merge_byte (byte_mask r (a - ar_base r)) (m a) (nth (N.to_nat (a - ar_base r)) bs 0).
Proof.
  intros m r bs a H. unfold write_range. unfold in_arange in H. apply write_from_in; lia.
Qed.

(* each address is written at most once by one range: pointwise congruence *)
Lemma write_range_cong : forall m1 m2 r bs a,
  m1 a = m2 a -> write_range m1 r bs a = write_range m2 r bs a.
Proof.
  intros m1 m2 r bs a H. destruct (in_arange_dec a r) as [Hin|Hout].
  - rewrite !write_range_in by assumption. rewrite H. reflexivity.
  - rewrite !write_range_frame by assumption. exact H.
Qed.

(* a fully masked byte does not depend on the old contents *)
Lemma write_range_full : forall m1 m2 r bs a,
  in_arange a r -> byte_mask r (a - ar_base r) = 255 ->
  write_range m1 r bs a = write_range m2 r bs a.
Proof.
  intros m1 m2 r bs a Hin Hm. rewrite !write_range_in by assumption.
  rewrite Hm, !merge_byte_full. reflexivity.
Qed.

Lemma write_ranges_frame : forall rs m outs a,
  ~ in_aranges a rs -> write_ranges m rs outs a = m a.
Proof.
  induction rs as [|r t IH]; intros m outs a H; [reflexivity|].
  cbn [write_ranges]. rewrite IH.
  - apply write_range_frame. intro Hr. apply H. exists r. split; [left; reflexivity | exact Hr].
  - intros [r' [Hin Ha]]. apply H. exists r'. split; [right; exact Hin | exact Ha].
Qed.

Lemma write_ranges_cong : forall rs m1 m2 outs a,
  m1 a = m2 a -> write_ranges m1 rs outs a = write_ranges m2 rs outs a.
Proof.
  induction rs as [|r t IH]; intros m1 m2 outs a H; [exact H|].
  cbn [write_ranges]. apply IH. apply write_range_cong. exact H.
Qed.

Lemma write_ranges_full : forall rs m1 m2 outs a,
  (forall r, In r rs -> in_arange a r -> byte_mask r (a - ar_base r) = 255) ->
  in_aranges a rs ->
  write_ranges m1 rs outs a = write_ranges m2 rs outs a.
Proof.
  induction rs as [|r t IH]; intros m1 m2 outs a Hfull [r' [Hin Ha]]; [destruct Hin|].
  cbn [write_ranges]. destruct (in_arange_dec a r) as [Hr|Hr].
  - apply write_ranges_cong. apply write_range_full; [exact Hr|].
    apply Hfull; [left; reflexivity | exact Hr].
  - apply IH.
    + intros r0 H0 H1. apply Hfull; [right; exact H0 | exact H1].
    + destruct Hin as [->|Hin]; [contradiction|]. exists r'. split; assumption.
Qed.

(* a byte of a range either is written whole or is one of the read-modify-write edges *)
Lemma byte_mask_full_or_edge : forall r a,
  in_arange a r -> byte_mask r (a - ar_base r) = 255 \/ in_aranges a (rmw_edges r).
Proof.
  intros r a [H1 H2]. unfold byte_mask, rmw_edges.
  destruct (N.eqb_spec (ar_len r) 0) as [E0|E0]; [exfalso; lia|].
  destruct (N.eqb_spec (ar_mfirst r) 255) as [Ef|Ef];
  destruct (N.eqb_spec (ar_mlast r) 255) as [El|El];
  destruct (N.eqb_spec (a - ar_base r) 0) as [Ei|Ei];
  destruct (N.eqb_spec (a - ar_base r + 1) (ar_len r)) as [Ej|Ej];
  try rewrite Ef; try rewrite El;
  try (left; reflexivity); right.
  all: try (eexists; split; [left; reflexivity|]; unfold in_arange; cbn [ar_base ar_len]; lia).
  all: try (eexists; split; [right; left; reflexivity|]; unfold in_arange; cbn [ar_base ar_len]; lia).
Qed.

Lemma read_bytes_ext : forall n m1 m2 base,
  (forall a, base <= a -> a < base + N.of_nat n -> m1 a = m2 a) ->
  read_bytes m1 base n = read_bytes m2 base n.
Proof.
  induction n as [|n IH]; intros m1 m2 base H; [reflexivity|].
  cbn [read_bytes]. f_equal.
  - apply H; lia.
  - apply IH. intros a Ha Hb. apply H; lia.
Qed.

Lemma read_range_ext : forall m1 m2 r,
  (forall a, in_arange a r -> m1 a = m2 a) -> read_range m1 r = read_range m2 r.
Proof.
  intros m1 m2 r H. unfold read_range. apply read_bytes_ext.
  intros a Ha Hb. apply H. unfold in_arange. lia.
Qed.

(* ------------------------------------------------------------------------- *)
(* frame and non-interference of run_job_mem *)

Theorem run_job_frame_thm :
  forall (F : fview -> list bytes -> list bytes) j lay m a,
    ~ in_aranges a (W_abs j lay) -> run_job_mem F j lay m a = m a.
Proof.
  intros F j lay m a H. unfold run_job_mem. apply write_ranges_frame. exact H.
Qed.

Theorem run_job_reads_only_R_thm :
  forall (F : fview -> list bytes -> list bytes) j lay m1 m2,
    (forall a, in_aranges a (R_all j lay) -> m1 a = m2 a) ->
    job_inputs j lay m1 = job_inputs j lay m2 /\
    (forall a, in_aranges a (W_abs j lay) -> run_job_mem F j lay m1 a = run_job_mem F j lay m2 a).
Proof.
  intros F j lay m1 m2 H.
  assert (Hin : job_inputs j lay m1 = job_inputs j lay m2).
  { unfold job_inputs. apply map_ext_in. intros r Hr. apply read_range_ext.
    intros a Ha. apply H. exists r. split; [|exact Ha].
    unfold R_all. apply in_or_app. left. exact Hr. }
  split; [exact Hin|].
  intros a Ha. unfold run_job_mem. rewrite <- Hin.
  destruct (N.eq_dec (m1 a) (m2 a)) as [E|E].
  - apply write_ranges_cong. exact E.
  - apply write_ranges_full; [|exact Ha].
    intros r Hr Har. destruct (byte_mask_full_or_edge r a Har) as [Hm|[e [He Hae]]]; [exact Hm|].
    exfalso. apply E. apply H. exists e. split; [|exact Hae].
    unfold R_all. apply in_or_app. right. apply in_flat_map. exists r. split; assumption.
Qed.

(* ------------------------------------------------------------------------- *)
(* objects: every object occurs at most once (the list is increasing in obj_index) *)

Lemma obj_eqb_eq : forall a b, obj_eqb a b = true -> a = b.
Proof. destruct a, b; intro H; try reflexivity; discriminate H. Qed.

Lemma obj_eqb_refl : forall a, obj_eqb a a = true.
Proof. destruct a; reflexivity. Qed.

Lemma obj_eqb_neq : forall a b, obj_eqb a b = false -> a <> b.
Proof. intros a b H E. subst b. rewrite obj_eqb_refl in H. discriminate H. Qed.

Lemma in_all_objs : forall o, In o all_objs.
Proof. destruct o; unfold all_objs; simpl; tauto. Qed.

Fixpoint incb (lo hi : N) (l : list (obj * N)) : bool :=
  match l with
  | [] => lo <=? hi
  | p :: t => (lo <=? obj_index (fst p)) && incb (obj_index (fst p) + 1) hi t
  end.

Lemma incb_lo : forall l lo lo' hi, incb lo hi l = true -> lo' <= lo -> incb lo' hi l = true.
Proof.
  destruct l as [|p t]; cbn [incb]; intros lo lo' hi H Hle.
  - apply N.leb_le in H. apply N.leb_le. lia.
  - apply andb_true_iff in H. destruct H as [H1 H2]. apply andb_true_iff. split; [|exact H2].
    apply N.leb_le in H1. apply N.leb_le. lia.
Qed.

Lemma incb_app : forall l1 l2 lo mid hi,
  incb lo mid l1 = true -> incb mid hi l2 = true -> incb lo hi (l1 ++ l2) = true.
Proof.
  induction l1 as [|p t IH]; intros l2 lo mid hi H1 H2.
  - cbn [incb app] in *. apply N.leb_le in H1. eapply incb_lo; eassumption.
  - cbn [incb app] in *. apply andb_true_iff in H1. destruct H1 as [Ha Hb].
    apply andb_true_iff. split; [exact Ha|]. eapply IH; eassumption.
Qed.

Lemma incb_in_lo : forall l lo hi o s, incb lo hi l = true -> In (o, s) l -> lo <= obj_index o.
Proof.
  induction l as [|[o' s'] t IH]; intros lo hi o s H Hin; [destruct Hin|].
  cbn [incb fst] in H. apply andb_true_iff in H. destruct H as [H1 H2]. apply N.leb_le in H1.
  destruct Hin as [E|Hin].
  - inversion E; subst. exact H1.
  - pose proof (IH _ _ _ _ H2 Hin). lia.
Qed.

Lemma incb_lookup : forall l lo hi o s, incb lo hi l = true -> In (o, s) l -> lookup_size l o = s.
Proof.
  induction l as [|[o' s'] t IH]; intros lo hi o s H Hin; [destruct Hin|].
  cbn [incb fst] in H. apply andb_true_iff in H. destruct H as [H1 H2].
  cbn [lookup_size]. destruct Hin as [E|Hin].
  - inversion E; subst. rewrite obj_eqb_refl. reflexivity.
  - destruct (obj_eqb o' o) eqn:E.
    + apply obj_eqb_eq in E. subst o'. pose proof (incb_in_lo _ _ _ _ _ H2 Hin). lia.
    + eapply IH; eassumption.
Qed.

Lemma incb_opt_obj : forall o s, incb (obj_index o) (obj_index o + 1) (opt_obj o s) = true.
Proof. intros o s. unfold opt_obj. destruct (s =? 0); destruct o; reflexivity. Qed.

Lemma incb_cipher_key_objs : forall j, incb 5 10 (cipher_key_objs j) = true.
Proof.
  intro j. unfold cipher_key_objs. destruct (negb (has_key j)); [reflexivity|].
  destruct (ckind_of (fv_cipher j)); reflexivity.
Qed.

Lemma incb_auth_key_objs : forall j, incb 11 14 (auth_key_objs j) = true.
Proof.
  intro j. unfold auth_key_objs, opt_obj. destruct (negb (has_akey j)); [reflexivity|].
  destruct (hkind_of (fv_hash j)); try reflexivity; destruct (fv_aiv_len j =? 0); reflexivity.
Qed.

Lemma incb_objects : forall j, incb 0 14 (objects j) = true.
Proof.
  intro j. unfold objects.
  apply incb_app with (mid := 1); [reflexivity|].
  apply incb_app with (mid := 2); [destruct (has_cipher j && negb (ip_only j)); reflexivity|].
  apply incb_app with (mid := 3); [exact (incb_opt_obj OIv _)|].
  apply incb_app with (mid := 4); [exact (incb_opt_obj OAad _)|].
  apply incb_app with (mid := 5);
    [destruct (has_hash j); [exact (incb_opt_obj OTag _) | reflexivity]|].
  apply incb_app with (mid := 10); [apply incb_cipher_key_objs|].
  apply incb_app with (mid := 11);
    [destruct (fv_cipher j =? IMB_CIPHER_CBCS_1_9); reflexivity|].
  apply incb_auth_key_objs.
Qed.

Lemma obj_size_in : forall j o s, In (o, s) (objects j) -> obj_size j o = s.
Proof.
  intros j o s H. unfold obj_size. eapply incb_lookup; [apply incb_objects | exact H].
Qed.

Lemma obj_size_src : forall j, obj_size j OSrc = fv_src_size j.
Proof. reflexivity. Qed.

Lemma obj_size_dst : forall j, has_cipher j = true -> ip_only j = false -> obj_size j ODst = d_to j.
Proof.
  intros j Hc Hip. apply obj_size_in. unfold objects.
  apply in_or_app; right. apply in_or_app; left.
  rewrite Hc, Hip. left. reflexivity.
Qed.

Lemma obj_size_tag : forall j, has_hash j = true -> fv_tag_len j <> 0 -> obj_size j OTag = fv_tag_len j.
Proof.
  intros j Hh Ht. apply obj_size_in. unfold objects.
  do 4 (apply in_or_app; right). apply in_or_app; left.
  rewrite Hh. unfold opt_obj. destruct (N.eqb_spec (fv_tag_len j) 0); [contradiction|].
  left. reflexivity.
Qed.

Lemma obj_size_niv : forall j, (fv_cipher j =? IMB_CIPHER_CBCS_1_9) = true -> obj_size j ONiv = 16.
Proof.
  intros j Hc. apply obj_size_in. unfold objects.
  do 6 (apply in_or_app; right). apply in_or_app; left.
  rewrite Hc. left. reflexivity.
Qed.

(* ------------------------------------------------------------------------- *)
(* arithmetic of the destination range *)

Ltac div8 x :=
  let H1 := fresh in let H2 := fresh in
  assert (H1 := N.div_mod x 8 ltac:(discriminate));
  assert (H2 := N.mod_lt x 8 ltac:(discriminate));
  let q := fresh "q" in let r := fresh "r" in
  set (q := x / 8) in *; set (r := x mod 8) in *; clearbody q r.

Lemma doff_dto_le_cto : forall j, has_cipher j = true -> doff_ip j + d_to j <= c_to j.
Proof.
  intros j Hc. unfold doff_ip, d_to, c_to, ceil8. rewrite Hc. cbn [negb].
  div8 (fv_coff j). div8 (fv_clen j). div8 (fv_clen j + 7). div8 (fv_coff j + fv_clen j + 7).
  destruct (is_pon j && negb (has_key j));
  destruct (fv_cipher j =? IMB_CIPHER_CNTR_BITLEN);
  destruct (cipher_off_in_bits (fv_cipher j));
  destruct (bit_unaligned j); lia.
Qed.

Lemma d_to_no_cipher : forall j, has_cipher j = false -> d_to j = 0.
Proof. intros j H. unfold d_to. rewrite H. reflexivity. Qed.

(* ------------------------------------------------------------------------- *)
(* every range lies inside its object *)

Ltac split_accepted Hacc :=
  unfold accepted in Hacc;
  repeat rewrite andb_true_iff in Hacc;
  let A1 := fresh "A1" in let A2 := fresh "A2" in let A3 := fresh "A3" in
  let A4 := fresh "A4" in let A5 := fresh "A5" in let A6 := fresh "A6" in
  destruct Hacc as [[[[[A1 A2] A3] A4] A5] A6];
  apply N.leb_le in A1; apply N.leb_le in A2.

Lemma footprint_R_within : forall j r,
  accepted j = true -> In r (footprint_R j) -> o_off r + o_len r <= obj_size j (o_obj r).
Proof.
  intros j r Hacc Hin. split_accepted Hacc.
  unfold footprint_R in Hin.
  apply in_app_or in Hin. destruct Hin as [Hin|Hin].
  { unfold opt_range in Hin. destruct (o_len _ =? 0) in Hin; [destruct Hin|].
    destruct Hin as [<-|[]]. unfold full. cbn [o_off o_len o_obj]. rewrite obj_size_src. lia. }
  apply in_app_or in Hin. destruct Hin as [Hin|Hin].
  { destruct (has_hash j); [|destruct Hin].
    unfold opt_range in Hin. destruct (o_len _ =? 0) in Hin; [destruct Hin|].
    destruct Hin as [<-|[]]. unfold full. cbn [o_off o_len o_obj]. rewrite obj_size_src.
    apply N.leb_le in A3. assert (fv_hoff j <= h_to j) by (unfold h_to; lia). lia. }
  apply in_app_or in Hin. destruct Hin as [Hin|Hin].
  { destruct (is_pon j); [|destruct Hin].
    destruct Hin as [<-|[]]. unfold full. cbn [o_off o_len o_obj]. rewrite obj_size_src.
    apply andb_true_iff in A5. destruct A5 as [A5 _]. apply N.leb_le in A5. lia. }
  apply in_map_iff in Hin. destruct Hin as [[o s] [<- Hin]].
  apply filter_In in Hin. destruct Hin as [Hin _].
  unfold full. cbn [o_off o_len o_obj fst snd]. rewrite (obj_size_in _ _ _ Hin). lia.
Qed.

Lemma footprint_W_within : forall j r,
  accepted j = true -> In r (footprint_W j) -> o_off r + o_len r <= obj_size j (o_obj r).
Proof.
  intros j r Hacc Hin. split_accepted Hacc.
  unfold footprint_W in Hin.
  apply in_app_or in Hin. destruct Hin as [Hin|Hin].
  { unfold opt_range in Hin. cbn [o_len] in Hin.
    destruct (N.eqb_spec (d_to j - d_from j) 0) as [E|E]; [destruct Hin|].
    destruct Hin as [<-|[]]. cbn [o_off o_len o_obj].
    assert (Hc : has_cipher j = true).
    { destruct (has_cipher j) eqn:Hc; [reflexivity|]. exfalso. apply E.
      rewrite d_to_no_cipher by exact Hc. apply N.sub_0_l. }
    destruct (ip_only j) eqn:Hip.
    - rewrite obj_size_src. pose proof (doff_dto_le_cto j Hc). lia.
    - rewrite obj_size_dst by assumption. lia. }
  apply in_app_or in Hin. destruct Hin as [Hin|Hin].
  { unfold src_extra_W in Hin. apply in_app_or in Hin. destruct Hin as [Hin|Hin].
    - destruct (is_docsis_crc j && is_enc j && (14 <=? fv_hlen j)); [|destruct Hin].
      destruct Hin as [<-|[]]. unfold full. cbn [o_off o_len o_obj]. rewrite obj_size_src.
      apply N.leb_le in A4. lia.
    - destruct (is_pon j); [|destruct Hin]. cbn [andb] in Hin.
      destruct (is_enc j); [|destruct Hin].
      apply andb_true_iff in A5. destruct A5 as [A5 A5'].
      apply N.leb_le in A5.
      destruct Hin as [<-|Hin].
      + unfold full. cbn [o_off o_len o_obj]. rewrite obj_size_src. lia.
      + destruct (N.ltb_spec 4 (fv_pli j)) as [Hp|Hp]; [|destruct Hin].
        destruct Hin as [<-|[]]. unfold full. cbn [o_off o_len o_obj]. rewrite obj_size_src.
        apply orb_true_iff in A5'. destruct A5' as [A5'|A5']; apply N.leb_le in A5'; lia. }
  apply in_app_or in Hin. destruct Hin as [Hin|Hin].
  { destruct (has_hash j) eqn:Hh; [|destruct Hin].
    unfold opt_range in Hin. unfold full in Hin at 1. cbn [o_len] in Hin.
    destruct (N.eqb_spec (fv_tag_len j) 0) as [E|E]; [destruct Hin|].
    destruct Hin as [<-|[]]. unfold full. cbn [o_off o_len o_obj].
    rewrite obj_size_tag by assumption. lia. }
  destruct (fv_cipher j =? IMB_CIPHER_CBCS_1_9) eqn:Hc; [|destruct Hin].
  destruct Hin as [<-|[]]. unfold full. cbn [o_off o_len o_obj].
  rewrite obj_size_niv by assumption. lia.
Qed.

Theorem footprint_within_objects_thm :
  forall j r, accepted j = true -> In r (footprint_R j ++ footprint_W j) ->
              o_off r + o_len r <= obj_size j (o_obj r).
Proof.
  intros j r Hacc Hin. apply in_app_or in Hin. destruct Hin as [Hin|Hin].
  - apply footprint_R_within; assumption.
  - apply footprint_W_within; assumption.
Qed.

(* ------------------------------------------------------------------------- *)
(* out-of-place layouts: a write range does not reach into another object *)

Lemma W_range_not_in_other_obj : forall j lay r o a,
  accepted j = true -> oop_layout_ok j lay -> In r (footprint_W j) -> o_obj r <> o ->
  in_arange a (abs_range lay r) -> in_arange a (obj_extent j lay o) -> False.
Proof.
  intros j lay r o a Hacc Hlay Hin Hne Ha Hb.
  pose proof (footprint_W_within j r Hacc Hin) as Hw.
  pose proof (Hlay (o_obj r) o (in_all_objs _) (in_all_objs _) Hne) as Hd.
  unfold disjoint_ar, obj_extent in Hd. cbn [ar_base ar_len] in Hd.
  unfold in_arange, abs_range, obj_extent in Ha, Hb. cbn [ar_base ar_len] in Ha, Hb.
  lia.
Qed.

Theorem src_intact_thm :
  forall (F : fview -> list bytes -> list bytes) j lay m a,
    accepted j = true -> oop_layout_ok j lay -> writes_src j = false ->
    in_arange a (obj_extent j lay OSrc) -> run_job_mem F j lay m a = m a.
Proof.
  intros F j lay m a Hacc Hlay Hws Ha. apply run_job_frame_thm.
  intros [r' [Hin Har]]. unfold W_abs in Hin. apply in_map_iff in Hin.
  destruct Hin as [r [<- Hin]].
  apply (W_range_not_in_other_obj j lay r OSrc a); try assumption.
  apply obj_eqb_neq. destruct (obj_eqb (o_obj r) OSrc) eqn:E; [|reflexivity].
  exfalso. unfold writes_src in Hws.
  assert (Ht : existsb (fun r => obj_eqb (o_obj r) OSrc) (footprint_W j) = true).
  { apply existsb_exists. exists r. split; assumption. }
  rewrite Hws in Ht. discriminate Ht.
Qed.

(* ------------------------------------------------------------------------- *)
(* in place = out of place on the destination bits *)

Definition tag_niv (j : fview) : list orange :=
  (if has_hash j then opt_range (full OTag 0 (fv_tag_len j)) else []) ++
  (if fv_cipher j =? IMB_CIPHER_CBCS_1_9 then [full ONiv 0 16] else []).

Lemma tag_niv_objs : forall j r, In r (tag_niv j) -> o_obj r = OTag \/ o_obj r = ONiv.
Proof.
  intros j r Hin. unfold tag_niv in Hin. apply in_app_or in Hin. destruct Hin as [Hin|Hin].
  - destruct (has_hash j); [|destruct Hin]. unfold opt_range in Hin.
    destruct (o_len _ =? 0) in Hin; [destruct Hin|]. destruct Hin as [<-|[]]. left. reflexivity.
  - destruct (fv_cipher j =? IMB_CIPHER_CBCS_1_9); [|destruct Hin].
    destruct Hin as [<-|[]]. right. reflexivity.
Qed.

Lemma footprint_W_oop : forall j, ip_only j = false -> d_to j - d_from j <> 0 ->
  footprint_W j =
  mk_or ODst (d_from j + 0) (d_to j - d_from j) (d_mfirst j) (d_mlast j) :: tag_niv j.
Proof.
  intros j Hip Hne. pose proof Hip as Hip'. unfold ip_only in Hip'.
  apply orb_false_iff in Hip'. destruct Hip' as [Hp Hd].
  unfold footprint_W, src_extra_W, tag_niv. rewrite Hip, Hp, Hd.
  unfold opt_range at 1. cbn [o_len].
  destruct (N.eqb_spec (d_to j - d_from j) 0); [contradiction|]. reflexivity.
Qed.

Lemma footprint_R_not_dst : forall j r, In r (footprint_R j) -> o_obj r <> ODst.
Proof.
  intros j r Hin. unfold footprint_R in Hin.
  apply in_app_or in Hin. destruct Hin as [Hin|Hin].
  { unfold opt_range in Hin. destruct (o_len _ =? 0) in Hin; [destruct Hin|].
    destruct Hin as [<-|[]]. discriminate. }
  apply in_app_or in Hin. destruct Hin as [Hin|Hin].
  { destruct (has_hash j); [|destruct Hin].
    unfold opt_range in Hin. destruct (o_len _ =? 0) in Hin; [destruct Hin|].
    destruct Hin as [<-|[]]. discriminate. }
  apply in_app_or in Hin. destruct Hin as [Hin|Hin].
  { destruct (is_pon j); [|destruct Hin]. destruct Hin as [<-|[]]. discriminate. }
  apply in_map_iff in Hin. destruct Hin as [[o s] [<- Hin]].
  apply filter_In in Hin. destruct Hin as [_ Hin]. cbn [fst] in Hin.
  unfold full. cbn [o_obj fst]. intro E. subst o. discriminate Hin.
Qed.

Lemma abs_range_ip : forall j lay r,
  o_obj r <> ODst -> abs_range (ip_layout j lay) r = abs_range lay r.
Proof.
  intros j lay r H. unfold abs_range, ip_layout.
  destruct (o_obj r) eqn:E; try reflexivity. congruence.
Qed.

Lemma job_inputs_ip : forall j lay m, job_inputs j (ip_layout j lay) m = job_inputs j lay m.
Proof.
  intros j lay m. unfold job_inputs, R_abs. f_equal. apply map_ext_in.
  intros r Hr. apply abs_range_ip. eapply footprint_R_not_dst. exact Hr.
Qed.

Lemma dst_mask_in : forall j i, dst_mask j i <> 0 -> d_from j <= i /\ i < d_to j.
Proof.
  intros j i H. unfold dst_mask in H.
  destruct (N.leb_spec (d_from j) i); destruct (N.ltb_spec i (d_to j)); cbn [andb] in H;
    try (exfalso; apply H; reflexivity).
  split; assumption.
Qed.

Lemma run_dst_value : forall (F : fview -> list bytes -> list bytes) j L m i,
  ip_only j = false -> d_from j <= i -> i < d_to j ->
  (forall r, In r (tag_niv j) -> ~ in_arange (L ODst + i) (abs_range L r)) ->
  run_job_mem F j L m (L ODst + i) =
  merge_byte (dst_mask j i) (m (L ODst + i))
             (nth (N.to_nat (i - d_from j)) (hd [] (F j (job_inputs j L m))) 0).
Proof.
  intros F j L m i Hip H1 H2 Hrest.
  unfold run_job_mem, W_abs. rewrite footprint_W_oop by (assumption || lia).
  cbn [map write_ranges].
  rewrite write_ranges_frame.
  2:{ intros [r' [Hin Ha]]. apply in_map_iff in Hin. destruct Hin as [r [<- Hin]].
      exact (Hrest r Hin Ha). }
  rewrite write_range_in.
  2:{ unfold in_arange, abs_range. cbn [ar_base ar_len o_obj o_off o_len]. lia. }
  unfold byte_mask, dst_mask, abs_range.
  cbn [ar_base ar_len ar_mfirst ar_mlast o_obj o_off o_len o_mfirst o_mlast].
  replace (L ODst + i - (L ODst + (d_from j + 0))) with (i - d_from j) by lia.
  destruct (N.leb_spec (d_from j) i); [|lia]. destruct (N.ltb_spec i (d_to j)); [|lia].
  cbn [andb]. f_equal. f_equal.
  - destruct (N.eqb_spec (i - d_from j) 0), (N.eqb_spec i (d_from j)); try reflexivity; lia.
  - destruct (N.eqb_spec (i - d_from j + 1) (d_to j - d_from j)), (N.eqb_spec (i + 1) (d_to j));
      try reflexivity; lia.
Qed.

Theorem inplace_eq_outofplace_thm :
  forall (F : fview -> list bytes -> list bytes) j lay m i,
    accepted j = true -> ip_only j = false -> has_cipher j = true -> oop_layout_ok j lay ->
    N.land (run_job_mem F j (ip_layout j lay) m (lay OSrc + doff_ip j + i)) (dst_mask j i) =
    N.land (run_job_mem F j lay m (lay ODst + i)) (dst_mask j i).
Proof.
  intros F j lay m i Hacc Hip Hc Hlay.
  destruct (N.eq_dec (dst_mask j i) 0) as [E|E]; [rewrite E, !N.land_0_r; reflexivity|].
  destruct (dst_mask_in j i E) as [H1 H2].
  pose proof (doff_dto_le_cto j Hc) as Hd.
  pose proof Hacc as Hacc'. split_accepted Hacc'.
  assert (HW : forall r, In r (tag_niv j) -> In r (footprint_W j)).
  { intros r Hr. rewrite footprint_W_oop by (assumption || lia). right. exact Hr. }
  assert (Hoop : forall r, In r (tag_niv j) -> ~ in_arange (lay ODst + i) (abs_range lay r)).
  { intros r Hr Ha.
    apply (W_range_not_in_other_obj j lay r ODst (lay ODst + i)); try assumption.
    - apply HW. exact Hr.
    - destruct (tag_niv_objs j r Hr) as [Eo|Eo]; rewrite Eo; discriminate.
    - unfold in_arange, obj_extent. cbn [ar_base ar_len]. rewrite obj_size_dst by assumption. lia. }
  assert (Hipl : forall r, In r (tag_niv j) ->
            ~ in_arange (ip_layout j lay ODst + i) (abs_range (ip_layout j lay) r)).
  { intros r Hr Ha.
    assert (Hnd : o_obj r <> ODst)
      by (destruct (tag_niv_objs j r Hr) as [Eo|Eo]; rewrite Eo; discriminate).
    rewrite abs_range_ip in Ha by exact Hnd.
    apply (W_range_not_in_other_obj j lay r OSrc (ip_layout j lay ODst + i)); try assumption.
    - apply HW. exact Hr.
    - destruct (tag_niv_objs j r Hr) as [Eo|Eo]; rewrite Eo; discriminate.
    - unfold in_arange, obj_extent, ip_layout. cbn [ar_base ar_len]. rewrite obj_size_src. lia. }
  change (lay OSrc + doff_ip j + i) with (ip_layout j lay ODst + i).
  rewrite (run_dst_value F j (ip_layout j lay) m i Hip H1 H2 Hipl).
  rewrite (run_dst_value F j lay m i Hip H1 H2 Hoop).
  rewrite job_inputs_ip, !merge_byte_masked. reflexivity.
Qed.
