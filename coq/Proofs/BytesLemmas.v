(* Proofs/BytesLemmas.v — list / byte-string lemmas shared by the C02/C03 structural proofs
   (HashProofs, CmacProofs, AeadProofs, CcmFormatProofs, GcmFormatProofs, GeomProofs).
   Self-contained: depends only on Lib/Bytes.v and the standard library. *)
From Coq Require Import List NArith Bool Lia Arith PeanoNat.
From IMB Require Import Lib.Bytes Struct.MemOps.
Import ListNotations.

(* ------------------------------------------------------------------------- *)
(* nat division helpers (explicit instances; lia does not know div/mod of a    *)
(* variable divisor)                                                          *)
(* ------------------------------------------------------------------------- *)

Lemma div_unique_1 a b : b <= a < 2 * b -> a / b = 1.
Proof. intros H. symmetry. apply Nat.div_unique with (r := a - b); lia. Qed.

Lemma div_unique_2 a b : 2 * b <= a < 3 * b -> a / b = 2.
Proof. intros H. symmetry. apply Nat.div_unique with (r := a - 2 * b); lia. Qed.

Lemma mod_sub_1 a b : b <= a < 2 * b -> a mod b = a - b.
Proof. intros H. symmetry. apply Nat.mod_unique with (q := 1); lia. Qed.

Lemma mod_mul_add q b r : 0 < b -> (q * b + r) mod b = r mod b.
Proof.
  intros Hb. rewrite Nat.add_comm. rewrite Nat.mod_add by lia. reflexivity.
Qed.

Lemma div_mod_eq a b : 0 < b -> a = b * (a / b) + a mod b.
Proof. intros. apply Nat.div_mod. lia. Qed.

Lemma mod_lt a b : 0 < b -> a mod b < b.
Proof. intros. apply Nat.mod_upper_bound. lia. Qed.

(* ------------------------------------------------------------------------- *)
(* firstn / skipn / app                                                       *)
(* ------------------------------------------------------------------------- *)

Lemma firstn_app_l {A} (a b : list A) n : n = length a -> firstn n (a ++ b) = a.
Proof.
  intros ->. rewrite firstn_app, Nat.sub_diag, firstn_all. simpl. apply app_nil_r.
Qed.

Lemma skipn_app_l {A} (a b : list A) n : n = length a -> skipn n (a ++ b) = b.
Proof.
  intros ->. rewrite skipn_app, Nat.sub_diag, skipn_all. reflexivity.
Qed.

Lemma firstn_ge_all {A} (l : list A) n : length l <= n -> firstn n l = l.
Proof. intros. apply firstn_all2. assumption. Qed.

Lemma skipn_ge_nil {A} (l : list A) n : length l <= n -> skipn n l = [].
Proof. intros. apply skipn_all2. assumption. Qed.

Lemma skipn_length' {A} (l : list A) n : length (skipn n l) = length l - n.
Proof. apply skipn_length. Qed.

Lemma firstn_length_le' {A} (l : list A) n : n <= length l -> length (firstn n l) = n.
Proof. intros. apply firstn_length_le. assumption. Qed.

Lemma skipn_skipn {A} (l : list A) a b : skipn a (skipn b l) = skipn (a + b) l.
Proof.
  revert l. induction b; intros l.
  - rewrite Nat.add_0_r. reflexivity.
  - destruct l.
    + rewrite !skipn_nil. reflexivity.
    + rewrite Nat.add_succ_r. simpl. apply IHb.
Qed.

Lemma firstn_skipn_add {A} (l : list A) a b :
  firstn (a + b) l = firstn a l ++ firstn b (skipn a l).
Proof.
  revert l. induction a; intros l; simpl.
  - reflexivity.
  - destruct l; simpl.
    + rewrite firstn_nil. reflexivity.
    + f_equal. apply IHa.
Qed.

Lemma list_split_at {A} (l : list A) n : l = firstn n l ++ skipn n l.
Proof. symmetry. apply firstn_skipn. Qed.

Lemma length_zero_nil {A} (l : list A) : length l = 0 -> l = [].
Proof. destruct l; simpl; intros; [reflexivity|discriminate]. Qed.

(* ------------------------------------------------------------------------- *)
(* zeros                                                                      *)
(* ------------------------------------------------------------------------- *)

Lemma zeros_length n : length (zeros n) = n.
Proof. apply repeat_length. Qed.

Lemma zeros_app a b : zeros (a + b) = zeros a ++ zeros b.
Proof. apply repeat_app. Qed.

Lemma zeros_S n : zeros (S n) = 0%N :: zeros n.
Proof. reflexivity. Qed.

Lemma zeros_snoc n : zeros n ++ [0%N] = zeros (S n).
Proof. induction n; [reflexivity|]. cbn [zeros repeat app] in *. f_equal. exact IHn. Qed.

Lemma rev_zeros n : rev (zeros n) = zeros n.
Proof.
  induction n; [reflexivity|]. change (zeros (S n)) with (0%N :: zeros n) at 1.
  cbn [rev]. rewrite IHn. apply zeros_snoc.
Qed.

Lemma firstn_zeros a b : a <= b -> firstn a (zeros b) = zeros a.
Proof.
  intros H. replace b with (a + (b - a)) by lia.
  rewrite zeros_app. apply firstn_app_l. symmetry. apply zeros_length.
Qed.

Lemma skipn_zeros a b : skipn a (zeros b) = zeros (b - a).
Proof.
  destruct (Nat.le_gt_cases a b) as [H|H].
  - replace b with (a + (b - a)) at 1 by lia.
    rewrite zeros_app. apply skipn_app_l. symmetry. apply zeros_length.
  - replace (b - a) with 0 by lia. apply skipn_ge_nil. rewrite zeros_length. lia.
Qed.

Lemma pad_right_length n l : length (pad_right n l) = Nat.max n (length l).
Proof. unfold pad_right. rewrite app_length, zeros_length. lia. Qed.

Lemma pad_right_full n l : n <= length l -> pad_right n l = l.
Proof.
  intros H. unfold pad_right. replace (n - length l) with 0 by lia. apply app_nil_r.
Qed.

(* ------------------------------------------------------------------------- *)
(* xor_bytes                                                                  *)
(* ------------------------------------------------------------------------- *)

Lemma xor_bytes_nil_r a : xor_bytes a [] = [].
Proof. destruct a; reflexivity. Qed.

Lemma xor_bytes_length a b : length (xor_bytes a b) = Nat.min (length a) (length b).
Proof.
  revert b. induction a as [|x a IH]; intros [|y b]; simpl; try reflexivity.
  rewrite IH. reflexivity.
Qed.

Lemma xor_bytes_invol a k : length a <= length k -> xor_bytes (xor_bytes a k) k = a.
Proof.
  revert k. induction a as [|x a IH]; intros [|y k] H; simpl in *; try reflexivity; try lia.
  rewrite IH by lia. f_equal.
  rewrite N.lxor_assoc, N.lxor_nilpotent, N.lxor_0_r. reflexivity.
Qed.

Lemma xor_bytes_zeros_r a n : length a <= n -> xor_bytes a (zeros n) = a.
Proof.
  revert n. induction a as [|x a IH]; intros [|n] H; simpl in *; try reflexivity; try lia.
  rewrite N.lxor_0_r. f_equal. apply IH. lia.
Qed.

Lemma xor_bytes_app a1 a2 b1 b2 :
  length a1 = length b1 -> xor_bytes (a1 ++ a2) (b1 ++ b2) = xor_bytes a1 b1 ++ xor_bytes a2 b2.
Proof.
  revert b1. induction a1 as [|x a1 IH]; intros [|y b1] H; simpl in *; try discriminate.
  - reflexivity.
  - f_equal. apply IH. lia.
Qed.

Lemma xor_bytes_comm a b : xor_bytes a b = xor_bytes b a.
Proof.
  revert b. induction a as [|x a IH]; intros [|y b]; simpl; try reflexivity.
  rewrite N.lxor_comm, IH. reflexivity.
Qed.

(* ------------------------------------------------------------------------- *)
(* N_to_le / N_to_be lengths                                                  *)
(* ------------------------------------------------------------------------- *)

Lemma N_to_le_length n x : length (N_to_le n x) = n.
Proof. revert x. induction n; intros x; simpl; [reflexivity|]. rewrite IHn. reflexivity. Qed.

Lemma N_to_be_length n x : length (N_to_be n x) = n.
Proof. unfold N_to_be. rewrite rev_length. apply N_to_le_length. Qed.

(* ------------------------------------------------------------------------- *)
(* chunks                                                                     *)
(* ------------------------------------------------------------------------- *)

Lemma chunks_fuel_indep n f1 : forall f2 l, 0 < n -> length l <= f1 -> length l <= f2 ->
  chunks_fuel f1 n l = chunks_fuel f2 n l.
Proof.
  induction f1 as [|f1 IH]; intros f2 l Hn H1 H2.
  - destruct l; simpl in H1; [|lia]. destruct f2; reflexivity.
  - destruct l as [|x l].
    + destruct f2; reflexivity.
    + destruct f2 as [|f2]; simpl in H2; [lia|].
      cbn [chunks_fuel]. f_equal. apply IH; try assumption.
      * rewrite skipn_length. cbn [length] in *. lia.
      * rewrite skipn_length. cbn [length] in *. lia.
Qed.

Lemma chunks_nil n : chunks n [] = [].
Proof. reflexivity. Qed.

Lemma chunks_cons n l : 0 < n -> l <> [] -> chunks n l = firstn n l :: chunks n (skipn n l).
Proof.
  intros Hn Hl. unfold chunks. destruct l as [|x l]; [congruence|].
  cbn [length chunks_fuel]. f_equal. apply chunks_fuel_indep; try assumption.
  - rewrite skipn_length. cbn [length]. lia.
  - lia.
Qed.

Lemma chunks_app_block n b r : 0 < n -> length b = n -> chunks n (b ++ r) = b :: chunks n r.
Proof.
  intros Hn Hb. rewrite chunks_cons; try assumption.
  - rewrite firstn_app_l, skipn_app_l by (symmetry; assumption). reflexivity.
  - destruct b; simpl in *; [lia|discriminate].
Qed.

Lemma chunks_small n l : l <> [] -> length l <= n -> chunks n l = [l].
Proof.
  intros Hl Hn. assert (0 < n) by (destruct l; simpl in *; [congruence|lia]).
  rewrite chunks_cons by assumption.
  rewrite firstn_ge_all, skipn_ge_nil by assumption. reflexivity.
Qed.

Lemma chunks_app_blocks n : forall q a b, 0 < n -> length a = q * n ->
  chunks n (a ++ b) = chunks n a ++ chunks n b.
Proof.
  induction q as [|q IH]; intros a b Hn Ha.
  - apply length_zero_nil in Ha. subst a. reflexivity.
  - assert (Hf : length (firstn n a) = n) by (apply firstn_length_le; lia).
    assert (Hr : length (skipn n a) = q * n) by (rewrite skipn_length; lia).
    pose proof (list_split_at a n) as E.
    remember (firstn n a) as blk. remember (skipn n a) as rest.
    clear Heqblk Heqrest Ha. subst a. rewrite <- app_assoc.
    rewrite (chunks_app_block n blk (rest ++ b)), (chunks_app_block n blk rest) by assumption.
    cbn [app]. f_equal. apply IH; assumption.
Qed.

(* strong induction on a list by chunks of n *)
Lemma chunk_induction n (P : bytes -> Prop) : 0 < n ->
  P [] -> (forall l, l <> [] -> P (skipn n l) -> P l) -> forall l, P l.
Proof.
  intros Hn H0 Hs l.
  assert (forall k l, length l <= k -> P l) as H.
  { induction k as [|k IH]; intros l' Hl.
    - destruct l'; simpl in Hl; [assumption|lia].
    - destruct l' as [|x l']; [assumption|]. apply Hs; [discriminate|].
      apply IH. rewrite skipn_length. cbn [length] in *. lia. }
  apply (H (length l)). lia.
Qed.

Lemma chunks_concat n l : 0 < n -> concat (chunks n l) = l.
Proof.
  intros Hn. revert l. apply (chunk_induction n); [assumption| |].
  - reflexivity.
  - intros l Hl IHl. rewrite chunks_cons by assumption. cbn [concat]. rewrite IHl.
    apply firstn_skipn.
Qed.

(* the blocks of a string whose length is a multiple of n all have length n *)
Lemma chunks_Forall_length n l k : 0 < n -> length l = k * n ->
  Forall (fun c => length c = n) (chunks n l).
Proof.
  intros Hn. revert l. induction k as [|k IH]; intros l Hl.
  - simpl in Hl. apply length_zero_nil in Hl. subst. constructor.
  - rewrite chunks_cons; try assumption.
    + constructor.
      * apply firstn_length_le. lia.
      * apply IH. rewrite skipn_length. lia.
    + destruct l; simpl in *; [lia|discriminate].
Qed.

(* ------------------------------------------------------------------------- *)
(* write_at (Struct/MemOps.v): a store of [data] at byte offset [off] in [mem]  *)
(* ------------------------------------------------------------------------- *)

Lemma write_at_length off data mem :
  off + length data <= length mem -> length (write_at off data mem) = length mem.
Proof.
  intros H. unfold write_at. rewrite !app_length, firstn_length_le, skipn_length by lia. lia.
Qed.

(* writing exactly over the middle part of a three-part string *)
Lemma write_at_middle a b c data off :
  off = length a -> length data = length b ->
  write_at off data (a ++ b ++ c) = a ++ data ++ c.
Proof.
  intros -> Hd. unfold write_at. rewrite firstn_app_l by reflexivity.
  f_equal. f_equal. rewrite (Nat.add_comm (length a)), <- skipn_skipn.
  rewrite skipn_app_l by reflexivity.
  rewrite Hd. apply skipn_app_l. reflexivity.
Qed.

Lemma write_at_0 data b c : length data = length b -> write_at 0 data (b ++ c) = data ++ c.
Proof. intros H. apply (write_at_middle [] b c data 0); [reflexivity|assumption]. Qed.
