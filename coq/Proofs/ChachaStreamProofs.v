(* Proofs/ChachaStreamProofs.v — C10 for ChaCha20-Poly1305: the context invariant and the
   partition-invariance theorems for the model Struct/ChachaStream.v, generic in the block
   primitives (Section), then instantiated with Spec. *)
From Coq Require Import List NArith Bool Lia Arith ZArith ZifyN ZifyNat ZifyBool.
From IMB Require Import Lib.Bytes Spec.ChaCha20 Spec.Poly1305 Spec.ChaChaPoly
     Struct.ChachaStream Proofs.StreamLemmas.
Import ListNotations.
Ltac Zify.zify_post_hook ::= Z.div_mod_to_equations.

(* ---------- small arithmetic facts ---------- *)
Local Open Scope N_scope.

Lemma sub64_small : forall a b, b <= a -> a < 2 ^ 64 -> sub64 a b = a - b.
Proof.
  intros a b Hb Ha. unfold sub64. rewrite !w64_mod.
  change 18446744073709551616 with (2 ^ 64).
  rewrite (N.mod_small a) by assumption. rewrite (N.mod_small b) by lia.
  replace (a + (2 ^ 64 - b)) with ((a - b) + 1 * 2 ^ 64) by lia.
  rewrite N.mod_add by (compute; discriminate). apply N.mod_small. lia.
Qed.

Lemma len64_app : forall a b, len64 (a ++ b) = len64 a + len64 b.
Proof. intros. unfold len64. rewrite app_length. lia. Qed.

Lemma mult16_add : forall a b, mult16 a -> mult16 b -> mult16 (a + b).
Proof. intros a b [k Hk] [j Hj]. exists (k + j)%nat. lia. Qed.

Lemma mult16_0 : mult16 0.
Proof. exists 0%nat. reflexivity. Qed.

(* frames: which fields a function leaves alone *)
Definition same_ks (a b : cctx) : Prop :=
  c_last_ks b = c_last_ks a /\ c_lbc b = c_lbc a /\ c_rks b = c_rks a /\ c_iv b = c_iv a.
Definition same_poly (a b : cctx) : Prop :=
  c_hash b = c_hash a /\ c_scratch b = c_scratch a /\ c_rct b = c_rct a /\
  c_poly_key b = c_poly_key a /\ c_aad_len b = c_aad_len a /\ c_hash_len b = c_hash_len a.

Section Generic.
  Variable ksblock : bytes -> bytes -> N -> bytes.
  Variable pblock : bytes -> N -> bytes -> N.
  Variable pfinish : bytes -> N -> bytes.
  Variable pkey_gen : bytes -> bytes -> bytes.
  Hypothesis ks_len : forall k iv c, length (ksblock k iv c) = 64%nat.

  Notation enc_dec_ks := (enc_dec_ks ksblock).
  Notation paead_update := (paead_update pblock).
  Notation paead_update_ctx := (paead_update_ctx pblock).
  Notation update_hash_part := (update_hash_part pblock).
  Notation update_direct := (update_direct ksblock pblock).
  Notation init_direct := (init_direct pblock pkey_gen).
  Notation finalize_direct := (finalize_direct pblock pfinish).
  Notation finish_tag := (finish_tag pblock pfinish).
  Notation job_init := (job_init ksblock pblock pkey_gen).
  Notation job_complete := (job_complete ksblock pblock pfinish).
  Notation complete_hash_part := (complete_hash_part pblock).
  Notation update_all := (update_all ksblock pblock).
  Notation aead_sgl := (aead_sgl ksblock pblock pfinish pkey_gen).
  Notation run_direct := (run_direct ksblock pblock pfinish pkey_gen).
  Notation run_job_all := (run_job_all ksblock pblock pfinish pkey_gen).
  Notation run_job_iuc := (run_job_iuc ksblock pblock pfinish pkey_gen).
  Notation job_updates := (job_updates ksblock pblock pfinish pkey_gen).

  (* ---------- Poly1305 accumulation over concatenations ---------- *)

  Lemma pupd_nil : forall pk h, paead_update pk h [] = h.
  Proof. reflexivity. Qed.

  Lemma pupd_app : forall pk h a b, mult16 (length a) ->
    paead_update pk (paead_update pk h a) b = paead_update pk h (a ++ b).
  Proof.
    intros pk h a b [k Hk]. unfold ChachaStream.paead_update.
    rewrite (chunks_app 16 a b k) by (auto; lia). rewrite fold_left_app. reflexivity.
  Qed.

  (* ---------- key stream: the model of chacha20_enc_dec_ks simulates the byte-level stream ---------- *)
  Variable key : bytes.
  Variable iv : bytes.
  Let iv12 := firstn 12 iv.
  Let blk (c : N) : bytes := ksblock key iv12 c.
  Let nxt (c : N) : N := c + 1.

  Lemma blk_len : forall c, length (blk c) = 64%nat.
  Proof. intro. apply ks_len. Qed.

  Notation ref := (ref blk nxt).
  Notation ref_out := (ref_out blk nxt).
  Notation ref_st := (ref_st blk nxt).

  Lemma ks_chunks_str : forall cs c,
    ks_chunks ksblock key iv12 c cs = str_chunks blk nxt c cs.
  Proof. induction cs; intros c; simpl; [reflexivity|]. rewrite IHcs. reflexivity. Qed.

  Lemma iter_nxt_add : forall n c, iter_nxt nxt n c = c + N.of_nat n.
  Proof.
    induction n; intros c; [simpl; lia|].
    rewrite iter_nxt_S, IHn. unfold nxt. lia.
  Qed.

  (* the context's key-stream fields represent the stream state (c, buf) *)
  Definition ks_rel (ctx : cctx) (st : N * bytes) : Prop :=
    c_iv ctx = iv12 /\ c_lbc ctx = fst st /\ c_rks ctx = N.of_nat (length (snd st)) /\
    (length (snd st) < 64)%nat /\
    (snd st <> [] -> snd st = skipn (64 - length (snd st)) (c_last_ks ctx)).

  Lemma enc_dec_ks_frame : forall ctx src, same_poly ctx (fst (enc_dec_ks key ctx src)).
  Proof.
    intros ctx src. unfold ChachaStream.enc_dec_ks.
    destruct src as [|x t]; [cbn; repeat split|].
    destruct (skipn _ (x :: t)); [cbn; repeat split|].
    destruct (Nat.ltb _ 64); cbn; repeat split.
  Qed.

  Lemma enc_dec_ks_sim : forall ctx st src, ks_rel ctx st ->
    snd (enc_dec_ks key ctx src) = ref_out (fst st) (snd st) src /\
    ks_rel (fst (enc_dec_ks key ctx src)) (ref_st (fst st) (snd st) src).
  Proof.
    intros ctx [c buf] src (Hiv & Hc & Hr & Hlt & Hb). cbn [fst snd] in *.
    unfold ref_out, ref_st. rewrite <- (carry_step_ref 64 ltac:(lia) blk blk_len nxt).
    unfold ChachaStream.enc_dec_ks, carry_step.
    destruct src as [|x t].
    { cbn. repeat split; try assumption. }
    rewrite Hr, Nat2N.id.
    set (src := x :: t). set (n := Nat.min (length src) (length buf)).
    assert (Hprev : xor_bytes (firstn n src) (skipn (64 - length buf) (c_last_ks ctx)) =
                    xor_bytes (firstn n src) buf).
    { destruct buf as [|b0 buf0].
      - subst n. rewrite Nat.min_0_r. reflexivity.
      - rewrite <- Hb by discriminate. reflexivity. }
    rewrite Hprev.
    destruct (skipn n src) as [|y r] eqn:Es.
    - cbn [fst snd]. split; [reflexivity|].
      unfold ks_rel. cbn [c_iv c_lbc c_rks c_last_ks set_rks fst snd].
      assert (Hn : (n <= length buf)%nat) by (subst n; lia).
      rewrite skipn_length.
      repeat split; try assumption; try lia.
      intros Hne.
      assert (buf <> []) by (intro E; rewrite E, skipn_nil in Hne; congruence).
      rewrite (Hb H) at 1. rewrite skipn_skipn_add. f_equal. lia.
    - set (cs := chunks 64 (y :: r)).
      destruct (chunks_last 64 ltac:(lia) (y :: r) ltac:(discriminate)) as [Hlne Hlle].
      fold cs in Hlne, Hlle.
      assert (Hlpos : (0 < length (last cs []))%nat) by (destruct (last cs []); [congruence|simpl; lia]).
      rewrite Hiv, Hc. rewrite ks_chunks_str.
      rewrite iter_nxt_add.
      cbn [fst snd]. split.
      { destruct (Nat.ltb (length (last cs [])) 64); reflexivity. }
      unfold ks_rel.
      destruct (Nat.ltb_spec (length (last cs [])) 64) as [Hlt64|Hge64];
        cbn [c_iv c_lbc c_rks c_last_ks set_rks set_lbc set_last_ks fst snd];
        rewrite skipn_length, blk_len.
      + repeat split; try assumption; try lia.
        intros _. fold (blk (c + N.of_nat (length cs))). f_equal. lia.
      + repeat split; try assumption; try lia.
        intros Hne. exfalso. apply Hne. apply skipn_all2. rewrite blk_len. lia.
  Qed.

  (* ---------- the Poly1305 side ---------- *)
  Variable aad : bytes.
  Let pk := pkey_gen key iv.
  Let h0 := paead_update pk 0 aad.

  Definition poly_core (ctx : cctx) (ct : bytes) : Prop :=
    c_poly_key ctx = pk /\ length (c_scratch ctx) = 16%nat /\
    exists cw cr,
      ct = cw ++ cr /\ mult16 (length cw) /\ (length cr < 16)%nat /\
      c_rct ctx = len64 cr /\ firstn (length cr) (c_scratch ctx) = cr /\
      c_hash ctx = paead_update pk h0 cw.

  Lemma write_at_length : forall buf off data, (off + length data <= length buf)%nat ->
    length (write_at buf off data) = length buf.
  Proof.
    intros. unfold write_at. rewrite !app_length, firstn_length, skipn_length. lia.
  Qed.

  Lemma write_at_prefix : forall buf off data, (off <= length buf)%nat ->
    firstn (off + length data) (write_at buf off data) = firstn off buf ++ data.
  Proof.
    intros. unfold write_at. rewrite app_assoc.
    apply firstn_app_exact. rewrite app_length, firstn_length. lia.
  Qed.

  Lemma write_at_nil : forall buf off, write_at buf off [] = buf.
  Proof. intros. unfold write_at. cbn [app length]. rewrite Nat.add_0_r. apply firstn_skipn. Qed.

  (* lengths of the aligned part and the tail of a 64-bit length *)
  Lemma clamp_nat : forall (D : bytes), N.of_nat (length D) < 2 ^ 64 ->
    N.to_nat (N.land (len64 D) HASH_LEN_CLAMP) = (16 * (length D / 16))%nat /\
    N.to_nat (N.land (len64 D) HASH_REMAIN_CLAMP) = (length D mod 16)%nat /\
    N.land (len64 D) HASH_REMAIN_CLAMP = N.of_nat (length D mod 16).
  Proof.
    intros D HD. unfold HASH_LEN_CLAMP, HASH_REMAIN_CLAMP, len64.
    rewrite land_clamp by assumption. rewrite land15_mod.
    repeat split; lia.
  Qed.

  (* the part of update_chacha20_poly1305_direct after the scratch pad has been dealt with:
     remain_ct_bytes = 0, absorb whole blocks of [D], park the tail in the scratch pad *)
  Lemma absorb_aligned : forall ctx D cw,
    c_poly_key ctx = pk -> length (c_scratch ctx) = 16%nat -> c_rct ctx = 0 ->
    mult16 (length cw) -> c_hash ctx = paead_update pk h0 cw ->
    N.of_nat (length D) < 2 ^ 64 ->
    let length_ := N.land (len64 D) HASH_LEN_CLAMP in
    let remain := N.land (len64 D) HASH_REMAIN_CLAMP in
    let ctx1 := paead_update_ctx ctx (firstn (N.to_nat length_) D) in
    let ctx2 := set_scratch ctx1 (write_at (c_scratch ctx1) 0 (firstn (N.to_nat remain) (skipn (N.to_nat length_) D))) in
    poly_core (set_rct ctx2 (c_rct ctx2 + remain)) (cw ++ D).
  Proof.
    intros ctx D cw Hpk Hs Hr Hcw Hh HD.
    destruct (clamp_nat D HD) as (E1 & E2 & E3).
    cbv zeta. rewrite E1, E2, E3.
    set (a := (16 * (length D / 16))%nat).
    assert (Ha : (a <= length D)%nat) by (subst a; pose proof (Nat.div_mod (length D) 16); lia).
    assert (Hsk : length (skipn a D) = (length D mod 16)%nat).
    { rewrite skipn_length. subst a. pose proof (Nat.div_mod (length D) 16). lia. }
    assert (Hm : (length D mod 16 < 16)%nat) by (apply Nat.mod_upper_bound; lia).
    rewrite (firstn_all2 (skipn a D)) by lia.
    unfold poly_core, ChachaStream.paead_update_ctx.
    cbn [c_poly_key c_scratch c_rct c_hash set_rct set_scratch set_hash].
    split; [assumption|]. split.
    { rewrite write_at_length; [assumption|]. simpl. lia. }
    exists (cw ++ firstn a D), (skipn a D).
    split. { rewrite <- app_assoc, firstn_skipn. reflexivity. }
    split. { rewrite app_length. apply mult16_add; [assumption|].
             rewrite firstn_length. exists (length D / 16)%nat. subst a. lia. }
    split. { lia. }
    split. { rewrite Hr. unfold len64. rewrite Hsk. lia. }
    split. { pose proof (write_at_prefix (c_scratch ctx) 0 (skipn a D) ltac:(lia)) as W.
             simpl in W. exact W. }
    rewrite Hh, Hpk. apply pupd_app. assumption.
  Qed.

  Lemma update_hash_part_frame : forall ctx ct len btc,
    same_ks ctx (update_hash_part ctx ct len btc) /\
    c_poly_key (update_hash_part ctx ct len btc) = c_poly_key ctx /\
    c_aad_len (update_hash_part ctx ct len btc) = c_aad_len ctx /\
    c_hash_len (update_hash_part ctx ct len btc) = c_hash_len ctx.
  Proof.
    intros. unfold ChachaStream.update_hash_part, same_ks, ChachaStream.paead_update_ctx.
    cbn [c_rct set_rct set_scratch].
    destruct (_ =? 16); cbn; repeat split.
  Qed.

  (* bytes_to_copy as computed on entry of update / complete *)
  Definition btc_of (rct len : N) : N :=
    let fill := sub64 16 rct in
    if (0 <? rct) && (0 <? fill) then (if len <? fill then len else fill) else 0.

  Lemma btc_of_spec : forall rct len, rct < 16 ->
    btc_of rct len = if rct =? 0 then 0 else N.min len (16 - rct).
  Proof.
    intros rct len H. unfold btc_of. rewrite sub64_small by (try lia; reflexivity).
    destruct (N.eqb_spec rct 0) as [->|Hn]; [reflexivity|].
    replace (0 <? rct) with true by (symmetry; apply N.ltb_lt; lia).
    replace (0 <? 16 - rct) with true by (symmetry; apply N.ltb_lt; lia).
    cbn [andb]. destruct (N.ltb_spec len (16 - rct)); lia.
  Qed.

  Lemma update_hash_part_core : forall ctx ct D,
    poly_core ctx ct -> N.of_nat (length D) < 2 ^ 64 ->
    poly_core (update_hash_part ctx D (len64 D) (btc_of (c_rct ctx) (len64 D))) (ct ++ D).
  Proof.
    intros ctx ct D (Hpk & Hs & cw & cr & Hct & Hcw & Hcr & Hrct & Hscr & Hh) HD.
    assert (Hr16 : c_rct ctx < 16) by (rewrite Hrct; unfold len64; lia).
    rewrite btc_of_spec by assumption.
    unfold ChachaStream.update_hash_part.
    destruct (N.eqb_spec (c_rct ctx) 0) as [Hz|Hnz].
    - (* nothing pending in the scratch pad *)
      assert (cr = []) by (destruct cr; [reflexivity| rewrite Hz in Hrct; unfold len64 in Hrct; simpl in Hrct; lia]).
      subst cr. rewrite app_nil_r in Hct. subst ct.
      rewrite Hz. cbn [N.to_nat firstn]. rewrite write_at_nil.
      cbn [c_rct set_rct set_scratch c_scratch]. rewrite N.add_0_r, Hz. cbn [N.eqb].
      rewrite N.sub_0_r. cbn [N.to_nat skipn]. rewrite N.add_0_l.
      replace (set_rct (set_scratch ctx (c_scratch ctx)) 0) with ctx
        by (destruct ctx; cbn in *; subst; reflexivity).
      apply absorb_aligned; assumption.
    - (* scratch pad holds cr, 0 < |cr| < 16 *)
      set (rct := c_rct ctx) in *.
      set (btc := N.min (len64 D) (16 - rct)).
      assert (Hbtc : N.to_nat btc = Nat.min (length D) (16 - length cr)).
      { subst btc. rewrite Hrct. unfold len64. lia. }
      cbn [c_rct set_rct set_scratch c_scratch].
      set (scr1 := write_at (c_scratch ctx) (N.to_nat rct) (firstn (N.to_nat btc) D)).
      assert (Hrn : N.to_nat rct = length cr) by (rewrite Hrct; unfold len64; lia).
      assert (Hfl : length (firstn (N.to_nat btc) D) = N.to_nat btc).
      { rewrite firstn_length, Hbtc. lia. }
      assert (Hs1 : length scr1 = 16%nat).
      { subst scr1. rewrite write_at_length; [assumption|]. rewrite Hfl, Hrn, Hbtc, Hs. lia. }
      assert (Hp1 : firstn (length cr + N.to_nat btc) scr1 = cr ++ firstn (N.to_nat btc) D).
      { subst scr1. rewrite Hrn. rewrite <- Hfl at 1. rewrite write_at_prefix by lia.
        rewrite Hscr. reflexivity. }
      destruct (N.eqb_spec (rct + btc) 16) as [Hfull|Hnot].
      + (* the scratch pad fills up: absorb it, then continue aligned *)
        assert (Hb16 : (length cr + N.to_nat btc = 16)%nat) by lia.
        assert (HbD : (N.to_nat btc <= length D)%nat) by lia.
        unfold ChachaStream.paead_update_ctx at 2.
        cbn [c_rct set_rct set_scratch c_scratch set_hash c_poly_key c_hash].
        rewrite <- Hb16, Hp1.
        set (ctxa := set_rct (set_hash (set_rct (set_scratch ctx scr1) (rct + btc))
                                       (paead_update (c_poly_key ctx) (c_hash ctx) (cr ++ firstn (N.to_nat btc) D))) 0).
        rewrite <- (firstn_skipn (N.to_nat btc) D) at 7.
        rewrite Hct, <- app_assoc, (app_assoc cr), (app_assoc cw).
        replace (len64 D - btc) with (len64 (skipn (N.to_nat btc) D))
          by (unfold len64; rewrite skipn_length; lia).
        replace (skipn (N.to_nat (btc + N.land (len64 (skipn (N.to_nat btc) D)) HASH_LEN_CLAMP)) D)
          with (skipn (N.to_nat (N.land (len64 (skipn (N.to_nat btc) D)) HASH_LEN_CLAMP)) (skipn (N.to_nat btc) D))
          by (rewrite skipn_skipn_add; f_equal; lia).
        apply (absorb_aligned ctxa (skipn (N.to_nat btc) D) (cw ++ (cr ++ firstn (N.to_nat btc) D))).
        * subst ctxa. cbn. assumption.
        * subst ctxa. cbn. assumption.
        * reflexivity.
        * rewrite !app_length, Hfl. apply mult16_add; [assumption|]. exists 1%nat. lia.
        * subst ctxa. cbn [c_hash set_rct set_hash]. rewrite Hh, Hpk. apply pupd_app. assumption.
        * rewrite skipn_length. lia.
      + (* still not full: the whole segment went into the scratch pad *)
        assert (Hall : N.to_nat btc = length D) by lia.
        assert (Hlt : (length cr + length D < 16)%nat) by lia.
        rewrite Hall, firstn_all in *.
        replace (len64 D - btc) with 0 by (unfold len64; lia).
        cbn [N.land N.to_nat firstn].
        rewrite skipn_all2 by lia. rewrite skipn_nil.
        unfold write_at at 1. cbn [firstn app length Nat.add skipn].
        unfold ChachaStream.paead_update_ctx.
        cbn [c_rct set_rct set_scratch c_scratch set_hash c_poly_key c_hash].
        rewrite pupd_nil, N.add_0_r.
        unfold poly_core. cbn [c_poly_key c_scratch c_rct c_hash set_rct set_scratch set_hash].
        split; [assumption|]. split; [assumption|].
        exists cw, (cr ++ D).
        split. { rewrite Hct, app_assoc. reflexivity. }
        split; [assumption|]. split. { rewrite app_length. lia. }
        split. { rewrite Hrct, len64_app. unfold len64 in *. lia. }
        split. { rewrite app_length, <- Hall. exact Hp1. }
        assumption.
  Qed.
End Generic.
