(* Proofs/ChachaStreamProofs.v — C10 for ChaCha20-Poly1305: the context invariant and the
   partition-invariance theorems for the model Struct/ChachaStream.v, generic in the block
   primitives (Section), then instantiated with Spec. *)
From Coq Require Import List NArith Bool Lia Arith ZArith ZifyN ZifyNat ZifyBool.
From IMB Require Import Lib.Bytes Spec.ChaCha20 Spec.Poly1305 Spec.ChaChaPoly
     Struct.ChachaStream Proofs.StreamLemmas.
Import ListNotations.
Ltac Zify.zify_post_hook ::= Z.div_mod_to_equations.

(* ---------- small arithmetic facts ---------- *)
Local Open Scope N_scope.

Lemma sub64_small : forall a b, b <= a -> a < 2 ^ 64 -> sub64 a b = a - b.
Proof.
  intros a b Hb Ha. unfold sub64. rewrite !w64_mod.
  change 18446744073709551616 with (2 ^ 64).
  rewrite (N.mod_small a) by assumption. rewrite (N.mod_small b) by lia.
  replace (a + (2 ^ 64 - b)) with ((a - b) + 1 * 2 ^ 64) by lia.
  rewrite N.mod_add by (compute; discriminate). apply N.mod_small. lia.
Qed.

Lemma len64_app : forall a b, len64 (a ++ b) = len64 a + len64 b.
Proof. intros. unfold len64. rewrite app_length. lia. Qed.

Lemma mult16_add : forall a b, mult16 a -> mult16 b -> mult16 (a + b).
Proof. intros a b [k Hk] [j Hj]. exists (k + j)%nat. lia. Qed.

Lemma mult16_0 : mult16 0.
Proof. exists 0%nat. reflexivity. Qed.

(* frames: which fields a function leaves alone *)
Definition same_ks (a b : cctx) : Prop :=
  c_last_ks b = c_last_ks a /\ c_lbc b = c_lbc a /\ c_rks b = c_rks a /\ c_iv b = c_iv a.
Definition same_poly (a b : cctx) : Prop :=
  c_hash b = c_hash a /\ c_scratch b = c_scratch a /\ c_rct b = c_rct a /\
  c_poly_key b = c_poly_key a /\ c_aad_len b = c_aad_len a /\ c_hash_len b = c_hash_len a.

Section Generic.
  Variable ksblock : bytes -> bytes -> N -> bytes.
  Variable pblock : bytes -> N -> bytes -> N.
  Variable pfinish : bytes -> N -> bytes.
  Variable pkey_gen : bytes -> bytes -> bytes.
  Hypothesis ks_len : forall k iv c, length (ksblock k iv c) = 64%nat.

  Notation enc_dec_ks := (enc_dec_ks ksblock).
  Notation paead_update := (paead_update pblock).
  Notation paead_update_ctx := (paead_update_ctx pblock).
  Notation update_hash_part := (update_hash_part pblock).
  Notation update_direct := (update_direct ksblock pblock).
  Notation init_direct := (init_direct pblock pkey_gen).
  Notation finalize_direct := (finalize_direct pblock pfinish).
  Notation finish_tag := (finish_tag pblock pfinish).
  Notation job_init := (job_init ksblock pblock pkey_gen).
  Notation job_complete := (job_complete ksblock pblock pfinish).
  Notation complete_hash_part := (complete_hash_part pblock).
  Notation update_all := (update_all ksblock pblock).
  Notation aead_sgl := (aead_sgl ksblock pblock pfinish pkey_gen).
  Notation run_direct := (run_direct ksblock pblock pfinish pkey_gen).
  Notation run_job_all := (run_job_all ksblock pblock pfinish pkey_gen).
  Notation run_job_iuc := (run_job_iuc ksblock pblock pfinish pkey_gen).
  Notation job_updates := (job_updates ksblock pblock pfinish pkey_gen).

  (* ---------- Poly1305 accumulation over concatenations ---------- *)

  Lemma pupd_nil : forall pk h, paead_update pk h [] = h.
  Proof. reflexivity. Qed.

  Lemma pupd_app : forall pk h a b, mult16 (length a) ->
    paead_update pk (paead_update pk h a) b = paead_update pk h (a ++ b).
  Proof.
    intros pk h a b [k Hk]. unfold ChachaStream.paead_update.
    rewrite (chunks_app 16 a b k) by (auto; lia). rewrite fold_left_app. reflexivity.
  Qed.

  (* ---------- key stream: the model of chacha20_enc_dec_ks simulates the byte-level stream ---------- *)
  Variable key : bytes.
  Variable iv : bytes.
  Let iv12 := firstn 12 iv.
  Let blk (c : N) : bytes := ksblock key iv12 c.
  Let nxt (c : N) : N := c + 1.

  Lemma blk_len : forall c, length (blk c) = 64%nat.
  Proof. intro. apply ks_len. Qed.

  Notation ref := (ref blk nxt).
  Notation ref_out := (ref_out blk nxt).
  Notation ref_st := (ref_st blk nxt).
  Lemma lt64 : (0 < 64)%nat. Proof. lia. Qed.
  Definition ref_app64 := ref_app 64 lt64 blk blk_len nxt.

  Lemma ks_chunks_str : forall cs c,
    ks_chunks ksblock key iv12 c cs = str_chunks blk nxt c cs.
  Proof. induction cs; intros c; simpl; [reflexivity|]. rewrite IHcs. reflexivity. Qed.

  Lemma iter_nxt_add : forall n c, iter_nxt nxt n c = c + N.of_nat n.
  Proof.
    induction n; intros c; [simpl; lia|].
    rewrite iter_nxt_S, IHn. unfold nxt. lia.
  Qed.

  (* the context's key-stream fields represent the stream state (c, buf) *)
  Definition ks_rel (ctx : cctx) (st : N * bytes) : Prop :=
    c_iv ctx = iv12 /\ c_lbc ctx = fst st /\ c_rks ctx = N.of_nat (length (snd st)) /\
    (length (snd st) < 64)%nat /\
    (snd st <> [] -> c_last_ks ctx = blk (fst st)) /\
    (snd st <> [] -> snd st = skipn (64 - length (snd st)) (blk (fst st))).

  Lemma enc_dec_ks_frame : forall ctx src, same_poly ctx (fst (enc_dec_ks key ctx src)).
  Proof.
    intros ctx src. unfold ChachaStream.enc_dec_ks.
    destruct src as [|x t]; [cbn; repeat split|].
    destruct (skipn _ (x :: t)); [cbn; repeat split|].
    destruct (Nat.ltb _ 64); cbn; repeat split.
  Qed.

  Lemma enc_dec_ks_sim : forall ctx st src, ks_rel ctx st ->
    snd (enc_dec_ks key ctx src) = ref_out (fst st) (snd st) src /\
    ks_rel (fst (enc_dec_ks key ctx src)) (ref_st (fst st) (snd st) src).
  Proof.
    intros ctx [c buf] src (Hiv & Hc & Hr & Hlt & Hk & Hb'). cbn [fst snd] in *.
    assert (Hb : buf <> [] -> buf = skipn (64 - length buf) (c_last_ks ctx))
      by (intro Hn; rewrite (Hk Hn); auto).
    unfold ref_out, ref_st. rewrite <- (carry_step_ref 64 ltac:(lia) blk blk_len nxt).
    unfold ChachaStream.enc_dec_ks, carry_step.
    destruct src as [|x t].
    { cbn. repeat split; try assumption. }
    rewrite Hr, Nat2N.id.
    set (src := x :: t). set (n := Nat.min (length src) (length buf)).
    assert (Hprev : xor_bytes (firstn n src) (skipn (64 - length buf) (c_last_ks ctx)) =
                    xor_bytes (firstn n src) buf).
    { destruct buf as [|b0 buf0].
      - subst n. rewrite Nat.min_0_r. reflexivity.
      - rewrite <- Hb by discriminate. reflexivity. }
    rewrite Hprev.
    destruct (skipn n src) as [|y r] eqn:Es.
    - cbn [fst snd]. split; [reflexivity|].
      unfold ks_rel. cbn [c_iv c_lbc c_rks c_last_ks set_rks fst snd].
      assert (Hn : (n <= length buf)%nat) by (subst n; lia).
      rewrite skipn_length.
      assert (Hbn : skipn n buf <> [] -> buf <> []) by (intros Hne E; rewrite E, skipn_nil in Hne; congruence).
      repeat split; try assumption; try lia.
      + intros Hne. apply Hk. auto.
      + intros Hne. rewrite (Hb' (Hbn Hne)) at 1. rewrite skipn_skipn_add. f_equal. lia.
    - set (cs := chunks 64 (y :: r)).
      destruct (chunks_last 64 ltac:(lia) (y :: r) ltac:(discriminate)) as [Hlne Hlle].
      fold cs in Hlne, Hlle.
      assert (Hlpos : (0 < length (last cs []))%nat) by (destruct (last cs []); [congruence|simpl; lia]).
      rewrite Hiv, Hc. rewrite ks_chunks_str.
      rewrite iter_nxt_add.
      cbn [fst snd]. split.
      { destruct (Nat.ltb (length (last cs [])) 64); reflexivity. }
      unfold ks_rel.
      destruct (Nat.ltb_spec (length (last cs [])) 64) as [Hlt64|Hge64];
        cbn [c_iv c_lbc c_rks c_last_ks set_rks set_lbc set_last_ks fst snd];
        rewrite skipn_length, blk_len.
      + repeat split; try assumption; try lia.
        all: intros _; try reflexivity; try (f_equal; lia).
      + assert (Hnil : skipn (length (last cs [])) (blk (c + N.of_nat (length cs))) = [])
          by (apply skipn_all2; rewrite blk_len; lia).
        repeat split; try assumption; try lia; intros Hne; exfalso; apply Hne; exact Hnil.
  Qed.

  (* ---------- the Poly1305 side ---------- *)
  Variable aad : bytes.
  Let pk := pkey_gen key iv.
  Let h0 := paead_update pk 0 aad.

  Definition poly_core (ctx : cctx) (ct : bytes) : Prop :=
    c_poly_key ctx = pk /\ length (c_scratch ctx) = 16%nat /\
    exists cw cr,
      ct = cw ++ cr /\ mult16 (length cw) /\ (length cr < 16)%nat /\
      c_rct ctx = len64 cr /\ firstn (length cr) (c_scratch ctx) = cr /\
      c_hash ctx = paead_update pk h0 cw.

  Lemma write_at_length : forall buf off data, (off + length data <= length buf)%nat ->
    length (write_at buf off data) = length buf.
  Proof.
    intros. unfold write_at. rewrite !app_length, firstn_length, skipn_length. lia.
  Qed.

  Lemma write_at_prefix : forall buf off data, (off <= length buf)%nat ->
    firstn (off + length data) (write_at buf off data) = firstn off buf ++ data.
  Proof.
    intros. unfold write_at. rewrite app_assoc.
    apply firstn_app_exact. rewrite app_length, firstn_length. lia.
  Qed.

  Lemma write_at_nil : forall buf off, write_at buf off [] = buf.
  Proof. intros. unfold write_at. cbn [app length]. rewrite Nat.add_0_r. apply firstn_skipn. Qed.

  (* lengths of the aligned part and the tail of a 64-bit length *)
  Lemma clamp_nat : forall (D : bytes), N.of_nat (length D) < 2 ^ 64 ->
    N.to_nat (N.land (len64 D) HASH_LEN_CLAMP) = (16 * (length D / 16))%nat /\
    N.to_nat (N.land (len64 D) HASH_REMAIN_CLAMP) = (length D mod 16)%nat /\
    N.land (len64 D) HASH_REMAIN_CLAMP = N.of_nat (length D mod 16).
  Proof.
    intros D HD. unfold HASH_LEN_CLAMP, HASH_REMAIN_CLAMP, len64.
    rewrite land_clamp by assumption. rewrite land15_mod.
    repeat split; lia.
  Qed.

  (* the part of update_chacha20_poly1305_direct after the scratch pad has been dealt with:
     remain_ct_bytes = 0, absorb whole blocks of [D], park the tail in the scratch pad *)
  Lemma absorb_aligned : forall ctx D cw,
    c_poly_key ctx = pk -> length (c_scratch ctx) = 16%nat -> c_rct ctx = 0 ->
    mult16 (length cw) -> c_hash ctx = paead_update pk h0 cw ->
    N.of_nat (length D) < 2 ^ 64 ->
    let length_ := N.land (len64 D) HASH_LEN_CLAMP in
    let remain := N.land (len64 D) HASH_REMAIN_CLAMP in
    let ctx1 := paead_update_ctx ctx (firstn (N.to_nat length_) D) in
    let ctx2 := set_scratch ctx1 (write_at (c_scratch ctx1) 0 (firstn (N.to_nat remain) (skipn (N.to_nat length_) D))) in
    poly_core (set_rct ctx2 (c_rct ctx2 + remain)) (cw ++ D).
  Proof.
    intros ctx D cw Hpk Hs Hr Hcw Hh HD.
    destruct (clamp_nat D HD) as (E1 & E2 & E3).
    cbv zeta. rewrite E1, E2, E3.
    set (a := (16 * (length D / 16))%nat).
    assert (Ha : (a <= length D)%nat) by (subst a; pose proof (Nat.div_mod (length D) 16); lia).
    assert (Hsk : length (skipn a D) = (length D mod 16)%nat).
    { rewrite skipn_length. subst a. pose proof (Nat.div_mod (length D) 16). lia. }
    assert (Hm : (length D mod 16 < 16)%nat) by (apply Nat.mod_upper_bound; lia).
    rewrite (firstn_all2 (skipn a D)) by lia.
    unfold poly_core, ChachaStream.paead_update_ctx.
    cbn [c_poly_key c_scratch c_rct c_hash set_rct set_scratch set_hash].
    split; [assumption|]. split.
    { rewrite write_at_length; [assumption|]. simpl. lia. }
    exists (cw ++ firstn a D), (skipn a D).
    split. { rewrite <- app_assoc, firstn_skipn. reflexivity. }
    split. { rewrite app_length. apply mult16_add; [assumption|].
             rewrite firstn_length. exists (length D / 16)%nat. subst a. lia. }
    split. { lia. }
    split. { rewrite Hr. unfold len64. rewrite Hsk. lia. }
    split. { pose proof (write_at_prefix (c_scratch ctx) 0 (skipn a D) ltac:(lia)) as W.
             simpl in W. exact W. }
    rewrite Hh, Hpk. apply pupd_app. assumption.
  Qed.

  Lemma update_hash_part_frame : forall ctx ct len btc,
    same_ks ctx (update_hash_part ctx ct len btc) /\
    c_poly_key (update_hash_part ctx ct len btc) = c_poly_key ctx /\
    c_aad_len (update_hash_part ctx ct len btc) = c_aad_len ctx /\
    c_hash_len (update_hash_part ctx ct len btc) = c_hash_len ctx.
  Proof.
    intros. unfold ChachaStream.update_hash_part, same_ks, ChachaStream.paead_update_ctx.
    cbn [c_rct set_rct set_scratch].
    destruct (_ =? 16); cbn; repeat split.
  Qed.

  (* bytes_to_copy as computed on entry of update / complete *)
  Definition btc_of (rct len : N) : N :=
    let fill := sub64 16 rct in
    if (0 <? rct) && (0 <? fill) then (if len <? fill then len else fill) else 0.

  Lemma btc_of_spec : forall rct len, rct < 16 ->
    btc_of rct len = if rct =? 0 then 0 else N.min len (16 - rct).
  Proof.
    intros rct len H. unfold btc_of. rewrite sub64_small by (try lia; reflexivity).
    destruct (N.eqb_spec rct 0) as [->|Hn]; [reflexivity|].
    replace (0 <? rct) with true by (symmetry; apply N.ltb_lt; lia).
    replace (0 <? 16 - rct) with true by (symmetry; apply N.ltb_lt; lia).
    cbn [andb]. destruct (N.ltb_spec len (16 - rct)); lia.
  Qed.

  (* update_hash_part = fill the scratch pad, then the aligned part *)
  Definition fill_part (ctx : cctx) (ct : bytes) (btc : N) : cctx :=
    let ctx := set_scratch ctx (write_at (c_scratch ctx) (N.to_nat (c_rct ctx))
                                         (firstn (N.to_nat btc) ct)) in
    let ctx := set_rct ctx (c_rct ctx + btc) in
    if c_rct ctx =? 16
    then set_rct (paead_update_ctx ctx (firstn 16 (c_scratch ctx))) 0
    else ctx.

  Definition tail_part (ctx : cctx) (ct : bytes) (length_ btc : N) : cctx :=
    let remain_ct_bytes := N.land length_ HASH_REMAIN_CLAMP in
    let length_ := N.land length_ HASH_LEN_CLAMP in
    let ctx := paead_update_ctx ctx (firstn (N.to_nat length_) (skipn (N.to_nat btc) ct)) in
    let remain_ct_ptr := skipn (N.to_nat (btc + length_)) ct in
    let ctx := set_scratch ctx (write_at (c_scratch ctx) 0 (firstn (N.to_nat remain_ct_bytes) remain_ct_ptr)) in
    set_rct ctx (c_rct ctx + remain_ct_bytes).

  Lemma uhp_split : forall ctx ct len btc,
    update_hash_part ctx ct len btc = tail_part (fill_part ctx ct btc) ct (len - btc) btc.
  Proof. reflexivity. Qed.

  Lemma tail_part_core : forall ctx ct btc cw,
    (N.to_nat btc <= length ct)%nat ->
    c_poly_key ctx = pk -> length (c_scratch ctx) = 16%nat -> c_rct ctx = 0 ->
    mult16 (length cw) -> c_hash ctx = paead_update pk h0 cw ->
    N.of_nat (length ct) < 2 ^ 64 ->
    poly_core (tail_part ctx ct (len64 ct - btc) btc) (cw ++ skipn (N.to_nat btc) ct).
  Proof.
    intros ctx ct btc cw Hb Hpk Hs Hr Hcw Hh HD.
    set (D := skipn (N.to_nat btc) ct).
    assert (HlD : length D = (length ct - N.to_nat btc)%nat) by (subst D; apply skipn_length).
    replace (len64 ct - btc) with (len64 D) by (unfold len64; lia).
    unfold tail_part.
    replace (skipn (N.to_nat (btc + N.land (len64 D) HASH_LEN_CLAMP)) ct)
      with (skipn (N.to_nat (N.land (len64 D) HASH_LEN_CLAMP)) D)
      by (subst D; rewrite skipn_skipn_add; f_equal; lia).
    apply absorb_aligned; try assumption. lia.
  Qed.

  Lemma fill_part_zero : forall ctx ct, c_rct ctx = 0 ->
    let c' := fill_part ctx ct 0 in
    c_poly_key c' = c_poly_key ctx /\ c_scratch c' = c_scratch ctx /\ c_rct c' = 0 /\ c_hash c' = c_hash ctx.
  Proof.
    intros ctx ct Hz. unfold fill_part. cbn [N.to_nat firstn]. rewrite write_at_nil.
    cbn [c_rct set_rct set_scratch]. rewrite Hz. cbn. repeat split.
  Qed.

  Lemma fill_part_full : forall ctx ct btc, c_rct ctx + btc = 16 ->
    let scr1 := write_at (c_scratch ctx) (N.to_nat (c_rct ctx)) (firstn (N.to_nat btc) ct) in
    let c' := fill_part ctx ct btc in
    c_poly_key c' = c_poly_key ctx /\ c_scratch c' = scr1 /\ c_rct c' = 0 /\
    c_hash c' = paead_update (c_poly_key ctx) (c_hash ctx) (firstn 16 scr1).
  Proof.
    intros ctx ct btc Hf. unfold fill_part. cbn [c_rct set_rct set_scratch]. rewrite Hf. cbn. repeat split.
  Qed.

  Lemma fill_part_partial : forall ctx ct btc, c_rct ctx + btc <> 16 ->
    let scr1 := write_at (c_scratch ctx) (N.to_nat (c_rct ctx)) (firstn (N.to_nat btc) ct) in
    let c' := fill_part ctx ct btc in
    c_poly_key c' = c_poly_key ctx /\ c_scratch c' = scr1 /\ c_rct c' = c_rct ctx + btc /\
    c_hash c' = c_hash ctx.
  Proof.
    intros ctx ct btc Hf. unfold fill_part. cbn [c_rct set_rct set_scratch].
    destruct (N.eqb_spec (c_rct ctx + btc) 16); [contradiction|]. cbn. repeat split.
  Qed.

  Lemma update_hash_part_core : forall ctx ct D,
    poly_core ctx ct -> N.of_nat (length D) < 2 ^ 64 ->
    poly_core (update_hash_part ctx D (len64 D) (btc_of (c_rct ctx) (len64 D))) (ct ++ D).
  Proof.
    intros ctx ct D (Hpk & Hs & cw & cr & Hct & Hcw & Hcr & Hrct & Hscr & Hh) HD.
    assert (Hr16 : c_rct ctx < 16) by (rewrite Hrct; unfold len64; lia).
    rewrite btc_of_spec by assumption. rewrite uhp_split.
    destruct (N.eqb_spec (c_rct ctx) 0) as [Hz|Hnz].
    - (* nothing pending in the scratch pad *)
      assert (cr = []) by (destruct cr; [reflexivity| rewrite Hz in Hrct; unfold len64 in Hrct; simpl in Hrct; lia]).
      subst cr. rewrite app_nil_r in Hct. subst ct.
      destruct (fill_part_zero ctx D Hz) as (F1 & F2 & F3 & F4).
      change D with (skipn (N.to_nat 0) D) at 3.
      apply tail_part_core; try assumption; try congruence. simpl; lia.
    - (* scratch pad holds cr, 0 < |cr| < 16 *)
      set (btc := N.min (len64 D) (16 - c_rct ctx)).
      assert (Hbtc : N.to_nat btc = Nat.min (length D) (16 - length cr)).
      { subst btc. rewrite Hrct. unfold len64. lia. }
      set (scr1 := write_at (c_scratch ctx) (N.to_nat (c_rct ctx)) (firstn (N.to_nat btc) D)).
      assert (Hrn : N.to_nat (c_rct ctx) = length cr) by (rewrite Hrct; unfold len64; lia).
      assert (Hfl : length (firstn (N.to_nat btc) D) = N.to_nat btc).
      { rewrite firstn_length, Hbtc. lia. }
      assert (Hs1 : length scr1 = 16%nat).
      { subst scr1. rewrite write_at_length; [assumption|]. rewrite Hfl, Hrn, Hbtc, Hs. lia. }
      assert (Hp1 : firstn (length cr + N.to_nat btc) scr1 = cr ++ firstn (N.to_nat btc) D).
      { subst scr1. rewrite Hrn. rewrite <- Hfl at 1. rewrite write_at_prefix by lia.
        rewrite Hscr. reflexivity. }
      destruct (N.eq_dec (c_rct ctx + btc) 16) as [Hfull|Hnot].
      + (* the scratch pad fills up: absorb it, then continue aligned *)
        assert (Hb16 : (length cr + N.to_nat btc = 16)%nat) by lia.
        assert (HbD : (N.to_nat btc <= length D)%nat) by lia.
        destruct (fill_part_full ctx D btc Hfull) as (F1 & F2 & F3 & F4).
        fold scr1 in F2, F4. rewrite <- Hb16, Hp1 in F4.
        replace (ct ++ D) with ((cw ++ (cr ++ firstn (N.to_nat btc) D)) ++ skipn (N.to_nat btc) D).
        2:{ rewrite Hct, <- !app_assoc. rewrite firstn_skipn. reflexivity. }
        apply tail_part_core; try assumption; try congruence.
        * rewrite !app_length, Hfl. apply mult16_add; [assumption|]. exists 1%nat. lia.
        * rewrite F4, Hh, Hpk. apply pupd_app. assumption.
      + (* still not full: the whole segment went into the scratch pad *)
        assert (Hall : N.to_nat btc = length D) by lia.
        assert (Hlt : (length cr + length D < 16)%nat) by lia.
        destruct (fill_part_partial ctx D btc Hnot) as (F1 & F2 & F3 & F4).
        fold scr1 in F2.
        rewrite Hall, firstn_all in Hp1.
        unfold tail_part.
        replace (len64 D - btc) with 0 by (unfold len64; lia).
        cbn [N.land N.to_nat firstn]. rewrite write_at_nil.
        unfold ChachaStream.paead_update_ctx.
        cbn [c_rct set_rct set_scratch c_scratch set_hash c_poly_key c_hash].
        rewrite pupd_nil, N.add_0_r.
        unfold poly_core. cbn [c_poly_key c_scratch c_rct c_hash set_rct set_scratch set_hash].
        rewrite F1, F2, F3, F4.
        split; [assumption|]. split; [assumption|].
        exists cw, (cr ++ D).
        split. { rewrite Hct, app_assoc. reflexivity. }
        split; [assumption|]. split. { rewrite app_length. lia. }
        split. { rewrite Hrct, len64_app. unfold len64 in *. lia. }
        split. { rewrite app_length. exact Hp1. }
        assumption.
  Qed.

  (* ---------- transport along frames ---------- *)
  Lemma ks_rel_same : forall a b st, same_ks a b -> ks_rel a st -> ks_rel b st.
  Proof.
    intros a b st (E1 & E2 & E3 & E4) (H1 & H2 & H3 & H4 & H5 & H6).
    unfold ks_rel. rewrite E1, E2, E3, E4. repeat split; assumption.
  Qed.

  Lemma poly_core_same : forall a b ct, same_poly a b -> poly_core a ct -> poly_core b ct.
  Proof.
    intros a b ct (E1 & E2 & E3 & E4 & E5 & E6) (H1 & H2 & cw & cr & H3).
    unfold poly_core. rewrite E1, E2, E3, E4. split; [assumption|]. split; [assumption|].
    exists cw, cr. exact H3.
  Qed.

  Lemma ref_out_length : forall msg c buf, length (ref_out c buf msg) = length msg.
  Proof.
    unfold StreamLemmas.ref_out.
    induction msg as [|m t IH]; intros c buf; [reflexivity|].
    cbn [StreamLemmas.ref].
    destruct buf as [|k0 b0].
    - destruct (blk_cons 64 ltac:(lia) blk blk_len (nxt c)) as (k & r & Hk). rewrite Hk.
      specialize (IH (nxt c) r). destruct (StreamLemmas.ref blk nxt (nxt c) r t). cbn in *. lia.
    - specialize (IH c b0). destruct (StreamLemmas.ref blk nxt c b0 t). cbn in *. lia.
  Qed.

  (* ---------- the invariant carried between calls ---------- *)
  Definition st_after (P : bytes) : N * bytes := ref_st 0 [] P.
  Definition ct_of (dir : cdir) (P : bytes) : bytes :=
    match dir with Enc => ref_out 0 [] P | Dec => P end.
  Definition out_of (P s : bytes) : bytes := ref_out (fst (st_after P)) (snd (st_after P)) s.

  Definition inv (dir : cdir) (ctx : cctx) (P : bytes) : Prop :=
    ks_rel ctx (st_after P) /\ poly_core ctx (ct_of dir P) /\
    c_hash_len ctx = len64 P /\ c_aad_len ctx = len64 aad.

  Lemma st_after_app : forall P s,
    st_after (P ++ s) = ref_st (fst (st_after P)) (snd (st_after P)) s.
  Proof. intros. unfold st_after, StreamLemmas.ref_st. rewrite ref_app64. reflexivity. Qed.

  Lemma ref_out_app : forall P s, ref_out 0 [] (P ++ s) = ref_out 0 [] P ++ out_of P s.
  Proof. intros. unfold out_of, st_after, StreamLemmas.ref_out at 1. rewrite ref_app64. reflexivity. Qed.

  Lemma ct_of_app : forall dir P s,
    ct_of dir (P ++ s) = ct_of dir P ++ match dir with Enc => out_of P s | Dec => s end.
  Proof. intros [] P s; cbn [ct_of]; [apply ref_out_app|reflexivity]. Qed.

  Lemma out_of_length : forall P s, length (out_of P s) = length s.
  Proof. intros. apply ref_out_length. Qed.

  Lemma update_direct_btc : forall ctx src dir,
    update_direct key ctx src dir =
    let btc := btc_of (c_rct ctx) (len64 src) in
    let ctx := set_hash_len ctx (c_hash_len ctx + len64 src) in
    match dir with
    | Enc => let '(ctx, dst) := enc_dec_ks key ctx src in
             (update_hash_part ctx dst (len64 src) btc, dst)
    | Dec => enc_dec_ks key (update_hash_part ctx src (len64 src) btc) src
    end.
  Proof. reflexivity. Qed.

  Lemma update_direct_inv : forall dir ctx P s,
    inv dir ctx P -> N.of_nat (length s) < 2 ^ 64 ->
    inv dir (fst (update_direct key ctx s dir)) (P ++ s) /\
    snd (update_direct key ctx s dir) = out_of P s.
  Proof.
    intros dir ctx P s (Hks & Hpc & Hhl & Hal) Hs.
    rewrite update_direct_btc. cbv zeta.
    set (ctx1 := set_hash_len ctx (c_hash_len ctx + len64 s)).
    assert (Hks1 : ks_rel ctx1 (st_after P)) by (apply (ks_rel_same ctx); [cbn; repeat split|assumption]).
    assert (Hpc1 : poly_core ctx1 (ct_of dir P))
      by (destruct Hpc as (A & B & C); split; [exact A|split; [exact B|exact C]]).
    assert (Hr1 : c_rct ctx1 = c_rct ctx) by reflexivity.
    destruct dir.
    - (* encrypt: cipher first, then hash the produced ciphertext *)
      pose proof (enc_dec_ks_sim ctx1 (st_after P) s Hks1) as [Ho Hks2].
      pose proof (enc_dec_ks_frame ctx1 s) as Hfr.
      destruct (enc_dec_ks key ctx1 s) as [ctx2 dst] eqn:Ee. cbn [fst snd] in *.
      fold (out_of P s) in Ho. subst dst.
      assert (Hl : len64 (out_of P s) = len64 s) by (unfold len64; rewrite out_of_length; reflexivity).
      assert (Hr2 : c_rct ctx2 = c_rct ctx) by (destruct Hfr as (_ & _ & E & _); rewrite E; reflexivity).
      rewrite <- Hr2, <- Hl.
      pose proof (update_hash_part_core ctx2 (ct_of Enc P) (out_of P s)
                    (poly_core_same ctx1 ctx2 _ Hfr Hpc1)
                    ltac:(rewrite out_of_length; assumption)) as Hpc3.
      pose proof (update_hash_part_frame ctx2 (out_of P s) (len64 (out_of P s))
                    (btc_of (c_rct ctx2) (len64 (out_of P s)))) as (Fk & F1 & F2 & F3).
      split; [|reflexivity].
      split; [| split; [| split]].
      + apply (ks_rel_same ctx2); [assumption|]. rewrite st_after_app. exact Hks2.
      + rewrite ct_of_app. exact Hpc3.
      + rewrite F3. destruct Hfr as (_ & _ & _ & _ & _ & E). rewrite E. cbn. rewrite Hhl, len64_app. reflexivity.
      + rewrite F2. destruct Hfr as (_ & _ & _ & _ & E & _). rewrite E. cbn. exact Hal.
    - (* decrypt: hash the received ciphertext first, then decipher *)
      pose proof (update_hash_part_core ctx1 (ct_of Dec P) s Hpc1 Hs) as Hpc2.
      pose proof (update_hash_part_frame ctx1 s (len64 s) (btc_of (c_rct ctx1) (len64 s))) as (Fk & F1 & F2 & F3).
      rewrite Hr1 in *.
      set (ctx2 := update_hash_part ctx1 s (len64 s) (btc_of (c_rct ctx) (len64 s))) in *.
      pose proof (enc_dec_ks_sim ctx2 (st_after P) s (ks_rel_same ctx1 ctx2 _ Fk Hks1)) as [Ho Hks3].
      pose proof (enc_dec_ks_frame ctx2 s) as Hfr.
      destruct (enc_dec_ks key ctx2 s) as [ctx3 dst] eqn:Ee. cbn [fst snd] in *.
      split; [|exact Ho].
      split; [| split; [| split]].
      + rewrite st_after_app. exact Hks3.
      + rewrite ct_of_app. apply (poly_core_same ctx2); assumption.
      + destruct Hfr as (_ & _ & _ & _ & _ & E). rewrite E, F3. cbn. rewrite Hhl, len64_app. reflexivity.
      + destruct Hfr as (_ & _ & _ & _ & E & _). rewrite E, F2. cbn. exact Hal.
  Qed.


  (* ---------- init ---------- *)
  Lemma st_after_nil : st_after [] = (0%N, []).
  Proof. reflexivity. Qed.

  Lemma init_direct_inv : forall dir ctx0, length (c_scratch ctx0) = 16%nat ->
    inv dir (init_direct key ctx0 iv aad) [].
  Proof.
    intros dir ctx0 Hs. unfold ChachaStream.init_direct, inv, ks_rel, poly_core, ChachaStream.paead_update_ctx.
    rewrite st_after_nil.
    cbn [c_iv c_lbc c_rks c_last_ks c_poly_key c_scratch c_rct c_hash c_hash_len c_aad_len
         set_hash set_aad_len set_hash_len set_lbc set_rks set_rct set_iv set_poly_key fst snd length].
    repeat split; try reflexivity; try lia; try assumption; try (intro H; congruence).
    exists [], []. destruct dir; cbn; repeat split; try lia; apply mult16_0.
  Qed.

  (* ---------- a list of updates ---------- *)
  Lemma out_of_app : forall P a b, out_of P (a ++ b) = out_of P a ++ out_of (P ++ a) b.
  Proof.
    intros. unfold out_of at 1 2. unfold StreamLemmas.ref_out. rewrite ref_app64. cbn [fst].
    unfold out_of. rewrite st_after_app. reflexivity.
  Qed.

  Lemma out_of_nil : forall P, out_of P [] = [].
  Proof. reflexivity. Qed.

  Lemma update_all_inv : forall dir segs ctx P,
    inv dir ctx P -> N.of_nat (length (concat segs)) < 2 ^ 64 ->
    inv dir (fst (update_all key ctx segs dir)) (P ++ concat segs) /\
    concat (snd (update_all key ctx segs dir)) = out_of P (concat segs) /\
    map (@length _) (snd (update_all key ctx segs dir)) = map (@length _) segs.
  Proof.
    intros dir segs. induction segs as [|s t IH]; intros ctx P Hinv Hlen.
    - cbn. rewrite app_nil_r. auto.
    - cbn [ChachaStream.update_all concat] in *. rewrite app_length in Hlen.
      destruct (update_direct_inv dir ctx P s Hinv ltac:(lia)) as [Hi Ho].
      destruct (update_direct key ctx s dir) as [ctx1 o]. cbn [fst snd] in *.
      specialize (IH ctx1 (P ++ s) Hi ltac:(lia)). destruct IH as (I1 & I2 & I3).
      destruct (update_all key ctx1 t dir) as [ctx2 os]. cbn [fst snd concat map] in *.
      rewrite app_assoc. split; [assumption|]. split.
      + rewrite out_of_app, I2, Ho. reflexivity.
      + rewrite I3, Ho, out_of_length. reflexivity.
  Qed.

  (* ---------- finalize ---------- *)
  Definition tag_of (ct : bytes) : bytes :=
    pfinish pk (paead_update pk (paead_update pk h0 ct) (le64 (len64 aad) ++ le64 (len64 ct))).

  Lemma ct_of_length : forall dir P, length (ct_of dir P) = length P.
  Proof. intros [] P; [apply ref_out_length|reflexivity]. Qed.

  Lemma finish_tag_spec : forall ctx ct, c_poly_key ctx = pk -> c_hash ctx = paead_update pk h0 ct ->
    c_aad_len ctx = len64 aad -> c_hash_len ctx = len64 ct ->
    snd (finish_tag ctx) = tag_of ct /\ sgl_ctx_clean (fst (finish_tag ctx)).
  Proof.
    intros ctx ct Hpk Hh Ha Hl. unfold ChachaStream.finish_tag, tag_of, ChachaStream.paead_update_ctx, sgl_ctx_clean.
    cbn. rewrite Hpk, Hh, Ha, Hl. auto.
  Qed.

  Lemma finalize_direct_spec : forall dir ctx P taglen, inv dir ctx P ->
    snd (finalize_direct ctx taglen) = firstn taglen (tag_of (ct_of dir P)) /\
    sgl_ctx_clean (fst (finalize_direct ctx taglen)).
  Proof.
    intros dir ctx P taglen (Hks & (Hpk & Hs & cw & cr & Hct & Hcw & Hcr & Hrct & Hscr & Hh) & Hhl & Hal).
    unfold ChachaStream.finalize_direct.
    set (ctx1 := if 0 <? c_rct ctx then _ else ctx).
    assert (H1 : c_poly_key ctx1 = pk /\ c_hash ctx1 = paead_update pk h0 (ct_of dir P) /\
                 c_aad_len ctx1 = len64 aad /\ c_hash_len ctx1 = len64 (ct_of dir P)).
    { subst ctx1. destruct (N.ltb_spec 0 (c_rct ctx)) as [Hpos|Hz].
      - unfold ChachaStream.paead_update_ctx. cbn. rewrite Hrct at 1. unfold len64 at 1. rewrite Nat2N.id, Hscr.
        rewrite Hpk, Hh, Hct. rewrite pupd_app by assumption.
        rewrite <- Hct. repeat split; try assumption. rewrite Hhl. unfold len64. rewrite ct_of_length. reflexivity.
      - assert (cr = []) by (destruct cr; [reflexivity|rewrite Hrct in Hz; unfold len64 in Hz; simpl in Hz; lia]).
        subst cr. rewrite app_nil_r in Hct. rewrite Hct. repeat split; try assumption.
        rewrite Hhl, <- Hct. unfold len64. rewrite ct_of_length. reflexivity. }
    destruct H1 as (A & B & C & D).
    destruct (finish_tag_spec ctx1 (ct_of dir P) A B C D) as [T1 T2].
    destruct (finish_tag ctx1) as [ctx2 tg]. cbn [fst snd] in *. rewrite T1. auto.
  Qed.

  (* ---------- the three ways of driving the state machine ---------- *)
  Theorem run_direct_gen : forall ctx0 dir segs taglen,
    length (c_scratch ctx0) = 16%nat -> N.of_nat (length (concat segs)) < 2 ^ 64 ->
    let '(ctx', os, t) := run_direct ctx0 key iv aad dir segs taglen in
    concat os = ref_out 0 [] (concat segs) /\
    map (@length _) os = map (@length _) segs /\
    t = firstn taglen (tag_of (ct_of dir (concat segs))) /\
    sgl_ctx_clean ctx'.
  Proof.
    intros ctx0 dir segs taglen Hs Hlen. unfold ChachaStream.run_direct.
    pose proof (init_direct_inv dir ctx0 Hs) as Hi.
    destruct (update_all_inv dir segs _ [] Hi Hlen) as (I1 & I2 & I3).
    destruct (update_all key (init_direct key ctx0 iv aad) segs dir) as [ctx1 os]. cbn [fst snd app] in *.
    destruct (finalize_direct_spec dir ctx1 (concat segs) taglen I1) as [F1 F2].
    destruct (finalize_direct ctx1 taglen) as [ctx2 t]. cbn [fst snd] in *.
    split; [rewrite I2; reflexivity|]. split; [assumption|]. split; assumption.
  Qed.

  Theorem run_job_all_gen : forall ctx0 dir segs,
    length (c_scratch ctx0) = 16%nat -> N.of_nat (length (concat segs)) < 2 ^ 64 ->
    let '(ctx', os, t) := run_job_all ctx0 key iv aad dir segs in
    concat os = ref_out 0 [] (concat segs) /\
    map (@length _) os = map (@length _) segs /\
    t = Some (firstn 16 (tag_of (ct_of dir (concat segs)))) /\
    sgl_ctx_clean ctx'.
  Proof.
    intros ctx0 dir segs Hs Hlen. unfold ChachaStream.run_job_all, ChachaStream.aead_sgl.
    pose proof (run_direct_gen ctx0 dir segs 16 Hs Hlen) as H. unfold ChachaStream.run_direct in H.
    destruct (update_all key (init_direct key ctx0 iv aad) segs dir) as [ctx1 os].
    destruct (finalize_direct ctx1 16) as [ctx2 t].
    destruct H as (H1 & H2 & H3 & H4).
    split; [assumption|]. split; [assumption|]. split; [rewrite H3; reflexivity|].
    destruct H4. split; reflexivity.
  Qed.

  (* ---------- job API: IMB_SGL_INIT carries the first segment ---------- *)
  Ltac psimpl := cbn [c_hash c_aad_len c_hash_len c_last_ks c_poly_key c_scratch c_lbc c_rks c_rct c_iv
                      set_hash set_aad_len set_hash_len set_last_ks set_poly_key set_scratch set_lbc
                      set_rks set_rct set_iv fst snd].
  Ltac psimpl_in H := cbn [c_hash c_aad_len c_hash_len c_last_ks c_poly_key c_scratch c_lbc c_rks c_rct c_iv
                      set_hash set_aad_len set_hash_len set_last_ks set_poly_key set_scratch set_lbc
                      set_rks set_rct set_iv fst snd] in H.

  (* what init_chacha20_poly1305 does once the context has been set up ([ctxA]) *)
  Definition job_init_tail (ctxA : cctx) (src : bytes) (dir : cdir) : cctx * bytes :=
    let hash_len := N.land (len64 src) HASH_LEN_CLAMP in
    let remain_ct_bytes := N.land (len64 src) HASH_REMAIN_CLAMP in
    match dir with
    | Enc =>
        let '(ctx, dst) := enc_dec_ks key ctxA src in
        let ctx := paead_update_ctx ctx (firstn (N.to_nat hash_len) dst) in
        let remain_ct_ptr := skipn (N.to_nat hash_len) dst in
        (set_scratch ctx (write_at (c_scratch ctx) 0 (firstn (N.to_nat remain_ct_bytes) remain_ct_ptr)), dst)
    | Dec =>
        let ctx := paead_update_ctx ctxA (firstn (N.to_nat hash_len) src) in
        let remain_ct_ptr := skipn (N.to_nat hash_len) src in
        let ctx := set_scratch ctx (write_at (c_scratch ctx) 0 (firstn (N.to_nat remain_ct_bytes) remain_ct_ptr)) in
        enc_dec_ks key ctx src
    end.

  Lemma job_init_tail_enc : forall ctxA s,
    ks_rel ctxA (st_after []) ->
    c_poly_key ctxA = pk -> length (c_scratch ctxA) = 16%nat -> c_hash ctxA = h0 ->
    c_hash_len ctxA = len64 s -> c_aad_len ctxA = len64 aad ->
    c_rct ctxA = N.land (len64 s) HASH_REMAIN_CLAMP ->
    N.of_nat (length s) < 2 ^ 64 ->
    inv Enc (fst (job_init_tail ctxA s Enc)) s /\ snd (job_init_tail ctxA s Enc) = out_of [] s.
  Proof.
    intros ctxA s HksA A1 A2 A3 A4 A5 A6 Hlen. unfold job_init_tail.
    pose proof (enc_dec_ks_sim ctxA (st_after []) s HksA) as [Ho Hks2].
    pose proof (enc_dec_ks_frame ctxA s) as Hfr.
    destruct (enc_dec_ks key ctxA s) as [ctxB dst]. cbn [fst snd] in *.
    fold (out_of [] s) in Ho. subst dst.
    destruct Hfr as (F1 & F2 & F3 & F4 & F5 & F6).
    assert (Hl : len64 (out_of [] s) = len64 s) by (unfold len64; rewrite out_of_length; reflexivity).
    assert (B1 : c_poly_key (set_rct ctxB 0) = pk) by (psimpl; congruence).
    assert (B2 : length (c_scratch (set_rct ctxB 0)) = 16%nat) by (psimpl; congruence).
    assert (B3 : c_hash (set_rct ctxB 0) = paead_update pk h0 []) by (psimpl; rewrite F1, A3; reflexivity).
    assert (B4 : N.of_nat (length (out_of [] s)) < 2 ^ 64) by (rewrite out_of_length; assumption).
    pose proof (absorb_aligned (set_rct ctxB 0) (out_of [] s) [] B1 B2 eq_refl mult16_0 B3 B4) as Hpc.
    cbv zeta in Hpc. rewrite Hl in Hpc. cbn [app] in Hpc.
    split; [|reflexivity].
    split; [| split; [| split]].
    + apply (ks_rel_same ctxB); [psimpl; repeat split|]. change (st_after s) with (st_after ([] ++ s)). rewrite st_after_app. exact Hks2.
    + cbn [ct_of].
      assert (E0 : ref_out 0 [] s = out_of [] s) by reflexivity. rewrite E0.
      eapply poly_core_same; [|exact Hpc].
      unfold same_poly, ChachaStream.paead_update_ctx. psimpl. rewrite F3, A6. repeat split.
    + psimpl. unfold ChachaStream.paead_update_ctx. psimpl. rewrite F6. exact A4.
    + psimpl. unfold ChachaStream.paead_update_ctx. psimpl. rewrite F5. exact A5.
  Qed.

  Lemma job_init_tail_dec : forall ctxA s,
    ks_rel ctxA (st_after []) ->
    c_poly_key ctxA = pk -> length (c_scratch ctxA) = 16%nat -> c_hash ctxA = h0 ->
    c_hash_len ctxA = len64 s -> c_aad_len ctxA = len64 aad ->
    c_rct ctxA = N.land (len64 s) HASH_REMAIN_CLAMP ->
    N.of_nat (length s) < 2 ^ 64 ->
    inv Dec (fst (job_init_tail ctxA s Dec)) s /\ snd (job_init_tail ctxA s Dec) = out_of [] s.
  Proof.
    intros ctxA s HksA A1 A2 A3 A4 A5 A6 Hlen. unfold job_init_tail.
    assert (B1 : c_poly_key (set_rct ctxA 0) = pk) by (psimpl; congruence).
    assert (B2 : length (c_scratch (set_rct ctxA 0)) = 16%nat) by (psimpl; congruence).
    assert (B3 : c_hash (set_rct ctxA 0) = paead_update pk h0 []) by (psimpl; rewrite A3; reflexivity).
    pose proof (absorb_aligned (set_rct ctxA 0) s [] B1 B2 eq_refl mult16_0 B3 Hlen) as Hpc.
    cbv zeta in Hpc. cbn [app] in Hpc.
    match goal with |- context [enc_dec_ks key ?c s] => remember c as ctxH eqn:EH end.
    assert (HH : same_ks ctxA ctxH /\ poly_core ctxH s /\ c_hash_len ctxH = len64 s /\ c_aad_len ctxH = len64 aad).
    { split; [|split; [|split]].
      - rewrite EH. unfold same_ks, ChachaStream.paead_update_ctx. psimpl. repeat split.
      - eapply poly_core_same; [|exact Hpc].
        rewrite EH. unfold same_poly, ChachaStream.paead_update_ctx. psimpl. rewrite A6. repeat split.
      - rewrite EH. unfold ChachaStream.paead_update_ctx. psimpl. exact A4.
      - rewrite EH. unfold ChachaStream.paead_update_ctx. psimpl. exact A5. }
    clear EH Hpc. destruct HH as (H1 & H2 & H3 & H4).
    pose proof (enc_dec_ks_sim ctxH (st_after []) s (ks_rel_same ctxA ctxH _ H1 HksA)) as [Ho Hks2].
    pose proof (enc_dec_ks_frame ctxH s) as Hfr.
    destruct (enc_dec_ks key ctxH s) as [ctxB dst]. cbn [fst snd] in *.
    split; [|exact Ho].
    destruct Hfr as (F1 & F2 & F3 & F4 & F5 & F6).
    split; [| split; [| split]].
    + change (st_after s) with (st_after ([] ++ s)). rewrite st_after_app. exact Hks2.
    + cbn [ct_of]. apply (poly_core_same ctxH); [repeat split; assumption|assumption].
    + rewrite F6. exact H3.
    + rewrite F5. exact H4.
  Qed.

  Lemma job_init_inv : forall dir ctx0 s,
    length (c_scratch ctx0) = 16%nat -> N.of_nat (length s) < 2 ^ 64 ->
    inv dir (fst (job_init key ctx0 iv aad s dir)) s /\
    snd (job_init key ctx0 iv aad s dir) = out_of [] s.
  Proof.
    intros dir ctx0 s Hs Hlen.
    change (job_init key ctx0 iv aad s dir) with
      (job_init_tail (ChachaStream.paead_update_ctx pblock
         (set_poly_key (set_iv (set_rct (set_rks (set_lbc (set_hash_len (set_aad_len (set_hash ctx0 0)
            (len64 aad)) (len64 s)) 0) 0) (N.land (len64 s) HASH_REMAIN_CLAMP)) (firstn 12 iv)) (pkey_gen key iv)) aad) s dir).
    destruct dir; [apply job_init_tail_enc | apply job_init_tail_dec];
      unfold ChachaStream.paead_update_ctx; psimpl; try assumption; try reflexivity;
      rewrite st_after_nil; unfold ks_rel; psimpl; cbn [length]; repeat split; try lia; try congruence.
  Qed.

  (* ---------- job API: IMB_SGL_COMPLETE carries the last segment ---------- *)
  Lemma complete_hash_part_frame : forall ctx ct len btc,
    same_ks ctx (complete_hash_part ctx ct len btc) /\
    c_poly_key (complete_hash_part ctx ct len btc) = c_poly_key ctx /\
    c_aad_len (complete_hash_part ctx ct len btc) = c_aad_len ctx /\
    c_hash_len (complete_hash_part ctx ct len btc) = c_hash_len ctx.
  Proof.
    intros. unfold ChachaStream.complete_hash_part, same_ks, ChachaStream.paead_update_ctx.
    psimpl. destruct (0 <? _); destruct (_ =? 0); psimpl; repeat split.
  Qed.

  Lemma complete_hash_part_hash : forall ctx ct D,
    poly_core ctx ct -> N.of_nat (length D) < 2 ^ 64 ->
    c_hash (complete_hash_part ctx D (len64 D) (btc_of (c_rct ctx) (len64 D))) =
    paead_update pk h0 (ct ++ D).
  Proof.
    intros ctx ct D (Hpk & Hs & cw & cr & Hct & Hcw & Hcr & Hrct & Hscr & Hh) HD.
    assert (Hr16 : c_rct ctx < 16) by (rewrite Hrct; unfold len64; lia).
    rewrite btc_of_spec by assumption.
    unfold ChachaStream.complete_hash_part, ChachaStream.paead_update_ctx. psimpl.
    destruct (N.eqb_spec (c_rct ctx) 0) as [Hz|Hnz].
    - assert (cr = []) by (destruct cr; [reflexivity| rewrite Hz in Hrct; unfold len64 in Hrct; simpl in Hrct; lia]).
      subst cr. rewrite app_nil_r in Hct. subst ct.
      rewrite Hz. cbn [N.add N.ltb N.compare]. psimpl. rewrite N.sub_0_r. cbn [N.to_nat skipn].
      destruct (N.eqb_spec (len64 D) 0) as [Hl0|Hl0]; psimpl.
      + assert (D = []) by (destruct D; [reflexivity|unfold len64 in Hl0; simpl in Hl0; lia]). subst D.
        rewrite app_nil_r. exact Hh.
      + unfold len64. rewrite Nat2N.id, firstn_all. rewrite Hh, Hpk. apply pupd_app. assumption.
    - set (btc := N.min (len64 D) (16 - c_rct ctx)).
      assert (Hbtc : N.to_nat btc = Nat.min (length D) (16 - length cr)).
      { subst btc. rewrite Hrct. unfold len64. lia. }
      set (scr1 := write_at (c_scratch ctx) (N.to_nat (c_rct ctx)) (firstn (N.to_nat btc) D)).
      assert (Hrn : N.to_nat (c_rct ctx) = length cr) by (rewrite Hrct; unfold len64; lia).
      assert (Hfl : length (firstn (N.to_nat btc) D) = N.to_nat btc).
      { rewrite firstn_length, Hbtc. lia. }
      assert (Hp1 : firstn (N.to_nat (c_rct ctx + btc)) scr1 = cr ++ firstn (N.to_nat btc) D).
      { replace (N.to_nat (c_rct ctx + btc)) with (length cr + N.to_nat btc)%nat by lia.
        subst scr1. rewrite Hrn. rewrite <- Hfl at 1. rewrite write_at_prefix by lia.
        rewrite Hscr. reflexivity. }
      replace (0 <? c_rct ctx + btc) with true by (symmetry; apply N.ltb_lt; lia).
      psimpl. rewrite Hp1, Hpk, Hh. rewrite pupd_app by assumption.
      destruct (N.eqb_spec (len64 D - btc) 0) as [Hl0|Hl0]; psimpl.
      + assert (Hall : N.to_nat btc = length D) by (unfold len64 in Hl0; lia).
        rewrite Hall, firstn_all, Hct, app_assoc. reflexivity.
      + assert (Hb16 : (length cr + N.to_nat btc = 16)%nat) by (unfold len64 in Hl0; lia).
        replace (N.to_nat (len64 D - btc)) with (length (skipn (N.to_nat btc) D))
          by (rewrite skipn_length; unfold len64; lia).
        rewrite firstn_all. rewrite pupd_app.
        * rewrite Hct, <- !app_assoc, firstn_skipn. reflexivity.
        * rewrite !app_length, Hfl. apply mult16_add; [assumption|]. exists 1%nat. lia.
  Qed.

  Lemma job_complete_btc : forall ctx src dir,
    job_complete key ctx src dir =
    let btc := btc_of (c_rct ctx) (len64 src) in
    let ctx := set_hash_len ctx (c_hash_len ctx + len64 src) in
    let '(ctx, dst) :=
      match dir with
      | Enc => let '(ctx, dst) := enc_dec_ks key ctx src in
               (complete_hash_part ctx dst (len64 src) btc, dst)
      | Dec => enc_dec_ks key (complete_hash_part ctx src (len64 src) btc) src
      end in
    let '(ctx, tag) := finish_tag ctx in (ctx, dst, tag).
  Proof. reflexivity. Qed.

  Lemma job_complete_spec : forall dir ctx P s,
    inv dir ctx P -> N.of_nat (length s) < 2 ^ 64 ->
    let '(ctx', o, t) := job_complete key ctx s dir in
    o = out_of P s /\ t = tag_of (ct_of dir (P ++ s)) /\ sgl_ctx_clean ctx'.
  Proof.
    intros dir ctx P s (Hks & Hpc & Hhl & Hal) Hs.
    rewrite job_complete_btc. cbv zeta.
    set (ctx1 := set_hash_len ctx (c_hash_len ctx + len64 s)).
    assert (Hks1 : ks_rel ctx1 (st_after P)) by (apply (ks_rel_same ctx); [unfold same_ks; psimpl; repeat split|assumption]).
    assert (Hpc1 : poly_core ctx1 (ct_of dir P))
      by (destruct Hpc as (A & B & C); split; [exact A|split; [exact B|exact C]]).
    assert (Hr1 : c_rct ctx1 = c_rct ctx) by reflexivity.
    assert (Hlen1 : c_hash_len ctx1 = len64 (ct_of dir (P ++ s))).
    { subst ctx1. psimpl. rewrite Hhl. unfold len64. rewrite ct_of_length, app_length. lia. }
    assert (Hal1 : c_aad_len ctx1 = len64 aad) by exact Hal.
    assert (Hpk1 : c_poly_key ctx1 = pk) by (destruct Hpc1 as (A & _); exact A).
    clearbody ctx1. clear Hks Hpc Hhl Hal.
    assert (G : forall ctxF dst, dst = out_of P s -> c_poly_key ctxF = pk ->
                  c_hash ctxF = paead_update pk h0 (ct_of dir (P ++ s)) ->
                  c_aad_len ctxF = len64 aad -> c_hash_len ctxF = len64 (ct_of dir (P ++ s)) ->
                  let '(ctx', tag) := finish_tag ctxF in
                  dst = out_of P s /\ tag = tag_of (ct_of dir (P ++ s)) /\ sgl_ctx_clean ctx').
    { intros ctxF dst Hd G1 G2 G3 G4.
      destruct (finish_tag_spec ctxF _ G1 G2 G3 G4) as [T1 T2].
      destruct (finish_tag ctxF) as [c' tg]. cbn [fst snd] in *. auto. }
    destruct dir.
    - pose proof (enc_dec_ks_sim ctx1 (st_after P) s Hks1) as [Ho Hks2].
      pose proof (enc_dec_ks_frame ctx1 s) as Hfr.
      destruct (enc_dec_ks key ctx1 s) as [ctx2 dst]. cbn [fst snd] in *.
      fold (out_of P s) in Ho.
      destruct Hfr as (F1 & F2 & F3 & F4 & F5 & F6).
      assert (Hl : len64 dst = len64 s) by (subst dst; unfold len64; rewrite out_of_length; reflexivity).
      pose proof (complete_hash_part_frame ctx2 dst (len64 s) (btc_of (c_rct ctx) (len64 s))) as (Fk & G1 & G2 & G3).
      pose proof (complete_hash_part_hash ctx2 (ct_of Enc P) dst
                    (poly_core_same ctx1 ctx2 _ (conj F1 (conj F2 (conj F3 (conj F4 (conj F5 F6))))) Hpc1)
                    ltac:(subst dst; rewrite out_of_length; assumption)) as Hh.
      rewrite Hl, F3, Hr1 in Hh.
      apply G; try assumption; try congruence.
      rewrite Hh, ct_of_app. subst dst. reflexivity.
    - pose proof (complete_hash_part_frame ctx1 s (len64 s) (btc_of (c_rct ctx) (len64 s))) as (Fk & G1 & G2 & G3).
      pose proof (complete_hash_part_hash ctx1 (ct_of Dec P) s Hpc1 Hs) as Hh.
      rewrite Hr1 in Hh.
      set (ctx2 := complete_hash_part ctx1 s (len64 s) (btc_of (c_rct ctx) (len64 s))) in *.
      pose proof (enc_dec_ks_sim ctx2 (st_after P) s (ks_rel_same ctx1 ctx2 _ Fk Hks1)) as [Ho Hks3].
      pose proof (enc_dec_ks_frame ctx2 s) as Hfr.
      destruct (enc_dec_ks key ctx2 s) as [ctx3 dst]. cbn [fst snd] in *.
      destruct Hfr as (F1 & F2 & F3 & F4 & F5 & F6).
      apply G; try congruence.
      + exact Ho.
      + rewrite F1, Hh, ct_of_app. reflexivity.
  Qed.

  Lemma job_updates_inv : forall dir segs ctx P,
    inv dir ctx P -> N.of_nat (length (concat segs)) < 2 ^ 64 ->
    inv dir (fst (job_updates key ctx iv aad segs dir)) (P ++ concat segs) /\
    concat (snd (job_updates key ctx iv aad segs dir)) = out_of P (concat segs).
  Proof.
    intros dir segs. induction segs as [|s t IH]; intros ctx P Hinv Hlen.
    - cbn. rewrite app_nil_r. auto.
    - cbn [ChachaStream.job_updates ChachaStream.aead_sgl concat] in *. rewrite app_length in Hlen.
      destruct (update_direct_inv dir ctx P s Hinv ltac:(lia)) as [Hi Ho].
      destruct (update_direct key ctx s dir) as [ctx1 o]. cbn [fst snd] in *.
      specialize (IH ctx1 (P ++ s) Hi ltac:(lia)). destruct IH as (I1 & I2).
      destruct (job_updates key ctx1 iv aad t dir) as [ctx2 os]. cbn [fst snd concat app] in *.
      rewrite app_assoc. split; [assumption|].
      rewrite out_of_app, I2, Ho. reflexivity.
  Qed.

  Theorem run_job_iuc_gen : forall ctx0 dir first mids last,
    length (c_scratch ctx0) = 16%nat ->
    N.of_nat (length (first ++ concat mids ++ last)) < 2 ^ 64 ->
    let '(ctx', os, t) := run_job_iuc ctx0 key iv aad dir first mids last in
    concat os = ref_out 0 [] (first ++ concat mids ++ last) /\
    t = Some (tag_of (ct_of dir (first ++ concat mids ++ last))) /\
    sgl_ctx_clean ctx'.
  Proof.
    intros ctx0 dir first mids last Hs Hlen. rewrite !app_length in Hlen.
    unfold ChachaStream.run_job_iuc. cbn [ChachaStream.aead_sgl].
    destruct (job_init_inv dir ctx0 first Hs ltac:(lia)) as [Hi Ho1].
    destruct (job_init key ctx0 iv aad first dir) as [ctx1 o1]. cbn [fst snd] in *.
    destruct (job_updates_inv dir mids ctx1 first Hi ltac:(lia)) as [Hi2 Ho2].
    destruct (job_updates key ctx1 iv aad mids dir) as [ctx2 o2]. cbn [fst snd] in *.
    pose proof (job_complete_spec dir ctx2 (first ++ concat mids) last Hi2 ltac:(lia)) as Hc.
    destruct (job_complete key ctx2 last dir) as [[ctx3 o3] t].
    destruct Hc as (Ho3 & Ht & Hcl).
    split; [|split; [|assumption]].
    - rewrite !concat_app. cbn [concat]. rewrite !app_nil_r, Ho2, Ho3, Ho1.
      change (ref_out 0 [] (first ++ concat mids ++ last)) with (out_of [] (first ++ concat mids ++ last)).
      rewrite !out_of_app. cbn [app]. rewrite app_assoc. reflexivity.
    - rewrite Ht, app_assoc. reflexivity.
  Qed.

  (* ---------- the invariant in the readable form of Struct/ChachaStream.v ---------- *)
  Lemma inv_readable : forall dir ctx P, inv dir ctx P ->
    chacha_stream_inv ksblock pblock pkey_gen key iv aad (ct_of dir P) ctx.
  Proof.
    intros dir ctx P ((Hiv & Hc & Hr & Hlt & Hk & Hb) & (Hpk & Hs & Hex) & Hhl & Hal).
    pose proof (ref_pos_inv 64 lt64 blk blk_len nxt P 0%N 0%nat 0%N [] (pos_inv_init 64 lt64 blk nxt 0%N)) as Hp.
    fold (st_after P) in Hp. destruct Hp as (k & Hk1 & Hk2 & _ & _).
    rewrite iter_nxt_add in Hk1.
    assert (HlP : len64 (ct_of dir P) = len64 P) by (unfold len64; rewrite ct_of_length; reflexivity).
    unfold chacha_stream_inv.
    split; [exact Hiv|]. split; [exact Hpk|]. split; [exact Hal|].
    split; [rewrite HlP; exact Hhl|]. split; [exact Hs|]. split; [exact Hex|].
    split. { rewrite HlP, Hr, Hc, Hk1. unfold len64. lia. }
    split. { rewrite Hr. lia. }
    intros Hpos. rewrite Hk; [rewrite Hc; reflexivity|].
    intro E. rewrite E in Hr. simpl in Hr. lia.
  Qed.

  Theorem chacha_stream_inv_gen : forall dir ctx0 segs,
    length (c_scratch ctx0) = 16%nat -> N.of_nat (length (concat segs)) < 2 ^ 64 ->
    chacha_stream_inv ksblock pblock pkey_gen key iv aad (ct_of dir (concat segs))
      (fst (update_all key (init_direct key ctx0 iv aad) segs dir)).
  Proof.
    intros dir ctx0 segs Hs Hlen.
    destruct (update_all_inv dir segs _ [] (init_direct_inv dir ctx0 Hs) Hlen) as (I1 & _ & _).
    apply inv_readable. exact I1.
  Qed.
End Generic.
