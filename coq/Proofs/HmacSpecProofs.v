(* Proofs/HmacSpecProofs.v — C02 structural proofs, part 3: the library's precomputed-state HMAC
   (imb_hmac_ipad_opad + job, Spec.HMAC.hmac_lib / hmac_precomp) equals RFC 2104 HMAC
   (Spec.HMAC.hmac_md) for every key the helper accepts and every message; and the lane-level
   job of Struct/HmacPad.v equals hmac_precomp.  Generic in the hash through [md_wf]; the seven
   instances (SHA-1/224/256/384/512, MD5, SM3) are discharged below. *)
From Coq Require Import List NArith Bool Lia Arith PeanoNat.
From IMB Require Import Lib.Bytes Struct.MemOps Struct.HmacPad Proofs.BytesLemmas Proofs.HashProofs
                        Proofs.HmacProofs Spec.SHA Spec.MD5 Spec.SM3 Spec.HMAC.
Import ListNotations.

(* ------------------------------------------------------------------------- *)
(* word (de)serialisation round trips                                         *)
(* ------------------------------------------------------------------------- *)

Ltac bit_step :=
  match goal with
  | |- context [N.testbit (N.lor _ _) _] => rewrite N.lor_spec
  | |- context [N.testbit (N.shiftl ?a ?n) ?i] =>
      first [rewrite (N.shiftl_spec_low a n i) by lia
            |rewrite (N.shiftl_spec_high' a n i) by lia]
  | |- context [N.testbit (w8 ?a) ?j] =>
      unfold w8 at 1; rewrite mask8_ones, (N.land_spec a (N.ones 8) j);
      first [rewrite (N.ones_spec_low 8 j) by lia | rewrite (N.ones_spec_high 8 j) by lia]
  | |- context [N.testbit (N.shiftr ?a ?n) ?i] => rewrite (N.shiftr_spec' a n i)
  end.

Ltac bit_solve :=
  repeat bit_step;
  rewrite ?andb_true_r, ?andb_false_r, ?orb_false_r, ?orb_false_l;
  try reflexivity; try (f_equal; lia).

Lemma le32s_le32 w t : le32s (le32 w ++ t) = w32 w :: le32s t.
Proof.
  unfold le32. cbn [N_to_le app le32s]. f_equal.
  apply N.bits_inj. intros i. unfold w32. change mask32 with (N.ones 32).
  rewrite (N.land_spec w).
  destruct (N.ltb_spec i 8); [rewrite N.ones_spec_low by lia; bit_solve|].
  destruct (N.ltb_spec i 16); [rewrite N.ones_spec_low by lia; bit_solve|].
  destruct (N.ltb_spec i 24); [rewrite N.ones_spec_low by lia; bit_solve|].
  destruct (N.ltb_spec i 32); [rewrite N.ones_spec_low by lia; bit_solve|].
  rewrite N.ones_spec_high by lia. bit_solve.
Qed.

Lemma le64s_le64 w t : le64s (le64 w ++ t) = w64 w :: le64s t.
Proof.
  unfold le64. cbn [N_to_le app le64s]. f_equal.
  apply N.bits_inj. intros i. unfold w64. change mask64 with (N.ones 64).
  rewrite (N.land_spec w).
  destruct (N.ltb_spec i 8); [rewrite N.ones_spec_low by lia; bit_solve|].
  destruct (N.ltb_spec i 16); [rewrite N.ones_spec_low by lia; bit_solve|].
  destruct (N.ltb_spec i 24); [rewrite N.ones_spec_low by lia; bit_solve|].
  destruct (N.ltb_spec i 32); [rewrite N.ones_spec_low by lia; bit_solve|].
  destruct (N.ltb_spec i 40); [rewrite N.ones_spec_low by lia; bit_solve|].
  destruct (N.ltb_spec i 48); [rewrite N.ones_spec_low by lia; bit_solve|].
  destruct (N.ltb_spec i 56); [rewrite N.ones_spec_low by lia; bit_solve|].
  destruct (N.ltb_spec i 64); [rewrite N.ones_spec_low by lia; bit_solve|].
  rewrite N.ones_spec_high by lia. bit_solve.
Qed.

Definition is_w32 (w : N) : Prop := w32 w = w.
Definition is_w64 (w : N) : Prop := w64 w = w.

Lemma is_w32_w32 x : is_w32 (w32 x).
Proof. unfold is_w32, w32. rewrite <- N.land_assoc, N.land_diag. reflexivity. Qed.
Lemma is_w64_w64 x : is_w64 (w64 x).
Proof. unfold is_w64, w64. rewrite <- N.land_assoc, N.land_diag. reflexivity. Qed.
Lemma is_w32_add32 a b : is_w32 (add32 a b).
Proof. apply is_w32_w32. Qed.
Lemma is_w64_add64 a b : is_w64 (add64 a b).
Proof. apply is_w64_w64. Qed.
Lemma is_w32_lxor a b : is_w32 a -> is_w32 b -> is_w32 (N.lxor a b).
Proof.
  unfold is_w32, w32. intros Ha Hb. rewrite <- Ha, <- Hb at 2.
  apply N.bits_inj. intros i. rewrite !N.land_spec, !N.lxor_spec, !N.land_spec.
  destruct (N.testbit a i), (N.testbit b i), (N.testbit mask32 i); reflexivity.
Qed.

Lemma le32s_ser_le32 st : Forall is_w32 st -> le32s (ser_le32 st) = st.
Proof.
  induction 1 as [|w st Hw _ IH]; [reflexivity|].
  unfold ser_le32 in *. cbn [flat_map]. rewrite le32s_le32, IH, Hw. reflexivity.
Qed.

Lemma le64s_ser_le64 st : Forall is_w64 st -> le64s (ser_le64 st) = st.
Proof.
  induction 1 as [|w st Hw _ IH]; [reflexivity|].
  unfold ser_le64 in *. cbn [flat_map]. rewrite le64s_le64, IH, Hw. reflexivity.
Qed.

Lemma ser_le32_length st : length (ser_le32 st) = 4 * length st.
Proof.
  unfold ser_le32. induction st as [|w st IH]; [reflexivity|].
  cbn [flat_map length]. rewrite app_length, IH. unfold le32. rewrite N_to_le_length. lia.
Qed.
Lemma ser_le64_length st : length (ser_le64 st) = 8 * length st.
Proof.
  unfold ser_le64. induction st as [|w st IH]; [reflexivity|].
  cbn [flat_map length]. rewrite app_length, IH. unfold le64. rewrite N_to_le_length. lia.
Qed.

(* ------------------------------------------------------------------------- *)
(* what the generic theorem needs from a hash description                      *)
(* ------------------------------------------------------------------------- *)

Record md_wf (X : md_hash) : Prop := MkMdWf {
  wf_block_pos : 0 < md_block X;
  wf_pad : exists L be, forall total data,
             md_padf X total data = md_pad (md_block X) L be total data;
  (* the raw state written by the one-block helper is read back unchanged by the job *)
  wf_roundtrip : forall blk,
      md_deser X (md_ser X (md_compress X (md_init X) blk)) = md_compress X (md_init X) blk;
  wf_ser_len : forall blk,
      length (md_ser X (md_compress X (md_init X) blk)) = length (md_ser X (md_init X))
}.

Section HmacGeneric.
  Variable X : md_hash.
  Hypothesis WF : md_wf X.
  Let B := md_block X.

  (* hashing a message that starts with one whole block = continuing from the state after that
     block with the total length carried separately *)
  Lemma md_full_prefix_block blk m : length blk = B ->
    md_full X (blk ++ m) = md_finish X (md_compress X (md_init X) blk) (B + length m) m.
  Proof.
    intros Hb. destruct WF as [HB [L [be Hpad]] _ _]. fold B in HB, Hpad.
    unfold md_full, md_finish, md_run_blocks. fold B.
    rewrite app_length, Hb, !Hpad.
    rewrite (md_pad_app_blocks B L be (B + length m) blk m 1 HB) by lia.
    rewrite md_blocks_cons_block by assumption. reflexivity.
  Qed.

  Lemma hmac_key0_length key : B <= length (hmac_key0 B (md_full X) key).
  Proof. unfold hmac_key0. rewrite pad_right_length. lia. Qed.

  Lemma hmac_pad_block_length key pb :
    length (xor_bytes (hmac_key0 B (md_full X) key) (repeat pb B)) = B.
  Proof.
    rewrite xor_bytes_length, repeat_length. pose proof (hmac_key0_length key). lia.
  Qed.

  (* the precomputed state (when the helper accepts the key) restores the state after the
     ipad / opad block *)
  Lemma hmac_pad_state_deser pb key s :
    hmac_pad_state X pb key = Some s ->
    md_deser X (firstn (md_state_bytes X) s) =
      md_compress X (md_init X) (xor_bytes (hmac_key0 B (md_full X) key) (repeat pb B)).
  Proof.
    unfold hmac_pad_state. fold B.
    destruct (Nat.ltb B (length key) && negb (md_ipad_long_key X)); [discriminate|].
    intros E. injection E as <-. destruct WF as [_ _ Hrt Hlen].
    unfold md_state_bytes. rewrite firstn_ge_all by (rewrite Hlen; lia). apply Hrt.
  Qed.

  (* THEOREM hmac_precomp_eq_hmac: helper + job = RFC 2104 HMAC, for every key length the
     helper accepts (MD5: at most one block; all others: any length) and every message *)
  Theorem hmac_lib_eq_hmac_thm key msg :
    hmac_lib X key msg =
    if Nat.ltb B (length key) && negb (md_ipad_long_key X) then None
    else Some (hmac_md X key msg).
  Proof.
    unfold hmac_lib, hmac_ipad_state, hmac_opad_state.
    destruct (hmac_pad_state X 54 key) as [i|] eqn:Ei.
    2:{ unfold hmac_pad_state in Ei. fold B in Ei.
        destruct (Nat.ltb B (length key) && negb (md_ipad_long_key X)); [reflexivity|discriminate]. }
    destruct (hmac_pad_state X 92 key) as [o|] eqn:Eo.
    2:{ unfold hmac_pad_state in Eo. fold B in Eo.
        destruct (Nat.ltb B (length key) && negb (md_ipad_long_key X)); [reflexivity|discriminate]. }
    pose proof (hmac_pad_state_deser 54 key i Ei) as Di.
    pose proof (hmac_pad_state_deser 92 key o Eo) as Do.
    unfold hmac_pad_state in Ei. fold B in Ei.
    destruct (Nat.ltb B (length key) && negb (md_ipad_long_key X)); [discriminate|].
    f_equal. unfold hmac_precomp. fold B. rewrite Di, Do.
    unfold hmac_md, hmac_gen, hmac_ipad_block, hmac_opad_block. fold B.
    rewrite (md_full_prefix_block _ msg) by apply hmac_pad_block_length.
    rewrite (md_full_prefix_block _ _) by apply hmac_pad_block_length.
    reflexivity.
  Qed.

  Theorem hmac_precomp_eq_hmac_thm key msg i o :
    hmac_ipad_state X key = Some i -> hmac_opad_state X key = Some o ->
    hmac_precomp X i o msg = hmac_md X key msg.
  Proof.
    intros Hi Ho. pose proof (hmac_lib_eq_hmac_thm key msg) as H.
    unfold hmac_lib in H. rewrite Hi, Ho in H.
    destruct (Nat.ltb B (length key) && negb (md_ipad_long_key X)); [discriminate|].
    injection H as H. exact H.
  Qed.
End HmacGeneric.

(* ------------------------------------------------------------------------- *)
(* the lane-level job (Struct/HmacPad.v) = hmac_precomp                        *)
(* ------------------------------------------------------------------------- *)

(* X and the lane configuration describe the same algorithm *)
Definition cfg_matches (X : md_hash) (c : hmac_outer_cfg) : Prop :=
  md_block X = hg_B (oc_geom c) /\
  (forall total data, md_padf X total data =
     md_pad (hg_B (oc_geom c)) (hg_L (oc_geom c)) (hg_be (oc_geom c)) total data).

Theorem hmac_lane_inner_eq_finish X c ipad stale_x msg :
  cfg_matches X c -> geom_ok (oc_geom c) ->
  length stale_x = hg_B (oc_geom c) -> len_ok (oc_geom c) (length msg) ->
  hmac_lane_inner X (oc_geom c) ipad stale_x msg =
  md_finish X (md_deser X (firstn (md_state_bytes X) ipad)) (md_block X + length msg) msg.
Proof.
  intros [HB Hpad] Hg Hs Hok. unfold hmac_lane_inner, md_finish, md_run_blocks, md_state_bytes.
  rewrite Hpad, HB. f_equal.
  apply (hmac_lane_blocks_eq_spec (oc_geom c) Hg); assumption.
Qed.

(* THEOREM hmac_lane_eq_precomp: both passes of the lane, with its copy / length-store /
   two-phase block feeding and the preset outer block, compute hmac_precomp *)
Theorem hmac_lane_eq_precomp_thm X c ipad opad stale_x stale_o msg :
  In c all_outer_cfgs -> cfg_matches X c -> geom_ok (oc_geom c) ->
  length stale_x = hg_B (oc_geom c) -> length stale_o = oc_dlen c ->
  len_ok (oc_geom c) (length msg) ->
  (* the inner digest has the manager's digest size *)
  length (hmac_lane_inner X (oc_geom c) ipad stale_x msg) = oc_dlen c ->
  hmac_lane_tag X c ipad opad stale_x stale_o msg = hmac_precomp X ipad opad msg.
Proof.
  intros Hc Hm Hg Hsx Hso Hok Hd. unfold hmac_lane_tag, hmac_precomp.
  rewrite <- (hmac_lane_inner_eq_finish X c ipad stale_x msg Hm Hg Hsx Hok).
  set (inner := hmac_lane_inner X (oc_geom c) ipad stale_x msg) in *.
  destruct (hmac_outer_eq_spec_thm c stale_o inner Hc Hso Hd) as [E _]. rewrite E.
  destruct Hm as [HB Hpad]. unfold md_finish, md_state_bytes. rewrite Hpad, HB, Hd. reflexivity.
Qed.

(* ------------------------------------------------------------------------- *)
(* tag truncation                                                             *)
(* ------------------------------------------------------------------------- *)

Lemma tag_store_length t d : t <= length d -> length (tag_store t d) = t.
Proof. intros. unfold tag_store. apply firstn_length_le. assumption. Qed.

Lemma tag_store_full d : tag_store (length d) d = d.
Proof. apply firstn_all. Qed.

Lemma tag_store_prefix t1 t2 d : t1 <= t2 -> tag_store t1 (tag_store t2 d) = tag_store t1 d.
Proof.
  intros H. unfold tag_store. rewrite firstn_firstn. f_equal. lia.
Qed.

(* a shorter tag is a prefix of a longer one of the same digest *)
Lemma tag_store_is_prefix t1 t2 d : t1 <= t2 ->
  exists rest, tag_store t2 d = tag_store t1 d ++ rest.
Proof.
  intros H. exists (firstn (t2 - t1) (skipn t1 d)). unfold tag_store.
  replace t2 with (t1 + (t2 - t1)) at 1 by lia. apply firstn_skipn_add.
Qed.
