(* Proofs/DESProofs.v — C01: DES decryption inverts DES encryption, hence DES-CBC, 3DES-CBC and
   DOCSIS-DES decrypt what they encrypt, for ALL keys, IVs and messages of every accepted
   length.

   - [permute_testbit]: bit-level characterisation of the table-driven permutation of
     Spec/DES.v (structural, by induction on the table and the bit/group extractors);
   - IP / FP mutually inverse: the composite source-index map is the identity on the COMPLETE
     domain of the 64 bit positions (a 64-point sweep by computation), lifted to all
     x < 2^64 by [permute_testbit] + extensionality of bits;
   - split / join: bit arithmetic;
   - Feistel inversion: [des_rounds_rev_inv] of Spec/DES.v (structural, any round function);
   - modes: induction on the chunk list. *)
From Coq Require Import List NArith Bool Lia Arith.
From IMB Require Import Lib.Bytes Spec.DES Proofs.C01Lists.
Import ListNotations.

(* ---------------------------------------------------------------------------------------- *)
(* bit extractors *)

Lemma bits_msb_nth : forall w x acc b,
  nth b (bits_msb w x acc) false =
  if b <? w then N.testbit x (N.of_nat (w - 1 - b)) else nth (b - w) acc false.
Proof.
  induction w as [|w IH]; intros x acc b.
  - cbn [bits_msb]. rewrite Nat.sub_0_r. reflexivity.
  - cbn [bits_msb]. rewrite IH.
    destruct (Nat.ltb_spec b w) as [L|L].
    + replace (b <? S w) with true by (symmetry; apply Nat.ltb_lt; lia).
      rewrite N.div2_spec, N.shiftr_spec'. f_equal. lia.
    + destruct (Nat.eq_dec b w) as [->|Hne].
      * replace (w <? S w) with true by (symmetry; apply Nat.ltb_lt; lia).
        rewrite Nat.sub_diag. cbn [nth]. replace (S w - 1 - w) with 0 by lia.
        symmetry. apply N.bit0_odd.
      * replace (b <? S w) with false by (symmetry; apply Nat.ltb_ge; lia).
        replace (b - w) with (S (b - S w)) by lia. reflexivity.
Qed.

Lemma groups_msb_nth : forall g x acc a,
  nth a (groups_msb g x acc) [] =
  if a <? g then bits_msb 8 (N.shiftr x (8 * N.of_nat (g - 1 - a))) []
  else nth (a - g) acc [].
Proof.
  induction g as [|g IH]; intros x acc a.
  - cbn [groups_msb]. rewrite Nat.sub_0_r. reflexivity.
  - cbn [groups_msb]. rewrite IH.
    destruct (Nat.ltb_spec a g) as [L|L].
    + replace (a <? S g) with true by (symmetry; apply Nat.ltb_lt; lia).
      rewrite N.shiftr_shiftr. do 2 f_equal. lia.
    + destruct (Nat.eq_dec a g) as [->|Hne].
      * replace (g <? S g) with true by (symmetry; apply Nat.ltb_lt; lia).
        rewrite Nat.sub_diag. cbn [nth]. replace (S g - 1 - g) with 0 by lia.
        now rewrite N.shiftr_0_r.
      * replace (a <? S g) with false by (symmetry; apply Nat.ltb_ge; lia).
        replace (a - g) with (S (a - S g)) by lia. reflexivity.
Qed.

(* the N-bit index (0 = least significant) of the input bit selected by entry (a, b) *)
Definition src_bit (g : nat) (ab : nat * nat) : nat := 8 * (g - 1 - fst ab) + (7 - snd ab).
Definition idx_valid (g : nat) (ab : nat * nat) : bool := (fst ab <? g) && (snd ab <? 8).

Lemma group_bit : forall g x a b, a < g -> b < 8 ->
  nth b (nth a (groups_msb g x []) []) false = N.testbit x (N.of_nat (src_bit g (a, b))).
Proof.
  intros g x a b Ha Hb. rewrite groups_msb_nth.
  replace (a <? g) with true by (symmetry; apply Nat.ltb_lt; lia).
  rewrite bits_msb_nth.
  replace (b <? 8) with true by (symmetry; apply Nat.ltb_lt; lia).
  rewrite N.shiftr_spec'. f_equal. unfold src_bit. cbn [fst snd]. lia.
Qed.

(* ---------------------------------------------------------------------------------------- *)
(* the fold of [permute] *)

Definition pstep (gs : list (list bool)) (acc : N) (ab : nat * nat) : N :=
  let (a, b) := ab in
  if nth b (nth a gs []) false then N.succ_double acc else N.double acc.

Lemma permute_fold : forall g tbl x,
  permute g tbl x = fold_left (pstep (groups_msb g x [])) tbl 0%N.
Proof. reflexivity. Qed.

Lemma pstep_bit0 : forall gs acc ab,
  N.testbit (pstep gs acc ab) 0 = nth (snd ab) (nth (fst ab) gs []) false.
Proof.
  intros gs acc [a b]. unfold pstep. cbn [fst snd].
  destruct (nth b (nth a gs []) false).
  - rewrite N.succ_double_spec. apply N.testbit_odd_0.
  - rewrite N.double_spec. apply N.testbit_even_0.
Qed.

Lemma pstep_bitS : forall gs acc ab i,
  N.testbit (pstep gs acc ab) (N.succ i) = N.testbit acc i.
Proof.
  intros gs acc [a b] i. unfold pstep.
  destruct (nth b (nth a gs []) false).
  - rewrite N.succ_double_spec. apply N.testbit_odd_succ. lia.
  - rewrite N.double_spec. apply N.testbit_even_succ. lia.
Qed.

Lemma fold_pstep_bits : forall gs tbl acc i,
  N.testbit (fold_left (pstep gs) tbl acc) (N.of_nat i) =
  if i <? length tbl
  then let ab := nth (length tbl - 1 - i) tbl (0, 0) in nth (snd ab) (nth (fst ab) gs []) false
  else N.testbit acc (N.of_nat (i - length tbl)).
Proof.
  intros gs tbl. induction tbl as [|ab t IH]; intros acc i.
  - cbn [fold_left length]. rewrite Nat.sub_0_r. reflexivity.
  - cbn [fold_left length]. rewrite IH.
    destruct (Nat.ltb_spec i (length t)) as [L|L].
    + replace (i <? S (length t)) with true by (symmetry; apply Nat.ltb_lt; lia).
      cbv zeta. replace (S (length t) - 1 - i) with (S (length t - 1 - i)) by lia. reflexivity.
    + destruct (Nat.eq_dec i (length t)) as [->|Hne].
      * replace (length t <? S (length t)) with true by (symmetry; apply Nat.ltb_lt; lia).
        rewrite Nat.sub_diag. cbv zeta.
        replace (S (length t) - 1 - length t) with 0 by lia. cbn [nth N.of_nat].
        apply pstep_bit0.
      * replace (i <? S (length t)) with false by (symmetry; apply Nat.ltb_ge; lia).
        replace (i - length t) with (S (i - S (length t))) by lia.
        rewrite Nat2N.inj_succ. apply pstep_bitS.
Qed.

(* source bit index of output bit i *)
Definition perm_src (g : nat) (tbl : list (nat * nat)) (i : nat) : nat :=
  src_bit g (nth (length tbl - 1 - i) tbl (0, 0)).

Theorem permute_testbit : forall g tbl x i,
  forallb (idx_valid g) tbl = true -> i < length tbl ->
  N.testbit (permute g tbl x) (N.of_nat i) = N.testbit x (N.of_nat (perm_src g tbl i)).
Proof.
  intros g tbl x i V Hi. rewrite permute_fold, fold_pstep_bits.
  replace (i <? length tbl) with true by (symmetry; apply Nat.ltb_lt; lia).
  cbv zeta. unfold perm_src.
  set (ab := nth (length tbl - 1 - i) tbl (0, 0)).
  assert (Hv : idx_valid g ab = true).
  { rewrite forallb_forall in V. apply V. apply nth_In. lia. }
  unfold idx_valid in Hv. apply andb_true_iff in Hv. destruct Hv as [Ha Hb].
  apply Nat.ltb_lt in Ha. apply Nat.ltb_lt in Hb.
  destruct ab as [a b]. cbn [fst snd] in *. now apply group_bit.
Qed.

Theorem permute_testbit_high : forall g tbl x i, length tbl <= i ->
  N.testbit (permute g tbl x) (N.of_nat i) = false.
Proof.
  intros g tbl x i Hi. rewrite permute_fold, fold_pstep_bits.
  replace (i <? length tbl) with false by (symmetry; apply Nat.ltb_ge; lia).
  apply N.bits_0.
Qed.

Local Open Scope N_scope.

Lemma lt_pow2_bits : forall x n, (forall i, n <= i -> N.testbit x i = false) -> x < 2 ^ n.
Proof.
  intros x n H. destruct (N.eq_dec x 0) as [->|Hx]. { apply N.neq_0_lt_0. now apply N.pow_nonzero. }
  apply N.log2_lt_pow2; [lia|].
  destruct (N.lt_ge_cases (N.log2 x) n) as [L|L]; [exact L|].
  specialize (H _ L). rewrite N.bit_log2 in H by assumption. discriminate.
Qed.

Lemma bits_above : forall x n i, x < 2 ^ n -> n <= i -> N.testbit x i = false.
Proof.
  intros x n i Hx Hi. destruct (N.eq_dec x 0) as [->|Hx0]; [apply N.bits_0|].
  apply N.bits_above_log2. assert (N.log2 x < n) by (apply N.log2_lt_pow2; lia). lia.
Qed.

Theorem permute_lt : forall g tbl x, permute g tbl x < 2 ^ N.of_nat (length tbl).
Proof.
  intros g tbl x. apply lt_pow2_bits. intros i Hi.
  rewrite <- (N2Nat.id i). apply permute_testbit_high. lia.
Qed.

(* Two permutations of w bits whose source-index maps compose to the identity on the COMPLETE
   set of positions 0..w-1 are inverse of each other on all x < 2^w. *)
Theorem permute_compose_id : forall g t1 t2 x,
  length t1 = length t2 ->
  forallb (idx_valid g) t1 = true -> forallb (idx_valid g) t2 = true ->
  forallb (fun i => (perm_src g t2 i <? length t1)%nat
                    && Nat.eqb (perm_src g t1 (perm_src g t2 i)) i)
          (seq 0 (length t2)) = true ->
  x < 2 ^ N.of_nat (length t1) ->
  permute g t2 (permute g t1 x) = x.
Proof.
  intros g t1 t2 x Hl V1 V2 Hc Hx. apply N.bits_inj. intro i.
  rewrite <- (N2Nat.id i). set (j := N.to_nat i).
  destruct (Nat.lt_ge_cases j (length t2)) as [L|L].
  - rewrite permute_testbit by assumption.
    rewrite forallb_forall in Hc. specialize (Hc j ltac:(apply in_seq; lia)).
    apply andb_true_iff in Hc. destruct Hc as [H1 H2].
    apply Nat.ltb_lt in H1. apply Nat.eqb_eq in H2.
    rewrite permute_testbit by assumption. now rewrite H2.
  - rewrite permute_testbit_high by assumption. symmetry.
    apply (bits_above x (N.of_nat (length t1))); [assumption|lia].
Qed.

(* ---------------------------------------------------------------------------------------- *)
(* IP and FP are mutually inverse on 64-bit words *)

Lemma des_FP_IP : forall x, x < 2 ^ 64 -> des_FP (des_IP x) = x.
Proof.
  intros x Hx. unfold des_FP, des_IP.
  apply (permute_compose_id 8 des_IP_idx des_FP_idx x);
    [reflexivity|vm_compute; reflexivity|vm_compute; reflexivity|vm_compute; reflexivity|exact Hx].
Qed.

Lemma des_IP_FP : forall x, x < 2 ^ 64 -> des_IP (des_FP x) = x.
Proof.
  intros x Hx. unfold des_FP, des_IP.
  apply (permute_compose_id 8 des_FP_idx des_IP_idx x);
    [reflexivity|vm_compute; reflexivity|vm_compute; reflexivity|vm_compute; reflexivity|exact Hx].
Qed.

Lemma des_IP_lt : forall x, des_IP x < 2 ^ 64.
Proof. intros. unfold des_IP. apply (permute_lt 8 des_IP_idx x). Qed.

Lemma des_FP_lt : forall x, des_FP x < 2 ^ 64.
Proof. intros. unfold des_FP. apply (permute_lt 8 des_FP_idx x). Qed.

Lemma des_f_lt : forall r k, des_f r k < 2 ^ 32.
Proof. intros. unfold des_f, des_P. apply (permute_lt 4 des_P_idx). Qed.

(* ---------------------------------------------------------------------------------------- *)
(* split / join *)

Definition half_ok (lr : N * N) : Prop := fst lr < 2 ^ 32 /\ snd lr < 2 ^ 32.

Lemma land_mask32_lt : forall x, N.land x mask32 < 2 ^ 32.
Proof.
  intros. unfold mask32. change 4294967295 with (N.ones 32). rewrite N.land_ones.
  apply N.mod_lt. discriminate.
Qed.

Lemma des_split_ok : forall x, half_ok (des_split x).
Proof. intros x. split; apply land_mask32_lt. Qed.

Lemma des_round_ok : forall lr k, half_ok lr -> half_ok (des_round lr k).
Proof.
  intros [l r] k [Hl Hr]. unfold des_round. split; cbn [fst snd] in *; [exact Hr|].
  apply lxor_lt_pow2; [exact Hl|apply des_f_lt].
Qed.

Lemma des_rounds_ok : forall ks lr, half_ok lr -> half_ok (des_rounds ks lr).
Proof.
  unfold des_rounds. induction ks as [|k ks IH]; intros lr H; [exact H|].
  cbn [fold_left]. apply IH. now apply des_round_ok.
Qed.

Lemma des_split_join : forall lr, half_ok lr -> des_split (des_join_swapped lr) = des_swap lr.
Proof.
  intros [l r] [Hl Hr]. cbn [fst snd] in *. unfold des_split, des_join_swapped, des_swap.
  cbn [fst snd]. unfold mask32. change 4294967295 with (N.ones 32).
  rewrite shiftr_lor_low by exact Hl. rewrite land_lor_low by exact Hl.
  rewrite N.land_ones, N.mod_small by exact Hr. reflexivity.
Qed.

Lemma des_join_lt : forall lr, half_ok lr -> des_join_swapped lr < 2 ^ 64.
Proof.
  intros [l r] [Hl Hr]. cbn [fst snd] in *. unfold des_join_swapped.
  apply lt_pow2_bits. intros i Hi. rewrite N.lor_spec, N.shiftl_spec_high' by lia.
  rewrite (bits_above r 32) by (try assumption; lia).
  rewrite (bits_above l 32) by (try assumption; lia). reflexivity.
Qed.

Lemma des_join_swap_split : forall y, y < 2 ^ 64 -> des_join_swapped (des_swap (des_split y)) = y.
Proof.
  intros y Hy. unfold des_split, des_swap, des_join_swapped. cbn [fst snd].
  unfold mask32. change 4294967295 with (N.ones 32).
  apply N.bits_inj. intro i. rewrite N.lor_spec, !N.land_spec.
  destruct (N.lt_ge_cases i 32) as [L|L].
  - rewrite N.shiftl_spec_low by assumption. rewrite N.ones_spec_low by assumption.
    now rewrite andb_true_r.
  - rewrite N.shiftl_spec_high' by assumption. rewrite N.land_spec, N.shiftr_spec'.
    replace (i - 32 + 32) with i by lia.
    rewrite (N.ones_spec_high 32 i) by assumption. rewrite andb_false_r, orb_false_r.
    destruct (N.lt_ge_cases i 64) as [L2|L2].
    + rewrite N.ones_spec_low by lia. apply andb_true_r.
    + rewrite (bits_above y 64) by assumption. reflexivity.
Qed.

(* ---------------------------------------------------------------------------------------- *)
(* the DES network with reversed subkeys inverts the network: any subkey list *)

Theorem des_block_ks_inv : forall ks x, x < 2 ^ 64 ->
  des_block_ks (rev ks) (des_block_ks ks x) = x.
Proof.
  intros ks x Hx. unfold des_block_ks.
  set (lr0 := des_split (des_IP x)).
  assert (H0 : half_ok lr0) by apply des_split_ok.
  assert (H1 : half_ok (des_rounds ks lr0)) by now apply des_rounds_ok.
  rewrite des_IP_FP by now apply des_join_lt.
  rewrite des_split_join by assumption.
  rewrite des_rounds_rev_inv.
  unfold lr0. rewrite des_join_swap_split by apply des_IP_lt.
  now apply des_FP_IP.
Qed.

Lemma des_block_ks_inv' : forall ks x, x < 2 ^ 64 ->
  des_block_ks ks (des_block_ks (rev ks) x) = x.
Proof.
  intros ks x Hx. rewrite <- (rev_involutive ks) at 1. now apply des_block_ks_inv.
Qed.

Lemma des_block_ks_lt : forall ks x, des_block_ks ks x < 2 ^ 64.
Proof. intros. unfold des_block_ks. apply des_FP_lt. Qed.

Theorem des_dec_enc_N : forall ks x, x < 2 ^ 64 -> des_dec_N ks (des_enc_N ks x) = x.
Proof. intros. unfold des_dec_N, des_enc_N. now apply des_block_ks_inv. Qed.

Lemma be_to_N_8_lt : forall b, length b = 8%nat -> be_to_N b < 2 ^ 64.
Proof. intros b H. pose proof (be_to_N_lt b) as L. rewrite H in L. exact L. Qed.

(* key : any byte string (8 bytes in the library), block : 8 in-range bytes *)
Theorem des_decrypt_encrypt_block : forall key blk, length blk = 8%nat -> bytes_ok blk = true ->
  des_decrypt_block key (des_encrypt_block key blk) = blk.
Proof.
  intros key blk L O. unfold des_decrypt_block, des_encrypt_block.
  rewrite be_to_N_N_to_be_small by (apply des_block_ks_lt).
  rewrite des_dec_enc_N by now apply be_to_N_8_lt.
  rewrite <- L. now apply N_to_be_be_to_N.
Qed.

(* ---------------------------------------------------------------------------------------- *)
(* modes over a 64-bit block function *)
Section Cbc64.
  Variables E D : N -> N.
  Hypothesis E_lt : forall x, E x < 2 ^ 64.
  Hypothesis DE : forall x, x < 2 ^ 64 -> D (E x) = x.
  Variable cfb : bool.

  Lemma cbc64_roundtrip : forall cs, chunked 8 cs ->
    Forall (fun c => bytes_ok c = true) cs ->
    cfb = true \/ Forall (fun c => length c = 8%nat) cs ->
    forall iv, iv < 2 ^ 64 ->
    cbc64_dec E D cfb iv (chunks 8 (cbc64_enc E cfb iv cs)) = concat cs.
  Proof.
    intros cs H. induction H as [|c Hc|c cs Hc Hcs IH]; intros Ok Full iv Hiv.
    - reflexivity.
    - inversion Ok as [|? ? Oc _]; subst. cbn [cbc64_enc concat]. rewrite !app_nil_r.
      destruct (Nat.eqb_spec (length c) 8) as [L8|L8].
      + rewrite chunks_short by (try apply nonnil_length; rewrite ?N_to_be_length; lia).
        cbn [cbc64_dec]. rewrite N_to_be_length. cbn [Nat.eqb]. rewrite app_nil_r.
        rewrite be_to_N_N_to_be_small by apply E_lt.
        rewrite DE by (apply lxor_lt_pow2; [now apply be_to_N_8_lt|assumption]).
        rewrite N.lxor_assoc, N.lxor_nilpotent, N.lxor_0_r.
        rewrite <- L8. now apply N_to_be_be_to_N.
      + destruct Full as [->|F]; [|inversion F; subst; congruence].
        cbn [cfb64_residue].
        assert (Lx : length (xor_bytes c (N_to_be 8 (E iv))) = length c)
          by (rewrite xor_bytes_length, N_to_be_length; lia).
        rewrite chunks_short by (try apply nonnil_length; lia).
        cbn [cbc64_dec]. rewrite Lx.
        destruct (Nat.eqb_spec (length c) 8) as [?|_]; [congruence|].
        cbn [cfb64_residue]. apply xor_bytes_involutive. rewrite N_to_be_length. lia.
    - inversion Ok as [|? ? Oc Ocs]; subst. cbn [cbc64_enc concat].
      rewrite Hc. cbn [Nat.eqb].
      set (y := E (N.lxor (be_to_N c) iv)).
      rewrite chunks_cons; [|lia|apply nonnil_length; rewrite app_length, N_to_be_length; lia].
      rewrite firstn_app_exact, skipn_app_exact by (now rewrite N_to_be_length).
      cbn [cbc64_dec]. rewrite N_to_be_length. cbn [Nat.eqb].
      rewrite be_to_N_N_to_be_small by apply E_lt.
      rewrite IH; [|assumption| |apply E_lt].
      + f_equal. unfold y.
        rewrite DE by (apply lxor_lt_pow2; [now apply be_to_N_8_lt|assumption]).
        rewrite N.lxor_assoc, N.lxor_nilpotent, N.lxor_0_r.
        rewrite <- Hc. now apply N_to_be_be_to_N.
      + destruct Full as [?|F]; [now left|right; now inversion F].
  Qed.

  Theorem cbc64_dec_enc : forall iv msg, iv < 2 ^ 64 -> bytes_ok msg = true ->
    cfb = true \/ (length msg mod 8 = 0)%nat ->
    cbc64_dec E D cfb iv (chunks 8 (cbc64_enc E cfb iv (chunks 8 msg))) = msg.
  Proof.
    intros iv msg Hiv Ok Hl.
    rewrite cbc64_roundtrip; [apply chunks_concat; lia|apply chunked_chunks; lia| | |assumption].
    - apply Forall_bytes_ok_concat. now rewrite chunks_concat by lia.
    - destruct Hl as [?|Hm]; [now left|right].
      apply Nat.mod_divides in Hm; [|lia]. destruct Hm as [k Hk].
      apply (proj1 (chunks_all_full 8 k msg ltac:(lia) Hk)).
  Qed.
End Cbc64.

(* ---------------------------------------------------------------------------------------- *)
(* the library modes; keys are arbitrary byte strings (the schedule is total) *)

(* IMB_CIPHER_DES *)
Theorem des_cbc_dec_enc : forall key iv msg, length iv = 8%nat -> bytes_ok msg = true ->
  (length msg mod 8 = 0)%nat ->
  des_cbc_dec key iv (des_cbc_enc key iv msg) = msg.
Proof.
  intros key iv msg Li Ok Hm. unfold des_cbc_dec, des_cbc_enc, des_enc_N. cbv zeta.
  apply cbc64_dec_enc; try assumption.
  - apply des_block_ks_lt.
  - intros. now apply des_block_ks_inv.
  - now apply be_to_N_8_lt.
  - now right.
Qed.

(* IMB_CIPHER_DES3 (EDE with three independent keys) *)
Theorem des3_cbc_dec_enc : forall k1 k2 k3 iv msg, length iv = 8%nat -> bytes_ok msg = true ->
  (length msg mod 8 = 0)%nat ->
  des3_cbc_dec k1 k2 k3 iv (des3_cbc_enc k1 k2 k3 iv msg) = msg.
Proof.
  intros k1 k2 k3 iv msg Li Ok Hm. unfold des3_cbc_dec, des3_cbc_enc. cbv zeta.
  apply cbc64_dec_enc; try assumption.
  - intros. apply des_block_ks_lt.
  - intros x Hx.
    rewrite des_block_ks_inv by apply des_block_ks_lt.
    rewrite des_block_ks_inv' by apply des_block_ks_lt.
    now apply des_block_ks_inv.
  - now apply be_to_N_8_lt.
  - now right.
Qed.

(* IMB_CIPHER_DOCSIS_DES: every length (CBC + CFB residual termination, short packets
   use E(iv)) *)
Theorem docsis_des_dec_enc : forall key iv msg, length iv = 8%nat -> bytes_ok msg = true ->
  docsis_des_dec key iv (docsis_des_enc key iv msg) = msg.
Proof.
  intros key iv msg Li Ok. unfold docsis_des_dec, docsis_des_enc. cbv zeta.
  apply cbc64_dec_enc; try assumption.
  - apply des_block_ks_lt.
  - intros. now apply des_block_ks_inv.
  - now apply be_to_N_8_lt.
  - now left.
Qed.
