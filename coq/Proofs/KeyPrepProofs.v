(* Proofs/KeyPrepProofs.v — proofs about the key-preparation helpers of Spec/KeyPrep.v (C11). *)
From Coq Require Import List NArith Bool Lia Arith.
From IMB Require Import Lib.Bytes Spec.AES Spec.CMAC Spec.SHA Spec.MD5 Spec.SM3 Spec.HMAC
                        Spec.SM4 Spec.KeyPrep.
Import ListNotations.

(* ========================================================================================== *)
(* AES decrypt schedule layout                                                                  *)
(* ========================================================================================== *)
Lemma imc_middle_spec (l : list bytes) :
  length (imc_middle l) = length l /\
  (forall i, (S i < length l)%nat -> nth i (imc_middle l) [] = inv_mix_columns (nth i l [])) /\
  (forall i, (S i = length l)%nat -> nth i (imc_middle l) [] = nth i l []).
Proof.
  induction l as [|k t IH]; [cbn; repeat split; intros; lia|].
  destruct t as [|k2 t'].
  - cbn. split; [reflexivity|]. split; intros i Hi; [lia|]. assert (i = 0)%nat by lia. subst. reflexivity.
  - destruct IH as (IH1 & IH2 & IH3).
    change (imc_middle (k :: k2 :: t')) with (inv_mix_columns k :: imc_middle (k2 :: t')).
    split; [cbn [length] in *; lia|]. split.
    + intros [|i] Hi; [reflexivity|]. cbn [nth]. apply IH2. cbn [length] in *. lia.
    + intros [|i] Hi; [cbn [length] in Hi; lia|]. cbn [nth]. apply IH3. cbn [length] in *. lia.
Qed.

(* for ANY non-empty list of round keys enc[0..n]: dec[0] = enc[n], dec[n] = enc[0],
   dec[i] = InvMixColumns(enc[n-i]) for 0 < i < n *)
Lemma aes_dec_schedule_rk_layout (rks : list bytes) n :
  length rks = S n ->
  length (aes_dec_schedule_rk rks) = S n /\
  nth 0 (aes_dec_schedule_rk rks) [] = nth n rks [] /\
  nth n (aes_dec_schedule_rk rks) [] = nth 0 rks [] /\
  (forall i, (0 < i < n)%nat -> nth i (aes_dec_schedule_rk rks) [] = inv_mix_columns (nth (n - i) rks [])).
Proof.
  intros Hlen. unfold aes_dec_schedule_rk.
  assert (Hr : length (rev rks) = S n) by (rewrite rev_length; exact Hlen).
  assert (Hnth : forall i, (i <= n)%nat -> nth i (rev rks) [] = nth (n - i) rks []).
  { intros i Hi. rewrite rev_nth by lia. rewrite Hlen. reflexivity. }
  destruct (rev rks) as [|kn t] eqn:E; [discriminate|].
  cbn [length] in Hr. assert (Ht : length t = n) by lia.
  destruct (imc_middle_spec t) as (H1 & H2 & H3).
  split; [cbn [length]; lia|]. split.
  - cbn [nth]. rewrite <- (Nat.sub_0_r n). rewrite <- Hnth by lia. reflexivity.
  - split.
    + destruct n as [|m].
      * cbn [nth]. specialize (Hnth 0%nat ltac:(lia)). cbn [nth] in Hnth. exact Hnth.
      * cbn [nth]. rewrite H3 by lia. specialize (Hnth (S m) ltac:(lia)). cbn [nth] in Hnth.
        rewrite Hnth. f_equal. lia.
    + intros [|i] Hi; [lia|]. cbn [nth]. rewrite H2 by lia.
      specialize (Hnth (S i) ltac:(lia)). cbn [nth] in Hnth. rewrite Hnth. reflexivity.
Qed.

Lemma key_expand_loop_length n : forall nk pos rc prev,
  length (key_expand_loop n nk pos rc prev) = (n + length prev)%nat.
Proof.
  induction n as [|n IH]; intros nk pos rc prev; [reflexivity|].
  cbn [key_expand_loop].
  destruct (if Nat.eqb pos 0 then _ else _) as [temp' rc'].
  rewrite IH. cbn [length]. lia.
Qed.

Lemma group_round_keys_length f : forall ws, length ws = (4 * f)%nat -> length (group_round_keys f ws) = f.
Proof.
  induction f as [|f IH]; intros ws H; [reflexivity|].
  destruct ws as [|w0 [|w1 [|w2 [|w3 t]]]]; cbn [length] in H; try lia.
  cbn [group_round_keys length]. rewrite IH; [reflexivity|lia].
Qed.

Lemma chunks_fuel4_length nk : forall fuel (key : bytes),
  length key = (4 * nk)%nat -> (length key <= fuel)%nat -> length (chunks_fuel fuel 4 key) = nk.
Proof.
  induction nk as [|nk IH]; intros fuel key Hlen Hf.
  - destruct key; [|cbn in Hlen; lia]. destruct fuel; reflexivity.
  - destruct key as [|a [|b [|c [|d t]]]]; cbn [length] in Hlen; try lia.
    destruct fuel as [|f]; [cbn [length] in Hf; lia|].
    cbn [chunks_fuel firstn skipn length]. rewrite IH; [reflexivity|lia|cbn [length] in Hf; lia].
Qed.

Lemma chunks4_length (key : bytes) nk :
  length key = (4 * nk)%nat -> length (chunks 4 key) = nk.
Proof. intros H. unfold chunks. apply chunks_fuel4_length; [exact H|lia]. Qed.

Lemma aes_key_expand_length (key : bytes) :
  In (length key) [16; 24; 32]%nat -> length (aes_key_expand key) = S (aes_rounds (length key)).
Proof.
  intros Hin. unfold aes_key_expand.
  assert (Hc : forall nk, length key = (4 * nk)%nat -> length (rev (chunks 4 key)) = nk).
  { intros nk H2. rewrite rev_length. apply chunks4_length; assumption. }
  cbn [In] in Hin. destruct Hin as [E|[E|[E|[]]]]; rewrite <- E in *; cbn [aes_rounds Nat.eqb Nat.div] in *.
  - change (Nat.div 16 4) with 4%nat. rewrite group_round_keys_length; [reflexivity|].
    rewrite rev_length, key_expand_loop_length, (Hc 4%nat); cbn; auto.
  - change (Nat.div 24 4) with 6%nat. rewrite group_round_keys_length; [reflexivity|].
    rewrite rev_length, key_expand_loop_length, (Hc 6%nat); cbn; auto.
  - change (Nat.div 32 4) with 8%nat. rewrite group_round_keys_length; [reflexivity|].
    rewrite rev_length, key_expand_loop_length, (Hc 8%nat); cbn; auto.
Qed.

Theorem aes_dec_schedule_layout_thm (key : bytes) :
  In (length key) [16; 24; 32]%nat ->
  let enc := aes_key_expand key in
  let dec := aes_dec_schedule key in
  let nr := aes_rounds (length key) in
  length enc = S nr /\ length dec = S nr /\
  nth 0 dec [] = nth nr enc [] /\
  nth nr dec [] = nth 0 enc [] /\
  (forall i, (0 < i < nr)%nat -> nth i dec [] = inv_mix_columns (nth (nr - i) enc [])).
Proof.
  intros Hin enc dec nr. pose proof (aes_key_expand_length key Hin) as Hl.
  split; [exact Hl|]. apply aes_dec_schedule_rk_layout. exact Hl.
Qed.

(* ========================================================================================== *)
(* Hash digest / state lengths                                                                  *)
(* ========================================================================================== *)
Lemma md_blocks_fuel_length B f fuel :
  (forall st b, length (f st b) = length st) ->
  forall st data, length (md_blocks_fuel B f fuel st data) = length st.
Proof.
  intros Hf. induction fuel as [|k IH]; intros st data; [reflexivity|].
  cbn [md_blocks_fuel]. destruct (Nat.eqb _ B); [rewrite IH; apply Hf|reflexivity].
Qed.

Lemma md_blocks_length B f st data :
  (forall st b, length (f st b) = length st) -> length (md_blocks B f st data) = length st.
Proof. intros Hf. unfold md_blocks. destruct B; [reflexivity|apply md_blocks_fuel_length; exact Hf]. Qed.

Ltac dl st := destruct st as [|? st]; [reflexivity|].

Lemma sha1_compress_length st b : length (sha1_compress st b) = length st.
Proof.
  do 5 dl st. destruct st as [|? st]; [|reflexivity].
  unfold sha1_compress.
  destruct (sha1_rounds 20 f_ch32 _ _ _) as [w1 s1].
  destruct (sha1_rounds 20 f_parity _ w1 s1) as [w2 s2].
  destruct (sha1_rounds 20 f_maj _ w2 s2) as [w3 s3].
  destruct (sha1_rounds 20 f_parity _ w3 s3) as [w4 [[[[a' b'] c'] d'] e']]. reflexivity.
Qed.

Lemma sha256_compress_length st b : length (sha256_compress st b) = length st.
Proof.
  do 8 dl st. destruct st as [|? st]; [|reflexivity].
  unfold sha256_compress.
  destruct (sha256_rounds _ _ _) as [[[[[[[a' b'] c'] d'] e'] f'] g'] h']. reflexivity.
Qed.

Lemma sha512_compress_length st b : length (sha512_compress st b) = length st.
Proof.
  do 8 dl st. destruct st as [|? st]; [|reflexivity].
  unfold sha512_compress.
  destruct (sha512_rounds _ _ _) as [[[[[[[a' b'] c'] d'] e'] f'] g'] h']. reflexivity.
Qed.

Lemma md5_compress_length st b : length (md5_compress st b) = length st.
Proof.
  do 4 dl st. destruct st as [|? st]; [|reflexivity].
  unfold md5_compress.
  destruct (md5_rounds md5_I _ _ _ _ _) as [[[a' b'] c'] d']. reflexivity.
Qed.

Lemma sm3_compress_length st b : length (sm3_compress st b) = length st.
Proof.
  do 8 dl st. destruct st as [|? st]; [|reflexivity].
  unfold sm3_compress.
  destruct (sm3_rounds sm3_FF0 _ _ _ _ _) as [[ws ws4] s1].
  destruct (sm3_rounds sm3_FF1 _ _ _ _ _) as [[ws' ws4'] [[[[[[[a' b'] c'] d'] e'] f'] g'] h']]. reflexivity.
Qed.

Lemma N_to_le_length n x : length (N_to_le n x) = n.
Proof. revert x. induction n as [|n IH]; intros x; cbn [N_to_le length]; [reflexivity|rewrite IH; reflexivity]. Qed.
Lemma N_to_be_length n x : length (N_to_be n x) = n.
Proof. unfold N_to_be. rewrite rev_length. apply N_to_le_length. Qed.

Lemma flat_map_const_length {A} (f : A -> bytes) k l :
  (forall x, length (f x) = k) -> length (flat_map f l) = (k * length l)%nat.
Proof.
  intros Hf. induction l as [|x t IH]; cbn [flat_map length]; [lia|].
  rewrite app_length, Hf, IH. lia.
Qed.

Lemma ser_be32_length st : length (ser_be32 st) = (4 * length st)%nat.
Proof. apply flat_map_const_length. intros; apply N_to_be_length. Qed.
Lemma ser_be64_length st : length (ser_be64 st) = (8 * length st)%nat.
Proof. apply flat_map_const_length. intros; apply N_to_be_length. Qed.
Lemma ser_le32_length st : length (ser_le32 st) = (4 * length st)%nat.
Proof. apply flat_map_const_length. intros; apply N_to_le_length. Qed.
Lemma ser_le64_length st : length (ser_le64 st) = (8 * length st)%nat.
Proof. apply flat_map_const_length. intros; apply N_to_le_length. Qed.

Lemma md_run_length X st data :
  (forall s b, length (md_compress X s b) = length s) -> length (md_run_blocks X st data) = length st.
Proof. intros H. unfold md_run_blocks. apply md_blocks_length. exact H. Qed.

(* the digest of each of the seven hashes has exactly md_dlen bytes, for EVERY message *)
Theorem md_digest_length X msg : In X hmac_hashes -> length (md_full X msg) = md_dlen X.
Proof.
  unfold hmac_hashes. cbn [In]. intros [<-|[<-|[<-|[<-|[<-|[<-|[<-|[]]]]]]]];
  unfold md_full, md_finish; cbn [md_digest md_dlen md_init md_padf md_block md_compress H_SHA1 H_SHA224 H_SHA256 H_SHA384 H_SHA512 H_MD5 H_SM3].
  - unfold sha1_digest_of_state. rewrite ser_be32_length, md_run_length by apply sha1_compress_length. reflexivity.
  - unfold sha224_digest_of_state. rewrite firstn_length, ser_be32_length, md_run_length by apply sha256_compress_length. reflexivity.
  - unfold sha256_digest_of_state. rewrite ser_be32_length, md_run_length by apply sha256_compress_length. reflexivity.
  - unfold sha384_digest_of_state. rewrite firstn_length, ser_be64_length, md_run_length by apply sha512_compress_length. reflexivity.
  - unfold sha512_digest_of_state. rewrite ser_be64_length, md_run_length by apply sha512_compress_length. reflexivity.
  - unfold md5_digest_of_state. rewrite ser_le32_length, md_run_length by apply md5_compress_length. reflexivity.
  - unfold sm3_digest_of_state. rewrite ser_be32_length, md_run_length by apply sm3_compress_length. reflexivity.
Qed.

Lemma hmac_hash_sizes X : In X hmac_hashes ->
  (md_dlen X <= md_block X)%nat /\ (md_block X <= 128)%nat /\ (1 <= md_block X)%nat.
Proof.
  unfold hmac_hashes. cbn [In]. intros [<-|[<-|[<-|[<-|[<-|[<-|[<-|[]]]]]]]]; cbn; lia.
Qed.

(* the raw state written by ONE_BLOCK / the ipad-opad buffers has the documented size *)
Theorem kp_one_block_length X blk : In X hmac_hashes -> length (kp_one_block X blk) = md_state_bytes X.
Proof.
  unfold hmac_hashes, kp_one_block, md_state_bytes. cbn [In].
  intros [<-|[<-|[<-|[<-|[<-|[<-|[<-|[]]]]]]]]; cbn [md_ser md_compress md_init H_SHA1 H_SHA224 H_SHA256 H_SHA384 H_SHA512 H_MD5 H_SM3];
  rewrite ?ser_le32_length, ?ser_le64_length;
  rewrite ?sha1_compress_length, ?sha256_compress_length, ?sha512_compress_length, ?md5_compress_length, ?sm3_compress_length;
  reflexivity.
Qed.

(* ========================================================================================== *)
(* HMAC pad block                                                                               *)
(* ========================================================================================== *)
Lemma xor_bytes_l_length a b : length (xor_bytes_l a b) = length a.
Proof. revert b. induction a as [|x a IH]; intros b; [reflexivity|]. destruct b; cbn [xor_bytes_l length]; rewrite IH; reflexivity. Qed.

Lemma xor_bytes_l_repeat pad n k : (length k <= n)%nat ->
  xor_bytes_l (repeat pad n) k = xor_bytes (k ++ zeros (n - length k)) (repeat pad n).
Proof.
  revert k. induction n as [|n IH]; intros k Hk.
  - destruct k; [reflexivity|cbn in Hk; lia].
  - destruct k as [|y k].
    + cbn [repeat xor_bytes_l length app Nat.sub zeros xor_bytes]. rewrite N.lxor_0_l. f_equal.
      specialize (IH [] ltac:(cbn; lia)). cbn [length app] in IH. rewrite Nat.sub_0_r in IH. exact IH.
    + cbn [repeat xor_bytes_l length app xor_bytes Nat.sub]. rewrite N.lxor_comm. f_equal.
      apply IH. cbn in Hk. lia.
Qed.

Lemma xor_bytes_firstn n : forall a b, firstn n (xor_bytes a b) = xor_bytes (firstn n a) (firstn n b).
Proof.
  induction n as [|n IH]; intros a b; [reflexivity|].
  destruct a as [|x a]; [reflexivity|]. destruct b as [|y b]; [destruct (firstn (S n) (x :: a)); reflexivity|].
  cbn [xor_bytes firstn]. rewrite IH. reflexivity.
Qed.

Lemma firstn_repeat {A} (x : A) n m : (n <= m)%nat -> firstn n (repeat x m) = repeat x n.
Proof.
  revert m. induction n as [|n IH]; intros m H; [reflexivity|].
  destruct m as [|m]; [lia|]. cbn [repeat firstn]. rewrite IH by lia. reflexivity.
Qed.

Lemma firstn_app_zeros (k : bytes) n m : (length k <= n <= m)%nat ->
  firstn n (k ++ zeros (m - length k)) = k ++ zeros (n - length k).
Proof.
  intros H. rewrite firstn_app. rewrite firstn_all2 by lia. f_equal.
  unfold zeros. apply firstn_repeat. lia.
Qed.

(* the key bytes that get xored into the scratch buffer: the key itself when it fits in a block,
   its digest (exactly md_dlen bytes) otherwise *)
Lemma kp_hmac_key_eff X key : In X hmac_hashes ->
  firstn (kp_hmac_local_len X (length key)) (kp_hmac_keybuf X key) =
  (if Nat.ltb (md_block X) (length key) then md_full X key else key) /\
  (length (firstn (kp_hmac_local_len X (length key)) (kp_hmac_keybuf X key)) <= md_block X)%nat.
Proof.
  intros HX. destruct (hmac_hash_sizes X HX) as (Hd & Hb & _).
  unfold kp_hmac_keybuf, kp_hmac_local_len.
  destruct (Nat.leb (length key) (md_block X)) eqn:E.
  - apply Nat.leb_le in E. rewrite Nat.eqb_refl.
    assert (Hlt : Nat.ltb (md_block X) (length key) = false) by (apply Nat.ltb_ge; lia).
    rewrite Hlt, firstn_all. split; [reflexivity|lia].
  - apply Nat.leb_gt in E.
    assert (Hlt : Nat.ltb (md_block X) (length key) = true) by (apply Nat.ltb_lt; lia).
    rewrite Hlt.
    assert (Hne : Nat.eqb (md_dlen X) (length key) = false) by (apply Nat.eqb_neq; lia).
    rewrite Hne. rewrite <- (md_digest_length X key HX) at 1. rewrite firstn_all.
    split; [reflexivity|]. rewrite firstn_length. lia.
Qed.

Theorem hmac_pad_lengths_thm X pad key : In X hmac_hashes ->
  let B := md_block X in
  (* the block fed to the one-block hash is exactly B bytes *)
  length (kp_hmac_block X pad key) = B /\
  (* and it is RFC 2104's  K0 xor pad^B *)
  kp_hmac_block X pad key = xor_bytes (hmac_key0 B (md_full X) key) (repeat pad B) /\
  (* a key of at most B bytes (in particular exactly B) is used as is, a longer one (in particular
     B+1) is replaced by its digest, which has exactly md_dlen X bytes *)
  ((length key <= B)%nat -> kp_hmac_keybuf X key = key /\ hmac_key0 B (md_full X) key = key ++ zeros (B - length key)) /\
  ((B < length key)%nat -> kp_hmac_keybuf X key = md_full X key /\ length (md_full X key) = md_dlen X /\
                           hmac_key0 B (md_full X) key = md_full X key ++ zeros (B - md_dlen X)).
Proof.
  intros HX B. destruct (hmac_hash_sizes X HX) as (Hd & Hb & Hb1).
  destruct (kp_hmac_key_eff X key HX) as (Hk & Hkl).
  assert (Hblock : kp_hmac_block X pad key = xor_bytes (hmac_key0 B (md_full X) key) (repeat pad B)).
  { unfold kp_hmac_block, kp_hmac_buf. set (k := firstn _ (kp_hmac_keybuf X key)) in *.
    rewrite xor_bytes_l_repeat by (fold B in Hkl; lia).
    rewrite xor_bytes_firstn, firstn_repeat by (fold B; lia).
    rewrite firstn_app_zeros by (fold B in Hkl |- *; lia).
    unfold hmac_key0, pad_right. fold B. rewrite Hk. reflexivity. }
  split; [|split; [exact Hblock|split]].
  - unfold kp_hmac_block, kp_hmac_buf. rewrite firstn_length, xor_bytes_l_length, repeat_length. fold B. lia.
  - intros Hle. unfold kp_hmac_keybuf, kp_hmac_local_len, hmac_key0, pad_right. fold B.
    assert (E1 : Nat.leb (length key) B = true) by (apply Nat.leb_le; exact Hle).
    assert (E2 : Nat.ltb B (length key) = false) by (apply Nat.ltb_ge; exact Hle).
    rewrite E1, E2, Nat.eqb_refl. split; reflexivity.
  - intros Hgt. unfold kp_hmac_keybuf, kp_hmac_local_len, hmac_key0, pad_right. fold B.
    assert (E1 : Nat.leb (length key) B = false) by (apply Nat.leb_gt; exact Hgt).
    assert (E2 : Nat.ltb B (length key) = true) by (apply Nat.ltb_lt; exact Hgt).
    assert (E3 : Nat.eqb (md_dlen X) (length key) = false) by (apply Nat.eqb_neq; fold B in Hd; lia).
    rewrite E1, E2, E3, (md_digest_length X key HX). repeat split; reflexivity.
Qed.

(* the model of the C function = the specification-level formulation of Spec/HMAC.v *)
Theorem kp_hmac_ipad_opad_eq_spec X key : In X hmac_hashes ->
  kp_hmac_ipad_opad X key =
  match hmac_ipad_state X key, hmac_opad_state X key with
  | Some i, Some o => Some (i, o)
  | _, _ => None
  end.
Proof.
  intros HX. unfold kp_hmac_ipad_opad, kp_hmac_refused, hmac_ipad_state, hmac_opad_state, hmac_pad_state.
  destruct (Nat.ltb (md_block X) (length key) && negb (md_ipad_long_key X)); [reflexivity|].
  unfold kp_one_block.
  destruct (hmac_pad_lengths_thm X 0x36%N key HX) as (_ & -> & _).
  destruct (hmac_pad_lengths_thm X 0x5c%N key HX) as (_ & -> & _). reflexivity.
Qed.

(* HMAC-MD5 keys longer than one block are refused, every other (hash, key) pair is accepted *)
Theorem md5_long_key_refused_thm X key : In X hmac_hashes ->
  (kp_hmac_ipad_opad X key = None <-> (X = H_MD5 /\ (64 < length key)%nat)).
Proof.
  unfold hmac_hashes, kp_hmac_ipad_opad, kp_hmac_refused. cbn [In].
  intros [<-|[<-|[<-|[<-|[<-|[<-|[<-|[]]]]]]]];
  cbn [md_block md_ipad_long_key H_SHA1 H_SHA224 H_SHA256 H_SHA384 H_SHA512 H_MD5 H_SM3 negb];
  rewrite ?andb_false_r, ?andb_true_r; split;
  try (intros H; discriminate H);
  try (intros (H & _); discriminate H).
  - destruct (Nat.ltb 64 (length key)) eqn:E; [|intros H; discriminate H].
    intros _. split; [reflexivity|apply Nat.ltb_lt; exact E].
  - intros (_ & H). apply Nat.ltb_lt in H. rewrite H. reflexivity.
Qed.

(* ========================================================================================== *)
(* SM4: the decryption key buffer is the encryption key buffer with the 32 words reversed        *)
(* ========================================================================================== *)
Lemma sm4_ke_rounds_length cks : forall k0 k1 k2 k3, length (sm4_ke_rounds cks k0 k1 k2 k3) = length cks.
Proof. induction cks as [|c t IH]; intros; cbn [sm4_ke_rounds length]; [reflexivity|rewrite IH; reflexivity]. Qed.

Lemma sm4_key_expand_length key : length (sm4_key_expand key) = 32%nat.
Proof. unfold sm4_key_expand. rewrite sm4_ke_rounds_length. reflexivity. Qed.

Lemma word_of_flat_map (f : N -> bytes) (l : list N) i :
  (forall x, length (f x) = 4%nat) -> (i < length l)%nat ->
  firstn 4 (skipn (4 * i) (flat_map f l)) = f (nth i l 0%N).
Proof.
  intros Hf. revert i. induction l as [|x t IH]; intros i Hi; [cbn in Hi; lia|].
  cbn [flat_map]. destruct i as [|i].
  - rewrite Nat.mul_0_r. cbn [skipn nth]. rewrite firstn_app, (Hf x), Nat.sub_diag, firstn_O, app_nil_r.
    rewrite <- (Hf x). apply firstn_all.
  - replace (4 * S i)%nat with (length (f x) + 4 * i)%nat by (rewrite Hf; lia).
    rewrite skipn_app, skipn_all2 by lia. cbn [app].
    replace (length (f x) + 4 * i - length (f x))%nat with (4 * i)%nat by lia.
    cbn [nth]. apply IH. cbn in Hi. lia.
Qed.

Theorem sm4_dec_keys_are_reversed_enc_keys_thm key :
  let '(enc, dec) := kp_sm4_keyexp key in
  length enc = 128%nat /\ length dec = 128%nat /\
  (forall i, (i < 32)%nat ->
     (* word i of the encryption buffer is round key rk_i, little-endian *)
     firstn 4 (skipn (4 * i) enc) = le32 (nth i (sm4_key_expand key) 0%N) /\
     (* word i of the decryption buffer is word 31-i of the encryption buffer *)
     firstn 4 (skipn (4 * i) dec) = firstn 4 (skipn (4 * (31 - i)) enc)).
Proof.
  unfold kp_sm4_keyexp, sm4_keyexp_lib. pose proof (sm4_key_expand_length key) as Hl.
  set (rks := sm4_key_expand key) in *.
  assert (Hf : forall x, length (le32 x) = 4%nat) by (intros; apply N_to_le_length).
  split; [rewrite (flat_map_const_length le32 4%nat) by exact Hf; rewrite Hl; reflexivity|].
  split; [rewrite (flat_map_const_length le32 4%nat) by exact Hf; rewrite rev_length, Hl; reflexivity|].
  intros i Hi. split.
  - apply word_of_flat_map; [exact Hf|lia].
  - rewrite !word_of_flat_map by (try exact Hf; rewrite ?rev_length; lia).
    rewrite rev_nth by lia. rewrite Hl. reflexivity.
Qed.

(* ========================================================================================== *)
(* CMAC sub-keys: the two-halves-with-carry doubling of the assembly is SP 800-38B doubling      *)
(* (bit-level lemmas in Proofs/KeyPrepBits.v)                                                    *)
(* ========================================================================================== *)
From IMB Require Import Proofs.KeyPrepBits Proofs.KeyPrepDES Spec.DES.

Lemma cmac_dbl_lib_eq_all b : cmac_dbl_lib b = cmac_dbl b.
Proof.
  unfold cmac_dbl_lib, cmac_dbl. cbv zeta. rewrite cmac_dbl_lib_N_eq_all. reflexivity.
Qed.

Theorem cmac_subkey_doubling_thm key :
  let L := aes_enc_rk (aes_key_expand key) (zeros 16) in
  kp_cmac_subkeys key = (cmac_dbl L, cmac_dbl (cmac_dbl L)) /\
  kp_cmac_subkeys key = cmac_subkeys key.
Proof.
  cbv zeta. unfold kp_cmac_subkeys, cmac_subkeys, cmac_subkeys_gen. cbv zeta.
  rewrite !cmac_dbl_lib_eq_all. split; reflexivity.
Qed.

(* ========================================================================================== *)
(* DES: the library image is the bit-reversed 6-bit groups of the symbolic key-bit selection     *)
(* ========================================================================================== *)
Theorem des_keysched_is_selection_thm key :
  des_key_schedule_std key = des_key_schedule_sel (be_to_N key) /\
  kp_des_keysched key = flat_map des_subkey_lib_bytes (des_key_schedule_sel (be_to_N key)).
Proof.
  unfold kp_des_keysched, des_key_schedule_lib, des_key_schedule_std.
  rewrite des_key_schedule_is_selection. split; reflexivity.
Qed.

(* ---- packaged statements for Props/Properties_C11.v ---- *)
From IMB Require Import Spec.ZUC Spec.SNOW3G Spec.KASUMI.

Theorem cmac_subkey_doubling_all :
  (forall key : bytes,
     let L := aes_enc_rk (aes_key_expand key) (zeros 16) in
     kp_cmac_subkeys key = (cmac_dbl L, cmac_dbl (cmac_dbl L)) /\
     kp_cmac_subkeys key = cmac_subkeys key) /\
  (forall b : bytes, cmac_dbl_lib b = cmac_dbl b) /\
  (forall x i : N, (x < 2^128)%N -> (i < 128)%N ->
     N.testbit (cmac_dbl_lib_N x) i =
     xorb (if (i =? 0)%N then false else N.testbit x (i - 1)) (N.testbit x 127 && N.testbit 135 i)).
Proof.
  split; [exact cmac_subkey_doubling_thm|]. split; [exact cmac_dbl_lib_eq_all|exact cmac_dbl_bits].
Qed.

Theorem des_pc1_pc2_thm :
  (forall key : bytes,
     des_key_schedule_std key = des_key_schedule_sel (be_to_N key) /\
     kp_des_keysched key = flat_map des_subkey_lib_bytes (des_key_schedule_sel (be_to_N key))) /\
  length des_key_sel = 16%nat /\
  Forall (fun sel => length sel = 48%nat /\ NoDup sel /\
                     Forall (fun t => (1 <= t <= 64)%nat /\ Nat.modulo t 8 <> 0%nat) sel) des_key_sel.
Proof. split; [exact des_keysched_is_selection_thm|exact des_key_sel_facts]. Qed.

Theorem iv_gen_layouts_thm :
  (forall count bearer dir, kp_zuc_eea3_iv_gen count bearer dir = zuc_eea3_iv_gen count bearer dir) /\
  (forall count bearer dir, kp_zuc_eia3_iv_gen count bearer dir = zuc_eia3_iv_gen count bearer dir) /\
  (forall count bearer dir, kp_snow3g_f8_iv_gen count bearer dir = snow3g_f8_iv_gen count bearer dir) /\
  (forall count fresh dir, kp_snow3g_f9_iv_gen count fresh dir = snow3g_f9_iv_gen count fresh dir) /\
  (forall count bearer dir, kp_kasumi_f8_iv_gen count bearer dir = kasumi_f8_iv_gen count bearer dir) /\
  (forall count fresh, kp_kasumi_f9_iv_gen count fresh = kasumi_f9_iv_gen count fresh).
Proof.
  repeat split;
  [exact kp_zuc_eea3_iv_gen_eq|exact kp_zuc_eia3_iv_gen_eq|exact kp_snow3g_f8_iv_gen_eq
  |exact kp_snow3g_f9_iv_gen_eq|exact kp_kasumi_f8_iv_gen_eq|exact kp_kasumi_f9_iv_gen_eq].
Qed.

Theorem hash_output_sizes_thm :
  forall (X : md_hash) (blk msg : bytes), In X hmac_hashes ->
  length (kp_one_block X blk) = md_state_bytes X /\ length (md_full X msg) = md_dlen X.
Proof. intros X blk msg HX. split; [apply kp_one_block_length|apply md_digest_length]; exact HX. Qed.
