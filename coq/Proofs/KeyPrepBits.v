(* Proofs/KeyPrepBits.v — bit/byte-level facts behind the key-preparation helpers (property C11):
   CMAC doubling on two 64-bit halves = SP 800-38B doubling, bswap32 + little-endian store =
   big-endian bytes, the C-level IV generators = the standard-level ones, and the field placement
   of COUNT / BEARER / DIRECTION / FRESH in the generated IVs.  Every statement is universally
   quantified and proved by reasoning on bits (N.bits_inj + testbit specifications). *)
From Coq Require Import List NArith Bool Lia.
From IMB Require Import Lib.Bytes Spec.CMAC Spec.ZUC Spec.SNOW3G Spec.KASUMI Spec.KeyPrep.
Import ListNotations.
Local Open Scope N_scope.

(* ------------------------------------------------------------------------------------------ *)
(* testbit toolbox                                                                             *)
(* ------------------------------------------------------------------------------------------ *)
Lemma tb_ones k n : N.testbit (N.ones k) n = (n <? k).
Proof.
  destruct (N.ltb_spec n k).
  - apply N.ones_spec_low; lia.
  - apply N.ones_spec_high; lia.
Qed.

Lemma tb_shiftl a k n : N.testbit (N.shiftl a k) n = (k <=? n) && N.testbit a (n - k).
Proof.
  destruct (N.leb_spec k n).
  - rewrite N.shiftl_spec_high' by lia. reflexivity.
  - rewrite N.shiftl_spec_low by lia. reflexivity.
Qed.

Lemma tb_1 n : N.testbit 1 n = (n =? 0).
Proof.
  change 1 with (N.ones 1). rewrite tb_ones.
  destruct (N.ltb_spec n 1), (N.eqb_spec n 0); try reflexivity; lia.
Qed.

Lemma tb_if (c : bool) a b n :
  N.testbit (if c then a else b) n = if c then N.testbit a n else N.testbit b n.
Proof. destruct c; reflexivity. Qed.

Lemma lt_pow2_of_bits a k : (forall n, k <= n -> N.testbit a n = false) -> a < 2 ^ k.
Proof.
  intro H.
  assert (E : a = a mod 2 ^ k).
  { apply N.bits_inj; intro n. destruct (N.lt_ge_cases n k).
    - rewrite N.mod_pow2_bits_low by assumption. reflexivity.
    - rewrite N.mod_pow2_bits_high by assumption. auto. }
  rewrite E. apply N.mod_lt. apply N.pow_nonzero. lia.
Qed.

Lemma bits_of_lt_pow2 a k n : a < 2 ^ k -> k <= n -> N.testbit a n = false.
Proof.
  intros H Hn. rewrite <- (N.mod_small a (2 ^ k)) by assumption.
  apply N.mod_pow2_bits_high. assumption.
Qed.

Lemma tb_135_high n : 8 <= n -> N.testbit 135 n = false.
Proof. intro H. apply (bits_of_lt_pow2 135 8); [reflexivity | assumption]. Qed.

(* rewrite every testbit of a bitwise expression into a boolean formula over testbits of the
   variables and comparisons of the index *)
Ltac rw_bits :=
  repeat (rewrite ?tb_if, ?N.land_spec, ?N.lor_spec, ?N.lxor_spec, ?N.shiftr_spec', ?tb_shiftl,
                  ?tb_ones, ?tb_1).

Ltac cmp_split :=
  repeat match goal with
    | |- context [?a <? ?b] => destruct (N.ltb_spec a b); try lia
    | |- context [?a <=? ?b] => destruct (N.leb_spec a b); try lia
    | |- context [?a =? ?b] => destruct (N.eqb_spec a b); try lia
    end.

Ltac bool_norm :=
  repeat (rewrite ?andb_true_r, ?andb_false_r, ?orb_false_r, ?orb_true_r, ?xorb_false_r,
                  ?andb_true_l, ?andb_false_l, ?orb_false_l, ?orb_true_l, ?xorb_false_l).

(* ------------------------------------------------------------------------------------------ *)
(* 1. CMAC doubling                                                                            *)
(* ------------------------------------------------------------------------------------------ *)

(* the bit formula both formulations satisfy, at every bit index n (also n >= 128) *)
Definition dbl_bit (x n : N) : bool :=
  xorb ((n <? 128) && ((1 <=? n) && N.testbit x (n - 1))) (N.testbit x 127 && N.testbit 135 n).

Lemma if_lor_1 (c : bool) a : (if c then N.lor a 1 else a) = N.lor a (N.b2n c).
Proof. destruct c; simpl; [reflexivity | rewrite N.lor_0_r; reflexivity]. Qed.

Lemma tb_b2n (c : bool) n : N.testbit (N.b2n c) n = c && (n =? 0).
Proof. destruct c; simpl N.b2n; [apply tb_1 | apply N.bits_0]. Qed.

Ltac fin_bits :=
  cmp_split; bool_norm; try reflexivity; try lia; try (f_equal; lia); try (f_equal; f_equal; lia).

Lemma cmac_dbl_lib_N_bit x n : N.testbit (cmac_dbl_lib_N x) n = dbl_bit x n.
Proof.
  unfold cmac_dbl_lib_N, dbl_bit, w64.
  change mask64 with (N.ones 64).
  rewrite if_lor_1.
  rw_bits. rewrite tb_b2n. rw_bits.
  replace (63 + 64) with 127 by reflexivity.
  change (63 <? 64) with true. rewrite andb_true_r.
  destruct (N.testbit x 127) eqn:E127.
  - destruct (N.le_gt_cases 8 n) as [H8|H8].
    + rewrite (tb_135_high n H8). fin_bits.
    + fin_bits.
  - fin_bits.
Qed.

(* the SP 800-38B formulation satisfies the same bit formula *)
Definition cmac_dbl_spec_N (x : N) : N :=
  let y := w128 (N.shiftl x 1) in if N.testbit x 127 then N.lxor y 135 else y.

Lemma cmac_dbl_spec_N_bit x n : N.testbit (cmac_dbl_spec_N x) n = dbl_bit x n.
Proof.
  unfold cmac_dbl_spec_N, dbl_bit, w128.
  change mask128 with (N.ones 128).
  cbv zeta. rw_bits.
  destruct (N.testbit x 127) eqn:E127.
  - destruct (N.le_gt_cases 8 n) as [H8|H8].
    + rewrite (tb_135_high n H8). fin_bits.
    + fin_bits.
  - fin_bits.
Qed.

(* holds for every x, also beyond 128 bits: both sides only look at bits 0..127 of x *)
Lemma cmac_dbl_lib_N_eq_all x : cmac_dbl_lib_N x = cmac_dbl_spec_N x.
Proof.
  apply N.bits_inj; intro n.
  rewrite cmac_dbl_lib_N_bit, cmac_dbl_spec_N_bit. reflexivity.
Qed.

Theorem cmac_dbl_lib_N_eq : forall x : N, (x < 2^128)%N ->
  cmac_dbl_lib_N x = (let y := w128 (N.shiftl x 1) in if N.testbit x 127 then N.lxor y 135 else y).
Proof. intros x _. apply cmac_dbl_lib_N_eq_all. Qed.

Theorem cmac_dbl_bits : forall x i, (x < 2^128)%N -> (i < 128)%N ->
  N.testbit (cmac_dbl_lib_N x) i =
  xorb (if (i =? 0)%N then false else N.testbit x (i - 1)) (N.testbit x 127 && N.testbit 135 i).
Proof.
  intros x i _ Hi. rewrite cmac_dbl_lib_N_bit. unfold dbl_bit.
  f_equal. fin_bits.
Qed.

(* be_to_N masks every element with w8, so the bound holds for any list *)
Lemma be_to_N_bits l : forall n, 8 * N.of_nat (length l) <= n -> N.testbit (be_to_N l) n = false.
Proof.
  induction l as [|b t IH]; intros n Hn.
  - apply N.bits_0.
  - cbn [be_to_N]. cbn [length] in Hn. unfold w8. change mask8 with (N.ones 8).
    rw_bits. rewrite IH by lia. fin_bits.
Qed.

Lemma be_to_N_lt l : be_to_N l < 2 ^ (8 * N.of_nat (length l)).
Proof. apply lt_pow2_of_bits. apply be_to_N_bits. Qed.

Theorem cmac_dbl_lib_eq : forall b : bytes, length b = 16%nat -> cmac_dbl_lib b = cmac_dbl b.
Proof.
  intros b Hb. unfold cmac_dbl_lib, cmac_dbl. cbv zeta.
  rewrite cmac_dbl_lib_N_eq.
  - reflexivity.
  - pose proof (be_to_N_lt b) as H. rewrite Hb in H. exact H.
Qed.

(* ------------------------------------------------------------------------------------------ *)
(* 2. bswap32 + little-endian store = big-endian bytes                                         *)
(* ------------------------------------------------------------------------------------------ *)
Lemma tb_ff00 n : N.testbit 65280 n = (8 <=? n) && (n <? 16).
Proof.
  change 65280 with (N.shiftl (N.ones 8) 8). rw_bits. fin_bits.
Qed.

Ltac rw_bits2 :=
  repeat (rewrite ?tb_if, ?N.land_spec, ?N.lor_spec, ?N.lxor_spec, ?N.shiftr_spec', ?tb_shiftl,
                  ?tb_ones, ?tb_1, ?tb_ff00).

(* bswap32 only reads bits 0..31 of its argument, so no range hypothesis is needed *)
Lemma store32_bswap32_be_all c : store32 (bswap32 c) = be32 c.
Proof.
  unfold store32, be32, le32, N_to_be. cbn [N_to_le rev app].
  unfold bswap32, w8, w32.
  change mask8 with (N.ones 8). change mask32 with (N.ones 32). change 255 with (N.ones 8).
  f_equal; [| f_equal; [| f_equal; [| f_equal]]].
  all: apply N.bits_inj; intro n; rw_bits2.
  all: destruct (N.lt_ge_cases n 8); [| fin_bits].
  all: fin_bits.
Qed.

Lemma be32_w32 c : be32 (w32 c) = be32 c.
Proof.
  unfold be32, N_to_be. cbn [N_to_le rev app]. unfold w8, w32.
  change mask8 with (N.ones 8). change mask32 with (N.ones 32).
  f_equal; [| f_equal; [| f_equal; [| f_equal]]].
  all: apply N.bits_inj; intro n; rw_bits2.
  all: fin_bits.
Qed.

Theorem store32_bswap32_be : forall c : N, store32 (bswap32 (w32 c)) = be32 c.
Proof. intro c. rewrite store32_bswap32_be_all. apply be32_w32. Qed.

Lemma w32_small c : c < 2 ^ 32 -> w32 c = c.
Proof.
  intro H. unfold w32. change mask32 with (N.ones 32).
  rewrite N.land_ones. apply N.mod_small. exact H.
Qed.

Lemma w32_lt c : w32 c < 2 ^ 32.
Proof.
  unfold w32. change mask32 with (N.ones 32). rewrite N.land_ones.
  apply N.mod_lt. discriminate.
Qed.

(* reading the four big-endian bytes back gives the low 32 bits, for every c *)
Lemma be_to_N_be32 c : be_to_N (be32 c) = w32 c.
Proof.
  unfold be32, N_to_be. cbn [N_to_le rev app be_to_N length].
  change (8 * N.of_nat 3) with 24. change (8 * N.of_nat 2) with 16.
  change (8 * N.of_nat 1) with 8. change (8 * N.of_nat 0) with 0.
  unfold w8, w32. change mask8 with (N.ones 8). change mask32 with (N.ones 32).
  apply N.bits_inj; intro n. rw_bits2. rewrite N.bits_0.
  destruct (N.lt_ge_cases n 8); [fin_bits|].
  destruct (N.lt_ge_cases n 16); [fin_bits|].
  destruct (N.lt_ge_cases n 24); [fin_bits|].
  fin_bits.
Qed.

Theorem be32_roundtrip : forall c, (c < 2^32)%N -> be_to_N (be32 c) = c.
Proof. intros c H. rewrite be_to_N_be32. apply w32_small. exact H. Qed.

(* ------------------------------------------------------------------------------------------ *)
(* 3. C-level IV generators = standard-level IV generators, for all argument values             *)
(* ------------------------------------------------------------------------------------------ *)
Lemma be32_cons c : exists a b d e, be32 c = [a; b; d; e].
Proof. unfold be32, N_to_be. cbn [N_to_le rev app]. repeat eexists. Qed.

Lemma dir_cases dir : (1 <? dir) = false -> dir = 0 \/ dir = 1.
Proof. intro H. apply N.ltb_ge in H. lia. Qed.

Theorem kp_zuc_eea3_iv_gen_eq : forall count bearer dir,
  kp_zuc_eea3_iv_gen count bearer dir = zuc_eea3_iv_gen count bearer dir.
Proof.
  intros. unfold kp_zuc_eea3_iv_gen, zuc_eea3_iv_gen.
  rewrite store32_bswap32_be. reflexivity.
Qed.

Theorem kp_zuc_eia3_iv_gen_eq : forall count bearer dir,
  kp_zuc_eia3_iv_gen count bearer dir = zuc_eia3_iv_gen count bearer dir.
Proof.
  intros. unfold kp_zuc_eia3_iv_gen, zuc_eia3_iv_gen.
  destruct (32 <=? bearer); [reflexivity|].
  destruct (1 <? dir) eqn:Hd; [reflexivity|].
  cbn [orb]. cbv zeta.
  rewrite store32_bswap32_be.
  destruct (be32_cons count) as (a & b & d & e & E). rewrite E.
  unfold set_nth, nth_N. cbn [app firstn skipn nth].
  (* dir is 0 or 1 here, so the uint8_t truncation of dir << 7 is the identity *)
  destruct (dir_cases dir Hd) as [-> | ->]; reflexivity.
Qed.

Theorem kp_snow3g_f8_iv_gen_eq : forall count bearer dir,
  kp_snow3g_f8_iv_gen count bearer dir = snow3g_f8_iv_gen count bearer dir.
Proof.
  intros. unfold kp_snow3g_f8_iv_gen, snow3g_f8_iv_gen.
  rewrite !store32_bswap32_be. cbv zeta. rewrite <- !app_assoc. reflexivity.
Qed.

Theorem kp_snow3g_f9_iv_gen_eq : forall count fresh dir,
  kp_snow3g_f9_iv_gen count fresh dir = snow3g_f9_iv_gen count fresh dir.
Proof.
  intros. unfold kp_snow3g_f9_iv_gen, snow3g_f9_iv_gen.
  destruct (1 <? dir) eqn:Hd; [reflexivity|].
  cbv zeta. rewrite !store32_bswap32_be, !store32_bswap32_be_all.
  destruct (dir_cases dir Hd) as [-> | ->]; reflexivity.
Qed.

Theorem kp_kasumi_f8_iv_gen_eq : forall count bearer dir,
  kp_kasumi_f8_iv_gen count bearer dir = kasumi_f8_iv_gen count bearer dir.
Proof.
  intros. unfold kp_kasumi_f8_iv_gen, kasumi_f8_iv_gen.
  rewrite store32_bswap32_be.
  destruct (N.leb_spec 32 bearer), (N.ltb_spec 1 dir), (N.ltb_spec bearer 32), (N.ltb_spec dir 2);
    try reflexivity; lia.
Qed.

Theorem kp_kasumi_f9_iv_gen_eq : forall count fresh,
  kp_kasumi_f9_iv_gen count fresh = kasumi_f9_iv_gen count fresh.
Proof.
  intros. unfold kp_kasumi_f9_iv_gen, kasumi_f9_iv_gen.
  rewrite !store32_bswap32_be. reflexivity.
Qed.

(* ------------------------------------------------------------------------------------------ *)
(* 4. Field placement of COUNT / BEARER / DIRECTION / FRESH                                     *)
(* ------------------------------------------------------------------------------------------ *)

(* byte 4 of the ZUC-EEA3 / KASUMI-F8 IV: BEARER in bits 7..3, DIRECTION in bit 2, 00 below;
   proved arithmetically for all bearer < 32, dir < 2 (no enumeration) *)
Lemma iv4_value bearer dir : bearer < 32 -> dir < 2 ->
  w8 (N.shiftl bearer 3 + N.shiftl dir 2) = 8 * bearer + 4 * dir.
Proof.
  intros Hb Hd. unfold w8. change mask8 with (N.ones 8).
  rewrite N.land_ones, !N.shiftl_mul_pow2.
  change (2 ^ 3) with 8. change (2 ^ 2) with 4. change (2 ^ 8) with 256.
  rewrite N.mod_small by lia. lia.
Qed.

Lemma iv4_fields bearer dir : bearer < 32 -> dir < 2 ->
  let v := w8 (N.shiftl bearer 3 + N.shiftl dir 2) in
  N.shiftr v 3 = bearer /\ N.land (N.shiftr v 2) 1 = dir /\ N.land v 3 = 0.
Proof.
  intros Hb Hd. cbv zeta. rewrite (iv4_value bearer dir Hb Hd).
  change 1 with (N.ones 1) at 1. change 3 with (N.ones 2) at 2.
  rewrite !N.land_ones, !N.shiftr_div_pow2.
  change (2 ^ 3) with 8. change (2 ^ 2) with 4. change (2 ^ 1) with 2.
  repeat split.
  - symmetry. apply (N.div_unique _ 8 bearer (4 * dir)); lia.
  - replace ((8 * bearer + 4 * dir) / 4) with (2 * bearer + dir)
      by (apply (N.div_unique _ 4 _ 0); lia).
    symmetry. apply (N.mod_unique _ 2 bearer dir); lia.
  - symmetry. apply (N.mod_unique _ 4 (2 * bearer + dir) 0); lia.
Qed.

Lemma shl3_w8 bearer : bearer < 32 -> w8 (N.shiftl bearer 3) = N.shiftl bearer 3.
Proof.
  intro Hb. unfold w8. change mask8 with (N.ones 8).
  rewrite N.land_ones, N.shiftl_mul_pow2. change (2 ^ 3) with 8. change (2 ^ 8) with 256.
  apply N.mod_small. lia.
Qed.

Lemma f8_word_lt bearer dir : bearer < 32 -> dir < 2 ->
  N.lor (N.shiftl bearer 27) (N.shiftl dir 26) < 2 ^ 32.
Proof.
  intros Hb Hd. apply lt_pow2_of_bits; intros n Hn. rw_bits.
  rewrite (bits_of_lt_pow2 bearer 5 (n - 27)) by (try exact Hb; lia).
  rewrite (bits_of_lt_pow2 dir 1 (n - 26)) by (try exact Hd; lia).
  bool_norm. reflexivity.
Qed.

Lemma lxor_dir_lt c dir k : c < 2 ^ 32 -> dir < 2 -> k < 32 -> N.lxor c (N.shiftl dir k) < 2 ^ 32.
Proof.
  intros Hc Hd Hk. apply lt_pow2_of_bits; intros n Hn. rw_bits.
  rewrite (bits_of_lt_pow2 c 32 n) by assumption.
  rewrite (bits_of_lt_pow2 dir 1 (n - k)) by (try exact Hd; lia).
  bool_norm. reflexivity.
Qed.

Lemma range_tests bearer dir : bearer < 32 -> dir < 2 ->
  (32 <=? bearer) = false /\ (1 <? dir) = false /\ (bearer <? 32) = true /\ (dir <? 2) = true.
Proof.
  intros. repeat split;
    [apply N.leb_gt | apply N.ltb_ge | apply N.ltb_lt | apply N.ltb_lt]; lia.
Qed.

Lemma place_zuc_eea3 count bearer dir : count < 2^32 -> bearer < 32 -> dir < 2 ->
  exists iv, zuc_eea3_iv_gen count bearer dir = Some iv /\ length iv = 16%nat /\
    be_to_N (firstn 4 iv) = count /\ N.shiftr (nth 4 iv 0) 3 = bearer /\
    N.land (N.shiftr (nth 4 iv 0) 2) 1 = dir /\ N.land (nth 4 iv 0) 3 = 0 /\
    firstn 3 (skipn 5 iv) = [0;0;0] /\ skipn 8 iv = firstn 8 iv.
Proof.
  intros Hc Hb Hd. unfold zuc_eea3_iv_gen.
  destruct (range_tests bearer dir Hb Hd) as (T1 & T2 & _ & _). rewrite T1, T2. cbn [orb]. cbv zeta.
  eexists; split; [reflexivity|].
  destruct (iv4_fields bearer dir Hb Hd) as (F1 & F2 & F3). cbv zeta in F1, F2, F3.
  pose proof (be32_roundtrip count Hc) as R.
  destruct (be32_cons count) as (a & b & d & e & E). rewrite E in *.
  cbn [app length firstn skipn nth].
  repeat split; try reflexivity; assumption.
Qed.

Lemma place_zuc_eia3 count bearer dir : count < 2^32 -> bearer < 32 -> dir < 2 ->
  exists iv, zuc_eia3_iv_gen count bearer dir = Some iv /\ length iv = 16%nat /\
    be_to_N (firstn 4 iv) = count /\ nth 4 iv 0 = N.shiftl bearer 3 /\
    firstn 3 (skipn 5 iv) = [0;0;0] /\
    nth 8 iv 0 = N.lxor (nth 0 iv 0) (N.shiftl dir 7) /\
    nth 14 iv 0 = N.lxor (nth 6 iv 0) (N.shiftl dir 7) /\
    (forall i, (8 <= i < 16)%nat -> i <> 8%nat -> i <> 14%nat -> nth i iv 0 = nth (i - 8) iv 0).
Proof.
  intros Hc Hb Hd. unfold zuc_eia3_iv_gen.
  destruct (range_tests bearer dir Hb Hd) as (T1 & T2 & _ & _). rewrite T1, T2. cbn [orb]. cbv zeta.
  eexists; split; [reflexivity|].
  rewrite (shl3_w8 bearer Hb).
  pose proof (be32_roundtrip count Hc) as R.
  destruct (be32_cons count) as (a & b & d & e & E). rewrite E in *.
  unfold nth_N. cbn [app length firstn skipn nth].
  repeat split; try reflexivity; try assumption.
  intros i Hi H8 H14.
  do 16 (destruct i as [|i]; [try lia; try reflexivity|]). lia.
Qed.

Lemma place_snow3g_f8 count bearer dir : count < 2^32 -> bearer < 32 -> dir < 2 ->
  exists iv, snow3g_f8_iv_gen count bearer dir = Some iv /\ length iv = 16%nat /\
    be_to_N (firstn 4 iv) = count /\
    be_to_N (firstn 4 (skipn 4 iv)) = N.lor (N.shiftl bearer 27) (N.shiftl dir 26) /\
    skipn 8 iv = firstn 8 iv.
Proof.
  intros Hc Hb Hd. unfold snow3g_f8_iv_gen.
  destruct (range_tests bearer dir Hb Hd) as (T1 & T2 & _ & _). rewrite T1, T2. cbn [orb]. cbv zeta.
  eexists; split; [reflexivity|].
  pose proof (be32_roundtrip count Hc) as R.
  pose proof (be32_roundtrip _ (f8_word_lt bearer dir Hb Hd)) as R2.
  destruct (be32_cons count) as (a & b & d & e & E). rewrite E in *.
  destruct (be32_cons (N.lor (N.shiftl bearer 27) (N.shiftl dir 26))) as (a2 & b2 & d2 & e2 & E2).
  rewrite E2 in *.
  cbn [app length firstn skipn nth].
  repeat split; try reflexivity; assumption.
Qed.

Lemma place_snow3g_f9 count fresh dir : count < 2^32 -> fresh < 2^32 -> dir < 2 ->
  exists iv, snow3g_f9_iv_gen count fresh dir = Some iv /\ length iv = 16%nat /\
    be_to_N (firstn 4 iv) = count /\ be_to_N (firstn 4 (skipn 4 iv)) = fresh /\
    be_to_N (firstn 4 (skipn 8 iv)) = N.lxor count (N.shiftl dir 31) /\
    be_to_N (firstn 4 (skipn 12 iv)) = N.lxor fresh (N.shiftl dir 15).
Proof.
  intros Hc Hf Hd. unfold snow3g_f9_iv_gen.
  destruct (range_tests 0 dir) as (_ & T2 & _ & _); [lia | exact Hd |]. rewrite T2.
  eexists; split; [reflexivity|].
  rewrite (w32_small count Hc), (w32_small fresh Hf).
  pose proof (be32_roundtrip count Hc) as R1.
  pose proof (be32_roundtrip fresh Hf) as R2.
  pose proof (be32_roundtrip _ (lxor_dir_lt count dir 31 Hc Hd eq_refl)) as R3.
  pose proof (be32_roundtrip _ (lxor_dir_lt fresh dir 15 Hf Hd eq_refl)) as R4.
  destruct (be32_cons count) as (a1 & b1 & d1 & e1 & E1). rewrite E1 in *.
  destruct (be32_cons fresh) as (a2 & b2 & d2 & e2 & E2). rewrite E2 in *.
  destruct (be32_cons (N.lxor count (N.shiftl dir 31))) as (a3 & b3 & d3 & e3 & E3). rewrite E3 in *.
  destruct (be32_cons (N.lxor fresh (N.shiftl dir 15))) as (a4 & b4 & d4 & e4 & E4). rewrite E4 in *.
  cbn [app length firstn skipn nth].
  repeat split; try reflexivity; assumption.
Qed.

Lemma place_kasumi_f8 count bearer dir : count < 2^32 -> bearer < 32 -> dir < 2 ->
  exists iv, kasumi_f8_iv_gen count bearer dir = Some iv /\ length iv = 8%nat /\
    be_to_N (firstn 4 iv) = count /\ N.shiftr (nth 4 iv 0) 3 = bearer /\
    N.land (N.shiftr (nth 4 iv 0) 2) 1 = dir /\ N.land (nth 4 iv 0) 3 = 0 /\ skipn 5 iv = [0;0;0].
Proof.
  intros Hc Hb Hd. unfold kasumi_f8_iv_gen.
  destruct (range_tests bearer dir Hb Hd) as (_ & _ & T3 & T4). rewrite T3, T4. cbn [andb].
  eexists; split; [reflexivity|].
  destruct (iv4_fields bearer dir Hb Hd) as (F1 & F2 & F3). cbv zeta in F1, F2, F3.
  pose proof (be32_roundtrip count Hc) as R.
  destruct (be32_cons count) as (a & b & d & e & E). rewrite E in *.
  cbn [app length firstn skipn nth].
  repeat split; try reflexivity; assumption.
Qed.

Lemma place_kasumi_f9 count fresh : count < 2^32 -> fresh < 2^32 ->
  length (kasumi_f9_iv_gen count fresh) = 8%nat /\
  be_to_N (firstn 4 (kasumi_f9_iv_gen count fresh)) = count /\
  be_to_N (skipn 4 (kasumi_f9_iv_gen count fresh)) = fresh.
Proof.
  intros Hc Hf. unfold kasumi_f9_iv_gen.
  pose proof (be32_roundtrip count Hc) as R1.
  pose proof (be32_roundtrip fresh Hf) as R2.
  destruct (be32_cons count) as (a1 & b1 & d1 & e1 & E1). rewrite E1 in *.
  destruct (be32_cons fresh) as (a2 & b2 & d2 & e2 & E2). rewrite E2 in *.
  cbn [app length firstn skipn nth].
  repeat split; try reflexivity; assumption.
Qed.

Theorem iv_gen_field_placement : forall count bearer dir fresh,
  (count < 2^32)%N -> (bearer < 32)%N -> (dir < 2)%N -> (fresh < 2^32)%N ->
  (exists iv, zuc_eea3_iv_gen count bearer dir = Some iv /\ length iv = 16%nat /\
     be_to_N (firstn 4 iv) = count /\ N.shiftr (nth 4 iv 0) 3 = bearer /\
     N.land (N.shiftr (nth 4 iv 0) 2) 1 = dir /\ N.land (nth 4 iv 0) 3 = 0 /\
     firstn 3 (skipn 5 iv) = [0;0;0] /\ skipn 8 iv = firstn 8 iv) /\
  (exists iv, zuc_eia3_iv_gen count bearer dir = Some iv /\ length iv = 16%nat /\
     be_to_N (firstn 4 iv) = count /\ nth 4 iv 0 = N.shiftl bearer 3 /\
     firstn 3 (skipn 5 iv) = [0;0;0] /\
     nth 8 iv 0 = N.lxor (nth 0 iv 0) (N.shiftl dir 7) /\ nth 14 iv 0 = N.lxor (nth 6 iv 0) (N.shiftl dir 7) /\
     (forall i, (8 <= i < 16)%nat -> i <> 8%nat -> i <> 14%nat -> nth i iv 0 = nth (i - 8) iv 0)) /\
  (exists iv, snow3g_f8_iv_gen count bearer dir = Some iv /\ length iv = 16%nat /\
     be_to_N (firstn 4 iv) = count /\
     be_to_N (firstn 4 (skipn 4 iv)) = N.lor (N.shiftl bearer 27) (N.shiftl dir 26) /\
     skipn 8 iv = firstn 8 iv) /\
  (exists iv, snow3g_f9_iv_gen count fresh dir = Some iv /\ length iv = 16%nat /\
     be_to_N (firstn 4 iv) = count /\ be_to_N (firstn 4 (skipn 4 iv)) = fresh /\
     be_to_N (firstn 4 (skipn 8 iv)) = N.lxor count (N.shiftl dir 31) /\
     be_to_N (firstn 4 (skipn 12 iv)) = N.lxor fresh (N.shiftl dir 15)) /\
  (exists iv, kasumi_f8_iv_gen count bearer dir = Some iv /\ length iv = 8%nat /\
     be_to_N (firstn 4 iv) = count /\ N.shiftr (nth 4 iv 0) 3 = bearer /\
     N.land (N.shiftr (nth 4 iv 0) 2) 1 = dir /\ N.land (nth 4 iv 0) 3 = 0 /\ skipn 5 iv = [0;0;0]) /\
  (length (kasumi_f9_iv_gen count fresh) = 8%nat /\
     be_to_N (firstn 4 (kasumi_f9_iv_gen count fresh)) = count /\
     be_to_N (skipn 4 (kasumi_f9_iv_gen count fresh)) = fresh).
Proof.
  intros count bearer dir fresh Hc Hb Hd Hf.
  split; [apply place_zuc_eea3; assumption|].
  split; [apply place_zuc_eia3; assumption|].
  split; [apply place_snow3g_f8; assumption|].
  split; [apply place_snow3g_f9; assumption|].
  split; [apply place_kasumi_f8; assumption|].
  apply place_kasumi_f9; assumption.
Qed.

Print Assumptions cmac_dbl_lib_N_eq.
Print Assumptions cmac_dbl_lib_eq.
Print Assumptions cmac_dbl_bits.
Print Assumptions store32_bswap32_be.
Print Assumptions be32_roundtrip.
Print Assumptions kp_zuc_eea3_iv_gen_eq.
Print Assumptions kp_zuc_eia3_iv_gen_eq.
Print Assumptions kp_snow3g_f8_iv_gen_eq.
Print Assumptions kp_snow3g_f9_iv_gen_eq.
Print Assumptions kp_kasumi_f8_iv_gen_eq.
Print Assumptions kp_kasumi_f9_iv_gen_eq.
Print Assumptions iv_gen_field_placement.
