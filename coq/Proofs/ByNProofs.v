(* Proofs/ByNProofs.v — C01: the by-N kernel skeleton of Struct/ByN.v computes the
   specification's mode function, for EVERY group width Nb >= 1 (4, 8, 16, 32 in the library)
   and EVERY message length (whole blocks, a tail of < Nb blocks, a partial block).
   - generic simulation theorem for the skeleton (induction on the number of groups);
   - CTR with the kernels' counter handling (Struct/CtrKernel.v) = Spec CTR;
   - ECB; CBC decrypt (within a group block i is XORed with input block i-1);
   - in-place CBC decrypt (loads of a group precede its stores) = out-of-place. *)
From Coq Require Import List NArith Bool Lia Arith.
From IMB Require Import Lib.Bytes Spec.AES Spec.AESModes Struct.CtrKernel Struct.ByN
  Proofs.C01Lists Proofs.CtrKernelProofs.
Import ListNotations.

(* ---------------------------------------------------------------------------------------- *)
(* generic: the skeleton simulates a reference fold R over the block list *)
Section Simulation.
  Variable St : Type.
  Variable group : St -> list bytes -> list bytes * St.
  Variable partial : St -> bytes -> bytes.
  Variable Nb : nat.
  Hypothesis Nb_pos : 1 <= Nb.

  Variable Ref : Type.
  Variable R : Ref -> list bytes -> list bytes * Ref.
  Variable Rpartial : Ref -> bytes -> bytes.
  Hypothesis R_nil : forall r, R r [] = ([], r).
  Hypothesis R_app : forall r a b,
    R r (a ++ b) = (fst (R r a) ++ fst (R (snd (R r a)) b), snd (R (snd (R r a)) b)).

  Variable rel : St -> Ref -> Prop.
  Hypothesis group_sim : forall st r bs, rel st r -> length bs <= Nb ->
    fst (group st bs) = fst (R r bs) /\ rel (snd (group st bs)) (snd (R r bs)).
  Hypothesis partial_sim : forall st r tl, rel st r -> partial st tl = Rpartial r tl.

  Lemma byN_groups_sim : forall g st r bs, rel st r -> g * Nb <= length bs ->
    fst (fst (byN_groups St group Nb g st bs)) = fst (R r (firstn (g * Nb) bs))
    /\ rel (snd (fst (byN_groups St group Nb g st bs))) (snd (R r (firstn (g * Nb) bs)))
    /\ snd (byN_groups St group Nb g st bs) = skipn (g * Nb) bs.
  Proof.
    induction g as [|g IH]; intros st r bs Hrel Hlen.
    - cbn [byN_groups Nat.mul firstn skipn fst snd]. rewrite R_nil. cbn [fst snd]. auto.
    - cbn [byN_groups].
      destruct (group st (firstn Nb bs)) as [o st1] eqn:Eg.
      destruct (byN_groups St group Nb g st1 (skipn Nb bs)) as [[os st2] rest] eqn:Eb.
      cbn [fst snd].
      assert (Lf : length (firstn Nb bs) <= Nb) by (rewrite firstn_length; lia).
      destruct (group_sim st r (firstn Nb bs) Hrel Lf) as [G1 G2].
      rewrite Eg in G1, G2. cbn [fst snd] in G1, G2.
      assert (Hlen' : g * Nb <= length (skipn Nb bs)).
      { rewrite skipn_length. cbn [Nat.mul] in Hlen. lia. }
      destruct (IH st1 _ (skipn Nb bs) G2 Hlen') as (I1 & I2 & I3).
      rewrite Eb in I1, I2, I3. cbn [fst snd] in I1, I2, I3.
      replace (S g * Nb) with (Nb + g * Nb) by (cbn [Nat.mul]; lia).
      rewrite firstn_skipn_split, R_app. cbn [fst snd].
      rewrite <- skipn_skipn_add. subst o os. auto.
  Qed.

  Theorem byN_blocks_sim : forall st r bs, rel st r ->
    fst (byN_blocks St group Nb st bs) = fst (R r bs)
    /\ rel (snd (byN_blocks St group Nb st bs)) (snd (R r bs)).
  Proof.
    intros st r bs Hrel. unfold byN_blocks.
    set (g := length bs / Nb).
    assert (Hg : g * Nb <= length bs) by (unfold g; rewrite Nat.mul_comm; apply Nat.mul_div_le; lia).
    destruct (byN_groups_sim g st r bs Hrel Hg) as (I1 & I2 & I3).
    destruct (byN_groups St group Nb g st bs) as [[o1 st1] rest] eqn:Eb.
    cbn [fst snd] in I1, I2, I3.
    assert (Hr : length rest < Nb).
    { rewrite I3, skipn_length. unfold g.
      pose proof (Nat.div_mod (length bs) Nb ltac:(lia)).
      pose proof (Nat.mod_upper_bound (length bs) Nb ltac:(lia)). nia. }
    set (r1 := snd (R r (firstn (g * Nb) bs))) in *.
    assert (ER : R r bs = (o1 ++ fst (R r1 rest), snd (R r1 rest))).
    { rewrite <- (firstn_skipn (g * Nb) bs) at 1. rewrite R_app. fold r1. now rewrite <- I3, <- I1. }
    rewrite ER. cbn [fst snd]. clear ER.
    destruct rest as [|b0 rest'].
    - rewrite R_nil. cbn [fst snd]. rewrite app_nil_r. auto.
    - destruct (group_sim st1 r1 (b0 :: rest') I2 ltac:(lia)) as [G1 G2].
      destruct (group st1 (b0 :: rest')) as [o2 st2]. cbn [fst snd] in *.
      subst o2. auto.
  Qed.

  Theorem byN_run_sim : forall st r msg, rel st r ->
    byN_run St group partial Nb st msg =
    let '(bs, tl) := blocks16 msg in
    concat (fst (R r bs)) ++ match tl with [] => [] | _ => Rpartial (snd (R r bs)) tl end.
  Proof.
    intros st r msg Hrel. unfold byN_run. destruct (blocks16 msg) as [bs tl].
    destruct (byN_blocks_sim st r bs Hrel) as [B1 B2].
    destruct (byN_blocks St group Nb st bs) as [out st']. cbn [fst snd] in B1, B2.
    subst out. f_equal. destruct tl; [reflexivity|]. now apply partial_sim.
  Qed.
End Simulation.

(* ---------------------------------------------------------------------------------------- *)
(* ECB *)

Lemma ecb_blocks_map : forall f bs, ecb_blocks f bs = map f bs.
Proof. induction bs; cbn [ecb_blocks map]; congruence. Qed.

Theorem ecb_byN_eq_spec : forall f Nb msg, 1 <= Nb -> ecb_byN f Nb msg = ecb_gen f msg.
Proof.
  intros f Nb msg HN. unfold ecb_byN.
  rewrite (byN_run_sim unit (ecb_group f) (fun _ tl => tl) Nb HN
             unit (fun r bs => (map f bs, r)) (fun _ tl => tl)
             ltac:(reflexivity)
             ltac:(intros; cbn [fst snd]; now rewrite map_app)
             (fun _ _ => True)
             ltac:(intros; split; [reflexivity|exact I])
             ltac:(reflexivity) tt tt msg I).
  unfold ecb_gen. destruct (blocks16 msg) as [bs tl]. cbn [fst snd].
  rewrite ecb_blocks_map. destruct tl; reflexivity.
Qed.

(* ---------------------------------------------------------------------------------------- *)
(* CBC decrypt *)

Lemma cbc_dec_group_eq : forall D cs iv,
  cbc_dec_group D iv cs = (cbc_dec_blocks D iv cs, last cs iv).
Proof.
  intros D cs iv. unfold cbc_dec_group. f_equal.
  revert iv. induction cs as [|c cs IH]; intros iv; [reflexivity|].
  cbn [map xor_lists cbc_dec_blocks]. f_equal. apply IH.
Qed.

Lemma last_cons_default : forall (A : Type) (l : list A) x d, last (x :: l) d = last l x.
Proof.
  intros A l. induction l as [|y l IH]; intros x d; [reflexivity|].
  change (last (x :: y :: l) d) with (last (y :: l) d). rewrite !IH. reflexivity.
Qed.

Lemma cbc_dec_blocks_app : forall D a b iv,
  cbc_dec_blocks D iv (a ++ b) = cbc_dec_blocks D iv a ++ cbc_dec_blocks D (last a iv) b.
Proof.
  intros D a. induction a as [|c a IH]; intros b iv; [reflexivity|].
  cbn [app cbc_dec_blocks]. f_equal. rewrite IH. f_equal. f_equal.
  symmetry. apply last_cons_default.
Qed.

Lemma last_app_default : forall (A : Type) (a b : list A) d, last (a ++ b) d = last b (last a d).
Proof.
  intros A a. induction a as [|x a IH]; intros b d; [reflexivity|].
  cbn [app]. rewrite !last_cons_default. apply IH.
Qed.

Theorem cbc_dec_byN_eq_spec : forall D Nb iv msg, 1 <= Nb ->
  cbc_dec_byN D Nb iv msg = cbc_dec_gen D iv msg.
Proof.
  intros D Nb iv msg HN. unfold cbc_dec_byN.
  rewrite (byN_run_sim bytes (cbc_dec_group D) (fun _ tl => tl) Nb HN
             bytes (fun ch bs => (cbc_dec_blocks D ch bs, last bs ch)) (fun _ tl => tl)
             ltac:(reflexivity)
             ltac:(intros; cbn [fst snd]; now rewrite cbc_dec_blocks_app, last_app_default)
             (@eq bytes)
             ltac:(intros st r bs -> _; rewrite cbc_dec_group_eq; cbn [fst snd]; auto)
             ltac:(reflexivity) iv iv msg eq_refl).
  unfold cbc_dec_gen. destruct (blocks16 msg) as [bs tl]. cbn [fst snd].
  destruct tl; reflexivity.
Qed.

(* in place: the buffer after g groups *)
Lemma xor_lists_length : forall a b, length (xor_lists a b) = Nat.min (length a) (length b).
Proof.
  induction a; destruct b; cbn [xor_lists length]; try reflexivity. now rewrite IHa.
Qed.

Lemma cbc_dec_blocks_length : forall D cs iv, length (cbc_dec_blocks D iv cs) = length cs.
Proof. induction cs; intros; cbn [cbc_dec_blocks length]; [reflexivity|]. now rewrite IHcs. Qed.

Lemma cbc_dec_inplace_groups_spec : forall D Nb g iv A Rm,
  cbc_dec_inplace_groups D Nb g iv (length A) (A ++ Rm) =
  (A ++ cbc_dec_blocks D iv (firstn (g * Nb) Rm) ++ skipn (g * Nb) Rm,
   last (firstn (g * Nb) Rm) iv).
Proof.
  intros D Nb. induction g as [|g IH]; intros iv A Rm.
  - cbn [cbc_dec_inplace_groups Nat.mul firstn skipn cbc_dec_blocks app last]. reflexivity.
  - cbn [cbc_dec_inplace_groups].
    rewrite skipn_app_exact by reflexivity.
    rewrite cbc_dec_group_eq.
    set (cs := firstn Nb Rm).
    rewrite firstn_app_exact by reflexivity.
    replace (skipn (length A + length cs) (A ++ Rm)) with (skipn Nb Rm).
    2:{ rewrite <- skipn_skipn_add, skipn_app_exact by reflexivity.
        unfold cs. rewrite firstn_length.
        destruct (Nat.le_gt_cases Nb (length Rm)) as [L|L].
        - now rewrite Nat.min_l by exact L.
        - rewrite Nat.min_r by lia. now rewrite !skipn_all2 by lia. }
    replace (length A + length cs) with (length (A ++ cbc_dec_blocks D iv cs))
      by (now rewrite app_length, cbc_dec_blocks_length).
    rewrite app_assoc. rewrite IH.
    replace (S g * Nb) with (Nb + g * Nb) by (cbn [Nat.mul]; lia).
    rewrite firstn_skipn_split. fold cs.
    rewrite cbc_dec_blocks_app, last_app_default, <- skipn_skipn_add.
    now rewrite <- !app_assoc.
Qed.

(* In-place by-N CBC decryption = the specification's CBC decryption of the original
   buffer contents (= the out-of-place result), for every group width and buffer length *)
Theorem cbc_dec_inplace_eq_spec : forall D Nb iv mem, 1 <= Nb ->
  cbc_dec_inplace D Nb iv mem = cbc_dec_blocks D iv mem.
Proof.
  intros D Nb iv mem HN. unfold cbc_dec_inplace.
  rewrite (cbc_dec_inplace_groups_spec D Nb _ iv [] mem). cbn [fst app].
  assert (H : length mem <= (length mem / Nb + 1) * Nb).
  { pose proof (Nat.div_mod (length mem) Nb ltac:(lia)).
    pose proof (Nat.mod_upper_bound (length mem) Nb ltac:(lia)). nia. }
  rewrite firstn_all2, skipn_all2 by exact H. apply app_nil_r.
Qed.

Theorem cbc_dec_inplace_eq_outofplace : forall D Nb iv mem, 1 <= Nb ->
  cbc_dec_inplace D Nb iv mem = fst (byN_blocks bytes (cbc_dec_group D) Nb iv mem).
Proof.
  intros D Nb iv mem HN. rewrite cbc_dec_inplace_eq_spec by exact HN.
  destruct (byN_blocks_sim bytes (cbc_dec_group D) Nb HN
              bytes (fun ch bs => (cbc_dec_blocks D ch bs, last bs ch))
              ltac:(reflexivity)
              ltac:(intros; cbn [fst snd]; now rewrite cbc_dec_blocks_app, last_app_default)
              (@eq bytes)
              ltac:(intros st r bs -> _; rewrite cbc_dec_group_eq; cbn [fst snd]; auto)
              iv iv mem eq_refl) as [H _].
  now rewrite H.
Qed.

(* ---------------------------------------------------------------------------------------- *)
(* CTR with the kernels' counter handling *)
Section CtrByN.
  Variable E : bytes -> bytes.
  Local Open Scope N_scope.

  Definition ctr_next32 (c : N) : N := N.land (c + 1) (N.ones 32).

  Lemma ctr_next32_iter : forall k c, c < 2 ^ 32 ->
    Lib.Bytes.iter k ctr_next32 c = (c + N.of_nat k) mod 2 ^ 32.
  Proof.
    induction k as [|k IH]; intros c Hc.
    - cbn [Lib.Bytes.iter N.of_nat]. rewrite N.add_0_r. symmetry. now apply N.mod_small.
    - cbn [Lib.Bytes.iter]. rewrite IH.
      + unfold ctr_next32. rewrite N.land_ones, N.add_mod_idemp_l by discriminate. f_equal. lia.
      + unfold ctr_next32. rewrite N.land_ones. apply N.mod_lt. discriminate.
  Qed.

  Lemma iter_add_compose : forall (A : Type) (f : A -> A) a b x,
    Lib.Bytes.iter (a + b) f x = Lib.Bytes.iter b f (Lib.Bytes.iter a f x).
  Proof.
    intros A f a. induction a as [|a IH]; intros b x; [reflexivity|].
    cbn [Nat.add Lib.Bytes.iter]. apply IH.
  Qed.

  Lemma ctr_loop_app : forall pre nb mask a b c,
    ctr_loop E pre nb mask c (a ++ b) =
    ctr_loop E pre nb mask c a
    ++ ctr_loop E pre nb mask (Lib.Bytes.iter (length a) (fun c => N.land (c + 1) mask) c) b.
  Proof.
    intros pre nb mask a. induction a as [|m a IH]; intros b c; [reflexivity|].
    cbn [app ctr_loop length Lib.Bytes.iter]. f_equal. apply IH.
  Qed.

  (* the register holds Q * 2^32 + c: Q = the 12 leading bytes, c = current 32-bit counter *)
  Lemma ctr_lane32_rel : forall Q c i, Q < 2 ^ 96 -> c < 2 ^ 32 -> i < 2 ^ 32 ->
    ctr_lane32 (Q * 2 ^ 32 + c) i = N_to_be 12 Q ++ N_to_be 4 ((c + i) mod 2 ^ 32).
  Proof.
    intros Q c i HQ Hc Hi. unfold ctr_lane32, ddq_add. rewrite store16_bswap128.
    assert (Hx : Q * 2 ^ 32 + c < 2 ^ 128) by (change (2 ^ 128) with (2 ^ 96 * 2 ^ 32); nia).
    rewrite paddd_low by assumption.
    assert (Hm : (Q * 2 ^ 32 + c) mod 2 ^ 32 = c)
      by (rewrite N.add_comm, N.mod_add by discriminate; now apply N.mod_small).
    rewrite N.div_add_l, (N.div_small c), Hm, N.add_0_r by (try discriminate; exact Hc).
    apply (N_to_be_split 12 4). apply N.mod_lt. discriminate.
  Qed.

  Lemma paddd_rel : forall Q c n, Q < 2 ^ 96 -> c < 2 ^ 32 -> n < 2 ^ 32 ->
    paddd (Q * 2 ^ 32 + c) (ddq_add n) = Q * 2 ^ 32 + (c + n) mod 2 ^ 32.
  Proof.
    intros Q c n HQ Hc Hn. unfold ddq_add.
    assert (Hx : Q * 2 ^ 32 + c < 2 ^ 128) by (change (2 ^ 128) with (2 ^ 96 * 2 ^ 32); nia).
    rewrite paddd_low by assumption.
    assert (Hm : (Q * 2 ^ 32 + c) mod 2 ^ 32 = c)
      by (rewrite N.add_comm, N.mod_add by discriminate; now apply N.mod_small).
    rewrite N.div_add_l, (N.div_small c), Hm, N.add_0_r by (try discriminate; exact Hc).
    reflexivity.
  Qed.

  Variable pre : bytes.
  Hypothesis pre_len : length pre = 12%nat.
  Hypothesis pre_ok : bytes_ok pre = true.
  Let Q := be_to_N pre.

  Lemma Q_lt : Q < 2 ^ 96.
  Proof. unfold Q. pose proof (be_to_N_lt pre) as H. now rewrite pre_len in H. Qed.

  Lemma N_to_be_Q : N_to_be 12 Q = pre.
  Proof. unfold Q. rewrite <- pre_len. now apply N_to_be_be_to_N. Qed.

  (* lanes k, k+1, ... of the register against the specification loop from counter c + k *)
  Lemma ctr_group_lanes : forall bs k c, c < 2 ^ 32 ->
    N.of_nat (k + length bs) < 2 ^ 32 ->
    mapi_from k (fun i b => xor_bytes b (E (ctr_lane32 (Q * 2 ^ 32 + c) (N.of_nat i)))) bs =
    ctr_loop E pre 4 (N.ones 32) ((c + N.of_nat k) mod 2 ^ 32) bs.
  Proof.
    induction bs as [|b bs IH]; intros k c Hc Hk; [reflexivity|].
    pose proof Hk as Hk'. cbn [length] in Hk'.
    cbn [mapi_from ctr_loop]. f_equal.
    - rewrite ctr_lane32_rel by (try apply Q_lt; try assumption; lia).
      now rewrite N_to_be_Q.
    - rewrite IH by (try assumption; cbn [length] in *; lia).
      f_equal. rewrite N.land_ones, N.add_mod_idemp_l by discriminate. f_equal. lia.
  Qed.

  Definition ctr_rel (reg : N) (c : N) : Prop := reg = Q * 2 ^ 32 + c /\ c < 2 ^ 32.

  Definition ctr_R (c : N) (bs : list bytes) : list bytes * N :=
    (ctr_loop E pre 4 (N.ones 32) c bs, Lib.Bytes.iter (length bs) ctr_next32 c).

  Lemma ctr_group_sim : forall Nb, N.of_nat Nb < 2 ^ 32 ->
    forall reg c bs, ctr_rel reg c -> (length bs <= Nb)%nat ->
    fst (ctr_group E reg bs) = fst (ctr_R c bs)
    /\ ctr_rel (snd (ctr_group E reg bs)) (snd (ctr_R c bs)).
  Proof.
    intros Nb HNb reg c bs [-> Hc] Hl. unfold ctr_group, ctr_R. cbn [fst snd].
    assert (Hn : N.of_nat (length bs) < 2 ^ 32) by lia.
    split.
    - rewrite ctr_group_lanes by (try assumption; cbn [Nat.add]; exact Hn).
      cbn [N.of_nat]. now rewrite N.add_0_r, N.mod_small.
    - split.
      + rewrite paddd_rel by (try apply Q_lt; assumption).
        now rewrite ctr_next32_iter.
      + rewrite ctr_next32_iter by exact Hc. apply N.mod_lt. discriminate.
  Qed.
End CtrByN.

Local Open Scope N_scope.

(* IMB_CIPHER_CNTR: for every group width 1 <= Nb < 2^32, every 12/16-byte IV and every message
   length, the by-Nb skeleton with the kernels' counter handling equals the specification *)
Theorem ctr_byN_eq_spec : forall E Nb iv msg, (1 <= Nb)%nat -> N.of_nat Nb < 2 ^ 32 ->
  length iv = 12%nat \/ length iv = 16%nat -> bytes_ok iv = true ->
  ctr_byN E Nb iv msg = ctr_gen E iv msg.
Proof.
  intros E Nb iv msg HN HNb Hiv Oiv. unfold ctr_byN, ctr_gen.
  set (cb := ctr_iv_block iv).
  assert (Lcb : length cb = 16%nat).
  { unfold cb, ctr_iv_block. destruct Hiv as [H|H]; rewrite H; cbn [Nat.eqb]; [|exact H].
    rewrite app_length, H. reflexivity. }
  assert (Ocb : bytes_ok cb = true).
  { unfold cb, ctr_iv_block. destruct (Nat.eqb (length iv) 12); [|exact Oiv].
    apply bytes_ok_app. split; [exact Oiv|reflexivity]. }
  set (pre := firstn 12 cb). set (c0 := be_to_N (skipn 12 cb)).
  assert (Lp : length pre = 12%nat) by (unfold pre; rewrite firstn_length; lia).
  assert (Op : bytes_ok pre = true) by (now apply bytes_ok_firstn).
  assert (Hc0 : c0 < 2 ^ 32).
  { unfold c0. pose proof (be_to_N_lt (skipn 12 cb)) as H. rewrite skipn_length, Lcb in H. exact H. }
  assert (Hreg : ctr_rel pre (ctr_reg cb) c0).
  { split; [|exact Hc0]. rewrite ctr_reg_be by assumption.
    rewrite (be_to_N_split 12 cb). rewrite skipn_length, Lcb. reflexivity. }
  rewrite (byN_run_sim N (ctr_group E) (ctr_partial E) Nb HN
             N (ctr_R E pre) (fun c tl => xor_bytes tl (E (pre ++ N_to_be 4 c)))
             ltac:(reflexivity)
             ltac:(intros; unfold ctr_R; cbn [fst snd];
                   rewrite ctr_loop_app, app_length, iter_add_compose; reflexivity)
             (ctr_rel pre)
             (ctr_group_sim E pre Lp Op Nb HNb)
             ltac:(intros st r tl [-> Hr]; unfold ctr_partial;
                   rewrite ctr_lane32_rel by (try apply (Q_lt pre Lp); try assumption; reflexivity);
                   rewrite (N_to_be_Q pre Lp Op), N.add_0_r, N.mod_small by exact Hr; reflexivity)
             (ctr_reg cb) c0 msg Hreg).
  unfold ctr_w_gen. fold cb. change (16 - 4)%nat with 12%nat. fold pre. fold c0.
  change (8 * N.of_nat 4) with 32.
  destruct (blocks16 msg) as [bs tl] eqn:B.
  rewrite (chunks16_blocks16 msg bs tl B).
  rewrite ctr_loop_app, concat_app. unfold ctr_R. cbn [fst snd]. f_equal.
  destruct tl; [reflexivity|]. cbn [ctr_loop concat]. now rewrite app_nil_r.
Qed.

Close Scope N_scope.

Theorem cbc_dec_byN_inplace : forall D Nb iv mem, 1 <= Nb ->
  cbc_dec_inplace D Nb iv mem = fst (byN_blocks bytes (cbc_dec_group D) Nb iv mem)
  /\ cbc_dec_inplace D Nb iv mem = cbc_dec_blocks D iv mem.
Proof.
  intros. split; [now apply cbc_dec_inplace_eq_outofplace|now apply cbc_dec_inplace_eq_spec].
Qed.

Theorem byN_library_widths : forall Nb, In Nb [4; 8; 16; 32] ->
  (forall E iv msg, length iv = 12 \/ length iv = 16 -> bytes_ok iv = true ->
     ctr_byN E Nb iv msg = ctr_gen E iv msg) /\
  (forall f msg, ecb_byN f Nb msg = ecb_gen f msg) /\
  (forall D iv msg, cbc_dec_byN D Nb iv msg = cbc_dec_gen D iv msg).
Proof.
  intros Nb H.
  assert (H1 : 1 <= Nb /\ (N.of_nat Nb < 2 ^ 32)%N).
  { cbn [In] in H. destruct H as [<-|[<-|[<-|[<-|[]]]]]; split; try lia; reflexivity. }
  destruct H1 as [H1 H2]. repeat split; intros.
  - now apply ctr_byN_eq_spec.
  - now apply ecb_byN_eq_spec.
  - now apply cbc_dec_byN_eq_spec.
Qed.
