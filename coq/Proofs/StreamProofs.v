(* Proofs/StreamProofs.v — C10: the theorems of Props/Properties_C10.v, assembled from
     Proofs/StreamLemmas.v        lists, masks, the generic block-stream-with-leftover theory
     Proofs/ChachaStreamProofs.v  ChaCha20-Poly1305 state machine, generic in the primitives
     Proofs/ChachaSpecInst.v      ... instantiated with Spec, tied to chachapoly_enc / _dec
     Proofs/GcmStreamProofs.v     AES-GCM / GMAC state machine, generic in E and the deferral policy
     Proofs/AesBlockLen.v         AES maps 16-byte blocks to 16-byte blocks
     Proofs/GcmSpecInst.v         ... tied to gcm_enc / gcm_dec / gmac
   Every statement quantifies over ALL messages and ALL segment lists (empty segments included). *)
From Coq Require Import List NArith Bool Lia.
From IMB Require Import Lib.Bytes Spec.ChaCha20 Spec.Poly1305 Spec.ChaChaPoly Spec.GF128 Spec.AES Spec.GCM
     Struct.ChachaStream Struct.GcmStream
     Proofs.StreamLemmas Proofs.ChachaStreamProofs Proofs.ChachaSpecInst
     Proofs.GcmStreamProofs Proofs.AesBlockLen Proofs.GcmSpecInst.
Import ListNotations.
Local Open Scope N_scope.

(* ChaCha20-Poly1305: direct init/update*/finalize, job IMB_SGL_ALL, job INIT/UPDATE*/COMPLETE *)
Lemma chachapoly_sgl_partition_invariant_proof :
  forall (ctx0 : cctx) (key iv aad : bytes) (dir : cdir),
  length (c_scratch ctx0) = 16%nat ->
  (forall segs taglen, N.of_nat (length (concat segs)) < 2 ^ 64 ->
     let '(ctx', outs, tag) := run_direct_spec ctx0 key iv aad dir segs taglen in
     concat outs = fst (chachapoly_oneshot dir key iv aad (concat segs)) /\
     map (@length _) outs = map (@length _) segs /\
     tag = firstn taglen (snd (chachapoly_oneshot dir key iv aad (concat segs))) /\
     sgl_ctx_clean ctx') /\
  (forall segs, N.of_nat (length (concat segs)) < 2 ^ 64 ->
     let '(ctx', outs, tag) := run_job_all_spec ctx0 key iv aad dir segs in
     concat outs = fst (chachapoly_oneshot dir key iv aad (concat segs)) /\
     map (@length _) outs = map (@length _) segs /\
     tag = Some (snd (chachapoly_oneshot dir key iv aad (concat segs))) /\
     sgl_ctx_clean ctx') /\
  (forall first mids last, N.of_nat (length (first ++ concat mids ++ last)) < 2 ^ 64 ->
     let msg := first ++ concat mids ++ last in
     let '(ctx', outs, tag) := run_job_iuc_spec ctx0 key iv aad dir first mids last in
     concat outs = fst (chachapoly_oneshot dir key iv aad msg) /\
     tag = Some (snd (chachapoly_oneshot dir key iv aad msg)) /\
     sgl_ctx_clean ctx').
Proof.
  intros ctx0 key iv aad dir Hs. split; [|split].
  - intros. apply chachapoly_direct_partition_invariant; assumption.
  - intros. apply chachapoly_job_all_partition_invariant; assumption.
  - intros. apply chachapoly_job_iuc_partition_invariant; assumption.
Qed.

Lemma chacha_stream_inv_proof :
  forall (ctx0 : cctx) (key iv aad : bytes) (dir : cdir) (segs : list bytes),
  length (c_scratch ctx0) = 16%nat -> N.of_nat (length (concat segs)) < 2 ^ 64 ->
  chacha_stream_inv ksblock_spec pblock_spec pkey_gen_spec key iv aad
    (match dir with Enc => chacha20 key iv 1 (concat segs) | Dec => concat segs end)
    (fst (update_all ksblock_spec pblock_spec key (init_direct_spec key ctx0 iv aad) segs dir)).
Proof. exact chacha_stream_inv_spec. Qed.

(* AES-GCM: direct (both init entry points), job INIT/UPDATE*/COMPLETE, job IMB_SGL_ALL;
   for every deferral policy of the implementation *)
Lemma gcm_sgl_partition_invariant_proof :
  forall (lazy : gctx -> bytes -> bool) (key iv aad : bytes) (dir : gdir) (segs : list bytes) (taglen : nat),
  (forall twelve, (twelve = true -> length iv = 12%nat) ->
     let '(ctx', outs, tag) := gcm_run_direct (aesE key) lazy twelve iv aad dir segs taglen in
     concat outs = fst (gcm_oneshot dir key iv aad (concat segs) taglen) /\
     map (@length _) outs = map (@length _) segs /\
     tag = snd (gcm_oneshot dir key iv aad (concat segs) taglen) /\
     ctx_cleared ctx') /\
  (forall ctx0,
     let '(ctx', outs, tag) := gcm_run_job_iuc (aesE key) lazy ctx0 iv aad dir segs taglen in
     concat outs = fst (gcm_oneshot dir key iv aad (concat segs) taglen) /\
     map (@length _) outs = map (@length _) segs /\
     tag = Some (snd (gcm_oneshot dir key iv aad (concat segs) taglen)) /\
     ctx_cleared ctx') /\
  (forall ctx0,
     let '(ctx', outs, tag) := gcm_run_job_all (aesE key) lazy ctx0 iv aad dir segs taglen in
     concat outs = fst (gcm_oneshot dir key iv aad (concat segs) taglen) /\
     map (@length _) outs = map (@length _) segs /\
     tag = Some (snd (gcm_oneshot dir key iv aad (concat segs) taglen)) /\
     ctx_cleared ctx').
Proof.
  intros. split; [|split].
  - intros. apply gcm_direct_aes. assumption.
  - intros. apply gcm_job_iuc_aes.
  - intros. apply gcm_job_all_aes.
Qed.

Lemma gcm_stream_inv_proof :
  forall (lazy : gctx -> bytes -> bool) (key : bytes) (twelve : bool) (iv aad : bytes) (dir : gdir)
         (segs : list bytes),
  (twelve = true -> length iv = 12%nat) ->
  let E := aesE key in
  let j0 := gcm_j0 (gcm_hash_subkey E) iv in
  gcm_stream_inv E j0 aad
    (match dir with GEnc => gcm_ctr E j0 (concat segs) | GDec => concat segs end)
    (fst (gcm_update_all E lazy (gcm_init E twelve iv aad) dir segs)).
Proof.
  intros. apply (gcm_stream_inv_gen (aesE key) lazy (aesE_len key)). assumption.
Qed.

Lemma gmac_partition_invariant_proof :
  forall (key iv : bytes) (segs : list bytes) (taglen : nat),
  snd (gmac_run (aesE key) iv segs taglen) = gmac key iv (concat segs) taglen /\
  gmac_stream_inv (aesE key) (gcm_j0 (gcm_hash_subkey (aesE key)) iv) (concat segs)
    (gmac_update_all (aesE key) (gmac_init (aesE key) iv) segs).
Proof.
  intros. split.
  - apply gmac_aes.
  - apply gmac_stream_inv_gen; first [apply aesE_len | exact never_lazy].
Qed.
