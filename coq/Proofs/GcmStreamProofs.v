(* Proofs/GcmStreamProofs.v — C10 for AES-GCM / GMAC streaming: context invariant and
   partition invariance of the model Struct/GcmStream.v, generic in the block cipher [E] and in the
   deferral policy [lazy]; instantiated with AES at the end. *)
From Coq Require Import List NArith Bool Lia Arith ZArith ZifyN ZifyNat ZifyBool.
From IMB Require Import Lib.Bytes Spec.GF128 Spec.AES Spec.GCM Struct.GcmStream Proofs.StreamLemmas.
Import ListNotations.
Ltac Zify.zify_post_hook ::= Z.div_mod_to_equations.
Local Open Scope N_scope.

(* ---------- big-endian block values: xor of byte-disjoint pieces ---------- *)

Lemma be_to_N_zeros : forall k, be_to_N (zeros k) = 0.
Proof.
  induction k; [reflexivity|]. unfold zeros in *. cbn [repeat be_to_N]. rewrite IHk.
  rewrite N.lor_0_r. apply N.shiftl_0_l.
Qed.

Lemma be_to_N_high : forall l i, 8 * N.of_nat (length l) <= i -> N.testbit (be_to_N l) i = false.
Proof.
  induction l as [|b t IH]; intros i Hi.
  - apply N.bits_0.
  - cbn [be_to_N length] in *. rewrite N.lor_spec.
    rewrite IH by lia. rewrite orb_false_r.
    rewrite N.shiftl_spec_high' by lia.
    unfold w8. change mask8 with (N.ones 8). rewrite N.land_spec.
    rewrite N.ones_spec_high by lia. apply andb_false_r.
Qed.

(* (a ++ c) padded = (a padded) xor (zeros |a| ++ c padded), for any total length k *)
Lemma be_to_N_merge : forall a c k, (length a + length c <= k)%nat ->
  be_to_N ((a ++ c) ++ zeros (k - (length a + length c))) =
  N.lxor (be_to_N (a ++ zeros (k - length a)))
         (be_to_N ((zeros (length a) ++ c) ++ zeros (k - (length a + length c)))).
Proof.
  induction a as [|x t IH]; intros c k Hk.
  - cbn [app length zeros repeat]. rewrite Nat.sub_0_r, be_to_N_zeros, N.lxor_0_l. reflexivity.
  - destruct k as [|k]; [simpl in Hk; lia|].
    cbn [app length]. unfold zeros at 3. cbn [repeat]. fold (zeros (length t)).
    cbn [app be_to_N].
    replace (S k - (S (length t) + length c))%nat with (k - (length t + length c))%nat by lia.
    replace (S k - S (length t))%nat with (k - length t)%nat by lia.
    rewrite (IH c k) by (simpl in Hk; lia).
    set (B := be_to_N (t ++ zeros (k - length t))).
    set (C := be_to_N ((zeros (length t) ++ c) ++ zeros (k - (length t + length c)))).
    assert (L1 : length ((t ++ c) ++ zeros (k - (length t + length c))) = k)
      by (rewrite !app_length; unfold zeros; rewrite repeat_length; simpl in Hk; lia).
    assert (L2 : length (t ++ zeros (k - length t)) = k)
      by (rewrite !app_length; unfold zeros; rewrite repeat_length; simpl in Hk; lia).
    assert (L3 : length ((zeros (length t) ++ c) ++ zeros (k - (length t + length c))) = k)
      by (rewrite !app_length; unfold zeros; rewrite !repeat_length; simpl in Hk; lia).
    rewrite L1, L2, L3.
    assert (HB : forall i, 8 * N.of_nat k <= i -> N.testbit B i = false)
      by (intros; apply be_to_N_high; rewrite L2; assumption).
    assert (HC : forall i, 8 * N.of_nat k <= i -> N.testbit C i = false)
      by (intros; apply be_to_N_high; rewrite L3; assumption).
    replace (w8 0) with 0 by reflexivity. rewrite N.shiftl_0_l, N.lor_0_l.
    apply N.bits_inj. intro i.
    rewrite N.lor_spec, !N.lxor_spec, N.lor_spec.
    destruct (N.ltb_spec i (8 * N.of_nat k)) as [Hi|Hi].
    + rewrite N.shiftl_spec_low by assumption. reflexivity.
    + rewrite HB, HC by assumption. destruct (N.testbit (N.shiftl (w8 x) (8 * N.of_nat k)) i); reflexivity.
Qed.

Lemma hash_xor_at_nil : forall y off, (off <= 16)%nat -> hash_xor_at y off [] = y.
Proof.
  intros. unfold hash_xor_at, pad_right. rewrite app_nil_r.
  replace (zeros off ++ zeros (16 - length (zeros off))) with (zeros 16).
  - rewrite be_to_N_zeros. apply N.lxor_0_r.
  - unfold zeros. rewrite repeat_length, <- repeat_app. f_equal. lia.
Qed.

Lemma hash_xor_at_merge : forall y cr c1, (length cr + length c1 <= 16)%nat ->
  hash_xor_at (hash_xor_at y 0 cr) (length cr) c1 = hash_xor_at y 0 (cr ++ c1).
Proof.
  intros y cr c1 H. unfold hash_xor_at, pad_right. cbn [zeros repeat app].
  rewrite N.lxor_assoc. f_equal.
  replace (length (zeros (length cr) ++ c1)) with (length cr + length c1)%nat
    by (rewrite app_length; unfold zeros; rewrite repeat_length; reflexivity).
  rewrite (app_length cr c1).
  symmetry. apply be_to_N_merge. assumption.
Qed.

(* ---------- GHASH over concatenations ---------- *)

Lemma ghash_from_app : forall h y a b k, length a = (16 * k)%nat ->
  ghash_from h (ghash_from h y a) b = ghash_from h y (a ++ b).
Proof.
  intros. unfold ghash_from, ghash_fold.
  rewrite (chunks_app 16 a b k) by (auto; lia). rewrite fold_left_app. reflexivity.
Qed.

Lemma ghash_from_nil : forall h y, ghash_from h y [] = y.
Proof. reflexivity. Qed.

(* multiplying the accumulator that already contains the (zero padded) block [b] = one GHASH step *)
Lemma ghash_from_one : forall h y b, b <> [] -> (length b <= 16)%nat ->
  gf128_mul (hash_xor_at y 0 b) h = ghash_from h y b.
Proof.
  intros h y b Hne Hl. unfold ghash_from, ghash_fold.
  rewrite chunks_short by (auto; lia). cbn [fold_left]. unfold ghash_step, hash_xor_at.
  cbn [zeros repeat app]. reflexivity.
Qed.

Lemma be32_length : forall x, length (be32 x) = 4%nat.
Proof. intros. apply N_to_be_length. Qed.

Definition mult16' (n : nat) : Prop := exists k, n = (16 * k)%nat.

Section Generic.
  Variable E : bytes -> bytes.
  Variable lazy : gctx -> bytes -> bool.
  Hypothesis E_len : forall b, length b = 16%nat -> length (E b) = 16%nat.

  Variable j0 : bytes.
  Hypothesis j0_len : length j0 = 16%nat.
  Variable aad : bytes.

  Let pre := firstn 12 j0.
  Let c0 := be_to_N (skipn 12 j0).
  Let Hk := H E.
  Let ya := ghash_from Hk 0 aad.
  Let blk (c : N) : bytes := E (pre ++ be32 c).
  Let nxt (c : N) : N := w32 (c + 1).

  Lemma pre_len : length pre = 12%nat.
  Proof. unfold pre. rewrite firstn_length. lia. Qed.

  Lemma blk_len : forall c, length (blk c) = 16%nat.
  Proof. intro. unfold blk. apply E_len. rewrite app_length, pre_len, be32_length. reflexivity. Qed.

  Lemma lt16 : (0 < 16)%nat. Proof. lia. Qed.

  Notation ref := (ref blk nxt).
  Notation ref_out := (ref_out blk nxt).
  Notation ref_st := (ref_st blk nxt).
  Definition ref_app16 := ref_app 16 lt16 blk blk_len nxt.

  Lemma gctr_blocks_str : forall cs c, gctr_blocks E pre c cs = str_chunks blk nxt c cs.
  Proof. induction cs; intros c; cbn [gctr_blocks str_chunks]; [reflexivity|]. rewrite IHcs. reflexivity. Qed.

  Lemma ctr_after_iter : forall (cs : list bytes) c, ctr_after c cs = iter_nxt nxt (length cs) c.
  Proof.
    unfold ctr_after. induction cs; intros c; [reflexivity|].
    cbn [fold_left length]. rewrite IHcs. reflexivity.
  Qed.

  Lemma ref_out_length : forall msg c buf, length (ref_out c buf msg) = length msg.
  Proof.
    unfold StreamLemmas.ref_out.
    induction msg as [|m t IH]; intros c buf; [reflexivity|].
    cbn [StreamLemmas.ref].
    destruct buf as [|k0 b0].
    - destruct (blk_cons 16 lt16 blk blk_len (nxt c)) as (k & r & Hkk). rewrite Hkk.
      specialize (IH (nxt c) r). destruct (StreamLemmas.ref blk nxt (nxt c) r t). cbn in *. lia.
    - specialize (IH c b0). destruct (StreamLemmas.ref blk nxt c b0 t). cbn in *. lia.
  Qed.

  Definition st_after (P : bytes) : N * bytes := ref_st c0 [] P.
  Definition out_of (P s : bytes) : bytes := ref_out (fst (st_after P)) (snd (st_after P)) s.
  Definition ct_of (dir : gdir) (P : bytes) : bytes :=
    match dir with GEnc => ref_out c0 [] P | GDec => P end.

  Lemma st_after_app : forall P s, st_after (P ++ s) = ref_st (fst (st_after P)) (snd (st_after P)) s.
  Proof. intros. unfold st_after, StreamLemmas.ref_st. rewrite ref_app16. reflexivity. Qed.

  Lemma ref_out_app : forall P s, ref_out c0 [] (P ++ s) = ref_out c0 [] P ++ out_of P s.
  Proof. intros. unfold out_of, st_after, StreamLemmas.ref_out at 1. rewrite ref_app16. reflexivity. Qed.

  Lemma ct_of_app : forall dir P s,
    ct_of dir (P ++ s) = ct_of dir P ++ match dir with GEnc => out_of P s | GDec => s end.
  Proof. intros [] P s; cbn [ct_of]; [apply ref_out_app|reflexivity]. Qed.

  Lemma out_of_length : forall P s, length (out_of P s) = length s.
  Proof. intros. apply ref_out_length. Qed.

  Lemma out_of_app : forall P a b, out_of P (a ++ b) = out_of P a ++ out_of (P ++ a) b.
  Proof.
    intros. unfold out_of at 1 2. unfold StreamLemmas.ref_out. rewrite ref_app16. cbn [fst].
    unfold out_of. rewrite st_after_app. reflexivity.
  Qed.

  Lemma ct_of_length : forall dir P, length (ct_of dir P) = length P.
  Proof. intros [] P; [apply ref_out_length|reflexivity]. Qed.

  (* ---------- the invariant (everything except in_length, which the caller adds) ---------- *)
  Definition ks_ok (ctx : gctx) (st : N * bytes) : Prop :=
    g_ctr ctx = fst st /\
    ((g_pbl ctx = 0 /\ snd st = []) \/
     (0 < g_pbl ctx /\ g_pbk ctx = blk (fst st) /\ snd st = skipn (N.to_nat (g_pbl ctx)) (blk (fst st)))).

  Definition hash_ok (ctx : gctx) (ct : bytes) : Prop :=
    exists cw cr,
      ct = cw ++ cr /\ mult16' (length cw) /\ (length cr <= 16)%nat /\
      g_pbl ctx = glen cr /\
      g_hash ctx = hash_xor_at (ghash_from Hk ya cw) 0 cr.

  Definition ginv' (dir : gdir) (ctx : gctx) (P : bytes) : Prop :=
    g_oiv ctx = j0 /\ g_pre ctx = pre /\ g_aad_len ctx = glen aad /\
    ks_ok ctx (st_after P) /\ hash_ok ctx (ct_of dir P).

  Definition ginv (dir : gdir) (ctx : gctx) (P : bytes) : Prop :=
    ginv' dir ctx P /\ g_in_len ctx = glen P.

  Ltac gsimpl := cbn [g_hash g_aad_len g_in_len g_pbk g_oiv g_pre g_ctr g_pbl
                      gset_hash gset_aad_len gset_in_len gset_pbk gset_ctr gset_pbl fst snd].

  (* ---------- step 1: PARTIAL_BLOCK ---------- *)
  Lemma partial_block_inv : forall dir ctx P src,
    ginv' dir ctx P ->
    let r := partial_block E ctx dir src in
    let n := snd r in
    ginv' dir (fst (fst r)) (P ++ firstn n src) /\
    snd (fst r) = out_of P (firstn n src) /\
    g_in_len (fst (fst r)) = g_in_len ctx /\
    (skipn n src <> [] -> g_pbl (fst (fst r)) = 0).
  Proof.
    intros dir ctx P src Hinv.
    unfold partial_block. cbv zeta.
    destruct (N.to_nat (g_pbl ctx)) as [|p'] eqn:Ep;
      destruct Hinv as (Hoiv & Hpre & Hal & (Hc & Hks) & (cw & cr & Hct & Hcw & Hcr & Hpbl & Hh)).
    - (* no pending block *)
      cbn [fst snd firstn skipn]. rewrite app_nil_r.
      split; [|split; [reflexivity|split; [reflexivity|intros _; lia]]].
      split; [exact Hoiv|]. split; [exact Hpre|]. split; [exact Hal|]. split; [split; [exact Hc|exact Hks]|].
      exists cw, cr. auto.
    - set (pbl := S p') in *.
      assert (Hpos : 0 < g_pbl ctx) by lia.
      destruct Hks as [[Hz _]|(_ & Hpbk & Hbuf)]; [lia|].
      assert (Hlcr : length cr = pbl) by (unfold glen in Hpbl; lia).
      set (c := fst (st_after P)) in *. set (buf := snd (st_after P)) in *.
      assert (Hlb : length buf = (16 - pbl)%nat).
      { rewrite Hbuf, skipn_length, blk_len, Ep. reflexivity. }
      set (n := Nat.min (length src) (16 - pbl)).
      set (inp := firstn n src).
      assert (Hli : length inp = n) by (subst inp; rewrite firstn_length; subst n; lia).
      assert (Hout : xor_bytes inp (skipn pbl (g_pbk ctx)) = out_of P inp).
      { unfold out_of. fold c buf. unfold StreamLemmas.ref_out.
        rewrite (ref_within 16 lt16 blk nxt inp c buf) by (rewrite Hli, Hlb; subst n; lia).
        cbn [fst]. rewrite Hbuf, Hpbk, Ep. reflexivity. }
      assert (Hst : st_after (P ++ inp) = (c, skipn n buf)).
      { rewrite st_after_app. fold c buf. unfold StreamLemmas.ref_st.
        rewrite (ref_within 16 lt16 blk nxt inp c buf) by (rewrite Hli, Hlb; subst n; lia).
        cbn [snd]. rewrite Hli. reflexivity. }
      set (out := xor_bytes inp (skipn pbl (g_pbk ctx))) in *.
      set (c1 := match dir with GEnc => out | GDec => inp end).
      assert (Hc1 : ct_of dir (P ++ inp) = (cw ++ cr) ++ c1).
      { rewrite ct_of_app, Hct. subst c1. destruct dir; [rewrite <- Hout|]; reflexivity. }
      assert (Hlc1 : length c1 = n).
      { subst c1. destruct dir; [rewrite Hout, out_of_length|]; assumption. }
      assert (Hy : hash_xor_at (g_hash ctx) pbl c1 = hash_xor_at (ghash_from Hk ya cw) 0 (cr ++ c1)).
      { rewrite Hh, <- Hlcr. apply hash_xor_at_merge. rewrite Hlcr, Hlc1. subst n. lia. }
      destruct (Nat.leb_spec 16 (pbl + length src)) as [Hfull|Hpart]; cbn [fst snd]; fold inp.
      + (* the pending block becomes complete *)
        assert (Hn : n = (16 - pbl)%nat) by (subst n; lia).
        split; [|split; [exact Hout|split; [reflexivity|intros _; reflexivity]]].
        split; [exact Hoiv|]. split; [exact Hpre|]. split; [exact Hal|]. split.
        * unfold ks_ok. rewrite Hst. gsimpl. split; [exact Hc|]. left. split; [reflexivity|].
          apply skipn_all2. lia.
        * destruct Hcw as [k Hkk].
          exists (cw ++ cr ++ c1), []. rewrite Hc1. gsimpl.
          split; [rewrite app_nil_r, app_assoc; reflexivity|].
          split; [exists (S k); rewrite !app_length; lia|].
          split; [simpl; lia|]. split; [reflexivity|].
          rewrite Hy. rewrite hash_xor_at_nil by lia.
          rewrite ghash_from_one; [| destruct cr; [simpl in Hlcr; lia|discriminate] | rewrite app_length; lia].
          apply (ghash_from_app Hk ya cw (cr ++ c1) k). assumption.
      + (* still incomplete: the whole segment went into the pending block *)
        assert (Hn : n = length src) by (subst n; lia).
        split; [|split; [exact Hout|split; [reflexivity|]]].
        2:{ intro Hne. exfalso. apply Hne. apply skipn_all2. lia. }
        split; [exact Hoiv|]. split; [exact Hpre|]. split; [exact Hal|]. split.
        * unfold ks_ok. rewrite Hst. gsimpl. split; [exact Hc|]. right.
          split; [unfold glen; lia|]. split; [exact Hpbk|].
          rewrite Hbuf, skipn_skipn_add. f_equal. unfold glen. lia.
        * exists cw, (cr ++ c1). rewrite Hc1. gsimpl.
          split; [rewrite app_assoc; reflexivity|]. split; [exact Hcw|].
          split; [rewrite app_length; lia|].
          split; [unfold glen in *; rewrite app_length; lia|]. exact Hy.
  Qed.

  (* ---------- step 2: whole blocks from a block boundary ---------- *)
  Lemma whole_blocks_inv : forall dir ctx P whole k,
    ginv' dir ctx P -> g_pbl ctx = 0 -> length whole = (16 * k)%nat ->
    let blks := chunks 16 whole in
    let out2 := gctr_blocks E (g_pre ctx) (w32 (g_ctr ctx + 1)) blks in
    let ct2 := match dir with GEnc => out2 | GDec => whole end in
    let ctx' := gset_ctr (gset_hash ctx (ghash_from Hk (g_hash ctx) ct2)) (ctr_after (g_ctr ctx) blks) in
    ginv' dir ctx' (P ++ whole) /\ out2 = out_of P whole /\ g_pbl ctx' = 0 /\ g_in_len ctx' = g_in_len ctx.
  Proof.
    intros dir ctx P whole k (Hoiv & Hpre & Hal & (Hc & Hks) & (cw & cr & Hct & Hcw & Hcr & Hpbl & Hh)) Hz Hw.
    cbv zeta.
    destruct Hks as [[_ Hbuf]|(Hpos & _)]; [|lia].
    assert (cr = []) by (destruct cr; [reflexivity|rewrite Hz in Hpbl; unfold glen in Hpbl; simpl in Hpbl; lia]).
    subst cr. rewrite app_nil_r in Hct. rewrite hash_xor_at_nil in Hh by lia.
    set (c := fst (st_after P)) in *.
    rewrite Hpre, Hc. fold (nxt c). rewrite gctr_blocks_str, ctr_after_iter.
    set (blks := chunks 16 whole).
    assert (Href : StreamLemmas.ref blk nxt c [] whole =
                   (str_chunks blk nxt (nxt c) blks, (iter_nxt nxt (length blks) c, []))).
    { assert (Hcase : whole = [] \/ whole <> []) by (destruct whole; [left; reflexivity|right; discriminate]).
      destruct Hcase as [Ew|Ew].
      - subst blks. rewrite Ew. reflexivity.
      - rewrite (ref_chunks 16 lt16 blk blk_len nxt whole c Ew).
        fold blks. f_equal. f_equal.
        apply skipn_all2. rewrite blk_len.
        pose proof (Forall_chunks16 whole k Hw) as Hf. fold blks in Hf.
        assert (Hne : blks <> []) by (intro E0; apply chunks_eq_nil in E0; [contradiction|lia]).
        rewrite Forall_forall in Hf. rewrite (Hf (last blks [])); [lia|].
        destruct (exists_last Hne) as (l' & a & Hla). rewrite Hla. rewrite last_last.
        apply in_or_app. right. left. reflexivity. }
    assert (Hout : str_chunks blk nxt (nxt c) blks = out_of P whole).
    { unfold out_of. fold c. rewrite Hbuf. unfold StreamLemmas.ref_out. rewrite Href. reflexivity. }
    assert (Hst : st_after (P ++ whole) = (iter_nxt nxt (length blks) c, [])).
    { rewrite st_after_app. fold c. rewrite Hbuf. unfold StreamLemmas.ref_st. rewrite Href. reflexivity. }
    set (ct2 := match dir with GEnc => str_chunks blk nxt (nxt c) blks | GDec => whole end).
    assert (Hl2 : length ct2 = (16 * k)%nat).
    { subst ct2. destruct dir; [rewrite Hout, out_of_length|]; assumption. }
    split; [|split; [exact Hout|split; [exact Hz|reflexivity]]].
    split; [exact Hoiv|]. split; [exact Hpre|]. split; [exact Hal|]. split.
    - unfold ks_ok. rewrite Hst. gsimpl. split; [reflexivity|]. left. split; [exact Hz|reflexivity].
    - destruct Hcw as [kw Hkw].
      exists (cw ++ ct2), []. gsimpl.
      split. { rewrite app_nil_r, ct_of_app, Hct. subst ct2. destruct dir; [rewrite Hout|]; reflexivity. }
      split; [exists (kw + k)%nat; rewrite app_length; lia|].
      split; [simpl; lia|]. split; [exact Hz|].
      rewrite hash_xor_at_nil by lia. rewrite Hh.
      apply (ghash_from_app Hk ya cw ct2 kw). assumption.
  Qed.

  (* ---------- step 3: a new pending block of 1..16 bytes from a block boundary ---------- *)
  Lemma new_partial_inv : forall dir ctx P tail,
    ginv' dir ctx P -> g_pbl ctx = 0 -> tail <> [] -> (length tail <= 16)%nat ->
    let ctx1 := gset_pbl ctx (glen tail) in
    let ctx2 := gset_ctr ctx1 (w32 (g_ctr ctx1 + 1)) in
    let ctx3 := gset_pbk ctx2 (E (g_pre ctx2 ++ be32 (g_ctr ctx2))) in
    let out3 := xor_bytes tail (g_pbk ctx3) in
    let ct3 := match dir with GEnc => out3 | GDec => tail end in
    let ctx' := gset_hash ctx3 (hash_xor_at (g_hash ctx3) 0 ct3) in
    ginv' dir ctx' (P ++ tail) /\ out3 = out_of P tail /\ g_in_len ctx' = g_in_len ctx.
  Proof.
    intros dir ctx P tail (Hoiv & Hpre & Hal & (Hc & Hks) & (cw & cr & Hct & Hcw & Hcr & Hpbl & Hh)) Hz Hne Hlt.
    cbv zeta. gsimpl.
    destruct Hks as [[_ Hbuf]|(Hpos & _)]; [|lia].
    assert (cr = []) by (destruct cr; [reflexivity|rewrite Hz in Hpbl; unfold glen in Hpbl; simpl in Hpbl; lia]).
    subst cr. rewrite app_nil_r in Hct. rewrite hash_xor_at_nil in Hh by lia.
    set (c := fst (st_after P)) in *.
    rewrite Hpre, Hc. fold (nxt c). fold (blk (nxt c)).
    assert (Href : StreamLemmas.ref blk nxt c [] tail =
                   (xor_bytes tail (blk (nxt c)), (nxt c, skipn (length tail) (blk (nxt c)))))
      by (apply (ref_one_block 16 lt16 blk blk_len nxt); assumption).
    assert (Hout : xor_bytes tail (blk (nxt c)) = out_of P tail).
    { unfold out_of. fold c. rewrite Hbuf. unfold StreamLemmas.ref_out. rewrite Href. reflexivity. }
    assert (Hst : st_after (P ++ tail) = (nxt c, skipn (length tail) (blk (nxt c)))).
    { rewrite st_after_app. fold c. rewrite Hbuf. unfold StreamLemmas.ref_st. rewrite Href. reflexivity. }
    set (ct3 := match dir with GEnc => xor_bytes tail (blk (nxt c)) | GDec => tail end).
    assert (Hl3 : length ct3 = length tail).
    { subst ct3. destruct dir; [rewrite Hout, out_of_length|]; reflexivity. }
    split; [|split; [exact Hout|reflexivity]].
    split; [exact Hoiv|]. split; [exact Hpre|]. split; [exact Hal|]. split.
    - unfold ks_ok. rewrite Hst. gsimpl. split; [reflexivity|]. right.
      assert (0 < length tail)%nat by (destruct tail; [congruence|simpl; lia]).
      split; [unfold glen; lia|]. split; [reflexivity|].
      unfold glen. rewrite Nat2N.id. reflexivity.
    - exists cw, ct3. gsimpl.
      split. { rewrite ct_of_app, Hct. subst ct3. destruct dir; [rewrite Hout|]; reflexivity. }
      split; [exact Hcw|]. split; [lia|].
      split; [unfold glen; rewrite Hl3; reflexivity|].
      rewrite Hh. reflexivity.
  Qed.

  (* ---------- GCM_ENC_DEC = the three steps ---------- *)
  Definition update_rest (defer : bool) (ctx : gctx) (dir : gdir) (rest : bytes) : gctx * bytes :=
    let nb0 := Nat.div (length rest) 16 in
    let nb := if defer && Nat.eqb (length rest) (16 * nb0) && Nat.ltb 0 nb0 then (nb0 - 1)%nat else nb0 in
    let whole := firstn (16 * nb)%nat rest in
    let tail := skipn (16 * nb)%nat rest in
    let blks := chunks 16 whole in
    let out2 := gctr_blocks E (g_pre ctx) (w32 (g_ctr ctx + 1)) blks in
    let ct2 := match dir with GEnc => out2 | GDec => whole end in
    let ctx := gset_hash ctx (ghash_from Hk (g_hash ctx) ct2) in
    let ctx := gset_ctr ctx (ctr_after (g_ctr ctx) blks) in
    match tail with
    | [] => (ctx, out2)
    | _ :: _ =>
        let ctx := gset_pbl ctx (glen tail) in
        let ctx := gset_ctr ctx (w32 (g_ctr ctx + 1)) in
        let ctx := gset_pbk ctx (E (g_pre ctx ++ be32 (g_ctr ctx))) in
        let out3 := xor_bytes tail (g_pbk ctx) in
        let ct3 := match dir with GEnc => out3 | GDec => tail end in
        let ctx := gset_hash ctx (hash_xor_at (g_hash ctx) 0 ct3) in
        (ctx, out2 ++ out3)
    end.

  Lemma gcm_update_split : forall ctx dir x t,
    gcm_update E lazy ctx dir (x :: t) =
    let src := x :: t in
    let r := partial_block E (gset_in_len ctx (g_in_len ctx + glen src)) dir src in
    let r2 := update_rest (lazy ctx src) (fst (fst r)) dir (skipn (snd r) src) in
    (fst r2, snd (fst r) ++ snd r2).
  Proof.
    intros. unfold gcm_update, update_rest. cbv zeta.
    destruct (partial_block E _ dir (x :: t)) as [[c1 o1] n]. cbn [fst snd].
    destruct (skipn (16 * _) (skipn n (x :: t))); reflexivity.
  Qed.

  Lemma update_rest_nil : forall defer ctx dir,
    update_rest defer ctx dir [] = (gset_ctr (gset_hash ctx (g_hash ctx)) (g_ctr ctx), []).
  Proof.
    intros. unfold update_rest.
    change (Nat.div (length (@nil N)) 16) with 0%nat.
    replace (if defer && Nat.eqb (length (@nil N)) (16 * 0) && Nat.ltb 0 0 then (0 - 1)%nat else 0%nat) with 0%nat
      by (destruct defer; reflexivity).
    change (16 * 0)%nat with 0%nat. cbn [firstn skipn]. rewrite chunks_nil.
    cbn [gctr_blocks ctr_after fold_left].
    destruct dir; rewrite ghash_from_nil; reflexivity.
  Qed.

  Lemma update_rest_inv : forall defer dir ctx P rest,
    ginv' dir ctx P -> (rest <> [] -> g_pbl ctx = 0) ->
    ginv' dir (fst (update_rest defer ctx dir rest)) (P ++ rest) /\
    snd (update_rest defer ctx dir rest) = out_of P rest /\
    g_in_len (fst (update_rest defer ctx dir rest)) = g_in_len ctx.
  Proof.
    intros defer dir ctx P rest Hinv Hz.
    destruct rest as [|r0 rt] eqn:Er.
    { (* nothing left: the record is rebuilt with the same field values *)
      rewrite update_rest_nil. cbn [fst snd]. rewrite app_nil_r.
      destruct Hinv as (A & B & C & (D1 & D2) & (cw & cr & F)).
      split; [|split; reflexivity].
      split; [exact A|]. split; [exact B|]. split; [exact C|]. split; [split; [exact D1|exact D2]|].
      exists cw, cr. exact F. }
    rewrite <- Er in *. assert (Hne : rest <> []) by (rewrite Er; discriminate).
    specialize (Hz Hne). clear Er r0 rt.
    unfold update_rest. cbv zeta.
    set (nb0 := Nat.div (length rest) 16).
    set (nb := if defer && Nat.eqb (length rest) (16 * nb0) && Nat.ltb 0 nb0 then (nb0 - 1)%nat else nb0).
    assert (Hnb : (16 * nb <= length rest)%nat /\ (length rest - 16 * nb <= 16)%nat).
    { subst nb. pose proof (Nat.div_mod (length rest) 16 ltac:(lia)) as Hd. fold nb0 in Hd.
      pose proof (Nat.mod_upper_bound (length rest) 16 ltac:(lia)).
      destruct (defer && Nat.eqb (length rest) (16 * nb0) && Nat.ltb 0 nb0) eqn:Eb.
      - apply andb_prop in Eb. destruct Eb as [Eb1 Eb3]. apply andb_prop in Eb1. destruct Eb1 as [_ Eb2].
        apply Nat.eqb_eq in Eb2. apply Nat.ltb_lt in Eb3. lia.
      - lia. }
    destruct Hnb as [Hnb1 Hnb2].
    set (whole := firstn (16 * nb) rest). set (tail := skipn (16 * nb) rest).
    assert (Hlw : length whole = (16 * nb)%nat) by (subst whole; rewrite firstn_length; lia).
    assert (Hlt : (length tail <= 16)%nat) by (subst tail; rewrite skipn_length; lia).
    assert (Hrest : rest = whole ++ tail) by (subst whole tail; symmetry; apply firstn_skipn).
    pose proof (whole_blocks_inv dir ctx P whole nb Hinv Hz Hlw) as Hw. cbv zeta in Hw.
    destruct Hw as (Hi2 & Ho2 & Hz2 & Hl2).
    set (blks := chunks 16 whole) in *.
    set (out2 := gctr_blocks E (g_pre ctx) (w32 (g_ctr ctx + 1)) blks) in *.
    set (ct2 := match dir with GEnc => out2 | GDec => whole end) in *.
    set (ctxw := gset_ctr (gset_hash ctx (ghash_from Hk (g_hash ctx) ct2)) (ctr_after (g_ctr ctx) blks)) in *.
    change (g_ctr (gset_hash ctx (ghash_from Hk (g_hash ctx) ct2))) with (g_ctr ctx).
    fold ctxw.
    destruct tail as [|t0 tt] eqn:Et.
    - cbn [fst snd]. rewrite Hrest, app_nil_r. split; [exact Hi2|]. split; [exact Ho2|exact Hl2].
    - rewrite <- Et in *. assert (Htne : tail <> []) by (rewrite Et; discriminate).
      pose proof (new_partial_inv dir ctxw (P ++ whole) tail Hi2 Hz2 Htne Hlt) as Hp. cbv zeta in Hp.
      destruct Hp as (Hi3 & Ho3 & Hl3).
      cbn [fst snd]. rewrite Hrest, app_assoc.
      split; [exact Hi3|]. split.
      + rewrite out_of_app, <- Ho2, <- Ho3. reflexivity.
      + rewrite Hl3. exact Hl2.
  Qed.

  Lemma gcm_update_inv : forall dir ctx P src,
    ginv dir ctx P ->
    ginv dir (fst (gcm_update E lazy ctx dir src)) (P ++ src) /\
    snd (gcm_update E lazy ctx dir src) = out_of P src.
  Proof.
    intros dir ctx P src [Hinv Hlen].
    destruct src as [|x t].
    { cbn [gcm_update fst snd]. rewrite app_nil_r. split; [split; assumption|reflexivity]. }
    rewrite gcm_update_split. cbv zeta.
    set (src := x :: t).
    set (ctx0 := gset_in_len ctx (g_in_len ctx + glen src)).
    assert (Hinv0 : ginv' dir ctx0 P).
    { destruct Hinv as (A & B & C & D & F). split; [exact A|]. split; [exact B|]. split; [exact C|].
      split; [exact D|exact F]. }
    pose proof (partial_block_inv dir ctx0 P src Hinv0) as H1. cbv zeta in H1.
    destruct (partial_block E ctx0 dir src) as [[ctx1 o1] n]. cbn [fst snd] in *.
    destruct H1 as (Hi1 & Ho1 & Hl1 & Hz1).
    pose proof (update_rest_inv (lazy ctx src) dir ctx1 (P ++ firstn n src) (skipn n src) Hi1 Hz1) as H2.
    destruct (update_rest (lazy ctx src) ctx1 dir (skipn n src)) as [ctx2 o2]. cbn [fst snd] in *.
    destruct H2 as (Hi2 & Ho2 & Hl2).
    rewrite <- app_assoc, firstn_skipn in Hi2.
    split; [split|].
    - exact Hi2.
    - rewrite Hl2, Hl1. subst ctx0. gsimpl. rewrite Hlen. unfold glen. rewrite app_length. lia.
    - replace (out_of P src) with (out_of P (firstn n src ++ skipn n src)) by (now rewrite firstn_skipn).
      rewrite out_of_app, Ho1, Ho2. reflexivity.
  Qed.

  (* ---------- init ---------- *)
  Lemma st_after_nil : st_after [] = (c0, []).
  Proof. reflexivity. Qed.

  Lemma init_state_inv : forall dir ctx,
    g_oiv ctx = j0 -> g_pre ctx = pre -> g_ctr ctx = c0 -> g_pbl ctx = 0 ->
    g_hash ctx = ya -> g_aad_len ctx = glen aad -> g_in_len ctx = 0 ->
    ginv dir ctx [].
  Proof.
    intros dir ctx A B C D F G I. split; [|exact I].
    split; [exact A|]. split; [exact B|]. split; [exact G|]. split.
    - unfold ks_ok. rewrite st_after_nil. cbn [fst snd]. split; [exact C|]. left. split; [exact D|reflexivity].
    - exists [], []. split; [destruct dir; reflexivity|]. split; [exists 0%nat; reflexivity|].
      split; [simpl; lia|]. split; [exact D|]. rewrite F. rewrite hash_xor_at_nil by lia. reflexivity.
  Qed.

  (* ---------- a list of updates ---------- *)
  Lemma gcm_update_all_inv : forall dir segs ctx P,
    ginv dir ctx P ->
    ginv dir (fst (gcm_update_all E lazy ctx dir segs)) (P ++ concat segs) /\
    concat (snd (gcm_update_all E lazy ctx dir segs)) = out_of P (concat segs) /\
    map (@length _) (snd (gcm_update_all E lazy ctx dir segs)) = map (@length _) segs.
  Proof.
    intros dir segs. induction segs as [|s t IH]; intros ctx P Hinv.
    - cbn. rewrite app_nil_r. auto.
    - cbn [gcm_update_all concat].
      destruct (gcm_update_inv dir ctx P s Hinv) as [Hi Ho].
      destruct (gcm_update E lazy ctx dir s) as [ctx1 o]. cbn [fst snd] in *.
      specialize (IH ctx1 (P ++ s) Hi). destruct IH as (I1 & I2 & I3).
      destruct (gcm_update_all E lazy ctx1 dir t) as [ctx2 os]. cbn [fst snd concat map] in *.
      rewrite app_assoc. split; [assumption|]. split.
      + rewrite out_of_app, I2, Ho. reflexivity.
      + rewrite I3, Ho, out_of_length. reflexivity.
  Qed.

  (* ---------- finalize ---------- *)
  Definition ctx_cleared (ctx : gctx) : Prop := g_hash ctx = 0 /\ g_pbk ctx = zeros 16.

  Lemma hash_final : forall ctx ct, hash_ok ctx ct ->
    (if g_pbl ctx =? 0 then g_hash ctx else gf128_mul (g_hash ctx) Hk) = ghash_from Hk ya ct.
  Proof.
    intros ctx ct (cw & cr & Hct & [k Hcw] & Hcr & Hpbl & Hh).
    destruct (N.eqb_spec (g_pbl ctx) 0) as [Hz|Hnz].
    - assert (cr = []) by (destruct cr; [reflexivity|rewrite Hz in Hpbl; unfold glen in Hpbl; simpl in Hpbl; lia]).
      subst cr. rewrite app_nil_r in Hct. rewrite Hh, Hct. apply hash_xor_at_nil. lia.
    - assert (cr <> []) by (intro E0; subst cr; apply Hnz; rewrite Hpbl; reflexivity).
      rewrite Hh, Hct. rewrite ghash_from_one by assumption.
      apply (ghash_from_app Hk ya cw cr k). assumption.
  Qed.

  Lemma gcm_finalize_spec : forall dir ctx P taglen, ginv dir ctx P ->
    snd (gcm_finalize E ctx taglen) = gcm_tag E Hk j0 aad (ct_of dir P) taglen /\
    ctx_cleared (fst (gcm_finalize E ctx taglen)).
  Proof.
    intros dir ctx P taglen [(Hoiv & Hpre & Hal & Hks & Hh) Hil].
    unfold gcm_finalize, gcm_tag, ctx_cleared. cbn [fst snd]. gsimpl.
    fold Hk. rewrite (hash_final ctx _ Hh). rewrite Hoiv, Hal, Hil.
    unfold gcm_len_block, glen. rewrite ct_of_length. fold ya. auto.
  Qed.

  (* the byte-level stream from the initial state is GCTR from inc32(J0) *)
  Lemma ref_out_gcm_ctr : forall P, ref_out c0 [] P = gcm_ctr E j0 P.
  Proof.
    intros P. unfold gcm_ctr. fold pre c0. fold (nxt c0). rewrite gctr_blocks_str.
    destruct P as [|p0 pt]; [reflexivity|].
    unfold StreamLemmas.ref_out. rewrite (ref_chunks 16 lt16 blk blk_len nxt) by discriminate.
    reflexivity.
  Qed.

  Definition oneshot (dir : gdir) (msg : bytes) (taglen : nat) : bytes * bytes :=
    (gcm_ctr E j0 msg, gcm_tag E Hk j0 aad (match dir with GEnc => gcm_ctr E j0 msg | GDec => msg end) taglen).

  Lemma ct_of_oneshot : forall dir P,
    ct_of dir P = match dir with GEnc => gcm_ctr E j0 P | GDec => P end.
  Proof. intros [] P; cbn [ct_of]; [apply ref_out_gcm_ctr|reflexivity]. Qed.

  (* init state given, any list of updates, finalize: the one-shot value *)
  Theorem gcm_updates_finalize_gen : forall dir ctx segs taglen,
    ginv dir ctx [] ->
    let r := gcm_update_all E lazy ctx dir segs in
    let f := gcm_finalize E (fst r) taglen in
    concat (snd r) = fst (oneshot dir (concat segs) taglen) /\
    map (@length _) (snd r) = map (@length _) segs /\
    snd f = snd (oneshot dir (concat segs) taglen) /\
    ctx_cleared (fst f).
  Proof.
    intros dir ctx segs taglen Hi. cbv zeta.
    destruct (gcm_update_all_inv dir segs ctx [] Hi) as (I1 & I2 & I3).
    cbn [app] in I1.
    destruct (gcm_finalize_spec dir _ (concat segs) taglen I1) as [F1 F2].
    unfold oneshot. cbn [fst snd].
    split. { rewrite I2. unfold out_of. rewrite st_after_nil. cbn [fst snd]. apply ref_out_gcm_ctr. }
    split; [exact I3|]. split; [|exact F2].
    rewrite F1, ct_of_oneshot. reflexivity.
  Qed.

  (* the readable invariant of Struct/GcmStream.v *)
  Lemma ginv_readable : forall dir ctx P, ginv dir ctx P -> gcm_stream_inv E j0 aad (ct_of dir P) ctx.
  Proof.
    intros dir ctx P [(Hoiv & Hpre & Hal & (Hc & Hks) & (cw & cr & Hct & Hcw & Hcr & Hpbl & Hh)) Hil].
    unfold gcm_stream_inv.
    split; [exact Hoiv|]. split; [exact Hpre|]. split; [exact Hal|].
    split; [rewrite Hil; unfold glen; rewrite ct_of_length; reflexivity|].
    exists cw, cr. split; [exact Hct|]. split; [exact Hcw|]. split; [exact Hcr|]. split; [exact Hpbl|].
    split; [exact Hh|].
    pose proof (ref_pos_inv 16 lt16 blk blk_len nxt P c0 0%nat c0 [] (pos_inv_init 16 lt16 blk nxt c0)) as Hp.
    fold (st_after P) in Hp. destruct Hp as (k & Hk1 & Hk2 & Hk3 & _).
    split.
    - (* counter = J0 counter advanced once per started block *)
      rewrite Hc, Hk1, ctr_after_iter. f_equal.
      assert (Hlen : length (ct_of dir P) = length P) by apply ct_of_length.
      (* number of chunks = k *)
      assert (Hch : forall (l : bytes) kk r, (length l + r = 16 * kk)%nat -> (r < 16)%nat -> length (chunks 16 l) = kk).
      { intros l kk. revert l. induction kk; intros l r Hl Hr.
        - destruct l; [reflexivity|simpl in Hl; lia].
        - destruct (Nat.le_gt_cases (length l) 16) as [Hs|Hg].
          + assert (l <> []) by (destruct l; [simpl in Hl; lia|discriminate]).
            rewrite chunks_short by (auto; lia). destruct kk; [reflexivity|lia].
          + rewrite chunks_cons; [|lia|destruct l; [simpl in Hg; lia|discriminate]].
            cbn [length]. f_equal. apply (IHkk _ r); [rewrite skipn_length; lia|assumption]. }
      symmetry. apply (Hch _ k (length (snd (st_after P)))); [rewrite Hlen; lia|lia].
    - intros Hne. destruct Hks as [[Hz _]|(_ & Hpbk & _)].
      + exfalso. apply Hne. destruct cr; [reflexivity|rewrite Hz in Hpbl; unfold glen in Hpbl; simpl in Hpbl; lia].
      + rewrite Hpbk, Hpre, Hc. reflexivity.
  Qed.
End Generic.

(* ---------------------------------------------------------------------------------------- *)
(* GMAC: the message is hashed like AAD, no cipher *)
Section Gmac.
  Variable E : bytes -> bytes.
  Variable j0 : bytes.
  Let Hk := H E.

  Definition gmac_core (ctx : gctx) (msg : bytes) : Prop :=
    exists mw mr,
      msg = mw ++ mr /\ mult16' (length mw) /\ (length mr < 16)%nat /\
      g_pbl ctx = glen mr /\
      g_hash ctx = hash_xor_at (ghash_from Hk 0 mw) 0 mr.

  Ltac gsimpl := cbn [g_hash g_aad_len g_in_len g_pbk g_oiv g_pre g_ctr g_pbl
                      gset_hash gset_aad_len gset_in_len gset_pbk gset_ctr gset_pbl fst snd].

  Lemma partial_block_gmac_inv : forall ctx msg src,
    gmac_core ctx msg ->
    let r := partial_block_gmac E ctx src in
    gmac_core (fst r) (msg ++ firstn (snd r) src) /\
    (skipn (snd r) src <> [] -> g_pbl (fst r) = 0) /\
    g_oiv (fst r) = g_oiv ctx /\ g_aad_len (fst r) = g_aad_len ctx /\ g_in_len (fst r) = g_in_len ctx.
  Proof.
    intros ctx msg src Hc. unfold partial_block_gmac. cbv zeta.
    destruct (N.to_nat (g_pbl ctx)) as [|p'] eqn:Ep;
      destruct Hc as (mw & mr & Hm & Hmw & Hmr & Hpbl & Hh).
    - cbn [fst snd firstn skipn]. rewrite app_nil_r.
      split; [exists mw, mr; auto|]. split; [intros _; lia|auto].
    - set (pbl := S p') in *.
      assert (Hlmr : length mr = pbl) by (unfold glen in Hpbl; lia).
      set (n := Nat.min (length src) (16 - pbl)).
      set (s1 := firstn n src).
      assert (Hl1 : length s1 = n) by (subst s1; rewrite firstn_length; subst n; lia).
      assert (Hy : hash_xor_at (g_hash ctx) pbl s1 = hash_xor_at (ghash_from Hk 0 mw) 0 (mr ++ s1)).
      { rewrite Hh, <- Hlmr. apply hash_xor_at_merge. rewrite Hlmr, Hl1. subst n. lia. }
      destruct (Nat.leb_spec 16 (pbl + length src)) as [Hfull|Hpart]; cbn [fst snd]; fold s1.
      + assert (Hn : n = (16 - pbl)%nat) by (subst n; lia).
        split; [|split; [intros _; reflexivity|auto]].
        destruct Hmw as [k Hk0].
        exists (mw ++ mr ++ s1), []. gsimpl.
        split; [rewrite app_nil_r, Hm, app_assoc; reflexivity|].
        split; [exists (S k); rewrite !app_length; lia|].
        split; [simpl; lia|]. split; [reflexivity|].
        fold Hk. rewrite Hy. rewrite hash_xor_at_nil by lia.
        rewrite ghash_from_one; [| destruct mr; [simpl in Hlmr; lia|discriminate] | rewrite app_length; lia].
        apply (ghash_from_app Hk 0 mw (mr ++ s1) k). assumption.
      + assert (Hn : n = length src) by (subst n; lia).
        split; [|split; [|auto]].
        2:{ intro Hne. exfalso. apply Hne. apply skipn_all2. lia. }
        exists mw, (mr ++ s1). gsimpl.
        split; [rewrite Hm, app_assoc; reflexivity|]. split; [exact Hmw|].
        split; [rewrite app_length; lia|].
        split; [unfold glen in *; rewrite app_length; lia|]. exact Hy.
  Qed.

  Lemma gmac_rest_inv : forall ctx msg rest,
    gmac_core ctx msg -> (rest <> [] -> g_pbl ctx = 0) ->
    let nb := Nat.div (length rest) 16 in
    let whole := firstn (16 * nb)%nat rest in
    let tail := skipn (16 * nb)%nat rest in
    let ctx1 := match whole with [] => ctx | _ :: _ => gset_hash ctx (ghash_from Hk (g_hash ctx) whole) end in
    let ctx2 := match tail with
                | [] => ctx1
                | _ :: _ => gset_hash (gset_pbl ctx1 (glen tail)) (hash_xor_at (g_hash ctx1) 0 tail)
                end in
    gmac_core ctx2 (msg ++ rest) /\
    g_oiv ctx2 = g_oiv ctx /\ g_aad_len ctx2 = g_aad_len ctx /\ g_in_len ctx2 = g_in_len ctx.
  Proof.
    intros ctx msg rest Hc Hz. cbv zeta.
    set (nb := Nat.div (length rest) 16).
    pose proof (Nat.div_mod (length rest) 16 ltac:(lia)) as Hd. fold nb in Hd.
    pose proof (Nat.mod_upper_bound (length rest) 16 ltac:(lia)) as Hm16.
    set (whole := firstn (16 * nb) rest). set (tail := skipn (16 * nb) rest).
    assert (Hlw : length whole = (16 * nb)%nat) by (subst whole; rewrite firstn_length; lia).
    assert (Hlt : (length tail < 16)%nat) by (subst tail; rewrite skipn_length; lia).
    assert (Hrest : rest = whole ++ tail) by (subst whole tail; symmetry; apply firstn_skipn).
    destruct Hc as (mw & mr & Hm & Hmw & Hmr & Hpbl & Hh).
    assert (Hcase : rest = [] \/ rest <> []) by (destruct rest; [left; reflexivity|right; discriminate]).
    destruct Hcase as [Hnil|Hne].
    { assert (whole = []) by (subst whole; rewrite Hnil; apply firstn_nil).
      assert (tail = []) by (subst tail; rewrite Hnil; apply skipn_nil).
      rewrite H, H0, Hnil, app_nil_r. split; [exists mw, mr; auto|auto]. }
    specialize (Hz Hne).
    assert (mr = []) by (destruct mr; [reflexivity|rewrite Hz in Hpbl; unfold glen in Hpbl; simpl in Hpbl; lia]).
    subst mr. rewrite app_nil_r in Hm. rewrite hash_xor_at_nil in Hh by lia.
    destruct Hmw as [k Hk0].
    (* state after the whole blocks *)
    set (ctx1 := match whole with [] => ctx | _ :: _ => gset_hash ctx (ghash_from Hk (g_hash ctx) whole) end).
    assert (H1 : g_hash ctx1 = ghash_from Hk 0 (mw ++ whole) /\ g_pbl ctx1 = 0 /\
                 g_oiv ctx1 = g_oiv ctx /\ g_aad_len ctx1 = g_aad_len ctx /\ g_in_len ctx1 = g_in_len ctx).
    { subst ctx1. destruct whole as [|w0 wt] eqn:Ew.
      - rewrite app_nil_r. auto.
      - rewrite <- Ew. gsimpl. rewrite Hh. split; [apply (ghash_from_app Hk 0 mw whole k); assumption|auto]. }
    clearbody ctx1. destruct H1 as (A1 & A2 & A3 & A4 & A5).
    destruct tail as [|t0 tt] eqn:Et.
    - rewrite Hrest, app_nil_r.
      split; [|auto].
      exists (mw ++ whole), []. rewrite app_nil_r, Hm.
      split; [reflexivity|]. split; [exists (k + nb)%nat; rewrite app_length; lia|].
      split; [simpl; lia|]. split; [exact A2|]. rewrite hash_xor_at_nil by lia. exact A1.
    - rewrite <- Et in *. gsimpl.
      split; [|auto].
      exists (mw ++ whole), tail. rewrite Hrest, Hm, app_assoc.
      split; [reflexivity|]. split; [exists (k + nb)%nat; rewrite app_length; lia|].
      split; [lia|]. split; [reflexivity|]. rewrite A1. reflexivity.
  Qed.

  Definition gmac_inv (ctx : gctx) (msg : bytes) : Prop :=
    g_oiv ctx = j0 /\ g_aad_len ctx = glen msg /\ g_in_len ctx = 0 /\ gmac_core ctx msg.

  Lemma gmac_update_inv : forall ctx msg src,
    gmac_inv ctx msg -> gmac_inv (gmac_update E ctx src) (msg ++ src).
  Proof.
    intros ctx msg src (Ho & Ha & Hi & Hc).
    destruct src as [|x t].
    { cbn [gmac_update]. rewrite app_nil_r. repeat split; assumption. }
    unfold gmac_update. set (src := x :: t).
    set (ctx0 := gset_aad_len ctx (g_aad_len ctx + glen src)).
    assert (Hc0 : gmac_core ctx0 msg) by exact Hc.
    pose proof (partial_block_gmac_inv ctx0 msg src Hc0) as H1. cbv zeta in H1.
    destruct (partial_block_gmac E ctx0 src) as [ctx1 n]. cbn [fst snd] in *.
    destruct H1 as (Hc1 & Hz1 & B1 & B2 & B3).
    pose proof (gmac_rest_inv ctx1 (msg ++ firstn n src) (skipn n src) Hc1 Hz1) as H2. cbv zeta in H2.
    fold Hk.
    destruct H2 as (Hc2 & C1 & C2 & C3).
    rewrite <- app_assoc, firstn_skipn in Hc2.
    split; [rewrite C1, B1; exact Ho|]. split; [|split; [rewrite C3, B3; exact Hi|exact Hc2]].
    rewrite C2, B2. subst ctx0. gsimpl. rewrite Ha. unfold glen. rewrite app_length. lia.
  Qed.

  Lemma gmac_update_all_inv : forall segs ctx msg,
    gmac_inv ctx msg -> gmac_inv (gmac_update_all E ctx segs) (msg ++ concat segs).
  Proof.
    induction segs as [|s t IH]; intros ctx msg Hi.
    - cbn. rewrite app_nil_r. exact Hi.
    - cbn [gmac_update_all concat]. rewrite app_assoc. apply IH. apply gmac_update_inv. exact Hi.
  Qed.

  Lemma gmac_finalize_spec : forall ctx msg taglen, gmac_inv ctx msg ->
    snd (gmac_finalize E ctx taglen) = gcm_tag E Hk j0 msg [] taglen.
  Proof.
    intros ctx msg taglen (Ho & Ha & Hi & (mw & mr & Hm & [k Hmw] & Hmr & Hpbl & Hh)).
    unfold gmac_finalize, gcm_finalize, gcm_tag. cbn [fst snd].
    fold Hk. rewrite Ho, Ha, Hi.
    assert (Hy : (if g_pbl ctx =? 0 then g_hash ctx else gf128_mul (g_hash ctx) Hk) = ghash_from Hk 0 msg).
    { destruct (N.eqb_spec (g_pbl ctx) 0) as [Hz|Hnz].
      - assert (mr = []) by (destruct mr; [reflexivity|rewrite Hz in Hpbl; unfold glen in Hpbl; simpl in Hpbl; lia]).
        subst mr. rewrite app_nil_r in Hm. rewrite Hh, Hm. apply hash_xor_at_nil. lia.
      - assert (mr <> []) by (intro E0; subst mr; apply Hnz; rewrite Hpbl; reflexivity).
        rewrite Hh, Hm. rewrite ghash_from_one by (auto; lia).
        apply (ghash_from_app Hk 0 mw mr k). assumption. }
    rewrite Hy, ghash_from_nil. reflexivity.
  Qed.
End Gmac.
