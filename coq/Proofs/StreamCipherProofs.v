(* Proofs/StreamCipherProofs.v — C01: the stream ciphers are XOR with a key stream that does not
   depend on the data, so applying them twice restores the message: ChaCha20, ZUC-EEA3
   (128/256), SNOW3G-UEA2, KASUMI-F8, SNOW-V.  All statements are for ALL keys, IVs and
   messages of every length; the only facts used about the key-stream generators are their
   output LENGTHS (proved by induction on the number of words / blocks, for SNOW-V through a
   state-shape invariant). *)
From Coq Require Import List NArith Bool Lia Arith Btauto.
From IMB Require Import Lib.Bytes Spec.ChaCha20 Spec.ZUC Spec.SNOW3G Spec.KASUMI Spec.SNOWV
  Proofs.C01Lists.
Import ListNotations.

(* ---------------------------------------------------------------------------------------- *)
(* generic *)

Lemma flat_map_length_const : forall (A : Type) (f : A -> bytes) n l,
  (forall x, length (f x) = n) -> length (flat_map f l) = n * length l.
Proof.
  intros A f n l H. induction l as [|x l IH]; cbn [flat_map length]; [lia|].
  rewrite app_length, H, IH. lia.
Qed.

(* msg xor ks(length msg), with a key stream at least as long as the message *)
Lemma xor_ks_involutive : forall (ks : nat -> bytes) msg,
  (forall n, n <= length (ks n)) ->
  xor_bytes (xor_bytes msg (ks (length msg))) (ks (length (xor_bytes msg (ks (length msg))))) = msg.
Proof.
  intros ks msg H.
  assert (L : length (xor_bytes msg (ks (length msg))) = length msg).
  { rewrite xor_bytes_length. specialize (H (length msg)). lia. }
  rewrite L. apply xor_bytes_involutive. apply H.
Qed.

(* ---------------------------------------------------------------------------------------- *)
(* ChaCha20 *)

Lemma chacha20_block_length : forall key c nonce, length (chacha20_block key c nonce) = 64.
Proof.
  intros. unfold chacha20_block, chacha_serialize.
  destruct (chacha_add _ _). reflexivity.
Qed.

Lemma chacha20_chunks_xs : forall key nonce cs c,
  chacha20_chunks key nonce c cs =
  xs_chunks N (fun c => chacha20_block key c nonce) (fun c => (c + 1)%N) c cs.
Proof.
  induction cs as [|x cs IH]; intros c; [reflexivity|].
  cbn [chacha20_chunks xs_chunks]. now rewrite IH.
Qed.

(* RFC 8439 ChaCha20, any initial counter, any length *)
Theorem chacha20_involutive : forall key nonce counter msg,
  chacha20 key nonce counter (chacha20 key nonce counter msg) = msg.
Proof.
  intros. unfold chacha20. rewrite !chacha20_chunks_xs.
  apply xs_involutive; [lia|]. intros. apply chacha20_block_length.
Qed.

Theorem chacha20_length : forall key nonce counter msg,
  length (chacha20 key nonce counter msg) = length msg.
Proof.
  intros. unfold chacha20. rewrite chacha20_chunks_xs.
  apply xs_length; [lia|]. intros. apply chacha20_block_length.
Qed.

(* IMB_CIPHER_CHACHA20 job (either direction) *)
Theorem chacha20_job_involutive : forall key iv msg,
  chacha20_job key iv (chacha20_job key iv msg) = msg.
Proof. intros. apply chacha20_involutive. Qed.

(* ---------------------------------------------------------------------------------------- *)
(* ZUC-EEA3 *)

Lemma zuc_gen_length : forall n st, length (zuc_gen n st) = n.
Proof.
  induction n; intros st; cbn [zuc_gen]; [reflexivity|].
  destruct (zuc_work_round st) as [z st']. cbn [length]. now rewrite IHn.
Qed.

Lemma be32_len : forall x, length (be32 x) = 4.
Proof. intros. apply N_to_be_length. Qed.

Lemma nwords_bound : forall n, n <= 4 * ((n + 3) / 4).
Proof.
  intros n. pose proof (Nat.div_mod (n + 3) 4 ltac:(lia)).
  pose proof (Nat.mod_upper_bound (n + 3) 4 ltac:(lia)). lia.
Qed.

Theorem zuc_eea3_involutive : forall key iv msg,
  zuc_eea3 key iv (zuc_eea3 key iv msg) = msg.
Proof.
  intros. unfold zuc_eea3.
  apply (xor_ks_involutive
           (fun n => zuc_ks_bytes (zuc_keystream key iv (zuc_nwords_for_bytes n)))).
  intros n. unfold zuc_ks_bytes, zuc_keystream, zuc_nwords_for_bytes.
  rewrite (flat_map_length_const _ be32 4) by apply be32_len.
  rewrite zuc_gen_length. apply nwords_bound.
Qed.

Theorem zuc256_eea3_involutive : forall key iv msg,
  zuc256_eea3 key iv (zuc256_eea3 key iv msg) = msg.
Proof.
  intros. unfold zuc256_eea3.
  apply (xor_ks_involutive
           (fun n => zuc_ks_bytes (zuc256_keystream 0 key iv (zuc_nwords_for_bytes n)))).
  intros n. unfold zuc_ks_bytes, zuc256_keystream, zuc_nwords_for_bytes.
  rewrite (flat_map_length_const _ be32 4) by apply be32_len.
  rewrite zuc_gen_length. apply nwords_bound.
Qed.

(* IMB_CIPHER_ZUC_EEA3 job: key length selects ZUC-128 / ZUC-256 *)
Theorem zuc_eea3_job_involutive : forall key iv msg,
  zuc_eea3_job key iv (zuc_eea3_job key iv msg) = msg.
Proof.
  intros. unfold zuc_eea3_job. destruct (Nat.eqb (length key) 32).
  - apply zuc256_eea3_involutive.
  - apply zuc_eea3_involutive.
Qed.

(* ---------------------------------------------------------------------------------------- *)
(* SNOW3G-UEA2 *)

Lemma snow3g_gen_length : forall n st, length (snow3g_gen n st) = n.
Proof.
  induction n; intros st; cbn [snow3g_gen]; [reflexivity|].
  destruct (snow3g_ks_round st) as [z st']. cbn [length]. now rewrite IHn.
Qed.

Lemma snow3g_ks_bytes_length : forall key iv n,
  length (snow3g_ks_bytes (snow3g_keystream key iv n)) = 4 * n.
Proof.
  intros. unfold snow3g_ks_bytes, snow3g_keystream, snow3g_keystream_words.
  rewrite (flat_map_length_const _ be32 4) by apply be32_len.
  now rewrite snow3g_gen_length.
Qed.

(* UEA2 of the standard on whole bytes *)
Theorem snow3g_f8_involutive : forall key iv msg,
  snow3g_f8 key iv (snow3g_f8 key iv msg) = msg.
Proof.
  intros. unfold snow3g_f8.
  apply (xor_ks_involutive
           (fun n => snow3g_ks_bytes (snow3g_keystream key iv ((n + 3) / 4)))).
  intros n. rewrite snow3g_ks_bytes_length. apply nwords_bound.
Qed.

(* ---------------------------------------------------------------------------------------- *)
(* KASUMI-F8 *)

Lemma kasumi_f8_ks_loop_length : forall n sk a prev cnt,
  length (kasumi_f8_ks_loop n sk a prev cnt) = n.
Proof.
  induction n; intros; cbn [kasumi_f8_ks_loop length]; [reflexivity|]. now rewrite IHn.
Qed.

Lemma be64_len : forall x, length (be64 x) = 8.
Proof. intros. apply N_to_be_length. Qed.

Lemma kasumi_f8_keystream_length : forall key iv n, length (kasumi_f8_keystream key iv n) = 8 * n.
Proof.
  intros. unfold kasumi_f8_keystream, kasumi_f8_keystream_w.
  destruct (kasumi_f8_key_sched key) as [sk msk].
  rewrite (flat_map_length_const _ be64 8) by apply be64_len.
  now rewrite kasumi_f8_ks_loop_length.
Qed.

Lemma nblocks8_bound : forall n, n <= 8 * ((n + 7) / 8).
Proof.
  intros n. pose proof (Nat.div_mod (n + 7) 8 ltac:(lia)).
  pose proof (Nat.mod_upper_bound (n + 7) 8 ltac:(lia)). lia.
Qed.

(* whole bytes, offset 0 *)
Theorem kasumi_f8_bytes_involutive : forall key iv msg,
  kasumi_f8_bytes key iv (kasumi_f8_bytes key iv msg) = msg.
Proof.
  intros. unfold kasumi_f8_bytes.
  apply (xor_ks_involutive (fun n => kasumi_f8_keystream key iv ((n + 7) / 8))).
  intros n. rewrite kasumi_f8_keystream_length. apply nblocks8_bound.
Qed.

Local Open Scope N_scope.

Lemma bit_window_mask_bits : forall lo hi pos i,
  N.testbit (bit_window_mask lo hi pos) i = true -> N.testbit 255 i = true.
Proof.
  intros lo hi pos i H. unfold bit_window_mask, w8, mask8 in H.
  rewrite !N.land_spec in H. apply andb_true_iff in H. destruct H as [_ H].
  apply andb_true_iff in H. tauto.
Qed.

Lemma byte_bits255 : forall x i, x < 256 -> N.testbit x i = true -> N.testbit 255 i = true.
Proof.
  intros x i Hx H. change 255 with (N.ones 8).
  destruct (N.lt_ge_cases i 8) as [L|L]; [now apply N.ones_spec_low|].
  rewrite (N.bits_above_log2 x i) in H; [discriminate|].
  destruct (N.eq_dec x 0) as [->|]; [now rewrite N.bits_0 in H|].
  assert (N.log2 x < 8) by (apply N.log2_lt_pow2; lia). lia.
Qed.

(* one byte of f8_merge, in place, applied twice *)
Lemma f8_merge_byte_twice : forall m d c,
  (forall i, N.testbit m i = true -> N.testbit 255 i = true) -> d < 256 ->
  let b1 := N.lor (N.land d (N.lxor m 255)) (N.land (N.lxor d c) m) in
  N.lor (N.land b1 (N.lxor m 255)) (N.land (N.lxor b1 c) m) = d.
Proof.
  intros m d c Hm Hd b1. unfold b1. apply N.bits_inj. intro i.
  rewrite !N.lor_spec, !N.land_spec, !N.lxor_spec, !N.lor_spec, !N.land_spec, !N.lxor_spec.
  pose proof (Hm i) as M. pose proof (byte_bits255 d i Hd) as Dd.
  destruct (N.testbit m i), (N.testbit 255 i), (N.testbit d i), (N.testbit c i);
    try reflexivity; try (specialize (M eq_refl); discriminate);
    specialize (Dd eq_refl); discriminate.
Qed.

Lemma f8_merge_length : forall cs s lo hi pos, (length cs <= length s)%nat ->
  length (f8_merge cs s s lo hi pos) = length s.
Proof.
  induction cs as [|c cs IH]; intros s lo hi pos H; [reflexivity|].
  destruct s as [|d s]; [simpl in H; lia|].
  cbn [f8_merge hd tl length]. f_equal. apply IH. simpl in H. lia.
Qed.

Lemma f8_merge_ok_twice : forall cs s lo hi pos, bytes_ok s = true ->
  (length cs <= length s)%nat ->
  let s1 := f8_merge cs s s lo hi pos in f8_merge cs s1 s1 lo hi pos = s.
Proof.
  induction cs as [|c cs IH]; intros s lo hi pos Ok H; [reflexivity|].
  destruct s as [|d s]; [simpl in H; lia|].
  apply bytes_ok_cons in Ok. destruct Ok as [Hd Ok].
  cbn [f8_merge hd tl]. f_equal.
  - apply f8_merge_byte_twice; [apply bit_window_mask_bits|exact Hd].
  - apply IH; [exact Ok|simpl in H; lia].
Qed.

Lemma ceil64_bound : forall b, N.shiftr b 3 <= 8 * ceil_div64 b.
Proof.
  intros b. unfold ceil_div64. rewrite !N.shiftr_div_pow2.
  change (2 ^ 3) with 8. change (2 ^ 6) with 64.
  pose proof (N.div_mod (b + 63) 64 ltac:(discriminate)) as H1.
  pose proof (N.mod_lt (b + 63) 64 ltac:(discriminate)) as H2.
  pose proof (N.div_mod b 8 ltac:(discriminate)) as H3.
  pose proof (N.mod_lt b 8 ltac:(discriminate)) as H4.
  generalize dependent ((b + 63) / 64). generalize dependent ((b + 63) mod 64).
  generalize dependent (b / 8). generalize dependent (b mod 8). intros. lia.
Qed.

(* IMB_CIPHER_KASUMI_UEA1_BITLEN job, in place, applied twice: restores the buffer.
   Every bit length; every bit offset on the bit path; byte path (bitlen and offset both
   multiples of 8): offset 0 (with an offset the library writes to dst + 0 but reads from
   src + offset/8, so in-place operation is not an involution there). *)
Theorem kasumi_f8_involutive : forall key iv msg bitlen bitoff,
  bytes_ok msg = true ->
  (* the buffer holds every byte the job touches *)
  (N.to_nat (N.shiftr bitoff 3) + N.to_nat (ceil_div8 (N.land bitoff 7 + bitlen)) <= length msg)%nat ->
  (N.land bitlen 7 = 0 /\ N.land bitoff 7 = 0 -> bitoff = 0) ->
  kasumi_f8 key iv (kasumi_f8 key iv msg bitlen bitoff) bitlen bitoff = msg.
Proof.
  intros key iv msg bitlen bitoff Ok Hlen Hoff. unfold kasumi_f8, kasumi_f8_job. cbv zeta.
  destruct ((N.land bitlen 7 =? 0) && (N.land bitoff 7 =? 0))%bool eqn:Epath.
  - (* byte path, offset 0 *)
    apply andb_true_iff in Epath. destruct Epath as [E1 E2].
    apply N.eqb_eq in E1. apply N.eqb_eq in E2. rewrite (Hoff (conj E1 E2)) in *.
    change (N.to_nat (N.shiftr 0 3)) with 0%nat in *. rewrite !skipn_O.
    change (N.land 0 7) with 0 in Hlen. rewrite N.add_0_l in Hlen. cbn [Nat.add] in Hlen.
    set (n := N.to_nat (N.shiftr bitlen 3)).
    set (ks := kasumi_f8_keystream key iv (N.to_nat (ceil_div64 bitlen))).
    assert (Hn : (n <= length msg)%nat).
    { unfold n. unfold ceil_div8 in Hlen. rewrite !N.shiftr_div_pow2 in *. change (2 ^ 3) with 8 in *.
      assert (bitlen / 8 <= (bitlen + 7) / 8) by (apply N.div_le_mono; lia). lia. }
    assert (Hk : (n <= length ks)%nat).
    { unfold ks, n. rewrite kasumi_f8_keystream_length. pose proof (ceil64_bound bitlen). lia. }
    assert (P1 : forall m : bytes, (n <= length m)%nat -> firstn n (pad_right n m) = firstn n m).
    { intros m Hm. unfold pad_right. replace (n - length m)%nat with 0%nat by lia.
      cbn [zeros repeat]. now rewrite app_nil_r. }
    rewrite (P1 msg Hn).
    set (c := xor_bytes (firstn n msg) ks).
    assert (Lc : length c = n) by (unfold c; rewrite xor_bytes_length, firstn_length; lia).
    rewrite P1 by (rewrite app_length, skipn_length, Lc; lia).
    rewrite firstn_app_exact, skipn_app_exact by (symmetry; exact Lc).
    unfold c. rewrite xor_bytes_involutive by (rewrite firstn_length; lia).
    apply firstn_skipn.
  - (* bit path *)
    set (q := N.to_nat (N.shiftr bitoff 3)) in *.
    set (r := N.land bitoff 7) in *.
    set (nb := if bitlen <? 64 - r then ceil_div8 bitlen else ceil_div8 (r + bitlen)).
    set (cs := firstn (N.to_nat nb)
                 (shift_stream r 0 (kasumi_f8_keystream key iv (N.to_nat (ceil_div64 (r + bitlen)))))).
    assert (Hnb : nb <= ceil_div8 (r + bitlen)).
    { unfold nb. destruct (bitlen <? 64 - r); [|lia]. unfold ceil_div8.
      rewrite !N.shiftr_div_pow2. apply N.div_le_mono; [discriminate|lia]. }
    assert (Lcs : (length cs <= length (skipn q msg))%nat).
    { unfold cs. rewrite firstn_length, skipn_length. lia. }
    set (s := skipn q msg) in *.
    assert (Os : bytes_ok s = true) by (now apply bytes_ok_skipn).
    assert (Lq : length (firstn q msg) = q) by (rewrite firstn_length; lia).
    rewrite firstn_app_exact, skipn_app_exact by (symmetry; exact Lq).
    rewrite (f8_merge_ok_twice cs s r (r + bitlen) 0 Os Lcs).
    apply firstn_skipn.
Qed.

(* ---------------------------------------------------------------------------------------- *)
(* SNOW-V: the key-stream block is 16 bytes in every reachable state (state-shape invariant) *)
Close Scope N_scope.

Lemma flat_map_length_forall : forall (A : Type) (f : A -> bytes) n l,
  Forall (fun x => length (f x) = n) l -> length (flat_map f l) = n * length l.
Proof.
  intros A f n l H. induction H as [|x l Hx Hl IH]; cbn [flat_map length]; [lia|].
  rewrite app_length, Hx, IH. lia.
Qed.

Lemma snowv_permute_length : forall perm st, length (SNOWV.permute perm st) = length perm.
Proof. intros. unfold SNOWV.permute. apply map_length. Qed.

Lemma snowv_aes_round_length : forall st, length (snowv_aes_round st) = 16.
Proof.
  intros st. unfold snowv_aes_round.
  set (p := SNOWV.permute snowv_shiftrows_perm (map snowv_sub st)).
  assert (Lp : length p = 4 * 4) by (unfold p; now rewrite snowv_permute_length).
  destruct (chunks_all_full 4 4 p ltac:(lia) Lp) as [F L].
  rewrite (flat_map_length_forall _ mixcolumn 4); [now rewrite L|].
  eapply Forall_impl; [|exact F]. intros c Hc.
  do 4 (destruct c as [|? c]; [discriminate Hc|]). destruct c; [reflexivity|discriminate Hc].
Qed.

Lemma words_le_length : forall n k l, 0 < n -> length l = n * k -> length (words_le n l) = k.
Proof.
  intros n k l Hn Hl. unfold words_le. rewrite map_length.
  now destruct (chunks_all_full n k l Hn Hl).
Qed.

Lemma add32x4_length : forall a b, length a = 16 -> length b = 16 -> length (add32x4 a b) = 16.
Proof.
  intros a b La Lb. unfold add32x4.
  rewrite (flat_map_length_const _ le32 4) by (intros; apply N_to_le_length).
  rewrite map_length, combine_length.
  rewrite (words_le_length 4 4 a), (words_le_length 4 4 b) by (try lia; assumption). reflexivity.
Qed.

Lemma bytes_of_words16_length : forall w, length (bytes_of_words16 w) = 2 * length w.
Proof.
  intros. unfold bytes_of_words16. apply flat_map_length_const. intros. apply N_to_le_length.
Qed.

Definition snowv_inv (s : snowv_state) : Prop :=
  length (sv_B s) = 16 /\ length (sv_R1 s) = 16 /\ length (sv_R2 s) = 16.

Lemma snowv_z_length : forall s, snowv_inv s -> length (snowv_z s) = 16.
Proof.
  intros s (LB & L1 & L2). unfold snowv_z. rewrite xor_bytes_length, add32x4_length, L2; try assumption.
  - reflexivity.
  - unfold snowv_T1. rewrite bytes_of_words16_length, skipn_length, LB. reflexivity.
Qed.

Lemma lfsr_step_lengthB : forall ab, snd ab <> [] -> length (snd (lfsr_step ab)) = length (snd ab).
Proof.
  intros [A B] H. cbn [snd] in *. unfold lfsr_step. cbn [snd].
  destruct B as [|b0 B]; [congruence|]. cbn [tl]. rewrite app_length. cbn [length]. lia.
Qed.

Lemma iter_lfsr_lengthB : forall k ab, length (snd ab) = 16 ->
  length (snd (Lib.Bytes.iter k lfsr_step ab)) = 16.
Proof.
  induction k as [|k IH]; intros ab H; [exact H|].
  cbn [Lib.Bytes.iter]. apply IH. rewrite lfsr_step_lengthB; [exact H|].
  destruct (snd ab); [discriminate H|discriminate].
Qed.

Lemma snowv_clock_inv : forall s, snowv_inv s -> snowv_inv (snowv_clock s).
Proof.
  intros s (LB & L1 & L2). unfold snowv_clock. cbv zeta.
  pose proof (iter_lfsr_lengthB 8 (sv_A s, sv_B s) LB) as H.
  unfold lfsr_update. destruct (Lib.Bytes.iter 8 lfsr_step (sv_A s, sv_B s)) as [A' B'].
  cbn [snd] in H. unfold snowv_inv. cbn [sv_B sv_R1 sv_R2].
  split; [exact H|split; [now rewrite snowv_permute_length|apply snowv_aes_round_length]].
Qed.

Lemma snowv_init_round_fields : forall s,
  sv_B (snowv_init_round s) = sv_B (snowv_clock s)
  /\ sv_R1 (snowv_init_round s) = sv_R1 (snowv_clock s)
  /\ sv_R2 (snowv_init_round s) = sv_R2 (snowv_clock s).
Proof.
  intros s. unfold snowv_init_round. generalize (snowv_clock s). generalize (snowv_z s).
  intros z s'. cbv zeta. cbn [sv_B sv_R1 sv_R2]. repeat split; reflexivity.
Qed.

Lemma snowv_init_round_inv : forall s, snowv_inv s -> snowv_inv (snowv_init_round s).
Proof.
  intros s H. apply snowv_clock_inv in H. destruct H as (LB & L1 & L2).
  destruct (snowv_init_round_fields s) as (EB & E1 & E2).
  unfold snowv_inv. rewrite EB, E1, E2. auto.
Qed.

Lemma iter_init_round_inv : forall k s, snowv_inv s ->
  snowv_inv (Lib.Bytes.iter k snowv_init_round s).
Proof.
  induction k as [|k IH]; intros s H; [exact H|]. cbn [Lib.Bytes.iter]. apply IH.
  now apply snowv_init_round_inv.
Qed.

Lemma snowv_xor_R1_inv : forall s k, snowv_inv s -> length k = 16 -> snowv_inv (snowv_xor_R1 s k).
Proof.
  intros s k (LB & L1 & L2) Lk. unfold snowv_xor_R1, snowv_inv. cbn [sv_B sv_R1 sv_R2].
  repeat split; try assumption. rewrite xor_bytes_length, L1, Lk. reflexivity.
Qed.

Lemma pad_firstn_length : forall n l, length (firstn n (pad_right n l)) = n.
Proof.
  intros. rewrite firstn_length. unfold pad_right, zeros. rewrite app_length, repeat_length. lia.
Qed.

Lemma snowv_init_inv : forall aead key iv, snowv_inv (snowv_init aead key iv).
Proof.
  intros aead key iv. unfold snowv_init. cbv zeta.
  set (key' := firstn 32 (pad_right 32 key)).
  assert (Lk : length key' = 32) by apply pad_firstn_length.
  assert (Llo : length (firstn 16 key') = 16) by (rewrite firstn_length; lia).
  assert (Lhi : length (skipn 16 key') = 16) by (rewrite skipn_length; lia).
  apply snowv_xor_R1_inv; [|exact Lhi].
  apply snowv_init_round_inv. apply snowv_xor_R1_inv; [|exact Llo].
  apply snowv_init_round_inv. apply iter_init_round_inv.
  unfold snowv_inv. cbn [sv_B sv_R1 sv_R2]. repeat split; try (unfold zeros; apply repeat_length).
  rewrite app_length. unfold words16_of_bytes. rewrite (words_le_length 2 8) by (try lia; exact Lhi).
  destruct aead; reflexivity.
Qed.

Lemma snowv_ks_from_length : forall n s, snowv_inv s -> length (snowv_ks_from n s) = 16 * n.
Proof.
  induction n as [|n IH]; intros s H; cbn [snowv_ks_from length]; [lia|].
  rewrite app_length. rewrite (snowv_z_length s H). rewrite (IH _ (snowv_clock_inv s H)). lia.
Qed.

Lemma nblocks16_bound : forall n, n <= 16 * ((n + 15) / 16).
Proof.
  intros n. pose proof (Nat.div_mod (n + 15) 16 ltac:(lia)).
  pose proof (Nat.mod_upper_bound (n + 15) 16 ltac:(lia)). lia.
Qed.

(* IMB_CIPHER_SNOW_V job: every key, IV and message length *)
Theorem snowv_involutive : forall key iv msg, snowv key iv (snowv key iv msg) = msg.
Proof.
  intros. unfold snowv, nblocks16.
  apply (xor_ks_involutive (fun n => snowv_keystream key iv ((n + 15) / 16))).
  intros n. unfold snowv_keystream. rewrite snowv_ks_from_length by apply snowv_init_inv.
  apply nblocks16_bound.
Qed.

(* ---------------------------------------------------------------------------------------- *)
(* SNOW3G-UEA2 job (IMB_CIPHER_SNOW3G_UEA2_BITLEN), byte-aligned, in place *)
Local Open Scope N_scope.

Lemma nwords32_bound : forall b, N.shiftr b 3 <= 4 * N.shiftr (b + 31) 5.
Proof.
  intros b. rewrite !N.shiftr_div_pow2. change (2 ^ 3) with 8. change (2 ^ 5) with 32.
  pose proof (N.div_mod (b + 31) 32 ltac:(discriminate)) as H1.
  pose proof (N.mod_lt (b + 31) 32 ltac:(discriminate)) as H2.
  pose proof (N.div_mod b 8 ltac:(discriminate)) as H3.
  pose proof (N.mod_lt b 8 ltac:(discriminate)) as H4.
  generalize dependent ((b + 31) / 32). generalize dependent ((b + 31) mod 32).
  generalize dependent (b / 8). generalize dependent (b mod 8). intros. lia.
Qed.

(* bit length a multiple of 8, offset 0, job->dst = job->src: applying the job twice restores
   the buffer, for every key, IV, buffer and length that fits the buffer *)
Theorem snow3g_uea2_involutive_bytes : forall key iv msg bitlen,
  N.land bitlen 7 = 0 -> (N.to_nat (N.shiftr bitlen 3) <= length msg)%nat ->
  snow3g_uea2_inplace key iv (snow3g_uea2_inplace key iv msg bitlen 0) bitlen 0 = msg.
Proof.
  intros key iv msg bitlen Hb Hn. unfold snow3g_uea2_inplace, snow3g_uea2_job. cbv zeta.
  rewrite Hb. change (N.land 0 7) with 0. cbn [N.eqb andb].
  change (N.to_nat (N.shiftr 0 3)) with 0%nat. rewrite !skipn_O.
  set (n := N.to_nat (N.shiftr bitlen 3)) in *.
  set (ks := snow3g_ks_bytes (snow3g_keystream key iv (N.to_nat (N.shiftr (bitlen + 31) 5)))).
  assert (Hk : (n <= length ks)%nat).
  { unfold ks, n. rewrite snow3g_ks_bytes_length. pose proof (nwords32_bound bitlen). lia. }
  set (c := xor_bytes (firstn n msg) ks).
  assert (Lc : length c = n) by (unfold c; rewrite xor_bytes_length, firstn_length; lia).
  rewrite firstn_app_exact, skipn_app_exact by (symmetry; exact Lc).
  unfold c. rewrite xor_bytes_involutive by (rewrite firstn_length; lia).
  apply firstn_skipn.
Qed.

Close Scope N_scope.

Theorem zuc_eea3_all_involutive : forall key iv msg,
  zuc_eea3 key iv (zuc_eea3 key iv msg) = msg /\
  zuc256_eea3 key iv (zuc256_eea3 key iv msg) = msg /\
  zuc_eea3_job key iv (zuc_eea3_job key iv msg) = msg.
Proof.
  intros. repeat split; [apply zuc_eea3_involutive|apply zuc256_eea3_involutive|
                         apply zuc_eea3_job_involutive].
Qed.

Theorem snow3g_uea2_involutive : forall key iv msg,
  snow3g_f8 key iv (snow3g_f8 key iv msg) = msg /\
  (forall bitlen, N.land bitlen 7 = 0%N -> N.to_nat (N.shiftr bitlen 3) <= length msg ->
     snow3g_uea2_inplace key iv (snow3g_uea2_inplace key iv msg bitlen 0) bitlen 0 = msg).
Proof.
  intros. split; [apply snow3g_f8_involutive|intros; now apply snow3g_uea2_involutive_bytes].
Qed.

(* ---------------------------------------------------------------------------------------- *)
(* SNOW3G-UEA2 BITLEN job, bit path (SNOW3G_F8_1_BUFFER_BIT), in place.
   Three regimes (all library-defined, see Spec/SNOW3G.v):
   R1  ob <> 0 and (ob + bitlen) mod 8 <> 0 : every other bit of dst is preserved; applying
       the job twice restores the buffer exactly;
   R2  ob = 0 (then bitlen mod 8 <> 0)       : the trailing bits of the last byte are
       overwritten with key stream; applying twice restores the bitlen message bits;
   R3  ob <> 0 and (ob + bitlen) mod 8 = 0   : the last byte is OR-ed with its previous
       content, so in-place operation is NOT invertible — no theorem (excluded below). *)
Local Open Scope N_scope.

Lemma take_bits_0 : forall l, snow3g_take_bits 0 l = [].
Proof. destruct l; reflexivity. Qed.

Lemma himask_twice : forall b k hm,
  N.land (N.lxor (N.land (N.lxor (N.land b hm) k) hm) k) hm = N.land b hm.
Proof.
  intros. apply N.bits_inj. intro i.
  repeat first [rewrite N.land_spec | rewrite N.lxor_spec].
  destruct (N.testbit b i), (N.testbit k i), (N.testbit hm i); reflexivity.
Qed.

Ltac divmod8 t :=
  let H1 := fresh in let H2 := fresh in
  pose proof (N.div_mod t 8 ltac:(discriminate)) as H1;
  pose proof (N.mod_lt t 8 ltac:(discriminate)) as H2;
  generalize dependent (t / 8); generalize dependent (t mod 8); intros.

Lemma ceil8_step : forall n, 8 <= n -> N.to_nat ((n + 7) / 8) = S (N.to_nat ((n - 8 + 7) / 8)).
Proof.
  intros n H. replace (n + 7) with ((n - 8 + 7) + 1 * 8) by lia.
  rewrite N.div_add by discriminate. lia.
Qed.

Lemma ceil8_small : forall n, n <> 0 -> n < 8 -> N.to_nat ((n + 7) / 8) = 1%nat.
Proof.
  intros n H0 H8. replace ((n + 7) / 8) with 1; [reflexivity|].
  apply N.div_unique with (r := n - 1); lia.
Qed.

Ltac hide_div := repeat match goal with
  | |- context [(?x / 8)%N] => let v := fresh "v" in set (v := (x / 8)%N) in *; clearbody v
  | H : context [(?x / 8)%N] |- _ => let v := fresh "v" in set (v := (x / 8)%N) in *; clearbody v
  end.
Ltac dlia := hide_div; lia.

Lemma take_xor_twice : forall s n ks r r',
  (N.to_nat ((n + 7) / 8) <= length s)%nat -> (N.to_nat ((n + 7) / 8) <= length ks)%nat ->
  snow3g_take_bits n
    (xor_bytes (snow3g_take_bits n (xor_bytes (snow3g_take_bits n s) ks ++ r)) ks ++ r')
  = snow3g_take_bits n s.
Proof.
  induction s as [|b t IH]; intros n ks r r' Hs Hk.
  - cbn [length] in Hs. assert (n = 0).
    { destruct (N.eq_dec n 0) as [|Hn]; [assumption|]. exfalso.
      assert (1 <= (n + 7) / 8) by (apply N.div_le_lower_bound; dlia). dlia. }
    subst n. now rewrite !take_bits_0.
  - cbn [snow3g_take_bits].
    destruct (N.eqb_spec n 0) as [->|Hn0].
    { cbn [xor_bytes app]. now rewrite !take_bits_0. }
    destruct (N.leb_spec 8 n) as [H8|H8].
    + rewrite ceil8_step in Hs, Hk by exact H8. cbn [length] in Hs.
      destruct ks as [|k ks]; [cbn [length] in Hk; now apply Nat.nle_succ_0 in Hk|]. cbn [length] in Hk.
      cbn [xor_bytes app snow3g_take_bits].
      replace (n =? 0) with false by (symmetry; now apply N.eqb_neq).
      replace (8 <=? n) with true by (symmetry; now apply N.leb_le).
      cbn [xor_bytes app snow3g_take_bits].
      replace (n =? 0) with false by (symmetry; now apply N.eqb_neq).
      replace (8 <=? n) with true by (symmetry; now apply N.leb_le).
      f_equal.
      * rewrite N.lxor_assoc, N.lxor_nilpotent. apply N.lxor_0_r.
      * apply IH; dlia.
    + rewrite ceil8_small in Hk by assumption.
      destruct ks as [|k ks]; [cbn [length] in Hk; now apply Nat.nle_succ_0 in Hk|].
      cbn [xor_bytes app snow3g_take_bits].
      replace (n =? 0) with false by (symmetry; now apply N.eqb_neq).
      replace (8 <=? n) with false by (symmetry; now apply N.leb_gt).
      cbn [xor_bytes app snow3g_take_bits].
      replace (n =? 0) with false by (symmetry; now apply N.eqb_neq).
      replace (8 <=? n) with false by (symmetry; now apply N.leb_gt).
      f_equal. apply himask_twice.
Qed.

Lemma take_bits_length : forall s n, (N.to_nat ((n + 7) / 8) <= length s)%nat ->
  length (snow3g_take_bits n s) = N.to_nat ((n + 7) / 8).
Proof.
  induction s as [|b t IH]; intros n Hs.
  - cbn [length] in Hs. cbn [snow3g_take_bits length]. dlia.
  - cbn [snow3g_take_bits].
    destruct (N.eqb_spec n 0) as [->|Hn0]; [reflexivity|].
    destruct (N.leb_spec 8 n) as [H8|H8].
    + rewrite ceil8_step in * by exact H8. cbn [length] in *. f_equal. apply IH. dlia.
    + now rewrite ceil8_small.
Qed.

(* R2 on the f8_bits level *)
Lemma snow3g_f8_bits_ob0_twice : forall key iv s bitlen,
  (N.to_nat (N.shiftr (bitlen + 7) 3) <= length s)%nat ->
  let nb := N.to_nat (N.shiftr (bitlen + 7) 3) in
  let s1 := snow3g_f8_bits key iv s s bitlen 0 in
  let s2 := snow3g_f8_bits key iv s1 s1 bitlen 0 in
  snow3g_take_bits bitlen s2 = snow3g_take_bits bitlen s /\ skipn nb s2 = skipn nb s
  /\ length s2 = length s.
Proof.
  intros key iv s bitlen Hs nb s1 s2. unfold s2, s1, snow3g_f8_bits. cbv zeta.
  cbn [N.eqb]. rewrite !N.add_0_l. fold nb. fold nb in Hs.
  assert (Enb : N.to_nat ((bitlen + 7) / 8) = nb)
    by (unfold nb; now rewrite N.shiftr_div_pow2).
  set (ks := snow3g_ks_bytes (snow3g_keystream key iv (N.to_nat (N.shiftr (bitlen + 31) 5)))).
  assert (Hk : (nb <= length ks)%nat).
  { unfold ks. rewrite <- Enb. rewrite snow3g_ks_bytes_length, !N.shiftr_div_pow2.
    change (2 ^ 5) with 32.
    pose proof (N.div_mod (bitlen + 31) 32 ltac:(discriminate)) as H1.
    pose proof (N.mod_lt (bitlen + 31) 32 ltac:(discriminate)) as H2.
    pose proof (N.div_mod (bitlen + 7) 8 ltac:(discriminate)) as H3.
    pose proof (N.mod_lt (bitlen + 7) 8 ltac:(discriminate)) as H4.
    clear Enb Hs.
    generalize dependent ((bitlen + 31) / 32). generalize dependent ((bitlen + 31) mod 32).
    generalize dependent ((bitlen + 7) / 8). generalize dependent ((bitlen + 7) mod 8).
    intros. lia. }
  clearbody nb.
  assert (L1 : length (xor_bytes (snow3g_take_bits bitlen s) ks) = nb).
  { rewrite xor_bytes_length, take_bits_length by (rewrite Enb; exact Hs). rewrite Enb. lia. }
  set (c1 := xor_bytes (snow3g_take_bits bitlen s) ks) in *.
  assert (Hs1 : (nb <= length (c1 ++ skipn nb s))%nat) by (rewrite app_length; lia).
  assert (L2 : length (xor_bytes (snow3g_take_bits bitlen (c1 ++ skipn nb s)) ks) = nb).
  { rewrite xor_bytes_length, take_bits_length by (rewrite Enb; exact Hs1). rewrite Enb. lia. }
  repeat split.
  - unfold c1. apply take_xor_twice; rewrite Enb; assumption.
  - rewrite skipn_app_exact by (symmetry; exact L2).
    now rewrite skipn_app_exact by (symmetry; exact L1).
  - rewrite app_length, L2, skipn_length, app_length, L1, skipn_length. lia.
Qed.

(* ---- R1 ---- *)

Definition sub255 (m : N) : Prop := forall i, N.testbit m i = true -> N.testbit 255 i = true.

Lemma w8_sub255 : forall x, sub255 (w8 x).
Proof.
  intros x i H. unfold w8, mask8 in H. rewrite N.land_spec in H.
  apply andb_true_iff in H. tauto.
Qed.

Lemma shr_bits_sub255 : forall k l c, Forall sub255 (snow3g_shr_bits k c l).
Proof.
  intros k l. induction l as [|b t IH]; intros c; cbn [snow3g_shr_bits];
    constructor; try apply w8_sub255; auto.
Qed.

Lemma shr_bits_length : forall k l c, length (snow3g_shr_bits k c l) = S (length l).
Proof.
  intros k l. induction l as [|b t IH]; intros c; cbn [snow3g_shr_bits length]; [reflexivity|].
  now rewrite IH.
Qed.

Lemma Forall_firstn : forall (A : Type) (P : A -> Prop) n l, Forall P l -> Forall P (firstn n l).
Proof.
  intros A P n l H. rewrite Forall_forall in *. intros x Hx. apply H.
  rewrite <- (firstn_skipn n l). apply in_or_app. now left.
Qed.

Lemma snow3g_ones_length : forall fuel n, (N.to_nat ((n + 7) / 8) <= fuel)%nat ->
  length (snow3g_ones fuel n) = N.to_nat ((n + 7) / 8).
Proof.
  induction fuel as [|f IH]; intros n H.
  - cbn [snow3g_ones length]. dlia.
  - cbn [snow3g_ones].
    destruct (N.eqb_spec n 0) as [->|Hn0]; [reflexivity|].
    destruct (N.leb_spec 8 n) as [H8|H8].
    + rewrite ceil8_step in * by exact H8. cbn [length]. f_equal. apply IH. dlia.
    + now rewrite ceil8_small.
Qed.

(* merge in place, twice *)
Lemma merge_byte_twice : forall m d k, sub255 m -> d < 256 ->
  let b1 := N.lor (N.land (N.lxor d k) m) (N.land d (N.lxor m 255)) in
  N.lor (N.land (N.lxor b1 k) m) (N.land b1 (N.lxor m 255)) = d.
Proof.
  intros m d k Hm Hd b1. unfold b1. apply N.bits_inj. intro i.
  rewrite !N.lor_spec, !N.land_spec, !N.lxor_spec, !N.lor_spec, !N.land_spec, !N.lxor_spec.
  pose proof (Hm i) as M. pose proof (byte_bits255 d i Hd) as Dd.
  destruct (N.testbit m i), (N.testbit 255 i), (N.testbit d i), (N.testbit k i);
    try reflexivity; try (specialize (M eq_refl); discriminate);
    specialize (Dd eq_refl); discriminate.
Qed.

Lemma snow3g_merge_length : forall mask new old, length (snow3g_merge mask new old) = length mask.
Proof.
  induction mask; intros; cbn [snow3g_merge length]; [reflexivity|]. now rewrite IHmask.
Qed.

Lemma snow3g_merge_inplace_twice : forall mask kss s t t',
  length s = length mask -> bytes_ok s = true -> Forall sub255 mask ->
  let s1 := snow3g_merge mask (xor_bytes_l s kss) (s ++ t) in
  snow3g_merge mask (xor_bytes_l s1 kss) (s1 ++ t') = s.
Proof.
  induction mask as [|m mask IH]; intros kss s t t' L Ok F.
  - destruct s; [reflexivity|discriminate L].
  - destruct s as [|d s]; [discriminate L|].
    apply bytes_ok_cons in Ok. destruct Ok as [Hd Ok]. inversion F as [|? ? Hm F']; subst.
    destruct kss as [|k kss].
    + cbn [xor_bytes_l app snow3g_merge hd tl]. f_equal.
      * pose proof (merge_byte_twice m d 0 Hm Hd) as H. cbv zeta in H.
        rewrite !N.lxor_0_r in H. exact H.
      * apply IH; [now injection L|exact Ok|exact F'].
    + cbn [xor_bytes_l app snow3g_merge hd tl]. f_equal.
      * apply merge_byte_twice; assumption.
      * apply IH; [now injection L|exact Ok|exact F'].
Qed.

Lemma nb_le_ones : forall ob bitlen, ob < 8 ->
  (ob + bitlen + 7) / 8 <= (bitlen + 7) / 8 + 1.
Proof.
  intros ob bitlen H.
  pose proof (N.div_mod (ob + bitlen + 7) 8 ltac:(discriminate)) as H1.
  pose proof (N.mod_lt (ob + bitlen + 7) 8 ltac:(discriminate)) as H2.
  pose proof (N.div_mod (bitlen + 7) 8 ltac:(discriminate)) as H3.
  pose proof (N.mod_lt (bitlen + 7) 8 ltac:(discriminate)) as H4.
  generalize dependent ((ob + bitlen + 7) / 8). generalize dependent ((ob + bitlen + 7) mod 8).
  generalize dependent ((bitlen + 7) / 8). generalize dependent ((bitlen + 7) mod 8).
  intros. lia.
Qed.

Lemma snow3g_f8_bits_inplace_twice : forall key iv s bitlen ob,
  ob <> 0 -> ob < 8 -> N.land (ob + bitlen) 7 <> 0 ->
  bytes_ok s = true -> (N.to_nat (N.shiftr (ob + bitlen + 7) 3) <= length s)%nat ->
  let s1 := snow3g_f8_bits key iv s s bitlen ob in
  snow3g_f8_bits key iv s1 s1 bitlen ob = s.
Proof.
  intros key iv s bitlen ob Hob0 Hob8 Hq Ok Hs s1. unfold s1, snow3g_f8_bits. cbv zeta.
  apply N.eqb_neq in Hob0. apply N.eqb_neq in Hq. rewrite Hob0, Hq.
  set (nb := N.to_nat (N.shiftr (ob + bitlen + 7) 3)) in *.
  set (ks := snow3g_ks_bytes (snow3g_keystream key iv (N.to_nat (N.shiftr (bitlen + 31) 5)))).
  set (ones := snow3g_ones nb bitlen).
  set (mask := firstn nb (snow3g_shr_bits ob 0 ones)).
  set (kss := snow3g_shr_bits ob 0 (snow3g_and_bytes ks ones)).
  assert (Hnb : (N.to_nat ((bitlen + 7) / 8) <= nb <= N.to_nat ((bitlen + 7) / 8) + 1)%nat).
  { unfold nb. rewrite N.shiftr_div_pow2. change (2 ^ 3) with 8.
    pose proof (nb_le_ones ob bitlen Hob8).
    assert ((bitlen + 7) / 8 <= (ob + bitlen + 7) / 8) by (apply N.div_le_mono; dlia). dlia. }
  assert (Lm : length mask = nb).
  { unfold mask, ones. rewrite firstn_length, shr_bits_length, snow3g_ones_length; dlia. }
  assert (Fm : Forall sub255 mask) by (apply Forall_firstn, shr_bits_sub255).
  set (a := firstn nb s). set (t := skipn nb s).
  assert (Es : s = a ++ t) by (symmetry; apply firstn_skipn).
  assert (La : length a = length mask) by (unfold a; rewrite firstn_length, Lm; dlia).
  assert (Oa : bytes_ok a = true) by (now apply bytes_ok_firstn).
  assert (Ht : (nb <= length s)%nat) by exact Hs.
  clearbody a t. clear Hs Ht Ok. subst s.
  set (n1 := snow3g_merge mask (xor_bytes_l a kss) (a ++ t)).
  assert (L1 : length n1 = nb) by (unfold n1; now rewrite snow3g_merge_length).
  rewrite (firstn_app_exact _ n1) by (symmetry; exact L1).
  rewrite (skipn_app_exact _ n1) by (symmetry; exact L1).
  unfold n1. now rewrite (snow3g_merge_inplace_twice mask kss a t t La Oa Fm).
Qed.

(* job level, in place *)
Theorem snow3g_uea2_bits_involutive : forall key iv msg bitlen bitoff,
  let base := N.to_nat (N.shiftr bitoff 3) in
  let ob := N.land bitoff 7 in
  ob <> 0 -> N.land (ob + bitlen) 7 <> 0 ->
  bytes_ok msg = true ->
  (base + N.to_nat (N.shiftr (ob + bitlen + 7) 3) <= length msg)%nat ->
  snow3g_uea2_inplace key iv (snow3g_uea2_inplace key iv msg bitlen bitoff) bitlen bitoff = msg.
Proof.
  intros key iv msg bitlen bitoff base ob Hob Hq Ok Hl.
  unfold snow3g_uea2_inplace, snow3g_uea2_job. cbv zeta. fold ob. fold base.
  apply N.eqb_neq in Hob. rewrite Hob, andb_false_r. apply N.eqb_neq in Hob.
  assert (Hob8 : ob < 8).
  { unfold ob. change 7 with (N.ones 3). rewrite N.land_ones. apply N.mod_lt. discriminate. }
  assert (Lb : length (firstn base msg) = base) by (rewrite firstn_length; dlia).
  rewrite firstn_app_exact, skipn_app_exact by (symmetry; exact Lb).
  rewrite snow3g_f8_bits_inplace_twice; try assumption.
  - apply firstn_skipn.
  - now apply bytes_ok_skipn.
  - rewrite skipn_length. dlia.
Qed.

(* R2 at the job level: offset a multiple of 8 (any), bit length not a multiple of 8 *)
Theorem snow3g_uea2_bits_ob0_twice : forall key iv msg bitlen bitoff,
  let base := N.to_nat (N.shiftr bitoff 3) in
  let nb := N.to_nat (N.shiftr (bitlen + 7) 3) in
  N.land bitoff 7 = 0 -> N.land bitlen 7 <> 0 -> (base + nb <= length msg)%nat ->
  let m2 := snow3g_uea2_inplace key iv (snow3g_uea2_inplace key iv msg bitlen bitoff) bitlen bitoff in
  firstn base m2 = firstn base msg
  /\ snow3g_take_bits bitlen (skipn base m2) = snow3g_take_bits bitlen (skipn base msg)
  /\ skipn (base + nb) m2 = skipn (base + nb) msg
  /\ length m2 = length msg.
Proof.
  intros key iv msg bitlen bitoff base nb Hob Hbl Hl m2.
  unfold m2, snow3g_uea2_inplace, snow3g_uea2_job. cbv zeta. fold base. rewrite Hob.
  apply N.eqb_neq in Hbl. rewrite Hbl. cbn [andb].
  assert (Lb : length (firstn base msg) = base) by (rewrite firstn_length; dlia).
  set (s := skipn base msg).
  set (X := snow3g_f8_bits key iv s s bitlen 0).
  rewrite (firstn_app_exact _ (firstn base msg) X base), (skipn_app_exact _ (firstn base msg) X base)
    by (symmetry; exact Lb).
  unfold X.
  assert (Hs : (N.to_nat (N.shiftr (bitlen + 7) 3) <= length s)%nat)
    by (unfold s; rewrite skipn_length; fold nb; dlia).
  destruct (snow3g_f8_bits_ob0_twice key iv s bitlen Hs) as (T1 & T2 & T3).
  cbv zeta in T1, T2, T3. fold nb in T2.
  set (s2 := snow3g_f8_bits key iv (snow3g_f8_bits key iv s s bitlen 0)
               (snow3g_f8_bits key iv s s bitlen 0) bitlen 0) in *.
  repeat split.
  - now apply firstn_app_exact.
  - rewrite skipn_app_exact by (symmetry; exact Lb). exact T1.
  - rewrite <- !skipn_skipn_add. rewrite skipn_app_exact by (symmetry; exact Lb).
    fold s. exact T2.
  - rewrite app_length, Lb, T3. unfold s. rewrite skipn_length. dlia.
Qed.
