(* Proofs/HashInstProofs.v — C02: the seven hash descriptions of Spec (H_SHA1, H_SHA224, H_SHA256,
   H_SHA384, H_SHA512, H_MD5, H_SM3) satisfy [md_wf] (Proofs/HmacSpecProofs.v), and the facts
   about state / digest sizes the lane theorems need.  No compression function is evaluated:
   only the shape "state in, same number of masked words out" is used. *)
From Coq Require Import List NArith Bool Lia Arith PeanoNat.
From IMB Require Import Lib.Bytes Struct.MemOps Struct.HmacPad Proofs.BytesLemmas Proofs.HashProofs
                        Proofs.HmacProofs Proofs.HmacSpecProofs Spec.SHA Spec.MD5 Spec.SM3 Spec.HMAC.
Import ListNotations.

(* ---------- shapes of the compression functions ---------- *)

Lemma sha1_compress_length st blk : length (sha1_compress st blk) = length st.
Proof.
  destruct st as [|a [|b [|c [|d [|e [|f t]]]]]]; try reflexivity.
  unfold sha1_compress.
  destruct (sha1_rounds 20 f_ch32 _ _ _) as [w1 s1].
  destruct (sha1_rounds 20 f_parity _ w1 s1) as [w2 s2].
  destruct (sha1_rounds 20 f_maj _ w2 s2) as [w3 s3].
  destruct (sha1_rounds 20 f_parity _ w3 s3) as [w4 [[[[a' b'] c'] d'] e']].
  reflexivity.
Qed.

Lemma sha1_compress_w32 st blk : length st = 5 -> Forall is_w32 (sha1_compress st blk).
Proof.
  intros H. destruct st as [|a [|b [|c [|d [|e [|f t]]]]]]; try discriminate H.
  unfold sha1_compress.
  destruct (sha1_rounds 20 f_ch32 _ _ _) as [w1 s1].
  destruct (sha1_rounds 20 f_parity _ w1 s1) as [w2 s2].
  destruct (sha1_rounds 20 f_maj _ w2 s2) as [w3 s3].
  destruct (sha1_rounds 20 f_parity _ w3 s3) as [w4 [[[[a' b'] c'] d'] e']].
  repeat constructor; apply is_w32_add32.
Qed.

Lemma sha256_compress_length st blk : length (sha256_compress st blk) = length st.
Proof.
  destruct st as [|a [|b [|c [|d [|e [|f [|g [|h [|i t]]]]]]]]]; try reflexivity.
  unfold sha256_compress.
  destruct (sha256_rounds _ _ _) as [[[[[[[a' b'] c'] d'] e'] f'] g'] h']. reflexivity.
Qed.

Lemma sha256_compress_w32 st blk : length st = 8 -> Forall is_w32 (sha256_compress st blk).
Proof.
  intros H. destruct st as [|a [|b [|c [|d [|e [|f [|g [|h [|i t]]]]]]]]]; try discriminate H.
  unfold sha256_compress.
  destruct (sha256_rounds _ _ _) as [[[[[[[a' b'] c'] d'] e'] f'] g'] h'].
  repeat constructor; apply is_w32_add32.
Qed.

Lemma sha512_compress_length st blk : length (sha512_compress st blk) = length st.
Proof.
  destruct st as [|a [|b [|c [|d [|e [|f [|g [|h [|i t]]]]]]]]]; try reflexivity.
  unfold sha512_compress.
  destruct (sha512_rounds _ _ _) as [[[[[[[a' b'] c'] d'] e'] f'] g'] h']. reflexivity.
Qed.

Lemma sha512_compress_w64 st blk : length st = 8 -> Forall is_w64 (sha512_compress st blk).
Proof.
  intros H. destruct st as [|a [|b [|c [|d [|e [|f [|g [|h [|i t]]]]]]]]]; try discriminate H.
  unfold sha512_compress.
  destruct (sha512_rounds _ _ _) as [[[[[[[a' b'] c'] d'] e'] f'] g'] h'].
  repeat constructor; apply is_w64_add64.
Qed.

Lemma md5_compress_length st blk : length (md5_compress st blk) = length st.
Proof.
  destruct st as [|a [|b [|c [|d [|e t]]]]]; try reflexivity.
  all: unfold md5_compress; cbv zeta;
    destruct (md5_rounds md5_I _ _ _ _ _) as [[[a' b'] c'] d']; reflexivity.
Qed.

Lemma md5_compress_w32 st blk : length st = 4 -> Forall is_w32 (md5_compress st blk).
Proof.
  intros H. destruct st as [|a [|b [|c [|d [|e t]]]]]; try discriminate H.
  unfold md5_compress. cbv zeta.
  destruct (md5_rounds md5_I _ _ _ _ _) as [[[a' b'] c'] d'].
  repeat constructor; apply is_w32_add32.
Qed.

(* SM3: the feed-forward is XOR, so the masked-word property needs the round invariant *)
Definition st8_w32 (s : st8) : Prop :=
  let '(a, b, c, d, e, f, g, h) := s in
  is_w32 a /\ is_w32 b /\ is_w32 c /\ is_w32 d /\ is_w32 e /\ is_w32 f /\ is_w32 g /\ is_w32 h.

Lemma is_w32_rotl32 x n : is_w32 (rotl32 x n).
Proof. apply is_w32_w32. Qed.

Lemma is_w32_sm3_P0 x : is_w32 x -> is_w32 (sm3_P0 x).
Proof.
  intros H. unfold sm3_P0. apply is_w32_lxor; [exact H|].
  apply is_w32_lxor; apply is_w32_rotl32.
Qed.

Lemma sm3_rounds_w32 ff gg ts : forall ws ws4 s,
  st8_w32 s -> st8_w32 (snd (sm3_rounds ff gg ts ws ws4 s)).
Proof.
  induction ts as [|t ts IH]; intros ws ws4 s Hs.
  - cbn [sm3_rounds]. exact Hs.
  - cbn [sm3_rounds]. destruct ws as [|w ws']; [exact Hs|].
    destruct ws4 as [|w4 ws4']; [exact Hs|].
    destruct s as [[[[[[[a b] c] d] e] f] g] h].
    destruct Hs as (Ha & Hb & Hc & Hd & He & Hf & Hgg & Hh).
    apply IH. unfold st8_w32. repeat split;
      try assumption; try apply is_w32_w32; try apply is_w32_rotl32.
    apply is_w32_sm3_P0. apply is_w32_w32.
Qed.

Lemma sm3_compress_length st blk : length (sm3_compress st blk) = length st.
Proof.
  destruct st as [|a [|b [|c [|d [|e [|f [|g [|h [|i t]]]]]]]]]; try reflexivity.
  unfold sm3_compress.
  destruct (sm3_rounds sm3_FF0 _ _ _ _ _) as [[ws ws4] s1].
  destruct (sm3_rounds sm3_FF1 _ _ _ _ _) as [[ws' ws4'] [[[[[[[a' b'] c'] d'] e'] f'] g'] h']].
  reflexivity.
Qed.

Lemma sm3_compress_w32 st blk : length st = 8 -> Forall is_w32 st ->
  Forall is_w32 (sm3_compress st blk).
Proof.
  intros H Hw. destruct st as [|a [|b [|c [|d [|e [|f [|g [|h [|i t]]]]]]]]]; try discriminate H.
  unfold sm3_compress.
  assert (H0 : st8_w32 (a, b, c, d, e, f, g, h)).
  { unfold st8_w32. repeat match goal with
      | H : Forall _ (_ :: _) |- _ => inversion H; clear H; subst end.
    repeat split; assumption. }
  pose proof (sm3_rounds_w32 sm3_FF0 sm3_GG0 sm3_T_lo (sm3_W blk) (skipn 4 (sm3_W blk)) _ H0) as H1.
  destruct (sm3_rounds sm3_FF0 _ _ _ _ _) as [[ws ws4] s1]. cbn [snd] in H1.
  pose proof (sm3_rounds_w32 sm3_FF1 sm3_GG1 sm3_T_hi ws ws4 s1 H1) as H2.
  destruct (sm3_rounds sm3_FF1 _ _ _ _ _) as [[ws' ws4'] [[[[[[[a' b'] c'] d'] e'] f'] g'] h']].
  cbn [snd] in H2. destruct H2 as (Ha & Hb & Hc & Hd & He & Hf & Hgg & Hh).
  destruct H0 as (Ia & Ib & Ic & Id & Ie & If' & Ig & Ih).
  repeat constructor; apply is_w32_lxor; assumption.
Qed.

Lemma sm3_init_w32 : Forall is_w32 sm3_init.
Proof. unfold sm3_init. repeat constructor; vm_compute; reflexivity. Qed.

(* ---------- md_wf instances ---------- *)

Lemma md_wf_sha1 : md_wf H_SHA1.
Proof.
  constructor; cbn [md_block md_padf md_deser md_ser md_compress md_init H_SHA1].
  - lia.
  - exists 8, true. reflexivity.
  - intros blk. apply le32s_ser_le32. apply sha1_compress_w32. reflexivity.
  - intros blk. rewrite !ser_le32_length, sha1_compress_length. reflexivity.
Qed.

Lemma md_wf_sha224 : md_wf H_SHA224.
Proof.
  constructor; cbn [md_block md_padf md_deser md_ser md_compress md_init H_SHA224].
  - lia.
  - exists 8, true. reflexivity.
  - intros blk. apply le32s_ser_le32. apply sha256_compress_w32. reflexivity.
  - intros blk. unfold sha224_compress. rewrite !ser_le32_length, sha256_compress_length. reflexivity.
Qed.

Lemma md_wf_sha256 : md_wf H_SHA256.
Proof.
  constructor; cbn [md_block md_padf md_deser md_ser md_compress md_init H_SHA256].
  - lia.
  - exists 8, true. reflexivity.
  - intros blk. apply le32s_ser_le32. apply sha256_compress_w32. reflexivity.
  - intros blk. rewrite !ser_le32_length, sha256_compress_length. reflexivity.
Qed.

Lemma md_wf_sha384 : md_wf H_SHA384.
Proof.
  constructor; cbn [md_block md_padf md_deser md_ser md_compress md_init H_SHA384].
  - lia.
  - exists 16, true. reflexivity.
  - intros blk. apply le64s_ser_le64. apply sha512_compress_w64. reflexivity.
  - intros blk. unfold sha384_compress. rewrite !ser_le64_length, sha512_compress_length. reflexivity.
Qed.

Lemma md_wf_sha512 : md_wf H_SHA512.
Proof.
  constructor; cbn [md_block md_padf md_deser md_ser md_compress md_init H_SHA512].
  - lia.
  - exists 16, true. reflexivity.
  - intros blk. apply le64s_ser_le64. apply sha512_compress_w64. reflexivity.
  - intros blk. rewrite !ser_le64_length, sha512_compress_length. reflexivity.
Qed.

Lemma md_wf_md5 : md_wf H_MD5.
Proof.
  constructor; cbn [md_block md_padf md_deser md_ser md_compress md_init H_MD5].
  - lia.
  - exists 8, false. reflexivity.
  - intros blk. apply le32s_ser_le32. apply md5_compress_w32. reflexivity.
  - intros blk. rewrite !ser_le32_length, md5_compress_length. reflexivity.
Qed.

Lemma md_wf_sm3 : md_wf H_SM3.
Proof.
  constructor; cbn [md_block md_padf md_deser md_ser md_compress md_init H_SM3].
  - lia.
  - exists 8, true. reflexivity.
  - intros blk. apply le32s_ser_le32. apply sm3_compress_w32; [reflexivity|apply sm3_init_w32].
  - intros blk. rewrite !ser_le32_length, sm3_compress_length. reflexivity.
Qed.

(* ---------- HMAC = RFC 2104 for each algorithm ---------- *)

Definition all_md_hashes : list md_hash :=
  [H_SHA1; H_SHA224; H_SHA256; H_SHA384; H_SHA512; H_MD5; H_SM3].

Lemma all_md_hashes_wf X : In X all_md_hashes -> md_wf X.
Proof.
  cbn [all_md_hashes In]. intros H.
  destruct H as [<-|[<-|[<-|[<-|[<-|[<-|[<-|[]]]]]]]].
  - exact md_wf_sha1. - exact md_wf_sha224. - exact md_wf_sha256. - exact md_wf_sha384.
  - exact md_wf_sha512. - exact md_wf_md5. - exact md_wf_sm3.
Qed.

(* the record-based HMAC is the named one *)
Lemma hmac_md_sha1 key msg : hmac_md H_SHA1 key msg = hmac_sha1 key msg.
Proof. reflexivity. Qed.
Lemma hmac_md_sha224 key msg : hmac_md H_SHA224 key msg = hmac_sha224 key msg.
Proof. reflexivity. Qed.
Lemma hmac_md_sha256 key msg : hmac_md H_SHA256 key msg = hmac_sha256 key msg.
Proof. reflexivity. Qed.
Lemma hmac_md_sha384 key msg : hmac_md H_SHA384 key msg = hmac_sha384 key msg.
Proof. reflexivity. Qed.
Lemma hmac_md_sha512 key msg : hmac_md H_SHA512 key msg = hmac_sha512 key msg.
Proof. reflexivity. Qed.
Lemma hmac_md_md5 key msg : hmac_md H_MD5 key msg = hmac_md5 key msg.
Proof. reflexivity. Qed.
Lemma hmac_md_sm3 key msg : hmac_md H_SM3 key msg = hmac_sm3 key msg.
Proof. reflexivity. Qed.

(* ---------- state / digest sizes along the lane ---------- *)

Lemma md_blocks_fuel_invariant (P : list N -> Prop) B f :
  (forall st blk, P st -> P (f st blk)) ->
  forall fuel st data, P st -> P (md_blocks_fuel B f fuel st data).
Proof.
  intros Hf. induction fuel as [|fuel IH]; intros st data Hs; cbn [md_blocks_fuel]; [exact Hs|].
  destruct (Nat.eqb _ _); [|exact Hs]. apply IH. apply Hf. exact Hs.
Qed.

Lemma md_blocks_invariant (P : list N -> Prop) B f st data :
  (forall st blk, P st -> P (f st blk)) -> P st -> P (md_blocks B f st data).
Proof.
  intros Hf Hs. unfold md_blocks. destruct B; [exact Hs|].
  apply md_blocks_fuel_invariant; assumption.
Qed.

Lemma le32s_length : forall n l, length l = 4 * n -> length (le32s l) = n.
Proof.
  induction n as [|n IH]; intros l H.
  - destruct l; [reflexivity|discriminate].
  - destruct l as [|a [|b [|c [|d t]]]]; cbn [length] in H; try lia.
    cbn [le32s length]. f_equal. apply IH. lia.
Qed.

Lemma le64s_length : forall n l, length l = 8 * n -> length (le64s l) = n.
Proof.
  induction n as [|n IH]; intros l H.
  - destruct l; [reflexivity|discriminate].
  - destruct l as [|a [|b [|c [|d [|e [|f [|g [|h t]]]]]]]]; cbn [length] in H; try lia.
    cbn [le64s length]. f_equal. apply IH. lia.
Qed.

Lemma ser_be32_length st : length (ser_be32 st) = 4 * length st.
Proof.
  unfold ser_be32. induction st as [|w st IH]; [reflexivity|].
  cbn [flat_map length]. rewrite app_length, IH. unfold be32. rewrite N_to_be_length. lia.
Qed.
Lemma ser_be64_length st : length (ser_be64 st) = 8 * length st.
Proof.
  unfold ser_be64. induction st as [|w st IH]; [reflexivity|].
  cbn [flat_map length]. rewrite app_length, IH. unfold be64. rewrite N_to_be_length. lia.
Qed.

(* pairing of hash descriptions and lane configurations *)
Definition lane_pairs : list (md_hash * hmac_outer_cfg * nat) :=
  [(H_SHA1, OC_SHA1, 5); (H_SHA224, OC_SHA224, 8); (H_SHA256, OC_SHA256, 8);
   (H_SHA384, OC_SHA384, 8); (H_SHA512, OC_SHA512, 8); (H_MD5, OC_MD5, 4)].

(* per pair: X and c agree, compress keeps the word count, a state of nw words has a digest of
   dlen bytes, and reading md_state_bytes raw bytes gives nw words *)
Record lane_pair_ok (X : md_hash) (c : hmac_outer_cfg) (nw : nat) : Prop := MkLanePairOk {
  lp_match : cfg_matches X c;
  lp_geom : geom_ok (oc_geom c);
  lp_in : In c all_outer_cfgs;
  lp_compress : forall st blk, length (md_compress X st blk) = length st;
  lp_digest : forall st, length st = nw -> length (md_digest X st) = oc_dlen c;
  lp_deser : forall bs, md_state_bytes X <= length bs ->
                        length (md_deser X (firstn (md_state_bytes X) bs)) = nw
}.

Ltac lane_pair_common :=
  constructor;
  [ split; [reflexivity|intros; reflexivity]
  | first [exact geom_ok_sha1_256|exact geom_ok_sha512|exact geom_ok_md5]
  | cbn [all_outer_cfgs In]; tauto
  | | | ].

Lemma lane_pair_sha1 : lane_pair_ok H_SHA1 OC_SHA1 5.
Proof.
  lane_pair_common.
  - apply sha1_compress_length.
  - intros st H. cbn [md_digest H_SHA1 oc_dlen OC_SHA1]. unfold sha1_digest_of_state.
    rewrite ser_be32_length, H. reflexivity.
  - intros bs H. cbn [md_deser H_SHA1]. apply le32s_length.
    rewrite firstn_length_le by exact H. reflexivity.
Qed.

Lemma lane_pair_sha224 : lane_pair_ok H_SHA224 OC_SHA224 8.
Proof.
  lane_pair_common.
  - apply sha256_compress_length.
  - intros st H. cbn [md_digest H_SHA224 oc_dlen OC_SHA224]. unfold sha224_digest_of_state.
    rewrite firstn_length_le; [reflexivity|]. rewrite ser_be32_length, H. lia.
  - intros bs H. cbn [md_deser H_SHA224]. apply le32s_length.
    rewrite firstn_length_le by exact H. reflexivity.
Qed.

Lemma lane_pair_sha256 : lane_pair_ok H_SHA256 OC_SHA256 8.
Proof.
  lane_pair_common.
  - apply sha256_compress_length.
  - intros st H. cbn [md_digest H_SHA256 oc_dlen OC_SHA256]. unfold sha256_digest_of_state.
    rewrite ser_be32_length, H. reflexivity.
  - intros bs H. cbn [md_deser H_SHA256]. apply le32s_length.
    rewrite firstn_length_le by exact H. reflexivity.
Qed.

Lemma lane_pair_sha384 : lane_pair_ok H_SHA384 OC_SHA384 8.
Proof.
  lane_pair_common.
  - apply sha512_compress_length.
  - intros st H. cbn [md_digest H_SHA384 oc_dlen OC_SHA384]. unfold sha384_digest_of_state.
    rewrite firstn_length_le; [reflexivity|]. rewrite ser_be64_length, H. lia.
  - intros bs H. cbn [md_deser H_SHA384]. apply le64s_length.
    rewrite firstn_length_le by exact H. reflexivity.
Qed.

Lemma lane_pair_sha512 : lane_pair_ok H_SHA512 OC_SHA512 8.
Proof.
  lane_pair_common.
  - apply sha512_compress_length.
  - intros st H. cbn [md_digest H_SHA512 oc_dlen OC_SHA512]. unfold sha512_digest_of_state.
    rewrite ser_be64_length, H. reflexivity.
  - intros bs H. cbn [md_deser H_SHA512]. apply le64s_length.
    rewrite firstn_length_le by exact H. reflexivity.
Qed.

Lemma lane_pair_md5 : lane_pair_ok H_MD5 OC_MD5 4.
Proof.
  lane_pair_common.
  - apply md5_compress_length.
  - intros st H. cbn [md_digest H_MD5 oc_dlen OC_MD5]. unfold md5_digest_of_state.
    rewrite ser_le32_length, H. reflexivity.
  - intros bs H. cbn [md_deser H_MD5]. apply le32s_length.
    rewrite firstn_length_le by exact H. reflexivity.
Qed.

Lemma lane_pairs_ok X c nw : In (X, c, nw) lane_pairs -> lane_pair_ok X c nw.
Proof.
  cbn [lane_pairs In]. intros H.
  repeat match goal with
  | H : _ \/ _ |- _ => destruct H as [H|H]
  | H : (_, _, _) = (_, _, _) |- _ => injection H as <- <- <-
  | H : False |- _ => contradiction
  end.
  - exact lane_pair_sha1. - exact lane_pair_sha224. - exact lane_pair_sha256.
  - exact lane_pair_sha384. - exact lane_pair_sha512. - exact lane_pair_md5.
Qed.

(* THEOREM hmac_lane_eq_hmac: for each of the six HMAC managers, every key the helper accepts,
   every message (SHA-384/512: bit length below 2^64), whatever the lane buffers held before:
   the tag computed through the lane geometry is RFC 2104 HMAC. *)
Theorem hmac_lane_eq_hmac_thm X c nw key msg i o stale_x stale_o :
  In (X, c, nw) lane_pairs ->
  hmac_ipad_state X key = Some i -> hmac_opad_state X key = Some o ->
  length stale_x = hg_B (oc_geom c) -> length stale_o = oc_dlen c ->
  len_ok (oc_geom c) (length msg) ->
  hmac_lane_tag X c i o stale_x stale_o msg = hmac_md X key msg.
Proof.
  intros Hp Hi Ho Hsx Hso Hok.
  pose proof (lane_pairs_ok X c nw Hp) as [Hm Hg Hc Hcomp Hdig Hdes].
  assert (WF : md_wf X).
  { apply all_md_hashes_wf. cbn [lane_pairs In] in Hp. cbn [all_md_hashes In].
    repeat match goal with
    | H : _ \/ _ |- _ => destruct H as [H|H]
    | H : (_, _, _) = (_, _, _) |- _ => injection H as <- <- <-
    | H : False |- _ => contradiction
    end; tauto. }
  rewrite <- (hmac_precomp_eq_hmac_thm X WF key msg i o Hi Ho).
  apply hmac_lane_eq_precomp_thm; try assumption.
  (* digest size of the inner pass *)
  unfold hmac_lane_inner. apply Hdig. unfold md_run_blocks.
  apply (md_blocks_invariant (fun st => length st = nw)).
  { intros st blk Hst. rewrite Hcomp. exact Hst. }
  apply (md_blocks_invariant (fun st => length st = nw)).
  { intros st blk Hst. rewrite Hcomp. exact Hst. }
  apply Hdes.
  (* the helper's output has exactly md_state_bytes bytes *)
  unfold hmac_ipad_state, hmac_pad_state in Hi.
  destruct (Nat.ltb _ _ && negb _); [discriminate|]. injection Hi as <-.
  unfold md_state_bytes. destruct WF as [_ _ _ Hlen]. rewrite Hlen. lia.
Qed.
