(* Proofs/JobProofs.v — property C14, descriptor part: the library's writes into a job
   descriptor leave every cell outside the mask untouched, over all ring histories; status
   values are closed under the status protocol and a handed-back job is never partial. *)
From Coq Require Import String.
From Coq Require Import ZArith List Bool Lia.
From IMB Require Import Gen.GenConsts Gen.GenJobLayout Gen.GenJobWrites Mgr.Ring Mgr.Job
                        Proofs.RingArith Proofs.RingProofs.
Import ListNotations.
Local Open Scope Z_scope.

(* ------------------------------------------------------------------------------------------ *)
(* 1. the model's cells are exactly the storage cells of the current header                     *)

Lemma cells_match_layout :
  map (fun c => (cell_off c, cell_size c)) all_cells
  = map (fun x : string * Z * Z * list string => (snd (fst (fst x)), snd (fst x))) job_cells
  /\ sizeof_IMB_JOB = SIZEOF_IMB_JOB.
Proof. split; reflexivity. Qed.

Lemma all_cells_complete : forall c, In c all_cells.
Proof. intros c; destruct c; cbn; tauto. Qed.

Lemma cell_eqb_eq a b : cell_eqb a b = true <-> a = b.
Proof.
  unfold cell_eqb. split.
  - destruct a, b; cbn; intros H; try reflexivity; discriminate.
  - intros ->. apply Z.eqb_refl.
Qed.

Lemma cell_eqb_refl a : cell_eqb a a = true.
Proof. apply cell_eqb_eq. reflexivity. Qed.

(* cells, padding and nothing else make up the struct *)
Lemma layout_covers_struct :
  fold_right Z.add 0 (map cell_size all_cells) + fold_right Z.add 0 (map snd job_padding) = sizeof_IMB_JOB.
Proof. reflexivity. Qed.

(* ------------------------------------------------------------------------------------------ *)
(* 2. every write the census found is one the model performs                                    *)

Local Open Scope string_scope.
Definition c_write_modelled (w : string * Z * string * string * string) : bool :=
  let '(file, _, field, op, rhs) := w in
  if String.eqb field "status" then
    (String.eqb op "=" && (String.eqb rhs "IMB_STATUS_BEING_PROCESSED" || String.eqb rhs "IMB_STATUS_COMPLETED"
                           || String.eqb rhs "IMB_STATUS_INVALID_ARGS" || String.eqb rhs "IMB_STATUS_INTERNAL_ERROR"))
    || (String.eqb op "|=" && (String.eqb rhs "IMB_STATUS_COMPLETED_CIPHER" || String.eqb rhs "IMB_STATUS_COMPLETED_AUTH"
                               || String.eqb rhs "IMB_STATUS_COMPLETED"))
  else if String.eqb field "msg_len_to_hash_in_bits" then
    String.eqb op "=" && String.eqb rhs "job->msg_len_to_hash_in_bytes * 8"
  else if String.eqb field "u.SNOW_V_AEAD.reserved" then String.eqb op "="
  else if String.eqb field "session_id" then
    (* only inside the caller-invoked imb_set_session() *)
    String.eqb op "=" && String.eqb file "lib/x86_64/cipher_suite_id.c"
  else false.

Definition asm_write_modelled (w : string * Z * string * string * string * string) : bool :=
  let '(_, _, field, mn, width, rhs) := w in
  String.eqb field "_status" &&
  ((String.eqb mn "or" && (String.eqb width "dword" || String.eqb width "qword") &&
    (* a qword OR at _status also covers cipher_mode; the operand is < 2^32, so those bytes keep their value *)
    (String.eqb rhs "IMB_STATUS_COMPLETED_CIPHER" || String.eqb rhs "IMB_STATUS_COMPLETED_AUTH" || String.eqb rhs "IMB_STATUS_COMPLETED"))
   || (String.eqb mn "mov" && String.eqb width "dword" && String.eqb rhs "IMB_STATUS_COMPLETED")).
Local Close Scope string_scope.

Lemma lib_writes_are_modelled_thm :
  forallb c_write_modelled c_job_writes = true /\ forallb asm_write_modelled asm_job_writes = true
  /\ c_job_writes <> [] /\ asm_job_writes <> [].
Proof. split; [vm_compute; reflexivity|]. split; [vm_compute; reflexivity|]. split; discriminate. Qed.

(* ------------------------------------------------------------------------------------------ *)
(* 3. library writes never leave the mask                                                       *)

Definition veq (a b : desc) : Prop := forall c, masked b c = false -> a c = b c.

Lemma dupd_same c v d : dupd c v d c = v.
Proof. unfold dupd. rewrite cell_eqb_refl. reflexivity. Qed.
Lemma dupd_other c v d x : x <> c -> dupd c v d x = d x.
Proof.
  intros H. unfold dupd. destruct (cell_eqb x c) eqn:E; [|reflexivity].
  apply cell_eqb_eq in E. contradiction.
Qed.

Lemma apply_jwrite_unmasked w d c : masked d c = false -> apply_jwrite w d c = d c.
Proof.
  intros Hm. destruct w; cbn [apply_jwrite].
  - apply dupd_other. intros ->. discriminate.
  - apply dupd_other. intros ->. discriminate.
  - destruct (is_cmac_bytes d) eqn:E; [|reflexivity].
    apply dupd_other. intros ->. cbn in Hm. congruence.
  - destruct (is_snowv_aead d) eqn:E; [|reflexivity].
    apply dupd_other. intros ->. cbn in Hm. congruence.
Qed.

Lemma veq_refl d : veq d d.
Proof. intros c _. reflexivity. Qed.

Lemma veq_masks a b : veq a b -> forall c, masked a c = masked b c.
Proof.
  intros H c.
  assert (Hh : a C_hash_alg = b C_hash_alg) by (apply H; reflexivity).
  assert (Hc : a C_cipher_mode = b C_cipher_mode) by (apply H; reflexivity).
  destruct c; cbn; unfold is_cmac_bytes, is_snowv_aead; rewrite ?Hh, ?Hc; reflexivity.
Qed.

Lemma veq_trans a b c : veq a b -> veq b c -> veq a c.
Proof.
  intros H1 H2 x Hx. rewrite H1; [apply H2; exact Hx|].
  rewrite (veq_masks b c H2). exact Hx.
Qed.

Lemma apply_jwrite_veq w d : veq (apply_jwrite w d) d.
Proof. intros c Hc. apply apply_jwrite_unmasked. exact Hc. Qed.

Lemma apply_jwrites_veq ws : forall d, veq (apply_jwrites ws d) d.
Proof.
  unfold apply_jwrites. induction ws as [|w t IH]; intros d; cbn [fold_left].
  - apply veq_refl.
  - eapply veq_trans; [apply IH|apply apply_jwrite_veq].
Qed.

(* the property's own partition: every caller-owned cell is outside the mask *)
Lemma caller_owned_not_masked d c : caller_owned d c = true -> masked d c = false.
Proof.
  unfold caller_owned, owner_of. destruct c; cbn; try discriminate; try reflexivity.
  destruct (is_snowv_aead d); [discriminate|reflexivity].
Qed.

(* the mask is minimal: for each cell that can be masked there is a descriptor and a modelled
   write that really changes it *)
Lemma mask_is_minimal c : (exists d, masked d c = true) ->
  exists d w, masked d c = true /\ apply_jwrite w d c <> d c.
Proof.
  intros (d0 & H0). destruct c; cbn in H0; try discriminate.
  - exists (dupd C_hash_alg IMB_AUTH_AES_CMAC (dupd C_hlen 1 desc0)), JCmacBits.
    split; [reflexivity|]. vm_compute. discriminate.
  - exists (dupd C_cipher_mode IMB_CIPHER_SNOW_V_AEAD desc0), (JSnowvReserved 1).
    split; [reflexivity|]. vm_compute. discriminate.
  - exists desc0, (JStatusSet IMB_STATUS_COMPLETED). split; [reflexivity|]. vm_compute. discriminate.
Qed.

(* ------------------------------------------------------------------------------------------ *)
(* 4. status protocol                                                                            *)

Ltac in_list := vm_compute; repeat (first [left; reflexivity | right]).

Lemma status_step_closed cur w :
  In cur all_statuses -> status_write_ok cur w = true ->
  In (status_after cur w) all_statuses /\ cur <= status_after cur w \/ (exists v, w = JStatusSet v /\ In v all_statuses /\ status_after cur w = v).
Proof.
  intros Hin Hok. destruct w; cbn [status_write_ok status_after] in *.
  - right. exists v. split; [reflexivity|]. split; [|reflexivity].
    unfold memZ, set_values in Hok. cbn [existsb] in Hok.
    repeat (apply orb_true_iff in Hok; destruct Hok as [Hok|Hok]); try discriminate;
      apply Z.eqb_eq in Hok; subst v; in_list.
  - left. apply andb_true_iff in Hok. destruct Hok as [Hlt Hv].
    unfold memZ, or_values in Hv. cbn [existsb] in Hv.
    unfold all_statuses, all_IMB_STATUS in Hin. cbn [map snd In] in Hin.
    repeat (destruct Hin as [Hin|Hin]; [subst cur|]); try contradiction;
      try (vm_compute in Hlt; discriminate);
      repeat (apply orb_true_iff in Hv; destruct Hv as [Hv|Hv]); try discriminate;
      apply Z.eqb_eq in Hv; subst v; (split; [in_list|vm_compute; discriminate]).
  - left. split; [exact Hin|lia].
  - left. split; [exact Hin|lia].
Qed.

Lemma status_step_in cur w :
  In cur all_statuses -> status_write_ok cur w = true -> In (status_after cur w) all_statuses.
Proof.
  intros H1 H2. destruct (status_step_closed cur w H1 H2) as [[H _]|(v & _ & H & E)]; [exact H|].
  rewrite E. exact H.
Qed.

(* every status reachable from a legal one through protocol-conforming writes is an IMB_STATUS
   enumerator; and one at or above COMPLETED is `completed` or an error value, never partial *)
Lemma status_protocol_closed ws : forall cur r,
  In cur all_statuses -> status_run cur ws = Some r ->
  In r all_statuses /\ (IMB_STATUS_COMPLETED <= r -> In r final_statuses).
Proof.
  induction ws as [|w t IH]; intros cur r Hin Hrun; cbn [status_run] in Hrun.
  - inversion Hrun; subst r. split; [exact Hin|].
    intros Hge. unfold all_statuses, all_IMB_STATUS in Hin. cbn [map snd In] in Hin.
    repeat (destruct Hin as [Hin|Hin]; [subst cur|]); try contradiction;
      try (vm_compute in Hge; exfalso; apply Hge; reflexivity); in_list.
  - destruct (status_write_ok cur w) eqn:E; [|discriminate].
    apply (IH (status_after cur w)); [apply status_step_in; assumption|exact Hrun].
Qed.

(* an OR is only applied below COMPLETED, so once a job is complete (or failed) only an
   assignment can change its status *)
Lemma status_or_only_below_completed cur v :
  status_write_ok cur (JStatusOr v) = true -> cur < IMB_STATUS_COMPLETED.
Proof. cbn [status_write_ok]. intros H. apply andb_true_iff in H. destruct H as [H _]. apply Z.ltb_lt. exact H. Qed.

Lemma partial_statuses_below_completed :
  IMB_STATUS_COMPLETED_CIPHER < IMB_STATUS_COMPLETED /\ IMB_STATUS_COMPLETED_AUTH < IMB_STATUS_COMPLETED /\
  Z.lor IMB_STATUS_COMPLETED_CIPHER IMB_STATUS_COMPLETED_AUTH = IMB_STATUS_COMPLETED.
Proof. repeat split. Qed.

(* ------------------------------------------------------------------------------------------ *)
(* 5. descriptors over ring histories                                                           *)

Section JobRingProofs.
Variable SZ NJ K MAXB : Z.
Hypothesis HSZ : 0 < SZ.
Hypothesis HK : 1 <= K.
Hypothesis HNJ : NJ = 2 ^ K.

Notation rstep := (Ring.step SZ NJ MAXB).
Notation trace := (trace SZ NJ MAXB).
Notation jstep := (jstep SZ NJ MAXB).
Notation jrun := (jrun SZ NJ MAXB).

(* ---- which calls write the payload, and where ---- *)

Ltac split_ifs :=
  repeat match goal with
         | |- context [if ?b then _ else _] => destruct b
         | |- context [match ?x with Some _ => _ | None => _ end] => destruct x
         end.

Lemma cont_submit_tail jr s : cont (fst (fst (submit_tail SZ NJ jr s))) = cont s.
Proof. unfold submit_tail. split_ifs; reflexivity. Qed.

Lemma cont_submit c v id D s z :
  cont (fst (fst (submit SZ NJ c v id D s))) z = if z =? next s then id else cont s z.
Proof.
  unfold submit. destruct (if c then v else None); rewrite cont_submit_tail; reflexivity.
Qed.

Lemma cont_flush D s : cont (fst (fst (flush SZ NJ D s))) = cont s.
Proof. unfold flush. split_ifs; reflexivity. Qed.

Lemma cont_get_completed s : cont (fst (get_completed SZ NJ s)) = cont s.
Proof. unfold get_completed. split_ifs; reflexivity. Qed.

Lemma cont_get_next_burst jn n s : cont (fst (get_next_burst SZ NJ MAXB jn n s)) = cont s.
Proof. unfold get_next_burst. split_ifs; reflexivity. Qed.

Lemma cont_fb_loop n : forall s a, cont (fst (fb_loop SZ NJ n s a)) = cont s.
Proof. induction n; intros s a; cbn [fb_loop]; [reflexivity|]. rewrite IHn. reflexivity. Qed.

Lemma cont_flush_burst_body mx D s : cont (fst (fst (flush_burst_body SZ NJ mx D s))) = cont s.
Proof.
  unfold flush_burst_body. destruct (queue_sz SZ NJ s =? 0); [reflexivity|].
  pose proof (cont_fb_loop (Z.to_nat (Z.min (queue_sz SZ NJ s) mx)) (complete_set D s) []) as H.
  destruct (fb_loop SZ NJ (Z.to_nat (Z.min (queue_sz SZ NJ s) mx)) (complete_set D s) []) as [s1 l].
  cbn [fst] in H. split_ifs; cbn [fst]; exact H.
Qed.

Lemma flush_burst_body_out mx D s : exists k l, snd (fst (flush_burst_body SZ NJ mx D s)) = OJobs k l.
Proof.
  unfold flush_burst_body. destruct (queue_sz SZ NJ s =? 0); [eexists; eexists; reflexivity|].
  destruct (fb_loop SZ NJ (Z.to_nat (Z.min (queue_sz SZ NJ s) mx)) (complete_set D s) []) as [s1 l].
  split_ifs; eexists; eexists; reflexivity.
Qed.

Lemma cont_flush_burst jn mx D s : cont (fst (fst (flush_burst SZ NJ jn mx D s))) = cont s.
Proof. unfold flush_burst. destruct jn; [reflexivity|]. rewrite cont_flush_burst_body. reflexivity. Qed.

Lemma cont_burst_post n D2 s : cont (fst (fst (burst_post SZ NJ n D2 s))) = cont s.
Proof.
  unfold burst_post.
  repeat match goal with
         | |- context [if ?b then _ else _] => destruct b
         end; try reflexivity; rewrite cont_flush_burst_body; reflexivity.
Qed.

Lemma burst_post_out n D2 s : exists k l, snd (fst (burst_post SZ NJ n D2 s)) = OJobs k l.
Proof.
  unfold burst_post.
  repeat match goal with
         | |- context [if ?b then _ else _] => destruct b
         end; try (eexists; eexists; reflexivity); apply flush_burst_body_out.
Qed.

Lemma burst_pre_some c n js s s' o' :
  burst_pre SZ NJ MAXB c n js s = Some (s', o') -> (exists mk, o' = OReject mk) /\ cont s' = cont s.
Proof.
  unfold burst_pre. intros H.
  destruct c; [|discriminate]. destruct js as [l|]; [|inversion H; subst; split; [eexists; reflexivity|reflexivity]].
  destruct (n >? MAXB); [inversion H; subst; split; [eexists; reflexivity|reflexivity]|].
  destruct (queue_sz_remaining SZ NJ s <? n); [inversion H; subst; split; [eexists; reflexivity|reflexivity]|].
  destruct (burst_validate SZ NJ l (next s)) as [|e mark]; [discriminate|].
  inversion H; subst. split; [eexists; reflexivity|].
  destruct e, mark as [[p q]|]; cbn; try reflexivity; destruct (0 <=? p); reflexivity.
Qed.

(* ---- the invariant: slot memory agrees, outside the mask, with the logged descriptor ---- *)

Definition CI (log : list desc) (cf : Z -> Z) (ds : Z -> desc) : Prop :=
  forall z, 0 <= cf z ->
    (Z.to_nat (cf z) < length log)%nat /\ veq (ds z) (nth (Z.to_nat (cf z)) log desc0).

Definition JI (j : jstate) : Prop :=
  0 <= jn j /\ length (jlog j) = Z.to_nat (jn j) /\ CI (jlog j) (cont (jring j)) (jds j).

Lemma CI_app log more cf ds : CI log cf ds -> CI (log ++ more) cf ds.
Proof.
  intros H z Hz. destruct (H z Hz) as [Hl Hv]. split.
  - rewrite app_length. lia.
  - rewrite app_nth1 by exact Hl. exact Hv.
Qed.

Lemma ds_lib_veq ws : forall ds z, veq (ds_lib ws ds z) (ds z).
Proof.
  unfold ds_lib. induction ws as [|w t IH]; intros ds z; cbn [fold_left].
  - apply veq_refl.
  - eapply veq_trans; [apply IH|].
    unfold ds_upd. destruct (z =? fst w) eqn:E.
    + apply Z.eqb_eq in E. subst z. apply apply_jwrite_veq.
    + apply veq_refl.
Qed.

Lemma CI_lib log cf ds ws : CI log cf ds -> CI log cf (ds_lib ws ds).
Proof.
  intros H z Hz. destruct (H z Hz) as [Hl Hv]. split; [exact Hl|].
  eapply veq_trans; [apply ds_lib_veq|exact Hv].
Qed.

Lemma CI_fill1 log cf ds o n d :
  CI log cf ds -> 0 <= n -> length log = Z.to_nat n ->
  CI (log ++ [d]) (fun z => if z =? o then n else cf z) (ds_upd o d ds).
Proof.
  intros H Hn Hl z Hz. unfold ds_upd. destruct (z =? o) eqn:E.
  - split; [rewrite app_length; cbn; lia|].
    rewrite app_nth2 by lia. rewrite Hl, Nat.sub_diag. cbn. apply veq_refl.
  - destruct (H z Hz) as [Hl' Hv]. split; [rewrite app_length; lia|].
    rewrite app_nth1 by exact Hl'. exact Hv.
Qed.

Lemma burst_fill_CI js : forall descs o s ds log n,
  length js = length descs -> 0 <= n -> length log = Z.to_nat n ->
  CI log (cont s) ds ->
  CI (log ++ descs) (cont (burst_fill SZ NJ (renum js n) o s)) (ds_fill SZ NJ descs o ds).
Proof.
  induction js as [|b t IH]; intros descs o s ds log n Hlen Hn Hl HC.
  - destruct descs; [|discriminate]. cbn. rewrite app_nil_r. exact HC.
  - destruct descs as [|d descs]; [discriminate|].
    cbn [renum burst_fill ds_fill bj_id].
    replace (log ++ d :: descs) with ((log ++ [d]) ++ descs) by (rewrite <- app_assoc; reflexivity).
    apply (IH descs (adv SZ NJ o) _ _ (log ++ [d]) (n + 1)).
    + cbn in Hlen. lia.
    + lia.
    + rewrite app_length. cbn. lia.
    + cbn [cont set_stat set_cont]. apply CI_fill1; assumption.
Qed.

Definition jid3 (v : Z * Z * Z) : Z := snd (fst v).
Definition ret_ok (log : list desc) (x : jret) : Prop :=
  0 <= jid3 (fst x) ->
  (Z.to_nat (jid3 (fst x)) < length log)%nat /\ veq (snd x) (nth (Z.to_nat (jid3 (fst x))) log desc0).

(* every job a call hands back is the view of its slot in the state the call leaves *)
Ltac views := apply Forall_forall; intros v Hv; apply in_map_iff in Hv; destruct Hv as (x & <- & _); reflexivity.

Lemma fbb_views mx D s :
  Forall (fun v => jid3 v = cont (fst (fst (flush_burst_body SZ NJ mx D s))) (fst (fst v)))
         (out_jobs (snd (fst (flush_burst_body SZ NJ mx D s)))).
Proof.
  unfold flush_burst_body. destruct (queue_sz SZ NJ s =? 0); [constructor|].
  match goal with |- context [fb_loop SZ NJ ?a ?b ?c] => destruct (fb_loop SZ NJ a b c) as [s1 l] end.
  split_ifs; cbn [fst snd out_jobs]; views.
Qed.

Lemma burst_post_views n D2 s :
  Forall (fun v => jid3 v = cont (fst (fst (burst_post SZ NJ n D2 s))) (fst (fst v)))
         (out_jobs (snd (fst (burst_post SZ NJ n D2 s)))).
Proof.
  unfold burst_post.
  repeat match goal with |- context [if ?b then _ else _] => destruct b end;
    first [apply fbb_views | cbn [fst snd out_jobs]; views].
Qed.

Lemma out_jobs_are_views s o :
  Forall (fun v => jid3 v = cont (fst (rstep s o)) (fst (fst v))) (out_jobs (snd (rstep s o))).
Proof.
  unfold Ring.step. destruct o; cbn [step3 fst snd].
  - (* GetNext *) constructor.
  - (* Submit *)
    unfold submit.
    destruct (if check then verdict else None);
      unfold submit_tail; split_ifs; cbn [fst snd out_jobs option_map]; repeat constructor.
  - (* Flush *)
    unfold flush. split_ifs; cbn [fst snd out_jobs]; repeat constructor.
  - (* GetCompleted *)
    unfold get_completed. split_ifs; cbn [fst snd out_jobs]; repeat constructor.
  - constructor.
  - unfold get_next_burst. split_ifs; cbn [fst snd out_jobs]; constructor.
  - (* SubmitBurst *)
    unfold submit_burst.
    destruct (burst_pre SZ NJ MAXB check n_jobs jobs (set_errno 0 s)) as [[s' o']|] eqn:EP.
    + destruct (burst_pre_some _ _ _ _ _ _ EP) as [(mk & ->) _]. cbn. constructor.
    + apply burst_post_views.
  - (* FlushBurst *)
    unfold flush_burst. destruct jobs_null; [constructor|]. apply fbb_views.
Qed.

Lemma CI_ext log cf cf' ds : (forall z, cf' z = cf z) -> CI log cf ds -> CI log cf' ds.
Proof. intros E H z Hz. rewrite E in *. apply H. exact Hz. Qed.

Lemma ret_ok_app log more x : ret_ok log x -> ret_ok (log ++ more) x.
Proof.
  intros H Hz. destruct (H Hz) as [Hl Hv]. split; [rewrite app_length; lia|].
  rewrite app_nth1 by exact Hl. exact Hv.
Qed.

Lemma out_match_jobs (r : out) :
  match r with OJob (Some x) => [x] | OJobs _ l => l | _ => [] end = out_jobs r.
Proof. destruct r as [[x|]| | | |]; reflexivity. Qed.

(* one call *)
Lemma jstep_spec j jc : JI j -> jc_wf jc = true ->
  forall j' r rets, jstep j jc = (j', r, rets) ->
  JI j' /\ jn j' = jn j + Z.of_nat (length (jc_descs jc)) /\ jlog j' = jlog j ++ jc_descs jc /\
  (jring j', r) = rstep (jring j) (op_with_ids (jc_op jc) (jn j)) /\
  map fst rets = out_jobs r /\ Forall (ret_ok (jlog j')) rets.
Proof.
  intros (Hn & Hl & HC) Hwf j' r rets E. unfold Job.jstep in E.
  set (o := op_with_ids (jc_op jc) (jn j)) in *.
  pose proof (out_jobs_are_views (jring j) o) as HV.
  destruct (rstep (jring j) o) as [s' r0] eqn:ES. cbn [fst snd] in HV.
  inversion E; subst j' r rets; clear E. cbn [jn jlog jring jds].
  set (ds1 := if accepts o r0 then ds_fill SZ NJ (jc_descs jc) (next (jring j)) (jds j) else jds j).
  assert (HC1 : CI (jlog j ++ jc_descs jc) (cont s') ds1).
  { unfold jc_wf in Hwf. apply Nat.eqb_eq in Hwf.
    subst ds1 o. unfold Ring.step in ES.
    destruct (jc_op jc) eqn:EO; cbn [op_with_ids ndescs step3 accepts] in *;
      try (destruct (jc_descs jc); [|discriminate]; rewrite app_nil_r).
    - (* GetNext *) inversion ES; subst. exact HC.
    - (* Submit *)
      destruct (jc_descs jc) as [|d [|d2 t]]; try discriminate.
      cbn [ds_fill].
      pose proof (cont_submit check verdict (jn j) D (jring j)) as Hc.
      destruct (submit SZ NJ check verdict (jn j) D (jring j)) as [[sx ox] bx]. cbn [fst] in *.
      inversion ES; subst sx ox.
      eapply CI_ext; [exact Hc|]. apply CI_fill1; assumption.
    - (* Flush *)
      pose proof (cont_flush D (jring j)) as Hc.
      destruct (flush SZ NJ D (jring j)) as [[sx ox] bx]. cbn [fst] in *. inversion ES; subst sx ox.
      rewrite Hc. exact HC.
    - (* GetCompleted *)
      pose proof (cont_get_completed (jring j)) as Hc.
      destruct (get_completed SZ NJ (jring j)) as [sx ox]. cbn [fst] in *. inversion ES; subst sx ox.
      rewrite Hc. exact HC.
    - (* QueueSize *) inversion ES; subst. exact HC.
    - (* GetNextBurst *)
      pose proof (cont_get_next_burst jobs_null n_req (jring j)) as Hc.
      destruct (get_next_burst SZ NJ MAXB jobs_null n_req (jring j)) as [sx ox]. cbn [fst] in *.
      inversion ES; subst sx ox. rewrite Hc. exact HC.
    - (* SubmitBurst *)
      destruct jobs as [js|].
      + cbn [op_with_ids ndescs step3 accepts] in *. unfold submit_burst in ES.
        destruct (burst_pre SZ NJ MAXB check n_jobs (Some (renum js (jn j))) (set_errno 0 (jring j))) as [[s1 o1]|] eqn:EP.
        * destruct (burst_pre_some _ _ _ _ _ _ EP) as [(mk & ->) Hc]. cbn [fst] in ES. inversion ES; subst s' r0.
          apply CI_app. rewrite Hc. exact HC.
        * set (sq := if earliest (set_errno 0 (jring j)) <? 0
                     then set_earliest (next (set_errno 0 (jring j))) (set_errno 0 (jring j))
                     else set_errno 0 (jring j)) in *.
          assert (Hnx : next sq = next (jring j)) by (subst sq; destruct (earliest _ <? 0); reflexivity).
          assert (Hcq : cont sq = cont (jring j)) by (subst sq; destruct (earliest _ <? 0); reflexivity).
          set (sf := complete_set D (burst_fill SZ NJ (renum js (jn j)) (next sq) sq)) in *.
          pose proof (cont_burst_post n_jobs D2 sf) as Hc.
          destruct (burst_post_out n_jobs D2 sf) as (k & l & Ho).
          destruct (burst_post SZ NJ n_jobs D2 sf) as [[sx ox] bx]. cbn [fst snd] in *.
          inversion ES; subst sx ox. subst r0. rewrite Hc. subst sf. cbn [cont complete_set].
          rewrite Hnx. apply burst_fill_CI; try assumption.
          { symmetry. exact Hwf. }
          rewrite Hcq. exact HC.
      + cbn [op_with_ids ndescs step3 accepts] in *.
        destruct (jc_descs jc); [|discriminate]. rewrite app_nil_r.
        unfold submit_burst in ES.
        destruct (burst_pre SZ NJ MAXB check n_jobs None (set_errno 0 (jring j))) as [[s1 o1]|] eqn:EP.
        * destruct (burst_pre_some _ _ _ _ _ _ EP) as [_ Hc]. cbn [fst] in ES. inversion ES; subst s' r0.
          rewrite Hc. exact HC.
        * cbn [burst_fill] in ES.
          match type of ES with fst (burst_post SZ NJ ?a ?b ?c) = _ => pose proof (cont_burst_post a b c) as Hc;
            destruct (burst_post SZ NJ a b c) as [[sx ox] bx] end.
          cbn [fst] in *. inversion ES; subst sx ox. rewrite Hc. cbn [cont complete_set].
          destruct (earliest (set_errno 0 (jring j)) <? 0); exact HC.
    - (* FlushBurst *)
      pose proof (cont_flush_burst jobs_null max_jobs D (jring j)) as Hc.
      destruct (flush_burst SZ NJ jobs_null max_jobs D (jring j)) as [[sx ox] bx]. cbn [fst] in *.
      inversion ES; subst sx ox. rewrite Hc. exact HC. }
  assert (HC2 : CI (jlog j ++ jc_descs jc) (cont s') (ds_lib (jc_lib jc) ds1)) by (apply CI_lib; exact HC1).
  split.
  { unfold JI. cbn [jn jlog jring jds]. split; [lia|]. split; [rewrite app_length; lia|exact HC2]. }
  split; [reflexivity|]. split; [reflexivity|]. split; [reflexivity|].
  rewrite out_match_jobs. split.
  - rewrite map_map. cbn [fst]. apply map_id.
  - apply Forall_forall. intros x Hx. apply in_map_iff in Hx. destruct Hx as (v & <- & Hv).
    rewrite Forall_forall in HV. specialize (HV v Hv).
    intros Hz. cbn [fst snd] in *. rewrite HV in *. apply HC2. exact Hz.
Qed.

Lemma all_jobs_cons o r tr : all_jobs ((o, r) :: tr) = out_jobs r ++ all_jobs tr.
Proof. reflexivity. Qed.

(* whole histories *)
Lemma jrun_spec jcs : forall j, JI j -> forallb jc_wf jcs = true ->
  forall jf tr rets, jrun j jcs = (jf, tr, rets) ->
  JI jf /\ tr = trace (jring j) (ops_of (jn j) jcs) /\ (exists more, jlog jf = jlog j ++ more) /\
  map fst rets = all_jobs tr /\ Forall (ret_ok (jlog jf)) rets.
Proof.
  induction jcs as [|jc t IH]; intros j HJ Hwf jf tr rets E.
  - cbn in E. inversion E; subst. split; [exact HJ|]. split; [reflexivity|].
    split; [exists []; rewrite app_nil_r; reflexivity|]. split; [reflexivity|constructor].
  - cbn [forallb] in Hwf. apply andb_true_iff in Hwf. destruct Hwf as [Hw1 Hwt].
    cbn [Job.jrun] in E.
    destruct (jstep j jc) as [[j1 r1] rets1] eqn:E1.
    destruct (jrun j1 t) as [[j2 tr2] rets2] eqn:E2.
    inversion E; subst jf tr rets; clear E.
    destruct (jstep_spec j jc HJ Hw1 _ _ _ E1) as (HJ1 & Hn1 & Hl1 & Hs1 & Hm1 & Hr1).
    destruct (IH j1 HJ1 Hwt _ _ _ E2) as (HJ2 & Ht2 & (more & Hl2) & Hm2 & Hr2).
    split; [exact HJ2|]. split.
    { cbn [ops_of RingProofs.trace]. unfold stepr. rewrite <- Hs1. f_equal. rewrite Ht2, Hn1. reflexivity. }
    split; [exists (jc_descs jc ++ more); rewrite Hl2, Hl1, app_assoc; reflexivity|].
    split.
    { rewrite all_jobs_cons, <- Hm1, <- Hm2. apply map_app. }
    apply Forall_app. split; [|exact Hr2].
    rewrite Hl2. eapply Forall_impl; [|exact Hr1]. intros x Hx. apply ret_ok_app. exact Hx.
Qed.

(* ghost numbers are non-negative *)
Lemma renum_ids js : forall n, Forall (fun id => n <= id) (map bj_id (renum js n)).
Proof.
  induction js as [|b t IH]; intros n; cbn; constructor; [lia|].
  eapply Forall_impl; [|apply IH]. intros; cbn in *; lia.
Qed.

Lemma accepted_nonneg o n r : 0 <= n -> Forall (fun id => 0 <= id) (accepted (op_with_ids o n) r).
Proof.
  intros Hn. destruct o; cbn; try constructor; try lia; try constructor.
  destruct jobs as [js|]; cbn; [|constructor]. destruct r; try constructor.
  eapply Forall_impl; [|apply renum_ids]. intros; cbn in *; lia.
Qed.

Lemma all_accepted_nonneg jcs : forall s n, 0 <= n ->
  Forall (fun id => 0 <= id) (all_accepted (trace s (ops_of n jcs))).
Proof.
  induction jcs as [|jc t IH]; intros s n Hn; cbn [ops_of RingProofs.trace]; [constructor|].
  unfold stepr. destruct (rstep s (op_with_ids (jc_op jc) n)) as [s1 r1].
  unfold all_accepted. cbn [flat_map fst snd]. apply Forall_app. split.
  - apply accepted_nonneg. exact Hn.
  - apply IH. lia.
Qed.

Lemma all_returned_jobs (tr : list (op * out)) : all_returned tr = map jid3 (all_jobs tr).
Proof.
  unfold all_returned, all_jobs. induction tr as [|x t IH]; [reflexivity|].
  cbn [flat_map]. rewrite map_app, IH. reflexivity.
Qed.

Definition accepted_descs (tr : list (op * out)) (log : list desc) : list desc :=
  map (fun id => nth (Z.to_nat id) log desc0) (all_accepted tr).

Theorem job_fields_preserved_thm s0 m ds0 jcs :
  empty_at SZ NJ s0 m -> (forall z, cont s0 z < 0) -> forallb jc_wf jcs = true ->
  ops_ok SZ NJ MAXB s0 (ops_of 0 jcs) = true ->
  forall jf tr rets, jrun (mkjs s0 ds0 0 []) jcs = (jf, tr, rets) ->
  Forall2 same_unmasked (map snd rets) (firstn (length rets) (accepted_descs tr (jlog jf))).
Proof.
  intros He Hg Hwf Hok jf tr rets E.
  assert (HJ0 : JI (mkjs s0 ds0 0 [])).
  { unfold JI. cbn. split; [lia|]. split; [reflexivity|]. intros z Hz. specialize (Hg z). lia. }
  destruct (jrun_spec jcs _ HJ0 Hwf _ _ _ E) as (_ & Ht & _ & Hm & Hr). cbn [jring jn] in Ht.
  destruct (fifo_history SZ NJ K MAXB HSZ HK HNJ s0 m (ops_of 0 jcs) He Hok) as (Hfifo & _).
  cbn zeta in Hfifo. fold (trace s0 (ops_of 0 jcs)) in Hfifo. rewrite <- Ht in Hfifo.
  pose proof (all_accepted_nonneg jcs s0 0 ltac:(lia)) as Hnn. rewrite <- Ht in Hnn.
  assert (Hlen : length rets = length (all_returned tr)).
  { rewrite all_returned_jobs, map_length, <- Hm, map_length. reflexivity. }
  unfold accepted_descs. rewrite Hlen, firstn_map, <- Hfifo.
  rewrite all_returned_jobs, <- Hm, !map_map.
  assert (Hpos : Forall (fun x : jret => 0 <= jid3 (fst x)) rets).
  { apply Forall_forall. intros x Hx.
    assert (Hin : In (jid3 (fst x)) (all_returned tr)).
    { rewrite all_returned_jobs, <- Hm, map_map. apply in_map_iff. exists x. split; [reflexivity|exact Hx]. }
    rewrite Hfifo in Hin.
    rewrite Forall_forall in Hnn. apply Hnn.
    clear - Hin. revert Hin. generalize (length (all_returned tr)) as k. generalize (all_accepted tr) as l.
    induction l as [|a l IH]; intros k Hin; destruct k; cbn in *; try contradiction.
    destruct Hin as [->|Hin]; [left; reflexivity|right; eapply IH; exact Hin]. }
  clear - Hr Hpos. induction rets as [|x t IH]; cbn; [constructor|].
  inversion Hr; subst. inversion Hpos; subst. constructor; [|apply IH; assumption].
  destruct (H1 H3) as [_ Hv]. exact Hv.
Qed.

(* the descriptors called "accepted" above are exactly the ones the caller handed over, in order *)
Fixpoint submitted (jcs : list jcall) (tr : list (op * out)) : list desc :=
  match jcs, tr with
  | jc :: t, (o, r) :: tr' => (if accepts o r then jc_descs jc else []) ++ submitted t tr'
  | _, _ => []
  end.

Fixpoint seqZ (n : Z) (k : nat) : list Z := match k with O => [] | S k' => n :: seqZ (n + 1) k' end.

Lemma renum_seq js : forall n, map bj_id (renum js n) = seqZ n (length js).
Proof. induction js as [|b t IH]; intros n; cbn; [reflexivity|]. rewrite IH. reflexivity. Qed.

Lemma accepted_seq o n r :
  accepted (op_with_ids o n) r = if accepts (op_with_ids o n) r then seqZ n (ndescs o) else [].
Proof.
  destruct o; cbn; try reflexivity.
  destruct jobs as [js|]; cbn; [|reflexivity]. destruct r; try reflexivity. apply renum_seq.
Qed.

Lemma nth_seq_log descs : forall log n more, 0 <= n -> length log = Z.to_nat n ->
  map (fun id => nth (Z.to_nat id) (log ++ descs ++ more) desc0) (seqZ n (length descs)) = descs.
Proof.
  induction descs as [|d t IH]; intros log n more Hn Hl; cbn [length seqZ map]; [reflexivity|].
  f_equal.
  - rewrite app_nth2 by lia. rewrite Hl, Nat.sub_diag. reflexivity.
  - replace (log ++ (d :: t) ++ more) with ((log ++ [d]) ++ t ++ more) by (rewrite <- app_assoc; reflexivity).
    apply IH; [lia|]. rewrite app_length. cbn. lia.
Qed.

Lemma map_nth_ext (l : list Z) (log more : list desc) :
  Forall (fun id => (Z.to_nat id < length log)%nat) l ->
  map (fun id => nth (Z.to_nat id) (log ++ more) desc0) l = map (fun id => nth (Z.to_nat id) log desc0) l.
Proof.
  induction 1 as [|a l Ha _ IH]; cbn; [reflexivity|]. rewrite IH. f_equal. apply app_nth1. exact Ha.
Qed.

Lemma seqZ_bound n k : 0 <= n -> Forall (fun id => (Z.to_nat id < Z.to_nat n + k)%nat) (seqZ n k).
Proof.
  revert n. induction k as [|k IH]; intros n Hn; cbn; constructor; [lia|].
  eapply Forall_impl; [|apply IH; lia]. intros a Ha. cbn in Ha. lia.
Qed.

Lemma accepted_descs_are_submitted_gen jcs : forall j, JI j -> forallb jc_wf jcs = true ->
  forall jf tr rets, jrun j jcs = (jf, tr, rets) ->
  forall more, map (fun id => nth (Z.to_nat id) (jlog jf ++ more) desc0) (all_accepted tr) = submitted jcs tr.
Proof.
  induction jcs as [|jc t IH]; intros j HJ Hwf jf tr rets E more.
  - cbn in E. inversion E; subst. reflexivity.
  - cbn [forallb] in Hwf. apply andb_true_iff in Hwf. destruct Hwf as [Hw1 Hwt].
    cbn [Job.jrun] in E.
    destruct (jstep j jc) as [[j1 r1] rets1] eqn:E1.
    destruct (jrun j1 t) as [[j2 tr2] rets2] eqn:E2.
    inversion E; subst jf tr rets; clear E.
    destruct (jstep_spec j jc HJ Hw1 _ _ _ E1) as (HJ1 & Hn1 & Hl1 & Hs1 & Hm1 & Hr1).
    destruct (jrun_spec t j1 HJ1 Hwt _ _ _ E2) as (_ & _ & (mr & Hl2) & _ & _).
    unfold all_accepted. cbn [flat_map fst snd submitted]. rewrite map_app. f_equal.
    + rewrite accepted_seq. destruct (accepts (op_with_ids (jc_op jc) (jn j)) r1); [|reflexivity].
      unfold jc_wf in Hw1. apply Nat.eqb_eq in Hw1. rewrite <- Hw1.
      rewrite Hl2, Hl1, <- !app_assoc. destruct HJ as (Hn & Hl & _).
      apply nth_seq_log; assumption.
    + apply (IH j1 HJ1 Hwt _ _ _ E2).
Qed.

Theorem accepted_descs_are_submitted s0 ds0 jcs :
  (forall z, cont s0 z < 0) -> forallb jc_wf jcs = true ->
  forall jf tr rets, jrun (mkjs s0 ds0 0 []) jcs = (jf, tr, rets) ->
  accepted_descs tr (jlog jf) = submitted jcs tr.
Proof.
  intros Hg Hwf jf tr rets E.
  assert (HJ0 : JI (mkjs s0 ds0 0 [])).
  { unfold JI. cbn. split; [lia|]. split; [reflexivity|]. intros z Hz. specialize (Hg z). lia. }
  pose proof (accepted_descs_are_submitted_gen jcs _ HJ0 Hwf _ _ _ E []) as H.
  rewrite app_nil_r in H. exact H.
Qed.

(* ---- statuses of handed-back jobs in the ring model ---- *)
Definition status_sane (s : st) : Prop := forall z, In (stat s z) [ST_PROC; ST_COMPLETED; ST_INVALID].

Lemma sane_set_stat o v s : In v [ST_PROC; ST_COMPLETED; ST_INVALID] -> status_sane s -> status_sane (set_stat o v s).
Proof. intros Hv H z. cbn [stat set_stat]. destruct (z =? o); [exact Hv|apply H]. Qed.

Lemma sane_complete_set D s : status_sane s -> status_sane (complete_set D s).
Proof.
  intros H z. cbn [stat complete_set]. destruct (memz z D && (stat s z <? ST_COMPLETED)); [|apply H].
  right; left; reflexivity.
Qed.

Lemma sane_stat_eq s s' : stat s' = stat s -> status_sane s -> status_sane s'.
Proof. intros E H z. rewrite E. apply H. Qed.

Lemma stat_submit_tail jr s : stat (fst (fst (submit_tail SZ NJ jr s))) = stat s.
Proof. unfold submit_tail. split_ifs; reflexivity. Qed.

Lemma stat_fb_loop n : forall s a, stat (fst (fb_loop SZ NJ n s a)) = stat s.
Proof. induction n; intros s a; cbn [fb_loop]; [reflexivity|]. rewrite IHn. reflexivity. Qed.

Lemma sane_flush_burst_body mx D s : status_sane s -> status_sane (fst (fst (flush_burst_body SZ NJ mx D s))).
Proof.
  intros H. unfold flush_burst_body. destruct (queue_sz SZ NJ s =? 0); [exact H|].
  pose proof (stat_fb_loop (Z.to_nat (Z.min (queue_sz SZ NJ s) mx)) (complete_set D s) []) as E.
  destruct (fb_loop SZ NJ (Z.to_nat (Z.min (queue_sz SZ NJ s) mx)) (complete_set D s) []) as [s1 l].
  cbn [fst] in E. apply (sane_stat_eq (complete_set D s)); [|apply sane_complete_set; exact H].
  split_ifs; cbn [fst]; exact E.
Qed.

Lemma sane_burst_post n D2 s : status_sane s -> status_sane (fst (fst (burst_post SZ NJ n D2 s))).
Proof.
  intros H. unfold burst_post.
  repeat match goal with |- context [if ?b then _ else _] => destruct b end;
    first [apply sane_flush_burst_body; exact H | exact H].
Qed.

Lemma sane_burst_fill js : forall o s, status_sane s -> status_sane (burst_fill SZ NJ js o s).
Proof.
  induction js as [|b t IH]; intros o s H; cbn [burst_fill]; [exact H|].
  apply IH. apply sane_set_stat; [left; reflexivity|]. exact H.
Qed.

Lemma sane_step s o : status_sane s -> status_sane (fst (rstep s o)).
Proof.
  intros H. unfold Ring.step. destruct o; cbn [step3 fst].
  - exact H.
  - unfold submit. destruct (if check then verdict else None).
    + eapply sane_stat_eq; [apply stat_submit_tail|].
      apply sane_set_stat; [right; right; left; reflexivity|]. apply sane_complete_set. exact H.
    + eapply sane_stat_eq; [apply stat_submit_tail|].
      apply sane_complete_set. apply sane_set_stat; [left; reflexivity|exact H].
  - unfold flush. destruct (earliest (set_errno 0 s) <? 0); [exact H|].
    destruct (earliest _ =? next _); cbn [fst]; apply (sane_complete_set D (set_errno 0 s)); exact H.
  - unfold get_completed. split_ifs; exact H.
  - exact H.
  - unfold get_next_burst. split_ifs; exact H.
  - unfold submit_burst.
    destruct (burst_pre SZ NJ MAXB check n_jobs jobs (set_errno 0 s)) as [[s1 o1]|] eqn:EP.
    + cbn [fst]. unfold burst_pre in EP.
      destruct check; [|discriminate].
      destruct jobs as [l|]; [|inversion EP; subst; exact H].
      destruct (n_jobs >? MAXB); [inversion EP; subst; exact H|].
      destruct (queue_sz_remaining SZ NJ (set_errno 0 s) <? n_jobs); [inversion EP; subst; exact H|].
      destruct (burst_validate SZ NJ l (next (set_errno 0 s))) as [|e mark]; [discriminate|].
      inversion EP; subst.
      destruct e, mark as [[p q]|]; cbn; try exact H;
        destruct (0 <=? p); try exact H; (apply sane_set_stat; [right; right; left; reflexivity|exact H]).
    + apply sane_burst_post. apply sane_complete_set. apply sane_burst_fill.
      destruct (earliest (set_errno 0 s) <? 0); exact H.
  - unfold flush_burst. destruct jobs_null; [exact H|]. apply sane_flush_burst_body. exact H.
Qed.

Lemma views_stat s o :
  Forall (fun v => snd v = stat (fst (rstep s o)) (fst (fst v))) (out_jobs (snd (rstep s o))).
Proof.
  (* same walk as out_jobs_are_views, for the status component *)
  assert (F : forall mx D s, Forall (fun v : Z * Z * Z => snd v = stat (fst (fst (flush_burst_body SZ NJ mx D s))) (fst (fst v)))
                                   (out_jobs (snd (fst (flush_burst_body SZ NJ mx D s))))).
  { clear. intros mx D s. unfold flush_burst_body. destruct (queue_sz SZ NJ s =? 0); [constructor|].
    match goal with |- context [fb_loop SZ NJ ?a ?b ?c] => destruct (fb_loop SZ NJ a b c) as [s1 l] end.
    split_ifs; cbn [fst snd out_jobs]; views. }
  unfold Ring.step. destruct o; cbn [step3 fst snd].
  - constructor.
  - unfold submit. destruct (if check then verdict else None);
      unfold submit_tail; split_ifs; cbn [fst snd out_jobs option_map]; repeat constructor.
  - unfold flush. split_ifs; cbn [fst snd out_jobs]; repeat constructor.
  - unfold get_completed. split_ifs; cbn [fst snd out_jobs]; repeat constructor.
  - constructor.
  - unfold get_next_burst. split_ifs; cbn [fst snd out_jobs]; constructor.
  - unfold submit_burst.
    destruct (burst_pre SZ NJ MAXB check n_jobs jobs (set_errno 0 s)) as [[s' o']|] eqn:EP.
    + destruct (burst_pre_some _ _ _ _ _ _ EP) as [(mk & ->) _]. cbn. constructor.
    + unfold burst_post.
      repeat match goal with |- context [if ?b then _ else _] => destruct b end;
        first [apply F | cbn [fst snd out_jobs]; views].
  - unfold flush_burst. destruct jobs_null; [constructor|]. apply F.
Qed.

Theorem returned_status_exact s0 m ops :
  empty_at SZ NJ s0 m -> ops_ok SZ NJ MAXB s0 ops = true -> status_sane s0 ->
  Forall (fun j => jstat j = ST_COMPLETED \/ jstat j = ST_INVALID) (all_jobs (trace s0 ops)).
Proof.
  intros He Hok Hs.
  destruct (fifo_history SZ NJ K MAXB HSZ HK HNJ s0 m ops He Hok) as (_ & Hge & _).
  cbn zeta in Hge. fold (trace s0 ops) in Hge.
  assert (Hin : Forall (fun j => In (jstat j) [ST_PROC; ST_COMPLETED; ST_INVALID]) (all_jobs (trace s0 ops))).
  { clear He Hok Hge. revert s0 Hs. induction ops as [|o t IH]; intros s0 Hs; [constructor|].
    cbn [RingProofs.trace]. unfold stepr.
    pose proof (views_stat s0 o) as HV. pose proof (sane_step s0 o Hs) as Hs1.
    destruct (rstep s0 o) as [s1 r1]. cbn [fst snd] in *. rewrite all_jobs_cons. apply Forall_app. split.
    - eapply Forall_impl; [|exact HV]. intros v Hv. unfold jstat. rewrite Hv. apply Hs1.
    - apply IH. exact Hs1. }
  rewrite Forall_forall in *. intros j Hj. specialize (Hge j Hj). specialize (Hin j Hj).
  cbn in Hin. destruct Hin as [E|[E|[E|[]]]]; [|left; auto|right; auto].
  exfalso. rewrite <- E in Hge. vm_compute in Hge. apply Hge. reflexivity.
Qed.

End JobRingProofs.
