(* Proofs/LeakProofs.v — property C19: proofs about the instrumented models of Struct/Leak.v.
   (1) the constant-time scan returns table[idx] for every index of the table
       ([scan_correct], by induction over the rows: all tables, all indices);
   (2) every instrumented function computes the corresponding Spec function
       ([*_leak_fst]: leak_model_eq_spec);
   (3) the trace of every instrumented function is the public trace function of Leak.v
       applied to public quantities only ([*_leak_snd]), hence equal for any two keys
       (key schedules), IVs and messages of the same length. *)
From Coq Require Import List NArith Bool Arith Lia.
From IMB Require Import Lib.Bytes Spec.DES Spec.KASUMI Spec.SNOW3G Gen.GenC19 Struct.Leak.
Import ListNotations.
Local Open Scope N_scope.

(* ------------------------------------------------------------------------- *)
(** * Monad laws used as rewrite rules                                        *)
(* ------------------------------------------------------------------------- *)
Arguments bind : simpl never.
Arguments ret : simpl never.
Arguments emit : simpl never.
Arguments emits : simpl never.
Arguments scan : simpl never.
Arguments scan_vec : simpl never.
Arguments des_sbox_rows : simpl never.

Lemma fst_bind {A B} (m : M A) (f : A -> M B) : fst (bind m f) = fst (f (fst m)).
Proof. reflexivity. Qed.
Lemma snd_bind {A B} (m : M A) (f : A -> M B) : snd (bind m f) = snd m ++ snd (f (fst m)).
Proof. reflexivity. Qed.
Lemma fst_ret {A} (a : A) : fst (ret a) = a.
Proof. reflexivity. Qed.
Lemma snd_ret {A} (a : A) : snd (ret a) = [].
Proof. reflexivity. Qed.
Lemma snd_emit e : snd (emit e) = [e].
Proof. reflexivity. Qed.
Lemma snd_emits t : snd (emits t) = t.
Proof. reflexivity. Qed.
#[export] Hint Rewrite @fst_bind @snd_bind @fst_ret @snd_ret snd_emit snd_emits app_nil_r : leak.

(* ------------------------------------------------------------------------- *)
(** * The scan                                                                *)
(* ------------------------------------------------------------------------- *)
Lemma row_select_app : forall l1 l2 b idx,
  row_select (l1 ++ l2) b idx = N.lor (row_select l1 b idx) (row_select l2 (b + length l1) idx).
Proof.
  induction l1 as [|v l1 IH]; intros l2 b idx; simpl.
  - rewrite Nat.add_0_r. reflexivity.
  - rewrite IH. rewrite N.lor_assoc.
    replace (b + S (length l1))%nat with (S b + length l1)%nat by lia. reflexivity.
Qed.

Lemma row_select_spec : forall l b idx,
  row_select l b idx =
  if (Nat.leb b idx && Nat.ltb idx (b + length l))%bool then nth (idx - b) l 0 else 0.
Proof.
  induction l as [|v l IH]; intros b idx.
  - cbn [row_select length nth].
    destruct (Nat.leb b idx && Nat.ltb idx (b + 0))%bool; destruct (idx - b)%nat; reflexivity.
  - cbn [row_select length]. rewrite IH.
    destruct (Nat.eqb_spec b idx) as [Heq|Hne].
    + subst idx.
      destruct (Nat.leb_spec (S b) b) as [H1|H1]; [lia|].
      destruct (Nat.leb_spec b b) as [H2|H2]; [|lia].
      destruct (Nat.ltb_spec b (b + S (length l))) as [H3|H3]; [|lia].
      cbn [andb]. rewrite Nat.sub_diag. cbn [nth]. apply N.lor_0_r.
    + rewrite N.lor_0_l.
      destruct (Nat.leb_spec (S b) idx) as [H1|H1];
      destruct (Nat.leb_spec b idx) as [H2|H2]; try lia; cbn [andb]; [|reflexivity].
      replace (b + S (length l))%nat with (S b + length l)%nat by lia.
      destruct (Nat.ltb (idx) (S b + length l)); [|reflexivity].
      replace (idx - b)%nat with (S (idx - S b)) by lia. reflexivity.
Qed.

Lemma scan_rows_fst : forall r site rows b off idx acc,
  fst (scan_rows r site rows b off idx acc) = N.lor acc (row_select (concat rows) b idx).
Proof.
  induction rows as [|row rest IH]; intros b off idx acc; cbn [scan_rows concat].
  - cbn [row_select]. rewrite fst_ret. symmetry. apply N.lor_0_r.
  - rewrite ?fst_bind. rewrite IH. rewrite row_select_app. rewrite N.lor_assoc. reflexivity.
Qed.

Lemma scan_rows_snd : forall r site rows b off idx acc,
  snd (scan_rows r site rows b off idx acc) = scan_trace r site (length rows) off.
Proof.
  induction rows as [|row rest IH]; intros b off idx acc; cbn [scan_rows scan_trace length].
  - reflexivity.
  - rewrite ?snd_bind, snd_emits, IH. reflexivity.
Qed.

(* lookup_scan_correct: for EVERY table (any rows) and EVERY index inside it the scan
   returns table[idx]; outside the table it returns 0. *)
Theorem scan_correct : forall r site rows idx,
  fst (scan r site rows idx) = nth idx (concat rows) 0.
Proof.
  intros. unfold scan. rewrite scan_rows_fst, row_select_spec. simpl.
  rewrite Nat.sub_0_r. destruct (Nat.ltb_spec idx (length (concat rows))) as [H|H].
  - apply N.lor_0_l.
  - simpl. symmetry. apply nth_overflow. exact H.
Qed.

Lemma scan_snd : forall r site rows idx,
  snd (scan r site rows idx) = scan_trace r site (length rows) 0.
Proof. intros. apply scan_rows_snd. Qed.

Lemma scan_vec_fst : forall r site rows idxs,
  fst (scan_vec r site rows idxs) = map (fun i => nth i (concat rows) 0) idxs.
Proof. intros. unfold scan_vec. simpl. apply map_ext. intros. apply scan_correct. Qed.
Lemma scan_vec_snd : forall r site rows idxs,
  snd (scan_vec r site rows idxs) = scan_trace r site (length rows) 0.
Proof. reflexivity. Qed.

#[export] Hint Rewrite scan_snd scan_vec_snd : leak.

Lemma rows_of_length : forall lanes n tbl, length (rows_of lanes n tbl) = n.
Proof. induction n; intros; simpl; [reflexivity | rewrite IHn; reflexivity]. Qed.

Lemma concat_rows_of : forall lanes n tbl,
  length tbl = (lanes * n)%nat -> concat (rows_of lanes n tbl) = tbl.
Proof.
  induction n as [|n IH]; intros tbl H; simpl.
  - rewrite Nat.mul_0_r in H. destruct tbl; [reflexivity | discriminate].
  - rewrite IH.
    + apply firstn_skipn.
    + rewrite skipn_length. lia.
Qed.

(* ------------------------------------------------------------------------- *)
(** * DES                                                                     *)
(* ------------------------------------------------------------------------- *)
Lemma des_sbox_rows_concat : forall Sb,
  concat (des_sbox_rows Sb) = des_sbox_flat Sb ++ repeat 0 (des_lookup_elems - 64).
Proof.
  intros. unfold des_sbox_rows. apply concat_rows_of.
  rewrite app_length, repeat_length. unfold des_sbox_flat. rewrite map_length, seq_length.
  reflexivity.
Qed.

Lemma des_sbox_scan : forall j Sb b,
  fst (scan (R_des_sbox j) SITE_LOOKUP32 (des_sbox_rows Sb) (N.to_nat (N.land b 63))) =
  des_sbox_lookup Sb (N.land b 63).
Proof.
  intros. rewrite scan_correct, des_sbox_rows_concat.
  assert (Hlt : (N.to_nat (N.land b 63) < 64)%nat).
  { assert (N.land b 63 < 64).
    { change 63 with (N.ones 6). rewrite N.land_ones. apply N.mod_lt. discriminate. }
    lia. }
  rewrite app_nth1 by (unfold des_sbox_flat; rewrite map_length, seq_length; exact Hlt).
  unfold des_sbox_flat.
  rewrite nth_indep with (d' := (fun i => des_sbox_lookup Sb (N.of_nat i)) 0%nat)
    by (rewrite map_length, seq_length; exact Hlt).
  rewrite (map_nth (fun i => des_sbox_lookup Sb (N.of_nat i)) (seq 0 64) 0%nat).
  rewrite seq_nth by exact Hlt. simpl. rewrite N2Nat.id. reflexivity.
Qed.

Lemma des_S_leak_aux_fst : forall sb x,
  fst (des_S_leak_aux sb x) = des_S_aux (map snd sb) x.
Proof.
  induction sb as [|[j Sb] t IH]; intros x; cbn [des_S_leak_aux des_S_aux map snd].
  - reflexivity.
  - rewrite ?fst_bind, ?fst_ret, IH, des_sbox_scan. reflexivity.
Qed.

Lemma des_S_leak_fst : forall x, fst (des_S_leak x) = des_S x.
Proof. intros. unfold des_S_leak. rewrite des_S_leak_aux_fst. reflexivity. Qed.

Lemma des_sbox_rows_length : forall Sb, length (des_sbox_rows Sb) = des_scan_rows.
Proof. intros. apply rows_of_length. Qed.

Lemma des_S_leak_aux_snd : forall sb x,
  snd (des_S_leak_aux sb x) =
  flat_map (fun j => scan_trace (R_des_sbox j) SITE_LOOKUP32 des_scan_rows 0) (rev (map fst sb)).
Proof.
  induction sb as [|[j Sb] t IH]; intros x; cbn [des_S_leak_aux map fst rev].
  - reflexivity.
  - autorewrite with leak. rewrite IH, des_sbox_rows_length.
    rewrite flat_map_app. cbn [flat_map]. rewrite app_nil_r. reflexivity.
Qed.

Lemma des_S_leak_snd : forall x, snd (des_S_leak x) = des_S_trace.
Proof. intros. unfold des_S_leak. rewrite des_S_leak_aux_snd. reflexivity. Qed.

Lemma des_f_leak_fst : forall r k, fst (des_f_leak r k) = des_f r k.
Proof. intros. unfold des_f_leak, des_f. rewrite ?fst_bind, ?fst_ret, des_S_leak_fst. reflexivity. Qed.
Lemma des_f_leak_snd : forall r k, snd (des_f_leak r k) = des_S_trace.
Proof. intros. unfold des_f_leak. autorewrite with leak. apply des_S_leak_snd. Qed.

Lemma des_round_leak_fst : forall lr k, fst (des_round_leak lr k) = des_round lr k.
Proof.
  intros [l r] k. unfold des_round_leak, des_round. cbn [fst snd].
  rewrite ?fst_bind, ?fst_ret, des_f_leak_fst. reflexivity.
Qed.
Lemma des_round_leak_snd : forall lr k, snd (des_round_leak lr k) = des_S_trace.
Proof. intros. unfold des_round_leak. autorewrite with leak. apply des_f_leak_snd. Qed.

Lemma des_rounds_leak_fst : forall ks lr, fst (des_rounds_leak ks lr) = des_rounds ks lr.
Proof.
  unfold des_rounds. induction ks as [|k t IH]; intros lr; cbn [des_rounds_leak fold_left].
  - reflexivity.
  - rewrite ?fst_bind, IH, des_round_leak_fst. reflexivity.
Qed.
Lemma des_rounds_leak_snd : forall ks lr,
  snd (des_rounds_leak ks lr) = concat (repeat des_S_trace (length ks)).
Proof.
  induction ks as [|k t IH]; intros lr; cbn [des_rounds_leak length repeat concat].
  - reflexivity.
  - rewrite ?snd_bind, IH, des_round_leak_snd. reflexivity.
Qed.

Lemma des_block_leak_fst : forall kr enc ks x, fst (des_block_leak kr enc ks x) = des_block_ks ks x.
Proof.
  intros. unfold des_block_leak, des_block_ks.
  rewrite ?fst_bind, ?fst_ret, des_rounds_leak_fst. reflexivity.
Qed.
Lemma des_block_leak_snd : forall kr enc ks x,
  snd (des_block_leak kr enc ks x) = des_block_trace kr enc (length ks).
Proof.
  intros. unfold des_block_leak, des_block_trace. autorewrite with leak.
  rewrite des_rounds_leak_snd. reflexivity.
Qed.

(** ** Modes *)
(* a block function with a trace that does not depend on its input *)
Definition oblivious (E : N -> M N) (tE : trace) : Prop := forall x, snd (E x) = tE.

Lemma cfb_residue_leak_fst : forall E cfb iv off c,
  fst (cfb_residue_leak E cfb iv off c) = cfb64_residue (fun x => fst (E x)) cfb iv c.
Proof. intros. unfold cfb_residue_leak, cfb64_residue. destruct cfb; reflexivity. Qed.
Lemma cfb_residue_leak_snd : forall E tE cfb iv off c, oblivious E tE ->
  snd (cfb_residue_leak E cfb iv off c) = cfb_residue_trace tE cfb off (length c).
Proof.
  intros E tE cfb iv off c HE. unfold cfb_residue_leak, cfb_residue_trace. destruct cfb.
  - autorewrite with leak. rewrite HE. reflexivity.
  - reflexivity.
Qed.

Lemma cbc64_enc_leak_fst : forall E cfb cs iv n,
  fst (cbc64_enc_leak E cfb iv n cs) = cbc64_enc (fun x => fst (E x)) cfb iv cs.
Proof.
  induction cs as [|c t IH]; intros iv n; cbn [cbc64_enc_leak cbc64_dec_leak cbc64_enc cbc64_dec cbc64_trace map].
  - reflexivity.
  - destruct (Nat.eqb (length c) 8).
    + rewrite ?fst_bind, ?fst_ret, IH. reflexivity.
    + rewrite ?fst_bind. apply cfb_residue_leak_fst.
Qed.

Lemma cbc64_enc_leak_snd : forall E tE cfb cs iv n, oblivious E tE ->
  snd (cbc64_enc_leak E cfb iv n cs) = cbc64_trace tE tE cfb n (map (@length N) cs).
Proof.
  intros E tE cfb cs iv n HE. revert iv n.
  induction cs as [|c t IH]; intros iv n; cbn [cbc64_enc_leak cbc64_dec_leak cbc64_enc cbc64_dec cbc64_trace map].
  - destruct cfb; reflexivity.
  - destruct (Nat.eqb (length c) 8).
    + autorewrite with leak. rewrite HE, IH. cbn [app]. reflexivity.
    + autorewrite with leak. rewrite (cfb_residue_leak_snd E tE) by exact HE.
      destruct cfb; reflexivity.
Qed.

Lemma cbc64_dec_leak_fst : forall E D cfb cs iv n,
  fst (cbc64_dec_leak E D cfb iv n cs) =
  cbc64_dec (fun x => fst (E x)) (fun x => fst (D x)) cfb iv cs.
Proof.
  induction cs as [|c t IH]; intros iv n; cbn [cbc64_enc_leak cbc64_dec_leak cbc64_enc cbc64_dec cbc64_trace map].
  - reflexivity.
  - destruct (Nat.eqb (length c) 8).
    + rewrite ?fst_bind, ?fst_ret, IH. reflexivity.
    + rewrite ?fst_bind. apply cfb_residue_leak_fst.
Qed.

Lemma cbc64_dec_leak_snd : forall E D tE tD cfb cs iv n, oblivious E tE -> oblivious D tD ->
  snd (cbc64_dec_leak E D cfb iv n cs) = cbc64_trace tE tD cfb n (map (@length N) cs).
Proof.
  intros E D tE tD cfb cs iv n HE HD. revert iv n.
  induction cs as [|c t IH]; intros iv n; cbn [cbc64_enc_leak cbc64_dec_leak cbc64_enc cbc64_dec cbc64_trace map].
  - destruct cfb; reflexivity.
  - destruct (Nat.eqb (length c) 8).
    + autorewrite with leak. rewrite HD, IH. cbn [app]. reflexivity.
    + autorewrite with leak. rewrite (cfb_residue_leak_snd E tE) by exact HE.
      destruct cfb; reflexivity.
Qed.

(* the chunk lengths are a function of the message length *)
Lemma chunks_fuel_lens : forall fuel (l : bytes),
  map (@length N) (chunks_fuel fuel 8 l) = chunk_lens fuel (length l).
Proof.
  induction fuel as [|f IH]; intros l.
  - reflexivity.
  - destruct l as [|a l']; [reflexivity|].
    change (chunks_fuel (S f) 8 (a :: l'))
      with (firstn 8 (a :: l') :: chunks_fuel f 8 (skipn 8 (a :: l'))).
    change (chunk_lens (S f) (length (a :: l')))
      with (Nat.min 8 (length (a :: l')) :: chunk_lens f (length (a :: l') - 8)).
    cbn [map]. rewrite IH, skipn_length, firstn_length. reflexivity.
Qed.
Lemma chunks_lens : forall l : bytes, map (@length N) (chunks 8 l) = chunk_lens (length l) (length l).
Proof. intros. apply chunks_fuel_lens. Qed.

Lemma des_block_oblivious : forall kr enc ks,
  oblivious (des_block_leak kr enc ks) (des_block_trace kr enc (length ks)).
Proof. intros kr enc ks x. apply des_block_leak_snd. Qed.

Definition des3_E_trace (n1 n2 n3 : nat) : trace :=
  des_block_trace 0 true n1 ++ des_block_trace 1 false n2 ++ des_block_trace 2 true n3.
Definition des3_D_trace (n1 n2 n3 : nat) : trace :=
  des_block_trace 2 false n3 ++ des_block_trace 1 true n2 ++ des_block_trace 0 false n1.

Lemma des3_E_oblivious : forall ks1 ks2 ks3,
  oblivious (des3_E_leak ks1 ks2 ks3) (des3_E_trace (length ks1) (length ks2) (length ks3)).
Proof.
  intros ks1 ks2 ks3 x. unfold des3_E_leak, des3_E_trace. autorewrite with leak.
  rewrite !des_block_leak_snd, rev_length. reflexivity.
Qed.
Lemma des3_D_oblivious : forall ks1 ks2 ks3,
  oblivious (des3_D_leak ks1 ks2 ks3) (des3_D_trace (length ks1) (length ks2) (length ks3)).
Proof.
  intros ks1 ks2 ks3 x. unfold des3_D_leak, des3_D_trace. autorewrite with leak.
  rewrite !des_block_leak_snd, !rev_length. reflexivity.
Qed.
Lemma des3_E_fst : forall ks1 ks2 ks3 x,
  fst (des3_E_leak ks1 ks2 ks3 x) = des_block_ks ks3 (des_block_ks (rev ks2) (des_block_ks ks1 x)).
Proof. intros. unfold des3_E_leak. rewrite ?fst_bind, !des_block_leak_fst. reflexivity. Qed.
Lemma des3_D_fst : forall ks1 ks2 ks3 x,
  fst (des3_D_leak ks1 ks2 ks3 x) = des_block_ks (rev ks1) (des_block_ks ks2 (des_block_ks (rev ks3) x)).
Proof. intros. unfold des3_D_leak. rewrite ?fst_bind, !des_block_leak_fst. reflexivity. Qed.

(** ** leak_model_eq_spec, DES family: for ALL schedules, IVs, messages *)
Lemma cbc64_enc_ext : forall E E' cfb cs iv, (forall x, E x = E' x) ->
  cbc64_enc E cfb iv cs = cbc64_enc E' cfb iv cs.
Proof.
  intros E E' cfb cs iv H. revert iv. induction cs as [|c t IH]; intros iv; cbn [cbc64_enc cbc64_dec]; [reflexivity|].
  destruct (Nat.eqb (length c) 8).
  - rewrite H, IH. reflexivity.
  - unfold cfb64_residue. rewrite H. reflexivity.
Qed.
Lemma cbc64_dec_ext : forall E E' D D' cfb cs iv, (forall x, E x = E' x) -> (forall x, D x = D' x) ->
  cbc64_dec E D cfb iv cs = cbc64_dec E' D' cfb iv cs.
Proof.
  intros E E' D D' cfb cs iv HE HD. revert iv.
  induction cs as [|c t IH]; intros iv; cbn [cbc64_enc cbc64_dec]; [reflexivity|].
  destruct (Nat.eqb (length c) 8).
  - rewrite HD, IH. reflexivity.
  - unfold cfb64_residue. rewrite HE. reflexivity.
Qed.

Theorem des_cbc_enc_leak_fst : forall ks iv msg,
  fst (des_cbc_enc_leak ks iv msg) = cbc64_enc (des_enc_N ks) false (be_to_N iv) (chunks 8 msg).
Proof.
  intros. unfold des_cbc_enc_leak. rewrite ?fst_bind, cbc64_enc_leak_fst.
  apply cbc64_enc_ext. intros. apply des_block_leak_fst.
Qed.
Theorem des_cbc_dec_leak_fst : forall ks iv msg,
  fst (des_cbc_dec_leak ks iv msg) =
  cbc64_dec (des_block_ks ks) (des_block_ks (rev ks)) false (be_to_N iv) (chunks 8 msg).
Proof.
  intros. unfold des_cbc_dec_leak. rewrite ?fst_bind, cbc64_dec_leak_fst.
  apply cbc64_dec_ext; intros; apply des_block_leak_fst.
Qed.
Theorem docsis_des_enc_leak_fst : forall ks iv msg,
  fst (docsis_des_enc_leak ks iv msg) = cbc64_enc (des_block_ks ks) true (be_to_N iv) (chunks 8 msg).
Proof.
  intros. unfold docsis_des_enc_leak. rewrite ?fst_bind, cbc64_enc_leak_fst.
  apply cbc64_enc_ext. intros. apply des_block_leak_fst.
Qed.
Theorem docsis_des_dec_leak_fst : forall ks iv msg,
  fst (docsis_des_dec_leak ks iv msg) =
  cbc64_dec (des_block_ks ks) (des_block_ks (rev ks)) true (be_to_N iv) (chunks 8 msg).
Proof.
  intros. unfold docsis_des_dec_leak. rewrite ?fst_bind, cbc64_dec_leak_fst.
  apply cbc64_dec_ext; intros; apply des_block_leak_fst.
Qed.
Theorem des3_cbc_enc_leak_fst : forall ks1 ks2 ks3 iv msg,
  fst (des3_cbc_enc_leak ks1 ks2 ks3 iv msg) =
  cbc64_enc (fun x => des_block_ks ks3 (des_block_ks (rev ks2) (des_block_ks ks1 x)))
            false (be_to_N iv) (chunks 8 msg).
Proof.
  intros. unfold des3_cbc_enc_leak. rewrite ?fst_bind, cbc64_enc_leak_fst.
  apply cbc64_enc_ext. intros. apply des3_E_fst.
Qed.
Theorem des3_cbc_dec_leak_fst : forall ks1 ks2 ks3 iv msg,
  fst (des3_cbc_dec_leak ks1 ks2 ks3 iv msg) =
  cbc64_dec (fun x => des_block_ks ks3 (des_block_ks (rev ks2) (des_block_ks ks1 x)))
            (fun x => des_block_ks (rev ks1) (des_block_ks ks2 (des_block_ks (rev ks3) x)))
            false (be_to_N iv) (chunks 8 msg).
Proof.
  intros. unfold des3_cbc_dec_leak. rewrite ?fst_bind, cbc64_dec_leak_fst.
  apply cbc64_dec_ext; intros; [apply des3_E_fst | apply des3_D_fst].
Qed.

(* ... and with the standard key schedule: the Spec functions of Spec/DES.v *)
Corollary des_cbc_enc_leak_spec : forall key iv msg,
  fst (des_cbc_enc_leak (des_key_schedule_std key) iv msg) = des_cbc_enc key iv msg.
Proof. intros. apply des_cbc_enc_leak_fst. Qed.
Corollary des_cbc_dec_leak_spec : forall key iv msg,
  fst (des_cbc_dec_leak (des_key_schedule_std key) iv msg) = des_cbc_dec key iv msg.
Proof. intros. apply des_cbc_dec_leak_fst. Qed.
Corollary docsis_des_enc_leak_spec : forall key iv msg,
  fst (docsis_des_enc_leak (des_key_schedule_std key) iv msg) = docsis_des_enc key iv msg.
Proof. intros. apply docsis_des_enc_leak_fst. Qed.
Corollary docsis_des_dec_leak_spec : forall key iv msg,
  fst (docsis_des_dec_leak (des_key_schedule_std key) iv msg) = docsis_des_dec key iv msg.
Proof. intros. apply docsis_des_dec_leak_fst. Qed.
Corollary des3_cbc_enc_leak_spec : forall k1 k2 k3 iv msg,
  fst (des3_cbc_enc_leak (des_key_schedule_std k1) (des_key_schedule_std k2)
                         (des_key_schedule_std k3) iv msg) = des3_cbc_enc k1 k2 k3 iv msg.
Proof. intros. apply des3_cbc_enc_leak_fst. Qed.
Corollary des3_cbc_dec_leak_spec : forall k1 k2 k3 iv msg,
  fst (des3_cbc_dec_leak (des_key_schedule_std k1) (des_key_schedule_std k2)
                         (des_key_schedule_std k3) iv msg) = des3_cbc_dec k1 k2 k3 iv msg.
Proof. intros. apply des3_cbc_dec_leak_fst. Qed.

(** ** The traces are functions of public quantities *)
Theorem des_cbc_enc_leak_snd : forall ks iv msg,
  snd (des_cbc_enc_leak ks iv msg) =
  des_job_trace (des_block_trace 0 true (length ks)) (des_block_trace 0 true (length ks)) false (length msg).
Proof.
  intros. unfold des_cbc_enc_leak, des_job_trace. rewrite ?snd_bind.
  rewrite (cbc64_enc_leak_snd _ _ _ _ _ _ (des_block_oblivious 0 true ks)), chunks_lens. reflexivity.
Qed.
Theorem des_cbc_dec_leak_snd : forall ks iv msg,
  snd (des_cbc_dec_leak ks iv msg) =
  des_job_trace (des_block_trace 0 true (length ks)) (des_block_trace 0 false (length ks)) false (length msg).
Proof.
  intros. unfold des_cbc_dec_leak, des_job_trace. rewrite ?snd_bind.
  rewrite (cbc64_dec_leak_snd _ _ _ _ _ _ _ _ (des_block_oblivious 0 true ks)
                              (des_block_oblivious 0 false (rev ks))), chunks_lens, rev_length.
  reflexivity.
Qed.
Theorem docsis_des_enc_leak_snd : forall ks iv msg,
  snd (docsis_des_enc_leak ks iv msg) =
  des_job_trace (des_block_trace 0 true (length ks)) (des_block_trace 0 true (length ks)) true (length msg).
Proof.
  intros. unfold docsis_des_enc_leak, des_job_trace. rewrite ?snd_bind.
  rewrite (cbc64_enc_leak_snd _ _ _ _ _ _ (des_block_oblivious 0 true ks)), chunks_lens. reflexivity.
Qed.
Theorem docsis_des_dec_leak_snd : forall ks iv msg,
  snd (docsis_des_dec_leak ks iv msg) =
  des_job_trace (des_block_trace 0 true (length ks)) (des_block_trace 0 false (length ks)) true (length msg).
Proof.
  intros. unfold docsis_des_dec_leak, des_job_trace. rewrite ?snd_bind.
  rewrite (cbc64_dec_leak_snd _ _ _ _ _ _ _ _ (des_block_oblivious 0 true ks)
                              (des_block_oblivious 0 false (rev ks))), chunks_lens, rev_length.
  reflexivity.
Qed.
Theorem des3_cbc_enc_leak_snd : forall ks1 ks2 ks3 iv msg,
  snd (des3_cbc_enc_leak ks1 ks2 ks3 iv msg) =
  des_job_trace (des3_E_trace (length ks1) (length ks2) (length ks3))
                (des3_E_trace (length ks1) (length ks2) (length ks3)) false (length msg).
Proof.
  intros. unfold des3_cbc_enc_leak, des_job_trace. rewrite ?snd_bind.
  rewrite (cbc64_enc_leak_snd _ _ _ _ _ _ (des3_E_oblivious ks1 ks2 ks3)), chunks_lens. reflexivity.
Qed.
Theorem des3_cbc_dec_leak_snd : forall ks1 ks2 ks3 iv msg,
  snd (des3_cbc_dec_leak ks1 ks2 ks3 iv msg) =
  des_job_trace (des3_E_trace (length ks1) (length ks2) (length ks3))
                (des3_D_trace (length ks1) (length ks2) (length ks3)) false (length msg).
Proof.
  intros. unfold des3_cbc_dec_leak, des_job_trace. rewrite ?snd_bind.
  rewrite (cbc64_dec_leak_snd _ _ _ _ _ _ _ _ (des3_E_oblivious ks1 ks2 ks3)
                              (des3_D_oblivious ks1 ks2 ks3)), chunks_lens. reflexivity.
Qed.

(* the standard schedule always has 16 subkeys *)
Lemma des_ks_rounds_length : forall sh c d, length (des_ks_rounds sh c d) = length sh.
Proof. induction sh; intros; simpl; [reflexivity | rewrite IHsh; reflexivity]. Qed.
Lemma des_key_schedule_std_length : forall key, length (des_key_schedule_std key) = 16%nat.
Proof.
  intros. unfold des_key_schedule_std, des_key_schedule_N. rewrite des_ks_rounds_length. reflexivity.
Qed.

(* ------------------------------------------------------------------------- *)
(** * KASUMI                                                                  *)
(* ------------------------------------------------------------------------- *)
Ltac leak_fst := repeat (rewrite ?fst_bind, ?fst_ret; cbv beta zeta).
(* [snd] of a bind chain, without ever unifying two different instrumented functions
   (rewriting with explicit instances only) *)
Ltac leak_snd_monad := repeat (rewrite ?snd_bind, ?snd_ret, ?snd_emit, ?snd_emits; cbv beta zeta).

Lemma nth_repeat0 : forall n m, nth n (repeat 0 m) 0 = 0.
Proof. induction n; destruct m; simpl; auto. Qed.

Lemma kasumi_S7_length : length kasumi_S7 = 128%nat.
Proof. vm_compute. reflexivity. Qed.
Lemma kasumi_S9_length : length kasumi_S9 = 512%nat.
Proof. vm_compute. reflexivity. Qed.
Lemma kasumi_S7_rows_concat : concat kasumi_S7_rows = kasumi_S7 ++ repeat 0 (kasumi_S7_lookup_elems - 128).
Proof.
  unfold kasumi_S7_rows. apply concat_rows_of.
  rewrite app_length, repeat_length, kasumi_S7_length. reflexivity.
Qed.
Lemma kasumi_S9_rows_concat : concat kasumi_S9_rows = kasumi_S9 ++ repeat 0 (kasumi_S9_lookup_elems - 512).
Proof.
  unfold kasumi_S9_rows. apply concat_rows_of.
  rewrite app_length, repeat_length, kasumi_S9_length. reflexivity.
Qed.

(* for EVERY x (outside the tables both sides are 0) *)
Lemma S7_leak_fst : forall x, fst (S7_leak x) = S7 x.
Proof.
  intros. unfold S7_leak, S7. rewrite scan_correct, kasumi_S7_rows_concat.
  destruct (Nat.ltb_spec (N.to_nat x) 128) as [H|H].
  - apply app_nth1. rewrite kasumi_S7_length. exact H.
  - rewrite app_nth2 by (rewrite kasumi_S7_length; exact H).
    rewrite nth_repeat0. symmetry. apply nth_overflow. rewrite kasumi_S7_length. exact H.
Qed.
Lemma S9_leak_fst : forall x, fst (S9_leak x) = S9 x.
Proof.
  intros. unfold S9_leak, S9. rewrite scan_correct, kasumi_S9_rows_concat.
  destruct (Nat.ltb_spec (N.to_nat x) 512) as [H|H].
  - apply app_nth1. rewrite kasumi_S9_length. exact H.
  - rewrite app_nth2 by (rewrite kasumi_S9_length; exact H).
    rewrite nth_repeat0. symmetry. apply nth_overflow. rewrite kasumi_S9_length. exact H.
Qed.
Lemma S7_leak_snd : forall x, snd (S7_leak x) = S7_trace.
Proof. intros. unfold S7_leak. rewrite scan_snd. unfold kasumi_S7_rows. rewrite rows_of_length. reflexivity. Qed.
Lemma S9_leak_snd : forall x, snd (S9_leak x) = S9_trace.
Proof. intros. unfold S9_leak. rewrite scan_snd. unfold kasumi_S9_rows. rewrite rows_of_length. reflexivity. Qed.
Opaque S7_leak S9_leak S7_trace S9_trace.

Lemma kasumi_FI_leak_fst : forall x ki, fst (kasumi_FI_leak x ki) = kasumi_FI x ki.
Proof.
  intros. unfold kasumi_FI_leak, kasumi_FI. leak_fst.
  repeat match goal with
         | |- context [fst (S7_leak ?a)] => rewrite (S7_leak_fst a)
         | |- context [fst (S9_leak ?a)] => rewrite (S9_leak_fst a)
         end.
  reflexivity.
Qed.
Lemma kasumi_FI_leak_snd : forall x ki, snd (kasumi_FI_leak x ki) = kasumi_FI_trace.
Proof.
  intros. unfold kasumi_FI_leak, kasumi_FI_trace. cbv zeta. leak_snd_monad.
  repeat match goal with
         | |- context [snd (S7_leak ?a)] => rewrite (S7_leak_snd a)
         | |- context [snd (S9_leak ?a)] => rewrite (S9_leak_snd a)
         end.
  rewrite ?app_nil_r. reflexivity.
Qed.
Opaque kasumi_FI_leak kasumi_FI_trace.

Lemma kasumi_FL_leak_fst : forall kr sk base x,
  fst (kasumi_FL_leak kr sk base x) = kasumi_FL x (kk sk base) (kk sk (base + 1)).
Proof. intros. unfold kasumi_FL_leak. leak_fst. reflexivity. Qed.
Lemma kasumi_FL_leak_snd : forall kr sk base x,
  snd (kasumi_FL_leak kr sk base x) = kasumi_FL_trace kr base.
Proof. intros. reflexivity. Qed.
Lemma kasumi_FO_leak_fst : forall kr sk base x,
  fst (kasumi_FO_leak kr sk base x) =
  kasumi_FO x (kk sk (base + 2)) (kk sk (base + 3)) (kk sk (base + 4)) (kk sk (base + 5))
              (kk sk (base + 6)) (kk sk (base + 7)).
Proof.
  intros. unfold kasumi_FO_leak, kasumi_FO. leak_fst.
  repeat match goal with
         | |- context [fst (kasumi_FI_leak ?a ?b)] => rewrite (kasumi_FI_leak_fst a b)
         end.
  reflexivity.
Qed.
Lemma kasumi_FO_leak_snd : forall kr sk base x,
  snd (kasumi_FO_leak kr sk base x) = kasumi_FO_trace kr base.
Proof.
  intros. unfold kasumi_FO_leak, kasumi_FO_trace. cbv zeta. leak_snd_monad.
  repeat match goal with
         | |- context [snd (kasumi_FI_leak ?a ?b)] => rewrite (kasumi_FI_leak_snd a b)
         end.
  unfold ks_ld, ks_ld_trace. rewrite ?snd_emit, ?app_nil_r, <- ?app_assoc. reflexivity.
Qed.
Opaque kasumi_FL_leak kasumi_FO_leak kasumi_FL_trace kasumi_FO_trace.

Lemma kasumi_rounds_leak_snd : forall kr sk n base l r,
  snd (kasumi_rounds_leak kr sk n base l r) = kasumi_rounds_trace kr n base.
Proof.
  induction n as [|n IH]; intros base l r; cbn [kasumi_rounds_leak kasumi_rounds_trace].
  - reflexivity.
  - cbv zeta. leak_snd_monad.
    repeat match goal with
           | |- context [snd (kasumi_FL_leak ?a ?b ?c ?d)] => rewrite (kasumi_FL_leak_snd a b c d)
           | |- context [snd (kasumi_FO_leak ?a ?b ?c ?d)] => rewrite (kasumi_FO_leak_snd a b c d)
           end.
    rewrite IH. rewrite <- ?app_assoc. reflexivity.
Qed.
Lemma kasumi_enc_leak_snd : forall kr sk x, snd (kasumi_enc_leak kr sk x) = kasumi_enc_trace kr.
Proof.
  intros. unfold kasumi_enc_leak, kasumi_enc_trace. leak_snd_monad. rewrite app_nil_r.
  apply kasumi_rounds_leak_snd.
Qed.

(* the Spec's round loop on a schedule that starts with 16 words *)
Lemma kasumi_rounds_leak_fst : forall kr n pre sk l r,
  length sk = (16 * n)%nat ->
  fst (kasumi_rounds_leak kr (pre ++ sk) n (length pre) l r) = kasumi_rounds n sk l r.
Proof.
  induction n as [|n IH]; intros pre sk l r Hlen; cbn [kasumi_rounds_leak kasumi_rounds].
  - reflexivity.
  - do 16 (destruct sk as [|? sk]; [exfalso; simpl in Hlen; lia|]).
    leak_fst.
    repeat match goal with
           | |- context [fst (kasumi_FL_leak ?a ?b ?c ?d)] => rewrite (kasumi_FL_leak_fst a b c d)
           | |- context [fst (kasumi_FO_leak ?a ?b ?c ?d)] => rewrite (kasumi_FO_leak_fst a b c d)
           end.
    unfold kk. rewrite !app_nth2 by lia.
    replace (length pre + 8 + 1 - length pre)%nat with 9%nat by lia.
    replace (length pre + 8 + 2 - length pre)%nat with 10%nat by lia.
    replace (length pre + 8 + 3 - length pre)%nat with 11%nat by lia.
    replace (length pre + 8 + 4 - length pre)%nat with 12%nat by lia.
    replace (length pre + 8 + 5 - length pre)%nat with 13%nat by lia.
    replace (length pre + 8 + 6 - length pre)%nat with 14%nat by lia.
    replace (length pre + 8 + 7 - length pre)%nat with 15%nat by lia.
    replace (length pre + 8 - length pre)%nat with 8%nat by lia.
    replace (length pre + 1 - length pre)%nat with 1%nat by lia.
    replace (length pre + 2 - length pre)%nat with 2%nat by lia.
    replace (length pre + 3 - length pre)%nat with 3%nat by lia.
    replace (length pre + 4 - length pre)%nat with 4%nat by lia.
    replace (length pre + 5 - length pre)%nat with 5%nat by lia.
    replace (length pre + 6 - length pre)%nat with 6%nat by lia.
    replace (length pre + 7 - length pre)%nat with 7%nat by lia.
    replace (length pre - length pre)%nat with 0%nat by lia.
    cbn [nth firstn skipn kasumi_f_odd kasumi_f_even].
    match goal with
    | |- context [kasumi_rounds_leak kr (pre ++ ?a0 :: ?a1 :: ?a2 :: ?a3 :: ?a4 :: ?a5 :: ?a6 :: ?a7 ::
                                          ?a8 :: ?a9 :: ?a10 :: ?a11 :: ?a12 :: ?a13 :: ?a14 :: ?a15 :: sk)
                                      n (length pre + 16)] =>
        replace (pre ++ a0 :: a1 :: a2 :: a3 :: a4 :: a5 :: a6 :: a7 ::
                 a8 :: a9 :: a10 :: a11 :: a12 :: a13 :: a14 :: a15 :: sk)
          with ((pre ++ [a0; a1; a2; a3; a4; a5; a6; a7; a8; a9; a10; a11; a12; a13; a14; a15]) ++ sk)
          by (rewrite <- app_assoc; reflexivity);
        replace (length pre + 16)%nat
          with (length (pre ++ [a0; a1; a2; a3; a4; a5; a6; a7; a8; a9; a10; a11; a12; a13; a14; a15]))
          by (rewrite app_length; reflexivity)
    end.
    rewrite IH by (simpl in Hlen; lia). reflexivity.
Qed.

Lemma kasumi_enc_leak_fst : forall kr sk x, length sk = 64%nat ->
  fst (kasumi_enc_leak kr sk x) = kasumi_enc_w sk x.
Proof.
  intros kr sk x H. unfold kasumi_enc_leak, kasumi_enc_w. leak_fst.
  change (kasumi_rounds_leak kr sk 4 0) with (kasumi_rounds_leak kr ([] ++ sk) 4 (length (@nil N))).
  rewrite kasumi_rounds_leak_fst by exact H.
  destruct (kasumi_rounds 4 sk (w32 (N.shiftr x 32)) (w32 x)). reflexivity.
Qed.
Opaque kasumi_enc_leak kasumi_enc_trace.

(** ** f8 / f9 *)
Lemma kasumi_f8_ks_leak_fst : forall dt n i sk a prev cnt, length sk = 64%nat ->
  fst (kasumi_f8_ks_leak dt i n sk a prev cnt) = kasumi_f8_ks_loop n sk a prev cnt.
Proof.
  induction n as [|n IH]; intros i sk a prev cnt H; cbn [kasumi_f8_ks_leak kasumi_f8_ks_loop].
  - reflexivity.
  - leak_fst. rewrite (kasumi_enc_leak_fst 0 sk) by exact H. rewrite IH by exact H. reflexivity.
Qed.
Lemma kasumi_f8_ks_leak_snd : forall dt n i sk a prev cnt,
  snd (kasumi_f8_ks_leak dt i n sk a prev cnt) = kasumi_f8_ks_trace dt i n.
Proof.
  induction n as [|n IH]; intros i sk a prev cnt; cbn [kasumi_f8_ks_leak kasumi_f8_ks_trace].
  - reflexivity.
  - leak_snd_monad. rewrite (kasumi_enc_leak_snd 0 sk), IH, app_nil_r. reflexivity.
Qed.

Theorem kasumi_f8_leak_fst : forall inplace sk msk iv src dst bitlen bitoff,
  length sk = 64%nat -> length msk = 64%nat ->
  fst (kasumi_f8_leak inplace sk msk iv src dst bitlen bitoff) = kasumi_f8_sk sk msk iv src dst bitlen bitoff.
Proof.
  intros. unfold kasumi_f8_leak, kasumi_f8_sk. leak_fst.
  rewrite (kasumi_enc_leak_fst 1 msk) by assumption. rewrite kasumi_f8_ks_leak_fst by assumption.
  reflexivity.
Qed.
Theorem kasumi_f8_leak_snd : forall inplace sk msk iv src dst bitlen bitoff,
  snd (kasumi_f8_leak inplace sk msk iv src dst bitlen bitoff) = kasumi_f8_trace inplace bitlen bitoff.
Proof.
  intros. unfold kasumi_f8_leak, kasumi_f8_trace. leak_snd_monad.
  rewrite (kasumi_enc_leak_snd 1 msk), kasumi_f8_ks_leak_snd, app_nil_r. reflexivity.
Qed.

Lemma kasumi_key_schedule_length : forall key, length (kasumi_key_schedule key) = 64%nat.
Proof.
  intros. unfold kasumi_key_schedule.
  change (upto 8) with [0%nat; 1%nat; 2%nat; 3%nat; 4%nat; 5%nat; 6%nat; 7%nat].
  cbn [flat_map]. rewrite !app_length. reflexivity.
Qed.

(* the schedule-parametric job is the Spec job *)
Lemma kasumi_f8_sk_spec : forall key iv src dst bitlen bitoff,
  kasumi_f8_sk (kasumi_key_schedule key) (kasumi_key_schedule (kasumi_mod_key 0x55 key))
               iv src dst bitlen bitoff = kasumi_f8_job key iv src dst bitlen bitoff.
Proof.
  intros. unfold kasumi_f8_sk, kasumi_f8_job, kasumi_f8_post, kasumi_f8_nblocks,
    kasumi_f8_keystream, kasumi_f8_keystream_w, kasumi_f8_key_sched. cbv zeta.
  destruct ((N.land bitlen 7 =? 0) && (N.land bitoff 7 =? 0))%bool; reflexivity.
Qed.

Corollary kasumi_f8_leak_spec : forall inplace key iv src dst bitlen bitoff,
  fst (kasumi_f8_leak inplace (kasumi_key_schedule key) (kasumi_key_schedule (kasumi_mod_key 0x55 key))
                      iv src dst bitlen bitoff) = kasumi_f8_job key iv src dst bitlen bitoff.
Proof.
  intros. rewrite kasumi_f8_leak_fst by apply kasumi_key_schedule_length. apply kasumi_f8_sk_spec.
Qed.

Lemma kasumi_f9_loop_leak_fst : forall sk blocks i lens a b, length sk = 64%nat ->
  fst (kasumi_f9_loop_leak sk i lens blocks a b) = kasumi_f9_loop sk blocks a b.
Proof.
  induction blocks as [|p t IH]; intros i lens a b H; cbn [kasumi_f9_loop_leak kasumi_f9_loop].
  - reflexivity.
  - leak_fst. rewrite (kasumi_enc_leak_fst 0 sk) by exact H.
    destruct (Nat.eqb (hd 0%nat lens) 8).
    + apply IH. exact H.
    + reflexivity.
Qed.
Lemma kasumi_f9_loop_leak_snd : forall sk (f : bytes -> N) cs i a b,
  snd (kasumi_f9_loop_leak sk i (map (@length N) cs) (map f cs) a b) =
  kasumi_f9_loop_trace i (map (@length N) cs).
Proof.
  induction cs as [|c t IH]; intros i a b; cbn [map kasumi_f9_loop_leak kasumi_f9_loop_trace hd tl].
  - reflexivity.
  - cbv zeta. destruct (Nat.eqb (length c) 8); leak_snd_monad;
      rewrite (kasumi_enc_leak_snd 0 sk).
    + rewrite IH. reflexivity.
    + rewrite ?app_nil_r. reflexivity.
Qed.

Theorem kasumi_f9_leak_fst : forall sk msk msg, length sk = 64%nat -> length msk = 64%nat ->
  fst (kasumi_f9_leak sk msk msg) = kasumi_f9_sk sk msk msg.
Proof.
  intros. unfold kasumi_f9_leak, kasumi_f9_sk. leak_fst.
  rewrite kasumi_f9_loop_leak_fst by assumption. rewrite (kasumi_enc_leak_fst 1 msk) by assumption.
  reflexivity.
Qed.
Theorem kasumi_f9_leak_snd : forall sk msk msg,
  snd (kasumi_f9_leak sk msk msg) = kasumi_f9_trace (length msg).
Proof.
  intros. unfold kasumi_f9_leak, kasumi_f9_trace. cbv zeta. leak_snd_monad.
  rewrite kasumi_f9_loop_leak_snd, chunks_lens, (kasumi_enc_leak_snd 1 msk), app_nil_r. reflexivity.
Qed.
Lemma kasumi_f9_sk_spec : forall key msg,
  kasumi_f9_sk (kasumi_key_schedule key) (kasumi_key_schedule (kasumi_mod_key 0xAA key)) msg =
  kasumi_f9 key msg.
Proof. intros. reflexivity. Qed.
Corollary kasumi_f9_leak_spec : forall key msg,
  fst (kasumi_f9_leak (kasumi_key_schedule key) (kasumi_key_schedule (kasumi_mod_key 0xAA key)) msg) =
  kasumi_f9 key msg.
Proof.
  intros. rewrite kasumi_f9_leak_fst by apply kasumi_key_schedule_length. apply kasumi_f9_sk_spec.
Qed.

(* ------------------------------------------------------------------------- *)
(** * SNOW3G                                                                  *)
(* ------------------------------------------------------------------------- *)
(* The Spec looks its byte tables up through binary trees; for EVERY index (also >= 256: the
   tree ignores the bits above bit 7) the result is the table entry of the low 8 bits.
   Complete case analysis on the 8 low bits of the index (3^8 shapes of a positive). *)
Lemma bt_lookup_SQ : forall i,
  snow3g_bt_lookup snow3g_SQ_tree i = nth (N.to_nat (N.land i 255)) snow3g_SQ 0.
Proof.
  destruct i as [|p]; [reflexivity|].
  do 8 (destruct p as [p|p|]; [| |vm_compute; reflexivity]).
  all: vm_compute; reflexivity.
Qed.
Lemma bt_lookup_MULa : forall i,
  snow3g_bt_lookup snow3g_MULa_tree i = nth (N.to_nat (N.land i 255)) snow3g_MULa_tab 0.
Proof.
  destruct i as [|p]; [reflexivity|].
  do 8 (destruct p as [p|p|]; [| |vm_compute; reflexivity]).
  all: vm_compute; reflexivity.
Qed.
Lemma bt_lookup_DIVa : forall i,
  snow3g_bt_lookup snow3g_DIVa_tree i = nth (N.to_nat (N.land i 255)) snow3g_DIVa_tab 0.
Proof.
  destruct i as [|p]; [reflexivity|].
  do 8 (destruct p as [p|p|]; [| |vm_compute; reflexivity]).
  all: vm_compute; reflexivity.
Qed.

Lemma forall_lt_256 : forall P : N -> bool,
  forallb P (map N.of_nat (seq 0 256)) = true -> forall c, c < 256 -> P c = true.
Proof.
  intros P H c Hc. rewrite forallb_forall in H. apply H.
  apply in_map_iff. exists (N.to_nat c). split; [apply N2Nat.id|].
  apply in_seq. lia.
Qed.
Lemma w8_lt : forall x, w8 x < 256.
Proof.
  intros. unfold w8, mask8. change 255 with (N.ones 8). rewrite N.land_ones.
  apply N.mod_lt. discriminate.
Qed.
Lemma w8_w8 : forall x, N.land (w8 x) 255 = w8 x.
Proof. intros. unfold w8, mask8. rewrite <- N.land_assoc, N.land_diag. reflexivity. Qed.

(* the nibble decomposition of the (linear) alpha tables: all 256 bytes checked *)
Lemma nib_lookup_MULa : forall c, c < 256 ->
  nib_lookup snow3g_MULa_tab c = nth (N.to_nat c) snow3g_MULa_tab 0.
Proof.
  intros c Hc.
  apply N.eqb_eq.
  apply (forall_lt_256 (fun c => nib_lookup snow3g_MULa_tab c =? nth (N.to_nat c) snow3g_MULa_tab 0));
    [vm_compute; reflexivity | exact Hc].
Qed.
Lemma nib_lookup_DIVa : forall c, c < 256 ->
  nib_lookup snow3g_DIVa_tab c = nth (N.to_nat c) snow3g_DIVa_tab 0.
Proof.
  intros c Hc.
  apply N.eqb_eq.
  apply (forall_lt_256 (fun c => nib_lookup snow3g_DIVa_tab c =? nth (N.to_nat c) snow3g_DIVa_tab 0));
    [vm_compute; reflexivity | exact Hc].
Qed.

Lemma snow3g_SQ_rows_concat : concat snow3g_SQ_rows = snow3g_SQ.
Proof. unfold snow3g_SQ_rows. apply concat_rows_of. vm_compute. reflexivity. Qed.

Lemma snow3g_S2_leak_fst : forall w, fst (snow3g_S2_leak w) = snow3g_S2 w.
Proof.
  intros. unfold snow3g_S2_leak, snow3g_S2, snow3g_sbox32. leak_fst.
  rewrite scan_vec_fst, snow3g_SQ_rows_concat. cbn [map nth].
  rewrite !bt_lookup_SQ, !w8_w8. reflexivity.
Qed.
Lemma snow3g_S2_leak_snd : forall w, snd (snow3g_S2_leak w) = scan_trace R_snow3g_S2 SITE_UNROLLED 16 0.
Proof.
  intros. unfold snow3g_S2_leak. leak_snd_monad. rewrite scan_vec_snd, app_nil_r.
  unfold snow3g_SQ_rows. rewrite rows_of_length. reflexivity.
Qed.
Lemma snow3g_mula_leak_fst : forall c,
  fst (snow3g_mula_leak c) = snow3g_bt_lookup snow3g_MULa_tree c.
Proof.
  intros. unfold snow3g_mula_leak. leak_fst.
  rewrite nib_lookup_MULa by apply w8_lt. rewrite bt_lookup_MULa. reflexivity.
Qed.
Lemma snow3g_diva_leak_fst : forall c,
  fst (snow3g_diva_leak c) = snow3g_bt_lookup snow3g_DIVa_tree c.
Proof.
  intros. unfold snow3g_diva_leak. leak_fst.
  rewrite nib_lookup_DIVa by apply w8_lt. rewrite bt_lookup_DIVa. reflexivity.
Qed.
Lemma snow3g_mula_leak_snd : forall c, snd (snow3g_mula_leak c) = alpha_trace R_snow3g_mula.
Proof. intros. unfold snow3g_mula_leak. leak_snd_monad. apply app_nil_r. Qed.
Lemma snow3g_diva_leak_snd : forall c, snd (snow3g_diva_leak c) = alpha_trace R_snow3g_diva.
Proof. intros. unfold snow3g_diva_leak. leak_snd_monad. apply app_nil_r. Qed.
Opaque snow3g_S2_leak snow3g_mula_leak snow3g_diva_leak alpha_trace.

Lemma bt_lookup_DIVa_w8 : forall x,
  snow3g_bt_lookup snow3g_DIVa_tree (w8 x) = snow3g_bt_lookup snow3g_DIVa_tree x.
Proof. intros. rewrite !bt_lookup_DIVa, w8_w8. reflexivity. Qed.

Lemma snow3g_lfsr_step_leak_fst : forall s f,
  fst (snow3g_lfsr_step_leak s f) = snow3g_lfsr_step s f.
Proof.
  intros. unfold snow3g_lfsr_step_leak, snow3g_lfsr_step. leak_fst.
  rewrite (snow3g_mula_leak_fst (N.shiftr (hd 0 s) 24)), (snow3g_diva_leak_fst (nth 11 s 0)).
  do 16 (destruct s as [|? s]; [reflexivity|]).
  destruct s; [|reflexivity].
  cbn [hd nth]. rewrite bt_lookup_DIVa_w8. reflexivity.
Qed.
Lemma snow3g_lfsr_step_leak_snd : forall s f,
  snd (snow3g_lfsr_step_leak s f) = alpha_trace R_snow3g_mula ++ alpha_trace R_snow3g_diva.
Proof.
  intros. unfold snow3g_lfsr_step_leak. leak_snd_monad.
  rewrite (snow3g_mula_leak_snd (N.shiftr (hd 0 s) 24)), (snow3g_diva_leak_snd (nth 11 s 0)), app_nil_r.
  reflexivity.
Qed.

Lemma snow3g_fsm_step_leak_fst : forall st, fst (snow3g_fsm_step_leak st) = snow3g_fsm_step st.
Proof.
  intros. unfold snow3g_fsm_step_leak, snow3g_fsm_step. leak_fst.
  rewrite (snow3g_S2_leak_fst (snow3g_r2 st)). reflexivity.
Qed.
Lemma snow3g_fsm_step_leak_snd : forall st,
  snd (snow3g_fsm_step_leak st) = scan_trace R_snow3g_S2 SITE_UNROLLED 16 0.
Proof.
  intros. unfold snow3g_fsm_step_leak. leak_snd_monad.
  rewrite (snow3g_S2_leak_snd (snow3g_r2 st)), app_nil_r. reflexivity.
Qed.
Opaque snow3g_lfsr_step_leak snow3g_fsm_step_leak.

Lemma snow3g_init_round_leak_fst : forall st, fst (snow3g_init_round_leak st) = snow3g_init_round st.
Proof.
  intros. unfold snow3g_init_round_leak, snow3g_init_round. leak_fst.
  rewrite (snow3g_fsm_step_leak_fst st).
  destruct (snow3g_fsm_step st) as [[[f r1] r2] r3]. cbn [fst snd].
  rewrite (snow3g_lfsr_step_leak_fst (snow3g_lfsr st) f). reflexivity.
Qed.
Lemma snow3g_ks_round_leak_fst : forall st, fst (snow3g_ks_round_leak st) = snow3g_ks_round st.
Proof.
  intros. unfold snow3g_ks_round_leak, snow3g_ks_round. leak_fst.
  rewrite (snow3g_fsm_step_leak_fst st).
  destruct (snow3g_fsm_step st) as [[[f r1] r2] r3]. cbn [fst snd].
  rewrite (snow3g_lfsr_step_leak_fst (snow3g_lfsr st) 0). reflexivity.
Qed.
Lemma snow3g_init_round_leak_snd : forall st, snd (snow3g_init_round_leak st) = snow3g_clock_trace.
Proof.
  intros. unfold snow3g_init_round_leak, snow3g_clock_trace. leak_snd_monad.
  rewrite (snow3g_fsm_step_leak_snd st).
  match goal with |- context [snd (snow3g_lfsr_step_leak ?a ?b)] => rewrite (snow3g_lfsr_step_leak_snd a b) end.
  rewrite app_nil_r. reflexivity.
Qed.
Lemma snow3g_ks_round_leak_snd : forall st, snd (snow3g_ks_round_leak st) = snow3g_clock_trace.
Proof.
  intros. unfold snow3g_ks_round_leak, snow3g_clock_trace. leak_snd_monad.
  rewrite (snow3g_fsm_step_leak_snd st).
  match goal with |- context [snd (snow3g_lfsr_step_leak ?a ?b)] => rewrite (snow3g_lfsr_step_leak_snd a b) end.
  rewrite app_nil_r. reflexivity.
Qed.
Opaque snow3g_init_round_leak snow3g_ks_round_leak snow3g_clock_trace snow3g_clock_trace_c.

Lemma iterM_fst : forall {A} n (f : A -> M A) (g : A -> A) x,
  (forall y, fst (f y) = g y) -> fst (iterM n f x) = iter n g x.
Proof.
  induction n as [|n IH]; intros f g x H; cbn [iterM iter].
  - reflexivity.
  - leak_fst. rewrite H. apply IH. exact H.
Qed.
Lemma iterM_snd : forall {A} n (f : A -> M A) t x,
  (forall y, snd (f y) = t) -> snd (iterM n f x) = concat (repeat t n).
Proof.
  induction n as [|n IH]; intros f t x H; cbn [iterM repeat concat].
  - reflexivity.
  - leak_snd_monad. rewrite H. rewrite (IH f t) by exact H. reflexivity.
Qed.
Lemma iter_pair : forall {A} n (f : A -> A) x, iter n (fun y => f (f y)) x = iter (n + n) f x.
Proof.
  induction n as [|n IH]; intros f x.
  - reflexivity.
  - replace (S n + S n)%nat with (S (S (n + n))) by lia. cbn [iter]. apply IH.
Qed.

Lemma snow3g_init_leak_fst : forall s, fst (snow3g_init_leak s) = snow3g_init s.
Proof.
  intros. unfold snow3g_init_leak, snow3g_init. leak_fst.
  rewrite (iterM_fst 32 snow3g_init_round_leak snow3g_init_round) by apply snow3g_init_round_leak_fst.
  match goal with |- context [fst (snow3g_ks_round_leak ?a)] => rewrite (snow3g_ks_round_leak_fst a) end.
  reflexivity.
Qed.
Lemma snow3g_init_leak_snd : forall s, snd (snow3g_init_leak s) = concat (repeat snow3g_clock_trace 33).
Proof.
  intros. unfold snow3g_init_leak. leak_snd_monad.
  rewrite (iterM_snd 32 snow3g_init_round_leak snow3g_clock_trace) by apply snow3g_init_round_leak_snd.
  match goal with |- context [snd (snow3g_ks_round_leak ?a)] => rewrite (snow3g_ks_round_leak_snd a) end.
  rewrite app_nil_r.
  change 33%nat with (32 + 1)%nat. rewrite repeat_app, concat_app. cbn [repeat concat].
  rewrite app_nil_r. reflexivity.
Qed.
Lemma snow3g_gen_leak_fst : forall n st, fst (snow3g_gen_leak n st) = snow3g_gen n st.
Proof.
  induction n as [|n IH]; intros st; cbn [snow3g_gen_leak snow3g_gen].
  - reflexivity.
  - leak_fst. rewrite (snow3g_ks_round_leak_fst st).
    destruct (snow3g_ks_round st) as [z st']. cbn [fst snd]. rewrite IH. reflexivity.
Qed.
Lemma snow3g_gen_leak_snd : forall n st, snd (snow3g_gen_leak n st) = concat (repeat snow3g_clock_trace n).
Proof.
  induction n as [|n IH]; intros st; cbn [snow3g_gen_leak repeat concat].
  - reflexivity.
  - leak_snd_monad. rewrite (snow3g_ks_round_leak_snd st), IH, app_nil_r. reflexivity.
Qed.

(* C path *)
Lemma snow3g_init_c_leak_fst : forall s, fst (snow3g_init_c_leak s) = snow3g_init s.
Proof.
  intros. unfold snow3g_init_c_leak, snow3g_init. leak_fst.
  rewrite (iterM_fst 16 snow3g_init_round2_leak (fun st => snow3g_init_round (snow3g_init_round st))).
  - rewrite iter_pair. change (16 + 16)%nat with 32%nat.
    unfold snow3g_ks_round1_c_leak. cbn [fst].
    match goal with |- context [fst (snow3g_ks_round_leak ?a)] => rewrite (snow3g_ks_round_leak_fst a) end.
    reflexivity.
  - intros y. unfold snow3g_init_round2_leak. cbn [fst].
    rewrite (snow3g_init_round_leak_fst y).
    match goal with |- context [fst (snow3g_init_round_leak ?a)] => rewrite (snow3g_init_round_leak_fst a) end.
    reflexivity.
Qed.
Lemma snow3g_init_c_leak_snd : forall s, snd (snow3g_init_c_leak s) = concat (repeat snow3g_clock_trace_c 17).
Proof.
  intros. unfold snow3g_init_c_leak. leak_snd_monad.
  rewrite (iterM_snd 16 snow3g_init_round2_leak snow3g_clock_trace_c) by reflexivity.
  unfold snow3g_ks_round1_c_leak. cbn [snd]. rewrite app_nil_r.
  change 17%nat with (16 + 1)%nat. rewrite repeat_app, concat_app. cbn [repeat concat].
  rewrite app_nil_r. reflexivity.
Qed.
Lemma snow3g_gen_c_leak_fst : forall n st,
  fst (snow3g_gen_c_leak n st) = snow3g_gen n st /\
  fst (snow3g_gen_c_leak (S n) st) = snow3g_gen (S n) st.
Proof.
  induction n as [|n IH]; intros st.
  - split; [reflexivity|].
    cbn [snow3g_gen_c_leak snow3g_gen]. leak_fst. unfold snow3g_ks_round1_c_leak. cbn [fst].
    rewrite (snow3g_ks_round_leak_fst st). destruct (snow3g_ks_round st). reflexivity.
  - split; [apply IH|].
    cbn [snow3g_gen_c_leak snow3g_gen]. leak_fst. unfold snow3g_ks_round2_leak. cbv zeta. cbn [fst snd].
    rewrite (snow3g_ks_round_leak_fst st). destruct (snow3g_ks_round st) as [z0 st1]. cbn [fst snd].
    rewrite (snow3g_ks_round_leak_fst st1). destruct (snow3g_ks_round st1) as [z1 st2]. cbn [fst snd].
    rewrite (proj1 (IH st2)). reflexivity.
Qed.
Lemma snow3g_gen_c_leak_snd : forall n st,
  snd (snow3g_gen_c_leak n st) = gen_c_trace n /\
  snd (snow3g_gen_c_leak (S n) st) = gen_c_trace (S n).
Proof.
  induction n as [|n IH]; intros st.
  - split; [reflexivity|].
    cbn [snow3g_gen_c_leak gen_c_trace]. leak_snd_monad. unfold snow3g_ks_round1_c_leak. cbn [snd].
    apply app_nil_r.
  - split; [apply IH|].
    cbn [snow3g_gen_c_leak gen_c_trace]. leak_snd_monad. unfold snow3g_ks_round2_leak. cbv zeta. cbn [fst snd].
    match goal with |- context [snd (snow3g_gen_c_leak n ?a)] => rewrite (proj1 (IH a)) end.
    rewrite app_nil_r. reflexivity.
Qed.
Opaque snow3g_init_leak snow3g_init_c_leak.

(** ** the jobs *)
Lemma snow3g_uea2_post_spec : forall key iv src dst bitlen bitoff,
  snow3g_uea2_post (snow3g_keystream key iv (snow3g_nwords bitlen)) src dst bitlen bitoff =
  snow3g_uea2_job key iv src dst bitlen bitoff.
Proof. intros. reflexivity. Qed.
Lemma snow3g_keystream_state0 : forall key iv n,
  snow3g_gen n (snow3g_init (snow3g_state0 key iv)) = snow3g_keystream key iv n.
Proof. intros. reflexivity. Qed.

Theorem snow3g_uea2_leak_fst : forall key iv src dst bitlen bitoff,
  fst (snow3g_uea2_leak key iv src dst bitlen bitoff) = snow3g_uea2_job key iv src dst bitlen bitoff.
Proof.
  intros. rewrite <- snow3g_uea2_post_spec, <- snow3g_keystream_state0.
  unfold snow3g_uea2_leak. cbv zeta. leak_fst.
  destruct ((N.land bitlen 7 =? 0) && (N.land bitoff 7 =? 0))%bool; leak_fst.
  - rewrite (snow3g_init_leak_fst (snow3g_state0 key iv)), snow3g_gen_leak_fst. reflexivity.
  - rewrite (snow3g_init_c_leak_fst (snow3g_state0 key iv)).
    rewrite (proj1 (snow3g_gen_c_leak_fst (snow3g_nwords bitlen) _)). reflexivity.
Qed.
Theorem snow3g_uea2_leak_snd : forall key iv src dst bitlen bitoff,
  snd (snow3g_uea2_leak key iv src dst bitlen bitoff) = snow3g_uea2_trace bitlen bitoff.
Proof.
  intros. unfold snow3g_uea2_leak, snow3g_uea2_trace. cbv zeta. leak_snd_monad.
  destruct ((N.land bitlen 7 =? 0) && (N.land bitoff 7 =? 0))%bool; leak_snd_monad.
  - rewrite (snow3g_init_leak_snd (snow3g_state0 key iv)), snow3g_gen_leak_snd.
    rewrite app_nil_r, repeat_app, concat_app, <- !app_assoc. reflexivity.
  - rewrite (snow3g_init_c_leak_snd (snow3g_state0 key iv)).
    rewrite (proj1 (snow3g_gen_c_leak_snd (snow3g_nwords bitlen) _)).
    rewrite app_nil_r. reflexivity.
Qed.

Lemma snow3g_uia2_post_spec : forall key iv msg bitlen,
  snow3g_uia2_post (snow3g_keystream key iv 5) msg bitlen = snow3g_uia2 key iv msg bitlen.
Proof. intros. reflexivity. Qed.
Theorem snow3g_uia2_leak_fst : forall key iv msg bitlen,
  fst (snow3g_uia2_leak key iv msg bitlen) = snow3g_uia2 key iv msg bitlen.
Proof.
  intros. rewrite <- snow3g_uia2_post_spec, <- snow3g_keystream_state0.
  unfold snow3g_uia2_leak. leak_fst.
  rewrite (snow3g_init_leak_fst (snow3g_state0 key iv)), snow3g_gen_leak_fst. reflexivity.
Qed.
Theorem snow3g_uia2_leak_snd : forall key iv msg bitlen,
  snd (snow3g_uia2_leak key iv msg bitlen) = snow3g_uia2_trace bitlen.
Proof.
  intros. unfold snow3g_uia2_leak, snow3g_uia2_trace. leak_snd_monad.
  rewrite (snow3g_init_leak_snd (snow3g_state0 key iv)), snow3g_gen_leak_snd.
  rewrite app_nil_r. change 38%nat with (33 + 5)%nat. rewrite repeat_app, concat_app, <- !app_assoc.
  reflexivity.
Qed.

(* ------------------------------------------------------------------------- *)
(** * The C19 statements                                                      *)
(* ------------------------------------------------------------------------- *)
(* The trace of a job is the same for ANY two keys / key schedules (and, as a by-product, for
   any two IVs and any two messages of the same length): it is a function of the public
   quantities (lengths, offsets, direction, in-place flag) alone. *)
Theorem des_trace_key_independent_ks : forall ks1 ks2 iv1 iv2 msg1 msg2,
  length ks1 = length ks2 -> length msg1 = length msg2 ->
  snd (des_cbc_enc_leak ks1 iv1 msg1) = snd (des_cbc_enc_leak ks2 iv2 msg2) /\
  snd (des_cbc_dec_leak ks1 iv1 msg1) = snd (des_cbc_dec_leak ks2 iv2 msg2).
Proof.
  intros ks1 ks2 iv1 iv2 msg1 msg2 Hk Hm.
  rewrite !des_cbc_enc_leak_snd, !des_cbc_dec_leak_snd, Hk, Hm. split; reflexivity.
Qed.
Theorem des_trace_key_independent : forall key1 key2 iv1 iv2 msg1 msg2,
  length msg1 = length msg2 ->
  snd (des_cbc_enc_leak (des_key_schedule_std key1) iv1 msg1) =
  snd (des_cbc_enc_leak (des_key_schedule_std key2) iv2 msg2) /\
  snd (des_cbc_dec_leak (des_key_schedule_std key1) iv1 msg1) =
  snd (des_cbc_dec_leak (des_key_schedule_std key2) iv2 msg2).
Proof.
  intros. apply des_trace_key_independent_ks; [|assumption].
  rewrite !des_key_schedule_std_length. reflexivity.
Qed.

Theorem des3_trace_key_independent_ks : forall a1 a2 a3 b1 b2 b3 iv1 iv2 msg1 msg2,
  length a1 = length b1 -> length a2 = length b2 -> length a3 = length b3 ->
  length msg1 = length msg2 ->
  snd (des3_cbc_enc_leak a1 a2 a3 iv1 msg1) = snd (des3_cbc_enc_leak b1 b2 b3 iv2 msg2) /\
  snd (des3_cbc_dec_leak a1 a2 a3 iv1 msg1) = snd (des3_cbc_dec_leak b1 b2 b3 iv2 msg2).
Proof.
  intros a1 a2 a3 b1 b2 b3 iv1 iv2 msg1 msg2 H1 H2 H3 Hm.
  rewrite !des3_cbc_enc_leak_snd, !des3_cbc_dec_leak_snd, H1, H2, H3, Hm. split; reflexivity.
Qed.
Theorem des3_trace_key_independent : forall k1 k2 k3 k1' k2' k3' iv1 iv2 msg1 msg2,
  length msg1 = length msg2 ->
  snd (des3_cbc_enc_leak (des_key_schedule_std k1) (des_key_schedule_std k2) (des_key_schedule_std k3) iv1 msg1) =
  snd (des3_cbc_enc_leak (des_key_schedule_std k1') (des_key_schedule_std k2') (des_key_schedule_std k3') iv2 msg2) /\
  snd (des3_cbc_dec_leak (des_key_schedule_std k1) (des_key_schedule_std k2) (des_key_schedule_std k3) iv1 msg1) =
  snd (des3_cbc_dec_leak (des_key_schedule_std k1') (des_key_schedule_std k2') (des_key_schedule_std k3') iv2 msg2).
Proof.
  intros. apply des3_trace_key_independent_ks; try assumption;
    rewrite !des_key_schedule_std_length; reflexivity.
Qed.

Theorem docsis_des_trace_key_independent_ks : forall ks1 ks2 iv1 iv2 msg1 msg2,
  length ks1 = length ks2 -> length msg1 = length msg2 ->
  snd (docsis_des_enc_leak ks1 iv1 msg1) = snd (docsis_des_enc_leak ks2 iv2 msg2) /\
  snd (docsis_des_dec_leak ks1 iv1 msg1) = snd (docsis_des_dec_leak ks2 iv2 msg2).
Proof.
  intros ks1 ks2 iv1 iv2 msg1 msg2 Hk Hm.
  rewrite !docsis_des_enc_leak_snd, !docsis_des_dec_leak_snd, Hk, Hm. split; reflexivity.
Qed.
Theorem docsis_des_trace_key_independent : forall key1 key2 iv1 iv2 msg1 msg2,
  length msg1 = length msg2 ->
  snd (docsis_des_enc_leak (des_key_schedule_std key1) iv1 msg1) =
  snd (docsis_des_enc_leak (des_key_schedule_std key2) iv2 msg2) /\
  snd (docsis_des_dec_leak (des_key_schedule_std key1) iv1 msg1) =
  snd (docsis_des_dec_leak (des_key_schedule_std key2) iv2 msg2).
Proof.
  intros. apply docsis_des_trace_key_independent_ks; [|assumption].
  rewrite !des_key_schedule_std_length. reflexivity.
Qed.

(* KASUMI: any two pairs of schedules (any lists at all), any IVs, any buffers *)
Theorem kasumi_f8_trace_key_independent : forall inplace sk1 msk1 sk2 msk2 iv1 iv2 src1 src2 dst1 dst2 bitlen bitoff,
  snd (kasumi_f8_leak inplace sk1 msk1 iv1 src1 dst1 bitlen bitoff) =
  snd (kasumi_f8_leak inplace sk2 msk2 iv2 src2 dst2 bitlen bitoff).
Proof. intros. rewrite !kasumi_f8_leak_snd. reflexivity. Qed.
Theorem kasumi_f9_trace_key_independent : forall sk1 msk1 sk2 msk2 msg1 msg2,
  length msg1 = length msg2 ->
  snd (kasumi_f9_leak sk1 msk1 msg1) = snd (kasumi_f9_leak sk2 msk2 msg2).
Proof. intros. rewrite !kasumi_f9_leak_snd. congruence. Qed.

(* SNOW3G: any two keys, IVs, buffers *)
Theorem snow3g_uea2_trace_key_independent : forall key1 key2 iv1 iv2 src1 src2 dst1 dst2 bitlen bitoff,
  snd (snow3g_uea2_leak key1 iv1 src1 dst1 bitlen bitoff) =
  snd (snow3g_uea2_leak key2 iv2 src2 dst2 bitlen bitoff).
Proof. intros. rewrite !snow3g_uea2_leak_snd. reflexivity. Qed.
Theorem snow3g_uia2_trace_key_independent : forall key1 key2 iv1 iv2 msg1 msg2 bitlen,
  snd (snow3g_uia2_leak key1 iv1 msg1 bitlen) = snd (snow3g_uia2_leak key2 iv2 msg2 bitlen).
Proof. intros. rewrite !snow3g_uia2_leak_snd. reflexivity. Qed.

(* lookup_scan_correct, for the three scan geometries used by the library, in terms of the
   tables of the Spec files *)
Theorem lookup_scan_correct :
  (forall r site rows idx, fst (scan r site rows idx) = nth idx (concat rows) 0) /\
  (forall j Sb b, fst (scan (R_des_sbox j) SITE_LOOKUP32 (des_sbox_rows Sb) (N.to_nat (N.land b 63))) =
                  des_sbox_lookup Sb (N.land b 63)) /\
  (forall x, fst (S7_leak x) = S7 x) /\ (forall x, fst (S9_leak x) = S9 x) /\
  (forall w, fst (snow3g_S2_leak w) = snow3g_S2 w).
Proof.
  repeat split.
  - apply scan_correct.
  - apply des_sbox_scan.
  - apply S7_leak_fst.
  - apply S9_leak_fst.
  - apply snow3g_S2_leak_fst.
Qed.

(* leak_model_eq_spec: the instrumented functions compute the Spec functions *)
Theorem leak_model_eq_spec :
  (forall key iv msg, fst (des_cbc_enc_leak (des_key_schedule_std key) iv msg) = des_cbc_enc key iv msg) /\
  (forall key iv msg, fst (des_cbc_dec_leak (des_key_schedule_std key) iv msg) = des_cbc_dec key iv msg) /\
  (forall k1 k2 k3 iv msg,
     fst (des3_cbc_enc_leak (des_key_schedule_std k1) (des_key_schedule_std k2) (des_key_schedule_std k3) iv msg)
     = des3_cbc_enc k1 k2 k3 iv msg) /\
  (forall k1 k2 k3 iv msg,
     fst (des3_cbc_dec_leak (des_key_schedule_std k1) (des_key_schedule_std k2) (des_key_schedule_std k3) iv msg)
     = des3_cbc_dec k1 k2 k3 iv msg) /\
  (forall key iv msg, fst (docsis_des_enc_leak (des_key_schedule_std key) iv msg) = docsis_des_enc key iv msg) /\
  (forall key iv msg, fst (docsis_des_dec_leak (des_key_schedule_std key) iv msg) = docsis_des_dec key iv msg) /\
  (forall inplace key iv src dst bitlen bitoff,
     fst (kasumi_f8_leak inplace (kasumi_key_schedule key) (kasumi_key_schedule (kasumi_mod_key 0x55 key))
                         iv src dst bitlen bitoff) = kasumi_f8_job key iv src dst bitlen bitoff) /\
  (forall key msg,
     fst (kasumi_f9_leak (kasumi_key_schedule key) (kasumi_key_schedule (kasumi_mod_key 0xAA key)) msg)
     = kasumi_f9 key msg) /\
  (forall key iv src dst bitlen bitoff,
     fst (snow3g_uea2_leak key iv src dst bitlen bitoff) = snow3g_uea2_job key iv src dst bitlen bitoff) /\
  (forall key iv msg bitlen, fst (snow3g_uia2_leak key iv msg bitlen) = snow3g_uia2 key iv msg bitlen).
Proof.
  repeat split; intros.
  - apply des_cbc_enc_leak_spec.
  - apply des_cbc_dec_leak_spec.
  - apply des3_cbc_enc_leak_spec.
  - apply des3_cbc_dec_leak_spec.
  - apply docsis_des_enc_leak_spec.
  - apply docsis_des_dec_leak_spec.
  - apply kasumi_f8_leak_spec.
  - apply kasumi_f9_leak_spec.
  - apply snow3g_uea2_leak_fst.
  - apply snow3g_uia2_leak_fst.
Qed.
