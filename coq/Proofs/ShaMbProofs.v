(* Proofs/ShaMbProofs.v — C02 structural proofs, part 4: the extra block(s) built by the C SHA
   multi-buffer manager (Struct/ShaMb.v, /repo/lib/include/sha_mb_mgr.h) are the
   Merkle–Damgård padding for every message length, and — combined with the generic lane
   scheduler theorem (Proofs/OooInstProofs.v, Props/Properties_C04.v) — every job returned by
   the manager under any interleaving carries the digest of its own message. *)
From Coq Require Import List NArith Bool Lia Arith PeanoNat ZArith.
From IMB Require Import Lib.Bytes Struct.MemOps Struct.ShaMb Proofs.BytesLemmas Proofs.HashProofs
                        Spec.SHA Mgr.Ooo Mgr.OooInst Proofs.OooProofs Proofs.OooInstProofs.
Import ListNotations.

Definition sha_mb_cfg_ok (c : sha_mb_cfg) : Prop := 8 <= sm_pad c /\ sm_pad c + 1 <= sm_B c.

Lemma sha_mb_cfg_ok_sha1 : sha_mb_cfg_ok SM_SHA1_256.
Proof. unfold sha_mb_cfg_ok; cbn; lia. Qed.
Lemma sha_mb_cfg_ok_sha512 : sha_mb_cfg_ok SM_SHA512.
Proof. unfold sha_mb_cfg_ok; cbn; lia. Qed.

(* store8_be writes 8 bytes; for pad_size = 16 the upper 8 bytes of the standard's field are
   the memset background, which is right as long as the bit length fits 64 bits *)
Definition sha_mb_len_ok (c : sha_mb_cfg) (len : nat) : Prop :=
  sm_pad c = 8 \/ (8 * N.of_nat len < 2 ^ 64)%N.

Section ShaMbProofs.
  Variable c : sha_mb_cfg.
  Let B := sm_B c.
  Let P := sm_pad c.
  Hypothesis Hc : sha_mb_cfg_ok c.

  Let HB : 0 < B.
  Proof. destruct Hc. unfold B. lia. Qed.
  Let HP8 : 8 <= P.
  Proof. destruct Hc as [H _]. exact H. Qed.
  Let HPB : P + 1 <= B.
  Proof. destruct Hc as [_ H]. exact H. Qed.

  Lemma sha_mb_r_lt len : sha_mb_r c len < B.
  Proof. apply mod_lt. exact HB. Qed.

  (* `r >= blk_size - pad_size  =>  2 extra blocks` is the standard's case split *)
  Lemma sha_mb_extra_blocks_eq len :
    sha_mb_extra_blocks c len = md_tail_blocks B P (sha_mb_r c len).
  Proof.
    unfold sha_mb_extra_blocks, md_tail_blocks. fold B P.
    pose proof (sha_mb_r_lt len). set (r := sha_mb_r c len) in *.
    destruct (Nat.leb_spec (B - P) r), (Nat.leb_spec (r + 1 + P) B); (reflexivity || lia).
  Qed.

  Lemma sha_mb_len_field_length len : length (sha_mb_len_field len) = 8.
  Proof. apply N_to_be_length. Qed.

  Lemma sha_mb_len_field_enc len : sha_mb_len_ok c len ->
    zeros (P - 8) ++ sha_mb_len_field len = md_len_enc P true len.
  Proof.
    intros Hok. unfold sha_mb_len_field, md_len_enc. rewrite N_to_be_w64.
    replace (N.of_nat len * 8)%N with (8 * N.of_nat len)%N by lia.
    destruct Hok as [E|Hlt].
    - fold P in E. rewrite E. reflexivity.
    - symmetry. apply N_to_be_wide; assumption.
  Qed.

  Lemma sha_mb_msg_split msg :
    let len := length msg in
    let r := sha_mb_r c len in
    msg = sha_mb_src_bytes c msg ++ skipn (len - r) msg /\
    length (sha_mb_src_bytes c msg) = (len / B) * B /\
    length (skipn (len - r) msg) = r.
  Proof.
    intros len r.
    pose proof (div_mod_eq len B HB) as E. change (len mod B) with r in E.
    assert (Hs : len - r = B * (len / B)) by lia.
    unfold sha_mb_src_bytes. fold B len. rewrite Hs. repeat split.
    - symmetry. apply firstn_skipn.
    - rewrite firstn_length_le by (fold len; lia). lia.
    - rewrite skipn_length. fold len. lia.
  Qed.

  (* THEOREM sha_mb_extra_blocks_eq_pad: for every message length, the xblk_size bytes the
     manager builds in extra_block are the last r message bytes followed by the padding of a
     len-byte message *)
  Theorem sha_mb_extra_blocks_eq_pad_thm msg : sha_mb_len_ok c (length msg) ->
    let len := length msg in
    sha_mb_extra_bytes c msg = md_pad B P true len (skipn (len - sha_mb_r c len) msg) /\
    length (sha_mb_extra_bytes c msg) = sha_mb_xblk_size c len.
  Proof.
    intros Hok len.
    pose proof (sha_mb_r_lt len) as Hr. set (r := sha_mb_r c len) in *.
    set (tail := skipn (len - r) msg).
    assert (Ht : length tail = r) by apply (sha_mb_msg_split msg).
    set (eb := sha_mb_extra_blocks c len).
    assert (Heb : (eb = 1 /\ r + 1 + P <= B) \/ (eb = 2 /\ B < r + 1 + P)).
    { unfold eb. rewrite sha_mb_extra_blocks_eq. fold r. unfold md_tail_blocks.
      destruct (Nat.leb_spec (r + 1 + P) B); [left|right]; split; (reflexivity || assumption). }
    assert (Hx : sha_mb_extra_bytes c msg =
                 tail ++ 128%N :: zeros (eb * B - r - 9) ++ sha_mb_len_field len).
    { unfold sha_mb_extra_bytes, read_at. fold len r tail. cbn [skipn].
      unfold sha_mb_create_extra_blocks, sha_mb_extra_block_size, sha_mb_xblk_size.
      fold B P r eb.
      (* var_memcpy *)
      replace (zeros (2 * B + P)) with (zeros r ++ zeros (2 * B + P - r))
        by (rewrite <- zeros_app; f_equal; lia).
      rewrite write_at_0 by (rewrite zeros_length; exact Ht).
      (* 0x80 *)
      replace (zeros (2 * B + P - r)) with (zeros 1 ++ zeros (2 * B + P - r - 1))
        by (rewrite <- zeros_app; f_equal; lia).
      rewrite (write_at_middle tail (zeros 1) _ [128%N] r) by (try reflexivity; symmetry; exact Ht).
      (* length *)
      replace (zeros (2 * B + P - r - 1))
        with (zeros (eb * B - r - 9) ++ zeros 8 ++ zeros (2 * B + P - eb * B))
        by (rewrite <- !zeros_app; f_equal; destruct Heb as [[-> ?]|[-> ?]]; lia).
      replace (tail ++ [128%N] ++ zeros (eb * B - r - 9) ++ zeros 8 ++ zeros (2 * B + P - eb * B))
        with ((tail ++ 128%N :: zeros (eb * B - r - 9)) ++ zeros 8 ++ zeros (2 * B + P - eb * B))
        by (rewrite <- !app_assoc; reflexivity).
      rewrite write_at_middle.
      - rewrite <- !app_assoc. cbn [app].
        replace (tail ++ 128%N :: zeros (eb * B - r - 9) ++ sha_mb_len_field len
                   ++ zeros (2 * B + P - eb * B))
          with ((tail ++ 128%N :: zeros (eb * B - r - 9) ++ sha_mb_len_field len)
                   ++ zeros (2 * B + P - eb * B))
          by (rewrite <- !app_assoc; cbn [app]; rewrite <- !app_assoc; reflexivity).
        apply firstn_app_l. rewrite app_length. cbn [length].
        rewrite app_length, zeros_length, sha_mb_len_field_length, Ht.
        destruct Heb as [[-> ?]|[-> ?]]; lia.
      - rewrite app_length. cbn [length]. rewrite zeros_length, Ht.
        destruct Heb as [[-> ?]|[-> ?]]; lia.
      - rewrite sha_mb_len_field_length, zeros_length. reflexivity. }
    split.
    - rewrite Hx. rewrite md_pad_tail_explicit by (try assumption; rewrite Ht; exact Hr).
      rewrite Ht. f_equal. f_equal.
      rewrite <- (sha_mb_len_field_enc len Hok). rewrite app_assoc, <- zeros_app. f_equal. f_equal.
      unfold eb. rewrite sha_mb_extra_blocks_eq. fold r. unfold md_tail_blocks.
      destruct (Nat.leb_spec (r + 1 + P) B); lia.
    - rewrite Hx. unfold sha_mb_xblk_size. fold B eb. rewrite app_length. cbn [length].
      rewrite app_length, zeros_length, sha_mb_len_field_length, Ht.
      destruct Heb as [[-> ?]|[-> ?]]; lia.
  Qed.

  (* everything one job feeds to the compression function = the standard's padded message *)
  Theorem sha_mb_stream_eq_pad msg : sha_mb_len_ok c (length msg) ->
    sha_mb_stream c msg = md_pad B P true (length msg) msg.
  Proof.
    intros Hok. unfold sha_mb_stream.
    destruct (sha_mb_extra_blocks_eq_pad_thm msg Hok) as [Hp _]. rewrite Hp.
    destruct (sha_mb_msg_split msg) as (E & Hl & _).
    remember (sha_mb_src_bytes c msg) as pre.
    remember (skipn (length msg - sha_mb_r c (length msg)) msg) as tail.
    remember (length msg) as n. rewrite E.
    symmetry. apply (md_pad_app_blocks B P true _ _ _ (n / B) HB Hl).
  Qed.

  Lemma sha_mb_stream_length msg : sha_mb_len_ok c (length msg) ->
    exists q, length (sha_mb_stream c msg) = q * B.
  Proof.
    intros Hok. unfold sha_mb_stream. rewrite app_length.
    destruct (sha_mb_extra_blocks_eq_pad_thm msg Hok) as [_ Hl]. rewrite Hl.
    destruct (sha_mb_msg_split msg) as (_ & Hs & _). rewrite Hs.
    unfold sha_mb_xblk_size. fold B.
    exists (length msg / B + sha_mb_extra_blocks c (length msg)). lia.
  Qed.
End ShaMbProofs.

(* the thresholds spelled out *)
Lemma sha_mb_extra_blocks_sha1 len :
  sha_mb_extra_blocks SM_SHA1_256 len = if Nat.leb 56 (len mod 64) then 2 else 1.
Proof. reflexivity. Qed.
Lemma sha_mb_extra_blocks_sha512 len :
  sha_mb_extra_blocks SM_SHA512 len = if Nat.leb 112 (len mod 128) then 2 else 1.
Proof. reflexivity. Qed.

(* ---------- combination with the scheduler ---------- *)

(* hash description X is run by manager configuration c *)
Definition sha_mb_matches (X : md_hash) (c : sha_mb_cfg) : Prop :=
  md_block X = sm_B c /\
  forall total data, md_padf X total data = md_pad (sm_B c) (sm_pad c) true total data.

Definition sha_mb_pairs : list (md_hash * sha_mb_cfg) :=
  [(H_SHA1, SM_SHA1_256); (H_SHA224, SM_SHA1_256); (H_SHA256, SM_SHA1_256);
   (H_SHA384, SM_SHA512); (H_SHA512, SM_SHA512)].

Lemma sha_mb_pairs_ok X c : In (X, c) sha_mb_pairs -> sha_mb_matches X c /\ sha_mb_cfg_ok c.
Proof.
  cbn [sha_mb_pairs In]. intros H.
  repeat match goal with
  | H : _ \/ _ |- _ => destruct H as [H|H]
  | H : (_, _) = (_, _) |- _ => injection H as <- <-
  | H : False |- _ => contradiction
  end; (split; [split; [reflexivity|intros; reflexivity]|]);
  first [exact sha_mb_cfg_ok_sha1|exact sha_mb_cfg_ok_sha512].
Qed.

(* the job as the scheduler sees it: initial digest, block list = the manager's stream *)
Definition sha_mb_job (X : md_hash) (c : sha_mb_cfg) (msg : bytes) : fjob (list N) bytes unit :=
  md_job (md_compress X) (md_init X) (chunks (sm_B c) (sha_mb_stream c msg)).

(* alone, the job computes the hash *)
Theorem sha_mb_alone_eq_spec X c msg :
  sha_mb_matches X c -> sha_mb_cfg_ok c -> sha_mb_len_ok c (length msg) ->
  md_digest X (fold_left (md_compress X) (chunks (sm_B c) (sha_mb_stream c msg)) (md_init X)) =
  md_full X msg.
Proof.
  intros [HBX Hpad] Hc Hok.
  assert (HB : 0 < sm_B c) by (destruct Hc; lia).
  destruct (sha_mb_stream_length c Hc msg Hok) as [q Hq].
  rewrite <- (md_blocks_eq_fold_chunks (sm_B c) (md_compress X) (md_init X) _ q HB Hq).
  rewrite (sha_mb_stream_eq_pad c Hc msg Hok).
  unfold md_full, md_finish, md_run_blocks. rewrite Hpad, HBX. reflexivity.
Qed.

(* THEOREM sha_mb_eq_spec: for any number of lanes, any interleaving of submits and flushes
   from a state satisfying the scheduler invariant, every returned job that is a SHA job of
   one of the five algorithms carries the FIPS 180-4 digest of its own message *)
Theorem sha_mb_eq_spec_thm :
  forall (L : nat), (1 <= L)%nat ->
  forall (o : ooo (fjob (list N) bytes unit) (flane (list N) bytes unit)) ps,
  Inv1 _ _ (finit _ _ _) (funits _ _ _) (fstep _ _ _) L o ->
  fjobs_ok _ _ _ ps ->
  Forall (fun r => match r with
                   | None => True
                   | Some (j, s) =>
                       forall X c msg, In (X, c) sha_mb_pairs ->
                         sha_mb_len_ok c (length msg) ->
                         j = sha_mb_job X c msg ->
                         md_digest X (fl_acc s) = md_full X msg
                   end) (snd (frun _ _ _ L o ps)).
Proof.
  intros L HL o ps HI Hok.
  eapply Forall_impl; [|exact (fold_schedule_result _ _ _ L HL o ps HI Hok)].
  intros [[j s]|] H; [|exact I]. intros X c msg Hin Hlen ->. destruct H as (H & _).
  destruct (sha_mb_pairs_ok X c Hin) as [Hm Hc].
  unfold falone, sha_mb_job, md_job in H. cbn [fj_f fj_acc fj_in] in H.
  apply (f_equal fst) in H. cbn [fst] in H. rewrite md_fold in H. rewrite H.
  apply sha_mb_alone_eq_spec; assumption.
Qed.
