(* Proofs/ResetImageTie.v — the model of ooo_mgr_*_reset() (Mgr/Reset.v over Gen/GenReset.v) against
   the images produced by the compiled functions (Gen/GenResetImages.v, written from the output of
   `k15_reinit resetimg`).  Finite and complete: every (function, lane count) pair a compiled variant
   passes to reset_ooo_mgrs(). *)
From Coq Require Import Arith NArith List String Bool Lia.
From IMB Require Import Gen.GenLayout Gen.GenReset Gen.GenResetImages Mgr.Reset.
Import ListNotations.
Local Open Scope N_scope.
Local Notation length := List.length.

(* 256 stands for "byte not written" on both sides *)
Definition model_image (fn : string) (lanes size : N) : list N :=
  map (reset_image fn lanes (fun _ => 256)) (nseq size).

Definition expand_runs (runs : list (N * N)) : list N :=
  flat_map (fun r => repeat (snd r) (N.to_nat (fst r))) runs.

Fixpoint list_eqb (a b : list N) : bool :=
  match a, b with
  | [], [] => true
  | x :: a', y :: b' => (x =? y) && list_eqb a' b'
  | _, _ => false
  end.

Lemma list_eqb_eq a : forall b, list_eqb a b = true -> a = b.
Proof.
  induction a as [|x a IH]; intros [|y b] H; try discriminate; [reflexivity|].
  cbn in H. apply andb_true_iff in H. destruct H as [H1 H2]. apply N.eqb_eq in H1. subst. f_equal. auto.
Qed.

(* ---- a fast evaluator of the same image: paint each write onto a list (no per-byte arithmetic) ---- *)
Definition tab (g : nat -> N) (m : nat) : list N := map g (seq 0 m).

Definition paint_prim (l : list N) (p : prim) : list N :=
  match p with PFill off len b =>
    let o := N.to_nat off in let n := N.to_nat len in
    firstn o l ++ repeat b (Nat.min n (length l - o)) ++ skipn (o + n) l
  end.

Definition fast_image (fn : string) (lanes size : N) : list N :=
  fold_left paint_prim (reset_prims fn lanes) (tab (fun _ => 256) (N.to_nat size)).

Lemma tab_length g m : length (tab g m) = m.
Proof. unfold tab. rewrite map_length, seq_length. reflexivity. Qed.

Lemma nth_tab g m i d : (i < m)%nat -> nth i (tab g m) d = g i.
Proof.
  intros H. unfold tab. rewrite (nth_indep _ d (g 0%nat)) by (rewrite map_length, seq_length; exact H).
  rewrite map_nth, seq_nth by exact H. reflexivity.
Qed.

Lemma nth_firstn_lt {A} (l : list A) : forall o i d, (i < o)%nat -> nth i (firstn o l) d = nth i l d.
Proof.
  induction l as [|x l IH]; intros o i d H.
  - rewrite firstn_nil. reflexivity.
  - destruct o as [|o]; [lia|]. destruct i as [|i]; cbn; [reflexivity|]. apply IH. lia.
Qed.

Lemma nth_skipn_add {A} (l : list A) : forall k i d, nth i (skipn k l) d = nth (k + i) l d.
Proof.
  induction l as [|x l IH]; intros k i d.
  - rewrite skipn_nil. destruct i, k; reflexivity.
  - destruct k as [|k]; cbn; [reflexivity|]. apply IH.
Qed.

Lemma nth_repeat_lt (b : N) k i d : (i < k)%nat -> nth i (repeat b k) d = b.
Proof.
  revert i. induction k as [|k IH]; intros i H; [lia|].
  destruct i as [|i]; cbn; [reflexivity|]. apply IH. lia.
Qed.

Lemma paint_prim_tab p f m :
  paint_prim (tab (fun i => f (N.of_nat i)) m) p = tab (fun i => apply_prim p f (N.of_nat i)) m.
Proof.
  destruct p as [off len b]. unfold paint_prim. rewrite tab_length.
  set (o := N.to_nat off). set (n := N.to_nat len). set (L := tab (fun i => f (N.of_nat i)) m).
  assert (HL : length L = m) by apply tab_length.
  apply nth_ext with (d := 0) (d' := 0).
  - rewrite !app_length, firstn_length, repeat_length, skipn_length, HL, tab_length. lia.
  - intros i Hi. rewrite !app_length, firstn_length, repeat_length, skipn_length, HL in Hi.
    assert (Him : (i < m)%nat) by lia.
    rewrite (nth_tab _ m i 0 Him). cbn [apply_prim]. unfold in_range.
    destruct (Nat.lt_ge_cases i (Nat.min o m)) as [H1|H1].
    + rewrite app_nth1 by (rewrite firstn_length, HL; exact H1).
      rewrite nth_firstn_lt by lia. unfold L. rewrite nth_tab by exact Him.
      replace (off <=? N.of_nat i) with false; [reflexivity|]. symmetry. apply N.leb_gt. unfold o in H1. lia.
    + rewrite app_nth2 by (rewrite firstn_length, HL; exact H1). rewrite firstn_length, HL.
      destruct (Nat.lt_ge_cases (i - Nat.min o m) (Nat.min n (m - o))) as [H2|H2].
      * rewrite app_nth1 by (rewrite repeat_length; exact H2). rewrite nth_repeat_lt by exact H2.
        replace (off <=? N.of_nat i) with true by (symmetry; apply N.leb_le; unfold o in *; lia).
        replace (N.of_nat i <? off + len) with true by (symmetry; apply N.ltb_lt; unfold o, n in *; lia).
        reflexivity.
      * rewrite app_nth2 by (rewrite repeat_length; exact H2). rewrite repeat_length, nth_skipn_add.
        replace (o + n + (i - Nat.min o m - Nat.min n (m - o)))%nat with i by lia.
        unfold L. rewrite nth_tab by exact Him.
        destruct (off <=? N.of_nat i) eqn:E1; [|reflexivity].
        replace (N.of_nat i <? off + len) with false; [reflexivity|]. symmetry. apply N.ltb_ge.
        apply N.leb_le in E1. unfold o, n in *. lia.
Qed.

Lemma paint_all_tab ps : forall f m,
  fold_left paint_prim ps (tab (fun i => f (N.of_nat i)) m) = tab (fun i => run_prims ps f (N.of_nat i)) m.
Proof.
  induction ps as [|p ps IH]; intros f m; cbn [fold_left]; [reflexivity|].
  rewrite paint_prim_tab. rewrite (IH (apply_prim p f) m). reflexivity.
Qed.

Lemma fast_image_eq fn lanes size : fast_image fn lanes size = model_image fn lanes size.
Proof.
  unfold fast_image, model_image, reset_image, nseq. rewrite map_map.
  apply (paint_all_tab (reset_prims fn lanes) (fun _ => 256) (N.to_nat size)).
Qed.

Definition entry_ok (e : string * N * N * list (N * N)) : bool :=
  let '(fn, lanes, size, runs) := e in list_eqb (fast_image fn lanes size) (expand_runs runs).

Definition find_image (fn : string) (lanes : N) : option (string * N * N * list (N * N)) :=
  find (fun e => let '(f, l, _, _) := e in String.eqb f fn && (l =? lanes)) compiled_reset_images.

Lemma entries_ok : forallb entry_ok compiled_reset_images = true.
Proof. vm_compute. reflexivity. Qed.

Lemma all_pairs_present :
  forallb (fun v => forallb (fun c => match find_image (snd (fst c)) (snd c) with Some _ => true | None => false end) (v_resets v)) variants = true.
Proof. vm_compute. reflexivity. Qed.

Theorem reset_model_matches_compiled_code_thm :
  forall v field fn lanes, In v variants -> In (field, fn, lanes) (v_resets v) ->
  exists size runs, In (fn, lanes, size, runs) compiled_reset_images /\
                    model_image fn lanes size = expand_runs runs.
Proof.
  intros v field fn lanes Hv Hin. pose proof all_pairs_present as H. rewrite forallb_forall in H. specialize (H v Hv).
  rewrite forallb_forall in H. specialize (H _ Hin). cbn [fst snd] in H.
  destruct (find_image fn lanes) as [[[[f l] size] runs]|] eqn:E; [|discriminate].
  unfold find_image in E. apply find_some in E. destruct E as [Hmem Hkey].
  apply andb_true_iff in Hkey. destruct Hkey as [K1 K2]. apply String.eqb_eq in K1. apply N.eqb_eq in K2. subst f l.
  exists size, runs. split; [exact Hmem|].
  pose proof entries_ok as Hall. rewrite forallb_forall in Hall. specialize (Hall _ Hmem). cbn in Hall.
  rewrite <- fast_image_eq. apply list_eqb_eq. exact Hall.
Qed.
