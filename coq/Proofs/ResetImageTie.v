(* Proofs/ResetImageTie.v — the model of ooo_mgr_*_reset() (Mgr/Reset.v over Gen/GenReset.v) against
   the images produced by the compiled functions (Gen/GenResetImages.v, written from the output of
   `k15_reinit resetimg`).  Finite and complete: every (function, lane count) pair a compiled variant
   passes to reset_ooo_mgrs(). *)
From Coq Require Import NArith List String Bool.
From IMB Require Import Gen.GenLayout Gen.GenReset Gen.GenResetImages Mgr.Reset.
Import ListNotations.
Local Open Scope N_scope.

(* 256 stands for "byte not written" on both sides *)
Definition model_image (fn : string) (lanes size : N) : list N :=
  map (reset_image fn lanes (fun _ => 256)) (nseq size).

Definition expand_runs (runs : list (N * N)) : list N :=
  flat_map (fun r => repeat (snd r) (N.to_nat (fst r))) runs.

Fixpoint list_eqb (a b : list N) : bool :=
  match a, b with
  | [], [] => true
  | x :: a', y :: b' => (x =? y) && list_eqb a' b'
  | _, _ => false
  end.

Lemma list_eqb_eq a : forall b, list_eqb a b = true -> a = b.
Proof.
  induction a as [|x a IH]; intros [|y b] H; try discriminate; [reflexivity|].
  cbn in H. apply andb_true_iff in H. destruct H as [H1 H2]. apply N.eqb_eq in H1. subst. f_equal. auto.
Qed.

Definition entry_ok (e : string * N * N * list (N * N)) : bool :=
  let '(fn, lanes, size, runs) := e in list_eqb (model_image fn lanes size) (expand_runs runs).

Definition find_image (fn : string) (lanes : N) : option (string * N * N * list (N * N)) :=
  find (fun e => let '(f, l, _, _) := e in String.eqb f fn && (l =? lanes)) compiled_reset_images.

Lemma entries_ok : forallb entry_ok compiled_reset_images = true.
Proof. vm_compute. reflexivity. Qed.

Lemma all_pairs_present :
  forallb (fun v => forallb (fun c => match find_image (snd (fst c)) (snd c) with Some _ => true | None => false end) (v_resets v)) variants = true.
Proof. vm_compute. reflexivity. Qed.

Theorem reset_model_matches_compiled_code_thm :
  forall v field fn lanes, In v variants -> In (field, fn, lanes) (v_resets v) ->
  exists size runs, In (fn, lanes, size, runs) compiled_reset_images /\
                    model_image fn lanes size = expand_runs runs.
Proof.
  intros v field fn lanes Hv Hin. pose proof all_pairs_present as H. rewrite forallb_forall in H. specialize (H v Hv).
  rewrite forallb_forall in H. specialize (H _ Hin). cbn [fst snd] in H.
  destruct (find_image fn lanes) as [[[[f l] size] runs]|] eqn:E; [|discriminate].
  unfold find_image in E. apply find_some in E. destruct E as [Hmem Hkey].
  apply andb_true_iff in Hkey. destruct Hkey as [K1 K2]. apply String.eqb_eq in K1. apply N.eqb_eq in K2. subst f l.
  exists size, runs. split; [exact Hmem|].
  pose proof entries_ok as Hall. rewrite forallb_forall in Hall. specialize (Hall _ Hmem). cbn in Hall.
  apply list_eqb_eq. exact Hall.
Qed.
