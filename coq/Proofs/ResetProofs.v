(* Proofs/ResetProofs.v — lemmas for property C15 (Mgr/Reset.v over Gen/GenReset.v, Gen/GenLayout.v). *)
From Coq Require Import NArith ZArith List String Bool Lia.
From IMB Require Import Gen.GenConsts Gen.GenLayout Gen.GenReset Mgr.Ring Mgr.Reset.
Import ListNotations.
Local Open Scope N_scope.

(* ------------------------------------------------------------------ writes do not read *)
Lemma apply_prim_preserves P p f g : agree_on P f g -> agree_on P (apply_prim p f) (apply_prim p g).
Proof. intros H a Ha. destruct p as [off len b]. cbn. destruct (in_range off len a); auto. Qed.

Lemma run_prims_preserves P ps : forall f g, agree_on P f g -> agree_on P (run_prims ps f) (run_prims ps g).
Proof.
  unfold run_prims. induction ps as [|p ps IH]; intros f g H; cbn; auto.
  apply IH. apply apply_prim_preserves. exact H.
Qed.

Lemma fill_forces off len b f g : agree_on (in_range off len) (apply_prim (PFill off len b) f) (apply_prim (PFill off len b) g).
Proof. intros a Ha. cbn. rewrite Ha. reflexivity. Qed.

(* a reset function that begins with memset(p, b, len) produces, on [0, len), an image that does not
   depend on what was there before — whatever jobs were in flight *)
Lemma prims_constant off len b ps f g :
  agree_on (in_range off len) (run_prims (PFill off len b :: ps) f) (run_prims (PFill off len b :: ps) g).
Proof. unfold run_prims. cbn [fold_left]. apply run_prims_preserves. apply fill_forces. Qed.

Definition starts_full (c : string * string * N) : bool :=
  let '(field, fn, lanes) := c in
  match reset_prims fn lanes with
  | PFill 0 len 0 :: _ => len =? rb_off_of field
  | _ => false
  end.

Lemma starts_full_constant field fn lanes f g :
  starts_full (field, fn, lanes) = true ->
  agree_on (in_range 0 (rb_off_of field)) (reset_image fn lanes f) (reset_image fn lanes g).
Proof.
  unfold starts_full, reset_image. destruct (reset_prims fn lanes) as [|[off len b] ps]; [discriminate|].
  destruct off; [|discriminate]. destruct b; [|discriminate]. intros H. apply N.eqb_eq in H. subst len.
  apply prims_constant.
Qed.

(* ------------------------------------------------------------------ reset_ooo_mgrs *)
Definition reset_step (o : string -> img) (c : string * string * N) : string -> img :=
  let '(field, fn, lanes) := c in fun f => if String.eqb f field then reset_image fn lanes (o f) else o f.

Lemma reset_ooo_mgrs_fold v o : reset_ooo_mgrs v o = fold_left reset_step (v_resets v) o.
Proof. reflexivity. Qed.

Definition agree_fields (S : list string) (o1 o2 : string -> img) : Prop :=
  forall field, In field S -> agree_on (in_range 0 (rb_off_of field)) (o1 field) (o2 field).

Lemma reset_fold_agree l : forall S o1 o2,
  agree_fields S o1 o2 -> forallb starts_full l = true ->
  agree_fields (S ++ map (fun c => fst (fst c)) l) (fold_left reset_step l o1) (fold_left reset_step l o2).
Proof.
  induction l as [|c l IH]; intros S o1 o2 HS Hl; cbn [fold_left map].
  - rewrite app_nil_r. exact HS.
  - cbn [forallb] in Hl. apply andb_true_iff in Hl. destruct Hl as [Hc Hl].
    replace (S ++ fst (fst c) :: map (fun c0 => fst (fst c0)) l)
      with ((S ++ [fst (fst c)]) ++ map (fun c0 => fst (fst c0)) l) by (rewrite <- app_assoc; reflexivity).
    apply IH; [|exact Hl].
    destruct c as [[field fn] lanes]. cbn [fst]. intros x Hx. unfold reset_step.
    destruct (String.eqb x field) eqn:E.
    + apply String.eqb_eq in E. subst x. apply starts_full_constant. exact Hc.
    + apply in_app_or in Hx. destruct Hx as [Hx|[Hx|[]]]; [apply HS; exact Hx|].
      subst x. rewrite String.eqb_refl in E. discriminate.
Qed.

Lemma reset_ooo_mgrs_constant v o1 o2 :
  forallb starts_full (v_resets v) = true ->
  agree_fields (reset_fields v) (reset_ooo_mgrs v o1) (reset_ooo_mgrs v o2).
Proof.
  intros H. rewrite !reset_ooo_mgrs_fold. unfold reset_fields.
  apply (reset_fold_agree (v_resets v) [] o1 o2); [intros x []|exact H].
Qed.

(* ------------------------------------------------------------------ ring assignments *)
Definition assigned (name : string) (l : list (string * Z)) (acc : option Z) : option Z :=
  fold_left (fun acc a => if String.eqb (fst a) name then Some (snd a) else acc) l acc.

Lemma ring_assign_next l : forall r acc,
  (match acc with Some v => next r = v | None => True end) ->
  match assigned "next_job" l acc with Some v => next (fold_left ring_assign l r) = v | None => True end.
Proof.
  induction l as [|a l IH]; intros r acc H; cbn [fold_left assigned]; [exact H|].
  apply IH. unfold ring_assign. destruct (String.eqb (fst a) "next_job"); [reflexivity|].
  destruct (String.eqb (fst a) "earliest_job"); exact H.
Qed.

(* the order of the tests in ring_assign: "next_job" first, so an "earliest_job" entry never hits the first branch *)
Lemma ring_assign_earliest l : forall r acc,
  (match acc with Some v => earliest r = v | None => True end) ->
  match assigned "earliest_job" l acc with Some v => earliest (fold_left ring_assign l r) = v | None => True end.
Proof.
  induction l as [|a l IH]; intros r acc H; cbn [fold_left assigned]; [exact H|].
  apply IH. unfold ring_assign.
  destruct (String.eqb (fst a) "earliest_job") eqn:E.
  - apply String.eqb_eq in E. rewrite E. cbn. reflexivity.
  - destruct (String.eqb (fst a) "next_job"); exact H.
Qed.

Lemma ring_assign_errno l : forall r, errno (fold_left ring_assign l r) = errno r.
Proof.
  induction l as [|a l IH]; intros r; cbn [fold_left]; [reflexivity|].
  rewrite IH. unfold ring_assign. destruct (String.eqb (fst a) "next_job"); [reflexivity|].
  destruct (String.eqb (fst a) "earliest_job"); reflexivity.
Qed.

Definition ring_reset_ok (v : variant) : bool :=
  match assigned "next_job" (v_ring_reset v) None, assigned "earliest_job" (v_ring_reset v) None with
  | Some n, Some e => (n =? 0)%Z && (e =? -1)%Z
  | _, _ => false
  end.

Lemma ring_reset_ok_spec v r : ring_reset_ok v = true ->
  next (fold_left ring_assign (v_ring_reset v) r) = 0%Z /\
  earliest (fold_left ring_assign (v_ring_reset v) r) = (-1)%Z.
Proof.
  unfold ring_reset_ok. intros H.
  pose proof (ring_assign_next (v_ring_reset v) r None I) as Hn.
  pose proof (ring_assign_earliest (v_ring_reset v) r None I) as He.
  destruct (assigned "next_job" (v_ring_reset v) None) as [n|]; [|discriminate].
  destruct (assigned "earliest_job" (v_ring_reset v) None) as [e|]; [|discriminate].
  apply andb_true_iff in H. destruct H as [H1 H2]. apply Z.eqb_eq in H1, H2. subst. auto.
Qed.

(* ------------------------------------------------------------------ CPU-flag masks *)
Lemma has_flags_sub f m r : has_flags f m = true -> has_flags m r = true -> has_flags f r = true.
Proof.
  unfold has_flags. intros H1 H2. apply N.eqb_eq in H1, H2. apply N.eqb_eq.
  rewrite <- H2 at 1. rewrite N.land_assoc, H1. exact H2.
Qed.

(* every tier a ladder can select requires no more than the test that selects it *)
Definition variant_req (name : string) : N := match find_variant name with Some v => v_req v | None => 0 end.

Definition ladder_ok (a : arch_init) : bool :=
  forallb (fun p => has_flags (fst p) (variant_req (snd p)) &&
                    match find_variant (snd p) with Some _ => true | None => false end) (ai_ladder a) &&
  has_flags (ai_req a) (variant_req (ai_default a)) &&
  match find_variant (ai_default a) with Some _ => true | None => false end.

Lemma select_tier_req a features :
  ladder_ok a = true -> has_flags features (ai_req a) = true ->
  exists v, find_variant (select_tier a features) = Some v /\ has_flags features (v_req v) = true.
Proof.
  unfold ladder_ok, select_tier. intros H Hreq.
  apply andb_true_iff in H. destruct H as [H Hd]. apply andb_true_iff in H. destruct H as [Hl Hdr].
  destruct (find (fun p => has_flags features (fst p)) (ai_ladder a)) as [p|] eqn:E.
  - apply find_some in E. destruct E as [Hin Hp]. rewrite forallb_forall in Hl. specialize (Hl p Hin).
    apply andb_true_iff in Hl. destruct Hl as [Hsub Hex].
    unfold variant_req in Hsub. destruct (find_variant (snd p)) as [v|]; [|discriminate].
    exists v. split; [reflexivity|]. eapply has_flags_sub; eassumption.
  - unfold variant_req in Hdr. destruct (find_variant (ai_default a)) as [v|]; [|discriminate].
    exists v. split; [reflexivity|]. eapply has_flags_sub; eassumption.
Qed.

(* ------------------------------------------------------------------ init_mb_mgr_<arch>_internal(state, 1) *)
Definition arch_steps_ok (a : arch_init) : bool :=
  match ai_steps a with
  | [AFeatures; AErrno0; ALadder] => true
  | [AErrno0; AFeatures; ALadder] => true
  | _ => false
  end.

Definition variant_ok (v : variant) : bool :=
  v_calls_reset_ooo v && ring_reset_ok v && forallb starts_full (v_resets v).

(* the state right before the ladder, in both statement orders *)
Definition pre_ladder (cpu : N) (s : mgr) : mgr :=
  with_features (feature_adjust (m_flags s) cpu) (mgr_errno 0%Z s).

Lemma arch_init_shape cpu a reset s :
  arch_steps_ok a = true -> has_flags (m_features s) (ai_req a) = true ->
  exists s', arch_init_run cpu a reset s = arch_step_run cpu a reset s' ALadder /\
             m_features s' = feature_adjust (m_flags s) cpu /\ m_flags s' = m_flags s /\
             errno (m_ring s') = 0%Z /\ earliest (m_ring s') = earliest (m_ring s) /\ next (m_ring s') = next (m_ring s) /\
             stat (m_ring s') = stat (m_ring s) /\ cont (m_ring s') = cont (m_ring s) /\
             m_ooo s' = m_ooo s /\ m_ptrs s' = m_ptrs s /\ m_arch s' = m_arch s /\ m_arch_type s' = m_arch_type s /\
             m_bound s' = m_bound s /\ m_ring s' = set_errno 0%Z (m_ring s).
Proof.
  unfold arch_steps_ok, arch_init_run. intros Hst Hreq. rewrite Hreq. cbn [negb].
  destruct (ai_steps a) as [|x1 l1]; [discriminate|].
  destruct l1 as [|x2 l2]; [destruct x1; discriminate|].
  destruct l2 as [|x3 l3]; [destruct x1, x2; discriminate|].
  destruct l3 as [|x4 l4]; [|destruct x1, x2, x3; discriminate].
  destruct x1, x2, x3; try discriminate; cbn [fold_left arch_step_run].
  - eexists. split; [reflexivity|]. cbn. repeat split; reflexivity.
  - eexists. split; [reflexivity|]. cbn. repeat split; reflexivity.
Qed.

Lemma tier_init_reset_sched v s1 s2 :
  variant_ok v = true ->
  has_flags (m_features s1) (v_req v) = true ->
  m_features s1 = m_features s2 -> m_flags s1 = m_flags s2 -> errno (m_ring s1) = errno (m_ring s2) ->
  sched_eq v (tier_init v true s1) (tier_init v true s2).
Proof.
  unfold variant_ok. intros Hok Hreq Hf Hfl He.
  apply andb_true_iff in Hok. destruct Hok as [Hok Hfull]. apply andb_true_iff in Hok. destruct Hok as [Hcall Hring].
  unfold tier_init. rewrite <- Hf, Hreq, Hcall. cbn [negb].
  destruct (ring_reset_ok_spec v (m_ring s1) Hring) as [Hn1 He1].
  destruct (ring_reset_ok_spec v (m_ring s2) Hring) as [Hn2 He2].
  unfold sched_eq. cbn.
  rewrite He1, He2, Hn1, Hn2, !ring_assign_errno.
  repeat split; auto.
  intros field Hin. apply (reset_ooo_mgrs_constant v (m_ooo s1) (m_ooo s2) Hfull field Hin).
Qed.

(* re-initialising with reset: the scheduling state does not depend on the state before *)
Lemma reinit_internal_constant cpu a s1 s2 :
  arch_steps_ok a = true -> ladder_ok a = true ->
  forallb variant_ok variants = true ->
  m_flags s1 = m_flags s2 ->
  has_flags (m_features s1) (ai_req a) = true -> has_flags (m_features s2) (ai_req a) = true ->
  has_flags (feature_adjust (m_flags s1) cpu) (ai_req a) = true ->
  exists v, find_variant (variant_for cpu (m_flags s1) a) = Some v /\
            sched_eq v (arch_init_run cpu a true s1) (arch_init_run cpu a true s2) /\
            m_bound (arch_init_run cpu a true s1) = Some (v_name v) /\
            earliest (m_ring (arch_init_run cpu a true s1)) = (-1)%Z /\
            next (m_ring (arch_init_run cpu a true s1)) = 0%Z /\
            errno (m_ring (arch_init_run cpu a true s1)) = 0%Z.
Proof.
  intros Hst Hlad Hvars Hfl Hr1 Hr2 Hcpu.
  destruct (arch_init_shape cpu a true s1 Hst Hr1) as (p1 & E1 & F1 & L1 & N1 & _).
  destruct (arch_init_shape cpu a true s2 Hst Hr2) as (p2 & E2 & F2 & L2 & N2 & _).
  rewrite E1, E2. cbn [arch_step_run]. rewrite F1, F2, <- Hfl.
  destruct (select_tier_req a (feature_adjust (m_flags s1) cpu) Hlad Hcpu) as (v & Hv & Hvr).
  unfold variant_for. rewrite Hv. exists v. split; [reflexivity|].
  assert (Hvok : variant_ok v = true).
  { rewrite forallb_forall in Hvars. apply Hvars. unfold find_variant in Hv. apply find_some in Hv. tauto. }
  split.
  - apply tier_init_reset_sched; auto; try congruence; rewrite F1; exact Hvr.
  - unfold variant_ok in Hvok. apply andb_true_iff in Hvok. destruct Hvok as [Hvok _].
    apply andb_true_iff in Hvok. destruct Hvok as [Hcall Hring].
    unfold tier_init. rewrite F1, Hvr, Hcall. cbn [negb]. cbn.
    destruct (ring_reset_ok_spec v (m_ring p1) Hring) as [Hn He].
    rewrite ring_assign_errno. auto.
Qed.

(* ------------------------------------------------------------------ finite facts about the current tree *)
Fixpoint nodupb (l : list string) : bool :=
  match l with [] => true | x :: t => negb (existsb (String.eqb x) t) && nodupb t end.

Definition mem (x : string) (l : list string) : bool := existsb (String.eqb x) l.

Lemma mem_In x l : mem x l = true <-> In x l.
Proof.
  unfold mem. rewrite existsb_exists. split.
  - intros (y & Hy & E). apply String.eqb_eq in E. subst. exact Hy.
  - intros H. exists x. split; [exact H|apply String.eqb_refl].
Qed.

Lemma nodupb_NoDup l : nodupb l = true -> NoDup l.
Proof.
  induction l as [|x t IH]; cbn; intros H; [constructor|].
  apply andb_true_iff in H. destruct H as [H1 H2]. constructor; [|auto].
  intros Hin. apply mem_In in Hin. unfold mem in Hin. rewrite Hin in H1. discriminate.
Qed.

Definition table_fields : list string := map oe_field ooo_mgr_table.

(* number of lanes the struct has room for: first array level of job_in_lane / ldata[].job_in_lane *)
Definition lane_capacity (stype : string) : N :=
  match leaf_of stype "job_in_lane", leaf_of stype "ldata[].job_in_lane" with
  | Some l, _ | None, Some l => match l_dims l with (n, _) :: _ => n | [] => 0 end
  | None, None => 0
  end.

Definition stack_ok (fn : string) (lanes : N) : bool :=
  match unused_lanes_after fn lanes with
  | Some c => valid_stack 4 lanes c || valid_stack 8 lanes c
  | None => false
  end.

(* one reset call of a variant is well formed *)
Definition reset_call_ok (v : variant) (c : string * string * N) : bool :=
  let '(field, fn, lanes) := c in
  match table_entry field, find_reset_fn fn with
  | Some e, Some r =>
      String.eqb (rf_struct r) (oe_struct e) &&           (* the function resets the struct type allocated for the field *)
      (1 <=? lanes) && (lanes <=? lane_capacity (oe_struct e)) &&
      starts_full c &&                                      (* memset(p, 0, offsetof(T, road_block)) comes first *)
      (stack_ok fn lanes || negb (mem field (v_used v)))    (* a manager the variant schedules on gets a valid lane stack *)
  | _, _ => false
  end.

Definition covers_ok (v : variant) : bool :=
  nodupb (reset_fields v) &&
  forallb (reset_call_ok v) (v_resets v) &&
  forallb (fun u => mem u (reset_fields v)) (v_used v) &&
  forallb (fun u => mem u table_fields) (v_used v).

Lemma covers_all : forallb covers_ok variants = true.
Proof. vm_compute. reflexivity. Qed.

Lemma variants_ok_all : forallb variant_ok variants = true.
Proof. vm_compute. reflexivity. Qed.

Lemma arch_ok_all : forallb (fun a => arch_steps_ok a && ladder_ok a) arch_inits = true.
Proof. vm_compute. reflexivity. Qed.

Lemma table_nodup : nodupb table_fields = true.
Proof. vm_compute. reflexivity. Qed.

(* the theorem statements of Props/Properties_C15.v *)

Theorem reset_covers_every_manager_thm : forall v, In v variants ->
  NoDup (reset_fields v) /\
  (forall field, In field (v_used v) -> In field (reset_fields v) /\ In field table_fields) /\
  (forall field fn lanes, In (field, fn, lanes) (v_resets v) ->
     exists e r, table_entry field = Some e /\ find_reset_fn fn = Some r /\ rf_struct r = oe_struct e /\
                 1 <= lanes <= lane_capacity (oe_struct e) /\
                 (forall f g, agree_on (in_range 0 (oe_rb_off e)) (reset_image fn lanes f) (reset_image fn lanes g))).
Proof.
  intros v Hv. pose proof covers_all as H. rewrite forallb_forall in H. specialize (H v Hv).
  unfold covers_ok in H. repeat (apply andb_true_iff in H; destruct H as [H ?]).
  split; [apply nodupb_NoDup; assumption|]. split.
  - intros field Hf. split.
    + rewrite forallb_forall in H1. apply mem_In. apply H1. exact Hf.
    + rewrite forallb_forall in H0. apply mem_In. apply H0. exact Hf.
  - intros field fn lanes Hin. rewrite forallb_forall in H2. specialize (H2 _ Hin). unfold reset_call_ok in H2.
    destruct (table_entry field) as [e|] eqn:Ee; [|discriminate].
    destruct (find_reset_fn fn) as [r|] eqn:Er; [|discriminate].
    repeat (apply andb_true_iff in H2; destruct H2 as [H2 ?]).
    exists e, r. repeat split; auto.
    + apply String.eqb_eq. assumption.
    + apply N.leb_le. assumption.
    + apply N.leb_le. assumption.
    + intros f g. pose proof (starts_full_constant field fn lanes f g H4) as Hc.
      unfold rb_off_of in Hc. rewrite Ee in Hc. exact Hc.
Qed.

Theorem unused_lanes_constant_is_valid_stack_thm : forall v field fn lanes,
  In v variants -> In (field, fn, lanes) (v_resets v) -> In field (v_used v) ->
  exists c, unused_lanes_after fn lanes = Some c /\ (valid_stack 4 lanes c = true \/ valid_stack 8 lanes c = true).
Proof.
  intros v field fn lanes Hv Hin Hu. pose proof covers_all as H. rewrite forallb_forall in H. specialize (H v Hv).
  unfold covers_ok in H. repeat (apply andb_true_iff in H; destruct H as [H ?]).
  rewrite forallb_forall in H2. specialize (H2 _ Hin). unfold reset_call_ok in H2.
  destruct (table_entry field); [|discriminate]. destruct (find_reset_fn fn); [|discriminate].
  repeat (apply andb_true_iff in H2; destruct H2 as [H2 ?]).
  apply mem_In in Hu. rewrite Hu in H3. cbn [negb] in H3. rewrite orb_false_r in H3.
  unfold stack_ok in H3. destruct (unused_lanes_after fn lanes) as [c|]; [|discriminate].
  exists c. split; [reflexivity|]. apply orb_true_iff. exact H3.
Qed.

Theorem reinit_is_constant_thm : forall cpu a s1 s2,
  In a arch_inits ->
  m_flags s1 = m_flags s2 ->
  has_flags (m_features s1) (ai_req a) = true -> has_flags (m_features s2) (ai_req a) = true ->
  has_flags (feature_adjust (m_flags s1) cpu) (ai_req a) = true ->
  exists v, find_variant (variant_for cpu (m_flags s1) a) = Some v /\
            sched_eq v (arch_init_run cpu a true s1) (arch_init_run cpu a true s2) /\
            m_bound (arch_init_run cpu a true s1) = Some (v_name v) /\
            earliest (m_ring (arch_init_run cpu a true s1)) = (-1)%Z /\
            next (m_ring (arch_init_run cpu a true s1)) = 0%Z /\
            errno (m_ring (arch_init_run cpu a true s1)) = 0%Z.
Proof.
  intros cpu a s1 s2 Ha. pose proof arch_ok_all as H. rewrite forallb_forall in H. specialize (H a Ha).
  apply andb_true_iff in H. destruct H as [H1 H2].
  apply reinit_internal_constant; auto using variants_ok_all.
Qed.

(* ------------------------------------------------------------------ no residue *)
Section NoResidue.
  (* any machine whose steps are a function of the scheduling state (this is what the byte-image
     comparison and the follow-up trace comparison of checks/c15.py test on the real library) *)
  Variable v : variant.
  Variable op out : Type.
  Variable step : mgr -> op -> mgr * out.
  Hypothesis step_sched : forall s1 s2 o, sched_eq v s1 s2 ->
    snd (step s1 o) = snd (step s2 o) /\ sched_eq v (fst (step s1 o)) (fst (step s2 o)).

  Fixpoint runm (s : mgr) (ops : list op) : list out :=
    match ops with [] => [] | o :: t => snd (step s o) :: runm (fst (step s o)) t end.

  Lemma sched_eq_run ops : forall s1 s2, sched_eq v s1 s2 -> runm s1 ops = runm s2 ops.
  Proof.
    induction ops as [|o t IH]; intros s1 s2 H; cbn; [reflexivity|].
    destruct (step_sched s1 s2 o H) as [Ho Hs]. rewrite Ho. f_equal. apply IH. exact Hs.
  Qed.
End NoResidue.

Theorem no_residue_thm :
  forall (op out : Type) (selftest : mgr -> mgr) cpu a s fresh v,
  In a arch_inits ->
  m_flags s = m_flags fresh ->
  has_flags (m_features s) (ai_req a) = true -> has_flags (m_features fresh) (ai_req a) = true ->
  has_flags (feature_adjust (m_flags s) cpu) (ai_req a) = true ->
  find_variant (variant_for cpu (m_flags s) a) = Some v ->
  forall (step : mgr -> op -> mgr * out),
  (forall s1 s2, sched_eq v s1 s2 -> sched_eq v (selftest s1) (selftest s2)) ->
  (forall s1 s2 o, sched_eq v s1 s2 -> snd (step s1 o) = snd (step s2 o) /\ sched_eq v (fst (step s1 o)) (fst (step s2 o))) ->
  forall ops, runm op out step (init_public selftest cpu a s) ops = runm op out step (init_public selftest cpu a fresh) ops.
Proof.
  intros op out selftest cpu a s fresh v Ha Hfl Hr1 Hr2 Hcpu Hv step Hself Hstep ops.
  destruct (reinit_is_constant_thm cpu a s fresh Ha Hfl Hr1 Hr2 Hcpu) as (v' & Hv' & Hs & _ & _ & _ & He1).
  rewrite Hv in Hv'. inversion Hv'; subst v'.
  assert (He2 : errno (m_ring (arch_init_run cpu a true fresh)) = 0%Z) by (destruct Hs as (_ & _ & E & _); congruence).
  apply (sched_eq_run v op out step Hstep). unfold init_public. rewrite He1, He2. cbn [Z.eqb negb andb].
  rewrite andb_false_r. apply Hself. exact Hs.
Qed.

(* after re-initialisation the ring is an empty ring at slot 0: every C05 theorem
   (Props/Properties_C05.v: FIFO order, exactly-once, exact queue size, flush progress) applies to
   whatever follows, whatever the slots still contain *)
Theorem reinit_ring_empty_thm : forall cpu a s,
  In a arch_inits ->
  has_flags (m_features s) (ai_req a) = true ->
  has_flags (feature_adjust (m_flags s) cpu) (ai_req a) = true ->
  earliest (m_ring (arch_init_run cpu a true s)) = (-1)%Z /\ next (m_ring (arch_init_run cpu a true s)) = 0%Z /\
  queue_sz SIZEOF_IMB_JOB IMB_MAX_JOBS (m_ring (arch_init_run cpu a true s)) = 0%Z.
Proof.
  intros cpu a s Ha Hr Hcpu.
  destruct (reinit_is_constant_thm cpu a s s Ha eq_refl Hr Hr Hcpu) as (v & _ & _ & _ & He & Hn & _).
  split; [exact He|]. split; [exact Hn|]. unfold queue_sz. rewrite He. reflexivity.
Qed.
