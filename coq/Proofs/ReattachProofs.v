(* Proofs/ReattachProofs.v — lemmas for property C16 (Mgr/Reattach.v), on top of the ring theorems of
   Proofs/RingProofs.v (property C05). *)
From Coq Require Import NArith ZArith List String Bool Lia.
From IMB Require Import Gen.GenConsts Gen.GenLayout Gen.GenReset Mgr.Ring Mgr.Reset Mgr.Reattach
                        Proofs.RingArith Proofs.RingProofs Proofs.ResetProofs.
Import ListNotations.
Local Open Scope N_scope.
Local Notation length := List.length.

Arguments table_entry : simpl never.
Arguments ptr_offset : simpl never.
Arguments feature_adjust : simpl never.
Arguments find_arch : simpl never.
Arguments find_variant : simpl never.
Arguments select_tier : simpl never.
Arguments reset_ooo_mgrs : simpl never.

(* ------------------------------------------------------------------ what a step leaves alone *)
(* [keeps s s']: ring indices, every slot, every OOO image below and above its road block are the
   same; only the error code, flags/features, bound handlers, pointers and road blocks may differ *)
Definition outside_rb (field : string) (a : N) : bool :=
  match table_entry field with Some e => negb (in_range (oe_rb_off e) 8 a) | None => true end.

Definition keeps (s s' : mgr) : Prop :=
  (exists e, m_ring s' = set_errno e (m_ring s)) /\
  (forall field, agree_on (outside_rb field) (m_ooo s' field) (m_ooo s field)).

Lemma keeps_refl s : keeps s s.
Proof.
  split; [exists (errno (m_ring s)); destruct (m_ring s); reflexivity|]. intros f a _. reflexivity.
Qed.

Lemma keeps_trans s1 s2 s3 : keeps s1 s2 -> keeps s2 s3 -> keeps s1 s3.
Proof.
  intros [[e1 H1] O1] [[e2 H2] O2]. split.
  - exists e2. rewrite H2, H1. reflexivity.
  - intros f a Ha. rewrite (O2 f a Ha). apply O1. exact Ha.
Qed.

Lemma keeps_errno e s : keeps s (mgr_errno e s).
Proof. split; [exists e; reflexivity|]. intros f a _. reflexivity. Qed.

Lemma tier_init_noreset_keeps v s : keeps s (tier_init v false s).
Proof.
  unfold tier_init. destruct (negb (has_flags (m_features s) (v_req v))); [apply keeps_errno|].
  split; [exists (errno (m_ring s)); cbn; destruct (m_ring s); reflexivity|]. intros f a _. reflexivity.
Qed.

Lemma arch_init_noreset_keeps cpu a s : arch_steps_ok a = true -> keeps s (arch_init_run cpu a false s).
Proof.
  intros Hst. destruct (has_flags (m_features s) (ai_req a)) eqn:Hreq.
  - destruct (arch_init_shape cpu a false s Hst Hreq) as (p & E & _ & _ & _ & _ & _ & _ & _ & Ho & _ & _ & _ & _ & Hr).
    rewrite E. cbn [arch_step_run].
    assert (Hp : keeps s p).
    { split; [exists 0%Z; exact Hr|]. intros f a0 _. rewrite Ho. reflexivity. }
    destruct (find_variant (select_tier a (m_features p))) as [v|]; [|exact Hp].
    eapply keeps_trans; [exact Hp|apply tier_init_noreset_keeps].
  - unfold arch_init_run. rewrite Hreq. cbn [negb]. apply keeps_errno.
Qed.

(* the road-block store touches only the 8 bytes of the road block *)
Lemma store_prims_outside off w : forall k v f a,
  (forall j, (k <= j < k + N.of_nat w) -> a <> off + j) ->
  run_prims (store_prims off w k v) f a = f a.
Proof.
  induction w as [|w IH]; intros k v f a H; [reflexivity|].
  cbn [store_prims]. unfold run_prims. cbn [fold_left]. fold (run_prims (store_prims off w (k + 1) v) (apply_prim (PFill (off + k) 1 (byte_of v k)) f)).
  rewrite IH.
  - cbn. unfold in_range. specialize (H k). destruct (off + k <=? a) eqn:E1; [|reflexivity].
    destruct (a <? off + k + 1) eqn:E2; [|reflexivity].
    apply N.leb_le in E1. apply N.ltb_lt in E2. exfalso. apply H; lia.
  - intros j Hj. apply H. lia.
Qed.

Definition step_noreset_ok (st : sp_step) : bool :=
  match st with
  | SpIfReset cases => forallb (fun c => (snd c =? 0) &&
                                        match find_arch (snd (fst c)) with Some a => arch_steps_ok a | None => false end) cases
  | _ => true
  end.

Lemma sp_run_keeps cpu flags base s st : step_noreset_ok st = true -> keeps s (sp_run cpu flags base false s st).
Proof.
  intros Hok. destruct st; cbn [sp_run].
  - destruct (find (fun c => fst (fst c) =? m_arch s) cases) as [[[id name] k]|] eqn:E; [|apply keeps_refl].
    apply find_some in E. destruct E as [Hin _]. cbn [step_noreset_ok] in Hok. rewrite forallb_forall in Hok.
    specialize (Hok _ Hin). cbn [fst snd] in Hok. apply andb_true_iff in Hok. destruct Hok as [Hk Ha].
    destruct (find_arch name) as [a|]; [|discriminate]. rewrite Hk. cbn [negb]. apply arch_init_noreset_keeps. exact Ha.
  - apply keeps_errno.
  - split; [exists (errno (m_ring s)); cbn; destruct (m_ring s); reflexivity|]. intros f a _. reflexivity.
  - split; [exists (errno (m_ring s)); cbn; destruct (m_ring s); reflexivity|]. intros f a _. reflexivity.
  - split; [exists (errno (m_ring s)); cbn; destruct (m_ring s); reflexivity|]. intros f a _. reflexivity.
  - split; [exists (errno (m_ring s)); cbn; destruct (m_ring s); reflexivity|].
    intros f a Ha. cbn [sp_run with_ooo m_ooo]. unfold outside_rb in Ha. destruct (table_entry f) as [e|]; [|reflexivity].
    apply store_prims_outside. intros j Hj Heq. apply negb_true_iff in Ha. unfold in_range in Ha.
    apply andb_false_iff in Ha. destruct Ha as [Ha|Ha]; [apply N.leb_gt in Ha|apply N.ltb_ge in Ha]; cbn in Hj; lia.
Qed.

Lemma fold_keeps cpu flags base l : forall s,
  forallb step_noreset_ok l = true -> keeps s (fold_left (sp_run cpu flags base false) l s).
Proof.
  induction l as [|st l IH]; intros s H; cbn [fold_left]; [apply keeps_refl|].
  cbn [forallb] in H. apply andb_true_iff in H. destruct H as [H1 H2].
  eapply keeps_trans; [apply sp_run_keeps; exact H1|apply IH; exact H2].
Qed.

Lemma steps_noreset_ok : forallb step_noreset_ok set_pointers_steps = true.
Proof. vm_compute. reflexivity. Qed.

(* the statement order of imb_set_pointers_mb_mgr() in the current tree *)
Lemma steps_shape : exists cs, set_pointers_steps = [SpIfReset cs; SpErrno0; SpFlags; SpFeatures; SpPtrs; SpRoadBlocks].
Proof. eexists. reflexivity. Qed.

(* road block bytes are not scheduling state: [0, rb_off) is outside the road block *)
Lemma below_rb_outside field a : in_range 0 (rb_off_of field) a = true -> outside_rb field a = true.
Proof.
  unfold rb_off_of, outside_rb, in_range. destruct (table_entry field) as [e|]; [|reflexivity].
  intros H. apply andb_true_iff in H. destruct H as [_ H]. apply N.ltb_lt in H.
  apply negb_true_iff. apply andb_false_iff. left. apply N.leb_gt. lia.
Qed.

Theorem reattach_preserves_scheduling_state_thm : forall cpu flags base s,
  m_ring (reattach cpu flags base s) = set_errno 0%Z (m_ring s) /\
  (forall field, agree_on (outside_rb field) (m_ooo (reattach cpu flags base s) field) (m_ooo s field)) /\
  (forall field, agree_on (in_range 0 (rb_off_of field)) (m_ooo (reattach cpu flags base s) field) (m_ooo s field)).
Proof.
  intros cpu flags base s.
  pose proof (fold_keeps cpu flags base set_pointers_steps s steps_noreset_ok) as [[e He] Ho].
  fold (set_pointers cpu flags base false s) in He, Ho. fold (reattach cpu flags base s) in He, Ho.
  assert (Hz : errno (m_ring (reattach cpu flags base s)) = 0%Z).
  { unfold reattach, set_pointers. destruct steps_shape as [cs ->]. cbn [fold_left]. reflexivity. }
  split.
  - rewrite He in *. cbn in Hz. subst e. reflexivity.
  - split; [exact Ho|]. intros f a Ha. apply Ho. apply below_rb_outside. exact Ha.
Qed.

(* ------------------------------------------------------------------ pointers *)
Theorem reattach_pointers_same_base_thm : forall cpu flags flags' base s garbage field,
  m_ptrs (reattach cpu flags base s) field =
  match ptr_offset field with Some o => base + o | None => m_ptrs s field end /\
  (ptr_offset field <> None ->
   m_ptrs (reattach cpu flags base s) field = m_ptrs (alloc cpu flags' base garbage) field).
Proof.
  intros. unfold reattach, alloc, set_pointers. destruct steps_shape as [cs ->]. cbn [fold_left].
  split.
  - cbn. destruct (ptr_offset field); [reflexivity|].
    (* fields outside the table keep whatever the earlier steps left: those steps do not write pointers *)
    cbn [sp_run]. destruct (find (fun c => fst (fst c) =? m_arch s) cs) as [[[id name] k]|]; [|reflexivity].
    destruct (find_arch name) as [a|]; [|reflexivity].
    unfold arch_init_run. destruct (negb (has_flags (m_features s) (ai_req a))); [reflexivity|].
    generalize (ai_steps a). intros l. revert s. induction l as [|st l IH]; intros s; cbn [fold_left]; [reflexivity|].
    rewrite IH. destruct st; cbn [arch_step_run]; try reflexivity.
    destruct (find_variant (select_tier a (m_features s))) as [v|]; [|reflexivity].
    unfold tier_init. destruct (negb (has_flags (m_features s) (v_req v))); [reflexivity|].
    destruct (negb (k =? 0)); [|reflexivity]. destruct (v_calls_reset_ooo v); reflexivity.
  - intros Hp. cbn. destruct (ptr_offset field); [reflexivity|congruence].
Qed.

(* the pointer layout: every manager lies inside the block, 64-byte aligned relative to the base,
   after the IMB_MGR structure, and no two overlap *)
Definition layout_entry_ok (p : string * N) : bool :=
  match table_entry (fst p) with
  | Some e => (first_ooo_off <=? snd p) && (snd p + oe_asize e <=? mb_mgr_size) &&
              (snd p mod 64 =? 0) && (SIZEOF_IMB_MGR_N <=? snd p) && (oe_rb_off e + 8 <=? oe_asize e)
  | None => false
  end.

Fixpoint disjoint_sorted (l : list (string * N)) : bool :=
  match l with
  | p :: ((q :: _) as t) =>
      match table_entry (fst p) with Some e => (snd p + oe_asize e <=? snd q) | None => false end && disjoint_sorted t
  | _ => true
  end.

Lemma pointer_layout_ok :
  forallb layout_entry_ok ooo_offsets = true /\ disjoint_sorted ooo_offsets = true /\
  map fst ooo_offsets = table_fields /\ nodupb table_fields = true.
Proof. vm_compute. repeat split; reflexivity. Qed.

(* ------------------------------------------------------------------ handlers *)
Definition arch_id (a : arch_init) : N := match find_variant (ai_default a) with Some v => v_arch v | None => 0 end.

Definition case_ok (a : arch_init) : bool :=
  match find (fun c => fst (fst c) =? arch_id a) switch_cases with
  | Some (_, name, k) => String.eqb name (ai_name a) && (k =? 0)
  | None => false
  end &&
  (* every tier of the arch reports the arch id of the switch *)
  forallb (fun p => match find_variant (snd p) with Some v => v_arch v =? arch_id a | None => false end) (ai_ladder a) &&
  negb (arch_id a =? 0).

Lemma cases_ok : forallb (fun a => case_ok a && match find_arch (ai_name a) with Some a' => String.eqb (ai_name a') (ai_name a) && (ai_req a' =? ai_req a) && arch_steps_ok a' && ladder_ok a' | None => false end) arch_inits = true.
Proof. vm_compute. reflexivity. Qed.

Definition mgr_fnptrs : list string :=
  map l_path (filter (fun l => match l_kind l with KFnPtr => true | _ => false end) (r_leaves layout_IMB_MGR)).

Lemma handlers_complete : forallb (fun v => forallb (fun f => mem f (v_bound v) || mem f user_fnptrs) mgr_fnptrs) variants = true.
Proof. vm_compute. reflexivity. Qed.

Lemma find_arch_self a : In a arch_inits -> NoDup (map ai_name arch_inits) -> find_arch (ai_name a) = Some a.
Proof.
  unfold find_arch. induction arch_inits as [|x l IH]; intros Hin Hnd; [destruct Hin|].
  cbn [find]. destruct Hin as [->|Hin]; [rewrite String.eqb_refl; reflexivity|].
  inversion Hnd; subst. destruct (String.eqb (ai_name x) (ai_name a)) eqn:E.
  - apply String.eqb_eq in E. exfalso. apply H1. rewrite E. apply in_map. exact Hin.
  - apply IH; assumption.
Qed.

Lemma arch_names_nodup : NoDup (map ai_name arch_inits).
Proof. apply nodupb_NoDup. vm_compute. reflexivity. Qed.

(* re-attaching binds the handlers of the variant selected by used_arch and by the flags STORED IN
   THE BLOCK (init_*_internal runs before ptr->flags is overwritten) *)
Theorem reattach_rebinds_handlers_thm : forall cpu flags base s a,
  In a arch_inits -> m_arch s = arch_id a ->
  has_flags (m_features s) (ai_req a) = true ->
  has_flags (feature_adjust (m_flags s) cpu) (ai_req a) = true ->
  m_bound (reattach cpu flags base s) = Some (variant_for cpu (m_flags s) a) /\
  m_arch (reattach cpu flags base s) = m_arch s.
Proof.
  intros cpu flags base s a Ha Harch Hreq Hcpu.
  pose proof cases_ok as H. rewrite forallb_forall in H. specialize (H a Ha).
  apply andb_true_iff in H. destruct H as [Hc _].
  pose proof arch_ok_all as H2. rewrite forallb_forall in H2. specialize (H2 a Ha).
  apply andb_true_iff in H2. destruct H2 as [Hst Hlad].
  unfold case_ok in Hc. apply andb_true_iff in Hc. destruct Hc as [Hc Hne]. apply andb_true_iff in Hc. destruct Hc as [Hc Htiers].
  unfold reattach, set_pointers. unfold switch_cases in Hc. destruct steps_shape as [cs Hs]. rewrite Hs in *.
  cbn [flat_map app] in Hc. rewrite app_nil_r in Hc. cbn [fold_left].
  cbn [sp_run]. rewrite Harch.
  destruct (find (fun c => fst (fst c) =? arch_id a) cs) as [[[id name] k]|]; [|discriminate].
  apply andb_true_iff in Hc. destruct Hc as [Hn Hk]. apply String.eqb_eq in Hn. subst name.
  rewrite (find_arch_self a Ha arch_names_nodup). rewrite Hk. cbn [negb].
  destruct (arch_init_shape cpu a false s Hst Hreq) as (p & E & F & _ & _ & _ & _ & _ & _ & _ & _ & Hpa & _).
  rewrite E. cbn [arch_step_run]. rewrite F.
  destruct (select_tier_req a (feature_adjust (m_flags s) cpu) Hlad Hcpu) as (v & Hv & Hvr).
  rewrite Hv. unfold tier_init. rewrite F, Hvr. cbn [negb]. cbn.
  unfold variant_for. split.
  - f_equal. unfold find_variant in Hv. apply find_some in Hv. destruct Hv as [_ Hv]. apply String.eqb_eq in Hv. exact Hv.
  - (* the variant's arch id is the one of the switch case *)
    unfold select_tier in Hv.
    destruct (find (fun p0 => has_flags (feature_adjust (m_flags s) cpu) (fst p0)) (ai_ladder a)) as [q|] eqn:Eq.
    + apply find_some in Eq. destruct Eq as [Hin _]. rewrite forallb_forall in Htiers. specialize (Htiers q Hin).
      rewrite Hv in Htiers. apply N.eqb_eq in Htiers. congruence.
    + unfold arch_id in *. rewrite Hv in *. congruence.
Qed.

(* ------------------------------------------------------------------ crash, re-attach, flush *)
Local Notation SZ := SIZEOF_IMB_JOB.
Local Notation NJ := IMB_MAX_JOBS.
Local Notation MAXB := IMB_MAX_BURST_SIZE.
Local Open Scope Z_scope.

Lemma sz_pos : 0 < SZ. Proof. reflexivity. Qed.
Lemma k_ge1 : 1 <= 8. Proof. lia. Qed.
Lemma nj_pow2 : NJ = 2 ^ 8. Proof. reflexivity. Qed.

Local Notation trace := (trace SZ NJ MAXB).
Local Notation final := (final SZ NJ MAXB).
Local Notation ops_ok := (ops_ok SZ NJ MAXB).
Local Notation pending_count := (pending_count SZ NJ MAXB).
Local Notation stepr := (stepr SZ NJ MAXB).
Local Notation okr := (okr SZ NJ MAXB).
Local Notation empty_at := (empty_at SZ NJ).

(* every API call begins with imb_set_errno(state, 0): the error code left by re-attachment (or by
   anything else) does not influence what a call does *)
Lemma step3_errno e s o : step3 SZ NJ MAXB (set_errno e s) o = step3 SZ NJ MAXB s o.
Proof. destruct o; reflexivity. Qed.

Lemma op_ok_errno e s o : op_ok SZ NJ MAXB (set_errno e s) o = op_ok SZ NJ MAXB s o.
Proof. unfold op_ok. rewrite step3_errno. destruct o; reflexivity. Qed.

Lemma ops_ok_errno e s ops : ops_ok (set_errno e s) ops = ops_ok s ops.
Proof.
  destruct ops as [|o t]; [reflexivity|]. cbn [Ring.ops_ok]. rewrite op_ok_errno. unfold step. rewrite step3_errno. reflexivity.
Qed.

Lemma trace_errno e s ops : trace (set_errno e s) ops = trace s ops.
Proof.
  destruct ops as [|o t]; [reflexivity|]. cbn [RingProofs.trace]. unfold RingProofs.stepr, step. rewrite step3_errno. reflexivity.
Qed.

Lemma final_errno e s o t : final (set_errno e s) (o :: t) = final s (o :: t).
Proof. cbn [RingProofs.final]. unfold RingProofs.stepr, step. rewrite step3_errno. reflexivity. Qed.

Lemma ops_ok_app s a b : ops_ok s (a ++ b) = ops_ok s a && ops_ok (final s a) b.
Proof.
  revert s. induction a as [|o a IH]; intros s; cbn [app Ring.ops_ok RingProofs.final]; [reflexivity|].
  rewrite IH, andb_assoc. reflexivity.
Qed.

Lemma trace_app s a b : trace s (a ++ b) = trace s a ++ trace (final s a) b.
Proof.
  revert s. induction a as [|o a IH]; intros s; cbn [app RingProofs.trace RingProofs.final]; [reflexivity|].
  unfold RingProofs.stepr. destruct (step SZ NJ MAXB s o) as [s1 r] eqn:E. cbn [fst]. rewrite IH. reflexivity.
Qed.

Lemma final_app s a b : final s (a ++ b) = final (final s a) b.
Proof. revert s. induction a as [|o a IH]; intros s; cbn [app RingProofs.final]; [reflexivity|]. apply IH. Qed.

Lemma ops_ok_firstn s ops k : ops_ok s ops = true -> ops_ok s (firstn k ops) = true.
Proof.
  intros H. rewrite <- (firstn_skipn k ops) in H. rewrite ops_ok_app in H. apply andb_true_iff in H. tauto.
Qed.

Lemma all_accepted_app a b : all_accepted (a ++ b) = all_accepted a ++ all_accepted b.
Proof. unfold all_accepted. apply flat_map_app. Qed.
Lemma all_returned_app a b : all_returned (a ++ b) = all_returned a ++ all_returned b.
Proof. unfold all_returned. apply flat_map_app. Qed.
Lemma all_jobs_app a b : all_jobs (a ++ b) = all_jobs a ++ all_jobs b.
Proof. unfold all_jobs. apply flat_map_app. Qed.

Lemma flushes_accept_nothing s Ds : all_accepted (trace s (map Flush Ds)) = [].
Proof.
  revert s. induction Ds as [|D Ds IH]; intros s; cbn [map RingProofs.trace]; [reflexivity|].
  destruct (stepr s (Flush D)) as [s1 r]. unfold all_accepted. cbn [flat_map fst snd accepted app]. apply IH.
Qed.

(* flushing [n] times when [n] jobs are pending hands back exactly [n] jobs *)
Lemma flush_all_count s0 m : forall Ds pre,
  empty_at s0 m -> ops_ok s0 (pre ++ map Flush Ds) = true ->
  Z.of_nat (length Ds) <= pending_count s0 pre ->
  length (all_returned (trace (final s0 pre) (map Flush Ds))) = length Ds.
Proof.
  induction Ds as [|D Ds IH]; intros pre He Hok Hn; [reflexivity|].
  cbn [map]. change (Flush D :: map Flush Ds) with ([Flush D] ++ map Flush Ds).
  rewrite trace_app, all_returned_app, app_length.
  assert (Hok1 : ops_ok s0 (pre ++ [Flush D]) = true /\ ops_ok s0 ((pre ++ [Flush D]) ++ map Flush Ds) = true).
  { cbn [map] in Hok. change (Flush D :: map Flush Ds) with ([Flush D] ++ map Flush Ds) in Hok. rewrite app_assoc in Hok.
    split; [|exact Hok]. rewrite ops_ok_app in Hok. apply andb_true_iff in Hok. tauto. }
  destruct Hok1 as [Hok1 Hok2].
  assert (Hokpre : ops_ok s0 pre = true) by (rewrite ops_ok_app in Hok1; apply andb_true_iff in Hok1; tauto).
  assert (Hokf : okr (final s0 pre) (Flush D) = true).
  { rewrite ops_ok_app in Hok1. apply andb_true_iff in Hok1. destruct Hok1 as [_ H]. cbn [Ring.ops_ok] in H.
    apply andb_true_iff in H. tauto. }
  cbn [length] in Hn.
  pose proof (flush_progress_thm SZ NJ 8 MAXB sz_pos k_ge1 nj_pow2 s0 m pre D He Hokpre Hokf) as Hprog.
  destruct (flush_out_shape SZ NJ D (final s0 pre)) as (jo & Hshape).
  assert (Hone : length (all_returned (trace (final s0 pre) [Flush D])) = 1%nat).
  { cbn [RingProofs.trace]. unfold RingProofs.stepr, step in *. cbn [step3] in *.
    destruct (flush SZ NJ D (final s0 pre)) as [[s1 o] b]. cbn [fst snd] in *. subst o.
    unfold all_returned. cbn [flat_map snd]. rewrite app_nil_r.
    destruct jo as [j|]; [reflexivity|]. exfalso. assert (pending_count s0 pre = 0) by (apply Hprog; reflexivity). lia. }
  rewrite Hone. cbn [List.length Nat.add]. f_equal.
  rewrite <- final_app. apply IH; [exact He|exact Hok2|].
  (* pending after the flush = pending - 1 *)
  unfold RingProofs.pending_count in *. rewrite trace_app, all_accepted_app, all_returned_app, !app_length, Hone.
  assert (Hacc : all_accepted (trace (final s0 pre) [Flush D]) = []) by (apply (flushes_accept_nothing _ [D])).
  rewrite Hacc. cbn [length]. lia.
Qed.

(* The C16 statement on the ring: stop a history anywhere between two calls, re-attach, flush:
   every job in flight comes back, in submission order, completed; then the queue is empty, a
   further flush returns nothing, and the ring is again an empty ring (so everything C05 proves
   about managers as init leaves them holds for the history that follows). *)
Theorem crash_flush_returns_all_in_order_thm :
  forall (s0 : st) (m : Z) (ops : list op) (k : nat) (cpu flags base : N) (M : mgr) (Ds : list (list Z)),
  empty_at s0 m -> ops_ok s0 ops = true ->
  m_ring M = final s0 (firstn k ops) ->
  let pre := firstn k ops in
  let R := m_ring (reattach cpu flags base M) in
  ops_ok R (map Flush Ds) = true ->
  Z.of_nat (length Ds) = pending_count s0 pre ->
  let tr := trace R (map Flush Ds) in
  all_returned tr = skipn (length (all_returned (trace s0 pre))) (all_accepted (trace s0 pre)) /\
  Forall (fun j => IMB_STATUS_COMPLETED <= jstat j) (all_jobs tr) /\
  queue_sz SZ NJ (final R (map Flush Ds)) = 0 /\
  (exists m', empty_at (final R (map Flush Ds)) m') /\
  (forall D, snd (stepr (final R (map Flush Ds)) (Flush D)) = OJob None).
Proof.
  intros s0 m ops k cpu flags base M Ds He Hok HM pre R HokR Hlen tr.
  destruct (reattach_preserves_scheduling_state_thm cpu flags base M) as [HR _].
  fold R in HR. rewrite HM in HR. fold pre in HR.
  assert (Hokpre : ops_ok s0 pre = true) by (apply ops_ok_firstn; exact Hok).
  assert (Hokall : ops_ok s0 (pre ++ map Flush Ds) = true).
  { rewrite ops_ok_app, Hokpre. cbn [andb]. rewrite HR, ops_ok_errno in HokR. exact HokR. }
  assert (Htr : tr = trace (final s0 pre) (map Flush Ds)) by (unfold tr; rewrite HR; apply trace_errno).
  assert (Hfin : final R (map Flush Ds) = final s0 (pre ++ map Flush Ds) \/ Ds = []).
  { destruct Ds as [|D Ds']; [right; reflexivity|left]. rewrite final_app, HR. cbn [map]. apply final_errno. }
  pose proof (fifo_history SZ NJ 8 MAXB sz_pos k_ge1 nj_pow2 s0 m (pre ++ map Flush Ds) He Hokall) as Hfifo.
  cbv zeta in Hfifo. rewrite trace_app, all_returned_app, all_accepted_app, all_jobs_app, flushes_accept_nothing, app_nil_r in Hfifo.
  destruct Hfifo as (Hpre_all & Hst & Hq & Hle).
  pose proof (fifo_history SZ NJ 8 MAXB sz_pos k_ge1 nj_pow2 s0 m pre He Hokpre) as Hfpre. cbv zeta in Hfpre.
  destruct Hfpre as (Hpre & _ & _ & Hlepre).
  assert (Hcnt : length (all_returned (trace (final s0 pre) (map Flush Ds))) = length Ds).
  { apply (flush_all_count s0 m Ds pre He Hokall). lia. }
  set (A := all_accepted (trace s0 pre)) in *. set (Rp := all_returned (trace s0 pre)) in *.
  set (Rf := all_returned (trace (final s0 pre) (map Flush Ds))) in *.
  assert (HlenA : (length Rp + length Rf = length A)%nat).
  { unfold RingProofs.pending_count in Hlen. fold A Rp in Hlen. lia. }
  rewrite Htr. fold Rf.
  assert (Hret : Rf = skipn (length Rp) A).
  { rewrite app_length in Hpre_all. rewrite HlenA, firstn_all in Hpre_all.
    rewrite <- Hpre_all. rewrite skipn_app, skipn_all, Nat.sub_diag. reflexivity. }
  split; [exact Hret|]. split.
  { apply Forall_app in Hst. tauto. }
  assert (Hq0 : queue_sz SZ NJ (final s0 (pre ++ map Flush Ds)) = 0).
  { rewrite Hq, app_length. fold Rf. lia. }
  assert (HqR : queue_sz SZ NJ (final R (map Flush Ds)) = 0).
  { destruct Hfin as [->| ->]; [exact Hq0|]. cbn [map RingProofs.final]. rewrite HR.
    cbn [map app] in Hq0. rewrite app_nil_r in Hq0. unfold queue_sz, get_queue_sz in *. cbn. exact Hq0. }
  split; [exact HqR|].
  (* the final ring state, with its ghost *)
  destruct (reach_inv SZ NJ 8 MAXB sz_pos k_ge1 nj_pow2 s0 m (pre ++ map Flush Ds) He Hokall) as (g & HI & Hacc & Hgret).
  assert (Hg : gsub g = gret g).
  { unfold gsub. rewrite Hacc, Hgret, trace_app, all_accepted_app, all_returned_app, flushes_accept_nothing, app_nil_r, app_length.
    fold A Rp Rf. lia. }
  destruct HI as (Hr & Hsz & Hnext & Hear & _). rewrite Hg, Z.eqb_refl in Hear.
  assert (Hempty : exists m', empty_at (final s0 (pre ++ map Flush Ds)) m').
  { exists ((gbase g + gret g) mod NJ). unfold RingProofs.empty_at. split; [exact Hear|]. split.
    - rewrite Hnext, Hg. unfold sl, slot. reflexivity.
    - apply Z.mod_pos_bound. reflexivity. }
  assert (HemptyR : exists m', empty_at (final R (map Flush Ds)) m').
  { destruct Hfin as [->| ->]; [exact Hempty|]. cbn [map RingProofs.final]. rewrite HR.
    cbn [map app] in Hempty. rewrite app_nil_r in Hempty. destruct Hempty as (m' & H1 & H2 & H3).
    exists m'. unfold RingProofs.empty_at. cbn. auto. }
  split; [exact HemptyR|].
  intros D. destruct HemptyR as (m' & He' & _). unfold RingProofs.stepr, step. cbn [step3 fst snd]. unfold flush.
  cbn [earliest set_errno]. rewrite He'. reflexivity.
Qed.

Local Close Scope Z_scope.

(* ------------------------------------------------------------------ pointer provenance (static part) *)
Theorem no_library_pointers_in_ooo_thm :
  forall r l, In r ooo_layouts -> In l (r_leaves r) ->
    (l_kind l = KPtr -> ptr_class (r_name r) (l_path l) = Some PCaller \/ ptr_class (r_name r) (l_path l) = Some PManager) /\
    l_kind l <> KFnPtr.
Proof.
  assert (H : forallb (fun r => forallb (leaf_ptr_ok (r_name r)) (r_leaves r)) ooo_layouts = true) by (vm_compute; reflexivity).
  intros r l Hr Hl. rewrite forallb_forall in H. specialize (H r Hr). rewrite forallb_forall in H. specialize (H l Hl).
  unfold leaf_ptr_ok in H. destruct (l_kind l); try discriminate; split; try discriminate; intros _.
  all: try (destruct (ptr_class (r_name r) (l_path l)) as [[| |]|]; try discriminate; auto).
Qed.
