(* Proofs/GhashProofs.v — C02/C03: GHASH as Horner evaluation equals the sum of H-power
   products (what the by-8/16/32/48 aggregated-reduction kernels compute), generically in an
   algebraic structure given by Section hypotheses; and xor-bilinearity of the concrete
   bit-loop product Spec.GF128.gf128_mul.

   Honest limit: associativity of the concrete gf128_mul is NOT proved; the concrete GHASH
   instance below therefore takes it as a hypothesis and is named ..._partial.  Everything
   else the generic theorem needs (xor is an abelian group, the product distributes over xor
   on the left argument) is proved for the concrete definitions. *)
From Coq Require Import List NArith Bool Lia Arith PeanoNat.
From IMB Require Import Lib.Bytes Spec.GF128.
Import ListNotations.

(* ------------------------------------------------------------------------- *)
(* Generic: Horner = power sum                                                 *)
(* ------------------------------------------------------------------------- *)

Section Horner.
  Variable R : Type.
  Variable add mul : R -> R -> R.
  Variable zero : R.
  Hypothesis add_assoc : forall a b c, add (add a b) c = add a (add b c).
  Hypothesis add_0_r : forall a, add a zero = a.
  Hypothesis mul_assoc : forall a b c, mul (mul a b) c = mul a (mul b c).
  Hypothesis mul_add_distr_r : forall a b c, mul (add a b) c = add (mul a c) (mul b c).

  (* Y_i = (Y_{i-1} + X_i) * H *)
  Definition horner (h : R) (xs : list R) (y0 : R) : R :=
    fold_left (fun y x => mul (add y x) h) xs y0.

  (* hpow h k = H^(k+1) *)
  Fixpoint hpow (h : R) (k : nat) : R :=
    match k with O => h | S k' => mul h (hpow h k') end.

  (* X_1 * H^n + X_2 * H^(n-1) + ... + X_n * H *)
  Fixpoint powersum (h : R) (xs : list R) : R :=
    match xs with
    | [] => zero
    | x :: t => add (mul x (hpow h (length t))) (powersum h t)
    end.

  Theorem horner_eq_powersum h : forall t x y0,
    horner h (x :: t) y0 = add (mul y0 (hpow h (length t))) (powersum h (x :: t)).
  Proof.
    induction t as [|x' t IH]; intros x y0.
    - cbn [horner fold_left length hpow powersum]. rewrite mul_add_distr_r, add_0_r. reflexivity.
    - change (horner h (x :: x' :: t) y0) with (horner h (x' :: t) (mul (add y0 x) h)).
      rewrite IH. cbn [length hpow powersum].
      rewrite mul_assoc, mul_add_distr_r, add_assoc. reflexivity.
  Qed.

  (* the aggregated form used by the kernels: the running value is folded into the first
     block, then k independent products with H^k .. H^1 are summed *)
  Corollary horner_aggregated h x t y0 :
    horner h (x :: t) y0 = powersum h (add y0 x :: t).
  Proof.
    rewrite horner_eq_powersum. cbn [powersum]. rewrite mul_add_distr_r, add_assoc. reflexivity.
  Qed.

  (* processing a long message k blocks at a time *)
  Lemma horner_app h a b y0 : horner h (a ++ b) y0 = horner h b (horner h a y0).
  Proof. unfold horner. apply fold_left_app. Qed.
End Horner.

(* ------------------------------------------------------------------------- *)
(* Concrete: xor-linearity of the bit-loop product                             *)
(* ------------------------------------------------------------------------- *)

Lemma odd_lxor a b : N.odd (N.lxor a b) = xorb (N.odd a) (N.odd b).
Proof. rewrite <- !N.bit0_odd. apply N.lxor_spec. Qed.

Lemma div2_lxor a b : N.div2 (N.lxor a b) = N.lxor (N.div2 a) (N.div2 b).
Proof. rewrite !N.div2_spec. apply N.shiftr_lxor. Qed.

Lemma lxor_swap a b c d : N.lxor (N.lxor a b) (N.lxor c d) = N.lxor (N.lxor a c) (N.lxor b d).
Proof.
  rewrite !N.lxor_assoc. f_equal. rewrite <- !N.lxor_assoc. f_equal. apply N.lxor_comm.
Qed.

Lemma mul_alpha_lxor a b :
  gf128_mul_alpha (N.lxor a b) = N.lxor (gf128_mul_alpha a) (gf128_mul_alpha b).
Proof.
  unfold gf128_mul_alpha. rewrite odd_lxor, div2_lxor.
  destruct (N.odd a), (N.odd b); cbn [xorb].
  - rewrite lxor_swap, N.lxor_nilpotent, N.lxor_0_r. reflexivity.
  - rewrite !N.lxor_assoc. f_equal. apply N.lxor_comm.
  - rewrite N.lxor_assoc. reflexivity.
  - reflexivity.
Qed.

Lemma w128_lxor a b : w128 (N.lxor a b) = N.lxor (w128 a) (w128 b).
Proof.
  unfold w128. apply N.bits_inj. intros i.
  rewrite !N.land_spec, !N.lxor_spec, !N.land_spec.
  destruct (N.testbit a i), (N.testbit b i), (N.testbit mask128 i); reflexivity.
Qed.

(* the loop is jointly linear in (x, z) and in (y, z) *)
Lemma mul_loop_linear_x n : forall x1 x2 y z1 z2,
  gf128_mul_loop n (N.lxor x1 x2) y (N.lxor z1 z2) =
  N.lxor (gf128_mul_loop n x1 y z1) (gf128_mul_loop n x2 y z2).
Proof.
  induction n as [|n IH]; intros x1 x2 y z1 z2; [reflexivity|].
  cbn [gf128_mul_loop]. rewrite div2_lxor, mul_alpha_lxor, odd_lxor.
  destruct (N.odd x1), (N.odd x2); cbn [xorb]; rewrite <- IH; f_equal.
  - rewrite lxor_swap, N.lxor_nilpotent, N.lxor_0_r. reflexivity.
  - rewrite !N.lxor_assoc. f_equal. apply N.lxor_comm.
  - rewrite N.lxor_assoc. reflexivity.
Qed.

Lemma mul_loop_linear_y n : forall x y1 y2 z1 z2,
  gf128_mul_loop n x (N.lxor y1 y2) (N.lxor z1 z2) =
  N.lxor (gf128_mul_loop n x y1 z1) (gf128_mul_loop n x y2 z2).
Proof.
  induction n as [|n IH]; intros x y1 y2 z1 z2; [reflexivity|].
  cbn [gf128_mul_loop]. rewrite mul_alpha_lxor.
  destruct (N.odd x); rewrite <- IH; f_equal.
  apply lxor_swap.
Qed.

(* THEOREM (bilinearity of the concrete product) *)
Theorem gf128_mul_lxor_l a b y :
  gf128_mul (N.lxor a b) y = N.lxor (gf128_mul a y) (gf128_mul b y).
Proof.
  unfold gf128_mul. rewrite w128_lxor.
  rewrite <- (N.lxor_0_r 0) at 1. apply mul_loop_linear_x.
Qed.

Theorem gf128_mul_lxor_r x a b :
  gf128_mul x (N.lxor a b) = N.lxor (gf128_mul x a) (gf128_mul x b).
Proof.
  unfold gf128_mul. rewrite w128_lxor.
  rewrite <- (N.lxor_0_r 0) at 1. apply mul_loop_linear_y.
Qed.

Theorem gf128_mul_0_l y : gf128_mul 0 y = 0%N.
Proof.
  pose proof (gf128_mul_lxor_l 0 0 y) as H. rewrite N.lxor_0_r in H.
  rewrite H at 1. apply N.lxor_nilpotent.
Qed.

(* ------------------------------------------------------------------------- *)
(* GHASH instance                                                             *)
(* ------------------------------------------------------------------------- *)

Definition ghash_block_val (blk : bytes) : N := be_to_N (pad_right 16 blk).

Lemma fold_left_map_gen {A B C} (g : A -> C -> A) (v : B -> C) : forall l y0,
  fold_left (fun y b => g y (v b)) l y0 = fold_left g (map v l) y0.
Proof. induction l as [|b t IH]; intros y0; [reflexivity|]. cbn [fold_left map]. apply IH. Qed.

(* keep the kernel from unfolding the 128-step product when comparing terms *)
Local Strategy 1000 [gf128_mul].

Lemma ghash_fold_is_horner h y0 blks :
  ghash_fold h y0 blks = horner N N.lxor gf128_mul h (map ghash_block_val blks) y0.
Proof.
  unfold ghash_fold, horner.
  rewrite <- (fold_left_map_gen (fun y x => gf128_mul (N.lxor y x) h) ghash_block_val).
  reflexivity.
Qed.

(* THEOREM ghash_horner_eq_powersum_partial: GHASH over blocks X_1..X_n from Y_0 equals
   Y_0*H^n xor X_1*H^n xor ... xor X_n*H — for the concrete gf128_mul, CONDITIONAL on its
   associativity (not proved); xor laws and distributivity are discharged here. *)
Theorem ghash_horner_eq_powersum_partial h :
  (forall a b c, gf128_mul (gf128_mul a b) c = gf128_mul a (gf128_mul b c)) ->
  forall b t y0,
  ghash_fold h y0 (b :: t) =
  N.lxor (gf128_mul y0 (hpow N gf128_mul h (length t)))
         (powersum N N.lxor gf128_mul 0%N h (map ghash_block_val (b :: t))).
Proof.
  intros Hassoc b t y0. rewrite ghash_fold_is_horner. cbn [map].
  rewrite (horner_eq_powersum N N.lxor gf128_mul 0%N N.lxor_assoc N.lxor_0_r Hassoc
             gf128_mul_lxor_l h (map ghash_block_val t) (ghash_block_val b) y0).
  rewrite map_length. reflexivity.
Qed.

Theorem ghash_aggregated_partial h :
  (forall a b c, gf128_mul (gf128_mul a b) c = gf128_mul a (gf128_mul b c)) ->
  forall b t y0,
  ghash_fold h y0 (b :: t) =
  powersum N N.lxor gf128_mul 0%N h (N.lxor y0 (ghash_block_val b) :: map ghash_block_val t).
Proof.
  intros Hassoc b t y0. rewrite ghash_fold_is_horner. cbn [map].
  apply (horner_aggregated N N.lxor gf128_mul 0%N N.lxor_assoc N.lxor_0_r Hassoc gf128_mul_lxor_l).
Qed.
