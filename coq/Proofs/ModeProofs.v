(* Proofs/ModeProofs.v — C01, structural layer: round-trip and length theorems for the
   block-cipher modes of Spec/AESModes.v, generic in the block functions E / D.
   Every statement is universally quantified over messages of every accepted length and
   over all IVs; proofs are by induction on the block / chunk list (no computation on
   samples).

   Hypotheses on the block functions (Section variables; discharged for AES in
   Proofs/AESInvProofs.v):
     E_len : forall b, length b = 16 -> length (E b) = 16
     E_ok  : forall b, length b = 16 -> bytes_ok b = true -> bytes_ok (E b) = true
     DE    : forall b, length b = 16 -> bytes_ok b = true -> D (E b) = b
   ([bytes_ok] = every element < 256; bytes are unbounded N in the specifications, and
   D∘E = id is only true on genuine byte strings.)  The stream-like modes (CTR, CTR-bitlen,
   CFB) need E_len only. *)
From Coq Require Import List NArith Bool Lia Arith.
From IMB Require Import Lib.Bytes Spec.AES Spec.AESModes Struct.TailOps Proofs.C01Lists.
Import ListNotations.

Lemma blk_ok_xor : forall a b, blk_ok a -> blk_ok b -> blk_ok (xor_bytes a b).
Proof.
  intros a b [La Oa] [Lb Ob]. split.
  - rewrite xor_bytes_length. lia.
  - now apply bytes_ok_xor.
Qed.

Lemma blocks16_blk_ok : forall l bs tl, bytes_ok l = true -> blocks16 l = (bs, tl) ->
  Forall blk_ok bs /\ bytes_ok tl = true /\ length tl < 16 /\ l = concat bs ++ tl.
Proof.
  intros l bs tl Ok H. apply blocks16_spec in H. destruct H as (F & Lt & C & _).
  rewrite C in Ok. apply bytes_ok_app in Ok. destruct Ok as [Ob Ot].
  apply Forall_bytes_ok_concat in Ob.
  repeat split; try assumption.
  rewrite Forall_forall in *. intros b Hb. split; [apply F|apply Ob]; assumption.
Qed.

Lemma Forall_blk_ok_len16 : forall bs, Forall blk_ok bs -> Forall len16 bs.
Proof. intros bs H. eapply Forall_impl; [|exact H]. intros b [L _]. exact L. Qed.

(* ======================================================================================== *)
Section LengthOnly.
  Variable E : bytes -> bytes.
  Hypothesis E_len : forall b, length b = 16 -> length (E b) = 16.

  (* -------------------------------------------------------------------------------------- *)
  (* CTR = xor with a key stream *)

  (* [n] key-stream blocks starting at counter value c *)
  Fixpoint ctr_ks (pre : bytes) (nb : nat) (mask c : N) (n : nat) : bytes :=
    match n with
    | O => []
    | S k => E (pre ++ N_to_be nb c) ++ ctr_ks pre nb mask (N.land (c + 1) mask) k
    end.

  Lemma ctr_ks_length : forall pre nb mask n c,
    (forall c, length (pre ++ N_to_be nb c) = 16) ->
    length (ctr_ks pre nb mask c n) = 16 * n.
  Proof.
    intros pre nb mask n. induction n; intros c Hp; [reflexivity|].
    cbn [ctr_ks]. rewrite app_length, E_len, IHn by (try apply Hp; assumption). lia.
  Qed.

  Lemma ctr_loop_xor_ks : forall pre nb mask,
    (forall c, length (pre ++ N_to_be nb c) = 16) ->
    forall msg c,
    concat (ctr_loop E pre nb mask c (chunks 16 msg)) =
    xor_bytes msg (ctr_ks pre nb mask c (length (chunks 16 msg))).
  Proof.
    intros pre nb mask Hp msg.
    induction msg as [|msg Hne IH] using (chunk_ind 16 ltac:(lia)); intros c; [reflexivity|].
    rewrite chunks_cons by (try lia; assumption).
    cbn [ctr_loop concat length ctr_ks]. rewrite IH.
    destruct (Nat.le_gt_cases 16 (length msg)) as [L|L].
    - rewrite <- xor_bytes_app by (rewrite firstn_length, E_len by apply Hp; lia).
      now rewrite firstn_skipn.
    - rewrite skipn_all2 by lia. rewrite firstn_all2 by lia.
      rewrite chunks_nil. cbn [length ctr_ks xor_bytes]. now rewrite !app_nil_r.
  Qed.

  Definition ctr_w_ks (nb : nat) (ctrblk : bytes) (len : nat) : bytes :=
    ctr_ks (firstn (16 - nb) ctrblk) nb (N.ones (8 * N.of_nat nb))
           (be_to_N (skipn (16 - nb) ctrblk)) (length (chunks 16 (zeros len))).

  Lemma ctr_counter_block_len : forall nb ctrblk c, nb <= 16 -> 16 <= length ctrblk ->
    length (firstn (16 - nb) ctrblk ++ N_to_be nb c) = 16.
  Proof.
    intros. rewrite app_length, firstn_length, N_to_be_length. lia.
  Qed.

  (* CTR output = message xor a key stream that depends on the message LENGTH only and is
     at least as long as the message *)
  Theorem ctr_w_is_xor_keystream : forall nb ctrblk msg, nb <= 16 -> 16 <= length ctrblk ->
    ctr_w_gen E nb ctrblk msg = xor_bytes msg (ctr_w_ks nb ctrblk (length msg))
    /\ length msg <= length (ctr_w_ks nb ctrblk (length msg)).
  Proof.
    intros nb ctrblk msg Hnb Hc. unfold ctr_w_gen, ctr_w_ks.
    assert (Hp : forall c, length (firstn (16 - nb) ctrblk ++ N_to_be nb c) = 16)
      by (intro; now apply ctr_counter_block_len).
    assert (Hn : length (chunks 16 (zeros (length msg))) = length (chunks 16 msg)).
    { apply chunks_count_eq; [lia|]. unfold zeros. apply repeat_length. }
    rewrite Hn. split.
    - now apply ctr_loop_xor_ks.
    - rewrite ctr_ks_length by assumption. apply chunks_count_bound.
  Qed.

  Theorem ctr_w_length : forall nb ctrblk msg, nb <= 16 -> 16 <= length ctrblk ->
    length (ctr_w_gen E nb ctrblk msg) = length msg.
  Proof.
    intros nb ctrblk msg Hnb Hc.
    destruct (ctr_w_is_xor_keystream nb ctrblk msg Hnb Hc) as [-> L].
    rewrite xor_bytes_length. lia.
  Qed.

  Theorem ctr_w_involutive : forall nb ctrblk msg, nb <= 16 -> 16 <= length ctrblk ->
    ctr_w_gen E nb ctrblk (ctr_w_gen E nb ctrblk msg) = msg.
  Proof.
    intros nb ctrblk msg Hnb Hc.
    destruct (ctr_w_is_xor_keystream nb ctrblk (ctr_w_gen E nb ctrblk msg) Hnb Hc) as [-> _].
    rewrite ctr_w_length by assumption.
    destruct (ctr_w_is_xor_keystream nb ctrblk msg Hnb Hc) as [-> L].
    now apply xor_bytes_involutive.
  Qed.

  Lemma ctr_iv_block_len : forall iv, length iv = 12 \/ length iv = 16 ->
    length (ctr_iv_block iv) = 16.
  Proof.
    intros iv [H|H]; unfold ctr_iv_block; rewrite H; cbn [Nat.eqb]; [|exact H].
    rewrite app_length, H. reflexivity.
  Qed.

  (* IMB_CIPHER_CNTR: encrypting twice restores the message; any length; 12- or 16-byte IV *)
  Theorem ctr_involutive : forall iv msg, length iv = 12 \/ length iv = 16 ->
    ctr_gen E iv (ctr_gen E iv msg) = msg.
  Proof.
    intros iv msg H. unfold ctr_gen. apply ctr_w_involutive; [lia|].
    rewrite ctr_iv_block_len by assumption. lia.
  Qed.

  Theorem ctr_length : forall iv msg, length iv = 12 \/ length iv = 16 ->
    length (ctr_gen E iv msg) = length msg.
  Proof.
    intros iv msg H. unfold ctr_gen. apply ctr_w_length; [lia|].
    rewrite ctr_iv_block_len by assumption. lia.
  Qed.

  (* -------------------------------------------------------------------------------------- *)
  (* CTR, bit length *)

  Lemma ctr_bits_gen_unfold : forall iv msg bitlen dst,
    ctr_bits_gen E iv msg bitlen dst =
    let full := ctr_w_gen E 8 iv (firstn (ctr_bits_nbytes bitlen) msg) in
    if (N.land bitlen 7 =? 0)%N then full
    else map_last (fun x => merge_keep (ctr_bits_keep bitlen) x
                              (nth (ctr_bits_nbytes bitlen - 1) dst 0%N)) full.
  Proof.
    intros. unfold ctr_bits_gen, ctr_bits_nbytes, ctr_bits_keep, merge_keep.
    destruct (N.land bitlen 7); reflexivity.
  Qed.

  Theorem ctr_bits_length : forall iv msg bitlen dst, 16 <= length iv ->
    ctr_bits_nbytes bitlen <= length msg ->
    length (ctr_bits_gen E iv msg bitlen dst) = ctr_bits_nbytes bitlen.
  Proof.
    intros iv msg bitlen dst Hiv Hm. rewrite ctr_bits_gen_unfold. cbv zeta.
    destruct (N.land bitlen 7 =? 0)%N; [|rewrite map_last_length];
      rewrite ctr_w_length, firstn_length by (try lia; assumption); lia.
  Qed.

  Lemma keep_bits : forall bitlen i,
    N.testbit (ctr_bits_keep bitlen) i = true -> N.testbit 255 i = true.
  Proof.
    intros bitlen i H. unfold ctr_bits_keep in H. rewrite N.shiftr_spec' in H.
    change 255%N with (N.ones 8) in *.
    destruct (N.lt_ge_cases (i + N.land bitlen 7) 8) as [L|L].
    - apply N.ones_spec_low. lia.
    - rewrite N.ones_spec_high in H by assumption. discriminate.
  Qed.

  Lemma byte_bits : forall x i, (x < 256)%N -> N.testbit x i = true -> N.testbit 255 i = true.
  Proof.
    intros x i Hx H. change 255%N with (N.ones 8).
    destruct (N.lt_ge_cases i 8) as [L|L]; [now apply N.ones_spec_low|].
    rewrite (N.bits_above_log2 x i) in H; [discriminate|].
    destruct (N.eq_dec x 0) as [->|]; [now rewrite N.bits_0 in H|].
    assert (N.log2 x < 8)%N by (apply N.log2_lt_pow2; lia). lia.
  Qed.

  (* the merged byte, xored again with the same key-stream byte and merged with a byte d2:
     changed bits are those of the original m, kept bits those of d2 *)
  Lemma merge_keep_twice : forall bitlen m k d1 d2,
    let keep := ctr_bits_keep bitlen in
    merge_keep keep (N.lxor (merge_keep keep (N.lxor m k) d1) k) d2 = merge_keep keep m d2.
  Proof.
    intros bitlen m k d1 d2 keep. unfold merge_keep.
    apply N.bits_inj. intro i.
    rewrite !N.lor_spec, !N.land_spec, !N.lxor_spec, !N.lor_spec, !N.land_spec, !N.lxor_spec.
    pose proof (keep_bits bitlen i) as K. fold keep in K.
    destruct (N.testbit keep i), (N.testbit 255 i), (N.testbit m i), (N.testbit k i),
      (N.testbit d1 i), (N.testbit d2 i); try reflexivity; specialize (K eq_refl); discriminate.
  Qed.

  Lemma merge_keep_same : forall bitlen m, (m < 256)%N ->
    merge_keep (ctr_bits_keep bitlen) m m = m.
  Proof.
    intros bitlen m Hm. unfold merge_keep. apply N.bits_inj. intro i.
    rewrite !N.lor_spec, !N.land_spec, !N.lxor_spec.
    pose proof (keep_bits bitlen i) as K. pose proof (byte_bits m i Hm) as B.
    destruct (N.testbit (ctr_bits_keep bitlen) i), (N.testbit 255 i), (N.testbit m i);
      try reflexivity; try (specialize (K eq_refl); discriminate);
      specialize (B eq_refl); discriminate.
  Qed.

  Lemma merge_keep_dst : forall bitlen a b d,
    let keep := ctr_bits_keep bitlen in
    merge_keep keep a (merge_keep keep b d) = merge_keep keep a d.
  Proof.
    intros bitlen a b d keep. unfold merge_keep. apply N.bits_inj. intro i.
    rewrite !N.lor_spec, !N.land_spec, !N.lor_spec, !N.land_spec, !N.lxor_spec.
    pose proof (keep_bits bitlen i) as K. fold keep in K.
    destruct (N.testbit keep i), (N.testbit 255 i), (N.testbit a i), (N.testbit b i),
      (N.testbit d i); try reflexivity; specialize (K eq_refl); discriminate.
  Qed.

  (* kept bits of a merged byte are those of d; changed bits those of a *)
  Lemma merge_keep_low : forall bitlen a d, let keep := ctr_bits_keep bitlen in
    N.land (merge_keep keep a d) keep = N.land d keep.
  Proof.
    intros bitlen a d keep. unfold merge_keep. apply N.bits_inj. intro i.
    rewrite !N.land_spec, !N.lor_spec, !N.land_spec, !N.lxor_spec.
    pose proof (keep_bits bitlen i) as K. fold keep in K.
    destruct (N.testbit keep i), (N.testbit 255 i), (N.testbit a i), (N.testbit d i);
      try reflexivity; specialize (K eq_refl); discriminate.
  Qed.

  Lemma merge_keep_high : forall bitlen a d, let keep := ctr_bits_keep bitlen in
    N.land (merge_keep keep a d) (N.lxor keep 255) = N.land a (N.lxor keep 255).
  Proof.
    intros bitlen a d keep. unfold merge_keep. apply N.bits_inj. intro i.
    rewrite !N.land_spec, !N.lor_spec, !N.land_spec, !N.lxor_spec.
    pose proof (keep_bits bitlen i) as K. fold keep in K.
    destruct (N.testbit keep i), (N.testbit 255 i), (N.testbit a i), (N.testbit d i);
      try reflexivity; specialize (K eq_refl); discriminate.
  Qed.

  Lemma ctr_bits_nbytes_pos : forall bitlen, N.land bitlen 7 <> 0%N -> 0 < ctr_bits_nbytes bitlen.
  Proof.
    intros bitlen H. unfold ctr_bits_nbytes.
    assert (bitlen <> 0%N) by (intros ->; apply H; reflexivity).
    assert (1 <= N.shiftr (bitlen + 7) 3)%N; [|lia].
    rewrite N.shiftr_div_pow2. change (2 ^ 3)%N with 8%N.
    apply N.div_le_lower_bound; lia.
  Qed.

  Lemma firstn_snoc_nth : forall (l : bytes) n, 0 < n <= length l ->
    firstn n l = firstn (n - 1) l ++ [nth (n - 1) l 0%N].
  Proof.
    intros l n H. replace n with ((n - 1) + 1) at 1 by lia.
    rewrite firstn_skipn_split. f_equal.
    assert (L : n - 1 < length l) by lia.
    pose proof (skipn_length (n - 1) l) as SL.
    destruct (skipn (n - 1) l) as [|y t] eqn:Es; [simpl in SL; lia|].
    cbn [firstn]. f_equal.
    rewrite <- (firstn_skipn (n - 1) l) at 1. rewrite Es.
    rewrite app_nth2; rewrite firstn_length; [|lia].
    replace (n - 1 - Nat.min (n - 1) (length l)) with 0 by lia. reflexivity.
  Qed.

  Lemma xor_bytes_snoc : forall a x ks, length a < length ks ->
    xor_bytes (a ++ [x]) ks = xor_bytes a ks ++ [N.lxor x (nth (length a) ks 0%N)].
  Proof.
    induction a as [|y a IH]; intros x ks H.
    - destruct ks; [simpl in H; lia|]. reflexivity.
    - destruct ks as [|k ks]; [simpl in H; lia|]. cbn [app xor_bytes length nth].
      f_equal. apply IH. simpl in H. lia.
  Qed.

  Lemma nth_snoc_last : forall (a : bytes) x, nth (length a) (a ++ [x]) 0%N = x.
  Proof. intros. rewrite app_nth2, Nat.sub_diag by lia. reflexivity. Qed.

  (* explicit form of the CTR-bitlen output for a partial last byte: the first n-1 bytes are
     plain CTR, the last byte is merged with the byte of dst *)
  Lemma ctr_bits_gen_partial : forall iv msg bitlen dst, 16 <= length iv ->
    ctr_bits_nbytes bitlen <= length msg -> N.land bitlen 7 <> 0%N ->
    let n := ctr_bits_nbytes bitlen in
    let ks := ctr_w_ks 8 iv n in
    ctr_bits_gen E iv msg bitlen dst =
      xor_bytes (firstn (n - 1) msg) ks
      ++ [merge_keep (ctr_bits_keep bitlen)
            (N.lxor (nth (n - 1) msg 0%N) (nth (n - 1) ks 0%N)) (nth (n - 1) dst 0%N)].
  Proof.
    intros iv msg bitlen dst Hiv Hm Hr n ks.
    pose proof (ctr_bits_nbytes_pos bitlen Hr) as Hn. fold n in Hn, Hm.
    rewrite ctr_bits_gen_unfold. cbv zeta. fold n.
    apply N.eqb_neq in Hr. rewrite Hr.
    destruct (ctr_w_is_xor_keystream 8 iv (firstn n msg) ltac:(lia) Hiv) as [-> L].
    assert (Ln : length (firstn n msg) = n) by (rewrite firstn_length; lia).
    rewrite Ln in *. fold ks in L |- *.
    rewrite (firstn_snoc_nth msg n) by lia.
    assert (La : length (firstn (n - 1) msg) = n - 1) by (rewrite firstn_length; lia).
    rewrite xor_bytes_snoc by lia. rewrite La.
    rewrite map_last_snoc. reflexivity.
  Qed.

  (* Applying CTR-bitlen twice (second time with any destination buffer d2): the first
     bitlen bits are those of the original message, the remaining bits of the last byte
     are those of d2. *)
  Theorem ctr_bits_twice : forall iv msg bitlen d1 d2, 16 <= length iv ->
    ctr_bits_nbytes bitlen <= length msg ->
    let n := ctr_bits_nbytes bitlen in
    ctr_bits_gen E iv (ctr_bits_gen E iv msg bitlen d1) bitlen d2 =
      if (N.land bitlen 7 =? 0)%N then firstn n msg
      else firstn (n - 1) msg
           ++ [merge_keep (ctr_bits_keep bitlen) (nth (n - 1) msg 0%N) (nth (n - 1) d2 0%N)].
  Proof.
    intros iv msg bitlen d1 d2 Hiv Hm n.
    destruct (N.land bitlen 7 =? 0)%N eqn:Er.
    - rewrite !ctr_bits_gen_unfold. cbv zeta. rewrite Er. fold n.
      assert (Ln : length (firstn n msg) = n) by (rewrite firstn_length; fold n in Hm; lia).
      rewrite (firstn_all2 (n := n) (ctr_w_gen E 8 iv (firstn n msg)))
        by (rewrite ctr_w_length by (try lia; assumption); lia).
      apply ctr_w_involutive; [lia|assumption].
    - apply N.eqb_neq in Er.
      pose proof (ctr_bits_nbytes_pos bitlen Er) as Hn. fold n in Hn, Hm.
      assert (L1 : n <= length (ctr_bits_gen E iv msg bitlen d1))
        by (rewrite ctr_bits_length by assumption; fold n; lia).
      rewrite (ctr_bits_gen_partial iv (ctr_bits_gen E iv msg bitlen d1)) by assumption.
      fold n. rewrite (ctr_bits_gen_partial iv msg bitlen d1) by assumption. fold n.
      set (ks := ctr_w_ks 8 iv n).
      assert (Lk : n <= length ks).
      { unfold ks. destruct (ctr_w_is_xor_keystream 8 iv (firstn n msg) ltac:(lia) Hiv) as [_ L].
        rewrite firstn_length in L. replace (Nat.min n (length msg)) with n in L by lia. exact L. }
      assert (La : length (xor_bytes (firstn (n - 1) msg) ks) = n - 1).
      { rewrite xor_bytes_length, firstn_length. lia. }
      rewrite firstn_app_exact by (symmetry; exact La).
      rewrite <- La at 2. rewrite nth_snoc_last.
      rewrite xor_bytes_involutive by (rewrite firstn_length; lia).
      f_equal. f_equal. apply merge_keep_twice.
  Qed.

  (* IMB_CIPHER_CNTR_BITLEN, in place (dst = src), applied twice in place: restores the
     buffer (its first ceil(bitlen/8) bytes, which is all the function returns). *)
  Theorem ctr_bits_involutive : forall iv msg bitlen, 16 <= length iv ->
    ctr_bits_nbytes bitlen <= length msg -> bytes_ok msg = true ->
    let c := ctr_bits_gen E iv msg bitlen msg in
    ctr_bits_gen E iv c bitlen c = firstn (ctr_bits_nbytes bitlen) msg.
  Proof.
    intros iv msg bitlen Hiv Hm Ok c. unfold c at 1.
    rewrite ctr_bits_twice by assumption. cbv zeta.
    destruct (N.land bitlen 7 =? 0)%N eqn:Er; [reflexivity|].
    apply N.eqb_neq in Er. pose proof (ctr_bits_nbytes_pos bitlen Er) as Hn.
    set (n := ctr_bits_nbytes bitlen) in *.
    rewrite (firstn_snoc_nth msg n) by lia. f_equal. f_equal.
    unfold c. rewrite (ctr_bits_gen_partial iv msg bitlen msg) by assumption. fold n.
    set (ks := ctr_w_ks 8 iv n).
    assert (La : length (xor_bytes (firstn (n - 1) msg) ks) = n - 1).
    { rewrite xor_bytes_length, firstn_length.
      assert (n <= length ks).
      { unfold ks. destruct (ctr_w_is_xor_keystream 8 iv (firstn n msg) ltac:(lia) Hiv) as [_ L].
        rewrite firstn_length in L. replace (Nat.min n (length msg)) with n in L by lia. exact L. }
      lia. }
    rewrite <- La at 2. rewrite nth_snoc_last.
    rewrite merge_keep_dst. apply merge_keep_same. now apply bytes_ok_nth.
  Qed.

  (* Only the first bitlen bits change: the output has ceil(bitlen/8) bytes; all but the
     last are plain CTR output; in the last byte the bits selected by [keep] = 0xff >> r
     (the 8-r low bits) are those of dst, the others those of plain CTR. *)
  Theorem ctr_bits_preserves_tail_bits : forall iv msg bitlen dst, 16 <= length iv ->
    ctr_bits_nbytes bitlen <= length msg -> N.land bitlen 7 <> 0%N ->
    let n := ctr_bits_nbytes bitlen in
    let keep := ctr_bits_keep bitlen in
    let full := ctr_w_gen E 8 iv (firstn n msg) in
    let out := ctr_bits_gen E iv msg bitlen dst in
    length out = n /\
    firstn (n - 1) out = firstn (n - 1) full /\
    N.land (nth (n - 1) out 0%N) keep = N.land (nth (n - 1) dst 0%N) keep /\
    N.land (nth (n - 1) out 0%N) (N.lxor keep 255) =
      N.land (nth (n - 1) full 0%N) (N.lxor keep 255).
  Proof.
    intros iv msg bitlen dst Hiv Hm Hr n keep full out.
    pose proof (ctr_bits_nbytes_pos bitlen Hr) as Hn. fold n in Hn, Hm.
    split. { apply ctr_bits_length; assumption. }
    assert (Lf : length full = n).
    { unfold full. rewrite ctr_w_length, firstn_length by (try lia; assumption). lia. }
    assert (Eo : out = firstn (n - 1) full ++
                   [merge_keep keep (nth (n - 1) full 0%N) (nth (n - 1) dst 0%N)]).
    { unfold out. rewrite ctr_bits_gen_unfold. cbv zeta. fold n. fold full.
      apply N.eqb_neq in Hr. rewrite Hr.
      rewrite <- (firstn_all full) at 1. rewrite Lf.
      rewrite (firstn_snoc_nth full n) by lia. rewrite map_last_snoc. reflexivity. }
    assert (La : length (firstn (n - 1) full) = n - 1) by (rewrite firstn_length; lia).
    rewrite Eo. split; [|split].
    - now apply firstn_app_exact.
    - rewrite <- La at 1. rewrite nth_snoc_last. apply merge_keep_low.
    - rewrite <- La at 1. rewrite nth_snoc_last. apply merge_keep_high.
  Qed.

  (* -------------------------------------------------------------------------------------- *)
  (* CFB128 (decryption uses E too); any length, incl. a partial final block *)

  Lemma cfb_loops_inv : forall cs fb, chunked 16 cs -> length fb = 16 ->
    cfb_dec_loop E fb (cfb_enc_loop E fb cs) = cs /\
    map (@length N) (cfb_enc_loop E fb cs) = map (@length N) cs.
  Proof.
    intros cs fb H. revert fb. induction H as [|c Hc|c cs Hc Hcs IH]; intros fb Hfb.
    - split; reflexivity.
    - cbn [cfb_enc_loop cfb_dec_loop map]. split.
      + f_equal. apply xor_bytes_involutive. rewrite E_len by assumption. lia.
      + f_equal. rewrite xor_bytes_length, E_len by assumption. lia.
    - cbn [cfb_enc_loop cfb_dec_loop map].
      assert (L : length (xor_bytes c (E fb)) = 16)
        by (rewrite xor_bytes_length, E_len by assumption; lia).
      destruct (IH _ L) as [I1 I2]. split.
      + f_equal; [|exact I1]. apply xor_bytes_involutive. rewrite E_len by assumption. lia.
      + f_equal; [lia|exact I2].
  Qed.

  Lemma cfb_dec_lengths : forall cs fb, chunked 16 cs -> length fb = 16 ->
    map (@length N) (cfb_dec_loop E fb cs) = map (@length N) cs.
  Proof.
    intros cs fb H. revert fb. induction H as [|c Hc|c cs Hc Hcs IH]; intros fb Hfb.
    - reflexivity.
    - cbn [cfb_dec_loop map]. f_equal. rewrite xor_bytes_length, E_len by assumption. lia.
    - cbn [cfb_dec_loop map]. f_equal.
      + rewrite xor_bytes_length, E_len by assumption. lia.
      + apply IH. exact Hc.
  Qed.

  Theorem cfb_dec_enc : forall iv msg, length iv = 16 ->
    cfb_dec_gen E iv (cfb_enc_gen E iv msg) = msg.
  Proof.
    intros iv msg Hiv. unfold cfb_dec_gen, cfb_enc_gen.
    pose proof (chunked_chunks 16 msg ltac:(lia)) as Hc.
    destruct (cfb_loops_inv (chunks 16 msg) iv Hc Hiv) as [I1 I2].
    rewrite chunks_of_chunked; [|lia|eapply chunked_same_lengths; eassumption].
    rewrite I1. apply chunks_concat. lia.
  Qed.

  Lemma concat_lengths : forall (a b : list bytes),
    map (@length N) a = map (@length N) b -> length (concat a) = length (concat b).
  Proof.
    induction a; destruct b; intros H; try discriminate; [reflexivity|].
    injection H as H1 H2. cbn [concat]. rewrite !app_length. f_equal; auto.
  Qed.

  Theorem cfb_enc_length : forall iv msg, length iv = 16 ->
    length (cfb_enc_gen E iv msg) = length msg.
  Proof.
    intros iv msg Hiv. unfold cfb_enc_gen.
    rewrite <- (chunks_concat 16 msg) at 2 by lia.
    apply concat_lengths. apply cfb_loops_inv; [apply chunked_chunks; lia|assumption].
  Qed.

  Theorem cfb_dec_length : forall iv msg, length iv = 16 ->
    length (cfb_dec_gen E iv msg) = length msg.
  Proof.
    intros iv msg Hiv. unfold cfb_dec_gen.
    rewrite <- (chunks_concat 16 msg) at 2 by lia.
    apply concat_lengths. apply cfb_dec_lengths; [apply chunked_chunks; lia|assumption].
  Qed.

End LengthOnly.

(* ======================================================================================== *)
(* Output lengths of the block modes that use one block function f (E or D) *)
Section BlockLengths.
  Variable f : bytes -> bytes.
  Hypothesis f_len : forall b, length b = 16 -> length (f b) = 16.

  Lemma ecb_blocks_len16 : forall bs, Forall len16 bs -> Forall len16 (ecb_blocks f bs).
  Proof. induction 1; cbn [ecb_blocks]; constructor; auto. apply f_len. assumption. Qed.

  Lemma length_concat_len16 : forall a b : list bytes, Forall len16 a -> Forall len16 b ->
    length a = length b -> length (concat a) = length (concat b).
  Proof. intros. rewrite !concat_len16 by assumption. lia. Qed.

  Lemma ecb_blocks_length : forall bs, length (ecb_blocks f bs) = length bs.
  Proof. induction bs; cbn [ecb_blocks length]; congruence. Qed.

  Theorem ecb_length : forall msg, length (ecb_gen f msg) = length msg.
  Proof.
    intros msg. unfold ecb_gen. destruct (blocks16 msg) as [bs tl] eqn:B.
    apply blocks16_spec in B. destruct B as (F & _ & C & _).
    rewrite C, !app_length. f_equal.
    apply length_concat_len16; [now apply ecb_blocks_len16|assumption|apply ecb_blocks_length].
  Qed.
End BlockLengths.

(* ======================================================================================== *)
Section RoundTrips.
  Variables E D : bytes -> bytes.
  Hypothesis E_len : forall b, length b = 16 -> length (E b) = 16.
  Hypothesis E_ok  : forall b, length b = 16 -> bytes_ok b = true -> bytes_ok (E b) = true.
  Hypothesis DE    : forall b, length b = 16 -> bytes_ok b = true -> D (E b) = b.

  Lemma E_blk : forall b, blk_ok b -> blk_ok (E b).
  Proof. intros b [L O]. split; [now apply E_len|now apply E_ok]. Qed.

  Lemma DE_blk : forall b, blk_ok b -> D (E b) = b.
  Proof. intros b [L O]. now apply DE. Qed.

  (* -------------------------------------------------------------------------------------- *)
  (* ECB *)
  Lemma ecb_blocks_inv : forall bs, Forall blk_ok bs ->
    ecb_blocks D (ecb_blocks E bs) = bs /\ Forall blk_ok (ecb_blocks E bs).
  Proof.
    induction 1 as [|b bs Hb Hbs [I1 I2]]; [split; [reflexivity|constructor]|].
    cbn [ecb_blocks]. split.
    - f_equal; [now apply DE_blk|exact I1].
    - constructor; [now apply E_blk|exact I2].
  Qed.

  Theorem ecb_dec_enc : forall msg, bytes_ok msg = true ->
    ecb_dec_gen D (ecb_enc_gen E msg) = msg.
  Proof.
    intros msg Ok. unfold ecb_dec_gen, ecb_enc_gen, ecb_gen.
    destruct (blocks16 msg) as [bs tl] eqn:B.
    destruct (blocks16_blk_ok _ _ _ Ok B) as (F & Ot & Lt & C).
    destruct (ecb_blocks_inv bs F) as [I1 I2].
    rewrite blocks16_concat by (try apply Forall_blk_ok_len16; assumption).
    rewrite I1. now symmetry.
  Qed.

  (* -------------------------------------------------------------------------------------- *)
  (* CBC *)
  Lemma cbc_blocks_inv : forall bs ch, Forall blk_ok bs -> blk_ok ch ->
    cbc_dec_blocks D ch (cbc_enc_blocks E ch bs) = bs /\ Forall blk_ok (cbc_enc_blocks E ch bs).
  Proof.
    intros bs ch H. revert ch. induction H as [|b bs Hb Hbs IH]; intros ch Hch.
    - split; [reflexivity|constructor].
    - cbn [cbc_enc_blocks cbc_dec_blocks].
      assert (Hx : blk_ok (xor_bytes b ch)) by now apply blk_ok_xor.
      assert (Hc : blk_ok (E (xor_bytes b ch))) by now apply E_blk.
      destruct (IH _ Hc) as [I1 I2]. split.
      + f_equal; [|exact I1]. rewrite DE_blk by assumption.
        apply xor_bytes_involutive. destruct Hb, Hch. lia.
      + constructor; assumption.
  Qed.

  Theorem cbc_dec_enc : forall iv msg, length iv = 16 -> bytes_ok iv = true ->
    bytes_ok msg = true ->
    cbc_dec_gen D iv (cbc_enc_gen E iv msg) = msg.
  Proof.
    intros iv msg Li Oi Ok. unfold cbc_dec_gen, cbc_enc_gen.
    destruct (blocks16 msg) as [bs tl] eqn:B.
    destruct (blocks16_blk_ok _ _ _ Ok B) as (F & Ot & Lt & C).
    destruct (cbc_blocks_inv bs iv F (conj Li Oi)) as [I1 I2].
    rewrite blocks16_concat by (try apply Forall_blk_ok_len16; assumption).
    rewrite I1. now symmetry.
  Qed.

  Lemma cbc_enc_blocks_length : forall bs ch, length (cbc_enc_blocks E ch bs) = length bs.
  Proof. induction bs; intros; cbn [cbc_enc_blocks length]; [reflexivity|]. now rewrite IHbs. Qed.

  Lemma cbc_enc_blocks_len16 : forall bs ch, Forall len16 bs -> length ch = 16 ->
    Forall len16 (cbc_enc_blocks E ch bs).
  Proof.
    intros bs ch H. revert ch. induction H as [|b bs Hb Hbs IH]; intros ch Hch; [constructor|].
    cbn [cbc_enc_blocks].
    assert (L : length (E (xor_bytes b ch)) = 16)
      by (apply E_len; rewrite xor_bytes_length, Hb, Hch; reflexivity).
    constructor; [exact L|now apply IH].
  Qed.

  Theorem cbc_enc_length : forall iv msg, length iv = 16 ->
    length (cbc_enc_gen E iv msg) = length msg.
  Proof.
    intros iv msg Li. unfold cbc_enc_gen. destruct (blocks16 msg) as [bs tl] eqn:B.
    apply blocks16_spec in B. destruct B as (F & _ & C & _).
    rewrite C, !app_length. f_equal.
    apply length_concat_len16; [now apply cbc_enc_blocks_len16|assumption|].
    apply cbc_enc_blocks_length.
  Qed.

  (* -------------------------------------------------------------------------------------- *)
  (* DOCSIS SEC BPI: CBC on the whole blocks + CFB residual termination; every length *)
  Lemma last_Forall : forall (P : bytes -> Prop) l d, Forall P l -> P d -> P (last l d).
  Proof.
    intros P l d H Hd. induction H as [|x l Hx Hl IH]; [exact Hd|].
    destruct l; [exact Hx|]. exact IH.
  Qed.

  Lemma xor_tail_len : forall tl k, length tl < 16 -> length k = 16 ->
    length (xor_bytes tl k) = length tl.
  Proof. intros. rewrite xor_bytes_length. lia. Qed.

  Lemma match_nonnil : forall (A B : Type) (l : list A) (x y : B), l <> [] ->
    match l with [] => x | _ :: _ => y end = y.
  Proof. intros A B [|a l] x y H; [congruence|reflexivity]. Qed.

  Theorem docsis_dec_enc : forall iv msg, length iv = 16 -> bytes_ok iv = true ->
    bytes_ok msg = true ->
    docsis_dec_gen E D iv (docsis_enc_gen E iv msg) = msg.
  Proof.
    intros iv msg Li Oi Ok. unfold docsis_enc_gen.
    destruct (blocks16 msg) as [bs tl] eqn:B.
    destruct (blocks16_blk_ok _ _ _ Ok B) as (F & Ot & Lt & C).
    assert (Hiv : blk_ok iv) by (split; assumption).
    destruct bs as [|b0 bs'].
    - (* fewer than 16 bytes: xor with E(iv) *)
      cbn [concat app] in C. subst tl.
      destruct msg as [|x m]; [reflexivity|].
      set (ct := xor_bytes (x :: m) (E iv)).
      assert (Lc : length ct = length (x :: m))
        by (apply xor_tail_len; [assumption|now apply E_len]).
      unfold docsis_dec_gen.
      change ct with (concat [] ++ ct). rewrite blocks16_concat; [|constructor|lia].
      cbn [concat app]. destruct ct as [|y c] eqn:Ec; [simpl in Lc; lia|].
      rewrite <- Ec. unfold ct. apply xor_bytes_involutive. rewrite E_len by assumption. lia.
    - (* at least one whole block *)
      set (bs := b0 :: bs') in *.
      destruct (cbc_blocks_inv bs iv F Hiv) as [I1 I2].
      set (cs := cbc_enc_blocks E iv bs) in *.
      assert (Hl : blk_ok (last cs iv)) by (apply last_Forall; assumption).
      set (t' := match tl with [] => [] | _ => xor_bytes tl (E (last cs iv)) end).
      assert (Lt' : length t' = length tl).
      { unfold t'. destruct tl; [reflexivity|]. apply xor_tail_len; [assumption|].
        apply E_len. apply Hl. }
      change (match bs with [] => match tl with [] => [] | _ => xor_bytes tl (E iv) end
                       | _ => concat cs ++ t' end) with (concat cs ++ t').
      unfold docsis_dec_gen.
      rewrite blocks16_concat by (try apply Forall_blk_ok_len16; try assumption; lia).
      assert (Hcs : cs <> []).
      { unfold cs, bs. cbn [cbc_enc_blocks]. discriminate. }
      rewrite (match_nonnil _ _ cs) by exact Hcs.
      rewrite I1. rewrite C. f_equal.
      destruct tl as [|y tl0].
      + unfold t'. reflexivity.
      + rewrite (match_nonnil _ _ t') by (apply nonnil_length; rewrite Lt'; simpl; lia).
        unfold t'. apply xor_bytes_involutive. rewrite E_len by apply Hl. lia.
  Qed.

  Theorem docsis_enc_length : forall iv msg, length iv = 16 ->
    length (docsis_enc_gen E iv msg) = length msg.
  Proof.
    intros iv msg Li. unfold docsis_enc_gen.
    destruct (blocks16 msg) as [bs tl] eqn:B.
    apply blocks16_spec in B. destruct B as (F & Lt & C & _).
    destruct bs as [|b0 bs'].
    - cbn [concat app] in C. subst tl. destruct msg; [reflexivity|].
      apply xor_tail_len; [assumption|now apply E_len].
    - set (bs := b0 :: bs') in *. rewrite C, !app_length. f_equal.
      + apply length_concat_len16; [now apply cbc_enc_blocks_len16|assumption|].
        apply cbc_enc_blocks_length.
      + destruct tl; [reflexivity|]. apply xor_tail_len; [assumption|].
        apply E_len. apply (last_Forall len16); [now apply cbc_enc_blocks_len16|assumption].
  Qed.

  (* -------------------------------------------------------------------------------------- *)
  (* CBCS 1:9 *)
  Lemma cbcs_blocks_inv : forall bs ch k, Forall blk_ok bs -> blk_ok ch ->
    cbcs_dec_blocks D ch k (cbcs_enc_blocks E ch k bs) = bs
    /\ Forall blk_ok (cbcs_enc_blocks E ch k bs).
  Proof.
    intros bs ch k H. revert ch k. induction H as [|b bs Hb Hbs IH]; intros ch k Hch.
    - split; [reflexivity|constructor].
    - destruct k as [|k]; cbn [cbcs_enc_blocks cbcs_dec_blocks].
      + assert (Hx : blk_ok (xor_bytes b ch)) by now apply blk_ok_xor.
        assert (Hc : blk_ok (E (xor_bytes b ch))) by now apply E_blk.
        destruct (IH _ 9 Hc) as [I1 I2]. split.
        * f_equal; [|exact I1]. rewrite DE_blk by assumption.
          apply xor_bytes_involutive. destruct Hb, Hch. lia.
        * constructor; assumption.
      + destruct (IH _ k Hch) as [I1 I2]. split; [now f_equal|constructor; assumption].
  Qed.

  Theorem cbcs_dec_enc : forall iv msg, length iv = 16 -> bytes_ok iv = true ->
    bytes_ok msg = true ->
    cbcs_dec_gen D iv (cbcs_enc_gen E iv msg) = msg.
  Proof.
    intros iv msg Li Oi Ok. unfold cbcs_dec_gen, cbcs_enc_gen.
    destruct (blocks16 msg) as [bs tl] eqn:B.
    destruct (blocks16_blk_ok _ _ _ Ok B) as (F & Ot & Lt & C).
    destruct (cbcs_blocks_inv bs iv 0 F (conj Li Oi)) as [I1 I2].
    rewrite blocks16_concat by (try apply Forall_blk_ok_len16; assumption).
    rewrite I1. now symmetry.
  Qed.

  Lemma cbcs_enc_blocks_length : forall bs ch k, length (cbcs_enc_blocks E ch k bs) = length bs.
  Proof.
    induction bs; intros ch k; [reflexivity|].
    destruct k; cbn [cbcs_enc_blocks length]; now rewrite IHbs.
  Qed.

  Lemma cbcs_enc_blocks_len16 : forall bs ch k, Forall len16 bs -> length ch = 16 ->
    Forall len16 (cbcs_enc_blocks E ch k bs).
  Proof.
    intros bs ch k H. revert ch k. induction H as [|b bs Hb Hbs IH]; intros ch k Hch; [constructor|].
    destruct k; cbn [cbcs_enc_blocks].
    - assert (L : length (E (xor_bytes b ch)) = 16)
        by (apply E_len; rewrite xor_bytes_length, Hb, Hch; reflexivity).
      constructor; [exact L|now apply IH].
    - constructor; [exact Hb|now apply IH].
  Qed.

  Theorem cbcs_enc_length : forall iv msg, length iv = 16 ->
    length (cbcs_enc_gen E iv msg) = length msg.
  Proof.
    intros iv msg Li. unfold cbcs_enc_gen. destruct (blocks16 msg) as [bs tl] eqn:B.
    apply blocks16_spec in B. destruct B as (F & _ & C & _).
    rewrite C, !app_length. f_equal.
    apply length_concat_len16; [now apply cbcs_enc_blocks_len16|assumption|].
    apply cbcs_enc_blocks_length.
  Qed.

  Lemma cbcs_last_blocks_enc : forall bs ch k,
    cbcs_last_blocks ch k (cbcs_enc_blocks E ch k bs) = cbcs_enc_final_chain E ch k bs.
  Proof.
    induction bs as [|b bs IH]; intros ch k; [reflexivity|].
    destruct k; cbn [cbcs_enc_blocks cbcs_last_blocks cbcs_enc_final_chain]; apply IH.
  Qed.

  (* next_iv computed from the ciphertext = final chaining value of the encryption *)
  Theorem cbcs_next_iv_enc : forall iv msg, length iv = 16 ->
    cbcs_next_iv iv (cbcs_enc_gen E iv msg) =
    cbcs_enc_final_chain E iv 0 (fst (blocks16 msg)).
  Proof.
    intros iv msg Li. unfold cbcs_next_iv, cbcs_enc_gen.
    destruct (blocks16 msg) as [bs tl] eqn:B.
    apply blocks16_spec in B. destruct B as (F & Lt & C & _).
    rewrite blocks16_concat by (try apply cbcs_enc_blocks_len16; assumption).
    cbn [fst]. apply cbcs_last_blocks_enc.
  Qed.
End RoundTrips.

(* ---------------------------------------------------------------------------------------- *)
(* next_iv is the last ciphertext block whose index is a multiple of 10 *)

Lemma cbcs_last_blocks_index : forall bs ch k,
  cbcs_last_blocks ch k bs =
  if Nat.leb (length bs) k then ch
  else nth (k + 10 * ((length bs - k - 1) / 10)) bs [].
Proof.
  induction bs as [|c r IH]; intros ch k; [reflexivity|].
  destruct k as [|k]; cbn [cbcs_last_blocks].
  - rewrite IH. cbn [length Nat.leb].
    destruct (Nat.leb (length r) 9) eqn:E9.
    + apply Nat.leb_le in E9.
      replace ((S (length r) - 0 - 1) / 10) with 0 by (symmetry; apply Nat.div_small; lia).
      reflexivity.
    + apply Nat.leb_gt in E9.
      replace (S (length r) - 0 - 1) with ((length r - 9 - 1) + 1 * 10) by lia.
      rewrite Nat.div_add by lia.
      replace (0 + 10 * ((length r - 9 - 1) / 10 + 1)) with (S (9 + 10 * ((length r - 9 - 1) / 10))) by lia.
      reflexivity.
  - rewrite IH. cbn [length Nat.leb].
    destruct (Nat.leb (length r) k); [reflexivity|].
    replace (S (length r) - S k - 1) with (length r - k - 1) by lia. reflexivity.
Qed.

Theorem cbcs_next_iv_is_last_cipher_block : forall iv ct, 16 <= length ct ->
  let blocks := fst (blocks16 ct) in
  cbcs_next_iv iv ct = nth (10 * ((length blocks - 1) / 10)) blocks [].
Proof.
  intros iv ct H blocks. unfold cbcs_next_iv. fold blocks.
  rewrite cbcs_last_blocks_index.
  assert (0 < length blocks).
  { unfold blocks. destruct (blocks16 ct) as [bs tl] eqn:B. apply blocks16_spec in B.
    destruct B as (_ & _ & _ & L). cbn [fst]. rewrite L.
    apply Nat.div_str_pos. lia. }
  destruct (Nat.leb (length blocks) 0) eqn:E0; [apply Nat.leb_le in E0; lia|].
  replace (length blocks - 0 - 1) with (length blocks - 1) by lia. reflexivity.
Qed.

(* all output-length facts, for one length-preserving block function *)
Theorem mode_output_lengths :
  forall E : bytes -> bytes,
  (forall b, length b = 16 -> length (E b) = 16) ->
  (forall msg, length (ecb_gen E msg) = length msg) /\
  (forall iv msg, length iv = 16 -> length (cbc_enc_gen E iv msg) = length msg) /\
  (forall iv msg, length iv = 12 \/ length iv = 16 -> length (ctr_gen E iv msg) = length msg) /\
  (forall iv msg bitlen dst, 16 <= length iv -> ctr_bits_nbytes bitlen <= length msg ->
     length (ctr_bits_gen E iv msg bitlen dst) = ctr_bits_nbytes bitlen) /\
  (forall iv msg, length iv = 16 -> length (cfb_enc_gen E iv msg) = length msg) /\
  (forall iv msg, length iv = 16 -> length (cfb_dec_gen E iv msg) = length msg) /\
  (forall iv msg, length iv = 16 -> length (docsis_enc_gen E iv msg) = length msg) /\
  (forall iv msg, length iv = 16 -> length (cbcs_enc_gen E iv msg) = length msg).
Proof.
  intros E H. repeat split.
  - now apply ecb_length.
  - now apply cbc_enc_length.
  - now apply ctr_length.
  - now apply ctr_bits_length.
  - now apply cfb_enc_length.
  - now apply cfb_dec_length.
  - now apply docsis_enc_length.
  - now apply cbcs_enc_length.
Qed.
