(* C13 -- the obligation [family_ok] holds for every manager family of Mgr/SafeDataInst.v, hence the
   theorems of Proofs/SafeDataProofs.v apply to each of them without side condition. *)
From Coq Require Import List Bool String.
From IMB Require Import Mgr.SafeData Mgr.SafeDataInst Proofs.SafeDataProofs.
Import ListNotations.

(* a check over the COMPLETE finite list [instances] (123 manager x architecture pairs) *)
Lemma instances_ok_true : instances_ok = true.
Proof. vm_compute. reflexivity. Qed.

Lemma instance_family_ok : forall i, In i instances -> family_ok (i_fam i) = true.
Proof.
  intros i Hin. pose proof instances_ok_true as H. unfold instances_ok in H.
  rewrite forallb_forall in H. apply H. exact Hin.
Qed.

Theorem instances_clean_when_idle_lemma :
  forall (i : instance), In i instances ->
  forall (n : nat) (ops : list op) (s : state),
    run (i_fam i) (reset_state (i_fam i) n) ops = Some s ->
    idle s ->
    forall ln k f,
      In ln s -> nth_error (i_fam i) k = Some f -> claim f = true ->
      (k_junk f = false -> nth_error (l_fld ln) k = nth_error (l_fld (reset_lane (i_fam i))) k) /\
      (forall j, nth_error (l_fld ln) k <> Some (Data j)).
Proof.
  intros i Hin n ops s Hrun Hidle ln k f Hl Hf Hcl. split.
  - intros Hk.
    exact (ooo_clean_when_idle_lemma (i_fam i) n ops s (instance_family_ok i Hin) Hrun Hidle
                                     ln k f Hl Hf Hcl Hk).
  - intros j.
    exact (ooo_idle_holds_no_job_data_lemma (i_fam i) n ops s (instance_family_ok i Hin) Hrun Hidle
                                            ln k f j Hl Hf Hcl).
Qed.

Theorem instances_lane_clean_after_completion_lemma :
  forall (i : instance), In i instances ->
  forall (n : nat) (ops : list op) (s s' : state) (o : op) (c : nat),
    run (i_fam i) (reset_state (i_fam i) n) ops = Some s ->
    step (i_fam i) s o = Some s' ->
    completes o c ->
    exists lc,
      nth_error s' c = Some lc /\ l_job lc = None /\
      forall k f, nth_error (i_fam i) k = Some f -> claim f = true ->
                  nth_error (l_fld lc) k = nth_error (l_fld (reset_lane (i_fam i))) k.
Proof.
  intros i Hin n ops s s' o c Hrun Hstep Hc.
  exact (ooo_lane_clean_after_completion_lemma (i_fam i) n ops s s' o c
           (instance_family_ok i Hin) Hrun Hstep Hc).
Qed.
