(* Proofs/AesLenProofs.v — the AES block function of Spec/AES.v maps 16-byte blocks to 16-byte
   blocks for EVERY key (any length: for lengths other than 16/24/32 the schedule is empty and
   the block function is the identity).  This is the only fact about AES the AEAD round-trip
   theorems (Proofs/AeadProofs.v) need; no S-box or field arithmetic is evaluated. *)
From Coq Require Import List NArith Bool Lia Arith PeanoNat.
From IMB Require Import Lib.Bytes Proofs.BytesLemmas Spec.AES.
Import ListNotations.

Lemma shift_rows_length s : length (shift_rows s) = length s.
Proof.
  unfold shift_rows.
  do 17 (destruct s as [|? s]; [reflexivity|]). reflexivity.
Qed.

Lemma mix_columns_length s : length (mix_columns s) = length s.
Proof.
  unfold mix_columns.
  do 17 (destruct s as [|? s]; [reflexivity|]). reflexivity.
Qed.

Lemma sub_bytes_length s : length (sub_bytes s) = length s.
Proof. apply map_length. Qed.

Lemma add_round_key_length s k : length s = 16 -> length k = 16 ->
  length (add_round_key s k) = 16.
Proof. intros Hs Hk. unfold add_round_key. rewrite xor_bytes_length, Hs, Hk. reflexivity. Qed.

Lemma aes_enc_rounds_length rks : Forall (fun k => length k = 16) rks ->
  forall s, length s = 16 -> length (aes_enc_rounds rks s) = 16.
Proof.
  induction 1 as [|k rest Hk Hrest IH]; intros s Hs; [exact Hs|].
  cbn [aes_enc_rounds]. destruct rest as [|k' rest'].
  - apply add_round_key_length; [|exact Hk]. rewrite shift_rows_length, sub_bytes_length. exact Hs.
  - apply IH. apply add_round_key_length; [|exact Hk].
    rewrite mix_columns_length, shift_rows_length, sub_bytes_length. exact Hs.
Qed.

Lemma aes_enc_rk_length rks blk : Forall (fun k => length k = 16) rks -> length blk = 16 ->
  length (aes_enc_rk rks blk) = 16.
Proof.
  intros H Hb. unfold aes_enc_rk. destruct rks as [|k0 rest]; [exact Hb|].
  inversion H; subst. apply aes_enc_rounds_length; [assumption|].
  apply add_round_key_length; assumption.
Qed.

(* ---------- key schedule: every round key has 16 bytes ---------- *)

Lemma chunks_length_mul n l k : 0 < n -> length l = k * n -> length (chunks n l) = k.
Proof.
  intros Hn. revert l. induction k as [|k IH]; intros l Hl.
  - apply length_zero_nil in Hl. subst. reflexivity.
  - rewrite chunks_cons; try assumption.
    + cbn [length]. f_equal. apply IH. rewrite skipn_length. lia.
    + destruct l; cbn [length] in *; [lia|discriminate].
Qed.

Lemma rot_word_length w : length (rot_word w) = length w.
Proof. unfold rot_word. do 5 (destruct w as [|? w]; [reflexivity|]). reflexivity. Qed.

Lemma xor_rcon_length w rc : length (xor_rcon w rc) = length w.
Proof. destruct w; reflexivity. Qed.

Lemma key_expand_loop_words n : forall nk pos rc prev,
  1 <= nk -> nk <= length prev -> Forall (fun w => length w = 4) prev ->
  Forall (fun w => length w = 4) (key_expand_loop n nk pos rc prev) /\
  length (key_expand_loop n nk pos rc prev) = n + length prev.
Proof.
  induction n as [|n IH]; intros nk pos rc prev Hnk Hlen Hw.
  - cbn [key_expand_loop]. split; [exact Hw|reflexivity].
  - cbn [key_expand_loop].
    assert (Ht : length (hd [] prev) = 4).
    { destruct prev as [|w p]; cbn [length] in Hlen; [lia|]. inversion Hw; assumption. }
    assert (Hb : length (nth (nk - 1) prev []) = 4).
    { rewrite Forall_forall in Hw. apply Hw. apply nth_In. lia. }
    remember (if Nat.eqb pos 0
                then (xor_rcon (sub_word (rot_word (hd [] prev))) rc, xtime rc)
                else if (Nat.ltb 6 nk && Nat.eqb pos 4)%bool
                     then (sub_word (hd [] prev), rc) else (hd [] prev, rc)) as sel eqn:Esel.
    assert (Hs : length (fst sel) = 4).
    { rewrite Esel. destruct (Nat.eqb pos 0).
      - cbn [fst]. unfold sub_word. rewrite xor_rcon_length, map_length, rot_word_length. exact Ht.
      - destruct (Nat.ltb 6 nk && Nat.eqb pos 4)%bool; cbn [fst].
        + unfold sub_word. rewrite map_length. exact Ht.
        + exact Ht. }
    clear Esel. destruct sel as [temp' rc']. cbn [fst] in Hs.
    assert (A1 : nk <= length (xor_bytes (nth (nk - 1) prev []) temp' :: prev))
      by (cbn [length]; apply le_S; exact Hlen).
    assert (A2 : Forall (fun w => length w = 4) (xor_bytes (nth (nk - 1) prev []) temp' :: prev)).
    { constructor; [|exact Hw]. rewrite xor_bytes_length, Hb, Hs. reflexivity. }
    destruct (IH nk (if Nat.eqb (S pos) nk then 0 else S pos) rc' _ Hnk A1 A2) as [H1 H2].
    split; [exact H1|]. etransitivity; [exact H2|]. cbn [length]. rewrite Nat.add_succ_r. reflexivity.
Qed.

Lemma group_round_keys_length fuel : forall ws, Forall (fun w => length w = 4) ws ->
  Forall (fun k => length k = 16) (group_round_keys fuel ws).
Proof.
  induction fuel as [|fuel IH]; intros ws Hw; cbn [group_round_keys]; [constructor|].
  destruct ws as [|w0 [|w1 [|w2 [|w3 t]]]]; try constructor.
  - inversion Hw as [|? ? H0 Hw1]; subst. inversion Hw1 as [|? ? H1 Hw2]; subst.
    inversion Hw2 as [|? ? H2 Hw3]; subst. inversion Hw3 as [|? ? H3 Hw4]; subst.
    rewrite !app_length, H0, H1, H2, H3. reflexivity.
  - apply IH.
    inversion Hw as [|? ? H0 Hw1]; subst. inversion Hw1 as [|? ? H1 Hw2]; subst.
    inversion Hw2 as [|? ? H2 Hw3]; subst. inversion Hw3 as [|? ? H3 Hw4]; subst. exact Hw4.
Qed.

Theorem aes_key_expand_lengths key : Forall (fun k => length k = 16) (aes_key_expand key).
Proof.
  unfold aes_key_expand, aes_rounds.
  assert (G : forall k nr, length key = k * 4 -> 1 <= k ->
              Forall (fun rk => length rk = 16)
                (group_round_keys (nr + 1)
                   (rev (key_expand_loop (4 * (nr + 1) - k) k 0 1 (rev (chunks 4 key)))))).
  { intros k nr Hk Hk1. apply group_round_keys_length. apply Forall_rev.
    apply key_expand_loop_words.
    - exact Hk1.
    - rewrite rev_length, (chunks_length_mul 4 key k) by (lia || assumption). lia.
    - apply Forall_rev. apply (chunks_Forall_length 4 key k); [lia|assumption]. }
  destruct (Nat.eqb_spec (length key) 16) as [E|E].
  - rewrite E. change (16 / 4) with 4. apply (G 4 10); [exact E|lia].
  - destruct (Nat.eqb_spec (length key) 24) as [E2|E2].
    + rewrite E2. change (24 / 4) with 6. apply (G 6 12); [exact E2|lia].
    + destruct (Nat.eqb_spec (length key) 32) as [E3|E3].
      * rewrite E3. change (32 / 4) with 8. apply (G 8 14); [exact E3|lia].
      * constructor.
Qed.

(* THEOREM: for every key (valid length or not), 16-byte blocks go to 16-byte blocks *)
Theorem aes_block_length key blk : length blk = 16 ->
  length (aes_enc_rk (aes_key_expand key) blk) = 16.
Proof. intros H. apply aes_enc_rk_length; [apply aes_key_expand_lengths|exact H]. Qed.
