(* Proofs/AesBlockLen.v — the AES block function of Spec/AES.v maps 16-byte blocks to 16-byte
   blocks for EVERY key (valid lengths: all round keys are 16 bytes; any other length: the key
   schedule is empty and the block function is the identity).  Needed to instantiate the generic
   GCM streaming theorems (hypothesis E_len) with AES. *)
From Coq Require Import List NArith Bool Lia Arith.
From IMB Require Import Lib.Bytes Spec.AES Proofs.StreamLemmas.
Import ListNotations.

Definition len_is (n : nat) (l : bytes) : Prop := length l = n.

Lemma Forall_chunks_n : forall n k l, 0 < n -> length l = n * k -> Forall (len_is n) (chunks n l).
Proof.
  intros n k. induction k; intros l Hn Hl.
  - rewrite Nat.mul_0_r in Hl. destruct l; [constructor|discriminate].
  - rewrite chunks_cons; [|assumption|destruct l; simpl in *; [nia|discriminate]].
    constructor.
    + unfold len_is. rewrite firstn_length. nia.
    + apply IHk; [assumption|]. rewrite skipn_length. nia.
Qed.

Lemma rot_word_length : forall w, length (rot_word w) = length w.
Proof. intros [|a [|b [|c [|d [|e t]]]]]; reflexivity. Qed.

Lemma sub_word_length : forall w, length (sub_word w) = length w.
Proof. intros. apply map_length. Qed.

Lemma xor_rcon_length : forall w rc, length (xor_rcon w rc) = length w.
Proof. intros [|a t] rc; reflexivity. Qed.

Lemma key_expand_loop_len4 : forall n nk pos rc prev,
  0 < nk -> nk <= length prev -> Forall (len_is 4) prev ->
  Forall (len_is 4) (key_expand_loop n nk pos rc prev).
Proof.
  induction n; intros nk pos rc prev Hnk Hlen Hall; [exact Hall|].
  cbn [key_expand_loop].
  assert (Ht : len_is 4 (hd [] prev)).
  { destruct prev as [|p0 pt]; [simpl in Hlen; lia|]. inversion Hall; assumption. }
  assert (Hb : len_is 4 (nth (nk - 1) prev [])).
  { rewrite Forall_forall in Hall. apply Hall. apply nth_In. lia. }
  unfold len_is in *.
  set (temp := hd [] prev) in *. set (back := nth (nk - 1) prev []) in *.
  assert (Hstep : forall t' rc', length t' = 4 ->
            Forall (len_is 4)
              (key_expand_loop n nk (if Nat.eqb (S pos) nk then 0 else S pos) rc' (xor_bytes back t' :: prev))).
  { intros t' rc' Ht'. apply IHn; [assumption|simpl; lia|].
    constructor; [|assumption]. unfold len_is. rewrite xor_bytes_length. lia. }
  destruct (Nat.eqb pos 0).
  - apply Hstep. rewrite xor_rcon_length, sub_word_length, rot_word_length. assumption.
  - destruct (andb (Nat.ltb 6 nk) (Nat.eqb pos 4)).
    + apply Hstep. rewrite sub_word_length. assumption.
    + apply Hstep. assumption.
Qed.

Lemma group_round_keys_len16 : forall fuel ws, Forall (len_is 4) ws ->
  Forall (len_is 16) (group_round_keys fuel ws).
Proof.
  induction fuel; intros ws Hall; [constructor|].
  cbn [group_round_keys].
  destruct ws as [|w0 [|w1 [|w2 [|w3 t]]]]; try constructor.
  - inversion Hall as [|? ? H0 Hr0]; subst. inversion Hr0 as [|? ? H1 Hr1]; subst.
    inversion Hr1 as [|? ? H2 Hr2]; subst. inversion Hr2 as [|? ? H3 Hr3]; subst.
    unfold len_is in *. rewrite !app_length. lia.
  - apply IHfuel.
    inversion Hall as [|? ? H0 Hr0]; subst. inversion Hr0 as [|? ? H1 Hr1]; subst.
    inversion Hr1 as [|? ? H2 Hr2]; subst. inversion Hr2 as [|? ? H3 Hr3]; subst. assumption.
Qed.

Lemma aes_key_expand_len16 : forall key, Forall (len_is 16) (aes_key_expand key).
Proof.
  intros key. unfold aes_key_expand.
  destruct (aes_rounds (length key)) eqn:Er; [constructor|].
  assert (Hk : length key = 16 \/ length key = 24 \/ length key = 32).
  { unfold aes_rounds in Er.
    destruct (Nat.eqb_spec (length key) 16); [auto|].
    destruct (Nat.eqb_spec (length key) 24); [auto|].
    destruct (Nat.eqb_spec (length key) 32); [auto|discriminate]. }
  apply group_round_keys_len16. apply Forall_rev.
  set (nk := Nat.div (length key) 4).
  assert (Hnk : length key = 4 * nk /\ 0 < nk).
  { subst nk. destruct Hk as [H|[H|H]]; rewrite H; cbn; lia. }
  destruct Hnk as [Hnk1 Hnk2].
  apply key_expand_loop_len4.
  - assumption.
  - rewrite rev_length. rewrite (chunks_length_mul 4 key nk) by (auto; lia). lia.
  - apply Forall_rev. apply (Forall_chunks_n 4 nk); [lia|assumption].
Qed.

Lemma shift_rows_length : forall s, length (shift_rows s) = length s.
Proof.
  intros s. unfold shift_rows.
  do 17 (destruct s as [|? s]; [reflexivity|]). reflexivity.
Qed.

Lemma mix_columns_length : forall s, length (mix_columns s) = length s.
Proof.
  intros s. unfold mix_columns.
  do 17 (destruct s as [|? s]; [reflexivity|]). reflexivity.
Qed.

Lemma sub_bytes_length : forall s, length (sub_bytes s) = length s.
Proof. intros. apply map_length. Qed.

Lemma aes_enc_rounds_len : forall rks s, Forall (len_is 16) rks -> length s = 16 ->
  length (aes_enc_rounds rks s) = 16.
Proof.
  induction rks as [|k rest IH]; intros s Hall Hs; [exact Hs|].
  inversion Hall as [|? ? Hk Hr]; subst. unfold len_is in Hk.
  cbn [aes_enc_rounds]. destruct rest as [|k2 rest'].
  - unfold add_round_key. rewrite xor_bytes_length, shift_rows_length, sub_bytes_length. lia.
  - apply IH; [assumption|].
    unfold add_round_key. rewrite xor_bytes_length, mix_columns_length, shift_rows_length, sub_bytes_length. lia.
Qed.

Theorem aes_enc_rk_len : forall key b, length b = 16 -> length (aes_enc_rk (aes_key_expand key) b) = 16.
Proof.
  intros key b Hb. pose proof (aes_key_expand_len16 key) as Hall.
  unfold aes_enc_rk. destruct (aes_key_expand key) as [|k0 rest]; [exact Hb|].
  inversion Hall as [|? ? Hk Hr]; subst. unfold len_is in Hk.
  apply aes_enc_rounds_len; [assumption|].
  unfold add_round_key. rewrite xor_bytes_length. lia.
Qed.
