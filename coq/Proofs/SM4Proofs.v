(* Proofs/SM4Proofs.v — C01: SM4 decryption (same network, reversed round keys) inverts SM4
   encryption, for ANY round-key list (structural: generalised Feistel), hence SM4-ECB/CBC
   decrypt what they encrypt and SM4-CTR is an involution, for all keys, IVs, messages. *)
From Coq Require Import List NArith Bool Lia Arith Btauto.
From IMB Require Import Lib.Bytes Spec.SM4 Proofs.C01Lists.
Import ListNotations.
Local Open Scope N_scope.

(* ---------------------------------------------------------------------------------------- *)
(* generalised Feistel inversion, independent of the round function T *)

Definition rev4 (x : N * N * N * N) : N * N * N * N :=
  let '(a, b, c, d) := x in (d, c, b, a).

Lemma sm4_round_rev_inv : forall x rk, sm4_round (rev4 (sm4_round x rk)) rk = rev4 x.
Proof.
  intros [[[x0 x1] x2] x3] rk. unfold sm4_round, rev4.
  replace (N.lxor (N.lxor x3 x2) (N.lxor x1 rk)) with (N.lxor (N.lxor x1 x2) (N.lxor x3 rk)).
  - rewrite N.lxor_assoc, N.lxor_nilpotent, N.lxor_0_r. reflexivity.
  - apply N.bits_inj. intro i. rewrite !N.lxor_spec. btauto.
Qed.

Lemma sm4_rounds_rev_inv : forall rks x, sm4_rounds (rev rks) (rev4 (sm4_rounds rks x)) = rev4 x.
Proof.
  unfold sm4_rounds. induction rks as [|k rks IH]; intros x; [reflexivity|].
  cbn [rev fold_left]. rewrite fold_left_app. cbn [fold_left]. rewrite IH.
  apply sm4_round_rev_inv.
Qed.

(* ---------------------------------------------------------------------------------------- *)
(* all state words stay 32-bit *)

Definition st_ok (x : N * N * N * N) : Prop :=
  let '(a, b, c, d) := x in a < 2 ^ 32 /\ b < 2 ^ 32 /\ c < 2 ^ 32 /\ d < 2 ^ 32.

Lemma w32_lt : forall x, w32 x < 2 ^ 32.
Proof.
  intros. unfold w32, mask32. change 4294967295 with (N.ones 32). rewrite N.land_ones.
  apply N.mod_lt. discriminate.
Qed.

Lemma w32_small : forall x, x < 2 ^ 32 -> w32 x = x.
Proof.
  intros. unfold w32, mask32. change 4294967295 with (N.ones 32). rewrite N.land_ones.
  now apply N.mod_small.
Qed.

Lemma rotl32_lt : forall x n, rotl32 x n < 2 ^ 32.
Proof. intros. unfold rotl32. apply w32_lt. Qed.

(* the S-box table: complete sweep over the 16 x 16 (row, column) index pairs *)
Lemma sm4_sbox_sweep :
  forallb (fun r => forallb (fun c => nth c (nth r sm4_sbox []) 0 <? 256) (seq 0 16)) (seq 0 16)
  = true.
Proof. vm_compute. reflexivity. Qed.

Lemma land15_lt : forall x, (N.to_nat (N.land x 15) < 16)%nat.
Proof.
  intros. change 15 with (N.ones 4). rewrite N.land_ones.
  assert (x mod 2 ^ 4 < 2 ^ 4) by (apply N.mod_lt; discriminate).
  change (2 ^ 4) with 16 in *. lia.
Qed.

Lemma sm4_S_lt : forall b, sm4_S b < 256.
Proof.
  intros b. unfold sm4_S.
  pose proof sm4_sbox_sweep as H. rewrite forallb_forall in H.
  specialize (H (N.to_nat (N.land (N.shiftr b 4) 15))
                ltac:(apply in_seq; pose proof (land15_lt (N.shiftr b 4)); lia)).
  rewrite forallb_forall in H.
  specialize (H (N.to_nat (N.land b 15)) ltac:(apply in_seq; pose proof (land15_lt b); lia)).
  now apply N.ltb_lt.
Qed.

Lemma lt_pow2_bits : forall x n, (forall i, n <= i -> N.testbit x i = false) -> x < 2 ^ n.
Proof.
  intros x n H. destruct (N.eq_dec x 0) as [->|Hx]. { apply N.neq_0_lt_0. now apply N.pow_nonzero. }
  apply N.log2_lt_pow2; [lia|].
  destruct (N.lt_ge_cases (N.log2 x) n) as [L|L]; [exact L|].
  specialize (H _ L). rewrite N.bit_log2 in H by assumption. discriminate.
Qed.

Lemma bits_above : forall x n i, x < 2 ^ n -> n <= i -> N.testbit x i = false.
Proof.
  intros x n i Hx Hi. destruct (N.eq_dec x 0) as [->|Hx0]; [apply N.bits_0|].
  apply N.bits_above_log2. assert (N.log2 x < n) by (apply N.log2_lt_pow2; lia). lia.
Qed.

Lemma shiftl_byte_lt : forall x k, x < 256 -> N.shiftl x k < 2 ^ (8 + k).
Proof.
  intros x k H. apply lt_pow2_bits. intros i Hi.
  rewrite N.shiftl_spec_high' by lia. apply (bits_above x 8); [exact H|lia].
Qed.

Lemma lor_lt_pow2 : forall n a b, a < 2 ^ n -> b < 2 ^ n -> N.lor a b < 2 ^ n.
Proof.
  intros n a b Ha Hb. apply lt_pow2_bits. intros i Hi. rewrite N.lor_spec.
  now rewrite (bits_above a n), (bits_above b n).
Qed.

Lemma sm4_tau_lt : forall a, sm4_tau a < 2 ^ 32.
Proof.
  intros a. unfold sm4_tau.
  repeat apply lor_lt_pow2.
  - apply (shiftl_byte_lt _ 24), sm4_S_lt.
  - eapply N.lt_trans; [apply (shiftl_byte_lt _ 16), sm4_S_lt|reflexivity].
  - eapply N.lt_trans; [apply (shiftl_byte_lt _ 8), sm4_S_lt|reflexivity].
  - eapply N.lt_trans; [apply sm4_S_lt|reflexivity].
Qed.

Lemma sm4_T_lt : forall a, sm4_T a < 2 ^ 32.
Proof.
  intros a. unfold sm4_T, sm4_L.
  repeat apply lxor_lt_pow2; try apply rotl32_lt. apply sm4_tau_lt.
Qed.

Lemma sm4_round_ok : forall x rk, st_ok x -> st_ok (sm4_round x rk).
Proof.
  intros [[[x0 x1] x2] x3] rk (H0 & H1 & H2 & H3). unfold sm4_round, st_ok.
  repeat split; try assumption. apply lxor_lt_pow2; [assumption|apply sm4_T_lt].
Qed.

Lemma sm4_rounds_ok : forall rks x, st_ok x -> st_ok (sm4_rounds rks x).
Proof.
  unfold sm4_rounds. induction rks as [|k rks IH]; intros x H; [exact H|].
  cbn [fold_left]. apply IH. now apply sm4_round_ok.
Qed.

(* ---------------------------------------------------------------------------------------- *)
(* serialisation *)

Lemma be32_length : forall x, length (be32 x) = 4%nat.
Proof. intros. apply N_to_be_length. Qed.

Lemma be_to_N_be32 : forall x, be_to_N (be32 x) = w32 x.
Proof. intros. unfold be32. rewrite be_to_N_N_to_be. reflexivity. Qed.

Lemma sm4_crypt_rk_length : forall rks blk, length (sm4_crypt_rk rks blk) = 16%nat.
Proof.
  intros. unfold sm4_crypt_rk.
  destruct (sm4_rounds rks _) as [[[a b] c] d]. rewrite !app_length, !be32_length. reflexivity.
Qed.

Lemma sm4_crypt_rk_ok : forall rks blk, bytes_ok (sm4_crypt_rk rks blk) = true.
Proof.
  intros. unfold sm4_crypt_rk.
  destruct (sm4_rounds rks _) as [[[a b] c] d].
  unfold be32. do 3 (apply bytes_ok_app; split; [apply N_to_be_ok|]). apply N_to_be_ok.
Qed.

Definition sm4_load (blk : bytes) : N * N * N * N :=
  (w32 (word_be_at blk 0), w32 (word_be_at blk 1), w32 (word_be_at blk 2), w32 (word_be_at blk 3)).
Definition sm4_store (x : N * N * N * N) : bytes :=
  let '(a, b, c, d) := x in be32 a ++ be32 b ++ be32 c ++ be32 d.

Lemma sm4_crypt_rk_alt : forall rks blk,
  sm4_crypt_rk rks blk = sm4_store (rev4 (sm4_rounds rks (sm4_load blk))).
Proof.
  intros. unfold sm4_crypt_rk, sm4_load.
  destruct (sm4_rounds rks _) as [[[a b] c] d]. reflexivity.
Qed.

Lemma sm4_load_ok : forall blk, st_ok (sm4_load blk).
Proof. intros. unfold sm4_load, st_ok. repeat split; apply w32_lt. Qed.

Lemma sm4_load_store : forall x, st_ok x -> sm4_load (sm4_store x) = x.
Proof.
  intros [[[a b] c] d] (Ha & Hb & Hc & Hd). unfold sm4_load, sm4_store, word_be_at.
  change (4 * 0)%nat with 0%nat. change (4 * 1)%nat with 4%nat.
  change (4 * 2)%nat with (4 + 4)%nat. change (4 * 3)%nat with (4 + (4 + 4))%nat.
  rewrite <- !skipn_skipn_add. rewrite !skipn_O.
  rewrite !(skipn_app_exact _ (be32 a)) by (now rewrite be32_length).
  rewrite !(skipn_app_exact _ (be32 b)) by (now rewrite be32_length).
  rewrite !(skipn_app_exact _ (be32 c)) by (now rewrite be32_length).
  rewrite !firstn_app_exact by (now rewrite be32_length).
  rewrite (firstn_all2 (n := 4) (be32 d)) by (rewrite be32_length; lia).
  rewrite !be_to_N_be32.
  rewrite !(w32_small (w32 _)) by apply w32_lt.
  now rewrite !w32_small by assumption.
Qed.

Lemma firstn4_be32 : forall l, length l = 4%nat -> bytes_ok l = true ->
  be32 (w32 (be_to_N l)) = l.
Proof.
  intros l L O. rewrite w32_small.
  - unfold be32. rewrite <- L. now apply N_to_be_be_to_N.
  - pose proof (be_to_N_lt l) as H. rewrite L in H. exact H.
Qed.

Lemma sm4_store_load : forall blk, length blk = 16%nat -> bytes_ok blk = true ->
  sm4_store (sm4_load blk) = blk.
Proof.
  intros blk L O. unfold sm4_load, sm4_store, word_be_at.
  change (4 * 0)%nat with 0%nat. change (4 * 1)%nat with 4%nat.
  change (4 * 2)%nat with (4 + 4)%nat. change (4 * 3)%nat with (4 + (4 + 4))%nat.
  rewrite <- !skipn_skipn_add. change (skipn 0 blk) with blk.
  set (t1 := skipn 4 blk). set (t2 := skipn 4 t1). set (t3 := skipn 4 t2).
  assert (L1 : length t1 = 12%nat) by (unfold t1; rewrite skipn_length; lia).
  assert (L2 : length t2 = 8%nat) by (unfold t2; rewrite skipn_length; lia).
  assert (L3 : length t3 = 4%nat) by (unfold t3; rewrite skipn_length; lia).
  assert (O1 : bytes_ok t1 = true) by now apply bytes_ok_skipn.
  assert (O2 : bytes_ok t2 = true) by now apply bytes_ok_skipn.
  assert (O3 : bytes_ok t3 = true) by now apply bytes_ok_skipn.
  rewrite !firstn4_be32 by (try (rewrite firstn_length; lia); now apply bytes_ok_firstn).
  rewrite (firstn_all2 (n := 4) t3) by lia.
  unfold t3. rewrite firstn_skipn. unfold t2. rewrite firstn_skipn. unfold t1. apply firstn_skipn.
Qed.

(* ---------------------------------------------------------------------------------------- *)
(* the block theorem: any round-key list *)

Theorem sm4_crypt_rk_inv : forall rks blk, length blk = 16%nat -> bytes_ok blk = true ->
  sm4_crypt_rk (rev rks) (sm4_crypt_rk rks blk) = blk.
Proof.
  intros rks blk L O. rewrite !sm4_crypt_rk_alt.
  assert (H : st_ok (sm4_rounds rks (sm4_load blk))) by (apply sm4_rounds_ok, sm4_load_ok).
  rewrite sm4_load_store.
  - rewrite sm4_rounds_rev_inv.
    destruct (sm4_load blk) as [[[a b] c] d] eqn:E. cbn [rev4]. rewrite <- E.
    now apply sm4_store_load.
  - destruct (sm4_rounds rks (sm4_load blk)) as [[[a b] c] d]. unfold st_ok in *. cbn [rev4]. tauto.
Qed.

Lemma sm4_crypt_rk_inv' : forall rks blk, length blk = 16%nat -> bytes_ok blk = true ->
  sm4_crypt_rk rks (sm4_crypt_rk (rev rks) blk) = blk.
Proof.
  intros rks blk L O. rewrite <- (rev_involutive rks) at 1. now apply sm4_crypt_rk_inv.
Qed.

Theorem sm4_decrypt_encrypt_block : forall key blk, length blk = 16%nat -> bytes_ok blk = true ->
  sm4_decrypt_block key (sm4_encrypt_block key blk) = blk.
Proof. intros. unfold sm4_decrypt_block, sm4_encrypt_block. now apply sm4_crypt_rk_inv. Qed.

(* ---------------------------------------------------------------------------------------- *)
(* modes *)
Close Scope N_scope.

Definition full16 (cs : list bytes) : Prop :=
  Forall (fun c => length c = 16 /\ bytes_ok c = true) cs.

Lemma chunks16_app_block : forall y rest, length y = 16 ->
  chunks 16 (y ++ rest) = y :: chunks 16 rest.
Proof.
  intros y rest L.
  rewrite chunks_cons; [|lia|apply nonnil_length; rewrite app_length; lia].
  now rewrite firstn_app_exact, skipn_app_exact by congruence.
Qed.

Lemma sm4_ecb_roundtrip : forall rks cs, full16 cs ->
  sm4_ecb_chunks (rev rks) (chunks 16 (sm4_ecb_chunks rks cs)) = concat cs.
Proof.
  intros rks cs H. induction H as [|c cs [L O] Hcs IH]; [reflexivity|].
  cbn [sm4_ecb_chunks concat]. rewrite L. cbn [Nat.eqb].
  rewrite chunks16_app_block by apply sm4_crypt_rk_length.
  cbn [sm4_ecb_chunks]. rewrite sm4_crypt_rk_length. cbn [Nat.eqb].
  rewrite IH. f_equal. now apply sm4_crypt_rk_inv.
Qed.

Lemma full16_chunks : forall msg, bytes_ok msg = true -> length msg mod 16 = 0 ->
  full16 (chunks 16 msg).
Proof.
  intros msg Ok Hm. apply Nat.mod_divides in Hm; [|lia]. destruct Hm as [k Hk].
  pose proof (proj1 (chunks_all_full 16 k msg ltac:(lia) Hk)) as F.
  rewrite <- (chunks_concat 16 msg) in Ok by lia. apply Forall_bytes_ok_concat in Ok.
  unfold full16. rewrite Forall_forall in *. intros c Hc. split; [now apply F|now apply Ok].
Qed.

(* IMB_CIPHER_SM4_ECB *)
Theorem sm4_ecb_dec_enc : forall key msg, bytes_ok msg = true -> length msg mod 16 = 0 ->
  sm4_ecb_dec key (sm4_ecb_enc key msg) = msg.
Proof.
  intros key msg Ok Hm. unfold sm4_ecb_dec, sm4_ecb_enc.
  rewrite sm4_ecb_roundtrip by now apply full16_chunks. apply chunks_concat. lia.
Qed.

Lemma sm4_cbc_roundtrip : forall rks cs, full16 cs -> forall iv, length iv = 16 ->
  bytes_ok iv = true ->
  sm4_cbc_dec_chunks (rev rks) iv (chunks 16 (sm4_cbc_enc_chunks rks iv cs)) = concat cs.
Proof.
  intros rks cs H. induction H as [|c cs [L O] Hcs IH]; intros iv Li Oi; [reflexivity|].
  cbn [sm4_cbc_enc_chunks concat]. rewrite L. cbn [Nat.eqb].
  rewrite chunks16_app_block by apply sm4_crypt_rk_length.
  cbn [sm4_cbc_dec_chunks]. rewrite sm4_crypt_rk_length. cbn [Nat.eqb].
  rewrite IH by (try apply sm4_crypt_rk_length; apply sm4_crypt_rk_ok). f_equal.
  rewrite sm4_crypt_rk_inv.
  - apply xor_bytes_involutive. lia.
  - rewrite xor_bytes_length. lia.
  - now apply bytes_ok_xor.
Qed.

(* IMB_CIPHER_SM4_CBC *)
Theorem sm4_cbc_dec_enc : forall key iv msg, length iv = 16 -> bytes_ok iv = true ->
  bytes_ok msg = true -> length msg mod 16 = 0 ->
  sm4_cbc_dec key iv (sm4_cbc_enc key iv msg) = msg.
Proof.
  intros key iv msg Li Oi Ok Hm. unfold sm4_cbc_dec, sm4_cbc_enc.
  rewrite sm4_cbc_roundtrip by (try apply full16_chunks; assumption). apply chunks_concat. lia.
Qed.

(* IMB_CIPHER_SM4_CNTR: xor with a key stream -> involution; every length, every IV *)
Lemma sm4_ctr_chunks_xs : forall rks nonce cs ctr,
  sm4_ctr_chunks rks nonce ctr cs =
  xs_chunks N (fun c => sm4_crypt_rk rks (nonce ++ be32 c)) (fun c => add32 c 1) ctr cs.
Proof. induction cs as [|c cs IH]; intros ctr; [reflexivity|]. cbn [sm4_ctr_chunks xs_chunks]. now rewrite IH. Qed.

Theorem sm4_ctr_involutive : forall key iv msg, sm4_ctr key iv (sm4_ctr key iv msg) = msg.
Proof.
  intros key iv msg. unfold sm4_ctr. destruct (sm4_ctr_init iv) as [nonce ctr].
  rewrite !sm4_ctr_chunks_xs. apply xs_involutive; [lia|]. intros. apply sm4_crypt_rk_length.
Qed.

Theorem sm4_ctr_length : forall key iv msg, length (sm4_ctr key iv msg) = length msg.
Proof.
  intros key iv msg. unfold sm4_ctr. destruct (sm4_ctr_init iv) as [nonce ctr].
  rewrite sm4_ctr_chunks_xs. apply xs_length; [lia|]. intros. apply sm4_crypt_rk_length.
Qed.
