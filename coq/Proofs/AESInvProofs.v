(* Proofs/AESInvProofs.v — C01: the AES inverse cipher inverts the cipher.

   aes_decrypt_encrypt_block :
     forall key b, bytes_ok key = true -> length b = 16 -> bytes_ok b = true ->
       aes_decrypt_block key (aes_encrypt_block key b) = b
   for EVERY key (16/24/32 bytes: AES-128/192/256; any other length: the specification's
   block functions are the identity), via
     - InvSubBytes ∘ SubBytes = id on bytes: a sweep over the COMPLETE domain 0..255, lifted
       to all b < 256 by [byte_sweep];
     - InvShiftRows ∘ ShiftRows = id: structural;
     - AddRoundKey involutive: [xor_bytes_involutive];
     - InvMixColumns ∘ MixColumns = id: from the GF(2)-linearity of [xtime]
       ([xtime_lxor], proved for all N from the bit-level definition, no sweep) and xor
       algebra (the matrix identity M^-1 M = I holds in GF(2)[x] without reduction);
     - the round structure: induction over the round-key list (any number of rounds);
     - the key expansion produces 16-byte in-range round keys ([aes_key_expand_wf]).
   Then the AES instances of every mode round trip of Proofs/ModeProofs.v. *)
From Coq Require Import List NArith Bool Lia Arith Btauto.
From IMB Require Import Lib.Bytes Spec.AES Spec.AESModes Struct.TailOps Proofs.C01Lists Proofs.ModeProofs.
Import ListNotations.
Local Open Scope N_scope.

(* ---------------------------------------------------------------------------------------- *)
(* complete sweep over the 256 byte values, lifted to a universally quantified statement *)

Definition all_bytes : list N := map N.of_nat (seq 0 256).

Lemma in_all_bytes : forall b, b < 256 -> In b all_bytes.
Proof.
  intros b H. unfold all_bytes. apply in_map_iff. exists (N.to_nat b). split.
  - apply N2Nat.id.
  - apply in_seq. lia.
Qed.

Lemma byte_sweep : forall P : N -> bool,
  forallb P all_bytes = true -> forall b, b < 256 -> P b = true.
Proof.
  intros P H b Hb. rewrite forallb_forall in H. apply H. now apply in_all_bytes.
Qed.

(* ---------------------------------------------------------------------------------------- *)
(* SubBytes *)

Lemma sbox_sweep :
  forallb (fun b => (sbox b <? 256) && (inv_sbox b <? 256) && (inv_sbox (sbox b) =? b))
          all_bytes = true.
Proof. vm_compute. reflexivity. Qed.

Lemma sbox_facts : forall b, b < 256 ->
  sbox b < 256 /\ inv_sbox b < 256 /\ inv_sbox (sbox b) = b.
Proof.
  intros b Hb. pose proof (byte_sweep _ sbox_sweep b Hb) as H.
  rewrite !andb_true_iff, !N.ltb_lt, N.eqb_eq in H. tauto.
Qed.

Lemma sub_bytes_length : forall s, length (sub_bytes s) = length s.
Proof. intros. apply map_length. Qed.

Lemma inv_sub_bytes_length : forall s, length (inv_sub_bytes s) = length s.
Proof. intros. apply map_length. Qed.

Lemma sub_bytes_ok : forall s, bytes_ok s = true -> bytes_ok (sub_bytes s) = true.
Proof.
  induction s as [|x s IH]; intros H; [reflexivity|].
  apply bytes_ok_cons in H. cbn [sub_bytes map]. apply bytes_ok_cons. split.
  - apply sbox_facts. tauto.
  - apply IH. tauto.
Qed.

Lemma inv_sub_bytes_sub_bytes : forall s, bytes_ok s = true -> inv_sub_bytes (sub_bytes s) = s.
Proof.
  induction s as [|x s IH]; intros H; [reflexivity|].
  apply bytes_ok_cons in H. cbn [sub_bytes inv_sub_bytes map]. f_equal.
  - apply sbox_facts. tauto.
  - apply IH. tauto.
Qed.

(* ---------------------------------------------------------------------------------------- *)
(* ShiftRows *)

Ltac destruct_16 s H :=
  do 16 (destruct s as [|? s]; [discriminate H|]); destruct s; [|discriminate H].

Lemma inv_shift_rows_shift_rows : forall s, length s = 16%nat -> inv_shift_rows (shift_rows s) = s.
Proof. intros s H. destruct_16 s H. reflexivity. Qed.

Lemma shift_rows_length : forall s, length s = 16%nat -> length (shift_rows s) = 16%nat.
Proof. intros s H. destruct_16 s H. reflexivity. Qed.

Lemma shift_rows_ok : forall s, length s = 16%nat -> bytes_ok s = true ->
  bytes_ok (shift_rows s) = true.
Proof.
  intros s H Ok. destruct_16 s H. cbn [shift_rows].
  repeat (apply bytes_ok_cons in Ok; destruct Ok as [? Ok]).
  repeat (apply bytes_ok_cons; split; [assumption|]). reflexivity.
Qed.

(* ---------------------------------------------------------------------------------------- *)
(* MixColumns: xtime is GF(2)-linear on ALL of N *)

Lemma land_pow2_bit : forall d n, N.land d (2 ^ n) = if N.testbit d n then 2 ^ n else 0.
Proof.
  intros d n. apply N.bits_inj. intro i. rewrite N.land_spec, N.pow2_bits_eqb.
  destruct (N.eqb_spec n i) as [->|Hne].
  - destruct (N.testbit d i); [now rewrite N.pow2_bits_true|now rewrite N.bits_0].
  - rewrite andb_false_r. destruct (N.testbit d n); [|now rewrite N.bits_0].
    rewrite N.pow2_bits_false; auto.
Qed.

Lemma xtime_alt : forall a, xtime a = N.lxor (N.shiftl a 1) (if N.testbit a 7 then 283 else 0).
Proof.
  intros a. unfold xtime. cbv zeta. change 256 with (2 ^ 8). rewrite land_pow2_bit.
  rewrite N.shiftl_spec_high' by lia. change (8 - 1) with 7.
  destruct (N.testbit a 7); [reflexivity|]. now rewrite N.lxor_0_r.
Qed.

Lemma xtime_lxor : forall a b, xtime (N.lxor a b) = N.lxor (xtime a) (xtime b).
Proof.
  intros a b. rewrite !xtime_alt. rewrite N.lxor_spec.
  apply N.bits_inj. intro i. rewrite !N.lxor_spec.
  destruct (N.eq_dec i 0) as [->|Hi].
  - rewrite !N.shiftl_spec_low by lia.
    destruct (N.testbit a 7), (N.testbit b 7); reflexivity.
  - rewrite !N.shiftl_spec_high' by lia. rewrite N.lxor_spec.
    destruct (N.testbit a 7), (N.testbit b 7); cbn [xorb]; rewrite ?N.bits_0; btauto.
Qed.

Lemma xtime_sweep : forallb (fun b => xtime b <? 256) all_bytes = true.
Proof. vm_compute. reflexivity. Qed.

Lemma xtime_byte : forall b, b < 256 -> xtime b < 256.
Proof. intros b H. apply N.ltb_lt. now apply (byte_sweep _ xtime_sweep). Qed.

(* one column: InvMixColumn (MixColumn a) = a, for all N *)
Lemma mix_column_inv : forall a0 a1 a2 a3 tl tl',
  match mix_column a0 a1 a2 a3 tl' with
  | b0 :: b1 :: b2 :: b3 :: _ => inv_mix_column b0 b1 b2 b3 tl
  | _ => []
  end = a0 :: a1 :: a2 :: a3 :: tl.
Proof.
  intros. unfold mix_column, inv_mix_column, mix_column. cbv zeta.
  rewrite !xtime_lxor.
  f_equal; [|f_equal; [|f_equal; [|f_equal]]];
    apply N.bits_inj; intro i; rewrite !N.lxor_spec; btauto.
Qed.

Lemma mix_column_cons : forall a0 a1 a2 a3 tl, exists b0 b1 b2 b3,
  mix_column a0 a1 a2 a3 tl = b0 :: b1 :: b2 :: b3 :: tl
  /\ (forall tl', mix_column a0 a1 a2 a3 tl' = b0 :: b1 :: b2 :: b3 :: tl')
  /\ (forall tl', inv_mix_column b0 b1 b2 b3 tl' = a0 :: a1 :: a2 :: a3 :: tl').
Proof.
  intros. pose proof (fun t => mix_column_inv a0 a1 a2 a3 t tl) as H.
  unfold mix_column in *. cbv zeta in *. do 4 eexists. split; [reflexivity|]. split.
  - reflexivity.
  - exact H.
Qed.

Lemma inv_mix_columns_mix_columns : forall s, inv_mix_columns (mix_columns s) = s.
Proof.
  intros s.
  destruct s as [|s0 [|s1 [|s2 [|s3 [|s4 [|s5 [|s6 [|s7 [|s8 [|s9 [|s10 [|s11 [|s12
              [|s13 [|s14 [|s15 [|s16 s]]]]]]]]]]]]]]]]]; try reflexivity.
  cbn [mix_columns].
  destruct (mix_column_cons s12 s13 s14 s15 []) as (d0 & d1 & d2 & d3 & -> & _ & Hd).
  destruct (mix_column_cons s8 s9 s10 s11 [d0; d1; d2; d3]) as (c0 & c1 & c2 & c3 & -> & _ & Hc).
  destruct (mix_column_cons s4 s5 s6 s7 [c0; c1; c2; c3; d0; d1; d2; d3])
    as (b0 & b1 & b2 & b3 & -> & _ & Hb).
  destruct (mix_column_cons s0 s1 s2 s3 [b0; b1; b2; b3; c0; c1; c2; c3; d0; d1; d2; d3])
    as (a0 & a1 & a2 & a3 & -> & _ & Ha).
  cbn [inv_mix_columns]. rewrite Hd, Hc, Hb, Ha. reflexivity.
Qed.

Lemma mix_columns_length : forall s, length (mix_columns s) = length s.
Proof.
  intros s.
  destruct s as [|s0 [|s1 [|s2 [|s3 [|s4 [|s5 [|s6 [|s7 [|s8 [|s9 [|s10 [|s11 [|s12
              [|s13 [|s14 [|s15 [|s16 s]]]]]]]]]]]]]]]]]; reflexivity.
Qed.

Lemma mix_column_ok : forall a0 a1 a2 a3 tl, a0 < 256 -> a1 < 256 -> a2 < 256 -> a3 < 256 ->
  bytes_ok tl = true -> bytes_ok (mix_column a0 a1 a2 a3 tl) = true.
Proof.
  intros. unfold mix_column. cbv zeta.
  repeat (apply bytes_ok_cons; split;
          [repeat first [apply lxor_byte | apply xtime_byte]; assumption|]).
  assumption.
Qed.

Lemma mix_columns_ok : forall s, bytes_ok s = true -> bytes_ok (mix_columns s) = true.
Proof.
  intros s Ok.
  destruct s as [|s0 [|s1 [|s2 [|s3 [|s4 [|s5 [|s6 [|s7 [|s8 [|s9 [|s10 [|s11 [|s12
              [|s13 [|s14 [|s15 [|s16 s]]]]]]]]]]]]]]]]]; try exact Ok.
  cbn [mix_columns].
  repeat (apply bytes_ok_cons in Ok; destruct Ok as [? Ok]).
  repeat (apply mix_column_ok; try assumption).
Qed.

(* ---------------------------------------------------------------------------------------- *)
(* rounds *)
Close Scope N_scope.

Definition fwd_round (s k : bytes) : bytes :=
  add_round_key (mix_columns (shift_rows (sub_bytes s))) k.

Lemma blk_ok_srsb : forall s, blk_ok s -> blk_ok (shift_rows (sub_bytes s)).
Proof.
  intros s [L O]. split.
  - apply shift_rows_length. now rewrite sub_bytes_length.
  - apply shift_rows_ok; [now rewrite sub_bytes_length|now apply sub_bytes_ok].
Qed.

Lemma blk_ok_fwd_round : forall s k, blk_ok s -> blk_ok k -> blk_ok (fwd_round s k).
Proof.
  intros s k Hs Hk. unfold fwd_round, add_round_key. apply blk_ok_xor; [|assumption].
  destruct (blk_ok_srsb s Hs) as [L O]. split.
  - now rewrite mix_columns_length.
  - now apply mix_columns_ok.
Qed.

Lemma blk_ok_fold : forall mid e, Forall blk_ok mid -> blk_ok e ->
  blk_ok (fold_left fwd_round mid e).
Proof.
  induction mid as [|k mid IH]; intros e F He; [exact He|].
  inversion F; subst. cbn [fold_left]. apply IH; [assumption|]. now apply blk_ok_fwd_round.
Qed.

Lemma aes_enc_rounds_cons2 : forall k k' r s,
  aes_enc_rounds (k :: k' :: r) s = aes_enc_rounds (k' :: r) (fwd_round s k).
Proof. reflexivity. Qed.

Lemma aes_dec_rounds_cons2 : forall k k' r s,
  aes_dec_rounds (k :: k' :: r) s =
  aes_dec_rounds (k' :: r)
    (inv_mix_columns (add_round_key (inv_sub_bytes (inv_shift_rows s)) k)).
Proof. reflexivity. Qed.

Lemma aes_enc_rounds_snoc : forall mid klast e,
  aes_enc_rounds (mid ++ [klast]) e =
  add_round_key (shift_rows (sub_bytes (fold_left fwd_round mid e))) klast.
Proof.
  induction mid as [|k mid IH]; intros klast e; [reflexivity|].
  cbn [app fold_left]. rewrite <- IH.
  destruct (mid ++ [klast]) as [|k' r] eqn:Em; [destruct mid; discriminate|].
  now rewrite aes_enc_rounds_cons2.
Qed.

Lemma isb_isr_sr_sb : forall s, blk_ok s ->
  inv_sub_bytes (inv_shift_rows (shift_rows (sub_bytes s))) = s.
Proof.
  intros s [L O]. rewrite inv_shift_rows_shift_rows by (now rewrite sub_bytes_length).
  now apply inv_sub_bytes_sub_bytes.
Qed.

Lemma aes_dec_rounds_undo : forall mid k0 e, Forall blk_ok mid -> blk_ok k0 -> blk_ok e ->
  aes_dec_rounds (rev mid ++ [k0]) (shift_rows (sub_bytes (fold_left fwd_round mid e))) =
  add_round_key e k0.
Proof.
  induction mid as [|k mid IH] using rev_ind; intros k0 e F Hk0 He.
  - cbn [rev app fold_left aes_dec_rounds]. now rewrite isb_isr_sr_sb.
  - apply Forall_app in F. destruct F as [Fm Fk]. inversion Fk; subst.
    rewrite rev_app_distr. cbn [rev app].
    rewrite fold_left_app. cbn [fold_left].
    set (e' := fold_left fwd_round mid e).
    assert (He' : blk_ok e') by (now apply blk_ok_fold).
    destruct (rev mid ++ [k0]) as [|k' r] eqn:Er; [destruct (rev mid); discriminate|].
    rewrite aes_dec_rounds_cons2.
    rewrite <- Er.
    rewrite isb_isr_sr_sb by (now apply blk_ok_fwd_round).
    unfold fwd_round at 1, add_round_key at 1 2.
    rewrite xor_bytes_involutive.
    + rewrite inv_mix_columns_mix_columns. now apply IH.
    + rewrite mix_columns_length. destruct (blk_ok_srsb e' He') as [-> _].
      destruct H1 as [-> _]. lia.
Qed.

Theorem aes_dec_enc_rk : forall rks b, Forall blk_ok rks -> blk_ok b ->
  aes_dec_rk rks (aes_enc_rk rks b) = b.
Proof.
  intros rks b F Hb. unfold aes_dec_rk.
  destruct rks as [|k0 rest]; [reflexivity|].
  inversion F as [|? ? Hk0 Fr]; subst.
  destruct (exists_last (l := k0 :: rest) ltac:(discriminate)) as (front & klast & Efl).
  destruct rest as [|k1 rest'].
  - (* a single round key: both directions just xor it *)
    cbn [rev app aes_enc_rk aes_enc_rounds aes_dec_rrk aes_dec_rounds].
    unfold add_round_key. apply xor_bytes_involutive. destruct Hb as [-> _], Hk0 as [-> _]. lia.
  - destruct (exists_last (l := k1 :: rest') ltac:(discriminate)) as (mid & kl & Em).
    rewrite Em in *. clear Efl front klast.
    apply Forall_app in Fr. destruct Fr as [Fm Fl]. inversion Fl as [|? ? Hkl _]; subst.
    cbn [aes_enc_rk]. rewrite aes_enc_rounds_snoc.
    change (k0 :: mid ++ [kl]) with ([k0] ++ (mid ++ [kl])).
    rewrite rev_app_distr, rev_app_distr. cbn [rev app aes_dec_rrk].
    assert (He : blk_ok (add_round_key b k0)) by (now apply blk_ok_xor).
    set (e := add_round_key b k0) in *.
    assert (Hs : blk_ok (shift_rows (sub_bytes (fold_left fwd_round mid e))))
      by (apply blk_ok_srsb; now apply blk_ok_fold).
    unfold add_round_key at 1 2. rewrite xor_bytes_involutive
      by (destruct Hs as [-> _], Hkl as [-> _]; lia).
    rewrite aes_dec_rounds_undo by assumption.
    unfold e, add_round_key. apply xor_bytes_involutive.
    destruct Hb as [-> _], Hk0 as [-> _]. lia.
Qed.

(* lengths and ranges of the cipher output *)
Lemma aes_enc_rounds_blk_ok : forall rest s, Forall blk_ok rest -> blk_ok s ->
  blk_ok (aes_enc_rounds rest s).
Proof.
  induction rest as [|k rest IH]; intros s F Hs; [exact Hs|].
  inversion F; subst.
  destruct rest as [|k' rest'].
  - cbn [aes_enc_rounds]. apply blk_ok_xor; [now apply blk_ok_srsb|assumption].
  - rewrite aes_enc_rounds_cons2.
    apply IH; [assumption|now apply blk_ok_fwd_round].
Qed.

Lemma aes_enc_rk_blk_ok : forall rks b, Forall blk_ok rks -> blk_ok b -> blk_ok (aes_enc_rk rks b).
Proof.
  intros [|k0 rest] b F Hb; [exact Hb|]. inversion F; subst. cbn [aes_enc_rk].
  apply aes_enc_rounds_blk_ok; [assumption|]. now apply blk_ok_xor.
Qed.

(* length preservation needs no range condition on the data *)
Lemma aes_enc_rounds_len : forall rest s, Forall len16 rest -> length s = 16 ->
  length (aes_enc_rounds rest s) = 16.
Proof.
  induction rest as [|k rest IH]; intros s F Hs; [exact Hs|].
  inversion F as [|? ? Hk Fr]; subst.
  assert (L : length (shift_rows (sub_bytes s)) = 16)
    by (apply shift_rows_length; now rewrite sub_bytes_length).
  destruct rest as [|k' rest'].
  - cbn [aes_enc_rounds]. unfold add_round_key. rewrite xor_bytes_length, L, Hk. reflexivity.
  - rewrite aes_enc_rounds_cons2.
    apply IH; [assumption|]. unfold fwd_round, add_round_key.
    rewrite xor_bytes_length, mix_columns_length, L, Hk. reflexivity.
Qed.

Lemma aes_enc_rk_len : forall rks b, Forall len16 rks -> length b = 16 ->
  length (aes_enc_rk rks b) = 16.
Proof.
  intros [|k0 rest] b F Hb; [exact Hb|]. inversion F as [|? ? Hk Fr]; subst. cbn [aes_enc_rk].
  apply aes_enc_rounds_len; [assumption|]. unfold add_round_key.
  rewrite xor_bytes_length, Hb, Hk. reflexivity.
Qed.

(* ---------------------------------------------------------------------------------------- *)
(* the key expansion yields 16-byte in-range round keys, for every key *)

Definition word_ok (w : bytes) : Prop := length w = 4 /\ bytes_ok w = true.

Lemma word_ok_xor : forall a b, word_ok a -> word_ok b -> word_ok (xor_bytes a b).
Proof.
  intros a b [La Oa] [Lb Ob]. split; [rewrite xor_bytes_length; lia|now apply bytes_ok_xor].
Qed.

Lemma word_ok_rot : forall w, word_ok w -> word_ok (rot_word w).
Proof.
  intros w [L O]. do 4 (destruct w as [|? w]; [discriminate L|]). destruct w; [|discriminate L].
  cbn [rot_word]. split; [reflexivity|].
  repeat (apply bytes_ok_cons in O; destruct O as [? O]).
  repeat (apply bytes_ok_cons; split; [assumption|]). reflexivity.
Qed.

Lemma word_ok_sub : forall w, word_ok w -> word_ok (sub_word w).
Proof.
  intros w [L O]. split; [unfold sub_word; now rewrite map_length|].
  now apply (sub_bytes_ok w).
Qed.

Lemma word_ok_rcon : forall w rc, word_ok w -> (rc < 256)%N -> word_ok (xor_rcon w rc).
Proof.
  intros w rc [L O] Hrc. destruct w as [|b0 t]; [discriminate L|]. cbn [xor_rcon].
  apply bytes_ok_cons in O. split; [exact L|].
  apply bytes_ok_cons. split; [apply lxor_byte; tauto|tauto].
Qed.

Lemma key_expand_loop_wf : forall n nk pos rc prev, 1 <= nk -> nk <= length prev ->
  (rc < 256)%N -> Forall word_ok prev -> Forall word_ok (key_expand_loop n nk pos rc prev).
Proof.
  induction n as [|n IH]; intros nk pos rc prev Hnk Hlen Hrc F; [exact F|].
  cbn [key_expand_loop].
  assert (Ht : word_ok (hd [] prev)).
  { destruct prev as [|w p]; [simpl in Hlen; lia|]. now inversion F. }
  assert (Hb : word_ok (nth (nk - 1) prev [])).
  { rewrite Forall_forall in F. apply F. apply nth_In. lia. }
  set (temp := hd [] prev) in *. set (back := nth (nk - 1) prev []) in *.
  destruct (Nat.eqb pos 0); [|destruct (andb (Nat.ltb 6 nk) (Nat.eqb pos 4))].
  - apply IH; [assumption|cbn [length]; lia|now apply xtime_byte|].
    constructor; [|assumption]. apply word_ok_xor; [assumption|].
    apply word_ok_rcon; [|assumption]. now apply word_ok_sub, word_ok_rot.
  - apply IH; [assumption|cbn [length]; lia|assumption|].
    constructor; [|assumption]. apply word_ok_xor; [assumption|now apply word_ok_sub].
  - apply IH; [assumption|cbn [length]; lia|assumption|].
    constructor; [|assumption]. now apply word_ok_xor.
Qed.

Lemma group_round_keys_wf : forall fuel ws, Forall word_ok ws ->
  Forall blk_ok (group_round_keys fuel ws).
Proof.
  induction fuel as [|f IH]; intros ws F; [constructor|].
  cbn [group_round_keys].
  destruct ws as [|w0 [|w1 [|w2 [|w3 t]]]]; try constructor.
  - inversion F as [|? ? [L0 O0] F1]; subst. inversion F1 as [|? ? [L1 O1] F2]; subst.
    inversion F2 as [|? ? [L2 O2] F3]; subst. inversion F3 as [|? ? [L3 O3] F4]; subst.
    split.
    + rewrite !app_length. lia.
    + repeat (apply bytes_ok_app; split); assumption.
  - apply IH. inversion F as [|? ? _ F1]; subst. inversion F1 as [|? ? _ F2]; subst.
    inversion F2 as [|? ? _ F3]; subst. now inversion F3.
Qed.

Theorem aes_key_expand_wf : forall key, bytes_ok key = true -> Forall blk_ok (aes_key_expand key).
Proof.
  intros key Ok. unfold aes_key_expand.
  destruct (aes_rounds (length key)) as [|nr'] eqn:Enr; [constructor|].
  set (nr := S nr') in *.
  assert (Hk : exists nk, 1 <= nk /\ length key = 4 * nk).
  { unfold aes_rounds in Enr.
    destruct (Nat.eqb_spec (length key) 16) as [->|_]; [exists 4; lia|].
    destruct (Nat.eqb_spec (length key) 24) as [->|_]; [exists 6; lia|].
    destruct (Nat.eqb_spec (length key) 32) as [->|_]; [exists 8; lia|discriminate]. }
  destruct Hk as (nk & Hnk & Hlen).
  replace (length key / 4) with nk by (rewrite Hlen, Nat.mul_comm, Nat.div_mul; lia).
  destruct (chunks_all_full 4 nk key ltac:(lia) Hlen) as [Fc Lc].
  apply group_round_keys_wf.
  apply Forall_rev. apply key_expand_loop_wf; [assumption|rewrite rev_length; lia|reflexivity|].
  apply Forall_rev.
  rewrite <- (chunks_concat 4 key) in Ok by lia. apply Forall_bytes_ok_concat in Ok.
  rewrite Forall_forall in *. intros w Hw. split; [now apply Fc|now apply Ok].
Qed.

(* ---------------------------------------------------------------------------------------- *)
(* the single-block theorem for raw keys *)

Theorem aes_decrypt_encrypt_block : forall key b, bytes_ok key = true ->
  length b = 16 -> bytes_ok b = true ->
  aes_decrypt_block key (aes_encrypt_block key b) = b.
Proof.
  intros key b Ok L O. unfold aes_decrypt_block, aes_encrypt_block.
  apply aes_dec_enc_rk; [now apply aes_key_expand_wf|split; assumption].
Qed.

(* the three hypotheses of Proofs/ModeProofs.v for E = aes_enc_rk rks, D = aes_dec_rk rks *)
Section AESHyps.
  Variable rks : list bytes.
  Hypothesis rks_wf : Forall blk_ok rks.

  Lemma aes_E_len : forall b, length b = 16 -> length (aes_enc_rk rks b) = 16.
  Proof. intros. apply aes_enc_rk_len; [now apply Forall_blk_ok_len16|assumption]. Qed.

  Lemma aes_E_ok : forall b, length b = 16 -> bytes_ok b = true ->
    bytes_ok (aes_enc_rk rks b) = true.
  Proof. intros b L O. apply (aes_enc_rk_blk_ok rks b rks_wf (conj L O)). Qed.

  Lemma aes_DE : forall b, length b = 16 -> bytes_ok b = true ->
    aes_dec_rk rks (aes_enc_rk rks b) = b.
  Proof. intros b L O. apply aes_dec_enc_rk; [exact rks_wf|split; assumption]. Qed.
End AESHyps.

(* ---------------------------------------------------------------------------------------- *)
(* AES instances of the mode theorems: raw key of ANY length with in-range bytes *)
Section AESModes.
  Variable key : bytes.
  Hypothesis key_ok : bytes_ok key = true.
  Let rks := aes_key_expand key.
  Let W : Forall blk_ok rks := aes_key_expand_wf key key_ok.

  Theorem aes_ecb_dec_enc : forall msg, bytes_ok msg = true ->
    ecb_dec key (ecb_enc key msg) = msg.
  Proof. intros. apply (ecb_dec_enc _ _ (aes_E_len rks W) (aes_E_ok rks W) (aes_DE rks W)); assumption. Qed.

  Theorem aes_cbc_dec_enc : forall iv msg, length iv = 16 -> bytes_ok iv = true ->
    bytes_ok msg = true -> cbc_dec key iv (cbc_enc key iv msg) = msg.
  Proof. intros. apply (cbc_dec_enc _ _ (aes_E_len rks W) (aes_E_ok rks W) (aes_DE rks W)); assumption. Qed.

  Theorem aes_cbc_enc_length : forall iv msg, length iv = 16 ->
    length (cbc_enc key iv msg) = length msg.
  Proof. intros. apply (cbc_enc_length _ (aes_E_len rks W)); assumption. Qed.

  Theorem aes_ctr_involutive : forall iv msg, length iv = 12 \/ length iv = 16 ->
    ctr key iv (ctr key iv msg) = msg.
  Proof. intros. apply (ctr_involutive _ (aes_E_len rks W)); assumption. Qed.

  Theorem aes_ctr_length : forall iv msg, length iv = 12 \/ length iv = 16 ->
    length (ctr key iv msg) = length msg.
  Proof. intros. apply (ctr_length _ (aes_E_len rks W)); assumption. Qed.

  Theorem aes_ctr_bits_involutive : forall iv msg bitlen, 16 <= length iv ->
    ctr_bits_nbytes bitlen <= length msg -> bytes_ok msg = true ->
    let c := ctr_bits key iv msg bitlen msg in
    ctr_bits key iv c bitlen c = firstn (ctr_bits_nbytes bitlen) msg.
  Proof. intros. apply (ctr_bits_involutive _ (aes_E_len rks W)); assumption. Qed.

  Theorem aes_cfb_dec_enc : forall iv msg, length iv = 16 ->
    cfb_dec key iv (cfb_enc key iv msg) = msg.
  Proof. intros. apply (cfb_dec_enc _ (aes_E_len rks W)); assumption. Qed.

  Theorem aes_cbcs_dec_enc : forall iv msg, length iv = 16 -> bytes_ok iv = true ->
    bytes_ok msg = true -> cbcs_dec key iv (cbcs_enc key iv msg) = msg.
  Proof. intros. apply (cbcs_dec_enc _ _ (aes_E_len rks W) (aes_E_ok rks W) (aes_DE rks W)); assumption. Qed.

  Theorem aes_docsis_dec_enc : forall iv msg, length iv = 16 -> bytes_ok iv = true ->
    bytes_ok msg = true -> docsis_aes_dec key iv (docsis_aes_enc key iv msg) = msg.
  Proof. intros. apply (docsis_dec_enc _ _ (aes_E_len rks W) (aes_E_ok rks W) (aes_DE rks W)); assumption. Qed.
End AESModes.

Theorem aes_inv_cipher_partial :
  (forall s, bytes_ok s = true -> inv_sub_bytes (sub_bytes s) = s) /\
  (forall s, length s = 16 -> inv_shift_rows (shift_rows s) = s) /\
  (forall s k, length s <= length k -> add_round_key (add_round_key s k) k = s) /\
  (forall s, inv_mix_columns (mix_columns s) = s).
Proof.
  repeat split.
  - exact inv_sub_bytes_sub_bytes.
  - exact inv_shift_rows_shift_rows.
  - intros. unfold add_round_key. now apply xor_bytes_involutive.
  - exact inv_mix_columns_mix_columns.
Qed.

Theorem aes_mode_roundtrips :
  forall key, bytes_ok key = true ->
  (forall msg, bytes_ok msg = true -> ecb_dec key (ecb_enc key msg) = msg) /\
  (forall iv msg, length iv = 16 -> bytes_ok iv = true -> bytes_ok msg = true ->
     cbc_dec key iv (cbc_enc key iv msg) = msg) /\
  (forall iv msg, length iv = 12 \/ length iv = 16 -> ctr key iv (ctr key iv msg) = msg) /\
  (forall iv msg bitlen, 16 <= length iv -> ctr_bits_nbytes bitlen <= length msg ->
     bytes_ok msg = true ->
     let c := ctr_bits key iv msg bitlen msg in
     ctr_bits key iv c bitlen c = firstn (ctr_bits_nbytes bitlen) msg) /\
  (forall iv msg, length iv = 16 -> cfb_dec key iv (cfb_enc key iv msg) = msg) /\
  (forall iv msg, length iv = 16 -> bytes_ok iv = true -> bytes_ok msg = true ->
     cbcs_dec key iv (cbcs_enc key iv msg) = msg) /\
  (forall iv msg, length iv = 16 -> bytes_ok iv = true -> bytes_ok msg = true ->
     docsis_aes_dec key iv (docsis_aes_enc key iv msg) = msg).
Proof.
  intros key Ok. repeat split.
  - now apply aes_ecb_dec_enc.
  - now apply aes_cbc_dec_enc.
  - now apply aes_ctr_involutive.
  - now apply aes_ctr_bits_involutive.
  - now apply aes_cfb_dec_enc.
  - now apply aes_cbcs_dec_enc.
  - now apply aes_docsis_dec_enc.
Qed.
