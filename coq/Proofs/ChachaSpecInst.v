(* Proofs/ChachaSpecInst.v — C10: the generic ChaCha20-Poly1305 streaming theorems instantiated with
   the primitives of Spec/ChaCha20.v / Spec/Poly1305.v, and connected to the one-shot
   specification Spec/ChaChaPoly.v (chachapoly_enc / chachapoly_dec). *)
From Coq Require Import List NArith Bool Lia Arith ZArith ZifyN ZifyNat ZifyBool.
From IMB Require Import Lib.Bytes Spec.ChaCha20 Spec.Poly1305 Spec.ChaChaPoly
     Struct.ChachaStream Proofs.StreamLemmas Proofs.ChachaStreamProofs.
Import ListNotations.
Ltac Zify.zify_post_hook ::= Z.div_mod_to_equations.
Local Open Scope N_scope.

(* ---------- little-endian encodings ---------- *)

Lemma w8_mod : forall x, w8 x = N.land x (N.ones 8).
Proof. reflexivity. Qed.

(* le_to_N (N_to_le n x) = x mod 2^(8n) *)
Lemma le_to_N_to_le : forall n x, le_to_N (N_to_le n x) = N.land x (N.ones (8 * N.of_nat n)).
Proof.
  induction n; intros x.
  - simpl. rewrite N.land_0_r. reflexivity.
  - cbn [N_to_le le_to_N]. rewrite IHn.
    apply N.bits_inj. intro i.
    rewrite N.lor_spec, N.land_spec.
    unfold w8 at 1. change mask8 with (N.ones 8).
    rewrite (N.land_ones (N.land x (N.ones 8))), N.land_ones.
    rewrite N.mod_mod by (compute; discriminate). rewrite <- N.land_ones.
    rewrite N.land_spec.
    destruct (N.ltb_spec i 8) as [Hi|Hi].
    + rewrite N.shiftl_spec_low by assumption. rewrite orb_false_r.
      rewrite N.ones_spec_low by assumption.
      rewrite N.ones_spec_low by lia. reflexivity.
    + rewrite N.shiftl_spec_high' by assumption.
      rewrite (N.ones_spec_high 8) by assumption. rewrite andb_false_r, orb_false_l.
      rewrite N.land_spec, N.shiftr_spec'. replace (i - 8 + 8) with i by lia.
      f_equal.
      destruct (N.ltb_spec (i - 8) (8 * N.of_nat n)) as [Hj|Hj].
      * rewrite !N.ones_spec_low by lia. reflexivity.
      * rewrite !N.ones_spec_high by lia. reflexivity.
Qed.

Lemma le_to_N_to_le_small : forall n x, x < 2 ^ (8 * N.of_nat n) -> le_to_N (N_to_le n x) = x.
Proof. intros. rewrite le_to_N_to_le, N.land_ones. apply N.mod_small. assumption. Qed.

Lemma le_to_N_zeros : forall k, le_to_N (zeros k) = 0.
Proof. induction k; [reflexivity|]. unfold zeros in *. cbn [repeat le_to_N]. rewrite IHk. reflexivity. Qed.

Lemma le_to_N_app_zeros : forall a k, le_to_N (a ++ zeros k) = le_to_N a.
Proof.
  induction a; intros k; cbn [app le_to_N].
  - apply le_to_N_zeros.
  - rewrite IHa. reflexivity.
Qed.

(* ---------- ChaCha20 block ---------- *)

Lemma chacha_serialize_length : forall s, length (chacha_serialize s) = 64%nat.
Proof. destruct s. reflexivity. Qed.

Lemma ksblock_spec_len : forall k iv c, length (ksblock_spec k iv c) = 64%nat.
Proof. intros. unfold ksblock_spec, chacha20_block. apply chacha_serialize_length. Qed.

Lemma chacha20_block_iv12 : forall key c iv, chacha20_block key c (firstn 12 iv) = chacha20_block key c iv.
Proof.
  intros. unfold chacha20_block, chacha_init. rewrite firstn_firstn. reflexivity.
Qed.

Lemma ks_chunks_spec : forall key iv cs c,
  str_chunks (fun c => ksblock_spec key (firstn 12 iv) c) (fun c => c + 1) c cs =
  chacha20_chunks key iv c cs.
Proof.
  intros key iv cs. induction cs; intros c; cbn [str_chunks chacha20_chunks]; [reflexivity|].
  rewrite IHcs. unfold ksblock_spec. rewrite chacha20_block_iv12. reflexivity.
Qed.

(* the byte-level stream from the initial state is RFC 8439 ChaCha20 with initial counter 1 *)
Lemma ref_out_chacha20 : forall key iv msg,
  ref_out (fun c => ksblock_spec key (firstn 12 iv) c) (fun c => c + 1) 0 [] msg =
  chacha20 key iv 1 msg.
Proof.
  intros key iv msg. unfold chacha20. destruct msg as [|m t].
  - reflexivity.
  - unfold ref_out.
    rewrite (ref_chunks 64 ltac:(lia) _ (fun c => ksblock_spec_len key (firstn 12 iv) c) (fun c => c + 1))
      by discriminate.
    cbn [fst]. apply ks_chunks_spec.
Qed.

(* ---------- Poly1305 ---------- *)

Lemma poly_blocks_fold : forall bs acc r full,
  poly_blocks acc r bs full = fold_left (fun a b => poly_block_acc a r b full) bs acc.
Proof. induction bs; intros; simpl; [reflexivity|]. apply IHbs. Qed.

Lemma paead_update_spec : forall pk acc msg,
  paead_update pblock_spec pk acc msg = poly_update acc (le_to_N (firstn 16 pk)) msg true.
Proof.
  intros. unfold paead_update, poly_update. rewrite poly_blocks_fold. reflexivity.
Qed.

Lemma clamp_lt : forall x, poly_clamp_r x < 2 ^ 128.
Proof.
  intros. unfold poly_clamp_r.
  assert (N.land x poly_clamp_mask <= poly_clamp_mask).
  { rewrite N.land_comm. destruct (N.eq_dec (N.land poly_clamp_mask x) 0) as [->|Hn]; [compute; discriminate|].
    apply N.ldiff_le. apply N.bits_inj_0. intro i. rewrite N.ldiff_spec, N.land_spec.
    destruct (N.testbit poly_clamp_mask i); destruct (N.testbit x i); reflexivity. }
  assert (poly_clamp_mask < 2 ^ 128) by (compute; reflexivity).
  lia.
Qed.

Lemma pkey_gen_spec_r : forall key iv,
  le_to_N (firstn 16 (pkey_gen_spec key iv)) = poly_key_r (poly1305_key_gen key iv).
Proof.
  intros. unfold pkey_gen_spec.
  rewrite firstn_app_exact by (rewrite N_to_le_length; reflexivity).
  apply le_to_N_to_le_small. unfold poly_key_r. apply clamp_lt.
Qed.

Lemma pkey_gen_spec_s : forall key iv,
  poly_key_s (pkey_gen_spec key iv) = poly_key_s (poly1305_key_gen key iv).
Proof.
  intros. unfold pkey_gen_spec, poly_key_s.
  rewrite skipn_app_exact by (rewrite N_to_le_length; reflexivity). reflexivity.
Qed.

(* a complete 16-byte block: both padding conventions coincide *)
Lemma poly_block_n_full : forall b, length b = 16%nat -> poly_block_n b false = poly_block_n b true.
Proof.
  intros b Hb. unfold poly_block_n. rewrite firstn_all2 by lia. rewrite Hb. reflexivity.
Qed.

Lemma poly_block_n_pad : forall b k, (length b + k = 16)%nat ->
  poly_block_n (b ++ zeros k) false = poly_block_n b true.
Proof.
  intros b k H. unfold poly_block_n.
  rewrite (firstn_all2 (b ++ zeros k)) by (rewrite app_length; unfold zeros; rewrite repeat_length; lia).
  rewrite (firstn_all2 b) by lia.
  rewrite app_length. unfold zeros at 2. rewrite repeat_length, H.
  rewrite le_to_N_app_zeros. reflexivity.
Qed.

Lemma poly_blocks_full : forall bs acc r, Forall (fun b => length b = 16%nat) bs ->
  poly_blocks acc r bs false = poly_blocks acc r bs true.
Proof.
  induction bs; intros acc r H; [reflexivity|].
  inversion H; subst. cbn [poly_blocks].
  replace (poly_block_acc acc r a false) with (poly_block_acc acc r a true)
    by (unfold poly_block_acc; rewrite poly_block_n_full by assumption; reflexivity).
  apply IHbs. assumption.
Qed.

Lemma poly_blocks_app : forall a b acc r full,
  poly_blocks acc r (a ++ b) full = poly_blocks (poly_blocks acc r a full) r b full.
Proof. induction a; intros; simpl; [reflexivity|]. apply IHa. Qed.

Lemma pad16_length : forall l, length (pad16 l) = ((16 - length l mod 16) mod 16)%nat.
Proof.
  intros. unfold pad16, zeros. rewrite repeat_length. rewrite !land15_mod. lia.
Qed.

(* absorbing  a || pad16(a) || rest  with the RFC convention = absorbing a zero padded, then rest *)
Lemma poly_update_padded : forall a rest acc r,
  poly_update acc r (a ++ pad16 a ++ rest) false =
  poly_update (poly_update acc r a true) r rest false.
Proof.
  intros a rest acc r. unfold poly_update.
  set (q := (length a / 16)%nat). set (m := (length a mod 16)%nat).
  assert (Hdm : length a = (16 * q + m)%nat) by (subst q m; apply Nat.div_mod; lia).
  assert (Hm : (m < 16)%nat) by (subst m; apply Nat.mod_upper_bound; lia).
  pose proof (pad16_length a) as Hp. fold m in Hp.
  rewrite <- (firstn_skipn (16 * q) a) at 1 3.
  set (aw := firstn (16 * q) a). set (ar := skipn (16 * q) a).
  assert (Haw : length aw = (16 * q)%nat) by (subst aw; rewrite firstn_length; lia).
  assert (Har : length ar = m) by (subst ar; rewrite skipn_length; lia).
  rewrite <- !app_assoc.
  rewrite (chunks_app 16 aw _ q) by (auto; lia).
  rewrite (chunks_app 16 aw ar q) by (auto; lia).
  rewrite !poly_blocks_app.
  rewrite (poly_blocks_full (chunks 16 aw)) by (apply (Forall_chunks16 aw q); assumption).
  destruct (Nat.eq_dec m 0) as [Hm0|Hm0].
  - (* a is a whole number of blocks: no padding *)
    assert (ar = []) by (destruct ar; [reflexivity|simpl in Har; lia]).
    assert (pad16 a = []) by (destruct (pad16 a); [reflexivity|simpl in Hp; rewrite Hm0 in Hp; simpl in Hp; lia]).
    rewrite H, H0. cbn [app]. rewrite chunks_nil. reflexivity.
  - assert (Hpl : length (pad16 a) = (16 - m)%nat).
    { rewrite Hp. rewrite Nat.mod_small by lia. reflexivity. }
    rewrite app_assoc.
    rewrite (chunks_app 16 (ar ++ pad16 a) rest 1) by (try lia; rewrite app_length; lia).
    rewrite poly_blocks_app.
    rewrite (chunks_short 16 (ar ++ pad16 a)); [|lia| destruct ar; [simpl in Har; lia|discriminate] | rewrite app_length; lia].
    rewrite (chunks_short 16 ar); [|lia| destruct ar; [simpl in Har; lia|discriminate] | lia].
    cbn [poly_blocks]. f_equal. unfold poly_block_acc. f_equal. f_equal. f_equal.
    assert (Hz : pad16 a = zeros (16 - m)).
    { unfold pad16 in *. unfold zeros in Hpl. rewrite repeat_length in Hpl. rewrite Hpl. reflexivity. }
    rewrite Hz. apply poly_block_n_pad. lia.
Qed.

Lemma le64_length : forall x, length (le64 x) = 8%nat.
Proof. intros. apply N_to_le_length. Qed.

(* Spec-level: the incremental formulation equals RFC 8439 section 2.8 *)
Theorem chachapoly_tag_inc_eq : forall key nonce aad ct,
  chachapoly_tag_inc key nonce aad ct = chachapoly_tag key nonce aad ct.
Proof.
  intros. unfold chachapoly_tag, chachapoly_tag_inc, poly1305_mac, chachapoly_mac_data.
  set (otk := poly1305_key_gen key nonce). set (r := poly_key_r otk).
  rewrite poly_update_padded. rewrite poly_update_padded.
  (* the 16-byte length block is a single chunk on which both padding conventions coincide *)
  f_equal.
Qed.

(* ---------- the generic tag is the Spec tag ---------- *)

Lemma tag_of_spec : forall key iv aad ct,
  tag_of pblock_spec pfinish_spec pkey_gen_spec key iv aad ct = chachapoly_tag key iv aad ct.
Proof.
  intros. transitivity (chachapoly_tag_inc key iv aad ct); [|apply chachapoly_tag_inc_eq].
  unfold tag_of, chachapoly_tag_inc, pfinish_spec.
  rewrite !paead_update_spec, pkey_gen_spec_r, pkey_gen_spec_s.
  (* the 16-byte length block is a single chunk *)
  f_equal.
Qed.

Lemma ct_of_spec : forall key iv dir P,
  ct_of ksblock_spec key iv dir P = match dir with Enc => chacha20 key iv 1 P | Dec => P end.
Proof. intros. destruct dir; cbn [ct_of]; [apply ref_out_chacha20|reflexivity]. Qed.

(* one-shot result of Spec/ChaChaPoly.v for a direction *)
Definition chachapoly_oneshot (dir : cdir) (key iv aad msg : bytes) : bytes * bytes :=
  match dir with Enc => chachapoly_enc key iv aad msg | Dec => chachapoly_dec key iv aad msg end.

Lemma oneshot_unfold : forall dir key iv aad msg,
  chachapoly_oneshot dir key iv aad msg =
  (chacha20 key iv 1 msg,
   chachapoly_tag key iv aad (match dir with Enc => chacha20 key iv 1 msg | Dec => msg end)).
Proof. intros. destruct dir; reflexivity. Qed.

(* ---------- C10, ChaCha20-Poly1305: the three API forms ---------- *)

Theorem chachapoly_direct_partition_invariant : forall ctx0 key iv aad dir segs taglen,
  length (c_scratch ctx0) = 16%nat -> N.of_nat (length (concat segs)) < 2 ^ 64 ->
  let '(ctx', os, t) := run_direct_spec ctx0 key iv aad dir segs taglen in
  concat os = fst (chachapoly_oneshot dir key iv aad (concat segs)) /\
  map (@length _) os = map (@length _) segs /\
  t = firstn taglen (snd (chachapoly_oneshot dir key iv aad (concat segs))) /\
  sgl_ctx_clean ctx'.
Proof.
  intros ctx0 key iv aad dir segs taglen Hs Hlen. unfold run_direct_spec.
  pose proof (run_direct_gen ksblock_spec pblock_spec pfinish_spec pkey_gen_spec ksblock_spec_len
                key iv aad ctx0 dir segs taglen Hs Hlen) as H.
  destruct (run_direct _ _ _ _ ctx0 key iv aad dir segs taglen) as [[ctx' os] t].
  destruct H as (H1 & H2 & H3 & H4).
  rewrite oneshot_unfold. cbn [fst snd].
  rewrite H1, H3, ref_out_chacha20, tag_of_spec, ct_of_spec.
  clear H1 H3. split; [reflexivity|]. split; [exact H2|]. split; [reflexivity|exact H4].
Qed.

Theorem chachapoly_job_all_partition_invariant : forall ctx0 key iv aad dir segs,
  length (c_scratch ctx0) = 16%nat -> N.of_nat (length (concat segs)) < 2 ^ 64 ->
  let '(ctx', os, t) := run_job_all_spec ctx0 key iv aad dir segs in
  concat os = fst (chachapoly_oneshot dir key iv aad (concat segs)) /\
  map (@length _) os = map (@length _) segs /\
  t = Some (snd (chachapoly_oneshot dir key iv aad (concat segs))) /\
  sgl_ctx_clean ctx'.
Proof.
  intros ctx0 key iv aad dir segs Hs Hlen. unfold run_job_all_spec.
  pose proof (run_job_all_gen ksblock_spec pblock_spec pfinish_spec pkey_gen_spec ksblock_spec_len
                key iv aad ctx0 dir segs Hs Hlen) as H.
  destruct (run_job_all _ _ _ _ ctx0 key iv aad dir segs) as [[ctx' os] t].
  destruct H as (H1 & H2 & H3 & H4).
  rewrite oneshot_unfold. cbn [fst snd].
  rewrite H1, H3, ref_out_chacha20, tag_of_spec, ct_of_spec.
  clear H1 H3. split; [reflexivity|]. split; [exact H2|]. split; [|exact H4].
  (* the Spec tag is N_to_le 16 _: firstn 16 of it is itself, by computation *)
  f_equal.
Qed.

Theorem chachapoly_job_iuc_partition_invariant : forall ctx0 key iv aad dir first mids last,
  length (c_scratch ctx0) = 16%nat ->
  N.of_nat (length (first ++ concat mids ++ last)) < 2 ^ 64 ->
  let msg := first ++ concat mids ++ last in
  let '(ctx', os, t) := run_job_iuc_spec ctx0 key iv aad dir first mids last in
  concat os = fst (chachapoly_oneshot dir key iv aad msg) /\
  t = Some (snd (chachapoly_oneshot dir key iv aad msg)) /\
  sgl_ctx_clean ctx'.
Proof.
  intros ctx0 key iv aad dir first mids last Hs Hlen. cbv zeta. unfold run_job_iuc_spec.
  pose proof (run_job_iuc_gen ksblock_spec pblock_spec pfinish_spec pkey_gen_spec ksblock_spec_len
                key iv aad ctx0 dir first mids last Hs Hlen) as H.
  destruct (run_job_iuc _ _ _ _ ctx0 key iv aad dir first mids last) as [[ctx' os] t].
  destruct H as (H1 & H2 & H3).
  rewrite oneshot_unfold. cbn [fst snd].
  rewrite H1, H2, ref_out_chacha20, tag_of_spec, ct_of_spec.
  clear H1 H2. split; [reflexivity|]. split; [reflexivity|exact H3].
Qed.

(* the context invariant after any sequence of updates, Spec instance *)
Theorem chacha_stream_inv_spec : forall ctx0 key iv aad dir segs,
  length (c_scratch ctx0) = 16%nat -> N.of_nat (length (concat segs)) < 2 ^ 64 ->
  chacha_stream_inv ksblock_spec pblock_spec pkey_gen_spec key iv aad
    (match dir with Enc => chacha20 key iv 1 (concat segs) | Dec => concat segs end)
    (fst (update_all ksblock_spec pblock_spec key (init_direct_spec key ctx0 iv aad) segs dir)).
Proof.
  intros ctx0 key iv aad dir segs Hs Hlen. rewrite <- ct_of_spec.
  apply (chacha_stream_inv_gen ksblock_spec pblock_spec pfinish_spec pkey_gen_spec ksblock_spec_len);
    assumption.
Qed.
