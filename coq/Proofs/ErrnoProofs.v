(* Proofs/ErrnoProofs.v — property C14, error-code part: every call of the ring model leaves the
   manager's error code at exactly the code of that call's failure (0 on success), regardless of
   what it was before; imb_set_errno/imb_get_errno algebra; imb_get_strerror is total. *)
From Coq Require Import String.
From Coq Require Import ZArith List Bool Lia ZifyBool.
From IMB Require Import Gen.GenConsts Gen.GenStrerror Mgr.Ring Mgr.Errno Proofs.RingProofs Proofs.JobProofs.
Import ListNotations.
Local Open Scope Z_scope.

(* ------------------------------------------------------------------------------------------ *)
(* imb_set_errno / imb_get_errno                                                               *)

(* the statement-by-statement translation of the two C functions (Gen/GenStrerror.v, regenerated on every run) computes
   what the hand-written model computes, for every argument; the tactic only splits on the tests that occur, so any
   re-arrangement of the C code with the same meaning still goes through *)
Ltac split_tests :=
  repeat match goal with
         | |- context [Z.eqb ?x ?y] => destruct (Z.eqb_spec x y)
         | |- context [Z.ltb ?x ?y] => destruct (Z.ltb_spec x y)
         | |- context [Z.leb ?x ?y] => destruct (Z.leb_spec x y)
         | |- context [Z.gtb ?x ?y] => rewrite (Z.gtb_ltb x y)
         | |- context [Z.geb ?x ?y] => rewrite (Z.geb_leb x y)
         end.

Lemma src_get_errno_is_model b m : src_get_errno b (e_field m) (e_glob m) = imb_get_errno b m.
Proof.
  unfold src_get_errno, imb_get_errno. destruct m as [f g]; cbn [e_field e_glob].
  destruct b; split_tests; cbn [andb orb negb]; try reflexivity; try congruence; lia.
Qed.

Lemma src_set_errno_is_model b e m :
  src_set_errno b e (e_field m) (e_glob m) = (e_field (imb_set_errno b e m), e_glob (imb_set_errno b e m)).
Proof.
  unfold src_set_errno, imb_set_errno. destruct m as [f g]; cbn [e_field e_glob].
  destruct b; split_tests; cbn [andb orb negb]; try reflexivity; try (f_equal; congruence); f_equal; lia.
Qed.

Lemma set_errno_glob b e m : e_glob (imb_set_errno b e m) = e.
Proof. unfold imb_set_errno. cbn. destruct (e_glob m =? e) eqn:E; [apply Z.eqb_eq in E; exact E|reflexivity]. Qed.

Lemma set_errno_field_mgr e m : e_field (imb_set_errno true e m) = e.
Proof. reflexivity. Qed.

Lemma set_errno_field_null e m : e_field (imb_set_errno false e m) = e_field m.
Proof. reflexivity. Qed.

(* reading the code of the call just made, through the same handle *)
Lemma get_after_set_mgr e m : imb_get_errno true (imb_set_errno true e m) = e.
Proof.
  unfold imb_get_errno. rewrite set_errno_glob. cbn [e_field imb_set_errno andb].
  destruct (e =? 0) eqn:E; cbn; reflexivity.
Qed.

Lemma get_after_set_null e m : imb_get_errno false (imb_set_errno false e m) = e.
Proof. unfold imb_get_errno. cbn [andb]. apply set_errno_glob. Qed.

(* the fall-back: the function returns the mirror exactly when the field is 0 *)
Lemma get_errno_fallback m :
  imb_get_errno true m = if e_field m =? 0 then e_glob m else e_field m.
Proof. unfold imb_get_errno. cbn [andb]. destruct (e_field m =? 0); reflexivity. Qed.

(* a direct-API call made through a manager whose field is still non-zero: the stale field hides
   both the success and the failure of the direct call *)
Lemma get_after_direct_api r m :
  imb_get_errno true (run_ecalls (direct_api r) m) = if e_field m =? 0 then r else e_field m.
Proof.
  rewrite get_errno_fallback. unfold direct_api, run_ecalls.
  destruct (r =? 0) eqn:E; cbn [fold_left fst snd]; rewrite ?set_errno_glob; cbn [e_field imb_set_errno];
    destruct (e_field m =? 0); try reflexivity.
  apply Z.eqb_eq in E. subst r. reflexivity.
Qed.

Lemma ipad_opad_field_vs_function o m :
  e_field m = 0 ->
  let m' := run_ecalls (hmac_ipad_opad_calls o) m in
  match o with
  | IoNullMgr => e_glob m' = IMB_ERR_NULL_MBMGR
  | IoNullKey => e_field m' = IMB_ERR_NULL_KEY /\ imb_get_errno true m' = IMB_ERR_NULL_KEY
  | IoBadAlg => e_field m' = 0 /\ imb_get_errno true m' = IMB_ERR_HASH_ALGO
  | IoMd5KeyLen => e_field m' = 0 /\ imb_get_errno true m' = IMB_ERR_KEY_LEN
  | IoOk => e_field m' = 0 /\ imb_get_errno true m' = 0
  end.
Proof.
  intros Hf. destruct o; cbn [hmac_ipad_opad_calls run_ecalls fold_left fst snd];
    rewrite ?get_errno_fallback, ?set_errno_glob; cbn [e_field imb_set_errno]; rewrite ?Hf; cbn; auto.
Qed.

(* ------------------------------------------------------------------------------------------ *)
(* the ring model                                                                              *)

Section ErrnoRingProofs.
Variable SZ NJ MAXB : Z.
Notation rstep := (Ring.step SZ NJ MAXB).
Notation call_failure := (call_failure SZ NJ MAXB).
Notation expected_errno := (expected_errno SZ NJ MAXB).

Ltac split_ifs :=
  repeat match goal with
         | |- context [if ?b then _ else _] => destruct b
         | |- context [match ?x with Some _ => _ | None => _ end] => destruct x
         end.

Lemma errno_submit_tail jr s : errno (fst (fst (submit_tail SZ NJ jr s))) = errno s.
Proof. unfold submit_tail. split_ifs; reflexivity. Qed.

Lemma errno_fb_loop n : forall s a, errno (fst (fb_loop SZ NJ n s a)) = errno s.
Proof. induction n; intros s a; cbn [fb_loop]; [reflexivity|]. rewrite IHn. reflexivity. Qed.

Lemma errno_flush_burst_body mx D s : errno (fst (fst (flush_burst_body SZ NJ mx D s))) = errno s.
Proof.
  unfold flush_burst_body. destruct (queue_sz SZ NJ s =? 0); [reflexivity|].
  pose proof (errno_fb_loop (Z.to_nat (Z.min (queue_sz SZ NJ s) mx)) (complete_set D s) []) as H.
  destruct (fb_loop SZ NJ (Z.to_nat (Z.min (queue_sz SZ NJ s) mx)) (complete_set D s) []) as [s1 l].
  cbn [fst] in H. split_ifs; cbn [fst]; exact H.
Qed.

Lemma errno_burst_fill js : forall o s, errno (burst_fill SZ NJ js o s) = errno s.
Proof. induction js as [|b t IH]; intros o s; cbn [burst_fill]; [reflexivity|]. rewrite IH. reflexivity. Qed.

Lemma errno_burst_post n D2 s : errno s = 0 -> errno (fst (fst (burst_post SZ NJ n D2 s))) = 0.
Proof.
  intros H. unfold burst_post.
  repeat match goal with |- context [if ?b then _ else _] => destruct b end;
    first [rewrite errno_flush_burst_body; reflexivity | exact H].
Qed.

Lemma burst_validate_code js : forall off e mk, burst_validate SZ NJ js off = BErr e mk -> e <> None.
Proof.
  induction js as [|b t IH]; intros off e mk H; cbn [burst_validate] in H; [discriminate|].
  destruct (bj_ptr b) as [p|]; [|inversion H; discriminate].
  destruct (negb (p =? off)); [inversion H; discriminate|].
  destruct (bj_verdict b); [inversion H; discriminate|].
  destruct (negb (bj_suite_ok b)); [inversion H; discriminate|].
  eapply IH; exact H.
Qed.

(* THE statement: after any call, from any state, the manager's error code is the documented
   code of that call's failure, and 0 if it did not fail *)
Theorem errno_exact s o : errno (fst (rstep s o)) = expected_errno s o.
Proof.
  unfold Ring.step, Errno.expected_errno, Errno.call_failure. destruct o; cbn [step3 fst].
  - reflexivity.
  - unfold submit. destruct check; cbn; [destruct verdict|]; rewrite errno_submit_tail; reflexivity.
  - unfold flush. split_ifs; reflexivity.
  - unfold get_completed. split_ifs; reflexivity.
  - reflexivity.
  - unfold get_next_burst. split_ifs; reflexivity.
  - unfold submit_burst, burst_pre.
    destruct check.
    + destruct jobs as [js|]; [|reflexivity].
      destruct (n_jobs >? MAXB); [reflexivity|].
      change (queue_sz_remaining SZ NJ (set_errno 0 s)) with (queue_sz_remaining SZ NJ s).
      destruct (queue_sz_remaining SZ NJ s <? n_jobs); [reflexivity|].
      change (next (set_errno 0 s)) with (next s).
      destruct (burst_validate SZ NJ js (next s)) as [|e mk] eqn:EV.
      * apply errno_burst_post. cbn [errno complete_set]. rewrite errno_burst_fill.
        destruct (earliest (set_errno 0 s) <? 0); reflexivity.
      * pose proof (burst_validate_code _ _ _ _ EV) as Hne.
        destruct e as [e|]; [|contradiction].
        cbn [fst]. destruct mk as [[p q]|]; cbn; [destruct (0 <=? p)|]; reflexivity.
    + apply errno_burst_post. cbn [errno complete_set]. rewrite errno_burst_fill.
      destruct (earliest (set_errno 0 s) <? 0); reflexivity.
  - unfold flush_burst. destruct jobs_null; [reflexivity|]. rewrite errno_flush_burst_body. reflexivity.
Qed.

Corollary errno_zero_on_success_thm s o : call_failure s o = None -> errno (fst (rstep s o)) = 0.
Proof. intros H. rewrite errno_exact. unfold Errno.expected_errno. rewrite H. reflexivity. Qed.

Corollary errno_is_this_calls_failure_thm s o e : call_failure s o = Some e -> errno (fst (rstep s o)) = e.
Proof. intros H. rewrite errno_exact. unfold Errno.expected_errno. rewrite H. reflexivity. Qed.

(* "reset at top": what the error code was before the call is irrelevant to everything the
   call does and returns *)
Theorem errno_reset_at_top x s o : step3 SZ NJ MAXB (set_errno x s) o = step3 SZ NJ MAXB s o.
Proof. destruct o; reflexivity. Qed.

(* the outcome of a checked burst submit as the caller sees it agrees with the code *)
Theorem burst_reject_iff_failure s c n js D D2 :
  (exists mk, snd (rstep s (SubmitBurst c n js D D2)) = OReject mk) <-> call_failure s (SubmitBurst c n js D D2) <> None.
Proof.
  unfold Ring.step, Errno.call_failure. cbn [step3 fst snd]. unfold submit_burst, burst_pre.
  destruct c.
  - destruct js as [l|]; [|split; [discriminate|eexists; reflexivity]].
    destruct (n >? MAXB); [split; [discriminate|eexists; reflexivity]|].
    change (queue_sz_remaining SZ NJ (set_errno 0 s)) with (queue_sz_remaining SZ NJ s).
    destruct (queue_sz_remaining SZ NJ s <? n); [split; [discriminate|eexists; reflexivity]|].
    change (next (set_errno 0 s)) with (next s).
    destruct (burst_validate SZ NJ l (next s)) as [|e mk] eqn:EV.
    + split; [|intros H; contradiction].
      intros (mk & H). exfalso.
      match type of H with snd (fst (burst_post SZ NJ ?a ?b ?c)) = _ =>
        destruct (JobProofs.burst_post_out SZ NJ a b c) as (k & l0 & Ho) end.
      rewrite Ho in H. discriminate.
    + split; [intros _; apply (burst_validate_code _ _ _ _ EV)|intros _; eexists; reflexivity].
  - split; [|intros H; contradiction].
    intros (mk & H). exfalso.
    match type of H with snd (fst (burst_post SZ NJ ?a ?b ?c)) = _ =>
      destruct (JobProofs.burst_post_out SZ NJ a b c) as (k & l0 & Ho) end.
    rewrite Ho in H. discriminate.
Qed.

Notation final := (RingProofs.final SZ NJ MAXB).

Lemma final_app s ops o : final s (ops ++ [o]) = fst (rstep (final s ops) o).
Proof. revert s. induction ops as [|a t IH]; intros s; cbn [app RingProofs.final]; [reflexivity|]. apply IH. Qed.

(* over histories: the code after a history is the code of its LAST call, whatever came before;
   in particular a failing call followed by a succeeding call leaves 0 *)
Theorem errno_after_history s0 ops o :
  errno (final s0 (ops ++ [o])) = expected_errno (final s0 ops) o.
Proof. rewrite final_app. apply errno_exact. Qed.

Corollary failing_then_succeeding_leaves_zero s0 ops o :
  call_failure (final s0 ops) o = None -> errno (final s0 (ops ++ [o])) = 0.
Proof. intros H. rewrite errno_after_history. unfold Errno.expected_errno. rewrite H. reflexivity. Qed.

(* mirror: after a ring call field and mirror agree, so the documented accessor returns the
   call's code when read right after the call *)
Theorem get_errno_after_ring_call x o :
  let '(x', _) := ering_step SZ NJ MAXB x o in
  imb_get_errno true (mkem (errno (fst x')) (snd x')) = expected_errno (fst x) o.
Proof.
  unfold ering_step. pose proof (errno_exact (fst x) o) as H.
  destruct (rstep (fst x) o) as [s' r]. cbn [fst snd] in *.
  rewrite get_errno_fallback. cbn [e_field e_glob]. rewrite H. destruct (_ =? 0); reflexivity.
Qed.

End ErrnoRingProofs.

(* the codes raised by the ring and burst code are genuine IMB_ERR values, in particular non-zero *)
Lemma ring_codes_in_range : Forall (fun e => IMB_ERR_MIN < e < IMB_ERR_MAX) ring_codes.
Proof. repeat constructor. Qed.

(* ------------------------------------------------------------------------------------------ *)
(* imb_get_strerror                                                                            *)
Local Open Scope string_scope.

Definition own_string (z : Z) : option string :=
  match guard_lookup z strerror_guards with Some s => Some s | None => sw_lookup z strerror_cases end.

Lemma strerror_split libc z :
  imb_get_strerror libc z = match own_string z with Some s => Some s | None => libc z end.
Proof. unfold imb_get_strerror, own_string. destruct (guard_lookup z strerror_guards); [reflexivity|]. destruct (sw_lookup z strerror_cases); reflexivity. Qed.

(* for ALL integers the function returns a string, given that libc's strerror does *)
Theorem strerror_total_thm libc : libc_total libc -> forall z : Z, exists s, imb_get_strerror libc z = Some s.
Proof.
  intros Hl z. rewrite strerror_split. destruct (own_string z) as [s|]; [exists s; reflexivity|].
  specialize (Hl z). destruct (libc z) as [s|]; [exists s; reflexivity|contradiction].
Qed.

(* the IMB_ERR enumerators strictly between IMB_ERR_MIN and IMB_ERR_MAX (complete: from the header) *)
Definition err_codes : list Z := filter (fun v => (IMB_ERR_MIN <? v) && (v <? IMB_ERR_MAX))%Z (map snd all_IMB_ERR).

Fixpoint all_distinct (l : list string) : bool :=
  match l with [] => true | a :: t => negb (existsb (String.eqb a) t) && all_distinct t end.

(* every library code (and 0) has its own non-empty message that does not come from libc, and
   distinct codes have distinct messages *)
Theorem strerror_own_codes :
  forallb (fun v => match own_string v with Some s => negb (String.eqb s "") | None => false end) (0%Z :: err_codes) = true
  /\ all_distinct (map (fun v => match own_string v with Some s => s | None => "" end) (0%Z :: err_codes)) = true
  /\ Z.of_nat (List.length err_codes) = (IMB_ERR_MAX - IMB_ERR_MIN - 1)%Z.
Proof. split; [vm_compute; reflexivity|]. split; vm_compute; reflexivity. Qed.

(* out-of-range values at or above IMB_ERR_MAX never reach libc *)
Theorem strerror_above_max libc z : (IMB_ERR_MAX <= z)%Z -> imb_get_strerror libc z = Some "Unknown error".
Proof.
  (* independent of how the guard is written (>= MAX, > MAX - 1, ...): the comparison is decided by lia *)
  intros H. unfold imb_get_strerror, strerror_guards, guard_lookup.
  match goal with |- context [if ?b then _ else _] => replace b with true; [reflexivity|] end.
  symmetry. lia.
Qed.
