(* Proofs/SelectProofs.v — every selected variant is supported; missing flags fail cleanly. *)
From Coq Require Import ZArith Bool Lia.
From IMB Require Import Gen.GenConsts Mgr.Select.
Local Open Scope Z_scope.

Lemma has_spec f m : has f m = true <-> (forall i, Z.testbit m i = true -> Z.testbit f i = true).
Proof.
  unfold has. rewrite Z.eqb_eq. split.
  - intros H i Hi. rewrite <- H in Hi. rewrite Z.land_spec in Hi. apply andb_true_iff in Hi. tauto.
  - intros H. apply Z.bits_inj'. intros i _. rewrite Z.land_spec.
    destruct (Z.testbit m i) eqn:E; [rewrite (H i E); reflexivity|apply andb_false_r].
Qed.

Lemma has_sub f a b : has f a = true -> has a b = true -> has f b = true.
Proof. rewrite !has_spec. intros H1 H2 i Hi. apply H1, H2, Hi. Qed.

Lemma has_land_l f g m : has (Z.land f g) m = true -> has f m = true.
Proof.
  rewrite !has_spec. intros H i Hi. specialize (H i Hi). rewrite Z.land_spec in H.
  apply andb_true_iff in H. tauto.
Qed.

(* clearing bits that the mask does not contain keeps the mask *)
Lemma has_clear f c m : Z.land m c = 0 -> has f m = true -> has (Z.land f (Z.lnot c)) m = true.
Proof.
  rewrite !has_spec. intros Hd H i Hi. rewrite Z.land_spec, (H i Hi). cbn [andb].
  destruct (Z_lt_ge_dec i 0) as [Hn|Hp]; [rewrite Z.testbit_neg_r in Hi by lia; discriminate|].
  rewrite Z.lnot_spec by lia. apply negb_true_iff.
  assert (Z.testbit (Z.land m c) i = false) by (rewrite Hd; apply Z.bits_0).
  rewrite Z.land_spec, Hi in H0. exact H0.
Qed.

Lemma adjust_sub flags feat m : has (adjust flags feat) m = true -> has feat m = true.
Proof.
  unfold adjust. destruct (Z.land flags IMB_FLAG_SHANI_OFF =? 0), (Z.land flags IMB_FLAG_GFNI_OFF =? 0); intros H.
  - exact H.
  - eapply has_land_l; eassumption.
  - eapply has_land_l; eassumption.
  - eapply has_land_l. eapply has_land_l. eassumption.
Qed.

(* a mask without SHANI/GFNI bits survives the adjustment *)
Lemma adjust_keeps flags feat m :
  Z.land m IMB_FEATURE_SHANI = 0 -> Z.land m IMB_FEATURE_GFNI = 0 ->
  has feat m = true -> has (adjust flags feat) m = true.
Proof.
  intros H1 H2 H. unfold adjust.
  destruct (Z.land flags IMB_FLAG_SHANI_OFF =? 0), (Z.land flags IMB_FLAG_GFNI_OFF =? 0).
  - exact H.
  - apply has_clear; assumption.
  - apply has_clear; assumption.
  - apply has_clear; [assumption|]. apply has_clear; assumption.
Qed.

(* when SHANI (resp. GFNI) is switched off, no mask containing it is satisfied *)
Lemma adjust_drops_shani flags feat m :
  Z.land flags IMB_FLAG_SHANI_OFF <> 0 -> has m IMB_FEATURE_SHANI = true -> has (adjust flags feat) m = false.
Proof.
  intros Hf Hm. destruct (has (adjust flags feat) m) eqn:E; [|reflexivity]. exfalso.
  pose proof (has_sub _ _ _ E Hm) as H. unfold adjust in H.
  replace (Z.land flags IMB_FLAG_SHANI_OFF =? 0) with false in H by (symmetry; apply Z.eqb_neq; exact Hf).
  assert (Hc : has (Z.land feat (Z.lnot IMB_FEATURE_SHANI)) IMB_FEATURE_SHANI = true).
  { destruct (Z.land flags IMB_FLAG_GFNI_OFF =? 0); [exact H|eapply has_land_l; exact H]. }
  rewrite has_spec in Hc. specialize (Hc 0 eq_refl). rewrite Z.land_spec, Z.lnot_spec in Hc by lia.
  cbn in Hc. rewrite andb_false_r in Hc. discriminate.
Qed.

Lemma adjust_drops_gfni flags feat m :
  Z.land flags IMB_FLAG_GFNI_OFF <> 0 -> has m IMB_FEATURE_GFNI = true -> has (adjust flags feat) m = false.
Proof.
  intros Hf Hm. destruct (has (adjust flags feat) m) eqn:E; [|reflexivity]. exfalso.
  pose proof (has_sub _ _ _ E Hm) as H. unfold adjust in H.
  replace (Z.land flags IMB_FLAG_GFNI_OFF =? 0) with false in H by (symmetry; apply Z.eqb_neq; exact Hf).
  rewrite has_spec in H. specialize (H 16 eq_refl). rewrite Z.land_spec, Z.lnot_spec in H by lia.
  cbn in H. rewrite andb_false_r in H. discriminate.
Qed.

Section Build.
Variable t3 t4 : bool.
Variable detect : Z.

(* the manager's feature word agrees with what the CPU really has, as alloc_mb_mgr sets it up
   (the self-test bits are not CPU features and are ignored by every mask) *)
Definition consistent (s : mgr) : Prop :=
  forall m, Z.land m (Z.lor IMB_FEATURE_SELF_TEST IMB_FEATURE_SELF_TEST_PASS) = 0 ->
            has (m_features s) m = true -> has (adjust (m_flags s) detect) m = true.

Lemma alloc_consistent flags : consistent (alloc detect flags).
Proof. intros m _ H. exact H. Qed.

Ltac masks := vm_compute; reflexivity.

(* For every manager state consistent with the CPU: an init either fails with the
   missing-CPU-flags error, installing nothing, or installs a variant all of whose required
   features are present after the SHANI/GFNI adjustment. *)
Theorem init_internal_supported (init : mgr -> mgr) (base : Z) :
  (init = init_sse_internal detect /\ base = IMB_CPUFLAGS_SSE) \/
  (init = init_avx2_internal t3 t4 detect /\ base = IMB_CPUFLAGS_AVX2) \/
  (init = init_avx512_internal detect /\ base = IMB_CPUFLAGS_AVX512) ->
  forall s, consistent s ->
  (has (m_features s) base = false /\ init s = fail_missing s) \/
  (exists v, m_variant (init s) = Some v /\ m_errno (init s) = 0 /\
             m_features (init s) = adjust (m_flags s) detect /\
             has (adjust (m_flags s) detect) (required v) = true).
Proof.
  intros Hinit s Hc.
  destruct Hinit as [[-> ->]|[[-> ->]|[-> ->]]].
  - unfold init_sse_internal. destruct (has (m_features s) IMB_CPUFLAGS_SSE) eqn:E; cbn [negb]; [right|left; auto].
    assert (Hb : has (adjust (m_flags s) detect) IMB_CPUFLAGS_SSE = true) by (apply Hc; [masks|exact E]).
    set (f := adjust (m_flags s) detect) in *.
    destruct (has f IMB_CPUFLAGS_SSE_T3) eqn:E3; [exists SSE_T3; cbn; auto|].
    destruct (has f IMB_CPUFLAGS_SSE_T2) eqn:E2; [exists SSE_T2; cbn; auto|].
    exists SSE_T1; cbn; auto.
  - unfold init_avx2_internal. destruct (has (m_features s) IMB_CPUFLAGS_AVX2) eqn:E; cbn [negb]; [right|left; auto].
    assert (Hb : has (adjust (m_flags s) detect) IMB_CPUFLAGS_AVX2 = true) by (apply Hc; [masks|exact E]).
    set (f := adjust (m_flags s) detect) in *.
    destruct (t4 && has f IMB_CPUFLAGS_AVX2_T4) eqn:E4.
    { apply andb_true_iff in E4. exists AVX2_T4; cbn; tauto. }
    destruct (t3 && has f IMB_CPUFLAGS_AVX2_T3) eqn:E3.
    { apply andb_true_iff in E3. exists AVX2_T3; cbn; tauto. }
    destruct (has f IMB_CPUFLAGS_AVX2_T2) eqn:E2; [exists AVX2_T2; cbn; auto|].
    exists AVX2_T1; cbn; auto.
  - unfold init_avx512_internal. destruct (has (m_features s) IMB_CPUFLAGS_AVX512) eqn:E; cbn [negb]; [right|left; auto].
    assert (Hb : has (adjust (m_flags s) detect) IMB_CPUFLAGS_AVX512 = true) by (apply Hc; [masks|exact E]).
    set (f := adjust (m_flags s) detect) in *.
    destruct (has f IMB_CPUFLAGS_AVX512_T2) eqn:E2; [exists AVX512_T2; cbn; auto|].
    exists AVX512_T1; cbn; auto.
Qed.

(* the public wrappers: with the required flags missing, the error is the missing-CPU-flags code,
   no handler is installed or replaced, and the self test does not run *)
Theorem missing_flags_fail_cleanly st_ok s :
  (has (m_features s) IMB_CPUFLAGS_SSE = false ->
     init_sse detect st_ok s = fail_missing s) /\
  (has (m_features s) IMB_CPUFLAGS_AVX2 = false ->
     init_avx2 t3 t4 detect st_ok s = fail_missing s) /\
  (has (m_features s) IMB_CPUFLAGS_AVX512 = false ->
     init_avx512 detect st_ok s = fail_missing s).
Proof.
  assert (He : IMB_ERR_MISSING_CPUFLAGS_INIT_MGR =? 0 = false) by masks.
  unfold init_sse, init_avx2, init_avx512, wrap, init_sse_internal, init_avx2_internal, init_avx512_internal.
  repeat split; intros ->; cbn [negb fail_missing m_errno]; rewrite He; reflexivity.
Qed.

(* SHANI_OFF / GFNI_OFF never select a variant that requires the disabled feature *)
Theorem flags_only_lower (init : mgr -> mgr) :
  init = init_sse_internal detect \/ init = init_avx2_internal t3 t4 detect \/ init = init_avx512_internal detect ->
  forall s v, m_variant (init s) = Some v -> m_variant (init s) <> m_variant s \/ m_errno (init s) = 0 ->
  m_errno (init s) = 0 ->
  (Z.land (m_flags s) IMB_FLAG_SHANI_OFF <> 0 -> has (required v) IMB_FEATURE_SHANI = false) /\
  (Z.land (m_flags s) IMB_FLAG_GFNI_OFF <> 0 -> has (required v) IMB_FEATURE_GFNI = false).
Proof.
  intros Hinit s v Hv _ He0.
  assert (Hne : IMB_ERR_MISSING_CPUFLAGS_INIT_MGR <> 0) by (vm_compute; discriminate).
  split; intros Hf.
  - destruct (has (required v) IMB_FEATURE_SHANI) eqn:Hs; [exfalso|reflexivity].
    pose proof (adjust_drops_shani (m_flags s) detect (required v) Hf Hs) as Hd.
    destruct Hinit as [-> | [-> | ->]];
      [unfold init_sse_internal in *|unfold init_avx2_internal in *|unfold init_avx512_internal in *];
      match type of Hv with context [negb ?c] => destruct c end; cbn [negb fail_missing install m_variant m_errno] in *;
      try (apply Hne; exact He0);
      repeat match type of Hv with
             | context [if ?c then _ else _] => let E := fresh "E" in destruct c eqn:E
             end; inversion Hv; subst v; cbn [required] in *;
      repeat match goal with H : _ && _ = true |- _ => apply andb_true_iff in H; destruct H end;
      try congruence; try (vm_compute in Hs; discriminate).
  - destruct (has (required v) IMB_FEATURE_GFNI) eqn:Hs; [exfalso|reflexivity].
    pose proof (adjust_drops_gfni (m_flags s) detect (required v) Hf Hs) as Hd.
    destruct Hinit as [-> | [-> | ->]];
      [unfold init_sse_internal in *|unfold init_avx2_internal in *|unfold init_avx512_internal in *];
      match type of Hv with context [negb ?c] => destruct c end; cbn [negb fail_missing install m_variant m_errno] in *;
      try (apply Hne; exact He0);
      repeat match type of Hv with
             | context [if ?c then _ else _] => let E := fresh "E" in destruct c eqn:E
             end; inversion Hv; subst v; cbn [required] in *;
      repeat match goal with H : _ && _ = true |- _ => apply andb_true_iff in H; destruct H end;
      try congruence; try (vm_compute in Hs; discriminate).
Qed.
End Build.
