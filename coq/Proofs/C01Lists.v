(* Proofs/C01Lists.v — list / byte-string lemmas shared by the C01 proofs:
   firstn/skipn, chunks, xor_bytes, blocks16/split_blocks, byte-range ([bytes_ok]),
   big-endian conversions.  Self-contained (only Lib.Bytes and Spec.AESModes helpers). *)
From Coq Require Import List NArith Bool Lia Arith.
From IMB Require Import Lib.Bytes Spec.AES Spec.AESModes.
Import ListNotations.

(* ---------------------------------------------------------------------------------------- *)
(* firstn / skipn *)

Lemma skipn_skipn_add : forall (A : Type) a b (l : list A), skipn a (skipn b l) = skipn (b + a) l.
Proof.
  intros A a b. revert a. induction b; intros a l; simpl.
  - reflexivity.
  - destruct l; simpl. { now rewrite skipn_nil. } apply IHb.
Qed.

Lemma firstn_skipn_split : forall (A : Type) a b (l : list A),
  firstn (a + b) l = firstn a l ++ firstn b (skipn a l).
Proof.
  intros A a. induction a; intros b l; simpl.
  - reflexivity.
  - destruct l; simpl. { now rewrite firstn_nil. } f_equal. apply IHa.
Qed.

Lemma skipn_app_exact : forall (A : Type) (a b : list A) n, n = length a -> skipn n (a ++ b) = b.
Proof. intros. subst. rewrite skipn_app, Nat.sub_diag, skipn_all. reflexivity. Qed.

Lemma firstn_app_exact : forall (A : Type) (a b : list A) n, n = length a -> firstn n (a ++ b) = a.
Proof. intros. subst. rewrite firstn_app, Nat.sub_diag, firstn_all. simpl. apply app_nil_r. Qed.

Lemma length_zero_nil : forall (A : Type) (l : list A), length l = 0 -> l = [].
Proof. destruct l; [reflexivity|discriminate]. Qed.

Lemma nonnil_length : forall (A : Type) (l : list A), l <> [] <-> 0 < length l.
Proof. destruct l; simpl; split; intros; try congruence; try lia. Qed.

(* ---------------------------------------------------------------------------------------- *)
(* chunks *)

Lemma chunks_fuel_indep : forall n f1 f2 l, 0 < n -> length l <= f1 -> length l <= f2 ->
  chunks_fuel f1 n l = chunks_fuel f2 n l.
Proof.
  intros n f1. induction f1; intros f2 l Hn H1 H2.
  - destruct l; simpl in *; [|lia]. destruct f2; reflexivity.
  - destruct l as [|x t]. { destruct f2; reflexivity. }
    destruct f2; simpl in H2; [lia|].
    cbn [chunks_fuel]. f_equal.
    assert (length (skipn n (x :: t)) <= length t).
    { rewrite skipn_length. cbn [length]. lia. }
    simpl in H1. apply IHf1; lia.
Qed.

Lemma chunks_nil : forall n, chunks n [] = [].
Proof. reflexivity. Qed.

Lemma chunks_cons : forall n l, 0 < n -> l <> [] ->
  chunks n l = firstn n l :: chunks n (skipn n l).
Proof.
  intros n l Hn Hl. unfold chunks. destruct l as [|x t]; [congruence|].
  cbn [length chunks_fuel]. f_equal.
  apply chunks_fuel_indep; auto.
  rewrite skipn_length. cbn [length]. lia.
Qed.

Lemma chunks_short : forall n l, 0 < n -> l <> [] -> length l <= n -> chunks n l = [l].
Proof.
  intros. rewrite chunks_cons by assumption.
  rewrite firstn_all2, skipn_all2 by assumption. reflexivity.
Qed.

(* strong induction on a list by chunks of n *)
Lemma chunk_ind : forall n, 0 < n -> forall (P : bytes -> Prop),
  P [] ->
  (forall l, l <> [] -> P (skipn n l) -> P l) ->
  forall l, P l.
Proof.
  intros n Hn P H0 Hs l.
  remember (length l) as k eqn:Hk. revert l Hk.
  induction k as [k IH] using lt_wf_ind. intros l Hk.
  destruct l as [|x t]. { exact H0. }
  apply Hs. { discriminate. }
  apply (IH (length (skipn n (x :: t)))); [|reflexivity].
  rewrite skipn_length. subst k. cbn [length]. lia.
Qed.

Lemma chunks_app : forall n a b k, 0 < n -> length a = n * k ->
  chunks n (a ++ b) = chunks n a ++ chunks n b.
Proof.
  intros n a b k Hn. revert a. induction k; intros a Ha.
  - rewrite Nat.mul_0_r in Ha. destruct a; [reflexivity|discriminate].
  - assert (Hlen : n <= length a) by nia.
    assert (Hne : a <> []) by (destruct a; simpl in *; [lia|discriminate]).
    rewrite (chunks_cons n a) by assumption.
    rewrite (chunks_cons n (a ++ b)) by (auto; destruct a; simpl; congruence).
    rewrite firstn_app, skipn_app.
    replace (n - length a) with 0 by lia. simpl firstn. simpl skipn. rewrite app_nil_r.
    cbn [app]. f_equal. apply IHk. rewrite skipn_length. nia.
Qed.

Lemma chunks_concat : forall n l, 0 < n -> concat (chunks n l) = l.
Proof.
  intros n l Hn. induction l using (chunk_ind n Hn); [reflexivity|].
  rewrite chunks_cons by assumption. simpl. rewrite IHl. apply firstn_skipn.
Qed.

(* every chunk is non-empty and at most n long *)
Lemma chunks_Forall_len : forall n l, 0 < n ->
  Forall (fun c => 0 < length c <= n) (chunks n l).
Proof.
  intros n l Hn. induction l using (chunk_ind n Hn); [constructor|].
  rewrite chunks_cons by assumption. constructor; [|assumption].
  rewrite firstn_length. apply nonnil_length in H. lia.
Qed.

(* chunks of a concatenation of n-sized blocks followed by a short tail *)
Lemma chunks_concat_blocks : forall n (bs : list bytes) tl, 0 < n ->
  Forall (fun b => length b = n) bs -> length tl <= n ->
  chunks n (concat bs ++ tl) = bs ++ (match tl with [] => [] | _ => [tl] end).
Proof.
  intros n bs tl Hn Hbs Htl. induction Hbs as [|b bs Hb Hbs IH].
  - simpl. destruct tl; [reflexivity|]. apply chunks_short; [assumption|discriminate|assumption].
  - cbn [concat]. rewrite <- app_assoc.
    rewrite chunks_cons; [|assumption|destruct b; simpl in *; [lia|discriminate]].
    rewrite firstn_app_exact, skipn_app_exact by congruence.
    cbn [app]. f_equal. exact IH.
Qed.

Lemma chunks_all_full : forall n k l, 0 < n -> length l = n * k ->
  Forall (fun c => length c = n) (chunks n l) /\ length (chunks n l) = k.
Proof.
  intros n k. induction k; intros l Hn Hl.
  - rewrite Nat.mul_0_r in Hl. apply length_zero_nil in Hl. subst. split; [constructor|reflexivity].
  - rewrite chunks_cons; [|assumption|apply nonnil_length; nia].
    destruct (IHk (skipn n l) Hn) as [I1 I2]; [rewrite skipn_length; nia|].
    split; [constructor; [rewrite firstn_length; nia|exact I1]|cbn [length]; now rewrite I2].
Qed.

(* ---------------------------------------------------------------------------------------- *)
(* xor_bytes *)

Lemma xor_bytes_nil_r : forall a, xor_bytes a [] = [].
Proof. destruct a; reflexivity. Qed.

Lemma xor_bytes_length : forall a b, length (xor_bytes a b) = Nat.min (length a) (length b).
Proof.
  induction a; intros b; simpl; [reflexivity|].
  destruct b; simpl; [reflexivity|]. now rewrite IHa.
Qed.

Lemma xor_bytes_app : forall a1 a2 b1 b2, length a1 = length b1 ->
  xor_bytes (a1 ++ a2) (b1 ++ b2) = xor_bytes a1 b1 ++ xor_bytes a2 b2.
Proof.
  induction a1; intros a2 b1 b2 H; destruct b1; simpl in *; try discriminate.
  - reflexivity.
  - f_equal. apply IHa1. lia.
Qed.

(* THE stream-cipher lemma: xoring twice with the same key stream restores the message,
   provided the key stream is at least as long as the message.  No byte-range condition. *)
Lemma xor_bytes_involutive : forall m k, length m <= length k ->
  xor_bytes (xor_bytes m k) k = m.
Proof.
  induction m as [|x m IH]; intros k H; [reflexivity|].
  destruct k as [|y k]; simpl in *; [lia|].
  rewrite N.lxor_assoc, N.lxor_nilpotent, N.lxor_0_r. f_equal. apply IH. lia.
Qed.

(* xoring a value into both sides cancels *)
Lemma xor_bytes_cancel_r : forall a k, length a <= length k ->
  xor_bytes (xor_bytes a k) k = a.
Proof. exact xor_bytes_involutive. Qed.

Lemma xor_bytes_comm : forall a b, xor_bytes a b = xor_bytes b a.
Proof.
  induction a; destruct b; simpl; try reflexivity.
  rewrite N.lxor_comm. f_equal. apply IHa.
Qed.

Lemma xor_bytes_firstn_r : forall a b, xor_bytes a b = xor_bytes a (firstn (length a) b).
Proof.
  induction a; intros b; simpl; [reflexivity|].
  destruct b; simpl; [reflexivity|]. f_equal. apply IHa.
Qed.

Lemma xor_bytes_firstn : forall n a b,
  firstn n (xor_bytes a b) = xor_bytes (firstn n a) (firstn n b).
Proof.
  induction n; intros a b; [reflexivity|].
  destruct a; [reflexivity|]. destruct b; [reflexivity|]. simpl. f_equal. apply IHn.
Qed.

Lemma xor_bytes_skipn : forall n a b,
  skipn n (xor_bytes a b) = xor_bytes (skipn n a) (skipn n b).
Proof.
  induction n; intros a b; [reflexivity|].
  destruct a; [reflexivity|]. destruct b; simpl; [now rewrite xor_bytes_nil_r|]. apply IHn.
Qed.

(* ---------------------------------------------------------------------------------------- *)
(* byte range *)
Local Open Scope N_scope.

Lemma lxor_lt_pow2 : forall n a b, a < 2 ^ n -> b < 2 ^ n -> N.lxor a b < 2 ^ n.
Proof.
  intros n a b Ha Hb.
  destruct (N.eq_dec a 0) as [->|Ha0]. { now rewrite N.lxor_0_l. }
  destruct (N.eq_dec b 0) as [->|Hb0]. { now rewrite N.lxor_0_r. }
  destruct (N.eq_dec (N.lxor a b) 0) as [E|E]. { rewrite E. lia. }
  apply N.log2_lt_pow2; [lia|].
  eapply N.le_lt_trans; [apply N.log2_lxor|].
  apply N.max_lub_lt; apply N.log2_lt_pow2; lia.
Qed.

Lemma lxor_byte : forall a b, a < 256 -> b < 256 -> N.lxor a b < 256.
Proof. intros. change 256 with (2 ^ 8). apply lxor_lt_pow2; assumption. Qed.

Lemma land_lt_r : forall a m, N.land a m <= m.
Proof.
  intros a m.
  assert (Z : N.land (N.land a m) (N.ldiff m a) = 0).
  { apply N.bits_inj. intro i. rewrite !N.land_spec, N.ldiff_spec, N.bits_0.
    destruct (N.testbit a i), (N.testbit m i); reflexivity. }
  assert (H : m = N.land a m + N.ldiff m a).
  { rewrite N.add_nocarry_lxor, N.lxor_lor by exact Z.
    rewrite (N.land_comm a m), N.lor_comm. symmetry. apply N.lor_ldiff_and. }
  lia.
Qed.

Lemma w8_lt : forall x, w8 x < 256.
Proof. intros. unfold w8, mask8. pose proof (land_lt_r x 255). lia. Qed.

Lemma w8_small : forall x, x < 256 -> w8 x = x.
Proof.
  intros x H. unfold w8, mask8. change 255 with (N.ones 8).
  rewrite N.land_ones. apply N.mod_small. exact H.
Qed.

Lemma bytes_ok_Forall : forall l, bytes_ok l = true <-> Forall (fun b => b < 256) l.
Proof.
  intros l. unfold bytes_ok. rewrite forallb_forall, Forall_forall.
  split; intros H x Hx; specialize (H x Hx); now apply N.ltb_lt.
Qed.

Lemma bytes_ok_nil : bytes_ok [] = true.
Proof. reflexivity. Qed.

Lemma bytes_ok_cons : forall x l, bytes_ok (x :: l) = true <-> x < 256 /\ bytes_ok l = true.
Proof.
  intros. unfold bytes_ok. cbn [forallb]. rewrite andb_true_iff, N.ltb_lt. reflexivity.
Qed.

Lemma bytes_ok_app : forall a b, bytes_ok (a ++ b) = true <-> bytes_ok a = true /\ bytes_ok b = true.
Proof. intros. unfold bytes_ok. rewrite forallb_app, andb_true_iff. reflexivity. Qed.

Lemma bytes_ok_firstn : forall n l, bytes_ok l = true -> bytes_ok (firstn n l) = true.
Proof.
  intros n l H. rewrite <- (firstn_skipn n l) in H. apply bytes_ok_app in H. tauto.
Qed.

Lemma bytes_ok_skipn : forall n l, bytes_ok l = true -> bytes_ok (skipn n l) = true.
Proof.
  intros n l H. rewrite <- (firstn_skipn n l) in H. apply bytes_ok_app in H. tauto.
Qed.

Lemma bytes_ok_xor : forall a b, bytes_ok a = true -> bytes_ok b = true ->
  bytes_ok (xor_bytes a b) = true.
Proof.
  induction a as [|x a IH]; intros b Ha Hb; [reflexivity|].
  destruct b as [|y b]; [reflexivity|].
  apply bytes_ok_cons in Ha. apply bytes_ok_cons in Hb. cbn [xor_bytes].
  apply bytes_ok_cons. split; [apply lxor_byte; tauto|apply IH; tauto].
Qed.

Lemma bytes_ok_concat : forall ls, Forall (fun l => bytes_ok l = true) ls ->
  bytes_ok (concat ls) = true.
Proof.
  induction 1; [reflexivity|]. cbn [concat]. apply bytes_ok_app. tauto.
Qed.

Lemma bytes_ok_map : forall (A : Type) (f : A -> N) (l : list A), (forall x, f x < 256) -> bytes_ok (map f l) = true.
Proof.
  intros A f l H. induction l; [reflexivity|]. cbn [map]. apply bytes_ok_cons. auto.
Qed.

Lemma bytes_ok_nth : forall l i, bytes_ok l = true -> nth i l 0 < 256.
Proof.
  intros l i H. apply bytes_ok_Forall in H. rewrite Forall_forall in H.
  destruct (Nat.lt_ge_cases i (length l)) as [L|L].
  - apply H. now apply nth_In.
  - rewrite nth_overflow by assumption. lia.
Qed.

(* ---------------------------------------------------------------------------------------- *)
(* big-endian conversions *)

Lemma N_to_le_length : forall n x, length (N_to_le n x) = n.
Proof. induction n; intros; simpl; [reflexivity|]. now rewrite IHn. Qed.

Lemma N_to_be_length : forall n x, length (N_to_be n x) = n.
Proof. intros. unfold N_to_be. rewrite rev_length. apply N_to_le_length. Qed.

Lemma N_to_le_ok : forall n x, bytes_ok (N_to_le n x) = true.
Proof.
  induction n; intros; [reflexivity|]. cbn [N_to_le]. apply bytes_ok_cons. split; [apply w8_lt|apply IHn].
Qed.

Lemma bytes_ok_rev : forall l, bytes_ok l = true -> bytes_ok (rev l) = true.
Proof.
  intros l H. apply bytes_ok_Forall. apply bytes_ok_Forall in H.
  rewrite Forall_forall in *. intros x Hx. apply H. now apply in_rev.
Qed.

Lemma N_to_be_ok : forall n x, bytes_ok (N_to_be n x) = true.
Proof. intros. apply bytes_ok_rev, N_to_le_ok. Qed.

Lemma be_to_N_app : forall a b,
  be_to_N (a ++ b) = N.lor (N.shiftl (be_to_N a) (8 * N.of_nat (length b))) (be_to_N b).
Proof.
  induction a as [|x a IH]; intros b.
  - cbn [app be_to_N]. now rewrite N.shiftl_0_l, N.lor_0_l.
  - cbn [app be_to_N]. rewrite IH, app_length.
    rewrite N.shiftl_lor, N.shiftl_shiftl, N.lor_assoc.
    do 3 f_equal. lia.
Qed.

Lemma be_to_N_lt : forall l, be_to_N l < 2 ^ (8 * N.of_nat (length l)).
Proof.
  induction l as [|x l IH]. { simpl. lia. }
  cbn [be_to_N length].
  assert (Hx := w8_lt x).
  replace (8 * N.of_nat (S (length l))) with (8 + 8 * N.of_nat (length l)) by lia.
  set (k := 8 * N.of_nat (length l)) in *.
  destruct (N.eq_dec (N.lor (N.shiftl (w8 x) k) (be_to_N l)) 0) as [E|E].
  { rewrite E. apply N.neq_0_lt_0. now apply N.pow_nonzero. }
  apply N.log2_lt_pow2; [lia|].
  rewrite N.log2_lor.
  apply N.max_lub_lt.
  - destruct (N.eq_dec (w8 x) 0) as [->|Hz]. { rewrite N.shiftl_0_l. change (N.log2 0) with 0%N. lia. }
    rewrite N.log2_shiftl by assumption.
    assert (N.log2 (w8 x) < 8) by (apply N.log2_lt_pow2; [lia|exact Hx]). lia.
  - destruct (N.eq_dec (be_to_N l) 0) as [->|Hz]. { change (N.log2 0) with 0%N. lia. }
    assert (N.log2 (be_to_N l) < k) by (apply N.log2_lt_pow2; [lia|exact IH]). lia.
Qed.

(* shifting right by k drops a low part below 2^k *)
Lemma shiftr_lor_low : forall hi lo k, lo < 2 ^ k ->
  N.shiftr (N.lor (N.shiftl hi k) lo) k = hi.
Proof.
  intros hi lo k H. rewrite N.shiftr_lor, N.shiftr_shiftl_l, N.sub_diag, N.shiftl_0_r by lia.
  destruct (N.eq_dec lo 0) as [->|]. { now rewrite N.shiftr_0_l, N.lor_0_r. }
  rewrite (N.shiftr_eq_0 lo k). { apply N.lor_0_r. }
  apply N.log2_lt_pow2; lia.
Qed.

Lemma land_lor_low : forall hi lo k, lo < 2 ^ k ->
  N.land (N.lor (N.shiftl hi k) lo) (N.ones k) = lo.
Proof.
  intros hi lo k H. rewrite N.land_lor_distr_l.
  rewrite !N.land_ones, N.shiftl_mul_pow2, N.mod_mul by (now apply N.pow_nonzero).
  rewrite N.mod_small by assumption. apply N.lor_0_l.
Qed.

Lemma N_to_le_be_to_N_rev : forall l, bytes_ok l = true ->
  N_to_le (length l) (be_to_N (rev l)) = l.
Proof.
  induction l as [|x l IH]; intros H; [reflexivity|].
  apply bytes_ok_cons in H. destruct H as [Hx Hl].
  cbn [rev length N_to_le]. rewrite be_to_N_app. cbn [be_to_N length].
  change (8 * N.of_nat 0) with 0. rewrite N.shiftl_0_r, N.lor_0_r.
  change (8 * N.of_nat 1) with 8.
  f_equal.
  - unfold w8 at 1, mask8. change 255 with (N.ones 8). rewrite land_lor_low by apply w8_lt.
    now apply w8_small.
  - rewrite shiftr_lor_low by apply w8_lt. now apply IH.
Qed.

(* N_to_be n (be_to_N l) = l for l of n in-range bytes *)
Lemma N_to_be_be_to_N : forall l, bytes_ok l = true -> N_to_be (length l) (be_to_N l) = l.
Proof.
  intros l H. unfold N_to_be. rewrite <- (rev_involutive l) at 2.
  rewrite <- (rev_length l). rewrite N_to_le_be_to_N_rev by (now apply bytes_ok_rev).
  apply rev_involutive.
Qed.

Lemma le_to_N_N_to_le : forall n x, le_to_N (N_to_le n x) = N.land x (N.ones (8 * N.of_nat n)).
Proof.
  induction n; intros x.
  - simpl. now rewrite N.land_0_r.
  - cbn [N_to_le le_to_N]. rewrite IHn.
    rewrite w8_small by apply w8_lt.
    replace (8 * N.of_nat (S n)) with (8 + 8 * N.of_nat n) by lia.
    set (k := 8 * N.of_nat n).
    apply N.bits_inj. intro i.
    unfold w8, mask8. change 255 with (N.ones 8).
    rewrite N.lor_spec, !N.land_spec.
    destruct (N.lt_ge_cases i 8) as [L|L].
    + rewrite N.shiftl_spec_low by assumption.
      rewrite !N.ones_spec_low by lia. now rewrite orb_false_r.
    + rewrite N.shiftl_spec_high' by assumption.
      rewrite (N.ones_spec_high 8) by assumption.
      rewrite N.land_spec, N.shiftr_spec' .
      replace (i - 8 + 8) with i by lia. rewrite andb_false_r. cbn [orb].
      f_equal.
      destruct (N.lt_ge_cases i (8 + k)).
      * rewrite !N.ones_spec_low by lia. reflexivity.
      * rewrite !N.ones_spec_high by lia. reflexivity.
Qed.

Lemma be_to_N_rev_le : forall l, be_to_N (rev l) = le_to_N l.
Proof.
  induction l as [|x l IH]; [reflexivity|].
  cbn [rev le_to_N]. rewrite be_to_N_app. cbn [be_to_N length].
  change (8 * N.of_nat 0) with 0. rewrite N.shiftl_0_r, N.lor_0_r.
  change (8 * N.of_nat 1) with 8. rewrite IH. apply N.lor_comm.
Qed.

(* be_to_N (N_to_be n x) = x mod 2^(8n) *)
Lemma be_to_N_N_to_be : forall n x, be_to_N (N_to_be n x) = N.land x (N.ones (8 * N.of_nat n)).
Proof. intros. unfold N_to_be. rewrite be_to_N_rev_le. apply le_to_N_N_to_le. Qed.

Lemma be_to_N_N_to_be_small : forall n x, x < 2 ^ (8 * N.of_nat n) -> be_to_N (N_to_be n x) = x.
Proof.
  intros. rewrite be_to_N_N_to_be, N.land_ones. now apply N.mod_small.
Qed.

(* N_to_be only looks at the low 8n bits *)
Lemma N_to_le_land : forall n x, N_to_le n (N.land x (N.ones (8 * N.of_nat n))) = N_to_le n x.
Proof.
  induction n; intros x; [reflexivity|].
  cbn [N_to_le].
  replace (8 * N.of_nat (S n)) with (8 + 8 * N.of_nat n) by lia.
  set (k := 8 * N.of_nat n). f_equal.
  - unfold w8, mask8. change 255 with (N.ones 8). rewrite <- N.land_assoc. f_equal.
    apply N.bits_inj. intro i. rewrite N.land_spec.
    destruct (N.lt_ge_cases i 8).
    + rewrite !N.ones_spec_low by lia. reflexivity.
    + rewrite (N.ones_spec_high 8) by lia. apply andb_false_r.
  - rewrite <- (IHn (N.shiftr x 8)). f_equal.
    apply N.bits_inj. intro i. rewrite N.shiftr_spec', !N.land_spec, N.shiftr_spec'. f_equal.
    fold k.
    destruct (N.lt_ge_cases i k).
    + rewrite !N.ones_spec_low by lia. reflexivity.
    + rewrite !N.ones_spec_high by lia. reflexivity.
Qed.

Lemma N_to_be_land : forall n x, N_to_be n (N.land x (N.ones (8 * N.of_nat n))) = N_to_be n x.
Proof. intros. unfold N_to_be. now rewrite N_to_le_land. Qed.

Close Scope N_scope.

(* ---------------------------------------------------------------------------------------- *)
(* split_blocks / blocks16 *)

Definition len16 (b : bytes) : Prop := length b = 16.

Lemma split_blocks_spec : forall n l bs tl, 16 * n <= length l ->
  split_blocks n l = (bs, tl) ->
  Forall len16 bs /\ length bs = n /\ l = concat bs ++ tl.
Proof.
  induction n; intros l bs tl Hl H.
  - simpl in H. inversion H; subst. repeat split; constructor.
  - cbn [split_blocks] in H.
    destruct (split_blocks n (skipn 16 l)) as [bs' tl'] eqn:E.
    assert (H1 : bs = firstn 16 l :: bs') by congruence.
    assert (H2 : tl = tl') by congruence. clear H. subst bs tl'.
    apply IHn in E; [|rewrite skipn_length; lia].
    destruct E as (F & L & C). repeat split.
    + constructor; [|assumption]. unfold len16. rewrite firstn_length. lia.
    + simpl. now rewrite L.
    + cbn [concat]. rewrite <- app_assoc, <- C. symmetry. apply firstn_skipn.
Qed.

Lemma split_blocks_concat : forall (bs : list bytes) tl, Forall len16 bs ->
  split_blocks (length bs) (concat bs ++ tl) = (bs, tl).
Proof.
  induction 1 as [|b bs Hb Hbs IH]; [reflexivity|].
  cbn [length split_blocks concat]. rewrite <- app_assoc.
  rewrite skipn_app_exact, firstn_app_exact by (symmetry; exact Hb).
  now rewrite IH.
Qed.

Lemma concat_len16 : forall bs : list bytes, Forall len16 bs -> length (concat bs) = 16 * length bs.
Proof.
  induction 1 as [|b bs Hb Hbs IH]; [reflexivity|].
  cbn [concat length]. rewrite app_length, IH, Hb. lia.
Qed.

Lemma blocks16_spec : forall l bs tl, blocks16 l = (bs, tl) ->
  Forall len16 bs /\ length tl < 16 /\ l = concat bs ++ tl /\ length bs = length l / 16.
Proof.
  intros l bs tl H. unfold blocks16 in H.
  pose proof (Nat.mul_div_le (length l) 16 ltac:(lia)) as Hle.
  apply split_blocks_spec in H; [|assumption].
  destruct H as (F & L & C). repeat split; try assumption.
  assert (length l = 16 * length bs + length tl).
  { rewrite C at 1. rewrite app_length, concat_len16 by assumption. reflexivity. }
  pose proof (Nat.div_mod (length l) 16 ltac:(lia)).
  pose proof (Nat.mod_upper_bound (length l) 16 ltac:(lia)). lia.
Qed.

Lemma blocks16_concat : forall (bs : list bytes) tl, Forall len16 bs -> length tl < 16 ->
  blocks16 (concat bs ++ tl) = (bs, tl).
Proof.
  intros bs tl F Ht. unfold blocks16.
  rewrite app_length, concat_len16 by assumption.
  replace ((16 * length bs + length tl) / 16) with (length bs).
  - now apply split_blocks_concat.
  - apply Nat.div_unique with (r := length tl); lia.
Qed.

Lemma Forall_bytes_ok_concat : forall (bs : list bytes),
  bytes_ok (concat bs) = true -> Forall (fun b => bytes_ok b = true) bs.
Proof.
  induction bs; intros H; [constructor|].
  cbn [concat] in H. apply bytes_ok_app in H. constructor; tauto.
Qed.

(* chunks 16 in terms of blocks16 *)
Lemma chunks16_blocks16 : forall l bs tl, blocks16 l = (bs, tl) ->
  chunks 16 l = bs ++ (match tl with [] => [] | _ => [tl] end).
Proof.
  intros l bs tl H. apply blocks16_spec in H. destruct H as (F & Lt & C & _).
  rewrite C. apply chunks_concat_blocks; [lia|exact F|lia].
Qed.

Lemma last_app_singleton : forall (A : Type) (l : list A) x d, last (l ++ [x]) d = x.
Proof. intros. apply last_last. Qed.

Lemma map_last_snoc : forall f l x, map_last f (l ++ [x]) = l ++ [f x].
Proof.
  intros f. induction l as [|y l IH]; intros x; [reflexivity|].
  cbn [app]. destruct (l ++ [x]) as [|z t] eqn:E. { destruct l; discriminate. }
  change (map_last f (y :: z :: t)) with (y :: map_last f (z :: t)).
  rewrite <- E, IH. reflexivity.
Qed.

Lemma map_last_length : forall f l, length (map_last f l) = length l.
Proof.
  intros f l. induction l as [|x l _] using rev_ind; [reflexivity|].
  rewrite map_last_snoc, !app_length. reflexivity.
Qed.

Lemma list_snoc_split : forall (A : Type) (l : list A) d, l <> [] ->
  l = removelast l ++ [last l d].
Proof. intros. now apply app_removelast_last. Qed.

(* ---------------------------------------------------------------------------------------- *)
(* "chunk-shaped" lists: all chunks have n bytes except possibly the last (1..n bytes) *)

Inductive chunked (n : nat) : list bytes -> Prop :=
| chunked_nil : chunked n []
| chunked_last : forall c, 0 < length c <= n -> chunked n [c]
| chunked_cons : forall c cs, length c = n -> chunked n cs -> chunked n (c :: cs).

Lemma chunked_chunks : forall n l, 0 < n -> chunked n (chunks n l).
Proof.
  intros n l Hn. induction l using (chunk_ind n Hn); [constructor|].
  rewrite chunks_cons by assumption.
  destruct (Nat.le_gt_cases n (length l)) as [L|L].
  - apply chunked_cons; [|assumption]. rewrite firstn_length. lia.
  - rewrite skipn_all2 by lia. rewrite chunks_nil. apply chunked_last.
    rewrite firstn_length. apply nonnil_length in H. lia.
Qed.

Lemma chunks_of_chunked : forall n cs, 0 < n -> chunked n cs -> chunks n (concat cs) = cs.
Proof.
  intros n cs Hn H. induction H as [|c Hc|c cs Hc Hcs IH].
  - reflexivity.
  - cbn [concat]. rewrite app_nil_r. apply chunks_short; [assumption| |lia].
    apply nonnil_length. lia.
  - cbn [concat]. rewrite chunks_cons; [|assumption|].
    + rewrite firstn_app_exact, skipn_app_exact by congruence. now rewrite IH.
    + apply nonnil_length. rewrite app_length. lia.
Qed.

Lemma chunked_Forall_le : forall n cs, chunked n cs -> Forall (fun c => length c <= n) cs.
Proof.
  induction 1; constructor; try lia; auto.
Qed.

(* a list with the same chunk lengths is chunk-shaped too *)
Lemma chunked_same_lengths : forall n cs cs', chunked n cs ->
  map (@length N) cs' = map (@length N) cs -> chunked n cs'.
Proof.
  intros n cs cs' H. revert cs'. induction H as [|c Hc|c cs Hc Hcs IH]; intros cs' E.
  - destruct cs'; [constructor|discriminate].
  - destruct cs' as [|c' [|? ?]]; try discriminate. injection E as E. apply chunked_last. lia.
  - destruct cs' as [|c' cs']; [discriminate|]. injection E as E1 E2.
    apply chunked_cons; [lia|auto].
Qed.

(* ---------------------------------------------------------------------------------------- *)
(* number of chunks *)

Lemma concat_length_le : forall n (cs : list bytes),
  Forall (fun c => length c <= n) cs -> length (concat cs) <= n * length cs.
Proof.
  induction 1; [simpl; lia|]. cbn [concat length]. rewrite app_length. lia.
Qed.

Lemma chunks_count_bound : forall l, length l <= 16 * length (chunks 16 l).
Proof.
  intros l. rewrite <- (chunks_concat 16 l) at 1 by lia.
  apply concat_length_le. eapply Forall_impl; [|apply (chunks_Forall_len 16 l); lia].
  simpl. intros. lia.
Qed.

Lemma chunks_count_eq : forall n a b, 0 < n -> length a = length b ->
  length (chunks n a) = length (chunks n b).
Proof.
  intros n a b Hn. revert b.
  apply (chunk_ind n Hn (fun a => forall b, length a = length b ->
           length (chunks n a) = length (chunks n b))); clear a.
  - intros b H. destruct b; [reflexivity|discriminate].
  - intros a Hne IH b H.
    assert (b <> []) by (apply nonnil_length; apply nonnil_length in Hne; lia).
    rewrite (chunks_cons n a), (chunks_cons n b) by assumption. cbn [length]. f_equal.
    apply IH. rewrite !skipn_length. lia.
Qed.


(* ---------------------------------------------------------------------------------------- *)
(* Generic "xor the chunks of the message with successive key-stream blocks" — the shape of
   every counter-mode / stream cipher definition in Spec/ (SM4-CTR, ChaCha20, ...).
   [blk s] = key-stream block in state s (always n bytes), [next] = state update. *)
Section XorStream.
  Variable S : Type.
  Variable blk : S -> bytes.
  Variable next : S -> S.
  Variable n : nat.
  Hypothesis n_pos : 0 < n.
  Hypothesis blk_len : forall s, length (blk s) = n.

  Fixpoint xs_chunks (s : S) (cs : list bytes) : bytes :=
    match cs with
    | [] => []
    | c :: t => xor_bytes c (blk s) ++ xs_chunks (next s) t
    end.

  Fixpoint xs_ks (s : S) (k : nat) : bytes :=
    match k with
    | O => []
    | Datatypes.S k' => blk s ++ xs_ks (next s) k'
    end.

  Lemma xs_ks_length : forall k s, length (xs_ks s k) = n * k.
  Proof.
    induction k; intros s; cbn [xs_ks length]; [lia|]. rewrite app_length, blk_len, IHk. lia.
  Qed.

  Lemma xs_chunks_flat : forall msg s,
    xs_chunks s (chunks n msg) = xor_bytes msg (xs_ks s (length (chunks n msg))).
  Proof.
    intros msg.
    apply (chunk_ind n n_pos (fun msg => forall s,
             xs_chunks s (chunks n msg) = xor_bytes msg (xs_ks s (length (chunks n msg))))).
    - reflexivity.
    - clear msg. intros msg Hne IH s.
      rewrite chunks_cons by assumption. cbn [xs_chunks length xs_ks]. rewrite IH.
      destruct (Nat.le_gt_cases n (length msg)) as [L|L].
      + rewrite <- xor_bytes_app by (rewrite firstn_length, blk_len; lia).
        now rewrite firstn_skipn.
      + rewrite skipn_all2 by lia. rewrite firstn_all2 by lia.
        rewrite chunks_nil. cbn [length xs_ks xor_bytes]. now rewrite !app_nil_r.
  Qed.

  Lemma chunks_count_bound_n : forall l, length l <= n * length (chunks n l).
  Proof.
    intros l. rewrite <- (chunks_concat n l) at 1 by exact n_pos.
    apply concat_length_le. eapply Forall_impl; [|apply (chunks_Forall_len n l); exact n_pos].
    simpl. intros. lia.
  Qed.

  Theorem xs_length : forall msg s, length (xs_chunks s (chunks n msg)) = length msg.
  Proof.
    intros. rewrite xs_chunks_flat, xor_bytes_length, xs_ks_length.
    pose proof (chunks_count_bound_n msg). lia.
  Qed.

  Theorem xs_involutive : forall msg s,
    xs_chunks s (chunks n (xs_chunks s (chunks n msg))) = msg.
  Proof.
    intros msg s.
    rewrite (xs_chunks_flat (xs_chunks s (chunks n msg))).
    rewrite (chunks_count_eq n (xs_chunks s (chunks n msg)) msg n_pos (xs_length msg s)).
    rewrite xs_chunks_flat. apply xor_bytes_involutive.
    rewrite xs_ks_length. apply chunks_count_bound_n.
  Qed.
End XorStream.
