(* Proofs/HashProofs.v — C02 structural proofs, part 1: Merkle–Damgård padding and block folding
   (Spec/SHA.v md_pad / md_blocks), the HMAC lane geometry (Struct/HmacPad.v) and the SHA
   multi-buffer C manager (Struct/ShaMb.v).  All statements are for every length / every byte
   string; proofs by induction and arithmetic, no sampling. *)
From Coq Require Import List NArith Bool Lia Arith PeanoNat.
From IMB Require Import Lib.Bytes Struct.MemOps Proofs.BytesLemmas Spec.SHA.
Import ListNotations.

(* ------------------------------------------------------------------------- *)
(* Integer <-> byte-string facts                                              *)
(* ------------------------------------------------------------------------- *)

Lemma mask64_ones : mask64 = N.ones 64.
Proof. reflexivity. Qed.
Lemma mask8_ones : mask8 = N.ones 8.
Proof. reflexivity. Qed.

Lemma w8_land_ones x m : (8 <= m)%N -> w8 (N.land x (N.ones m)) = w8 x.
Proof.
  intros H. unfold w8. rewrite mask8_ones, <- N.land_assoc. f_equal.
  apply N.bits_inj. intros i. rewrite N.land_spec.
  destruct (N.ltb_spec i 8).
  - rewrite !N.ones_spec_low by lia. reflexivity.
  - rewrite (N.ones_spec_high 8) by lia. apply andb_false_r.
Qed.

Lemma shiftr_land_ones x m k : (k <= m)%N ->
  N.shiftr (N.land x (N.ones m)) k = N.land (N.shiftr x k) (N.ones (m - k)).
Proof.
  intros H. apply N.bits_inj. intros i.
  rewrite N.shiftr_spec', !N.land_spec, N.shiftr_spec'. f_equal.
  destruct (N.ltb_spec (i + k) m).
  - rewrite !N.ones_spec_low by lia. reflexivity.
  - rewrite !N.ones_spec_high by lia. reflexivity.
Qed.

Lemma N_to_le_land_ones n : forall x m, (8 * N.of_nat n <= m)%N ->
  N_to_le n (N.land x (N.ones m)) = N_to_le n x.
Proof.
  induction n as [|n IH]; intros x m H; [reflexivity|].
  cbn [N_to_le]. rewrite w8_land_ones by lia. f_equal.
  rewrite shiftr_land_ones by lia. apply IH. lia.
Qed.

Lemma N_to_le_w64 x : N_to_le 8 (w64 x) = N_to_le 8 x.
Proof. unfold w64. rewrite mask64_ones. apply N_to_le_land_ones. reflexivity. Qed.

Lemma N_to_be_w64 x : N_to_be 8 (w64 x) = N_to_be 8 x.
Proof. unfold N_to_be. rewrite N_to_le_w64. reflexivity. Qed.

Lemma N_to_le_zero n : N_to_le n 0 = zeros n.
Proof. induction n; [reflexivity|]. cbn [N_to_le]. rewrite N.shiftr_0_l, IHn. reflexivity. Qed.

Lemma N_to_le_app a : forall b x,
  N_to_le (a + b) x = N_to_le a x ++ N_to_le b (N.shiftr x (8 * N.of_nat a)).
Proof.
  induction a as [|a IH]; intros b x.
  - cbn [N_to_le plus app]. rewrite N.shiftr_0_r. reflexivity.
  - cbn [plus N_to_le app]. f_equal. rewrite IH. f_equal. f_equal.
    rewrite N.shiftr_shiftr. f_equal. lia.
Qed.

(* a value below 2^(8k) written on L >= k bytes: k significant bytes and L-k zero bytes *)
Lemma N_to_le_wide_gen k L x : k <= L -> (x < 2 ^ (8 * N.of_nat k))%N ->
  N_to_le L x = N_to_le k x ++ zeros (L - k).
Proof.
  intros HL Hx. replace L with (k + (L - k)) at 1 by lia. rewrite N_to_le_app.
  f_equal. replace (N.shiftr x (8 * N.of_nat k)) with 0%N; [apply N_to_le_zero|].
  symmetry. destruct (N.eq_dec x 0) as [->|Hz]; [apply N.shiftr_0_l|].
  apply N.shiftr_eq_0. apply N.log2_lt_pow2; [lia|]. exact Hx.
Qed.

Lemma N_to_be_wide_gen k L x : k <= L -> (x < 2 ^ (8 * N.of_nat k))%N ->
  N_to_be L x = zeros (L - k) ++ N_to_be k x.
Proof.
  intros HL Hx. unfold N_to_be. rewrite (N_to_le_wide_gen k L x HL Hx), rev_app_distr. f_equal.
  apply rev_zeros.
Qed.

(* a value below 2^64 written on L >= 8 bytes: 8 significant bytes and L-8 zero bytes *)
Lemma N_to_le_wide L x : 8 <= L -> (x < 2 ^ 64)%N -> N_to_le L x = N_to_le 8 x ++ zeros (L - 8).
Proof.
  intros HL Hx. replace L with (8 + (L - 8)) at 1 by lia. rewrite N_to_le_app.
  f_equal. replace (N.shiftr x (8 * N.of_nat 8)) with 0%N; [apply N_to_le_zero|].
  symmetry. destruct (N.eq_dec x 0) as [->|Hz]; [apply N.shiftr_0_l|].
  apply N.shiftr_eq_0. apply N.log2_lt_pow2; [lia|]. exact Hx.
Qed.

Lemma N_to_be_wide L x : 8 <= L -> (x < 2 ^ 64)%N -> N_to_be L x = zeros (L - 8) ++ N_to_be 8 x.
Proof.
  intros HL Hx. unfold N_to_be. rewrite (N_to_le_wide L x HL Hx), rev_app_distr. f_equal.
  apply rev_zeros.
Qed.

(* ------------------------------------------------------------------------- *)
(* md_pad                                                                     *)
(* ------------------------------------------------------------------------- *)

Definition md_len_enc (L : nat) (be : bool) (total : nat) : bytes :=
  let bits := (8 * N.of_nat total)%N in if be then N_to_be L bits else N_to_le L bits.

Lemma md_len_enc_length L be total : length (md_len_enc L be total) = L.
Proof. unfold md_len_enc. destruct be; [apply N_to_be_length|apply N_to_le_length]. Qed.

Definition md_pad_k (B L n : nat) : nat := (B - (n + 1 + L) mod B) mod B.

Lemma md_pad_unfold B L be total data :
  md_pad B L be total data =
  data ++ 128%N :: zeros (md_pad_k B L (length data)) ++ md_len_enc L be total.
Proof. reflexivity. Qed.

Lemma md_pad_unfold3 B L be total data :
  md_pad B L be total data =
  (data ++ [128%N]) ++ zeros (md_pad_k B L (length data)) ++ md_len_enc L be total.
Proof. rewrite <- app_assoc. reflexivity. Qed.

Lemma md_pad_k_spec B L n : 0 < B ->
  md_pad_k B L n < B /\ (n + 1 + L + md_pad_k B L n) mod B = 0.
Proof.
  intros HB. unfold md_pad_k. split; [apply mod_lt; assumption|].
  pose proof (div_mod_eq (n + 1 + L) B HB) as E.
  pose proof (mod_lt (n + 1 + L) B HB) as Hr.
  set (r := (n + 1 + L) mod B) in *. set (q := (n + 1 + L) / B) in *.
  destruct (Nat.eq_dec r 0) as [Hz|Hz].
  - rewrite Hz, Nat.sub_0_r, Nat.mod_same by lia.
    replace (n + 1 + L + 0) with (q * B) by lia. apply Nat.mod_mul. lia.
  - rewrite (Nat.mod_small (B - r)) by lia.
    replace (n + 1 + L + (B - r)) with ((q + 1) * B) by lia. apply Nat.mod_mul. lia.
Qed.

Lemma md_pad_total_length B L be total data :
  length (md_pad B L be total data) = length data + 1 + L + md_pad_k B L (length data).
Proof.
  rewrite md_pad_unfold, !app_length. cbn [length].
  rewrite app_length, zeros_length, md_len_enc_length. lia.
Qed.

(* THEOREM md_pad_length: for every block size B > 0, every length-field width L, byte order,
   total length and data: the padded string has a length that is a multiple of B and is minimal
   (less than one block of padding bytes beyond the mandatory 1 + L), starts with the data and
   the 0x80 byte, and ends with the L-byte encoding of 8*total. *)
Theorem md_pad_length_thm : forall B L be total data, 0 < B ->
  let p := md_pad B L be total data in
  length p mod B = 0 /\
  length data + 1 + L <= length p < length data + 1 + L + B /\
  firstn (length data + 1) p = data ++ [128%N] /\
  skipn (length p - L) p = md_len_enc L be total /\
  Forall (fun b => b = 0%N) (firstn (length p - L - length data - 1) (skipn (length data + 1) p)).
Proof.
  intros B L be total data HB p.
  pose proof (md_pad_k_spec B L (length data) HB) as [Hk Hm].
  assert (Hlen : length p = length data + 1 + L + md_pad_k B L (length data))
    by apply md_pad_total_length.
  repeat split.
  - rewrite Hlen. exact Hm.
  - lia.
  - lia.
  - unfold p. rewrite md_pad_unfold3. apply firstn_app_l. rewrite app_length. reflexivity.
  - rewrite Hlen. unfold p. rewrite md_pad_unfold3, app_assoc. apply skipn_app_l.
    rewrite !app_length, zeros_length. cbn [length]. lia.
  - rewrite Hlen. unfold p. rewrite md_pad_unfold3.
    rewrite skipn_app_l by (rewrite app_length; reflexivity).
    replace (length data + 1 + L + md_pad_k B L (length data) - L - length data - 1)
      with (md_pad_k B L (length data)) by lia.
    rewrite firstn_app_l by (symmetry; apply zeros_length).
    unfold zeros. apply Forall_forall. intros b Hb. apply repeat_spec in Hb. exact Hb.
Qed.

(* padding commutes with a prefix of whole blocks *)
Lemma md_pad_app_blocks B L be total pre tail q : 0 < B -> length pre = q * B ->
  md_pad B L be total (pre ++ tail) = pre ++ md_pad B L be total tail.
Proof.
  intros HB Hp. rewrite !md_pad_unfold, <- app_assoc. f_equal. f_equal. f_equal. f_equal.
  unfold md_pad_k. rewrite app_length, Hp.
  replace (q * B + length tail + 1 + L) with (q * B + (length tail + 1 + L)) by lia.
  rewrite mod_mul_add by assumption. reflexivity.
Qed.

(* explicit form for a tail shorter than a block: the case split on
   [length tail + 1 + L <= B] is the 55/56 (B = 64, L = 8) and 111/112 (B = 128, L = 16)
   threshold *)
Definition md_tail_blocks (B L r : nat) : nat := if Nat.leb (r + 1 + L) B then 1 else 2.

Lemma md_pad_k_tail B L r : 0 < B -> L + 1 <= B -> r < B ->
  md_pad_k B L r = md_tail_blocks B L r * B - r - 1 - L.
Proof.
  intros HB HL Hr. unfold md_pad_k, md_tail_blocks.
  destruct (Nat.leb_spec (r + 1 + L) B) as [H|H].
  - destruct (Nat.eq_dec (r + 1 + L) B) as [E|E].
    + rewrite E, Nat.mod_same, Nat.sub_0_r, Nat.mod_same by lia. lia.
    + rewrite (Nat.mod_small (r + 1 + L)) by lia. rewrite Nat.mod_small by lia. lia.
  - rewrite (mod_sub_1 (r + 1 + L) B) by lia. rewrite Nat.mod_small by lia. lia.
Qed.

Lemma md_pad_tail_explicit B L be total tail : 0 < B -> L + 1 <= B -> length tail < B ->
  md_pad B L be total tail =
  tail ++ 128%N :: zeros (md_tail_blocks B L (length tail) * B - length tail - 1 - L)
       ++ md_len_enc L be total.
Proof. intros. rewrite md_pad_unfold, md_pad_k_tail by assumption. reflexivity. Qed.

Lemma md_pad_tail_length B L be total tail : 0 < B -> L + 1 <= B -> length tail < B ->
  length (md_pad B L be total tail) = md_tail_blocks B L (length tail) * B.
Proof.
  intros HB HL Hr. rewrite md_pad_total_length, md_pad_k_tail by assumption.
  unfold md_tail_blocks. destruct (Nat.leb_spec (length tail + 1 + L) B); lia.
Qed.

(* ------------------------------------------------------------------------- *)
(* md_blocks                                                                  *)
(* ------------------------------------------------------------------------- *)

Lemma md_blocks_fuel_indep B f : 0 < B -> forall f1 f2 st data,
  length data <= f1 -> length data <= f2 ->
  md_blocks_fuel B f f1 st data = md_blocks_fuel B f f2 st data.
Proof.
  intros HB. induction f1 as [|f1 IH]; intros f2 st data H1 H2.
  - destruct data; cbn [length] in H1; [|lia].
    destruct f2; cbn [md_blocks_fuel]; [reflexivity|].
    rewrite firstn_nil. cbn [length]. destruct B; [lia|reflexivity].
  - destruct f2 as [|f2].
    + destruct data; cbn [length] in H2; [|lia].
      cbn [md_blocks_fuel]. rewrite firstn_nil. cbn [length]. destruct B; [lia|reflexivity].
    + cbn [md_blocks_fuel].
      destruct (Nat.eqb_spec (length (firstn B data)) B) as [E|E]; [|reflexivity].
      apply IH; rewrite skipn_length; rewrite firstn_length in E; lia.
Qed.

Lemma md_blocks_short B f st data : length data < B -> md_blocks B f st data = st.
Proof.
  intros H. unfold md_blocks. destruct B as [|B']; [reflexivity|].
  destruct data as [|x data]; [reflexivity|].
  cbn [length md_blocks_fuel].
  destruct (Nat.eqb_spec (length (firstn (S B') (x :: data))) (S B')) as [E|E]; [|reflexivity].
  rewrite firstn_length in E. cbn [length] in *. lia.
Qed.

Lemma md_blocks_cons_block B f st blk rest : 0 < B -> length blk = B ->
  md_blocks B f st (blk ++ rest) = md_blocks B f (f st blk) rest.
Proof.
  intros HB Hb. unfold md_blocks. destruct B as [|B']; [lia|].
  remember (S B') as B eqn:EB.
  destruct (blk ++ rest) as [|x t] eqn:E.
  { apply (f_equal (@length N)) in E. rewrite app_length in E. cbn [length] in E. lia. }
  rewrite <- E. replace (length (blk ++ rest)) with (S (length (blk ++ rest) - 1))
    by (rewrite E; cbn [length]; lia).
  cbn [md_blocks_fuel]. rewrite firstn_app_l by (symmetry; assumption).
  rewrite Hb, Nat.eqb_refl, skipn_app_l by (symmetry; assumption).
  apply md_blocks_fuel_indep; [lia| |lia]. rewrite app_length. lia.
Qed.

(* THEOREM md_blocks_app: folding over a concatenation whose first part consists of whole
   blocks composes *)
Theorem md_blocks_app_thm : forall B f st a b q, 0 < B -> length a = q * B ->
  md_blocks B f st (a ++ b) = md_blocks B f (md_blocks B f st a) b.
Proof.
  intros B f st a b q HB. revert st a. induction q as [|q IH]; intros st a Ha.
  - cbn in Ha. apply length_zero_nil in Ha. subst a. cbn [app].
    rewrite (md_blocks_short B f st []) by (cbn [length]; lia). reflexivity.
  - assert (Hb : length (firstn B a) = B) by (apply firstn_length_le; lia).
    assert (Hr : length (skipn B a) = q * B) by (rewrite skipn_length; lia).
    pose proof (list_split_at a B) as E.
    remember (firstn B a) as blk. remember (skipn B a) as rest.
    clear Heqblk Heqrest Ha. subst a. rewrite <- app_assoc.
    rewrite (md_blocks_cons_block B f st blk (rest ++ b)) by assumption.
    rewrite (md_blocks_cons_block B f st blk rest) by assumption.
    apply IH. exact Hr.
Qed.

(* the fold as a list fold over explicit blocks: what a lane kernel called on whole blocks does *)
Lemma md_blocks_concat B f bl : 0 < B -> Forall (fun b => length b = B) bl ->
  forall st, md_blocks B f st (concat bl) = fold_left f bl st.
Proof.
  intros HB H. induction H as [|b bl Hb _ IH]; intros st.
  - apply md_blocks_short. cbn [concat length]. lia.
  - cbn [concat fold_left]. rewrite md_blocks_cons_block by assumption. apply IH.
Qed.

Lemma md_blocks_eq_fold_chunks B f st data q : 0 < B -> length data = q * B ->
  md_blocks B f st data = fold_left f (chunks B data) st.
Proof.
  intros HB Hl. rewrite <- (chunks_concat B data HB) at 1.
  apply md_blocks_concat; [assumption|]. apply (chunks_Forall_length B data q); assumption.
Qed.

(* a trailing partial block is ignored *)
Lemma md_blocks_app_short B f st a b q : 0 < B -> length a = q * B -> length b < B ->
  md_blocks B f st (a ++ b) = md_blocks B f st a.
Proof.
  intros HB Ha Hb. rewrite (md_blocks_app_thm B f st a b q HB Ha). apply md_blocks_short, Hb.
Qed.
