(* Proofs/OooProofs.v — the generic lane scheduler gives every job the result it gets alone. *)
From Coq Require Import ZArith List Bool Lia Arith.
From IMB Require Import Mgr.Ooo.
Import ListNotations.
Local Open Scope Z_scope.

Section OooProofs.
Variable J St : Type.
Variable init : J -> St.
Variable units : J -> Z.
Variable step : St -> Z -> St.
Variable L : nat.
Hypothesis HL : (1 <= L)%nat.
(* the lane kernel is chunk-compositional: processing a then b units = processing a+b units *)
Hypothesis step0 : forall s, step s 0 = s.
Hypothesis step_add : forall s a b, 0 <= a -> 0 <= b -> step (step s a) b = step s (a + b).

Notation ooo := (ooo J St).
Notation submit := (submit J St init units step L).
Notation flush := (flush J St step L).
Notation run_min := (run_min J St step L).

(* a job the manager accepts: its length fits the 16-bit lane length below the 0xFFFF sentinel *)
Definition job_ok (j : J) : Prop := 0 <= units j < SENT.

Definition Inv (o : ooo) : Prop :=
  NoDup (unused o) /\
  (forall l, In l (unused o) <-> (l < L)%nat /\ job o l = None) /\
  (forall l j, (l < L)%nat -> job o l = Some j ->
     0 <= lens o l <= units j /\ units j < SENT /\ ls o l = step (init j) (units j - lens o l)).

Lemma argmin_lt f n : (1 <= n)%nat -> (argmin f n < n)%nat.
Proof.
  induction n as [|k IH]; intros H; [lia|]. cbn [argmin]. destruct k; [lia|].
  destruct (f (S k) <? f (argmin f (S k))); [lia|]. specialize (IH ltac:(lia)). lia.
Qed.

Lemma argmin_min f n : forall i, (i < n)%nat -> f (argmin f n) <= f i.
Proof.
  induction n as [|k IH]; intros i Hi; [lia|]. cbn [argmin]. destruct k.
  - replace i with O by lia. lia.
  - destruct (f (S k) <? f (argmin f (S k))) eqn:E.
    + destruct (Nat.eq_dec i (S k)) as [->|Hne]; [lia|]. specialize (IH i ltac:(lia)). lia.
    + destruct (Nat.eq_dec i (S k)) as [->|Hne]; [lia|]. apply IH. lia.
Qed.

Lemma upd_same {A} (f : nat -> A) k v : upd f k v k = v.
Proof. unfold upd. rewrite Nat.eqb_refl. reflexivity. Qed.
Lemma upd_other {A} (f : nat -> A) k v i : i <> k -> upd f k v i = f i.
Proof. intros H. unfold upd. destruct (Nat.eqb_spec i k); [contradiction|reflexivity]. Qed.

(* the state on which the minimum is taken: every lane below L has a non-negative length, occupied
   lanes satisfy the progress invariant, idle lanes carry the sentinel, and some lane is occupied *)
Definition Ready (o : ooo) : Prop :=
  NoDup (unused o) /\
  (forall l, In l (unused o) <-> (l < L)%nat /\ job o l = None) /\
  (forall l j, (l < L)%nat -> job o l = Some j ->
     0 <= lens o l <= units j /\ units j < SENT /\ ls o l = step (init j) (units j - lens o l)) /\
  (forall l, (l < L)%nat -> job o l = None -> lens o l = SENT) /\
  (exists l, (l < L)%nat /\ job o l <> None).

Lemma run_min_spec o :
  Ready o ->
  let '(o', r) := run_min o in
  exists idx j, (idx < L)%nat /\ job o idx = Some j /\
    r = Some (j, step (init j) (units j)) /\
    Inv o' /\ unused o' = idx :: unused o /\
    job o' idx = None /\ (forall l, l <> idx -> job o' l = job o l).
Proof.
  intros (Hnd & Hun & Hocc & Hfree & (l0 & Hl0 & Hj0)).
  unfold run_min. set (idx := argmin (lens o) L). set (m := lens o idx).
  assert (Hidx : (idx < L)%nat) by (apply argmin_lt; exact HL).
  assert (Hmin : forall i, (i < L)%nat -> m <= lens o i) by (intros; apply argmin_min; assumption).
  destruct (job o l0) as [j0|] eqn:E0; [|contradiction]. clear Hj0.
  destruct (Hocc l0 j0 Hl0 E0) as (Hl0a & Hl0b & _).
  (* the minimum lane is occupied: an idle lane carries 0xFFFF, above every job length *)
  destruct (job o idx) as [j|] eqn:Ej.
  2:{ exfalso. pose proof (Hfree idx Hidx Ej) as Hs. specialize (Hmin l0 Hl0). unfold m in Hmin. lia. }
  destruct (Hocc idx j Hidx Ej) as (Hia & Hib & Hic).
  assert (Hm0 : 0 <= m) by (unfold m; lia).
  unfold complete, process. cbn [job lens ls unused]. rewrite Ej.
  exists idx, j. split; [exact Hidx|]. split; [exact Ej|]. split.
  { f_equal. f_equal. rewrite Hic. unfold m in *. rewrite step_add by lia. f_equal. lia. }
  split; [|split; [reflexivity|split; [apply upd_same|intros; apply upd_other; assumption]]].
  unfold Inv. cbn [job lens ls unused]. split; [|split].
  - constructor; [|exact Hnd]. intro Hin. apply Hun in Hin. destruct Hin as (_ & Hn). congruence.
  - intros l. cbn [In]. split.
    + intros [<-|Hin]; [split; [exact Hidx|apply upd_same]|].
      apply Hun in Hin. destruct Hin as (Hl & Hn). split; [exact Hl|].
      destruct (Nat.eq_dec l idx) as [->|Hne]; [apply upd_same|rewrite upd_other by exact Hne; exact Hn].
    + intros (Hl & Hn). destruct (Nat.eq_dec l idx) as [->|Hne]; [left; reflexivity|right].
      rewrite upd_other in Hn by exact Hne. apply Hun. split; assumption.
  - intros l j' Hl Hj'. destruct (Nat.eq_dec l idx) as [->|Hne].
    { rewrite upd_same in Hj'. discriminate. }
    rewrite upd_other in Hj' by exact Hne.
    destruct (Hocc l j' Hl Hj') as (Ha & Hb & Hc). specialize (Hmin l Hl). unfold m in *.
    split; [lia|]. split; [exact Hb|]. rewrite Hc. rewrite step_add by lia. f_equal. lia.
Qed.

(* one free lane always remains between calls *)
Definition Inv1 (o : ooo) : Prop := Inv o /\ unused o <> [].

Lemma submit_spec o j :
  Inv1 o -> job_ok j ->
  let '(o', r) := submit o j in
  Inv1 o' /\
  match r with
  | None => True
  | Some (j', s') => s' = step (init j') (units j')
  end.
Proof.
  intros ((Hnd & Hun & Hocc) & Hne) Hj. unfold submit.
  destruct (unused o) as [|l rest] eqn:Eu; [contradiction|].
  assert (Hl : (l < L)%nat /\ job o l = None) by (apply Hun; left; reflexivity).
  destruct Hl as (Hl & Hjl).
  inversion Hnd as [|? ? Hnotin Hnd']; subst.
  set (o1 := mko rest (upd (lens o) l (units j)) (upd (job o) l (Some j)) (upd (ls o) l (init j))).
  assert (Hun1 : forall k, In k rest <-> (k < L)%nat /\ job o1 k = None).
  { intros k. unfold o1. cbn [job]. split.
    - intros Hin. assert (k <> l) by (intro; subst; contradiction).
      rewrite upd_other by assumption. apply Hun. right. exact Hin.
    - intros (Hk & Hn). destruct (Nat.eq_dec k l) as [->|Hkl]; [rewrite upd_same in Hn; discriminate|].
      rewrite upd_other in Hn by exact Hkl. destruct (proj2 (Hun k) (conj Hk Hn)) as [E|Hin]; [congruence|exact Hin]. }
  assert (Hocc1 : forall k j', (k < L)%nat -> job o1 k = Some j' ->
            0 <= lens o1 k <= units j' /\ units j' < SENT /\ ls o1 k = step (init j') (units j' - lens o1 k)).
  { intros k j' Hk Hj'. unfold o1 in *. cbn [job lens ls] in *. destruct (Nat.eq_dec k l) as [->|Hkl].
    - rewrite upd_same in Hj'. rewrite !upd_same. injection Hj' as <-. unfold job_ok in Hj.
      split; [lia|]. split; [lia|]. rewrite Z.sub_diag.
      symmetry. apply step0.
    - rewrite !upd_other in * by exact Hkl. apply Hocc; assumption. }
  assert (Hnd1 : NoDup rest) by exact Hnd'.
  destruct rest as [|l2 rest'] eqn:Er.
  - (* last free lane taken: all lanes are busy, process the minimum *)
    assert (HR : Ready o1).
    { unfold Ready. split; [exact Hnd1|]. split; [exact Hun1|]. split; [exact Hocc1|]. split.
      - intros k Hk Hn. exfalso. apply (proj2 (Hun1 k) (conj Hk Hn)).
      - exists l. split; [exact Hl|]. unfold o1. cbn [job]. rewrite upd_same. discriminate. }
    pose proof (run_min_spec o1 HR) as H. fold o1.
    destruct (run_min o1) as [o' r]. destruct H as (idx & j' & Hidx & Hj' & -> & HI' & Hu' & _).
    split; [|reflexivity]. split; [exact HI'|]. rewrite Hu'. discriminate.
  - split; [|exact I]. fold o1. split; [|unfold o1; cbn [unused]; discriminate].
    unfold Inv. split; [exact Hnd1|]. split; [exact Hun1|exact Hocc1].
Qed.

Lemma donor_some jb n d : donor J jb n = Some d -> (d < n)%nat /\ jb d <> None.
Proof.
  induction n as [|k IH]; cbn [donor]; [discriminate|].
  destruct (jb k) eqn:E.
  - intros H. injection H as <-. split; [lia|]. congruence.
  - intros H. destruct (IH H). split; [lia|assumption].
Qed.

Lemma donor_none jb n : donor J jb n = None -> forall l, (l < n)%nat -> jb l = None.
Proof.
  induction n as [|k IH]; cbn [donor]; intros H l Hl; [lia|].
  destruct (jb k) eqn:E; [discriminate|].
  destruct (Nat.eq_dec l k) as [->|Hne]; [exact E|]. apply IH; [exact H|lia].
Qed.

(* flush hands back a job exactly when some lane is occupied, with the result the job gets alone *)
Lemma flush_spec o :
  Inv1 o ->
  let '(o', r) := flush o in
  Inv1 o' /\
  match r with
  | None => forall l, (l < L)%nat -> job o l = None
  | Some (j', s') => s' = step (init j') (units j') /\ exists l, (l < L)%nat /\ job o l = Some j'
  end.
Proof.
  intros ((Hnd & Hun & Hocc) & Hne). unfold flush.
  destruct (donor J (job o) L) as [d|] eqn:Ed.
  - destruct (donor_some _ _ _ Ed) as (Hd & Hjd).
    assert (HR : Ready (pad J St o d)).
    { unfold Ready, pad. cbn [unused lens job ls]. split; [exact Hnd|]. split; [exact Hun|]. split; [|split].
      - intros l j Hl Hj. rewrite Hj. apply Hocc; assumption.
      - intros l Hl Hn. rewrite Hn. reflexivity.
      - exists d. split; assumption. }
    pose proof (run_min_spec _ HR) as H.
    destruct (run_min (pad J St o d)) as [o' r]. destruct H as (idx & j' & Hidx & Hj' & -> & HI' & Hu' & _).
    cbn [pad job] in Hj'.
    split; [split; [exact HI'|rewrite Hu'; discriminate]|].
    split; [reflexivity|]. exists idx. split; assumption.
  - split; [split; [split; [exact Hnd|split; [exact Hun|exact Hocc]]|exact Hne]|].
    apply donor_none. exact Ed.
Qed.

Lemma seq_in_iff a n l : In l (seq a n) <-> (a <= l < a + n)%nat.
Proof. apply in_seq. Qed.

Lemma reset_inv s0 : Inv1 (reset J St L s0).
Proof.
  unfold Inv1, Inv, reset. cbn [unused lens job ls]. split; [split; [apply seq_NoDup|split]|].
  - intros l. rewrite in_seq. split; [intros; split; [lia|reflexivity]|intros (H & _); lia].
  - intros l j _ H. discriminate.
  - destruct L; [lia|]. cbn. discriminate.
Qed.

(* Whole histories: from reset, under any interleaving of submits (of acceptable jobs) and
   flushes, every job handed back carries exactly the state it reaches when processed alone. *)
Notation orun := (orun J St init units step L).

Fixpoint jobs_ok (ps : list (oop J)) : Prop :=
  match ps with
  | [] => True
  | OSubmit j :: t => job_ok j /\ jobs_ok t
  | OFlush :: t => jobs_ok t
  end.

Theorem ooo_job_result_alone_thm ps : forall o,
  Inv1 o -> jobs_ok ps ->
  Forall (fun r => match r with None => True | Some (j, s) => s = step (init j) (units j) end)
         (snd (orun o ps)).
Proof.
  induction ps as [|p t IH]; intros o HI Hok; cbn [Ooo.orun snd]; [constructor|].
  destruct p as [j|]; cbn [ostep].
  - cbn [jobs_ok] in Hok. destruct Hok as (Hj & Hok).
    pose proof (submit_spec o j HI Hj) as H. destruct (submit o j) as [o1 r]. destruct H as (HI1 & Hr).
    specialize (IH o1 HI1 Hok). destruct (Ooo.orun J St init units step L o1 t) as [o2 rs].
    cbn [snd] in *. constructor; [|exact IH]. destruct r as [[j' s']|]; exact Hr || exact I.
  - cbn [jobs_ok] in Hok.
    pose proof (flush_spec o HI) as H. destruct (flush o) as [o1 r]. destruct H as (HI1 & Hr).
    specialize (IH o1 HI1 Hok). destruct (Ooo.orun J St init units step L o1 t) as [o2 rs].
    cbn [snd] in *. constructor; [|exact IH]. destruct r as [[j' s']|]; [exact (proj1 Hr)|exact I].
Qed.

(* the invariant itself, for every reachable state: lanes are never double-allocated, lengths of
   busy lanes never underflow, one lane is always free between calls *)
Theorem ooo_invariant_thm ps : forall o, Inv1 o -> jobs_ok ps -> Inv1 (fst (orun o ps)).
Proof.
  induction ps as [|p t IH]; intros o HI Hok; cbn [Ooo.orun fst]; [exact HI|].
  destruct p as [j|]; cbn [ostep].
  - cbn [jobs_ok] in Hok. destruct Hok as (Hj & Hok).
    pose proof (submit_spec o j HI Hj) as H. destruct (submit o j) as [o1 r]. destruct H as (HI1 & _).
    specialize (IH o1 HI1 Hok). destruct (Ooo.orun J St init units step L o1 t) as [o2 rs]. exact IH.
  - cbn [jobs_ok] in Hok.
    pose proof (flush_spec o HI) as H. destruct (flush o) as [o1 r]. destruct H as (HI1 & _).
    specialize (IH o1 HI1 Hok). destruct (Ooo.orun J St init units step L o1 t) as [o2 rs]. exact IH.
Qed.

(* ---------- progress: flushing drains the manager ---------- *)
(* This is the contract the in-order ring (Mgr/Ring.v, op_ok) assumes of complete_job(): a job
   parked in a manager is handed back after finitely many flushes of that manager — at most as
   many as there are busy lanes — so the `while (job->status < COMPLETED)` loop terminates. *)

Lemma flush_frame o :
  Inv1 o ->
  match flush o with
  | (o', None) => (forall l, (l < L)%nat -> job o l = None) /\ o' = o
  | (o', Some (j', s')) =>
      Inv1 o' /\ s' = step (init j') (units j') /\
      exists idx, (idx < L)%nat /\ job o idx = Some j' /\ job o' idx = None /\
                  (forall l, l <> idx -> job o' l = job o l) /\ unused o' = idx :: unused o
  end.
Proof.
  intros ((Hnd & Hun & Hocc) & Hne). unfold flush.
  destruct (donor J (job o) L) as [d|] eqn:Ed.
  - destruct (donor_some _ _ _ Ed) as (Hd & Hjd).
    assert (HR : Ready (pad J St o d)).
    { unfold Ready, pad. cbn [unused lens job ls]. split; [exact Hnd|]. split; [exact Hun|]. split; [|split].
      - intros l j Hl Hj. rewrite Hj. apply Hocc; assumption.
      - intros l Hl Hn. rewrite Hn. reflexivity.
      - exists d. split; assumption. }
    pose proof (run_min_spec _ HR) as H.
    destruct (run_min (pad J St o d)) as [o' r].
    destruct H as (idx & j' & Hidx & Hj' & -> & HI' & Hu' & Hnone & Hfr).
    cbn [pad job unused] in *.
    split; [split; [exact HI'|rewrite Hu'; discriminate]|]. split; [reflexivity|].
    exists idx. repeat split; assumption.
  - split; [apply donor_none; exact Ed|reflexivity].
Qed.

Fixpoint flush_n (n : nat) (o : ooo) : ooo :=
  match n with O => o | S k => flush_n k (fst (flush o)) end.

Lemma unused_length_le o : Inv1 o -> (length (unused o) <= L)%nat.
Proof.
  intros ((Hnd & Hun & _) & _).
  rewrite <- (seq_length L 0). apply NoDup_incl_length; [exact Hnd|].
  intros l Hl. apply Hun in Hl. apply in_seq. lia.
Qed.

(* the number of flushes needed is bounded by the number of busy lanes *)
Theorem flush_drains_lane : forall n o l,
  Inv1 o -> (l < L)%nat -> job o l <> None -> (L - length (unused o) <= n)%nat ->
  exists k, (k <= n)%nat /\ job (flush_n k o) l = None /\ Inv1 (flush_n k o).
Proof.
  induction n as [|n IH]; intros o l HI Hl Hj Hb.
  - (* no busy lane: contradiction with job o l <> None *)
    exfalso. pose proof (unused_length_le o HI) as Hle.
    assert (Hlen : length (unused o) = L) by lia.
    destruct HI as ((Hnd & Hun & _) & _).
    assert (Hin : In l (unused o)).
    { (* unused has L distinct elements below L: it contains every lane *)
      assert (Hincl : incl (seq 0 L) (unused o)).
      { apply NoDup_length_incl; [exact Hnd|rewrite seq_length; lia|].
        intros x Hx. apply Hun in Hx. apply in_seq. lia. }
      apply Hincl. apply in_seq. lia. }
    apply Hun in Hin. destruct Hin as (_ & Hn). contradiction.
  - pose proof (flush_frame o HI) as H.
    destruct (flush o) as [o' r] eqn:Ef. destruct r as [[j' s']|].
    + destruct H as (HI' & _ & idx & Hidx & Hji & Hnone & Hfr & Hu).
      destruct (Nat.eq_dec l idx) as [->|Hne].
      * exists 1%nat. cbn [flush_n]. rewrite Ef. cbn [fst]. split; [lia|]. split; [exact Hnone|exact HI'].
      * destruct (IH o' l HI' Hl) as (k & Hk & Hkn & HIk).
        { rewrite Hfr by exact Hne. exact Hj. }
        { rewrite Hu. cbn [length]. lia. }
        exists (S k). cbn [flush_n]. rewrite Ef. cbn [fst]. split; [lia|]. split; assumption.
    + destruct H as (Hall & _). exfalso. apply Hj. apply Hall. exact Hl.
Qed.

End OooProofs.
