(* Proofs/RingProofs.v — the ring refines a FIFO: invariant and per-call lemmas. *)
From Coq Require Import ZArith List Bool Lia ZifyBool.
From IMB Require Import Gen.GenConsts Mgr.Ring Proofs.RingArith.
Import ListNotations.
Local Open Scope Z_scope.

Section RingProofs.
Variable SZ NJ K MAXB : Z.
Hypothesis HSZ : 0 < SZ.
Hypothesis HK : 1 <= K.
Hypothesis HNJ : NJ = 2 ^ K.

Let HNJ2 : 2 <= NJ := NJ_ge2 NJ K HK HNJ.

(* Ghost state: every id ever accepted (in order), how many were handed back, and the
   re-basing offset of job numbers onto ring slots. *)
Record ghost := mkg { acc : list Z; gret : Z; gbase : Z }.
Definition gsub (g : ghost) : Z := Z.of_nat (length (acc g)).
Definition gid (g : ghost) (k : Z) : Z := nth (Z.to_nat k) (acc g) 0.
Definition sl (g : ghost) (k : Z) : Z := slot SZ NJ (gbase g) k.

Definition Inv (s : st) (g : ghost) : Prop :=
  0 <= gret g <= gsub g /\ gsub g - gret g <= NJ - 1 /\
  next s = sl g (gsub g) /\
  earliest s = (if gsub g =? gret g then -1 else sl g (gret g)) /\
  (forall k, gret g <= k < gsub g -> cont s (sl g k) = gid g k).

Definition g0 : ghost := mkg [] 0 0.

Lemma inv_init : Inv init g0.
Proof.
  unfold Inv, g0, gsub, sl, slot; cbn. repeat split; try lia.
  all: try (rewrite Z.mod_0_l by lia; lia).
  all: intros; lia.
Qed.

Definition out_jobs (o : out) : list (Z * Z * Z) :=
  match o with OJob (Some j) => [j] | OJobs _ l => l | _ => [] end.
Definition jid (j : Z * Z * Z) : Z := snd (fst j).
Definition jstat (j : Z * Z * Z) : Z := snd j.
Definition out_ids (o : out) : list Z := map jid (out_jobs o).

Definition accepted (o : op) (r : out) : list Z :=
  match o, r with
  | Submit _ _ id _, _ => [id]
  | SubmitBurst _ _ (Some js) _ _, OJobs _ _ => map bj_id js
  | _, _ => []
  end.

Definition seg (l : list Z) (a n : nat) : list Z := firstn n (skipn a l).

Lemma sl_nonneg g k : 0 <= sl g k.
Proof. apply (slot_nonneg SZ NJ K); auto. Qed.

Lemma sl_neq g a b : 0 < b - a < NJ -> sl g a <> sl g b.
Proof. apply (slot_neq SZ NJ K); auto. Qed.

Lemma adv_sl g k : adv SZ NJ (sl g k) = sl g (k + 1).
Proof. apply (adv_slot SZ NJ K); auto. Qed.

Lemma gid_app_old g ids k : 0 <= k < gsub g ->
  gid (mkg (acc g ++ ids) (gret g) (gbase g)) k = gid g k.
Proof.
  intros H. unfold gid, gsub in *. cbn. apply app_nth1. lia.
Qed.

Lemma gid_app_new g ids i : 0 <= i ->
  nth (Z.to_nat (gsub g + i)) (acc g ++ ids) 0 = nth (Z.to_nat i) ids 0.
Proof.
  intros H. unfold gsub. rewrite app_nth2 by lia. f_equal. lia.
Qed.

Lemma skipn_S_cons {A} (a : nat) (l : list A) x rest : skipn a l = x :: rest -> skipn (S a) l = rest.
Proof.
  revert l; induction a; intros l H.
  - cbn in H. subst. reflexivity.
  - destruct l; [discriminate|]. cbn [skipn] in *. apply IHa. exact H.
Qed.

(* ids of jobs ret..ret+m-1 read from the slots *)
Lemma ids_seg (f : Z -> Z) g (m : nat) (r : Z) :
  0 <= r -> r + Z.of_nat m <= gsub g ->
  (forall k, r <= k < r + Z.of_nat m -> f (sl g k) = gid g k) ->
  map f (slots SZ NJ (gbase g) r m) = seg (acc g) (Z.to_nat r) m.
Proof.
  revert r. induction m; intros r Hr Hle Hf.
  - reflexivity.
  - cbn [slots map]. unfold seg.
    assert (Hlt : (Z.to_nat r < length (acc g))%nat) by (unfold gsub in Hle; lia).
    destruct (skipn (Z.to_nat r) (acc g)) as [|x rest] eqn:E.
    { apply (f_equal (@length Z)) in E. rewrite skipn_length in E. cbn in E. lia. }
    cbn [firstn]. f_equal.
    + fold (sl g r). rewrite Hf by lia. unfold gid.
      rewrite <- (firstn_skipn (Z.to_nat r) (acc g)) at 1. rewrite E.
      rewrite app_nth2; rewrite firstn_length_le by lia; [|lia]. rewrite Nat.sub_diag. reflexivity.
    + rewrite IHm; [| lia | lia | intros; apply Hf; lia].
      unfold seg. f_equal.
      replace (Z.to_nat (r + 1)) with (S (Z.to_nat r)) by lia.
      rewrite (skipn_S_cons _ _ _ _ E). reflexivity.
Qed.


Lemma slot_period base k : slot SZ NJ base (k + NJ) = slot SZ NJ base k.
Proof.
  unfold slot. f_equal. replace (base + (k + NJ)) with (base + k + 1 * NJ) by lia. apply Z_mod_plus_full.
Qed.

Ltac proj := cbn [earliest next stat cont errno set_earliest set_next set_errno set_stat set_cont complete_set] in *.

Lemma seg_one l a : (a < length l)%nat -> seg l a 1 = [nth a l 0].
Proof.
  intros H. unfold seg. destruct (skipn a l) as [|x r] eqn:E.
  { apply (f_equal (@length Z)) in E. rewrite skipn_length in E. cbn in E. lia. }
  cbn. f_equal. rewrite <- (firstn_skipn a l) at 1. rewrite E.
  rewrite app_nth2; rewrite firstn_length_le by lia; [|lia]. rewrite Nat.sub_diag. reflexivity.
Qed.

Lemma st_completed_le_invalid : ST_COMPLETED <= ST_INVALID.
Proof. unfold ST_COMPLETED, ST_INVALID. cbv. discriminate. Qed.

(* what every call must establish: new ghost, returned jobs are the oldest pending ones *)
Definition call_spec (g : ghost) (newids : list Z) (s' : st) (o : out) (g' : ghost) : Prop :=
  Inv s' g' /\ acc g' = acc g ++ newids /\
  gret g' = gret g + Z.of_nat (length (out_jobs o)) /\
  out_ids o = seg (acc g') (Z.to_nat (gret g)) (length (out_jobs o)) /\
  Forall (fun j => ST_COMPLETED <= jstat j) (out_jobs o).

Definition InvNew (s : st) (g : ghost) (id : Z) : Prop :=
  0 <= gret g <= gsub g /\ gsub g - gret g <= NJ - 1 /\
  next s = sl g (gsub g) /\
  earliest s = (if gsub g =? gret g then -1 else sl g (gret g)) /\
  (forall k, gret g <= k < gsub g -> cont s (sl g k) = gid g k) /\
  cont s (sl g (gsub g)) = id.

Lemma gsub_app g ids r b : gsub (mkg (acc g ++ ids) r b) = gsub g + Z.of_nat (length ids).
Proof. unfold gsub. cbn. rewrite app_length. lia. Qed.

Lemma gid_new1 g id r b : gid (mkg (acc g ++ [id]) r b) (gsub g) = id.
Proof.
  unfold gid, gsub. cbn. rewrite Nat2Z.id. rewrite app_nth2 by lia. rewrite Nat.sub_diag. reflexivity.
Qed.

Lemma gid_old g ids r b k : 0 <= k < gsub g -> gid (mkg (acc g ++ ids) r b) k = gid g k.
Proof. intros H. unfold gid, gsub in *. cbn. apply app_nth1. lia. Qed.

(* contents of pending slots after one more id was appended *)
Lemma cont_new1 s g id r b :
  gbase g = b ->
  (forall k, gret g <= k < gsub g -> cont s (sl g k) = gid g k) ->
  cont s (sl g (gsub g)) = id -> gret g <= r -> 0 <= gret g ->
  forall k, r <= k < gsub g + 1 ->
    cont s (sl (mkg (acc g ++ [id]) r b) k) = gid (mkg (acc g ++ [id]) r b) k.
Proof.
  intros Hb Hc Hnew Hr H0 k Hk. subst b.
  change (sl (mkg (acc g ++ [id]) r (gbase g)) k) with (sl g k).
  destruct (Z.eq_dec k (gsub g)) as [->|Hne].
  - rewrite Hnew. symmetry. apply gid_new1.
  - rewrite gid_old by lia. apply Hc. lia.
Qed.

Lemma one_job_ids s' g id j :
  j = sl g (gret g) -> cont s' j = gid g (gret g) -> 0 <= gret g < gsub g ->
  out_ids (OJob (Some (job_view s' j))) = seg (acc g ++ [id]) (Z.to_nat (gret g)) 1.
Proof.
  intros Hj Hcj Hr. unfold out_ids, out_jobs, job_view, jid. cbn [map fst snd].
  rewrite seg_one by (rewrite app_length; unfold gsub in *; cbn; lia).
  f_equal. rewrite Hcj. unfold gid. symmetry. apply app_nth1. unfold gsub in *. lia.
Qed.

Lemma one_job_done s' j : is_done s' j = true ->
  Forall (fun j0 => ST_COMPLETED <= jstat j0) [job_view s' j].
Proof.
  intros H. constructor; [|constructor]. unfold jstat, job_view, is_done in *. cbn [snd]. lia.
Qed.

Lemma submit_tail_spec s g id jobret :
  InvNew s g id ->
  (forall j, jobret = Some j -> j = next s /\ is_done s j = true) ->
  snd (submit_tail SZ NJ jobret s) = true ->
  let '(s', o, _) := submit_tail SZ NJ jobret s in
  exists g', call_spec g [id] s' o g' /\ gbase g' = gbase g /\
    (length (out_jobs o) <= 1)%nat /\
    (gsub g - gret g = NJ - 1 -> length (out_jobs o) = 1%nat).
Proof.
  intros (Hr & Hsz & Hn & He & Hc & Hnew) Hjr Hflag.
  unfold submit_tail in *.
  assert (Hn1 : adv SZ NJ (next s) = sl g (gsub g + 1)) by (rewrite Hn; apply adv_sl).
  destruct (earliest s <? 0) eqn:Eneg.
  - (* previously empty *)
    assert (Hsr : gsub g = gret g).
    { destruct (gsub g =? gret g) eqn:E; [lia|]. rewrite He in Eneg. pose proof (sl_nonneg g (gret g)). lia. }
    destruct jobret as [j|].
    + destruct (Hjr j eq_refl) as [Hj Hd].
      exists (mkg (acc g ++ [id]) (gret g + 1) (gbase g)).
      unfold call_spec, Inv. rewrite gsub_app. cbn [length out_jobs option_map acc gret gbase]. proj.
      split; [|split; [reflexivity|split; [lia|intros; reflexivity]]].
      split; [|split; [reflexivity|split; [lia|split]]].
      * split; [lia|]. split; [lia|]. split; [exact Hn1|]. split.
        -- replace (gsub g + Z.of_nat 1 =? gret g + 1) with true by lia. rewrite He.
           replace (gsub g =? gret g) with true by lia. reflexivity.
        -- intros k Hk. lia.
      * unfold out_ids, out_jobs, job_view, jid. cbn [map fst snd]. proj. subst j. rewrite Hn, Hnew.
        rewrite seg_one by (rewrite app_length; unfold gsub in *; cbn; lia).
        f_equal. rewrite <- Hsr. pose proof (gid_new1 g id 0 0) as G. unfold gid in G. cbn [acc] in G.
        symmetry. exact G.
      * apply one_job_done. unfold is_done in *. proj. exact Hd.
    + exists (mkg (acc g ++ [id]) (gret g) (gbase g)).
      unfold call_spec, Inv. rewrite gsub_app. cbn [length out_jobs option_map acc gret gbase]. proj.
      split; [|split; [reflexivity|split; [lia|intros; lia]]].
      split; [|split; [reflexivity|split; [lia|split; [reflexivity|constructor]]]].
      split; [lia|]. split; [lia|]. split; [exact Hn1|]. split.
      * replace (gsub g + Z.of_nat 1 =? gret g) with false by lia. rewrite Hn, Hsr. reflexivity.
      * apply (cont_new1 s g id (gret g) (gbase g)); auto; lia.
  - (* not empty *)
    assert (Hsr : gsub g <> gret g).
    { intro E. rewrite E, Z.eqb_refl in He. lia. }
    replace (gsub g =? gret g) with false in He by lia.
    proj. rewrite Hn1 in *.
    destruct (earliest s =? sl g (gsub g + 1)) eqn:Efull.
    + (* full *)
      assert (Hfull : gsub g + 1 - gret g = NJ).
      { destruct (Z.eq_dec (gsub g + 1 - gret g) NJ); auto. exfalso.
        apply (sl_neq g (gret g) (gsub g + 1)); [lia|]. rewrite <- He. lia. }
      cbn [snd] in Hflag.
      exists (mkg (acc g ++ [id]) (gret g + 1) (gbase g)).
      unfold call_spec, Inv. rewrite gsub_app. cbn [length out_jobs acc gret gbase]. proj.
      split; [|split; [reflexivity|split; [lia|intros; reflexivity]]].
      split; [|split; [reflexivity|split; [lia|split]]].
      * split; [lia|]. split; [lia|]. split; [reflexivity|]. split.
        -- replace (gsub g + Z.of_nat 1 =? gret g + 1) with false by lia. rewrite He. unfold sl; cbn [gbase]; apply (adv_slot SZ NJ K); auto.
        -- apply (cont_new1 s g id (gret g + 1) (gbase g)); auto; lia.
      * apply (one_job_ids _ g id); [exact He | proj; rewrite He; apply Hc; lia | lia].
      * apply one_job_done. exact Hflag.
    + assert (Hnf : gsub g + 1 - gret g <> NJ).
      { intro E. assert (sl g (gsub g + 1) = sl g (gret g)).
        { replace (gsub g + 1) with (gret g + NJ) by lia. apply slot_period. }
        lia. }
      destruct (negb (is_done (set_next (sl g (gsub g + 1)) s) (earliest s))) eqn:Ed.
      * exists (mkg (acc g ++ [id]) (gret g) (gbase g)).
        unfold call_spec, Inv. rewrite gsub_app. cbn [length out_jobs acc gret gbase]. proj.
        split; [|split; [reflexivity|split; [lia|intros; lia]]].
        split; [|split; [reflexivity|split; [lia|split; [reflexivity|constructor]]]].
        split; [lia|]. split; [lia|]. split; [reflexivity|]. split.
        -- replace (gsub g + Z.of_nat 1 =? gret g) with false by lia. exact He.
        -- apply (cont_new1 s g id (gret g) (gbase g)); auto; lia.
      * exists (mkg (acc g ++ [id]) (gret g + 1) (gbase g)).
        unfold call_spec, Inv. rewrite gsub_app. cbn [length out_jobs acc gret gbase]. proj.
        split; [|split; [reflexivity|split; [lia|intros; lia]]].
        split; [|split; [reflexivity|split; [lia|split]]].
        -- split; [lia|]. split; [lia|]. split; [reflexivity|]. split.
           ++ replace (gsub g + Z.of_nat 1 =? gret g + 1) with false by lia. rewrite He. unfold sl; cbn [gbase]; apply (adv_slot SZ NJ K); auto.
           ++ apply (cont_new1 s g id (gret g + 1) (gbase g)); auto; lia.
        -- apply (one_job_ids _ g id); [exact He | proj; rewrite He; apply Hc; lia | lia].
        -- apply one_job_done. unfold is_done in *. proj. destruct (ST_COMPLETED <=? stat s (earliest s)); [reflexivity|discriminate].
Qed.

Lemma cont_after_write s g id :
  Inv s g ->
  forall k, gret g <= k < gsub g ->
    (if sl g k =? sl g (gsub g) then id else cont s (sl g k)) = gid g k.
Proof.
  intros (Hr & Hsz & Hn & He & Hc) k Hk.
  assert (sl g k <> sl g (gsub g)) by (apply sl_neq; lia).
  replace (sl g k =? sl g (gsub g)) with false by lia. apply Hc; lia.
Qed.

Lemma submit_spec s g c v id D :
  Inv s g -> snd (submit SZ NJ c v id D s) = true ->
  let '(s', o, _) := submit SZ NJ c v id D s in
  exists g', call_spec g [id] s' o g' /\ gbase g' = gbase g /\
    (length (out_jobs o) <= 1)%nat /\
    (gsub g - gret g = NJ - 1 -> length (out_jobs o) = 1%nat).
Proof.
  intros HI Hflag. pose proof HI as (Hr & Hsz & Hn & He & Hc).
  unfold submit in *. proj.
  destruct (if c then v else None) as [e|].
  - apply submit_tail_spec; [| |exact Hflag].
    + unfold InvNew. proj. repeat split; try lia; try assumption.
      * intros k Hk. rewrite Hn. apply cont_after_write; auto.
      * rewrite Hn, Z.eqb_refl. reflexivity.
    + intros j Hj. inversion Hj; subst j. proj. split; [reflexivity|].
      unfold is_done. proj. rewrite Z.eqb_refl. pose proof st_completed_le_invalid. lia.
  - apply submit_tail_spec; [| |exact Hflag].
    + unfold InvNew. proj. repeat split; try lia; try assumption.
      * intros k Hk. rewrite Hn. apply cont_after_write; auto.
      * rewrite Hn, Z.eqb_refl. reflexivity.
    + intros j Hj. proj.
      match type of Hj with (if ?b then _ else _) = _ => destruct b eqn:Eb end; [|discriminate].
      inversion Hj; subst j. split; [reflexivity|exact Eb].
Qed.

Lemma flush_spec s g D :
  Inv s g -> snd (flush SZ NJ D s) = true ->
  let '(s', o, _) := flush SZ NJ D s in
  exists g', call_spec g [] s' o g' /\ gbase g' = gbase g /\
    length (out_jobs o) = (if Z.eqb (gsub g) (gret g) then 0%nat else 1%nat).
Proof.
  intros HI Hflag. pose proof HI as (Hr & Hsz & Hn & He & Hc).
  unfold flush in *. proj.
  destruct (earliest s <? 0) eqn:Eneg.
  - assert (Hsr : gsub g = gret g).
    { destruct (gsub g =? gret g) eqn:E; [lia|]. rewrite He in Eneg. pose proof (sl_nonneg g (gret g)). lia. }
    exists g. unfold call_spec. cbn [out_jobs length]. rewrite app_nil_r.
    split; [|split; [reflexivity|replace (gsub g =? gret g) with true by lia; reflexivity]].
    split; [|split; [reflexivity|split; [lia|split; [reflexivity|constructor]]]].
    unfold Inv. proj. repeat split; try lia; assumption.
  - assert (Hsr : gsub g <> gret g).
    { intro E. rewrite E, Z.eqb_refl in He. lia. }
    replace (gsub g =? gret g) with false in * by lia.
    assert (Ha : adv SZ NJ (earliest s) = sl g (gret g + 1)) by (rewrite He; apply adv_sl).
    rewrite Ha in *. rewrite Hn in *.
    exists (mkg (acc g) (gret g + 1) (gbase g)).
    assert (Hids : forall s', cont s' (earliest s) = cont s (earliest s) ->
              out_ids (OJob (Some (job_view s' (earliest s)))) = seg (acc g) (Z.to_nat (gret g)) 1).
    { intros s' Hs'. unfold out_ids, out_jobs, job_view, jid. cbn [map fst snd]. rewrite Hs', He, Hc by lia.
      rewrite seg_one by (unfold gsub in *; lia). reflexivity. }
    destruct (sl g (gret g + 1) =? sl g (gsub g)) eqn:Eemp.
    + (* becomes empty *)
      assert (Hlast : gret g + 1 = gsub g).
      { destruct (Z.eq_dec (gret g + 1) (gsub g)); auto. exfalso.
        apply (sl_neq g (gret g + 1) (gsub g)); lia. }
      cbn [snd] in Hflag. unfold call_spec. cbn [out_jobs length acc gret gbase]. rewrite app_nil_r.
      split; [|split; reflexivity].
      split; [|split; [reflexivity|split; [lia|split]]].
      * unfold Inv, gsub. cbn [acc gret gbase]. fold (gsub g). proj.
        split; [lia|]. split; [lia|]. split; [exact Hn|]. split.
        -- replace (gsub g =? gret g + 1) with true by lia. reflexivity.
        -- intros k Hk. lia.
      * apply Hids. reflexivity.
      * apply one_job_done. exact Hflag.
    + cbn [snd] in Hflag. unfold call_spec. cbn [out_jobs length acc gret gbase]. rewrite app_nil_r.
      assert (Hlast : gret g + 1 <> gsub g) by (intro E; rewrite E, Z.eqb_refl in Eemp; discriminate).
      split; [|split; reflexivity].
      split; [|split; [reflexivity|split; [lia|split]]].
      * unfold Inv, gsub. cbn [acc gret gbase]. fold (gsub g). proj.
        split; [lia|]. split; [lia|]. split; [exact Hn|]. split.
        -- replace (gsub g =? gret g + 1) with false by lia. reflexivity.
        -- intros k Hk. apply Hc. lia.
      * apply Hids. reflexivity.
      * apply one_job_done. exact Hflag.
Qed.

Lemma get_completed_spec s g :
  Inv s g ->
  let '(s', o) := get_completed SZ NJ s in
  exists g', call_spec g [] s' o g' /\ gbase g' = gbase g /\ (length (out_jobs o) <= 1)%nat.
Proof.
  intros HI. pose proof HI as (Hr & Hsz & Hn & He & Hc).
  unfold get_completed. proj.
  assert (Hsame : exists g', call_spec g [] (set_errno 0 s) (OJob None) g' /\ gbase g' = gbase g /\
             (length (out_jobs (OJob None)) <= 1)%nat).
  { exists g. unfold call_spec. cbn [out_jobs length]. rewrite app_nil_r.
    split; [|split; [reflexivity|lia]].
    split; [|split; [reflexivity|split; [lia|split; [reflexivity|constructor]]]].
    unfold Inv. proj. repeat split; try lia; assumption. }
  destruct (earliest s <? 0) eqn:Eneg; [exact Hsame|].
  destruct (negb (is_done (set_errno 0 s) (earliest s))) eqn:Ed; [exact Hsame|].
  clear Hsame.
  assert (Hsr : gsub g <> gret g).
  { intro E. rewrite E, Z.eqb_refl in He. lia. }
  replace (gsub g =? gret g) with false in * by lia.
  assert (Ha : adv SZ NJ (earliest s) = sl g (gret g + 1)) by (rewrite He; apply adv_sl).
  rewrite Ha in *. rewrite Hn in *.
  exists (mkg (acc g) (gret g + 1) (gbase g)).
  assert (Hids : forall s', cont s' (earliest s) = cont s (earliest s) ->
            out_ids (OJob (Some (job_view s' (earliest s)))) = seg (acc g) (Z.to_nat (gret g)) 1).
  { intros s' Hs'. unfold out_ids, out_jobs, job_view, jid. cbn [map fst snd]. rewrite Hs', He, Hc by lia.
    rewrite seg_one by (unfold gsub in *; lia). reflexivity. }
  assert (Hdone : forall s', stat s' = stat s -> Forall (fun j0 => ST_COMPLETED <= jstat j0) [job_view s' (earliest s)]).
  { intros s' Hs'. apply one_job_done. unfold is_done in *. proj. rewrite Hs'.
    destruct (ST_COMPLETED <=? stat s (earliest s)); [reflexivity|discriminate]. }
  destruct (sl g (gret g + 1) =? sl g (gsub g)) eqn:Eemp.
  + assert (Hlast : gret g + 1 = gsub g).
    { destruct (Z.eq_dec (gret g + 1) (gsub g)); auto. exfalso.
      apply (sl_neq g (gret g + 1) (gsub g)); lia. }
    unfold call_spec. cbn [out_jobs length acc gret gbase]. rewrite app_nil_r.
    split; [|split; [reflexivity|lia]].
    split; [|split; [reflexivity|split; [lia|split]]].
    * unfold Inv, gsub. cbn [acc gret gbase]. fold (gsub g). proj.
      split; [lia|]. split; [lia|]. split; [exact Hn|]. split.
      -- replace (gsub g =? gret g + 1) with true by lia. reflexivity.
      -- intros k Hk. lia.
    * apply Hids. reflexivity.
    * apply Hdone. reflexivity.
  + assert (Hlast : gret g + 1 <> gsub g) by (intro E; rewrite E, Z.eqb_refl in Eemp; discriminate).
    unfold call_spec. cbn [out_jobs length acc gret gbase]. rewrite app_nil_r.
    split; [|split; [reflexivity|lia]].
    split; [|split; [reflexivity|split; [lia|split]]].
    * unfold Inv, gsub. cbn [acc gret gbase]. fold (gsub g). proj.
      split; [lia|]. split; [lia|]. split; [exact Hn|]. split.
      -- replace (gsub g =? gret g + 1) with false by lia. reflexivity.
      -- intros k Hk. apply Hc. lia.
    * apply Hids. reflexivity.
    * apply Hdone. reflexivity.
Qed.

Lemma queue_sz_inv s g : Inv s g -> queue_sz SZ NJ s = gsub g - gret g.
Proof.
  intros (Hr & Hsz & Hn & He & Hc).
  destruct (gsub g =? gret g) eqn:E.
  - rewrite queue_sz_empty by exact He. lia.
  - apply (queue_sz_slots SZ NJ K HSZ HK HNJ s (gbase g)); [exact He|exact Hn|lia].
Qed.

Lemma queue_size_spec s g :
  Inv s g ->
  let '(s', o) := queue_size SZ NJ s in
  Inv s' g /\ o = ONum (gsub g - gret g).
Proof.
  intros HI. unfold queue_size. split.
  - destruct HI as (Hr & Hsz & Hn & He & Hc). unfold Inv. proj. repeat split; try lia; assumption.
  - f_equal. change (queue_sz SZ NJ (set_errno 0 s)) with (queue_sz SZ NJ s). apply queue_sz_inv. exact HI.
Qed.

(* the slot offered by GET_NEXT_JOB is the next job's slot and holds no pending job *)
Lemma get_next_spec s g :
  Inv s g ->
  let '(s', o) := get_next s in
  Inv s' g /\ o = OSlots [sl g (gsub g)] /\
  forall k, gret g <= k < gsub g -> sl g k <> sl g (gsub g).
Proof.
  intros HI. pose proof HI as (Hr & Hsz & Hn & He & Hc). unfold get_next. proj. split; [|split].
  - unfold Inv. proj. repeat split; try lia; assumption.
  - rewrite Hn. reflexivity.
  - intros k Hk. apply sl_neq. lia.
Qed.

Definition stepr := step SZ NJ MAXB.
Definition okr := op_ok SZ NJ MAXB.

(* ---------- burst API ---------- *)
Lemma two_pass g k n :
  0 <= n <= NJ ->
  let e := NJ - (gbase g + k) mod NJ in
  consecutive SZ (Z.to_nat (Z.min n e)) (sl g k) ++ consecutive SZ (Z.to_nat (n - e)) 0
  = slots SZ NJ (gbase g) k (Z.to_nat n).
Proof. intros. apply (two_pass_slots SZ NJ K); auto. Qed.

Lemma slots_distinct_from_pending g a n k :
  gret g <= k < a -> a + Z.of_nat n - gret g <= NJ ->
  ~ In (sl g k) (slots SZ NJ (gbase g) a n).
Proof.
  revert a. induction n; intros a Hk Hb; cbn [slots]; [tauto|].
  intros [E|E].
  - apply (sl_neq g k a); [lia|]. symmetry. exact E.
  - apply (IHn (a + 1)); [lia|lia|exact E].
Qed.

(* GET_NEXT_BURST: offers exactly the next free slots, none of which holds a pending job *)
Lemma get_next_burst_spec s g jn n :
  Inv s g -> 0 <= n ->
  let '(s', o) := get_next_burst SZ NJ MAXB jn n s in
  Inv s' g /\ out_jobs o = [] /\
  (jn = false -> n <= MAXB ->
     let m := Z.to_nat (Z.min (NJ - (gsub g - gret g)) n) in
     o = OSlots (slots SZ NJ (gbase g) (gsub g) m) /\
     forall k, gret g <= k < gsub g -> ~ In (sl g k) (slots SZ NJ (gbase g) (gsub g) m)).
Proof.
  intros HI Hn. pose proof HI as (Hr & Hsz & Hnx & He & Hc).
  assert (HIe : forall e, Inv (set_errno e s) g).
  { intros e. unfold Inv. proj. repeat split; try lia; assumption. }
  unfold get_next_burst. proj.
  destruct jn.
  { split; [apply (HIe E_NULL_BURST)|]. split; [reflexivity|]. intros; discriminate. }
  destruct (n >? MAXB) eqn:Emax.
  { split; [apply (HIe E_BURST_SIZE)|]. split; [reflexivity|]. intros; lia. }
  assert (Hrem : queue_sz_remaining SZ NJ (set_errno 0 s) = NJ - (gsub g - gret g)).
  { unfold queue_sz_remaining. change (queue_sz SZ NJ (set_errno 0 s)) with (queue_sz SZ NJ s).
    rewrite (queue_sz_inv s g HI). reflexivity. }
  rewrite Hrem. proj. rewrite Hnx.
  assert (Hend : queue_sz_end SZ NJ (sl g (gsub g)) = NJ - (gbase g + gsub g) mod NJ).
  { apply (queue_sz_end_slot SZ NJ); auto. }
  rewrite Hend.
  set (nr := Z.min (NJ - (gsub g - gret g)) n).
  set (e := NJ - (gbase g + gsub g) mod NJ).
  assert (Hnr : 0 <= nr <= NJ) by (unfold nr; lia).
  assert (Hm : 0 <= (gbase g + gsub g) mod NJ < NJ) by (apply Z.mod_pos_bound; lia).
  assert (Hslots : forall l, l = slots SZ NJ (gbase g) (gsub g) (Z.to_nat nr) ->
            Inv (set_errno 0 s) g /\ out_jobs (OSlots l) = [] /\
            (false = false -> n <= MAXB ->
             OSlots l = OSlots (slots SZ NJ (gbase g) (gsub g) (Z.to_nat nr)) /\
             forall k, gret g <= k < gsub g -> ~ In (sl g k) (slots SZ NJ (gbase g) (gsub g) (Z.to_nat nr)))).
  { intros l ->. split; [apply HIe|]. split; [reflexivity|]. intros _ _. split; [reflexivity|].
    intros k Hk. apply slots_distinct_from_pending; [lia|]. unfold nr. lia. }
  pose proof (two_pass g (gsub g) nr Hnr) as TP. cbv zeta in TP. fold e in TP.
  destruct (e <? nr) eqn:Ee.
  - apply Hslots. rewrite <- TP. rewrite Z.min_r by lia. reflexivity.
  - apply Hslots. rewrite <- TP. rewrite Z.min_l by lia.
    replace (Z.to_nat (nr - e)) with O by lia. cbn [consecutive]. rewrite app_nil_r. reflexivity.
Qed.

Lemma fb_loop_spec g n : forall s r accl, earliest s = sl g r ->
  earliest (fst (fb_loop SZ NJ n s accl)) = sl g (r + Z.of_nat n) /\
  next (fst (fb_loop SZ NJ n s accl)) = next s /\
  stat (fst (fb_loop SZ NJ n s accl)) = stat s /\
  cont (fst (fb_loop SZ NJ n s accl)) = cont s /\
  errno (fst (fb_loop SZ NJ n s accl)) = errno s /\
  snd (fb_loop SZ NJ n s accl) = rev accl ++ slots SZ NJ (gbase g) r n.
Proof.
  induction n; intros s r accl He.
  - cbn [fb_loop fst snd slots]. rewrite Z.add_0_r, app_nil_r. repeat split; auto.
  - cbn [fb_loop].
    specialize (IHn (set_earliest (adv SZ NJ (earliest s)) s) (r + 1) (earliest s :: accl)).
    destruct IHn as (H1 & H2 & H3 & H4 & H5 & H6).
    { proj. rewrite He. apply adv_sl. }
    proj. rewrite H1, H2, H3, H4, H5, H6.
    replace (r + 1 + Z.of_nat n) with (r + Z.of_nat (S n)) by lia.
    repeat split; auto.
    cbn [rev slots]. rewrite <- app_assoc. cbn [app]. rewrite He. reflexivity.
Qed.

Lemma jobs_done_forall s l :
  forallb (is_done s) l = true -> Forall (fun j => ST_COMPLETED <= jstat j) (map (job_view s) l).
Proof.
  intros H. rewrite forallb_forall in H. apply Forall_forall. intros j Hj.
  apply in_map_iff in Hj. destruct Hj as (o & <- & Ho). specialize (H o Ho).
  unfold jstat, job_view, is_done in *. cbn [snd]. lia.
Qed.

Lemma out_ids_jobs s l n : out_ids (OJobs n (map (job_view s) l)) = map (cont s) l.
Proof.
  unfold out_ids, out_jobs. rewrite map_map. apply map_ext. intros o. reflexivity.
Qed.

(* the state FLUSH_BURST's body may be entered in: non-empty, possibly full *)
Definition InvF (s : st) (g : ghost) : Prop :=
  0 <= gret g /\ 1 <= gsub g - gret g <= NJ /\
  next s = sl g (gsub g) /\ earliest s = sl g (gret g) /\
  (forall k, gret g <= k < gsub g -> cont s (sl g k) = gid g k).

Lemma flush_burst_body_spec s g mx D :
  InvF s g -> 0 <= mx -> (1 <= mx \/ gsub g - gret g <= NJ - 1) ->
  snd (flush_burst_body SZ NJ mx D s) = true ->
  let '(s', o, _) := flush_burst_body SZ NJ mx D s in
  exists g', call_spec g [] s' o g' /\
    length (out_jobs o) = Z.to_nat (Z.min (gsub g - gret g) mx) /\ errno s' = errno s.
Proof.
  intros (Hr & Hsz & Hn & He & Hc) Hmx Hfull Hflag.
  unfold flush_burst_body in *.
  assert (Hq : queue_sz SZ NJ s = gsub g - gret g).
  { apply (queue_sz_slots SZ NJ K HSZ HK HNJ s (gbase g)); auto. }
  rewrite Hq in *.
  replace (gsub g - gret g =? 0) with false in * by lia.
  set (m := Z.min (gsub g - gret g) mx) in *.
  pose proof (fb_loop_spec g (Z.to_nat m) (complete_set D s) (gret g) [] He) as FL.
  destruct (fb_loop SZ NJ (Z.to_nat m) (complete_set D s) []) as [s2 l] eqn:EL.
  cbn [fst snd] in FL. destruct FL as (F1 & F2 & F3 & F4 & F5 & F6). cbn [rev app] in F6. proj.
  rewrite Z2Nat.id in F1 by lia.
  assert (Hm : 0 <= m <= gsub g - gret g) by (unfold m; lia).
  assert (Hidsl : forall s', cont s' = cont s -> map (cont s') l = seg (acc g) (Z.to_nat (gret g)) (Z.to_nat m)).
  { intros s' Hs'. rewrite F6, Hs'. apply ids_seg; [lia|lia|]. intros k Hk. apply Hc. lia. }
  assert (Hlen : length l = Z.to_nat m) by (rewrite F6; apply slots_length).
  rewrite F1, F2, Hn in *.
  destruct (sl g (gret g + m) =? sl g (gsub g)) eqn:Eemp.
  - (* queue emptied *)
    assert (Hall : gret g + m = gsub g).
    { destruct (Z.eq_dec (gret g + m) (gsub g)); auto. exfalso.
      destruct (Z.eq_dec (gsub g - (gret g + m)) NJ) as [E|E].
      - assert (m = 0) by lia. lia.
      - apply (sl_neq g (gret g + m) (gsub g)); lia. }
    cbn [snd] in Hflag.
    exists (mkg (acc g) (gret g + m) (- gsub g)).
    unfold call_spec. cbn [out_jobs acc gret gbase]. rewrite app_nil_r, map_length, Hlen.
    split; [|split; [reflexivity|proj; exact F5]].
    split; [|split; [reflexivity|split; [lia|split]]].
    + unfold Inv, gsub, sl. cbn [acc gret gbase]. fold (gsub g). proj.
      split; [lia|]. split; [lia|]. split.
      { unfold slot. replace (- gsub g + gsub g) with 0 by lia. rewrite Z.mod_0_l by lia. lia. }
      split. { replace (gsub g =? gret g + m) with true by lia. reflexivity. }
      intros k Hk. lia.
    + rewrite out_ids_jobs. apply Hidsl. proj. exact F4.
    + apply jobs_done_forall. exact Hflag.
  - assert (Hne : gret g + m <> gsub g) by (intro E; rewrite E, Z.eqb_refl in Eemp; discriminate).
    assert (Hnf : gsub g - (gret g + m) <> NJ).
    { intro E. assert (sl g (gsub g) = sl g (gret g + m)).
      { replace (gsub g) with (gret g + m + NJ) by lia. apply slot_period. }
      lia. }
    cbn [snd] in Hflag.
    exists (mkg (acc g) (gret g + m) (gbase g)).
    unfold call_spec. cbn [out_jobs acc gret gbase]. rewrite app_nil_r, map_length, Hlen.
    split; [|split; [reflexivity|exact F5]].
    split; [|split; [reflexivity|split; [lia|split]]].
    + unfold Inv, gsub. cbn [acc gret gbase]. fold (gsub g).
      split; [lia|]. split; [lia|]. split; [rewrite F2; reflexivity|]. split.
      { replace (gsub g =? gret g + m) with false by lia. exact F1. }
      intros k Hk. rewrite F4. apply Hc. lia.
    + rewrite out_ids_jobs. apply Hidsl. exact F4.
    + apply jobs_done_forall. exact Hflag.
Qed.

Lemma inv_set_errno s g e : Inv s g -> Inv (set_errno e s) g.
Proof. intros (Hr & Hsz & Hn & He & Hc). unfold Inv. proj. repeat split; try lia; assumption. Qed.

Lemma inv_set_stat s g o v : Inv s g -> Inv (set_stat o v s) g.
Proof. intros (Hr & Hsz & Hn & He & Hc). unfold Inv. proj. repeat split; try lia; assumption. Qed.

Lemma call_spec_nojobs g s' o : Inv s' g -> out_jobs o = [] -> call_spec g [] s' o g.
Proof.
  intros HI Ho. unfold call_spec, out_ids. rewrite Ho, app_nil_r. cbn [length map].
  split; [exact HI|]. split; [reflexivity|]. split; [lia|]. split; [reflexivity|constructor].
Qed.

Lemma flush_burst_spec s g jn mx D :
  Inv s g -> 0 <= mx -> snd (flush_burst SZ NJ jn mx D s) = true ->
  let '(s', o, _) := flush_burst SZ NJ jn mx D s in
  exists g', call_spec g [] s' o g' /\
    (jn = false -> length (out_jobs o) = Z.to_nat (Z.min (gsub g - gret g) mx)).
Proof.
  intros HI Hmx Hflag. unfold flush_burst in *.
  destruct jn.
  { exists g. split; [|discriminate]. apply call_spec_nojobs; [|reflexivity]. do 2 apply inv_set_errno. exact HI. }
  pose proof (inv_set_errno s g 0 HI) as HI0. set (s0 := set_errno 0 s) in *.
  pose proof HI0 as (Hr & Hsz & Hn & He & Hc).
  destruct (gsub g =? gret g) eqn:Eemp.
  - (* empty *)
    unfold flush_burst_body in *. rewrite (queue_sz_empty SZ NJ s0 He) in *. cbn [Z.eqb].
    exists g. split; [apply call_spec_nojobs; [exact HI0|reflexivity]|]. intros _. cbn [out_jobs length]. lia.
  - assert (HF : InvF s0 g) by (unfold InvF; repeat split; try lia; assumption).
    pose proof (flush_burst_body_spec s0 g mx D HF Hmx (or_intror Hsz) Hflag) as H.
    destruct (flush_burst_body SZ NJ mx D s0) as [[s' o] b]. destruct H as (g' & H1 & H2 & _).
    exists g'. split; [exact H1|]. intros _. exact H2.
Qed.

Lemma burst_fill_spec g js : forall a s, Z.of_nat (length js) <= NJ ->
  earliest (burst_fill SZ NJ js (sl g a) s) = earliest s /\
  next (burst_fill SZ NJ js (sl g a) s) = next s /\
  errno (burst_fill SZ NJ js (sl g a) s) = errno s /\
  (forall i, (i < length js)%nat ->
     cont (burst_fill SZ NJ js (sl g a) s) (sl g (a + Z.of_nat i)) = nth i (map bj_id js) 0) /\
  (forall x, (forall i, (i < length js)%nat -> x <> sl g (a + Z.of_nat i)) ->
     cont (burst_fill SZ NJ js (sl g a) s) x = cont s x).
Proof.
  induction js as [|b t IH]; intros a s Hlen.
  - cbn [burst_fill length]. repeat split; auto. intros i Hi. lia.
  - cbn [burst_fill]. rewrite adv_sl.
    cbn [length] in Hlen.
    specialize (IH (a + 1) (set_stat (sl g a) ST_PROC (set_cont (sl g a) (bj_id b) s))).
    destruct IH as (H1 & H2 & H3 & H4 & H5); [lia|]. proj.
    split; [exact H1|]. split; [exact H2|]. split; [exact H3|]. split.
    + intros i Hi. destruct i as [|i'].
      * rewrite Z.add_0_r. rewrite H5.
        -- proj. rewrite Z.eqb_refl. reflexivity.
        -- intros i Hi2. apply sl_neq. lia.
      * cbn [map nth]. replace (a + Z.of_nat (S i')) with (a + 1 + Z.of_nat i') by lia.
        apply H4. cbn [length] in Hi. lia.
    + intros x Hx. rewrite H5.
      * proj. specialize (Hx O). cbn [length] in Hx. rewrite Z.add_0_r in Hx.
        replace (x =? sl g a) with false; [reflexivity|]. assert (x <> sl g a) by (apply Hx; lia). lia.
      * intros i Hi. replace (a + 1 + Z.of_nat i) with (a + Z.of_nat (S i)) by lia. apply Hx. cbn [length]. lia.
Qed.

Lemma scan_le s cnt : forall o, (scan SZ s cnt o <= cnt)%nat.
Proof. induction cnt; intros o; cbn [scan]; [lia|]. destruct (is_done s o); [specialize (IHcnt (o + SZ)); lia|lia]. Qed.

Lemma scan_done s cnt : forall o k, (k <= scan SZ s cnt o)%nat -> forallb (is_done s) (consecutive SZ k o) = true.
Proof.
  induction cnt; intros o k Hk; cbn [scan] in Hk.
  - replace k with O by lia. reflexivity.
  - destruct k; [reflexivity|]. destruct (is_done s o) eqn:E; [|lia].
    cbn [consecutive forallb]. rewrite E. cbn [andb]. apply IHcnt. lia.
Qed.

Lemma adv_n_sl g k j : 0 <= j <= NJ -> adv_n SZ NJ (sl g k) j = sl g (k + j).
Proof. intros. apply (adv_n_slot SZ NJ K); auto. Qed.

Lemma burst_post_spec s g ids D2 :
  let n := Z.of_nat (length ids) in
  let g1 := mkg (acc g ++ ids) (gret g) (gbase g) in
  0 <= gret g <= gsub g -> gsub g - gret g <= NJ - 1 -> gsub g + n - gret g <= NJ ->
  next s = sl g (gsub g) -> earliest s = sl g (gret g) ->
  (forall k, gret g <= k < gsub g + n -> cont s (sl g k) = gid g1 k) ->
  snd (burst_post SZ NJ n D2 s) = true ->
  let '(s', o, _) := burst_post SZ NJ n D2 s in
  exists g', call_spec g ids s' o g'.
Proof.
  intros n g1 Hr Hsz0 Hsz Hn He Hc Hflag.
  assert (Hn0 : 0 <= n <= NJ) by (unfold n; lia).
  assert (Hsub1 : gsub g1 = gsub g + n) by (unfold g1; rewrite gsub_app; reflexivity).
  unfold burst_post in *. proj.
  rewrite Hn, He in *. rewrite (adv_n_sl g (gsub g) n Hn0) in *.
  assert (Hend : queue_sz_end SZ NJ (sl g (gret g)) = NJ - (gbase g + gret g) mod NJ)
    by (apply (queue_sz_end_slot SZ NJ); auto).
  rewrite Hend in *.
  set (e := NJ - (gbase g + gret g) mod NJ) in *.
  assert (Hm : 0 <= (gbase g + gret g) mod NJ < NJ) by (apply Z.mod_pos_bound; lia).
  set (s4 := set_next (sl g (gsub g + n)) s) in *.
  set (num1 := Z.min e n) in *.
  set (sc1 := scan SZ s4 (Z.to_nat num1) (sl g (gret g))) in *.
  set (sc2 := scan SZ s4 (Z.to_nat (n - num1)) 0) in *.
  pose proof (scan_le s4 (Z.to_nat num1) (sl g (gret g))) as L1. fold sc1 in L1.
  pose proof (scan_le s4 (Z.to_nat (n - num1)) 0) as L2. fold sc2 in L2.
  set (n_ret := if Z.of_nat sc1 <? num1 then Z.of_nat sc1
                else if Z.of_nat sc1 <? n then Z.of_nat sc1 + Z.of_nat sc2 else Z.of_nat sc1) in *.
  assert (Hnr : 0 <= n_ret <= n).
  { unfold n_ret, num1 in *. destruct (Z.of_nat sc1 <? Z.min e n) eqn:E1; [lia|].
    destruct (Z.of_nat sc1 <? n) eqn:E2; lia. }
  set (rl := consecutive SZ (Z.to_nat (Z.min n_ret num1)) (sl g (gret g)) ++
             consecutive SZ (Z.to_nat (n_ret - num1)) 0) in *.
  assert (Hrl : rl = slots SZ NJ (gbase g) (gret g) (Z.to_nat n_ret)).
  { pose proof (two_pass g (gret g) n_ret) as TP. cbv zeta in TP. fold e in TP. rewrite <- TP by lia.
    unfold rl. f_equal; f_equal; unfold num1; lia. }
  assert (Hdone : forallb (is_done s4) rl = true).
  { unfold rl. rewrite forallb_app. apply andb_true_iff. unfold n_ret.
    destruct (Z.of_nat sc1 <? num1) eqn:E1.
    - split.
      + apply (scan_done s4 (Z.to_nat num1)). fold sc1. lia.
      + replace (Z.to_nat (Z.of_nat sc1 - num1)) with O by lia. reflexivity.
    - destruct (Z.of_nat sc1 <? n) eqn:E2.
      + split.
        * apply (scan_done s4 (Z.to_nat num1)). fold sc1. lia.
        * apply (scan_done s4 (Z.to_nat (n - num1))). fold sc2. lia.
      + split.
        * apply (scan_done s4 (Z.to_nat num1)). fold sc1. lia.
        * replace (Z.to_nat (Z.of_nat sc1 - num1)) with O by lia. reflexivity. }
  rewrite (adv_n_sl g (gret g) n_ret) in * by lia.
  assert (Hids : forall s', cont s' = cont s ->
            map (cont s') rl = seg (acc g1) (Z.to_nat (gret g)) (Z.to_nat n_ret)).
  { intros s' Hs'. rewrite Hrl, Hs'. change (gbase g) with (gbase g1).
    apply ids_seg; [lia|rewrite Hsub1; lia|]. intros k Hk. change (sl g1 k) with (sl g k). apply Hc. lia. }
  assert (Hlen : length rl = Z.to_nat n_ret) by (rewrite Hrl; apply slots_length).
  destruct (sl g (gret g + n_ret) =? sl g (gsub g + n)) eqn:Eeq.
  - destruct (negb (n_ret =? 0)) eqn:Enz.
    + (* everything returned: queue empty *)
      assert (Hall : gret g + n_ret = gsub g + n).
      { destruct (Z.eq_dec (gret g + n_ret) (gsub g + n)); auto. exfalso.
        apply (sl_neq g (gret g + n_ret) (gsub g + n)); lia. }
      exists (mkg (acc g ++ ids) (gret g + n_ret) (- (gsub g + n))).
      unfold call_spec. cbn [out_jobs acc gret gbase]. rewrite map_length, Hlen.
      split; [|split; [reflexivity|split; [lia|split]]].
      * unfold Inv. rewrite gsub_app. fold n. unfold sl. cbn [acc gret gbase]. proj.
        split; [lia|]. split; [lia|]. split.
        { unfold slot. replace (- (gsub g + n) + (gsub g + n)) with 0 by lia. rewrite Z.mod_0_l by lia. lia. }
        split. { replace (gsub g + n =? gret g + n_ret) with true by lia. reflexivity. }
        intros k Hk. lia.
      * rewrite out_ids_jobs. apply Hids. reflexivity.
      * apply jobs_done_forall. exact Hdone.
    + (* nothing returned and earliest = next: the queue is full, or the burst was empty on an empty queue *)
      assert (Hz : n_ret = 0) by lia. rewrite Hz, Z.add_0_r in *.
      destruct (Z.eq_dec (gsub g + n) (gret g)) as [Hemp|Hnemp].
      * (* n = 0 on an empty queue *)
        assert (n = 0) by lia. assert (gsub g = gret g) by lia.
        unfold flush_burst_body in *.
        set (s5 := set_errno 0 (set_earliest (sl g (gret g)) s4)) in *.
        assert (Hq : queue_sz SZ NJ s5 = NJ).
        { unfold queue_sz. pose proof (sl_nonneg g (gret g)).
          replace (earliest s5 <? 0) with false by (unfold s5; proj; lia).
          rewrite (get_queue_sz_slots SZ NJ K HSZ HK HNJ s5 (gbase g) (gret g) (gret g)); [|reflexivity| |lia].
          - rewrite Z.sub_diag, Z.mod_0_l by lia. reflexivity.
          - unfold s5, s4. proj. unfold sl. f_equal. lia. }
        rewrite Hq in *. replace (NJ =? 0) with false in * by lia.
        replace (Z.min NJ n) with 0 in * by lia. cbn [Z.to_nat fb_loop rev] in *. proj.
        replace (earliest s5 =? next s5) with true in * by (unfold s5, s4; proj; symmetry; exact Eeq).
        exists (mkg (acc g ++ ids) (gret g) (- gsub g)).
        assert (ids = []) by (destruct ids; [reflexivity|cbn in n; lia]). subst ids.
        unfold call_spec. cbn [out_jobs acc gret gbase map length]. rewrite app_nil_r.
        split; [|split; [reflexivity|split; [lia|split; [reflexivity|constructor]]]].
        unfold Inv, gsub, sl. cbn [acc gret gbase]. fold (gsub g). proj.
        split; [lia|]. split; [lia|]. split.
        { unfold slot. replace (- gsub g + gsub g) with 0 by lia. rewrite Z.mod_0_l by lia. lia. }
        split. { replace (gsub g =? gret g) with true by lia. reflexivity. }
        intros k Hk. lia.
      * (* full *)
        assert (Hfull : gsub g + n - gret g = NJ).
        { destruct (Z.eq_dec (gsub g + n - gret g) NJ); auto. exfalso.
          apply (sl_neq g (gret g) (gsub g + n)); lia. }
        set (s5 := set_errno 0 (set_earliest (sl g (gret g)) s4)) in *.
        assert (HF : InvF s5 g1).
        { unfold InvF. rewrite Hsub1. unfold s5, s4. proj. change (sl g1) with (sl g).
          change (gret g1) with (gret g).
          split; [lia|]. split; [lia|]. split; [reflexivity|]. split; [reflexivity|]. exact Hc. }
        assert (Hn1 : 1 <= n) by lia.
        pose proof (flush_burst_body_spec s5 g1 n D2 HF (proj1 Hn0) (or_introl Hn1) Hflag) as H.
        destruct (flush_burst_body SZ NJ n D2 s5) as [[s' o] b]. destruct H as (g' & (H1 & H2 & H3 & H4 & H5) & _).
        exists g'. unfold call_spec. cbn [acc gret] in *. rewrite app_nil_r in H2.
        split; [exact H1|]. split; [exact H2|]. split; [exact H3|]. split; [exact H4|exact H5].
  - (* some jobs remain *)
    assert (Hne : gret g + n_ret <> gsub g + n) by (intro E; rewrite E, Z.eqb_refl in Eeq; discriminate).
    assert (Hnf : gsub g + n - (gret g + n_ret) <> NJ).
    { intro E. assert (sl g (gsub g + n) = sl g (gret g + n_ret)).
      { replace (gsub g + n) with (gret g + n_ret + NJ) by lia. apply slot_period. }
      lia. }
    exists (mkg (acc g ++ ids) (gret g + n_ret) (gbase g)).
    unfold call_spec. cbn [out_jobs acc gret gbase]. rewrite map_length, Hlen.
    split; [|split; [reflexivity|split; [lia|split]]].
    + unfold Inv. rewrite gsub_app. fold n. cbn [acc gret gbase]. proj.
      split; [lia|]. split; [lia|]. split; [reflexivity|]. split.
      { replace (gsub g + n =? gret g + n_ret) with false by lia. reflexivity. }
      intros k Hk. apply Hc. lia.
    + rewrite out_ids_jobs. apply Hids. reflexivity.
    + apply jobs_done_forall. exact Hdone.
Qed.

Lemma burst_pre_reject s g c n js s' o :
  Inv s g -> burst_pre SZ NJ MAXB c n js s = Some (s', o) ->
  Inv s' g /\ exists m, o = OReject m.
Proof.
  intros HI H. unfold burst_pre in H. destruct c; [|discriminate].
  destruct js as [l|].
  2:{ inversion H; subst. split; [apply inv_set_errno; exact HI|eauto]. }
  destruct (n >? MAXB). { inversion H; subst. split; [apply inv_set_errno; exact HI|eauto]. }
  destruct (queue_sz_remaining SZ NJ s <? n). { inversion H; subst. split; [apply inv_set_errno; exact HI|eauto]. }
  destruct (burst_validate SZ NJ l (next s)) as [|e mark]; [discriminate|].
  inversion H; subst. split; [|eauto].
  destruct mark as [[p pid]|].
  - destruct (0 <=? p); [apply inv_set_stat|]; destruct e; try apply inv_set_errno; exact HI.
  - destruct e; try apply inv_set_errno; exact HI.
Qed.

Lemma burst_pre_none_space s c n l :
  burst_pre SZ NJ MAXB c n (Some l) s = None -> c = true -> n <= queue_sz_remaining SZ NJ s.
Proof.
  intros H Hc. subst c. unfold burst_pre in H.
  destruct (n >? MAXB); [discriminate|].
  destruct (queue_sz_remaining SZ NJ s <? n) eqn:E; [discriminate|]. lia.
Qed.

Lemma submit_burst_spec s g c n js D D2 :
  Inv s g -> okr s (SubmitBurst c n js D D2) = true ->
  exists g', call_spec g (accepted (SubmitBurst c n js D D2) (snd (stepr s (SubmitBurst c n js D D2))))
                       (fst (stepr s (SubmitBurst c n js D D2))) (snd (stepr s (SubmitBurst c n js D D2))) g'.
Proof.
  intros HI Hok. unfold okr, op_ok in Hok. unfold stepr, step. cbn [step3] in *.
  apply andb_true_iff in Hok. destruct Hok as [Hflag Hpre].
  apply andb_true_iff in Hpre. destruct Hpre as [Hn0 Hpre].
  unfold submit_burst in *.
  pose proof (inv_set_errno s g 0 HI) as HI0. set (s0 := set_errno 0 s) in *.
  destruct (burst_pre SZ NJ MAXB c n js s0) as [[s' o]|] eqn:Epre.
  - destruct (burst_pre_reject s0 g c n js s' o HI0 Epre) as (HI' & m & ->).
    cbn [fst snd]. replace (accepted (SubmitBurst c n js D D2) (OReject m)) with (@nil Z)
      by (destruct js; reflexivity).
    apply (ex_intro _ g). apply call_spec_nojobs; [exact HI'|reflexivity].
  - destruct js as [l|].
    2:{ (* NULL array: only the checked entry point, which refuses it *)
        rewrite Hpre in Epre. cbn in Epre. discriminate. }
    apply andb_true_iff in Hpre. destruct Hpre as [Hlen Hpre].
    assert (Hlen' : Z.of_nat (length l) = n).
    { apply orb_true_iff in Hlen. destruct Hlen as [Hbig|Hlen]; [|lia].
      apply andb_true_iff in Hbig. destruct Hbig as [-> Hbig]. unfold burst_pre in Epre.
      rewrite Hbig in Epre. discriminate. }
    clear Hlen. rename Hlen' into Hlen.
    assert (Hrem : n <= queue_sz_remaining SZ NJ s0).
    { destruct c.
      - apply (burst_pre_none_space s0 true n l Epre eq_refl).
      - cbn [orb] in Hpre. apply andb_true_iff in Hpre. destruct Hpre as [H1 _].
        change (queue_sz_remaining SZ NJ s0) with (queue_sz_remaining SZ NJ s). lia. }
    unfold queue_sz_remaining in Hrem. rewrite (queue_sz_inv s0 g HI0) in Hrem.
    pose proof HI0 as (Hr & Hsz & Hnx & He & Hc).
    set (ids := map bj_id l).
    assert (Hnl : n = Z.of_nat (length ids)) by (unfold ids; rewrite map_length; lia).
    set (s1 := if earliest s0 <? 0 then set_earliest (next s0) s0 else s0) in *.
    assert (H1 : earliest s1 = sl g (gret g) /\ next s1 = next s0 /\ cont s1 = cont s0).
    { unfold s1. destruct (gsub g =? gret g) eqn:E.
      - rewrite He. cbn [Z.ltb Z.compare]. proj. rewrite Hnx. repeat split; auto. f_equal. lia.
      - rewrite He. pose proof (sl_nonneg g (gret g)).
        replace (sl g (gret g) <? 0) with false by lia. rewrite He. auto. }
    destruct H1 as (He1 & Hn1 & Hc1). rewrite Hn1, Hnx in *.
    pose proof (burst_fill_spec g l (gsub g) s1) as BF.
    destruct BF as (B1 & B2 & B3 & B4 & B5); [lia|].
    set (s2 := burst_fill SZ NJ l (sl g (gsub g)) s1) in *.
    pose proof (burst_post_spec (complete_set D s2) g ids D2) as BP. cbv zeta in BP.
    rewrite <- Hnl in BP.
    assert (Hgoal : let '(s', o, _) := burst_post SZ NJ n D2 (complete_set D s2) in
                    exists g', call_spec g ids s' o g').
    { apply BP; try lia.
      - proj. rewrite B2. exact Hn1.
      - proj. rewrite B1. exact He1.
      - intros k Hk. proj. destruct (Z_lt_ge_dec k (gsub g)) as [Hlt|Hge].
        + rewrite B5.
          * rewrite Hc1. unfold s0. proj. rewrite gid_old by lia. apply Hc. lia.
          * intros i Hi. apply sl_neq. lia.
        + replace k with (gsub g + Z.of_nat (Z.to_nat (k - gsub g))) by lia.
          rewrite B4 by lia. unfold gid. cbn [acc]. rewrite gid_app_new by lia.
          rewrite Nat2Z.id. reflexivity. }
    destruct (burst_post SZ NJ n D2 (complete_set D s2)) as [[s' o] b] eqn:EP.
    cbn [fst snd].
    assert (Hacc : accepted (SubmitBurst c n (Some l) D D2) o = ids).
    { unfold burst_post in EP.
      repeat match type of EP with
      | (if ?b then _ else _) = _ => destruct b
      | (let s := _ in _) = _ => cbv zeta in EP
      end.
      all: try (inversion EP; subst; reflexivity).
      all: unfold flush_burst_body in EP;
        repeat match type of EP with
        | (if ?b then _ else _) = _ => destruct b
        | (let '(s, l) := ?x in _) = _ => destruct x
        end; inversion EP; subst; reflexivity. }
    rewrite Hacc. exact Hgoal.
Qed.

(* ---------- traces ---------- *)

Fixpoint trace (s : st) (ops : list op) : list (op * out) :=
  match ops with
  | [] => []
  | o :: t => let '(s1, r) := stepr s o in (o, r) :: trace s1 t
  end.
Fixpoint final (s : st) (ops : list op) : st :=
  match ops with [] => s | o :: t => final (fst (stepr s o)) t end.

Definition all_accepted (tr : list (op * out)) : list Z := flat_map (fun x => accepted (fst x) (snd x)) tr.
Definition all_returned (tr : list (op * out)) : list Z := flat_map (fun x => out_ids (snd x)) tr.
Definition all_jobs (tr : list (op * out)) : list (Z * Z * Z) := flat_map (fun x => out_jobs (snd x)) tr.

Lemma seg_app_l l x a n : (a + n <= length l)%nat -> seg (l ++ x) a n = seg l a n.
Proof.
  intros H. unfold seg. rewrite skipn_app. rewrite firstn_app.
  rewrite skipn_length. replace (n - (length l - a))%nat with O by lia.
  cbn. apply app_nil_r.
Qed.

Lemma seg_cat l a n m : seg l a n ++ seg l (a + n) m = seg l a (n + m).
Proof.
  unfold seg. revert l a. induction n; intros l a.
  - cbn. rewrite Nat.add_0_r. reflexivity.
  - destruct (skipn a l) as [|x r] eqn:E.
    + cbn. assert (skipn (a + S n) l = []).
      { apply skipn_all2. assert (length (skipn a l) = 0%nat) by (rewrite E; reflexivity).
        rewrite skipn_length in H. lia. }
      rewrite H. rewrite firstn_nil. reflexivity.
    + cbn [firstn Nat.add app]. f_equal.
      replace (a + S n)%nat with (S a + n)%nat by lia.
      pose proof (skipn_S_cons a l x r E) as E2. rewrite <- E2. apply IHn.
Qed.

Lemma out_ids_length o : length (out_ids o) = length (out_jobs o).
Proof. unfold out_ids. apply map_length. Qed.

(* one call, any operation of the job API *)
Definition is_job_op (o : op) : bool :=
  match o with GetNext | Submit _ _ _ _ | Flush _ | GetCompleted | QueueSize => true | _ => false end.

Lemma job_step_spec s g o :
  Inv s g -> is_job_op o = true -> okr s o = true ->
  exists g', call_spec g (accepted o (snd (stepr s o))) (fst (stepr s o)) (snd (stepr s o)) g'.
Proof.
  intros HI Hj Hok. unfold okr, op_ok in Hok. unfold stepr, step.
  destruct o; try discriminate; cbn [step3 fst snd accepted] in *.
  - (* GetNext *)
    pose proof (get_next_spec s g HI) as H. destruct (get_next s) as [s' o'] eqn:E. destruct H as (H1 & H2 & _).
    exists g. subst o'. unfold call_spec. cbn [fst snd out_jobs length accepted]. rewrite app_nil_r.
    split; [exact H1|]. split; [reflexivity|]. split; [lia|]. split; [reflexivity|constructor].
  - (* Submit *)
    rewrite andb_true_r in Hok.
    pose proof (submit_spec s g check verdict id D HI Hok) as H.
    destruct (submit SZ NJ check verdict id D s) as [[s' o'] b]. destruct H as (g' & H & _). exists g'. exact H.
  - (* Flush *)
    rewrite andb_true_r in Hok.
    pose proof (flush_spec s g D HI Hok) as H.
    destruct (flush SZ NJ D s) as [[s' o'] b]. destruct H as (g' & H & _). exists g'. exact H.
  - (* GetCompleted *)
    pose proof (get_completed_spec s g HI) as H.
    destruct (get_completed SZ NJ s) as [s' o']. destruct H as (g' & H & _). exists g'. exact H.
  - (* QueueSize *)
    pose proof (queue_size_spec s g HI) as H.
    destruct (queue_size SZ NJ s) as [s' o']. destruct H as (H1 & H2).
    exists g. subst o'. unfold call_spec. cbn [fst snd out_jobs length accepted]. rewrite app_nil_r.
    split; [exact H1|]. split; [reflexivity|]. split; [lia|]. split; [reflexivity|constructor].
Qed.

(* ---------- whole histories ---------- *)
Section Histories.
(* [good o]: the class of operations for which the one-call lemma is available *)
Variable good : op -> bool.
Hypothesis step_spec : forall s g o, Inv s g -> good o = true -> okr s o = true ->
  exists g', call_spec g (accepted o (snd (stepr s o))) (fst (stepr s o)) (snd (stepr s o)) g'.

Lemma history_spec ops : forall s g,
  Inv s g -> forallb good ops = true -> ops_ok SZ NJ MAXB s ops = true ->
  exists g', Inv (final s ops) g' /\ acc g' = acc g ++ all_accepted (trace s ops) /\
    gret g' = gret g + Z.of_nat (length (all_returned (trace s ops))) /\
    all_returned (trace s ops) = seg (acc g') (Z.to_nat (gret g)) (length (all_returned (trace s ops))) /\
    Forall (fun j => ST_COMPLETED <= jstat j) (all_jobs (trace s ops)).
Proof.
  induction ops as [|o t IH]; intros s g HI Hg Hok.
  - exists g. cbn. rewrite app_nil_r. split; [exact HI|]. split; [reflexivity|]. split; [lia|]. split; [reflexivity|constructor].
  - cbn [forallb] in Hg. apply andb_true_iff in Hg. destruct Hg as [Hgo Hgt].
    cbn [ops_ok] in Hok. apply andb_true_iff in Hok. destruct Hok as [Hoko Hokt].
    destruct (step_spec s g o HI Hgo Hoko) as (g1 & HI1 & Hacc1 & Hret1 & Hids1 & Hst1).
    cbn [trace final]. unfold stepr in *. fold (step SZ NJ MAXB s o).
    destruct (step SZ NJ MAXB s o) as [s1 r1] eqn:Es. cbn [fst snd] in *.
    destruct (IH s1 g1 HI1 Hgt Hokt) as (g' & HI' & Hacc' & Hret' & Hids' & Hst').
    exists g'. unfold all_accepted, all_returned, all_jobs in *. cbn [flat_map fst snd].
    rewrite !app_length. rewrite out_ids_length in *.
    set (n2 := length (flat_map (fun x : op * out => out_ids (snd x)) (trace s1 t))) in *.
    split; [exact HI'|]. split; [rewrite Hacc', Hacc1, app_assoc; reflexivity|].
    split; [rewrite Hret', Hret1; lia|]. split; [|apply Forall_app; split; assumption].
    rewrite Hids1, Hids'. rewrite Hacc'.
    assert (Hb : (Z.to_nat (gret g) + length (out_jobs r1) <= length (acc g1))%nat).
    { destruct HI1 as (Hr & _). unfold gsub in Hr. destruct HI as (Hr0 & _). lia. }
    rewrite <- (seg_app_l (acc g1) (flat_map (fun x => accepted (fst x) (snd x)) (trace s1 t))) by exact Hb.
    replace (Z.to_nat (gret g1)) with (Z.to_nat (gret g) + length (out_jobs r1))%nat
      by (destruct HI as (Hr0 & _); lia).
    apply seg_cat.
Qed.
End Histories.

(* ---------- every operation ---------- *)
Lemma all_step_spec s g o :
  Inv s g -> okr s o = true ->
  exists g', call_spec g (accepted o (snd (stepr s o))) (fst (stepr s o)) (snd (stepr s o)) g'.
Proof.
  intros HI Hok.
  destruct (is_job_op o) eqn:Ej; [apply job_step_spec; assumption|].
  destruct o; try discriminate.
  - (* GetNextBurst *)
    unfold okr, op_ok in Hok. apply andb_true_iff in Hok. destruct Hok as [_ Hn].
    unfold stepr, step. cbn [step3 fst snd accepted].
    pose proof (get_next_burst_spec s g jobs_null n_req HI) as H.
    destruct (get_next_burst SZ NJ MAXB jobs_null n_req s) as [s' o'].
    destruct H as (H1 & H2 & _); [lia|].
    exists g. apply call_spec_nojobs; assumption.
  - apply submit_burst_spec; assumption.
  - (* FlushBurst *)
    unfold okr, op_ok in Hok. apply andb_true_iff in Hok. destruct Hok as [Hflag Hm].
    unfold stepr, step in *. cbn [step3 fst snd accepted] in *.
    pose proof (flush_burst_spec s g jobs_null max_jobs D HI) as H.
    destruct (flush_burst SZ NJ jobs_null max_jobs D s) as [[s' o'] b].
    destruct H as (g' & H & _); [lia|exact Hflag|]. exists g'. exact H.
Qed.

(* a manager as init leaves it: empty ring, next_job anywhere (the self test has used the ring) *)
Definition empty_at (s : st) (m : Z) : Prop := earliest s = -1 /\ next s = SZ * m /\ 0 <= m < NJ.

Lemma inv_empty_at s m : empty_at s m -> Inv s (mkg [] 0 m).
Proof.
  intros (He & Hn & Hm). unfold Inv, gsub, sl, slot. cbn [acc gret gbase length].
  split; [lia|]. split; [lia|]. split; [rewrite Hn, Z.add_0_r, Z.mod_small by lia; reflexivity|].
  split; [exact He|]. intros; lia.
Qed.

Lemma seg0_firstn l n : seg l 0 n = firstn n l.
Proof. reflexivity. Qed.

Theorem fifo_history s0 m ops :
  empty_at s0 m -> ops_ok SZ NJ MAXB s0 ops = true ->
  let tr := trace s0 ops in
  all_returned tr = firstn (length (all_returned tr)) (all_accepted tr) /\
  Forall (fun j => ST_COMPLETED <= jstat j) (all_jobs tr) /\
  queue_sz SZ NJ (final s0 ops) = Z.of_nat (length (all_accepted tr)) - Z.of_nat (length (all_returned tr)) /\
  (length (all_returned tr) <= length (all_accepted tr))%nat.
Proof.
  intros He Hok tr.
  destruct (history_spec (fun _ => true) (fun s g o HI _ Ho => all_step_spec s g o HI Ho) ops s0 (mkg [] 0 m))
    as (g' & HI & Hacc & Hret & Hids & Hst).
  - apply inv_empty_at. exact He.
  - clear. induction ops; cbn; auto.
  - exact Hok.
  - cbn [acc gret app] in *. fold tr in Hacc, Hret, Hids, Hst. rewrite Hacc in *.
    cbn [Z.to_nat] in Hids. rewrite seg0_firstn in Hids.
    split; [exact Hids|]. split; [exact Hst|].
    rewrite (queue_sz_inv _ _ HI). destruct HI as (Hr & _). unfold gsub in *. rewrite Hacc in *.
    split; lia.
Qed.

(* the state reached by a history, with its ghost: used for the statements about single calls *)
Lemma reach_inv s0 m ops :
  empty_at s0 m -> ops_ok SZ NJ MAXB s0 ops = true ->
  exists g, Inv (final s0 ops) g /\ acc g = all_accepted (trace s0 ops) /\
            gret g = Z.of_nat (length (all_returned (trace s0 ops))).
Proof.
  intros He Hok.
  destruct (history_spec (fun _ => true) (fun s g o HI _ Ho => all_step_spec s g o HI Ho) ops s0 (mkg [] 0 m))
    as (g' & HI & Hacc & Hret & _).
  - apply inv_empty_at. exact He.
  - clear. induction ops; cbn; auto.
  - exact Hok.
  - exists g'. cbn [acc gret app] in *. split; [exact HI|]. split; [exact Hacc|]. lia.
Qed.

Definition pending_count (s0 : st) (ops : list op) : Z :=
  Z.of_nat (length (all_accepted (trace s0 ops))) - Z.of_nat (length (all_returned (trace s0 ops))).

Theorem queue_size_exact_thm s0 m ops :
  empty_at s0 m -> ops_ok SZ NJ MAXB s0 ops = true ->
  snd (stepr (final s0 ops) QueueSize) = ONum (pending_count s0 ops).
Proof.
  intros He Hok. destruct (reach_inv s0 m ops He Hok) as (g & HI & Hacc & Hret).
  pose proof (queue_size_spec _ g HI) as H. unfold stepr, step. cbn [step3 fst snd].
  destruct (queue_size SZ NJ (final s0 ops)) as [s' o]. destruct H as (_ & ->).
  unfold pending_count, gsub. rewrite Hacc, Hret. reflexivity.
Qed.

Lemma flush_out_shape D s : exists j, snd (fst (flush SZ NJ D s)) = OJob j.
Proof. unfold flush. destruct (earliest (set_errno 0 s) <? 0); cbn [fst snd]; eauto. Qed.

Theorem flush_progress_thm s0 m ops D :
  empty_at s0 m -> ops_ok SZ NJ MAXB s0 ops = true -> okr (final s0 ops) (Flush D) = true ->
  (snd (stepr (final s0 ops) (Flush D)) = OJob None <-> pending_count s0 ops = 0).
Proof.
  intros He Hok Hokf. destruct (reach_inv s0 m ops He Hok) as (g & HI & Hacc & Hret).
  unfold okr, op_ok in Hokf. rewrite andb_true_r in Hokf. cbn [step3] in Hokf.
  pose proof (flush_spec _ g D HI Hokf) as H. unfold stepr, step. cbn [step3 fst snd].
  destruct (flush_out_shape D (final s0 ops)) as (jo & Hshape).
  destruct (flush SZ NJ D (final s0 ops)) as [[s' o] b]. destruct H as (g' & _ & _ & Hlen).
  cbn [fst snd] in Hshape. subst o.
  assert (Hpc : pending_count s0 ops = gsub g - gret g) by (unfold pending_count, gsub; rewrite Hacc, Hret; reflexivity).
  rewrite Hpc. cbn [fst snd]. destruct (gsub g =? gret g) eqn:E.
  - split; [lia|]. intros _. destruct jo as [j|]; cbn in Hlen; [discriminate|reflexivity].
  - split; [|lia]. intros Hnone. inversion Hnone; subst jo. cbn in Hlen. discriminate.
Qed.

Theorem flush_burst_count_thm s0 m ops mx D :
  empty_at s0 m -> ops_ok SZ NJ MAXB s0 ops = true -> okr (final s0 ops) (FlushBurst false mx D) = true ->
  length (out_jobs (snd (stepr (final s0 ops) (FlushBurst false mx D)))) = Z.to_nat (Z.min (pending_count s0 ops) mx).
Proof.
  intros He Hok Hokf. destruct (reach_inv s0 m ops He Hok) as (g & HI & Hacc & Hret).
  unfold okr, op_ok in Hokf. apply andb_true_iff in Hokf. destruct Hokf as [Hflag Hm]. cbn [step3] in Hflag.
  pose proof (flush_burst_spec _ g false mx D HI) as H. unfold stepr, step. cbn [step3 fst snd].
  destruct (flush_burst SZ NJ false mx D (final s0 ops)) as [[s' o] b].
  destruct H as (g' & _ & Hlen); [lia|exact Hflag|]. cbn [fst snd].
  rewrite Hlen by reflexivity. unfold pending_count, gsub. rewrite Hacc, Hret. reflexivity.
Qed.

Theorem full_forces_oldest_thm s0 m ops c v id D :
  empty_at s0 m -> ops_ok SZ NJ MAXB s0 ops = true -> okr (final s0 ops) (Submit c v id D) = true ->
  pending_count s0 ops = NJ - 1 ->
  length (out_jobs (snd (stepr (final s0 ops) (Submit c v id D)))) = 1%nat.
Proof.
  intros He Hok Hoks Hfull. destruct (reach_inv s0 m ops He Hok) as (g & HI & Hacc & Hret).
  unfold okr, op_ok in Hoks. rewrite andb_true_r in Hoks. cbn [step3] in Hoks.
  pose proof (submit_spec _ g c v id D HI Hoks) as H. unfold stepr, step. cbn [step3 fst snd].
  destruct (submit SZ NJ c v id D (final s0 ops)) as [[s' o] b]. destruct H as (g' & _ & _ & _ & Hf).
  cbn [fst snd]. apply Hf. unfold pending_count, gsub in *. rewrite Hacc, Hret. exact Hfull.
Qed.

(* the ring never holds IMB_MAX_JOBS jobs between calls *)
Theorem never_full_between_calls s0 m ops :
  empty_at s0 m -> ops_ok SZ NJ MAXB s0 ops = true -> 0 <= pending_count s0 ops <= NJ - 1.
Proof.
  intros He Hok. destruct (reach_inv s0 m ops He Hok) as (g & (Hr & Hsz & _) & Hacc & Hret).
  unfold pending_count, gsub in *. rewrite Hacc, Hret in *. lia.
Qed.

(* slots offered for filling never hold a job still awaiting return *)
Fixpoint walk (n : nat) (o : Z) : list Z :=
  match n with O => [] | S k => o :: walk k (adv SZ NJ o) end.
Definition pending_slots (s : st) : list Z := walk (Z.to_nat (queue_sz SZ NJ s)) (earliest s).

Lemma walk_slots g n : forall r, walk n (sl g r) = slots SZ NJ (gbase g) r n.
Proof. induction n; intros r; cbn [walk slots]; [reflexivity|]. rewrite adv_sl, IHn. reflexivity. Qed.

Lemma slots_in g n : forall r x, In x (slots SZ NJ (gbase g) r n) -> exists k, r <= k < r + Z.of_nat n /\ x = sl g k.
Proof.
  induction n; intros r x H; cbn [slots] in H; [contradiction|].
  destruct H as [<-|H].
  - exists r. split; [lia|reflexivity].
  - destruct (IHn (r + 1) x H) as (k & Hk & ->). exists k. split; [lia|reflexivity].
Qed.

Lemma slots_nodup g n : forall r, Z.of_nat n <= NJ -> NoDup (slots SZ NJ (gbase g) r n).
Proof.
  induction n; intros r Hn; cbn [slots]; constructor.
  - intro Hin. destruct (slots_in g n (r + 1) _ Hin) as (k & Hk & E).
    apply (sl_neq g r k); [lia|exact E].
  - apply IHn. lia.
Qed.

Theorem offered_slots_not_pending s0 m ops :
  empty_at s0 m -> ops_ok SZ NJ MAXB s0 ops = true ->
  let s := final s0 ops in
  (* the pending slots hold, in order, exactly the ids accepted and not yet handed back *)
  map (cont s) (pending_slots s)
    = skipn (length (all_returned (trace s0 ops))) (all_accepted (trace s0 ops)) /\
  (* GET_NEXT_JOB *)
  ~ In (next s) (pending_slots s) /\
  (* GET_NEXT_BURST *)
  forall n l, 0 <= n <= MAXB -> snd (get_next_burst SZ NJ MAXB false n s) = OSlots l ->
    length l = Z.to_nat (Z.min (NJ - pending_count s0 ops) n) /\ NoDup l /\
    forall x, In x l -> ~ In x (pending_slots s).
Proof.
  intros He Hok s. destruct (reach_inv s0 m ops He Hok) as (g & HI & Hacc & Hret). fold s in HI.
  pose proof HI as (Hr & Hsz & Hn & Hee & Hc).
  assert (Hps : pending_slots s = slots SZ NJ (gbase g) (gret g) (Z.to_nat (gsub g - gret g))).
  { unfold pending_slots. rewrite (queue_sz_inv s g HI).
    destruct (gsub g =? gret g) eqn:E.
    - replace (gsub g - gret g) with 0 by lia. reflexivity.
    - rewrite Hee. apply walk_slots. }
  assert (Hpc : pending_count s0 ops = gsub g - gret g) by (unfold pending_count, gsub; rewrite Hacc, Hret; reflexivity).
  split; [|split].
  - rewrite Hps. rewrite (ids_seg (cont s) g _ (gret g)); [| lia | lia | intros; apply Hc; lia].
    unfold seg. rewrite <- Hacc. replace (length (all_returned (trace s0 ops))) with (Z.to_nat (gret g)) by lia.
    apply firstn_all2. rewrite skipn_length. unfold gsub. lia.
  - rewrite Hps, Hn. intro Hin. destruct (slots_in g _ _ _ Hin) as (k & Hk & E).
    apply (sl_neq g k (gsub g)); [lia|]. symmetry. exact E.
  - intros n l Hn0 Hout.
    pose proof (get_next_burst_spec s g false n HI (proj1 Hn0)) as H.
    destruct (get_next_burst SZ NJ MAXB false n s) as [s' o]. cbn [snd] in Hout. subst o.
    destruct H as (_ & _ & H). destruct (H eq_refl (proj2 Hn0)) as (Hl & Hdis). inversion Hl; subst l.
    rewrite Hpc. split; [apply slots_length|]. split; [apply slots_nodup; lia|].
    intros x Hx Hp. rewrite Hps in Hp. destruct (slots_in g _ _ _ Hp) as (k & Hk & ->).
    apply (Hdis k); [lia|exact Hx].
Qed.

End RingProofs.
