(* Proofs/KeyPrepDES.v — the DES key schedule is a pure bit SELECTION of the key.

   Main results (all closed under the global context):

     des_key_schedule_is_selection :
       forall k : N, des_key_schedule_N k = des_key_schedule_sel k.
       (every key, no width hypothesis: both sides only look at bits 0..63 of k)

     des_key_sel_facts :
       the symbolic table [des_key_sel] has 16 rows; every row has 48 pairwise distinct
       entries, all in 1..64 and none a parity bit (multiple of 8).

   Route: [permute g (map idx2 tbl) x] is [bits_to_N] of the listed FIPS bits (generic, any table
   within range); [N.testbit (bits_to_N l) i = nth i (rev l) false]; from this the split
   (>> 28, & mask28), the concatenation (c << 28 | d) and the 28-bit rotation are list operations
   on MSB-first bit lists; induction over the shift schedule. *)
From Coq Require Import List NArith Bool Lia Arith.
From IMB Require Import Lib.Bytes Spec.DES Spec.KeyPrep.
Import ListNotations.
Local Open Scope N_scope.

(* ------------------------------------------------------------------------------------------ *)
(* 1. bits_msb / groups_msb / permute                                                         *)
(* ------------------------------------------------------------------------------------------ *)
Lemma bits_msb_nth : forall w x acc b,
  nth b (bits_msb w x acc) false =
  if (b <? w)%nat then N.testbit x (N.of_nat (w - 1 - b)) else nth (b - w) acc false.
Proof.
  induction w as [|w IH]; intros x acc b.
  - simpl. now rewrite Nat.sub_0_r.
  - cbn [bits_msb]. rewrite IH.
    destruct (Nat.ltb_spec b w) as [Hlt|Hge].
    + destruct (Nat.ltb_spec b (S w)) as [_|?]; [|lia].
      rewrite N.div2_spec, N.shiftr_spec by apply N.le_0_l.
      replace (S w - 1 - b)%nat with (S (w - 1 - b)) by lia.
      rewrite Nat2N.inj_succ. f_equal. lia.
    + destruct (Nat.ltb_spec b (S w)) as [Hlt'|Hge'].
      * assert (b = w) by lia. subst b.
        replace (w - w)%nat with 0%nat by lia.
        replace (S w - 1 - w)%nat with 0%nat by lia.
        cbn [nth N.of_nat]. now rewrite N.bit0_odd.
      * replace (b - w)%nat with (S (b - S w)) by lia. reflexivity.
Qed.

Lemma groups_msb_nth : forall g x acc a,
  nth a (groups_msb g x acc) [] =
  if (a <? g)%nat then bits_msb 8 (N.shiftr x (N.of_nat (8 * (g - 1 - a)))) []
  else nth (a - g) acc [].
Proof.
  induction g as [|g IH]; intros x acc a.
  - cbn [groups_msb]. now rewrite Nat.sub_0_r.
  - cbn [groups_msb]. rewrite IH.
    destruct (Nat.ltb_spec a g) as [Hlt|Hge].
    + destruct (Nat.ltb_spec a (S g)) as [_|?]; [|lia].
      rewrite N.shiftr_shiftr. f_equal. f_equal. lia.
    + destruct (Nat.ltb_spec a (S g)) as [Hlt'|Hge'].
      * assert (a = g) by lia. subst a.
        replace (g - g)%nat with 0%nat by lia.
        replace (S g - 1 - g)%nat with 0%nat by lia.
        cbn [nth]. now rewrite N.shiftr_0_r.
      * replace (a - g)%nat with (S (a - S g)) by lia. reflexivity.
Qed.

(* the two-level lookup is FIPS bit t *)
Lemma groups_lookup : forall g x t, (1 <= t <= 8 * g)%nat ->
  nth (Nat.modulo (t - 1) 8) (nth (Nat.div (t - 1) 8) (groups_msb g x []) []) false =
  fips_bit (8 * g) x t.
Proof.
  intros g x t Ht. unfold fips_bit.
  pose proof (Nat.div_mod (t - 1) 8 ltac:(lia)) as Hdm.
  pose proof (Nat.mod_upper_bound (t - 1) 8 ltac:(lia)) as Hb.
  set (a := Nat.div (t - 1) 8) in *. set (b := Nat.modulo (t - 1) 8) in *.
  assert (Ha : (a < g)%nat) by lia.
  rewrite groups_msb_nth.
  destruct (Nat.ltb_spec a g) as [_|?]; [|lia].
  rewrite bits_msb_nth.
  destruct (Nat.ltb_spec b 8) as [_|?]; [|lia].
  rewrite N.shiftr_spec by apply N.le_0_l.
  f_equal. lia.
Qed.

Lemma fold_left_map_ext : forall (A B C : Type) (f : C -> A -> C) (h : C -> B -> C) (p : A -> B) l acc,
  (forall x c, In x l -> f c x = h c (p x)) ->
  fold_left f l acc = fold_left h (map p l) acc.
Proof.
  induction l as [|x l IH]; intros acc H; cbn [fold_left map]; [reflexivity|].
  rewrite H by now left. apply IH. intros; apply H; now right.
Qed.

Theorem permute_is_selection : forall g tbl x,
  Forall (fun t => (1 <= t <= 8 * g)%nat) tbl ->
  permute g (map idx2 tbl) x = bits_to_N (map (fips_bit (8 * g) x) tbl).
Proof.
  intros g tbl x Hr. unfold permute, bits_to_N.
  rewrite <- (fold_left_map_ext _ _ _
     (fun acc t => if fips_bit (8 * g) x t then N.succ_double acc else N.double acc)
     (fun acc (b : bool) => if b then N.succ_double acc else N.double acc)
     (fips_bit (8 * g) x) tbl 0) by reflexivity.
  symmetry.
  apply (fold_left_map_ext _ _ _
     (fun acc t => if fips_bit (8 * g) x t then N.succ_double acc else N.double acc)
     (fun acc (ab : nat * nat) => let (a, b) := ab in
        if nth b (nth a (groups_msb g x []) []) false then N.succ_double acc else N.double acc)
     idx2 tbl 0).
  intros t c Hin. unfold idx2.
  rewrite Forall_forall in Hr. now rewrite groups_lookup by auto.
Qed.

(* ------------------------------------------------------------------------------------------ *)
(* 2. the bits of [bits_to_N l]: bit i is the i-th element of [rev l]                          *)
(* ------------------------------------------------------------------------------------------ *)
Definition bt (l : list bool) (i : N) : bool := nth (N.to_nat i) (rev l) false.

Lemma lsb_fold_testbit : forall r i,
  N.testbit (fold_right (fun (b : bool) acc => if b then N.succ_double acc else N.double acc) 0 r) i
  = nth (N.to_nat i) r false.
Proof.
  induction r as [|b r IH]; intro i.
  - cbn [fold_right]. rewrite N.bits_0. now destruct (N.to_nat i).
  - cbn [fold_right].
    set (X := fold_right _ 0 r) in *.
    destruct (N.eq_dec i 0) as [->|Hnz].
    + cbn [N.to_nat nth]. destruct b.
      * rewrite N.succ_double_spec. apply N.testbit_odd_0.
      * rewrite N.double_spec. apply N.testbit_even_0.
    + replace i with (N.succ (N.pred i)) by (apply N.succ_pred; exact Hnz).
      rewrite N2Nat.inj_succ. cbn [nth]. rewrite <- IH. destruct b.
      * rewrite N.succ_double_spec. apply N.testbit_odd_succ, N.le_0_l.
      * rewrite N.double_spec. apply N.testbit_even_succ, N.le_0_l.
Qed.

Lemma bits_to_N_testbit : forall l i, N.testbit (bits_to_N l) i = bt l i.
Proof.
  intros l i. unfold bt. rewrite <- lsb_fold_testbit. f_equal.
  unfold bits_to_N. symmetry.
  apply (fold_left_rev_right
           (fun (b : bool) acc => if b then N.succ_double acc else N.double acc)).
Qed.

Lemma bt_app : forall l1 l2 i,
  bt (l1 ++ l2) i =
  if i <? N.of_nat (length l2) then bt l2 i else bt l1 (i - N.of_nat (length l2)).
Proof.
  intros l1 l2 i. unfold bt. rewrite rev_app_distr.
  destruct (N.ltb_spec i (N.of_nat (length l2))) as [Hlt|Hge].
  - apply app_nth1. rewrite rev_length. lia.
  - rewrite app_nth2 by (rewrite rev_length; lia).
    rewrite rev_length. f_equal. lia.
Qed.

Lemma bt_high : forall l i, N.of_nat (length l) <= i -> bt l i = false.
Proof. intros l i H. unfold bt. apply nth_overflow. rewrite rev_length. lia. Qed.

Lemma land_mask28_testbit : forall x i,
  N.testbit (N.land x mask28) i = if i <? 28 then N.testbit x i else false.
Proof.
  intros x i. change mask28 with (N.ones 28). rewrite N.land_ones.
  destruct (N.ltb_spec i 28).
  - now apply N.mod_pow2_bits_low.
  - now apply N.mod_pow2_bits_high.
Qed.

(* c = cd >> 28 : drop the last 28 bits *)
Lemma bits_shiftr28 : forall l1 l2, length l2 = 28%nat ->
  N.shiftr (bits_to_N (l1 ++ l2)) 28 = bits_to_N l1.
Proof.
  intros l1 l2 H2. apply N.bits_inj; intro i.
  rewrite N.shiftr_spec by apply N.le_0_l.
  rewrite !bits_to_N_testbit, bt_app, H2.
  destruct (N.ltb_spec (i + 28) (N.of_nat 28)); [lia|].
  f_equal. lia.
Qed.

(* d = cd & mask28 : keep the last 28 bits *)
Lemma bits_land28 : forall l1 l2, length l2 = 28%nat ->
  N.land (bits_to_N (l1 ++ l2)) mask28 = bits_to_N l2.
Proof.
  intros l1 l2 H2. apply N.bits_inj; intro i.
  rewrite land_mask28_testbit, !bits_to_N_testbit, bt_app, H2.
  change (N.of_nat 28) with 28.
  destruct (N.ltb_spec i 28); [reflexivity|].
  symmetry. apply bt_high. lia.
Qed.

(* (c << 28) | d : concatenation *)
Lemma bits_concat28 : forall l1 l2, length l2 = 28%nat ->
  N.lor (N.shiftl (bits_to_N l1) 28) (bits_to_N l2) = bits_to_N (l1 ++ l2).
Proof.
  intros l1 l2 H2. apply N.bits_inj; intro i.
  rewrite N.lor_spec, !bits_to_N_testbit, bt_app, H2.
  change (N.of_nat 28) with 28.
  destruct (N.ltb_spec i 28).
  - now rewrite N.shiftl_spec_low.
  - rewrite N.shiftl_spec_high by (try apply N.le_0_l; assumption).
    rewrite bits_to_N_testbit, (bt_high l2) by lia. apply orb_false_r.
Qed.

(* 28-bit rotation = list rotation *)
Lemma rotl28_app : forall l1 l2 s, s <= 28 ->
  N.of_nat (length l1) = s -> N.of_nat (length l2) = 28 - s ->
  rotl28 (bits_to_N (l1 ++ l2)) s = bits_to_N (l2 ++ l1).
Proof.
  intros l1 l2 s Hs H1 H2. unfold rotl28. apply N.bits_inj; intro i.
  rewrite land_mask28_testbit, N.lor_spec.
  rewrite N.shiftr_spec by apply N.le_0_l.
  rewrite land_mask28_testbit.
  rewrite !bits_to_N_testbit. rewrite (bt_app l2 l1), H1.
  destruct (N.ltb_spec i 28) as [Hi|Hi].
  - destruct (N.ltb_spec i s) as [His|His].
    + rewrite N.shiftl_spec_low by assumption. cbn [orb].
      destruct (N.ltb_spec (i + (28 - s)) 28); [|lia].
      rewrite bt_app, H2.
      destruct (N.ltb_spec (i + (28 - s)) (28 - s)); [lia|].
      f_equal. lia.
    + rewrite N.shiftl_spec_high by (try apply N.le_0_l; assumption).
      destruct (N.ltb_spec (i + (28 - s)) 28); [lia|].
      rewrite orb_false_r, bits_to_N_testbit, bt_app, H2.
      destruct (N.ltb_spec (i - s) (28 - s)); [reflexivity|lia].
  - destruct (N.ltb_spec i s) as [His|His]; [lia|].
    symmetry. apply bt_high. lia.
Qed.

Lemma rotl28_list : forall l s, length l = 28%nat -> s <= 28 ->
  rotl28 (bits_to_N l) s = bits_to_N (rotl_list (N.to_nat s) l).
Proof.
  intros l s Hl Hs. unfold rotl_list.
  rewrite <- (firstn_skipn (N.to_nat s) l) at 1.
  apply rotl28_app; [assumption| |].
  - rewrite firstn_length_le by lia. apply N2Nat.id.
  - rewrite skipn_length, Hl. lia.
Qed.

Lemma map_rotl_list : forall (A B : Type) (f : A -> B) n l,
  map f (rotl_list n l) = rotl_list n (map f l).
Proof. intros. unfold rotl_list. now rewrite map_app, firstn_map, skipn_map. Qed.

Lemma rotl_list_length : forall (A : Type) n (l : list A), length (rotl_list n l) = length l.
Proof.
  intros. unfold rotl_list. rewrite app_length, skipn_length, firstn_length. lia.
Qed.

(* ------------------------------------------------------------------------------------------ *)
(* 3. the key schedule                                                                         *)
(* ------------------------------------------------------------------------------------------ *)
Lemma fips_bit_bits_to_N : forall L p, (1 <= p <= length L)%nat ->
  fips_bit (length L) (bits_to_N L) p = nth (p - 1) L false.
Proof.
  intros L p Hp. unfold fips_bit. rewrite bits_to_N_testbit. unfold bt.
  rewrite Nat2N.id, rev_nth by lia. f_equal. lia.
Qed.

(* a table-driven selection applied to a number given by its MSB-first bit list *)
Lemma permute_bits : forall g tbl L, length L = (8 * g)%nat ->
  Forall (fun t => (1 <= t <= 8 * g)%nat) tbl ->
  permute g (map idx2 tbl) (bits_to_N L) = bits_to_N (map (fun p => nth (p - 1) L false) tbl).
Proof.
  intros g tbl L HL Hr. rewrite permute_is_selection by assumption.
  f_equal. apply map_ext_in. intros p Hp.
  rewrite Forall_forall in Hr. rewrite <- HL. apply fips_bit_bits_to_N.
  rewrite HL. auto.
Qed.

Lemma range_check : forall n tbl,
  forallb (fun t => (1 <=? t)%nat && (t <=? n)%nat) tbl = true ->
  Forall (fun t => (1 <= t <= n)%nat) tbl.
Proof.
  intros n tbl H. rewrite forallb_forall in H. apply Forall_forall. intros t Ht.
  apply H in Ht. apply andb_true_iff in Ht as [H1 H2].
  apply Nat.leb_le in H1, H2. lia.
Qed.

(* closed finite facts about the literal FIPS tables *)
Lemma des_PC1_idx_eq : des_PC1_idx = map idx2 des_PC1_tbl.
Proof. vm_compute. reflexivity. Qed.
Lemma des_PC2_idx_eq : des_PC2_idx = map idx2 des_PC2_tbl.
Proof. vm_compute. reflexivity. Qed.
Lemma des_PC1_range : Forall (fun t => (1 <= t <= 8 * 8)%nat) des_PC1_tbl.
Proof. apply range_check. vm_compute. reflexivity. Qed.
Lemma des_PC2_range : Forall (fun t => (1 <= t <= 8 * 7)%nat) des_PC2_tbl.
Proof. apply range_check. vm_compute. reflexivity. Qed.
Lemma des_PC1_C0_length : length (firstn 28 des_PC1_tbl) = 28%nat.
Proof. vm_compute. reflexivity. Qed.
Lemma des_PC1_D0_length : length (skipn 28 des_PC1_tbl) = 28%nat.
Proof. vm_compute. reflexivity. Qed.
Lemma des_shifts_range : Forall (fun s => s <= 28) des_shifts.
Proof. unfold des_shifts. repeat (constructor; [lia|]). constructor. Qed.

(* PC-2 on (C,D) given as lists of key-bit numbers, under any bit valuation f *)
Lemma des_PC2_sel : forall (f : nat -> bool) cl dl,
  length cl = 28%nat -> length dl = 28%nat ->
  des_PC2 (bits_to_N (map f cl)) (bits_to_N (map f dl)) =
  bits_to_N (map f (map (fun p => nth (p - 1) (cl ++ dl) 0%nat) des_PC2_tbl)).
Proof.
  intros f cl dl Hc Hd. unfold des_PC2.
  rewrite bits_concat28 by (now rewrite map_length).
  rewrite <- map_app, des_PC2_idx_eq.
  assert (HL : length (map f (cl ++ dl)) = (8 * 7)%nat)
    by (rewrite map_length, app_length, Hc, Hd; reflexivity).
  rewrite permute_bits by (exact HL || exact des_PC2_range).
  f_equal. rewrite map_map. apply map_ext_in. intros p Hp.
  pose proof des_PC2_range as Hr. rewrite Forall_forall in Hr. specialize (Hr p Hp).
  rewrite (nth_indep _ false (f 0%nat)) by (rewrite HL; lia).
  apply map_nth.
Qed.

(* the rounds, for any shift schedule with shifts <= 28 and any bit valuation f *)
Lemma des_ks_rounds_sel : forall (f : nat -> bool) shifts cl dl,
  length cl = 28%nat -> length dl = 28%nat ->
  Forall (fun s => s <= 28) shifts ->
  des_ks_rounds shifts (bits_to_N (map f cl)) (bits_to_N (map f dl)) =
  map (fun sel => bits_to_N (map f sel)) (des_sel_rounds shifts cl dl).
Proof.
  intros f shifts. induction shifts as [|s shifts IH]; intros cl dl Hc Hd Hs.
  - reflexivity.
  - inversion Hs as [|? ? Hs1 Hs2]; subst.
    cbn [des_ks_rounds des_sel_rounds map].
    rewrite !rotl28_list by (rewrite ?map_length; assumption).
    rewrite <- !map_rotl_list.
    rewrite des_PC2_sel by (now rewrite rotl_list_length).
    f_equal. apply IH; try assumption; now rewrite rotl_list_length.
Qed.

Theorem des_key_schedule_is_selection :
  forall k : N, des_key_schedule_N k = des_key_schedule_sel k.
Proof.
  intro k. unfold des_key_schedule_N, des_key_schedule_sel, des_key_sel. cbv zeta.
  rewrite des_PC1_idx_eq, (permute_is_selection 8 des_PC1_tbl k des_PC1_range).
  change (8 * 8)%nat with 64%nat.
  set (f := fips_bit 64 k).
  assert (Hsplit : map f des_PC1_tbl =
                   map f (firstn 28 des_PC1_tbl) ++ map f (skipn 28 des_PC1_tbl))
    by now rewrite <- map_app, firstn_skipn.
  rewrite Hsplit.
  rewrite bits_shiftr28, bits_land28 by (rewrite map_length; apply des_PC1_D0_length).
  apply des_ks_rounds_sel.
  - apply des_PC1_C0_length.
  - apply des_PC1_D0_length.
  - apply des_shifts_range.
Qed.
Print Assumptions des_key_schedule_is_selection.

(* ------------------------------------------------------------------------------------------ *)
(* 4. the selection table: 16 x 48 distinct non-parity key bits                                *)
(* ------------------------------------------------------------------------------------------ *)
Fixpoint nodupb (l : list nat) : bool :=
  match l with
  | [] => true
  | x :: t => negb (existsb (Nat.eqb x) t) && nodupb t
  end.

Lemma nodupb_sound : forall l, nodupb l = true -> NoDup l.
Proof.
  induction l as [|x t IH]; intro H; [constructor|].
  cbn [nodupb] in H. apply andb_true_iff in H as [Hx Ht].
  constructor; [|now apply IH].
  intro Hin. apply negb_true_iff in Hx.
  assert (existsb (Nat.eqb x) t = true)
    by (apply existsb_exists; exists x; split; [assumption|apply Nat.eqb_refl]).
  congruence.
Qed.

Definition sel_okb (sel : list nat) : bool :=
  (length sel =? 48)%nat && nodupb sel &&
  forallb (fun t => (1 <=? t)%nat && (t <=? 64)%nat && negb (Nat.modulo t 8 =? 0)%nat) sel.

Lemma sel_okb_sound : forall sel, sel_okb sel = true ->
  length sel = 48%nat /\ NoDup sel /\
  Forall (fun t => (1 <= t <= 64)%nat /\ Nat.modulo t 8 <> 0%nat) sel.
Proof.
  intros sel H. unfold sel_okb in H.
  apply andb_true_iff in H as [H Hall]. apply andb_true_iff in H as [Hlen Hnd].
  split; [now apply Nat.eqb_eq|]. split; [now apply nodupb_sound|].
  apply Forall_forall. intros t Ht. rewrite forallb_forall in Hall. apply Hall in Ht.
  apply andb_true_iff in Ht as [Ht Hpar]. apply andb_true_iff in Ht as [H1 H2].
  apply Nat.leb_le in H1, H2. apply negb_true_iff, Nat.eqb_neq in Hpar.
  split; [lia|assumption].
Qed.

Lemma des_key_sel_check :
  (length des_key_sel =? 16)%nat && forallb sel_okb des_key_sel = true.
Proof. vm_compute. reflexivity. Qed.

Theorem des_key_sel_facts :
  length des_key_sel = 16%nat /\
  Forall (fun sel => length sel = 48%nat /\ NoDup sel /\
                     Forall (fun t => (1 <= t <= 64)%nat /\ Nat.modulo t 8 <> 0%nat) sel)
         des_key_sel.
Proof.
  pose proof des_key_sel_check as H. apply andb_true_iff in H as [Hlen Hall].
  split; [now apply Nat.eqb_eq|].
  apply Forall_forall. intros sel Hsel. apply sel_okb_sound.
  rewrite forallb_forall in Hall. now apply Hall.
Qed.
Print Assumptions des_key_sel_facts.
