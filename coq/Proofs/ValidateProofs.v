(* Proofs/ValidateProofs.v -- the generated image of is_job_invalid() (Gen/GenValidate.v) against the
   declarative catalogue (Mgr/Validate.v), for ALL jobs (no bound on any length).

   Method.  [agree r rs j] relates the result [r] of a piece of the C image to a rule list:
       r = Some e  ->  some rule of rs mapped to e is violated by j
       r = None    ->  (j outside the known doc-vs-code discrepancies ->) all rules of rs hold.
   It is proved per case group of the two C switches ("family") by a GENERIC tactic that walks the
   generated if-chain one condition at a time ([walk]); at a [Some e] leaf it searches the rule list
   for a rule with that errno whose violation follows from the path condition ([pick_rule]), at the
   final [None] leaf it proves every rule from the negated conditions ([all_ok]); arithmetic by lia
   (masks turned into mod, Z.div_mod_to_equations).  Nothing in the scripts depends on the ORDER of
   the checks in the C; a changed bound, a dropped check or a wrong errno makes a leaf fail. *)
From Coq Require Import NArith List Bool Lia ZArith ZifyBool ZifyN String.
From IMB Require Import Lib.Bytes Gen.GenEnums Mgr.JobView Gen.GenValidate Mgr.Validate.
Import ListNotations.
Local Open Scope N_scope.
Ltac Zify.zify_post_hook ::= Z.div_mod_to_equations.

(* ------------------------------------------------------------------------------------------ *)
(* agreement relation and its algebra                                                          *)
(* ------------------------------------------------------------------------------------------ *)
Definition agree (r : option N) (rs : list rule) (j : job_view) : Prop :=
  match r with
  | Some e => violated_with e rs j = true
  | None => outside_known_discrepancies j = true -> rules_ok rs j = true
  end.

Lemma viol_here e r t j : r_err r = e -> holds (r_cond r) j = false -> violated_with e (r :: t) j = true.
Proof. intros He Hh. unfold violated_with. cbn [existsb]. rewrite He, Hh, N.eqb_refl. reflexivity. Qed.
Lemma viol_skip e r t j : violated_with e t j = true -> violated_with e (r :: t) j = true.
Proof. unfold violated_with. cbn [existsb]. intros ->. apply orb_true_r. Qed.
Lemma ok_cons r t j : holds (r_cond r) j = true -> rules_ok t j = true -> rules_ok (r :: t) j = true.
Proof. unfold rules_ok. cbn [forallb]. intros -> ->. reflexivity. Qed.
Lemma ok_nil j : rules_ok [] j = true. Proof. reflexivity. Qed.

Lemma violated_app e a b j : violated_with e (a ++ b) j = violated_with e a j || violated_with e b j.
Proof. unfold violated_with. apply existsb_app. Qed.
Lemma rules_ok_app a b j : rules_ok (a ++ b) j = rules_ok a j && rules_ok b j.
Proof. unfold rules_ok. apply forallb_app. Qed.

Lemma violated_not_ok e rs j : violated_with e rs j = true -> rules_ok rs j = false.
Proof.
  unfold violated_with, rules_ok. induction rs as [|r t IH]; cbn [existsb forallb]; [discriminate|].
  intros H. apply orb_true_iff in H. destruct H as [H|H].
  - apply andb_true_iff in H. destruct H as [_ H]. apply negb_true_iff in H. rewrite H. reflexivity.
  - rewrite (IH H). apply andb_false_r.
Qed.
Lemma violated_in e rs j : violated_with e rs j = true -> In e (violations_of rs j).
Proof.
  unfold violated_with, violations_of. induction rs as [|r t IH]; cbn [existsb flat_map]; [discriminate|].
  intros H. apply in_or_app. apply orb_true_iff in H. destruct H as [H|H].
  - left. apply andb_true_iff in H. destruct H as [He H]. apply negb_true_iff in H. rewrite H.
    apply N.eqb_eq in He. left. exact He.
  - right. exact (IH H).
Qed.

(* ------------------------------------------------------------------------------------------ *)
(* arithmetic normalisation: masks -> mod                                                      *)
(* ------------------------------------------------------------------------------------------ *)
Lemma land_1 x : N.land x 1 = x mod 2. Proof. change 1 with (N.ones 1). apply N.land_ones. Qed.
Lemma land_3 x : N.land x 3 = x mod 4. Proof. change 3 with (N.ones 2). apply N.land_ones. Qed.
Lemma land_7 x : N.land x 7 = x mod 8. Proof. change 7 with (N.ones 3). apply N.land_ones. Qed.
Lemma land_15 x : N.land x 15 = x mod 16. Proof. change 15 with (N.ones 4). apply N.land_ones. Qed.
Lemma land_m16 x : N.land x 65535 = x mod 65536. Proof. change 65535 with (N.ones 16). apply N.land_ones. Qed.
Lemma land_m32 x : N.land x 4294967295 = x mod 4294967296. Proof. change 4294967295 with (N.ones 32). apply N.land_ones. Qed.
Lemma land_m64 x : N.land x 18446744073709551615 = x mod 18446744073709551616.
Proof. change 18446744073709551615 with (N.ones 64). apply N.land_ones. Qed.

Ltac norm_arith :=
  unfold add64, sub64, mul64, sub32, shl64, w16, w32, w64, mask16, mask32, mask64 in *;
  rewrite ?land_1, ?land_3, ?land_7, ?land_15, ?land_m16, ?land_m32, ?land_m64 in *.

(* ------------------------------------------------------------------------------------------ *)
(* well-formedness as propositions                                                             *)
(* ------------------------------------------------------------------------------------------ *)
Definition two64 : N := 18446744073709551616.
Definition two32 : N := 4294967296.
Record widths (j : job_view) : Prop := mk_widths {
  wd_enc_keys : jv_enc_keys j < two64; wd_dec_keys : jv_dec_keys j < two64; wd_key_len : jv_key_len_in_bytes j < two64;
  wd_src : jv_src j < two64; wd_dst : jv_dst j < two64; wd_coff : jv_cipher_start_src_offset j < two64;
  wd_clen : jv_msg_len_to_cipher j < two64; wd_hoff : jv_hash_start_src_offset j < two64;
  wd_hlen : jv_msg_len_to_hash j < two64; wd_iv : jv_iv j < two64; wd_ivlen : jv_iv_len_in_bytes j < two64;
  wd_tag : jv_auth_tag_output j < two64; wd_taglen : jv_auth_tag_output_len j < two64;
  wd_u0 : jv_u0 j < two64; wd_u1 : jv_u1 j < two64; wd_u2 : jv_u2 j < two64;
  wd_cm : jv_cipher_mode j < two32; wd_dir : jv_cipher_direction j < two32; wd_ha : jv_hash_alg j < two32;
  wd_order : jv_chain_order j < two32; wd_sgl : jv_sgl_state j < two32; wd_next_iv : jv_next_iv j < two64;
  wd_xgem : jv_mem_xgem_hdr j < two64;
  wd_segs : forallb seg_ok (jv_sgl_segs j) = true }.

Lemma wf_widths j : well_formed j = true -> widths j.
Proof.
  unfold well_formed, widths_ok, u64_ok, u32_ok. intros H.
  apply andb_true_iff in H. destruct H as [H _].
  repeat match type of H with (_ && _ = true) => apply andb_true_iff in H; destruct H as [H ?] end.
  repeat match goal with H : (_ <? _) = true |- _ => apply N.ltb_lt in H end.
  constructor; assumption.
Qed.
Lemma wf_sgl j : well_formed j = true -> uses_sgl_array j = true -> sgl_view_ok j = true.
Proof.
  unfold well_formed. intros H U. apply andb_true_iff in H. destruct H as [_ H]. rewrite U in H. exact H.
Qed.

(* bring into the context the width facts about the fields that occur in the goal or hypotheses *)
Ltac pose_width W f lem :=
  lazymatch goal with
  | _ : f _ < _ |- _ => idtac
  | _ => first [ match goal with
                 | |- context [f _] => pose proof (lem _ W)
                 | _ : context [f _] |- _ => pose proof (lem _ W)
                 end | idtac ]
  end.
Ltac widths_in W :=
  pose_width W jv_key_len_in_bytes wd_key_len; pose_width W jv_src wd_src; pose_width W jv_dst wd_dst;
  pose_width W jv_cipher_start_src_offset wd_coff; pose_width W jv_msg_len_to_cipher wd_clen;
  pose_width W jv_hash_start_src_offset wd_hoff; pose_width W jv_msg_len_to_hash wd_hlen;
  pose_width W jv_iv_len_in_bytes wd_ivlen; pose_width W jv_auth_tag_output_len wd_taglen;
  pose_width W jv_u1 wd_u1; pose_width W jv_u2 wd_u2; pose_width W jv_mem_xgem_hdr wd_xgem;
  unfold two64, two32 in *.

(* ------------------------------------------------------------------------------------------ *)
(* the generic tactics                                                                         *)
(* ------------------------------------------------------------------------------------------ *)
(* walk the C image: one condition at a time, outermost first *)
Ltac walk :=
  repeat lazymatch goal with
  | |- agree (if ?c then _ else _) _ _ => let H := fresh "C" in destruct c eqn:H
  | |- agree (oseq (if ?c then _ else _) _) _ _ => let H := fresh "C" in destruct c eqn:H
  | |- agree (oseq (oseq ?a ?b) ?c) _ _ => change (oseq (oseq a b) c) with (oseq a (oseq b c))
  | |- agree (oseq (Some _) _) _ _ => unfold oseq at 1
  | |- agree (oseq None _) _ _ => unfold oseq at 1
  end.

Lemma oseq_assoc a b c : oseq (oseq a b) c = oseq a (oseq b c).
Proof. destruct a; reflexivity. Qed.

(* catalogue vocabulary: everything that must be unfolded to see a rule as a boolean formula *)
Ltac cat :=
  cbn [holds r_cond r_err r_name existsb forallb app
       KeyLenIn IvLenIn IvLenBetween TagLenIn TagLenBetween CipherLenBetween CipherLenMultipleOf HashLenBetween
       PairedWithHash PairedWithCipher ChainOrderIs SglStateIn Encrypting Decrypting CipherLenNonZero HashLenNonZero
       HasAad SglPerSegment SglAll
       r_src r_dst r_iv r_src_if_len r_dst_if_len r_enc_keys r_enc_keys_if_enc r_dec_keys_if_dec r_key_len r_iv_len
       r_cipher_len_min r_cipher_len r_cipher_len_mult r_pair_hash r_pair_cipher r_tag r_tag_len r_tag_len_between
       r_hash_len r_hash_src r_hash_src_if_len r_aad r_cmac_keys] in *.

Ltac arith := gen_enums_unfold; unfold MB_MAX_LEN16 in *; lia.

Ltac pick_rule :=
  first [ apply viol_here; [ reflexivity | cat; arith ]
        | apply viol_skip; pick_rule ].
Ltac all_ok :=
  repeat (apply ok_cons; [ cat; arith | ]); apply ok_nil.

(* expose a rule list as an explicit cons list *)
Ltac open_rules :=
  cbn [app sgl_rules
       rules_CBC rules_CBCS_1_9 rules_ECB rules_CNTR rules_CNTR_BITLEN rules_NULL rules_DOCSIS_SEC_BPI rules_GCM
       rules_GCM_SGL rules_SM4_GCM rules_CUSTOM rules_DES rules_DOCSIS_DES rules_DES3 rules_CCM rules_PON
       rules_ZUC_EEA3 rules_SNOW3G_UEA2 rules_KASUMI_UEA1 rules_CHACHA20 rules_CHACHA20_POLY1305
       rules_CHACHA20_POLY1305_SGL rules_SNOW_V rules_SNOW_V_AEAD rules_SM4_ECB rules_SM4_CBC rules_SM4_CNTR rules_CFB
       rules_HMAC rules_XCBC rules_AUTH_NULL rules_CRC rules_AES_GMAC rules_GCM_SGL_HASH rules_GMAC_STANDALONE
       rules_GHASH rules_AUTH_CUSTOM rules_AES_CCM rules_CMAC rules_CMAC_BITLEN rules_SHA rules_PON_CRC_BIP
       rules_ZUC_EIA3 rules_ZUC256_EIA3 rules_DOCSIS_CRC32 rules_SNOW3G_UIA2 rules_KASUMI_UIA1 rules_POLY1305
       rules_CHACHA20_POLY1305_HASH rules_CHACHA20_POLY1305_SGL_HASH rules_SNOW_V_AEAD_HASH rules_SM3 rules_HMAC_SM3
       rules_SM4_GCM_HASH].

Ltac open_outside H :=
  unfold outside_known_discrepancies, disc_D1_chacha_pairing, disc_D2_key_len_truncated, disc_D4_cbcs_key_len,
         disc_D6_sm4_key_len, disc_D8_docsis_offset_wraps in H.

Ltac leaf W :=
  unfold agree; open_rules;
  lazymatch goal with
  | |- violated_with _ _ _ = true => widths_in W; pick_rule
  | |- _ -> rules_ok _ _ = true => let Ho := fresh "Hout" in intros Ho; open_outside Ho; widths_in W; all_ok
  end.

(* a cipher family: [body] is the generated case-group body *)
Ltac family body :=
  let W := fresh "W" in
  intros Hwf Hdir Hcm; pose proof (wf_widths _ Hwf) as W;
  try rewrite Hcm; cbv beta zeta delta [body]; norm_arith; gen_enums_unfold;
  walk; leaf W.

Definition dir_ok (j : job_view) : Prop :=
  jv_cipher_direction j = IMB_DIR_ENCRYPT \/ jv_cipher_direction j = IMB_DIR_DECRYPT \/ jv_cipher_mode j = IMB_CIPHER_NULL.

Notation cargs j := (jv_hash_alg j) (only parsing).

Lemma fam_CBC j : well_formed j = true -> dir_ok j -> jv_cipher_mode j = IMB_CIPHER_CBC ->
  agree (is_job_invalid_sw1_IMB_CIPHER_CBC j (jv_cipher_mode j) (jv_hash_alg j) (jv_cipher_direction j) (w32 (jv_key_len_in_bytes j))) rules_CBC j.
Proof. Time family is_job_invalid_sw1_IMB_CIPHER_CBC. Time Qed.

Lemma fam_CBCS j : well_formed j = true -> dir_ok j -> jv_cipher_mode j = IMB_CIPHER_CBCS_1_9 ->
  agree (is_job_invalid_sw1_IMB_CIPHER_CBC j (jv_cipher_mode j) (jv_hash_alg j) (jv_cipher_direction j) (w32 (jv_key_len_in_bytes j))) rules_CBCS_1_9 j.
Proof. Time family is_job_invalid_sw1_IMB_CIPHER_CBC. Time Qed.
